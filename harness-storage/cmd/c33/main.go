// C33 — storage backends never reuse an object key.
//
// Keys are observed at the backend boundary: a fake S3 endpoint (the real AWS
// SDK pointed at an httptest server, static credentials, path style) logs the
// key of every `PUT /bucket/key`; a fake GCS endpoint (STORAGE_EMULATOR_HOST)
// logs the `name=` parameter of every object insert.  The real
// S3Storage.Upload / GCSStorage.Upload are called sequentially and from many
// goroutines released on a barrier.  For volume, the verif-tagged export of
// the S3 key generator is driven in a tight loop, from many goroutines, and
// from several processes released on a barrier.
//
// Oracle: set membership — two uploads (or two generated keys) with the same
// object key is the refuting event.  Every upload also carries a payload with
// a unique id and the fake backends log which payload was written under which
// key: a key holding another upload's data, a returned URL whose key was never
// written, or one upload's data under two keys refute "no externalized payload
// is ever overwritten by another call's data" even when the key GENERATOR is
// fine (e.g. a request struct shared between concurrent calls).
package main

import (
	"bytes"
	"crypto/sha256"
	"encoding/binary"
	"encoding/hex"
	"encoding/json"
	"fmt"
	"io"
	"net/http"
	"net/http/httptest"
	"net/url"
	"os"
	"path/filepath"
	"runtime"
	"sort"
	"strings"
	"sync"
	"sync/atomic"
	"time"

	"github.com/apache/arrow-go/v18/arrow"

	vgigcs "github.com/Query-farm/vgi-rpc-go/vgirpc/gcs"
	vgis3 "github.com/Query-farm/vgi-rpc-go/vgirpc/s3"

	"verif/harness/pkg/monx"
)

type key16 [16]byte

func packKey(k string) key16 {
	var out key16
	if len(k) == 36 {
		if b, err := hex.DecodeString(strings.ReplaceAll(k, "-", "")); err == nil && len(b) == 16 {
			copy(out[:], b)
			return out
		}
	}
	h := sha256.Sum256([]byte(k))
	copy(out[:], h[:16])
	return out
}

// dupes sorts keys and returns the number of keys that repeat an earlier one
// plus one example.
func dupes(keys []key16) (int, key16) {
	sort.Slice(keys, func(i, j int) bool { return string(keys[i][:]) < string(keys[j][:]) })
	n := 0
	var ex key16
	for i := 1; i < len(keys); i++ {
		if keys[i] == keys[i-1] {
			if n == 0 {
				ex = keys[i]
			}
			n++
		}
	}
	return n, ex
}

func dupeStrings(keys []string) (int, []string) {
	seen := map[string]int{}
	n := 0
	var ex []string
	for _, k := range keys {
		seen[k]++
		if seen[k] == 2 {
			if len(ex) < 5 {
				ex = append(ex, k)
			}
		}
		if seen[k] >= 2 {
			n++
		}
	}
	return n, ex
}

// ---------------------------------------------------------------------------
// Fake backends

type fakeS3 struct {
	mu   sync.Mutex
	keys []string
	ids  []string // payload id carried by the body of keys[i] ("" = none recognisable)
	srv  *httptest.Server
}

// payloadID extracts the upload id every harness payload carries
// ("...|id=<n>|END"); "" when the body holds none (or a mangled one).
func payloadID(body []byte) string {
	i := bytes.Index(body, []byte("|id="))
	if i < 0 {
		return ""
	}
	rest := body[i+4:]
	j := bytes.Index(rest, []byte("|END"))
	if j < 0 {
		return ""
	}
	return string(rest[:j])
}

func (f *fakeS3) ServeHTTP(w http.ResponseWriter, req *http.Request) {
	body, _ := io.ReadAll(req.Body)
	if req.Method == http.MethodPut {
		// path style: /bucket/key...
		p := strings.TrimPrefix(req.URL.Path, "/")
		if i := strings.IndexByte(p, '/'); i >= 0 {
			f.mu.Lock()
			f.keys = append(f.keys, p[i+1:])
			f.ids = append(f.ids, payloadID(body))
			f.mu.Unlock()
		}
		w.Header().Set("ETag", `"d41d8cd98f00b204e9800998ecf8427e"`)
		w.WriteHeader(http.StatusOK)
		return
	}
	w.WriteHeader(http.StatusOK)
}

func (f *fakeS3) take() ([]string, []string) {
	f.mu.Lock()
	defer f.mu.Unlock()
	k, ids := f.keys, f.ids
	f.keys, f.ids = nil, nil
	return k, ids
}

type fakeGCS struct {
	mu   sync.Mutex
	keys []string
	ids  []string
	srv  *httptest.Server
}

func (f *fakeGCS) ServeHTTP(w http.ResponseWriter, req *http.Request) {
	body, _ := io.ReadAll(req.Body)
	q := req.URL.Query()
	if req.Method == http.MethodPost && strings.Contains(req.URL.Path, "/upload/") {
		name := q.Get("name")
		if name == "" {
			// multipart metadata part carries {"name": ...}
			if i := strings.Index(string(body), `"name":"`); i >= 0 {
				rest := string(body)[i+8:]
				if j := strings.IndexByte(rest, '"'); j >= 0 {
					name = rest[:j]
				}
			}
		}
		f.mu.Lock()
		f.keys = append(f.keys, name)
		f.ids = append(f.ids, payloadID(body))
		f.mu.Unlock()
		w.Header().Set("Content-Type", "application/json")
		_ = json.NewEncoder(w).Encode(map[string]any{"kind": "storage#object", "bucket": "verif-bucket", "name": name,
			"generation": "1", "metageneration": "1", "size": fmt.Sprint(len(body))})
		return
	}
	w.Header().Set("Content-Type", "application/json")
	w.WriteHeader(http.StatusNotFound)
	_, _ = w.Write([]byte(`{"error":{"code":404,"message":"not found"}}`))
}

func (f *fakeGCS) take() ([]string, []string) {
	f.mu.Lock()
	defer f.mu.Unlock()
	k, ids := f.keys, f.ids
	f.keys, f.ids = nil, nil
	return k, ids
}

// ---------------------------------------------------------------------------

type uploader interface {
	Upload(data []byte, schema *arrow.Schema, contentEncoding string) (string, error)
}

// upRes is what one Upload call returned.
type upRes struct {
	ID    string // payload id carried by the body
	Phase string // sequential | concurrent
	URL   string
	Err   string
	Panic string
}

// uploadArm drives uploads through st: first `seq` sequentially in a
// tight loop, then `perG` rounds in which `goroutines` goroutines are released
// together and call Upload once each. Every upload carries a payload with a
// unique id, so the backend log says whose data ended up under which key.
// Returns errors seen (GCS: the offline SignedURL step fails after the object
// insert — expected) and one upRes per call. A panic inside Upload is
// recovered and recorded (the run goes on: the backend log decides).
func uploadArm(backend string, st uploader, seq, goroutines, perG int) (errs map[string]int, res []upRes) {
	errs = map[string]int{}
	var mu sync.Mutex
	note := func(u upRes) {
		mu.Lock()
		defer mu.Unlock()
		res = append(res, u)
		s := u.Err
		if u.Panic != "" {
			s = "panic: " + u.Panic
		}
		if s == "" {
			return
		}
		if len(s) > 60 {
			s = s[:60]
		}
		errs[s]++
	}
	schema := arrow.NewSchema([]arrow.Field{{Name: "x", Type: arrow.PrimitiveTypes.Int64}}, nil)
	var next atomic.Int64
	one := func(phase string, enc string) {
		id := fmt.Sprintf("%s-%d", backend, next.Add(1))
		u := upRes{ID: id, Phase: phase}
		defer func() {
			if p := recover(); p != nil {
				u.Panic = fmt.Sprint(p)
			}
			note(u)
		}()
		payload := []byte("ARROW-IPC-PLACEHOLDER|id=" + id + "|END")
		url, err := st.Upload(payload, schema, enc)
		u.URL = url
		if err != nil {
			u.Err = err.Error()
		}
	}
	for i := 0; i < seq; i++ {
		one("sequential", []string{"", "zstd"}[i%2])
	}
	// concurrent phase: perG rounds; in each round all goroutines are released
	// together and call Upload once (the key is generated at the start of Upload)
	phaseStart := time.Now()
	for round := 0; round < perG; round++ {
		roundStart := time.Now()
		// Spin barrier rather than a channel close: waking parked goroutines
		// spreads them over many microseconds, spinning ones leave within a
		// few hundred nanoseconds of each other (the interesting window for a
		// clock-derived key is one microsecond).
		var start atomic.Uint32
		var wg, ready sync.WaitGroup
		for g := 0; g < goroutines; g++ {
			wg.Add(1)
			ready.Add(1)
			go func(g int) {
				defer wg.Done()
				ready.Done()
				for n := 0; start.Load() == 0; n++ {
					if n%2000 == 1999 {
						runtime.Gosched()
					}
				}
				one("concurrent", []string{"", "zstd"}[(g+round)%2])
			}(g)
		}
		ready.Wait()
		start.Store(1)
		wg.Wait()
		// Workload limiter, not a verdict: an S3 round normally takes milliseconds, a GCS round
		// (multipart insert + failing SignedURL) up to a few seconds on a loaded machine. When a
		// round takes half a minute or the concurrent phase ten minutes (requests failing or
		// timing out inside the SDK), the remaining rounds are skipped and what was observed so
		// far is judged; the "concurrent-uploads" class then stays unhit, so a run cut short
		// without a violation is INCONCLUSIVE, never "held".
		if time.Since(roundStart) > 30*time.Second || time.Since(phaseStart) > 10*time.Minute {
			mu.Lock()
			errs[fmt.Sprintf("rounds cut short after round %d of %d (slow round)", round+1, perG)]++
			mu.Unlock()
			break
		}
	}
	return errs, res
}

// judgePayloads is the conservation check over unique payload ids: every
// object key holds the data of exactly one upload, no upload's data lands
// under two keys, and (where Upload returns the object's URL) the URL an
// upload was given names the key that holds ITS data and nobody else's.
func judgePayloads(r *monx.Run, backend string, keys, ids []string, res []upRes) {
	byKey := map[string][]string{}
	byID := map[string][]string{}
	unrecognised := 0
	for i, k := range keys {
		byKey[k] = append(byKey[k], ids[i])
		if ids[i] == "" {
			unrecognised++
			continue
		}
		byID[ids[i]] = append(byID[ids[i]], k)
	}
	r.Count(backend+".bodies_without_payload_id", int64(unrecognised))
	panics, okURL, misplaced, lost := 0, 0, 0, 0
	var exMis, exLost []map[string]any
	phaseOf := map[string]bool{}
	for _, u := range res {
		if u.Panic != "" {
			panics++
		}
		if u.URL == "" || u.Err != "" || u.Panic != "" {
			continue
		}
		// The URL is <endpoint>/<bucket>/<key>?<presign query>; find the key
		// among the keys the backend saw by path containment.
		okURL++
		path := u.URL
		if i := strings.IndexByte(path, '?'); i >= 0 {
			path = path[:i]
		}
		if un, err := url.PathUnescape(path); err == nil {
			path = un
		}
		var k string
		if i := strings.Index(path, "/verif-bucket/"); i >= 0 {
			k = path[i+len("/verif-bucket/"):]
		}
		held := byKey[k]
		switch {
		case len(held) == 0:
			lost++
			phaseOf[u.Phase] = true
			if len(exLost) < 3 {
				exLost = append(exLost, map[string]any{"upload": u.ID, "url_key": k, "keys_holding_this_upload": byID[u.ID]})
			}
		case len(held) != 1 || held[0] != u.ID:
			misplaced++
			phaseOf[u.Phase] = true
			if len(exMis) < 3 {
				exMis = append(exMis, map[string]any{"upload": u.ID, "url_key": k, "payloads_written_to_that_key": held, "keys_holding_this_upload": byID[u.ID]})
			}
		}
	}
	r.Count(backend+".uploads_panicked", int64(panics))
	r.Count(backend+".uploads_with_url_checked", int64(okURL))
	if okURL > 0 {
		r.Class(backend + ":url-key-holds-own-payload-checked")
	}
	phase := "sequential"
	if phaseOf["concurrent"] && !phaseOf["sequential"] {
		phase = "concurrent"
	}
	if misplaced > 0 {
		r.Violation(backend+":payload-overwritten:upload:"+phase, fmt.Sprintf("%d of %d successful uploads got a URL whose object key holds another upload's data (or more than one write)", misplaced, okURL),
			map[string]any{"backend": backend, "uploads_checked": okURL, "uploads_whose_key_holds_foreign_data": misplaced, "examples": exMis})
	}
	if lost > 0 {
		r.Violation(backend+":url-key-never-written:upload:"+phase, fmt.Sprintf("%d of %d successful uploads got a URL whose object key was never written at the backend", lost, okURL),
			map[string]any{"backend": backend, "uploads_checked": okURL, "uploads_whose_key_was_never_written": lost, "examples": exLost})
	}
	// one upload's data under two keys (a request struct shared between calls
	// can send one body twice): conservation, independent of URLs
	twice := 0
	var ex []map[string]any
	for id, ks := range byID {
		if len(ks) > 1 {
			twice++
			if len(ex) < 3 {
				ex = append(ex, map[string]any{"upload": id, "keys": ks})
			}
		}
	}
	r.Count(backend+".payloads_written_more_than_once", int64(twice))
	if twice > 0 {
		r.Violation(backend+":payload-written-under-several-keys", fmt.Sprintf("%d uploads had their data written more than once at the backend (another call's key received it)", twice),
			map[string]any{"backend": backend, "uploads_written_more_than_once": twice, "examples": ex})
	}
}

// ---------------------------------------------------------------------------
// Generator arms (verif hook)

func genSequential(n int) []key16 {
	keys := make([]key16, n)
	for i := range keys {
		keys[i] = packKey(vgis3.VerifGenerateKey())
	}
	return keys
}

func genGoroutines(g, per int) []key16 {
	keys := make([]key16, g*per)
	start := make(chan struct{})
	var wg sync.WaitGroup
	for i := 0; i < g; i++ {
		wg.Add(1)
		go func(i int) {
			defer wg.Done()
			<-start
			for j := 0; j < per; j++ {
				keys[i*per+j] = packKey(vgis3.VerifGenerateKey())
			}
		}(i)
	}
	close(start)
	wg.Wait()
	return keys
}

// childGen: input = count(8) | barrier directory. The child announces itself
// with a ready file and spins until the parent creates the "go" file (barrier
// across processes; no clock involved), then generates count keys.
func childGen(in []byte) []byte {
	n := int(binary.LittleEndian.Uint64(in[:8]))
	dir := string(in[8:])
	_ = os.WriteFile(filepath.Join(dir, fmt.Sprintf("ready.%d", os.Getpid())), nil, 0o644)
	goFile := filepath.Join(dir, "go")
	for {
		if _, err := os.Stat(goFile); err == nil {
			break
		}
	}
	out := make([]byte, 16*n)
	for i := 0; i < n; i++ {
		k := packKey(vgis3.VerifGenerateKey())
		copy(out[16*i:], k[:])
	}
	return out
}

func genProcesses(r *monx.Run, procs, per int) (keys []key16, perProc [][]key16, released bool) {
	dir, err := os.MkdirTemp("", "wH-c33-barrier-")
	if err != nil {
		r.Fatal("barrier dir: %v", err)
	}
	defer os.RemoveAll(dir)
	in := make([]byte, 8, 8+len(dir))
	binary.LittleEndian.PutUint64(in[:8], uint64(per))
	in = append(in, dir...)
	perProc = make([][]key16, procs)
	var wg sync.WaitGroup
	var mu sync.Mutex
	for p := 0; p < procs; p++ {
		wg.Add(1)
		go func(p int) {
			defer wg.Done()
			outs, err := monx.RunIsolated("gen", [][]byte{in}, monx.ChildOpt{Timeout: 5 * time.Minute})
			if err != nil || len(outs) != 1 || outs[0].Crashed || outs[0].Panicked || outs[0].TimedOut || len(outs[0].Output) != 16*per {
				r.Inconclusive(fmt.Sprintf("key-generator child %d failed: %v", p, err))
				return
			}
			ks := make([]key16, per)
			for i := range ks {
				copy(ks[i][:], outs[0].Output[16*i:])
			}
			mu.Lock()
			perProc[p] = ks
			mu.Unlock()
		}(p)
	}
	// release the children once all of them are spinning on the barrier
	deadline := time.Now().Add(3 * time.Minute) // watchdog only
	for time.Now().Before(deadline) {
		m, _ := filepath.Glob(filepath.Join(dir, "ready.*"))
		if len(m) >= procs {
			released = true
			break
		}
		time.Sleep(5 * time.Millisecond)
	}
	_ = os.WriteFile(filepath.Join(dir, "go"), nil, 0o644)
	wg.Wait()
	for _, ks := range perProc {
		keys = append(keys, ks...)
	}
	return keys, perProc, released
}

// ---------------------------------------------------------------------------

func main() {
	monx.ChildMain(map[string]monx.ChildFunc{"gen": childGen})
	r := monx.Start("C33")
	defer r.Finish()
	r.SetRule("upload arms: N uploads per backend through the real Upload (a sequential tight loop, then G goroutines released on a barrier), keys read from the fake endpoint's request log; generator arms: the S3 key generator (verif export) in a tight loop, from G goroutines, and from P processes released on a wall-clock barrier; one evaluation = one key observed; distinct = distinct keys")
	r.Require("s3:url-key-holds-own-payload-checked", "s3:upload-observed", "gcs:upload-observed", "s3:concurrent-uploads", "gcs:concurrent-uploads", "s3:generator-sequential", "s3:generator-goroutines", "s3:generator-processes")
	r.Assume("the fake endpoints see the object key exactly as the SDKs put it on the wire (S3: path-style PUT path; GCS: name= of the JSON-API object insert)")
	r.Assume("GCS SignedURL fails offline after the object insert; the key has been observed by then")
	r.Assume("the cross-process barrier is a file created by the parent once every child has announced itself; no clock is involved")

	// --- environment for the SDKs: static credentials, no metadata lookups, no user config
	for k, v := range map[string]string{
		"AWS_ACCESS_KEY_ID": "AKIAVERIFVERIFVERIF", "AWS_SECRET_ACCESS_KEY": "verifverifverifverifverifverifverifverif",
		"AWS_EC2_METADATA_DISABLED": "true", "AWS_REGION": "us-east-1", "AWS_CONFIG_FILE": "/dev/null", "AWS_SHARED_CREDENTIALS_FILE": "/dev/null",
		"AWS_REQUEST_CHECKSUM_CALCULATION": "when_required", "GOOGLE_APPLICATION_CREDENTIALS": "",
		// one attempt per PutObject: the fake endpoint never fails, so a retry can only follow a
		// request the client itself mangled, and then it hides the mangling behind seconds of backoff
		"AWS_MAX_ATTEMPTS": "1",
		"NO_GCE_CHECK":     "true",
	} {
		os.Setenv(k, v)
	}

	// --- S3 uploads
	fs3 := &fakeS3{}
	// The read timeout only matters when a client announces a body it then never sends (a body
	// reader shared between two requests): without it that request and the server wait for each
	// other forever and the run never reaches its verdict.
	fs3.srv = httptest.NewUnstartedServer(fs3)
	fs3.srv.Config.ReadTimeout = 2 * time.Second
	fs3.srv.Start()
	defer fs3.srv.Close()
	s3st, err := vgis3.NewS3Storage("verif-bucket", vgis3.S3Config{Region: "us-east-1", EndpointURL: fs3.srv.URL, Prefix: "c33/"})
	if err != nil {
		r.Fatal("NewS3Storage against the fake endpoint failed: %v", err)
	}
	G := r.N(32, 64)
	perG := r.N(50, 400) // rounds
	seq := r.N(300, 4000)
	t0 := time.Now()
	s3errs, s3res := uploadArm("s3", s3st, seq, G, perG)
	s3keys, s3ids := fs3.take()
	r.Set("s3_upload_errors", s3errs)
	r.Set("s3_upload_wall_s", time.Since(t0).Seconds())
	if len(s3keys) > 0 {
		r.Class("s3:upload-observed")
	}
	if len(s3keys) >= seq+G*perG {
		r.Class("s3:concurrent-uploads")
	}
	r.Count("s3.put_requests", int64(len(s3keys)))
	judgeStrings(r, "s3", s3keys, seq)
	judgePayloads(r, "s3", s3keys, s3ids, s3res)

	// --- GCS uploads
	fg := &fakeGCS{}
	fg.srv = httptest.NewUnstartedServer(fg)
	fg.srv.Config.ReadTimeout = 5 * time.Second
	fg.srv.Start()
	defer fg.srv.Close()
	u, _ := url.Parse(fg.srv.URL)
	os.Setenv("STORAGE_EMULATOR_HOST", u.Host)
	// SignedURL (after the insert) asks the GCE metadata server for a service
	// account; a local stub answering 404 makes that step fail at once instead
	// of retrying an unreachable address for seconds.
	md := httptest.NewServer(http.HandlerFunc(func(w http.ResponseWriter, req *http.Request) {
		w.Header().Set("Metadata-Flavor", "Google")
		w.WriteHeader(http.StatusNotFound)
	}))
	defer md.Close()
	mdu, _ := url.Parse(md.URL)
	os.Setenv("GCE_METADATA_HOST", mdu.Host)
	gst, err := vgigcs.NewGCSStorage("verif-bucket", vgigcs.GCSConfig{Prefix: "c33/"})
	if err != nil {
		r.Fatal("NewGCSStorage against the fake endpoint failed: %v", err)
	}
	t0 = time.Now()
	// the GCS client is ~10x slower per upload (multipart insert + failing
	// SignedURL); its key is a crypto/rand UUID, so fewer uploads suffice
	seq, G, perG = r.N(100, 1000), r.N(16, 32), r.N(60, 300)
	gerrs, gres := uploadArm("gcs", gst, seq, G, perG)
	gkeys, gids := fg.take()
	r.Set("gcs_upload_errors", gerrs)
	r.Set("gcs_upload_wall_s", time.Since(t0).Seconds())
	if len(gkeys) > 0 {
		r.Class("gcs:upload-observed")
	}
	if len(gkeys) >= seq+G*perG {
		r.Class("gcs:concurrent-uploads")
	}
	r.Count("gcs.insert_requests", int64(len(gkeys)))
	judgeStrings(r, "gcs", gkeys, seq)
	judgePayloads(r, "gcs", gkeys, gids, gres)

	// --- generator volume
	judgeKeys := func(arm string, keys []key16, extra map[string]any) {
		n := len(keys)
		d, ex := dupes(keys)
		r.Evals(n)
		r.Count("generator."+arm+".keys", int64(n))
		r.Count("generator."+arm+".duplicates", int64(d))
		r.Class("s3:generator-" + arm)
		if d > 0 {
			w := map[string]any{"arm": arm, "keys_generated": n, "keys_repeating_an_earlier_key": d,
				"example_key": fmt.Sprintf("%x-%x-%x-%x-%x", ex[0:4], ex[4:6], ex[6:8], ex[8:10], ex[10:]), "example_key_as_ascii": string(ex[:])}
			for k, v := range extra {
				w[k] = v
			}
			r.Violation("s3:duplicate-key:generator:"+arm, fmt.Sprintf("the S3 key generator produced %d repeated keys out of %d (%s)", d, n, arm), w)
		}
	}
	judgeKeys("sequential", genSequential(r.N(80_000, 3_000_000)), nil)
	judgeKeys("goroutines", genGoroutines(r.N(32, 64), r.N(2_500, 60_000)), map[string]any{"goroutines": r.N(32, 64)})
	procs := r.N(4, 8)
	keys, perProc, released := genProcesses(r, procs, r.N(10_000, 400_000))
	// cross-process duplicates only: remove within-process repeats first
	var cross []key16
	for _, ks := range perProc {
		sort.Slice(ks, func(i, j int) bool { return string(ks[i][:]) < string(ks[j][:]) })
		for i, k := range ks {
			if i == 0 || k != ks[i-1] {
				cross = append(cross, k)
			}
		}
	}
	dc, _ := dupes(cross)
	r.Set("generator_processes", map[string]any{"processes": procs, "all_children_waiting_before_release": released, "keys_shared_by_two_or_more_processes": dc})
	judgeKeys("processes", keys, map[string]any{"processes": procs, "keys_shared_across_processes": dc})

	if p := os.Getenv("VERIF_RACE_LOG"); p != "" {
		files, _ := filepath.Glob(p + ".*")
		r.Set("race_detector_reports", len(files))
	}
}

func judgeStrings(r *monx.Run, backend string, keys []string, seq int) {
	for _, k := range keys {
		r.Case(backend + "|" + k)
	}
	d, ex := dupeStrings(keys)
	r.Count(backend+".duplicate_keys", int64(d))
	if d > 0 {
		ds, _ := dupeStrings(keys[:min(seq, len(keys))])
		phase := "concurrent"
		if ds > 0 {
			phase = "sequential"
		}
		r.Violation(backend+":duplicate-key:upload:"+phase, fmt.Sprintf("%d of %d uploads observed at the %s endpoint reused an object key another upload had used", d, len(keys), backend),
			map[string]any{"backend": backend, "uploads_observed": len(keys), "uploads_reusing_a_key": d, "example_keys": ex, "duplicates_within_sequential_phase": ds})
	}
	if len(keys) > 0 {
		r.Sample(map[string]any{"backend": backend, "first_keys": keys[:min(3, len(keys))]})
	}
}
