#!/usr/bin/env bash
# Runs the repository's own test suite with the `verif` guard OFF (no build tag),
# the same way BASELINE.json's command does, module by module.
set -u
. "$(dirname "$0")/goenv.sh"
unset GOFLAGS
export GOPROXY=off GOSUMDB=off GOTOOLCHAIN=local
rc=0
for m in . vgirpc/gcs vgirpc/jwtauth vgirpc/otel vgirpc/s3 vgirpc/sentry; do
  (cd "/repo/$m" && "$GO" test -mod=mod -json -vet=off -count=1 -timeout 25m ./...) || rc=1
done
exit $rc
