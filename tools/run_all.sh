#!/usr/bin/env bash
# tools/run_all.sh <tier> <seed> [P]  - runs every claimed check once, P at a time; summary on stdout
cd "$(dirname "$0")/.."
TIER="${1:-quick}"; SEED="${2:-1}"; P="${3:-3}"
ids=$(python3 -c "import json;print(' '.join(c['property_id'] for c in json.load(open('MANIFEST.json'))['checks']))")
export TIER SEED
echo $ids | tr ' ' '\n' | xargs -P "$P" -I{} bash -c 's=$(date +%s); out=$(VERIF_SEED=$SEED ./check {} $TIER 2>&1); rc=$?; e=$(( $(date +%s)-s )); echo "{} rc=$rc wall=${e}s $(echo "$out" | grep -E "^(VIOLATION|KNOWN-FINDING|INCONCLUSIVE|CHECK-BROKEN)" | cut -c1-150 | tr "\n" ";")"' | sort
