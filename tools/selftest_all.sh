#!/usr/bin/env bash
# Runs every mutants/<ID>-*.patch and seeded/*/patch.diff through ./selftest, P jobs at a time,
# and writes mutants/RESULTS.md.  usage: tools/selftest_all.sh [P] [tier]
cd "$(dirname "$0")/.."
P="${1:-5}"; TIER="${2:-quick}"
tmp="$(mktemp -d /tmp/verif-selftest-all-XXXX)"
{
  for p in mutants/C*-*.patch; do id="$(basename "$p" | cut -d- -f1)"; echo "$p $id"; done
  for d in seeded/*/; do [ -f "$d/patch.diff" ] && echo "${d}patch.diff $(python3 -c "import json;print(json.load(open('${d}meta.json'))['property'])")"; done
} > "$tmp/jobs"
# optional filters: SKIP_IDS / ONLY_IDS are egrep patterns over the property id; OUT overrides the result file
[ -n "${SKIP_IDS:-}" ] && { grep -Ev " (${SKIP_IDS})$" "$tmp/jobs" > "$tmp/j2"; mv "$tmp/j2" "$tmp/jobs"; }
[ -n "${ONLY_IDS:-}" ] && { grep -E " (${ONLY_IDS})$" "$tmp/jobs" > "$tmp/j2"; mv "$tmp/j2" "$tmp/jobs"; }
OUT="${OUT:-mutants/RESULTS.md}"
export TIER
xargs -a "$tmp/jobs" -P "$P" -L 1 bash -c 'r=$(./selftest "$0" "$1" "$TIER" 2>&1 | tail -1); echo "| $0 | $1 | $r |"' > "$tmp/out" 2>&1
{
  echo "# Sensitivity results ($(date -u +%FT%TZ), tier=$TIER, seed=${VERIF_SEED:-1}, /repo at $(git -C /repo rev-parse --short HEAD))"
  echo
  echo "CAUGHT = the property's check printed VIOLATION on the scratch copy with the patch applied;"
  echo "MISSED = it stayed silent (reason per patch in harness/cmd/cNN/SENSITIVITY.md); NOAPPLY = the patch"
  echo "was written against an earlier tree and no longer applies; BROKEN = the check itself failed to run."
  echo
  echo "| patch | property | result |"; echo "|---|---|---|"
  sort "$tmp/out"
  echo
  echo "Totals: $(grep -c CAUGHT "$tmp/out") caught, $(grep -c 'MISSED' "$tmp/out") missed, $(grep -c NOAPPLY "$tmp/out") no-apply, $(grep -c BROKEN "$tmp/out") broken."
} > "$OUT"
rm -rf "$tmp"
tail -1 "$OUT"
