#!/usr/bin/env python3
"""keep_seed.py <ID> <src-dir> <demo-file> <dest-dir> <run-regex> <breaks> <needs>  -> /verif/seeded/<ID>/"""
import sys, os, shutil, json, subprocess
pid, src, demo, dest, run, breaks, needs = sys.argv[1:8]
name = sys.argv[8] if len(sys.argv) > 8 else pid
out = f"/verif/seeded/{name}"
os.makedirs(out, exist_ok=True)
shutil.copy(f"{src}/patch.diff", f"{out}/patch.diff")
shutil.copy(f"{src}/{demo}", f"{out}/{demo}")
if os.path.exists(f"{src}/NOTES.md"):
    shutil.copy(f"{src}/NOTES.md", f"{out}/NOTES.md")
head = subprocess.check_output(["git", "-C", "/repo", "rev-parse", "--short", "HEAD"], text=True).strip()
meta = {
    "property": pid,
    "breaks": breaks,
    "needs_to_manifest": needs,
    "demonstration": {"file": demo, "place_at": f"{dest}/{demo}", "run": f"go test -vet=off -count=1 -run '{run}' ./{dest}/"},
    "confirmed_by_coordinator": {
        "how": f"tools/confirm_seed.sh {pid} <dir> {demo} {dest} '{run}' in a fresh worktree of /repo at {head}",
        "demo_without_change": "pass", "build_with_change": "ok",
        "existing_tests_with_change": "pass (go test -vet=off -count=1 ./vgirpc/)", "demo_with_change": "fail",
    },
    "origin": "independent sub-agent given only the property text and a scratch worktree",
    "detected_by_checks": "see DESIGN.md section 9 / mutants/RESULTS.md",
}
json.dump(meta, open(f"{out}/meta.json", "w"), indent=1)
print("kept", out)
