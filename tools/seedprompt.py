#!/usr/bin/env python3
"""Prints the prompt for a seeding sub-agent: property text only, own worktree, nothing from /verif."""
import json, sys
pid = sys.argv[1]
p = next(json.loads(l) for l in open('/verif/properties.jsonl') if json.loads(l)['id'] == pid)
print(f"""You are helping test a verification effort for the Go library Query-farm/vgi-rpc-go (an Arrow-IPC RPC library: unary/producer/exchange streams over pipes, sockets, HTTP with sealed state tokens, shared memory). You work ONLY in your own scratch git worktree of the repository at /tmp/seed-{pid} (a checkout of the current HEAD). Do not read or write anything under /verif or /repo, and do not look at other /tmp/seed-* directories.

The property under test (this text is all you are given about it):

  Title: {p['title']}
  Statement: {p['statement']}
  It must hold over: {p['quantifier']['text']}

Your task: make ONE realistic change to the library's (non-test) source in /tmp/seed-{pid} that BREAKS this property while the code still compiles and the repository's existing test suite still passes. The change should look like a plausible maintainer mistake or refactoring slip (a dropped lock or drain, a reordered pair of writes, a weakened comparison, an off-by-one on a bound, a forgotten branch, a cache that outlives what it caches, two cooperating sites that each look fine alone), NOT sabotage, and it must need something SPECIFIC to manifest — a particular interleaving, a fault at a particular point, a multi-step sequence of operations, an unusual input, or two cooperating sites — not something ordinary use would expose at once. Do not edit or delete existing tests, and do not add build tags.

Deliverables, written to /tmp/seed-out/{pid}/ (create it):
  1. patch.diff — `git -C /tmp/seed-{pid} diff` of your change (library source only).
  2. A demonstration that FAILS with your change and PASSES without it: either a Go test file (say demo_test.go, package vgirpc or an external _test package — tell me where it must be placed) or a small standalone program. Keep a copy in /tmp/seed-out/{pid}/ and say exactly how to run it.
  3. NOTES.md — which clause of the property the change breaks, what it needs in order to manifest (the specific interleaving / fault / sequence / input), and the exact commands you ran with their results (existing tests passing with the change; demo failing with the change; demo passing without it — to compare, use `git diff > /tmp/seed-out/{pid}/patch.diff; git apply -R /tmp/seed-out/{pid}/patch.diff; …run…; git apply /tmp/seed-out/{pid}/patch.diff`; NEVER use `git stash`: the stash is shared between all worktrees of this repository and other people are working in sibling worktrees).

Toolchain (no network in this sandbox): in every shell call run
  export GOFLAGS=-mod=mod GOPROXY=off GOSUMDB=off GOTOOLCHAIN=local; GO=/root/go/pkg/mod/golang.org/toolchain@v0.0.1-go1.26.0.linux-amd64/bin/go
and use $GO (plain `go` is the wrong version). Existing tests: `cd /tmp/seed-{pid} && $GO build ./... && $GO test -vet=off -count=1 ./vgirpc/` (about 1-2 minutes; the sub-modules under vgirpc/otel, vgirpc/s3, vgirpc/gcs, vgirpc/jwtauth, vgirpc/sentry are separate Go modules — if you touch one, run `$GO test -vet=off -count=1 ./...` inside it as well). Read the relevant source carefully before choosing the change; prefer a subtle change over an obvious one. When you are done, leave the worktree with your change applied and untracked demo files removed from it (copies live in /tmp/seed-out/{pid}/). Your final message: a 10-line summary (file and function changed, what breaks, what it needs to manifest, how to run the demo).""")
