#!/usr/bin/env bash
# tools/applyfix.sh <diff> <commit message file>  — applies a finding's repair to /repo as one fix: commit
set -eu
. /verif/goenv.sh
cd /repo
patch -p1 --dry-run < "$1" >/dev/null
files=$(patch -p1 < "$1" | sed -n 's/^patching file //p')
$GO build ./vgirpc/... >/dev/null && $GO build -tags verif ./vgirpc/ >/dev/null
git add $files
git commit -q -F "$2"
git log --oneline | head -1
