#!/usr/bin/env python3
"""Prints the round-2 seeded-change table for DESIGN.md section 9 from seeded/*-2/meta.json + seeded/ROUND2_RESULTS.json."""
import json, glob, os, sys
rnd = sys.argv[1] if len(sys.argv) > 1 else '2'
res = json.load(open(f'/verif/seeded/ROUND{rnd}_RESULTS.json'))
print("| seeded | what it breaks | needs | result |\n|---|---|---|---|")
for d in sorted(glob.glob(f'/verif/seeded/*-{rnd}')):
    n = os.path.basename(d)
    m = json.load(open(d + '/meta.json'))
    r = res.get(n, {"result": "not run"})
    txt = r["result"]
    if "first_missed" in r:
        txt += f" — first run MISSED: {r['first_missed']}; added: {r['added']}"
    esc = lambda s: s.replace('|', '\\|').replace('\n', ' ')
    print(f"| {n} | {esc(m['breaks'])} | {esc(m['needs_to_manifest'])} | {esc(txt)} |")
