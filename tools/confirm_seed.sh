#!/usr/bin/env bash
# Confirms a seeded change independently, in a fresh worktree of /repo HEAD:
#   tools/confirm_seed.sh <ID> <src-dir> <demo-file> <dest-dir-in-repo> <go test -run regex> [pkg]
# 1. demo passes on the unchanged tree  2. patch applies, builds, existing tests of the package pass
# 3. demo fails with the patch.  Prints a JSON summary line; removes the worktree.
set -u
ID="$1"; SRC="$2"; DEMO="$3"; DEST="$4"; RUN="$5"; PKG="${6:-./vgirpc/}"
. /verif/goenv.sh
WT="/tmp/confirm-$(echo $ID | tr -d /)-$$"
git -C /repo worktree add -q --detach "$WT" HEAD || exit 2
trap 'git -C /repo worktree remove --force "$WT" >/dev/null 2>&1' EXIT
cp "$SRC/$DEMO" "$WT/$DEST/"
cd "$WT"
F="${CONFIRM_TESTFLAGS:-}"
base="$($GO test $F -vet=off -count=1 -run "$RUN" "$PKG" 2>&1 | tail -3)"; echo "$base" | grep -q '^ok' && b=pass || b=fail
git apply "$SRC/patch.diff" || { echo "{\"id\":\"$ID\",\"error\":\"patch does not apply\"}"; exit 1; }
$GO build ./... >/dev/null 2>&1 && bld=ok || bld=fail
rm -f "$DEST/$DEMO"
suite="$($GO test -vet=off -count=1 "$PKG" 2>&1 | tail -3)"; echo "$suite" | grep -q '^ok' && s=pass || s=fail
cp "$SRC/$DEMO" "$WT/$DEST/"
with="$($GO test $F -vet=off -count=1 -run "$RUN" "$PKG" 2>&1 | tail -15)"; echo "$with" | grep -q '^ok' && w=pass || w=fail
echo "{\"id\":\"$ID\",\"demo_without_change\":\"$b\",\"build_with_change\":\"$bld\",\"existing_tests_with_change\":\"$s\",\"demo_with_change\":\"$w\"}"
[ "$b" = pass ] && [ "$bld" = ok ] && [ "$s" = pass ] && [ "$w" = fail ]
