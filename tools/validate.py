#!/usr/bin/env python3-vt
"""Validates MANIFEST.json and every evidence/*.json against the schemas."""
import json, glob, sys, jsonschema
bad = 0
def v(path, schema):
    global bad
    try:
        jsonschema.validate(json.load(open(path)), json.load(open(schema)))
    except Exception as e:
        bad += 1
        print("INVALID", path, str(e).splitlines()[0])
v('/verif/MANIFEST.json', '/root/.vp/MANIFEST.schema.json')
for f in sorted(glob.glob('/verif/evidence/*.json')):
    v(f, '/root/.vp/EVIDENCE.schema.json')
print("validated; invalid =", bad)
sys.exit(1 if bad else 0)
