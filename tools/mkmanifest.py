#!/usr/bin/env python3
"""Regenerates /verif/MANIFEST.json from the per-check fragments
harness*/cmd/<id>/manifest.json (keys: level, text, note, technique, [thorough: bool])
plus tools/not_applicable.json ({id: reason}) for unclaimed properties."""
import json, os, glob, subprocess, sys
root = os.path.dirname(os.path.dirname(os.path.abspath(__file__)))
props = [json.loads(l)["id"] for l in open(os.path.join(root, "properties.jsonl"))]
frags = {}
for f in glob.glob(os.path.join(root, "harness*", "cmd", "*", "manifest.json")):
    pid = os.path.basename(os.path.dirname(f)).upper()
    frags[pid] = json.load(open(f))
na_path = os.path.join(root, "tools", "not_applicable.json")
na = json.load(open(na_path)) if os.path.exists(na_path) else {}
try:
    commits = subprocess.check_output(["git", "-C", "/repo", "log", "--format=%h %s"], text=True).splitlines()
except Exception:
    commits = []
hook_commits = [c.split()[0] for c in commits if c.split(" ", 1)[1].startswith("verif:")]
checks, not_app = [], []
for pid in props:
    fr = frags.get(pid)
    if not fr:
        not_app.append({"property_id": pid, "reason": na.get(pid, "check not built yet (work in progress; not a statement about applicability)")})
        continue
    c = {
        "property_id": pid,
        "quick_cmd": f"./check {pid} quick",
        "thorough_cmd": f"./check {pid} thorough",
        "evidence_file": f"/verif/evidence/{pid}.json",
        "replay_cmd_template": f"./check {pid} quick --replay {{path}}",
        "engine": "vcheck",
        "level_claimed": {"category": fr.get("level", "exploration"), "text": fr["text"], "design_ref": f"DESIGN.md section 5, {pid}"},
        "level_note": fr["note"],
        "technique": fr["technique"],
    }
    checks.append(c)
man = {
    "version": 1,
    "setup_cmd": "./setup.sh",
    "hooks": {
        "guard": "verif",
        "enable": "go build -tags verif (the harness module replaces github.com/Query-farm/vgi-rpc-go with /repo, so every ./check rebuilds from /repo's working tree with the tag on)",
        "baseline_off_cmd": "./baseline_off.sh",
        "source_commits": hook_commits,
        "add_only": True,
    },
    "engines": [{
        "name": "vcheck",
        "path": "/verif/harness",
        "serves_properties": [c["property_id"] for c in checks],
        "kind_free_text": "Go harness (one binary per property under harness/cmd/<id>) driving the real library under generated, hostile and concurrent workloads; oracles = reference models, round trips, differential runs, event-log monitors, porcupine, Go race detector, Arrow checked allocator",
    }],
    "checks": checks,
    "notes": "Runtime monitoring only. Verdicts: VIOLATION (exit 1), KNOWN-FINDING (exit 0, listed in known_findings.json), INCONCLUSIVE (exit 0, evidence carries inconclusive:true). See DESIGN.md.",
    "not_applicable": not_app,
}
json.dump(man, open(os.path.join(root, "MANIFEST.json"), "w"), indent=1)
print(f"MANIFEST.json: {len(checks)} checks, {len(not_app)} unclaimed")
