#!/usr/bin/env python3
"""Round-2 seeding prompt: property text + 'somebody already tried a change in <files/functions>, pick another mechanism/clause'."""
import json, sys, re, os
pid = sys.argv[1]
p = next(json.loads(l) for l in open('/verif/properties.jsonl') if json.loads(l)['id'] == pid)
avoid = set()
import glob
pds = glob.glob(f'/verif/seeded/{pid}/patch.diff') + glob.glob(f'/verif/seeded/{pid}-*/patch.diff')
for pd in pds:
    cur = None
    for l in open(pd):
        m = re.match(r'\+\+\+ b/(\S+)', l)
        if m: cur = m.group(1)
        m = re.match(r'@@ .* @@ func (?:\([^)]*\) )?(\w+)', l)
        if m and cur: avoid.add(f"{cur}: {m.group(1)}")
        elif l.startswith('@@') and cur: avoid.add(cur)
base = open('/verif/tools/seedprompt.py').read()
import subprocess
txt = subprocess.check_output(['python3', '/verif/tools/seedprompt.py', pid], text=True)
txt = txt.replace(f'/tmp/seed-{pid}', f'/tmp/seed3-{pid}').replace(f'/tmp/seed-out/{pid}', f'/tmp/seed3-out/{pid}')
extra = ("\n\nOne more constraint: somebody else has already written a breaking change for this property that touches "
         + "; ".join(sorted(avoid)) + ". Yours must be DIFFERENT: break a different clause of the statement, or the same clause through a different "
         "mechanism in a different function — do not modify those functions. Prefer clauses and code paths that look less obviously connected to the property.")
print(txt.rstrip() + extra)
