package svc

import (
	"fmt"
	"math/rand/v2"

	"github.com/Query-farm/vgi-rpc-go/conformance"
	"github.com/Query-farm/vgi-rpc-go/vgirpc"
)

// RegisterConformance registers the repository's own conformance service
// (~80 methods) next to the scripted family: the realistic-workload arm.
func RegisterConformance(s *vgirpc.Server) { conformance.RegisterMethods(s) }

// NewServer returns a Server with the scripted family (and optionally the
// conformance service) registered. Build one per transport: a Server records
// the kind of the transport that bound it last.
func NewServer(withConformance bool) *vgirpc.Server {
	s := vgirpc.NewServer()
	Register(s)
	if withConformance {
		RegisterConformance(s)
	}
	return s
}

// Levels are the six protocol levels, most severe first.
var Levels = []string{"EXCEPTION", "ERROR", "WARN", "INFO", "DEBUG", "TRACE"}

// UnknownLevels are level strings outside the protocol's set.
var UnknownLevels = []string{"NOTICE", "info", "Warn ", "FATAL"}

var msgPool = []string{"", "plain message", "héllo wörld", "日本語のログ", "emoji \U0001F680 end", "line\nbreak", "tab\there", "\"quoted\" \\ backslash",
	"a=1,b=2", "vgi_rpc.log_message", "  padded  ", "x"}
var keyPool = []string{"k", "key", "clé", "キー", "a.b", "vgi_rpc.request_id", "trace_id", "n", "user", "空"}
var valPool = []string{"", "v", "42", "-1.5", "true", "ünï", "{\"json\":1}", "multi\nline", "\U0001F600", "long-" + "xxxxxxxxxxxxxxxxxxxxxxxxxxxxxxxxxxxxxxxx"}

// GenLog generates one log emission. exception allows level EXCEPTION (only
// sensible for unary handlers: in a stream it reads as the stream's failure).
func GenLog(rng *rand.Rand, i int, exception, unknown bool) Log {
	var level string
	switch {
	case unknown && rng.IntN(8) == 0:
		level = UnknownLevels[rng.IntN(len(UnknownLevels))]
	case exception && rng.IntN(12) == 0:
		level = "EXCEPTION"
	default:
		level = Levels[1+rng.IntN(5)]
	}
	l := Log{Level: level, Msg: fmt.Sprintf("%s [%d]", msgPool[rng.IntN(len(msgPool))], i)}
	if rng.IntN(6) == 0 {
		l.Msg = msgPool[rng.IntN(len(msgPool))] // also without the index, incl. ""
	}
	if rng.IntN(3) == 0 {
		n := 1 + rng.IntN(3)
		perm := rng.Perm(len(keyPool))
		for j := 0; j < n; j++ {
			l.Extras = append(l.Extras, KV{keyPool[perm[j]], valPool[rng.IntN(len(valPool))]})
		}
	}
	return l
}

// GenLogs generates 0..max log emissions.
func GenLogs(rng *rand.Rand, max int, exception, unknown bool) []Log {
	n := 0
	switch rng.IntN(4) {
	case 0:
	case 1:
		n = 1
	default:
		n = rng.IntN(max + 1)
	}
	out := make([]Log, 0, n)
	for i := 0; i < n; i++ {
		out = append(out, GenLog(rng, i, exception, unknown))
	}
	return out
}

// ErrKinds / PanicKinds enumerate the scripted failure shapes.
var (
	ErrKinds   = []string{"rpc", "plain", "wrapped", "wrapped-rpc", "custom", "custom-kind", "rpc-sentinel", "rpc-preset-id"}
	PanicKinds = []string{"string", "error", "int", "rpc", "nil"}
)

// GenErr generates an error of the given kind ("" = random).
func GenErr(rng *rand.Rand, kind string) ErrSpec {
	if kind == "" {
		kind = ErrKinds[rng.IntN(len(ErrKinds))]
	}
	types := []string{"ValueError", "TypeError", "RuntimeError", "KeyError", "PermissionError", "MyAppError"}
	e := ErrSpec{Kind: kind, Type: types[rng.IntN(len(types))], Msg: "scripted failure: " + msgPool[1+rng.IntN(len(msgPool)-1)]}
	if kind == "rpc-sentinel" {
		// a small fixed pool, so the same error VALUE comes back in many calls
		e.Type = []string{"KeyError", "ValueError"}[rng.IntN(2)]
		e.Msg = []string{"sentinel: not found", "sentinel: gone", "sentinel: busy"}[rng.IntN(3)]
	}
	if kind == "custom-kind" || (kind == "rpc" && rng.IntN(2) == 0) {
		e.EKind = []string{"quota_exceeded", "not_found", "MethodNotImplementedError"}[rng.IntN(3)]
	}
	return e
}

// GenPanic generates a panic value of the given kind ("" = random).
func GenPanic(rng *rand.Rand, kind string) PanicSpec {
	if kind == "" {
		kind = PanicKinds[rng.IntN(len(PanicKinds))]
	}
	return PanicSpec{Kind: kind, Val: "scripted panic " + valPool[rng.IntN(len(valPool))]}
}

// GenArgs generates the non-script parameters.
func GenArgs(rng *rand.Rand) Args {
	a := Args{N: rng.Int64N(2001) - 1000, Tag: []string{"", "t", "tag", "étiquette", "タグ", "a b", "\U0001F600"}[rng.IntN(7)]}
	if rng.IntN(2) == 0 {
		o := valPool[rng.IntN(len(valPool))]
		a.Opt = &o
	}
	return a
}

// GenUnary generates a unary script with the given outcome
// (ActValue | ActError | ActPanic).
func GenUnary(rng *rand.Rand, id string, outcome Act, maxLogs int) Script {
	s := Script{ID: id, Seed: rng.Int64N(1000), UAct: outcome}
	s.ULogs = GenLogs(rng, maxLogs, true, true)
	switch outcome {
	case ActError:
		s.UErr = GenErr(rng, "")
	case ActPanic:
		s.UPanic = GenPanic(rng, "")
	}
	return s
}

// StreamOpt shapes GenStream.
type StreamOpt struct {
	Producer bool // state kind (fixed by the method except for d_hdr)
	Turns    int  // scripted turns before the default tail (producer: finish; exchange: echo-emit)
	FailAt   int  // index of the turn whose act is FailAct; <0 = none
	FailAct  Act  // ActError | ActPanic | ActNone | ActEmitTwice | ActFinish | ActEmitFin | ActFinishRet | ActFinishIgn
	InitAct  Act  // "" = ActOK
	MaxLogs  int  // per turn / init (default 3)
	NoCancel bool
}

// GenStream generates a stream script. Header is always true (a method that
// declares a header returns one); DeclInput is always true.
func GenStream(rng *rand.Rand, id string, o StreamOpt) Script {
	if o.MaxLogs == 0 {
		o.MaxLogs = 3
	}
	s := Script{ID: id, Seed: rng.Int64N(1000), Producer: o.Producer, Header: true, DeclInput: true, NoCancel: o.NoCancel, InitAct: ActOK}
	if o.InitAct != "" {
		s.InitAct = o.InitAct
	}
	s.InitLogs = GenLogs(rng, o.MaxLogs, false, true)
	switch s.InitAct {
	case ActError:
		s.InitErr = GenErr(rng, "")
	case ActPanic:
		s.InitPanic = GenPanic(rng, "")
	}
	for k := 0; k < o.Turns; k++ {
		t := Turn{Act: ActEmit, Logs: GenLogs(rng, o.MaxLogs, false, false)}
		switch rng.IntN(5) {
		case 0:
			t.Rows = 0
		case 1:
			t.Rows = 1
		default:
			t.Rows = rng.IntN(6)
		}
		if !o.Producer && rng.IntN(2) == 0 {
			t.Rows = -1
		}
		if rng.IntN(4) == 0 {
			t.Meta = []KV{{"vgi_batch_index", fmt.Sprint(k)}}
			if rng.IntN(2) == 0 {
				t.Meta = append(t.Meta, KV{keyPool[rng.IntN(len(keyPool))], valPool[rng.IntN(len(valPool))]})
			}
		}
		if k == o.FailAt {
			t.Act = o.FailAct
			switch o.FailAct {
			case ActError:
				t.Err = GenErr(rng, "")
			case ActPanic:
				t.Panic = GenPanic(rng, "")
			}
			if t.Rows < 0 && o.Producer {
				t.Rows = 1
			}
		}
		s.Turns = append(s.Turns, t)
	}
	return s
}

// GenInputs generates n exchange inputs (W in exact quarter steps).
func GenInputs(rng *rand.Rand, n int) []InputSpec {
	out := make([]InputSpec, n)
	for i := range out {
		rows := rng.IntN(5)
		if rng.IntN(6) == 0 {
			rows = 0
		}
		for r := 0; r < rows; r++ {
			out[i].X = append(out[i].X, rng.Int64N(2001)-1000)
			out[i].W = append(out[i].W, float64(rng.IntN(801)-400)/4)
		}
		if out[i].X == nil {
			out[i].X, out[i].W = []int64{}, []float64{}
		}
	}
	return out
}
