package svc

import (
	"context"
	"fmt"
	"math"
	"reflect"
	"sort"
	"strconv"
	"sync"
	"sync/atomic"
	"time"

	"github.com/apache/arrow-go/v18/arrow"

	"github.com/Query-farm/vgi-rpc-go/vgirpc"

	"verif/harness/internal/mon"
)

// ---------------------------------------------------------------------------
// Event sink

var sink atomic.Pointer[mon.Log]

// SetSink installs the event log every handler, state and hook of this
// package records into (nil = record nothing). Package-level on purpose:
// stream states are re-created by gob on HTTP continuations and have no other
// way to find the check's log.
func SetSink(l *mon.Log) { sink.Store(l) }

// Sink returns the installed log (may be nil).
func Sink() *mon.Log { return sink.Load() }

// Info is the payload of every "svc" event.
type Info struct {
	Method    string   `json:"method,omitempty"`
	Turn      int      `json:"turn"`
	State     string   `json:"state,omitempty"` // identity (pointer) of the state object
	RequestID string   `json:"request_id,omitempty"`
	Kind      string   `json:"kind,omitempty"`      // CallContext.Kind
	Principal string   `json:"principal,omitempty"` // CallContext.Auth.Principal
	LogLevel  string   `json:"log_level,omitempty"`
	MetaKeys  []string `json:"input_meta_keys,omitempty"`
	Transport []string `json:"transport_keys,omitempty"`
	InRows    int64    `json:"in_rows,omitempty"`
	InSchema  string   `json:"in_schema,omitempty"`
	Note      string   `json:"note,omitempty"`
}

// Event kinds (actor is always "svc", key is Script.ID).
const (
	EvUnary    = "unary.enter"
	EvInit     = "init.enter"
	EvProduce  = "produce"
	EvExchange = "exchange"
	EvCancel   = "cancel"
	EvEmit2    = "emit2.result"  // Note = error text of the second Emit ("" = accepted)
	EvFinishX  = "finish.result" // Note = error text of Finish on an exchange ("" = accepted)
	EvHookS    = "hook.start"
	EvHookE    = "hook.end"
)

func record(kind, key string, in Info) {
	if l := sink.Load(); l != nil {
		l.Add("svc", kind, key, in)
	}
}

func ctxInfo(cc *vgirpc.CallContext) Info {
	in := Info{}
	if cc == nil {
		return in
	}
	in.Method, in.RequestID, in.Kind, in.LogLevel = cc.Method, cc.RequestID, string(cc.Kind), string(cc.LogLevel)
	if cc.Auth != nil {
		in.Principal = cc.Auth.Principal
	}
	in.MetaKeys = append(in.MetaKeys, cc.InputMetadata.Keys()...)
	for k := range cc.TransportMetadata {
		in.Transport = append(in.Transport, k)
	}
	sort.Strings(in.Transport)
	return in
}

// ---------------------------------------------------------------------------
// Methods

// Method describes one registered scripted method.
type Method struct {
	Name     string
	Kind     string // "unary" | "producer" | "exchange" | "dynamic"
	Header   bool   // declares a header
	Void     bool
	ResultDT arrow.DataType // unary: type of the "result" column
	Nullable bool           // unary: nullability of the "result" column
}

// Methods is the registered family, by name.
var Methods = map[string]Method{
	"u_str":    {Name: "u_str", Kind: "unary", ResultDT: arrow.BinaryTypes.String},
	"u_int":    {Name: "u_int", Kind: "unary", ResultDT: arrow.PrimitiveTypes.Int64},
	"u_float":  {Name: "u_float", Kind: "unary", ResultDT: arrow.PrimitiveTypes.Float64},
	"u_bool":   {Name: "u_bool", Kind: "unary", ResultDT: arrow.FixedWidthTypes.Boolean},
	"u_bytes":  {Name: "u_bytes", Kind: "unary", ResultDT: arrow.BinaryTypes.Binary},
	"u_list":   {Name: "u_list", Kind: "unary", ResultDT: arrow.ListOf(arrow.PrimitiveTypes.Int64)},
	"u_optstr": {Name: "u_optstr", Kind: "unary", ResultDT: arrow.BinaryTypes.String, Nullable: true},
	"u_void":   {Name: "u_void", Kind: "unary", Void: true},
	"p_plain":  {Name: "p_plain", Kind: "producer"},
	"p_hdr":    {Name: "p_hdr", Kind: "producer", Header: true},
	"x_plain":  {Name: "x_plain", Kind: "exchange"},
	"x_hdr":    {Name: "x_hdr", Kind: "exchange", Header: true},
	"d_hdr":    {Name: "d_hdr", Kind: "dynamic", Header: true},
}

// UnaryMethods / StreamMethods list the names in a fixed order.
var (
	UnaryMethods  = []string{"u_str", "u_int", "u_float", "u_bool", "u_bytes", "u_list", "u_optstr", "u_void"}
	StreamMethods = []string{"p_plain", "p_hdr", "x_plain", "x_hdr", "d_hdr"}
)

// UnaryValue is the value a scripted unary method returns for its arguments
// (the handler and the Model share it; the library only transports it).
func UnaryValue(method string, a Args) any {
	switch method {
	case "u_str":
		s := a.Tag + "#" + strconv.FormatInt(a.N, 10)
		if a.Opt != nil {
			s += "?" + *a.Opt
		}
		return s
	case "u_int":
		return a.N*31 + int64(len(a.Tag))
	case "u_float":
		switch ((a.N % 7) + 7) % 7 {
		case 1:
			return math.NaN()
		case 2:
			return math.Inf(1)
		case 3:
			return math.Copysign(0, -1)
		}
		return float64(a.N)/8 + 0.5
	case "u_bool":
		return a.N%2 == 0
	case "u_bytes":
		if a.N%4 == 0 {
			return []byte{}
		}
		return append([]byte(a.Tag), byte(a.N))
	case "u_list":
		out := make([]int64, 0, 4)
		for i := int64(0); i < ((a.N%4)+4)%4; i++ {
			out = append(out, a.N+i)
		}
		return out
	case "u_optstr":
		if a.N%3 == 0 {
			return (*string)(nil)
		}
		t := a.Tag
		return &t
	}
	return nil
}

func toLevel(s string) vgirpc.LogLevel { return vgirpc.LogLevel(s) }

func kvs(in []KV) []vgirpc.KV {
	out := make([]vgirpc.KV, len(in))
	for i, e := range in {
		out[i] = vgirpc.KV{Key: e.K, Value: e.V}
	}
	return out
}

// runUnary is the common body of the unary handlers.
func runUnary(cc *vgirpc.CallContext, p Params) (Script, Args, error) {
	a := Args{N: p.N, Tag: p.Tag, Opt: p.Opt}
	s, err := decodeScript(p.Script)
	if err != nil {
		return s, a, &vgirpc.RpcError{Type: "ScriptError", Message: err.Error()}
	}
	in := ctxInfo(cc)
	record(EvUnary, s.ID, in)
	for _, l := range s.ULogs {
		cc.ClientLog(toLevel(l.Level), l.Msg, kvs(l.Extras)...)
	}
	if s.USleepMs > 0 {
		time.Sleep(time.Duration(s.USleepMs) * time.Millisecond)
	}
	switch s.UAct {
	case ActError:
		return s, a, s.UErr.Build()
	case ActPanic:
		panic(s.UPanic.Value())
	}
	return s, a, nil
}

func unaryOf[R any](name string) func(context.Context, *vgirpc.CallContext, Params) (R, error) {
	return func(_ context.Context, cc *vgirpc.CallContext, p Params) (R, error) {
		var zero R
		s, a, err := runUnary(cc, p)
		if err != nil {
			return zero, err
		}
		if s.UZero {
			return zero, nil
		}
		return UnaryValue(name, a).(R), nil
	}
}

var registerOnce sync.Once

// Register registers the whole scripted family on s through the public
// generic API and (once per process) the gob types of the stream states.
func Register(s *vgirpc.Server) {
	registerOnce.Do(func() {
		vgirpc.RegisterStateType(&ProducerState{})
		vgirpc.RegisterStateType(&ExchangeState{})
		vgirpc.RegisterStateType(&ProducerStateNC{})
		vgirpc.RegisterStateType(&ExchangeStateNC{})
		vgirpc.RegisterStateType(&BadState{})
		got, err := vgirpc.SchemaForStruct(reflect.TypeOf(Params{}))
		if err != nil || !got.Equal(ParamsSchema) {
			panic(fmt.Sprintf("svc: hand-written ParamsSchema drifted from the library's derivation: %v / %v", got, err))
		}
	})
	vgirpc.Unary(s, "u_str", unaryOf[string]("u_str"))
	vgirpc.Unary(s, "u_int", unaryOf[int64]("u_int"))
	vgirpc.Unary(s, "u_float", unaryOf[float64]("u_float"))
	vgirpc.Unary(s, "u_bool", unaryOf[bool]("u_bool"))
	vgirpc.Unary(s, "u_bytes", unaryOf[[]byte]("u_bytes"))
	vgirpc.Unary(s, "u_list", unaryOf[[]int64]("u_list"))
	vgirpc.Unary(s, "u_optstr", unaryOf[*string]("u_optstr"))
	vgirpc.UnaryVoid(s, "u_void", func(_ context.Context, cc *vgirpc.CallContext, p Params) error {
		_, _, err := runUnary(cc, p)
		return err
	})
	vgirpc.Producer(s, "p_plain", OutSchema, initOf("p_plain"))
	vgirpc.ProducerWithHeader(s, "p_hdr", OutSchema, HeaderSchema, initOf("p_hdr"))
	vgirpc.Exchange(s, "x_plain", OutSchema, InSchema, initOf("x_plain"))
	vgirpc.ExchangeWithHeader(s, "x_hdr", OutSchema, InSchema, HeaderSchema, initOf("x_hdr"))
	vgirpc.DynamicStreamWithHeader(s, "d_hdr", HeaderSchema, initOf("d_hdr"))
}

// ---------------------------------------------------------------------------
// Stream states

// Core is the serialisable part shared by the state types.
type Core struct {
	S      Script
	Method string
	K      int // index of the next turn
	Cancel int // OnCancel invocations seen by this state lineage
}

// ProducerState / ExchangeState implement the library's state interfaces and
// StreamCanceller; the NC variants do not implement OnCancel; BadState
// implements nothing.
type (
	ProducerState   struct{ Core }
	ExchangeState   struct{ Core }
	ProducerStateNC struct{ Core }
	ExchangeStateNC struct{ Core }
	BadState        struct{ X int }
)

func initOf(method string) func(context.Context, *vgirpc.CallContext, Params) (*vgirpc.StreamResult, error) {
	m := Methods[method]
	return func(_ context.Context, cc *vgirpc.CallContext, p Params) (*vgirpc.StreamResult, error) {
		a := Args{N: p.N, Tag: p.Tag, Opt: p.Opt}
		s, err := decodeScript(p.Script)
		if err != nil {
			return nil, &vgirpc.RpcError{Type: "ScriptError", Message: err.Error()}
		}
		in := ctxInfo(cc)
		in.Turn = -1
		record(EvInit, s.ID, in)
		for _, l := range s.InitLogs {
			cc.ClientLog(toLevel(l.Level), l.Msg, kvs(l.Extras)...)
		}
		switch s.InitAct {
		case ActError:
			return nil, s.InitErr.Build()
		case ActPanic:
			panic(s.InitPanic.Value())
		case ActNil:
			return nil, nil
		}
		producer := m.Kind == "producer" || (m.Kind == "dynamic" && s.Producer)
		res := &vgirpc.StreamResult{OutputSchema: OutSchema}
		core := Core{S: s, Method: method}
		switch {
		case s.InitAct == ActBadState:
			res.State = &BadState{X: 1}
		case producer && s.NoCancel:
			res.State = &ProducerStateNC{core}
		case producer:
			res.State = &ProducerState{core}
		case s.NoCancel:
			res.State = &ExchangeStateNC{core}
		default:
			res.State = &ExchangeState{core}
		}
		if !producer && (m.Kind != "dynamic" || s.DeclInput) {
			res.InputSchema = InSchema
		}
		if m.Header && s.Header {
			res.Header = HeaderFor(s, a)
		}
		return res, nil
	}
}

func readInput(in arrow.RecordBatch) (spec InputSpec, err error) {
	defer func() {
		if rv := recover(); rv != nil {
			err = fmt.Errorf("svc: unreadable input batch %s: %v", in.Schema(), rv)
		}
	}()
	if in.NumCols() < 2 {
		return spec, fmt.Errorf("svc: input batch has %d columns", in.NumCols())
	}
	type i64 interface{ Value(int) int64 }
	type f64 interface{ Value(int) float64 }
	x, okx := in.Column(0).(i64)
	w, okw := in.Column(1).(f64)
	if !okx || !okw {
		return spec, fmt.Errorf("svc: input batch columns are %s, %s", in.Column(0).DataType(), in.Column(1).DataType())
	}
	for r := 0; r < int(in.NumRows()); r++ {
		spec.X = append(spec.X, x.Value(r))
		spec.W = append(spec.W, w.Value(r))
	}
	return spec, nil
}

// turn runs one scripted turn; in is nil for producers.
func (c *Core) turn(self any, producer bool, input arrow.RecordBatch, out *vgirpc.OutputCollector, cc *vgirpc.CallContext) error {
	k := c.K
	c.K++
	t := c.S.TurnAt(k, producer)
	info := ctxInfo(cc)
	info.Turn, info.State, info.Method = k, fmt.Sprintf("%p", self), c.Method
	kind := EvProduce
	var spec InputSpec
	if !producer {
		kind = EvExchange
		info.InRows, info.InSchema = input.NumRows(), input.Schema().String()
	}
	record(kind, c.S.ID, info)
	if !producer {
		var err error
		if spec, err = readInput(input); err != nil {
			return err
		}
	}
	for _, l := range t.Logs {
		out.ClientLog(toLevel(l.Level), l.Msg, kvs(l.Extras)...)
	}
	if t.SleepMs > 0 {
		time.Sleep(time.Duration(t.SleepMs) * time.Millisecond)
	}
	build := func() arrow.RecordBatch {
		if producer {
			v, g := ProducerRows(c.S.Seed, k, t.Rows)
			return OutBatch(k, v, g)
		}
		v, g := ExchangeRows(c.S.Seed, k, t.Rows, spec)
		return OutBatch(k, v, g)
	}
	emit := func() error {
		if len(t.Meta) > 0 {
			m := make(map[string]string, len(t.Meta))
			for _, e := range t.Meta {
				m[e.K] = e.V
			}
			return out.EmitWithMetadata(build(), m)
		}
		return out.Emit(build())
	}
	note := func(kind string, err error) {
		n := Info{Turn: k, State: info.State, Method: c.Method}
		if err != nil {
			n.Note = err.Error()
		}
		record(kind, c.S.ID, n)
	}
	finish := func() error {
		err := out.Finish()
		if !producer {
			note(EvFinishX, err)
		}
		return err
	}
	switch t.Act {
	case ActEmit:
		return emit()
	case ActError:
		return t.Err.Build()
	case ActPanic:
		panic(t.Panic.Value())
	case ActNone:
		return nil
	case ActEmitTwice:
		if err := emit(); err != nil {
			return err
		}
		b := build()
		err := out.Emit(b)
		note(EvEmit2, err)
		if err != nil {
			b.Release() // a refused batch stays ours
		}
		return err
	case ActFinish:
		return finish()
	case ActEmitFin:
		if err := emit(); err != nil {
			return err
		}
		return finish()
	case ActFinishRet:
		if err := finish(); err != nil {
			return err
		}
		return emit()
	case ActFinishIgn:
		_ = finish()
		return emit()
	}
	return fmt.Errorf("svc: unknown act %q", t.Act)
}

func (c *Core) cancel(self any, cc *vgirpc.CallContext) error {
	c.Cancel++
	info := ctxInfo(cc)
	info.Turn, info.State, info.Method = c.K, fmt.Sprintf("%p", self), c.Method
	info.Note = fmt.Sprintf("cancel#%d", c.Cancel)
	record(EvCancel, c.S.ID, info)
	return nil
}

func (s *ProducerState) Produce(_ context.Context, out *vgirpc.OutputCollector, cc *vgirpc.CallContext) error {
	return s.turn(s, true, nil, out, cc)
}
func (s *ProducerState) OnCancel(_ context.Context, cc *vgirpc.CallContext) error {
	return s.cancel(s, cc)
}
func (s *ExchangeState) Exchange(_ context.Context, in arrow.RecordBatch, out *vgirpc.OutputCollector, cc *vgirpc.CallContext) error {
	return s.turn(s, false, in, out, cc)
}
func (s *ExchangeState) OnCancel(_ context.Context, cc *vgirpc.CallContext) error {
	return s.cancel(s, cc)
}
func (s *ProducerStateNC) Produce(_ context.Context, out *vgirpc.OutputCollector, cc *vgirpc.CallContext) error {
	return s.turn(s, true, nil, out, cc)
}
func (s *ExchangeStateNC) Exchange(_ context.Context, in arrow.RecordBatch, out *vgirpc.OutputCollector, cc *vgirpc.CallContext) error {
	return s.turn(s, false, in, out, cc)
}

// ---------------------------------------------------------------------------
// Dispatch hook

// HookToken is what Hook hands to the framework at start and expects back.
type HookToken struct{ ID int64 }

// HookInfo is the payload of hook events.
type HookInfo struct {
	Token      string `json:"token"` // pointer identity of the token object
	TokenID    int64  `json:"token_id"`
	Method     string `json:"method"`
	MethodType string `json:"method_type"`
	RequestID  string `json:"request_id,omitempty"`
	StreamID   string `json:"stream_id,omitempty"`
	Principal  string `json:"principal,omitempty"`
	Cancelled  bool   `json:"cancelled,omitempty"`
	HTTPStatus int    `json:"http_status,omitempty"`
	Err        string `json:"err,omitempty"`
	HasErr     bool   `json:"has_err"`
	InBatches  int64  `json:"in_batches"`
	OutBatches int64  `json:"out_batches"`
	ForeignTok bool   `json:"foreign_token,omitempty"` // end received something that is not a *HookToken
}

// Hook is a vgirpc.DispatchHook that records start/end with token identity.
// Events use the request id as key ("" when the framework has none).
type Hook struct {
	PanicOnStart func(vgirpc.DispatchInfo) bool
	PanicOnEnd   func(vgirpc.DispatchInfo) bool
	NilContext   bool // return a nil context from OnDispatchStart
	next         atomic.Int64
}

type hookCtxKey struct{}

func (h *Hook) OnDispatchStart(ctx context.Context, info vgirpc.DispatchInfo) (context.Context, vgirpc.HookToken) {
	tok := &HookToken{ID: h.next.Add(1)}
	hi := HookInfo{Token: fmt.Sprintf("%p", tok), TokenID: tok.ID, Method: info.Method, MethodType: info.MethodType,
		RequestID: info.RequestID, StreamID: info.StreamID, Cancelled: info.Cancelled}
	if info.Auth != nil {
		hi.Principal = info.Auth.Principal
	}
	if l := sink.Load(); l != nil {
		l.Add("svc", EvHookS, info.RequestID, hi)
	}
	if h.PanicOnStart != nil && h.PanicOnStart(info) {
		panic("svc: scripted panic in OnDispatchStart")
	}
	if h.NilContext {
		return nil, tok
	}
	return context.WithValue(ctx, hookCtxKey{}, tok.ID), tok
}

func (h *Hook) OnDispatchEnd(_ context.Context, token vgirpc.HookToken, info vgirpc.DispatchInfo, stats *vgirpc.CallStatistics, err error) {
	hi := HookInfo{Method: info.Method, MethodType: info.MethodType, RequestID: info.RequestID, StreamID: info.StreamID,
		Cancelled: info.Cancelled, HTTPStatus: info.HTTPStatus, HasErr: err != nil}
	if tok, ok := token.(*HookToken); ok && tok != nil {
		hi.Token, hi.TokenID = fmt.Sprintf("%p", tok), tok.ID
	} else {
		hi.ForeignTok = true
		hi.Token = fmt.Sprintf("%v", token)
	}
	if err != nil {
		hi.Err = err.Error()
	}
	if stats != nil {
		hi.InBatches, hi.OutBatches = stats.InputBatches, stats.OutputBatches
	}
	if l := sink.Load(); l != nil {
		l.Add("svc", EvHookE, info.RequestID, hi)
	}
	if h.PanicOnEnd != nil && h.PanicOnEnd(info) {
		panic("svc: scripted panic in OnDispatchEnd")
	}
}

// FromLog converts recorded events (actor "svc") into the flat view the
// matchers use.
func FromLog(evs []mon.Event) []EventLike {
	out := make([]EventLike, 0, len(evs))
	for _, e := range evs {
		if e.Actor != "svc" {
			continue
		}
		el := EventLike{Kind: e.Kind, Key: e.Key}
		if in, ok := e.Payload.(Info); ok {
			el.Turn, el.State, el.Note = in.Turn, in.State, in.Note
		}
		out = append(out, el)
	}
	return out
}
