// Package svc is the harness's instrumented USER CODE: a family of scripted
// unary handlers and producer / exchange / dynamic stream states registered on
// a *vgirpc.Server through the real generic API, a DispatchHook that records
// start/end with token identity, a Model that predicts the exact normalised
// observation of a scripted call, and matchers. See README.md in this
// directory for the API tour; in short:
//
//	svc.SetSink(log)                          // package-level *mon.Log every handler/state/hook records into
//	srv := svc.NewServer(withConformance)     // Register (+ the repository's conformance.RegisterMethods)
//	s := svc.GenStream(rng, id, svc.StreamOpt{Producer: true, Turns: 3, FailAt: 1, FailAct: svc.ActPanic})
//	req := wire.Req{Method: "p_hdr", Params: svc.ParamsBatch(s, args)}
//	pred := svc.Model(s, svc.Call{Method: "p_hdr", Args: args, Inputs: ticks, CancelAt: -1})
//	bad := svc.Match(pred, res.Header, res.Output, svc.MatchOpt{})            // client-side observation
//	msg := svc.MatchEvents(pred.Events, svc.EventsOf(svc.FromLog(evs), s.ID)) // user-code side
//
// Behaviour is driven by a Script carried in the "script" parameter and, for
// streams, inside the gob-serialisable state (every state type is registered
// with vgirpc.RegisterStateType), so the same script runs on a pipe and across
// HTTP continuations. The handlers share their value functions (UnaryValue,
// ProducerRows, ExchangeRows) with the Model: what is under test is the
// library that carries the values, not the functions that make them up.
package svc
