package svc_test

import (
	"bytes"
	"math/rand/v2"
	"testing"
	"time"

	"verif/harness/internal/mon"
	"verif/harness/internal/svc"
	"verif/harness/internal/wire"
)

// Smoke test of the shared infrastructure: every scripted method once over
// an in-process pipe and (unary) over in-process HTTP, compared with Model.
func TestSmoke(t *testing.T) {
	log := mon.NewLog()
	svc.SetSink(log)
	defer svc.SetSink(nil)
	srv := svc.NewServer(true)
	c := wire.NewInProc(srv.Serve)
	c.Timeout = 5 * time.Second
	defer c.Close()
	rng := rand.New(rand.NewPCG(1, 2))

	for i, m := range svc.UnaryMethods {
		for _, act := range []svc.Act{svc.ActValue, svc.ActError, svc.ActPanic} {
			s := svc.GenUnary(rng, "u"+m+string(act), act, 5)
			a := svc.GenArgs(rng)
			a.N = int64(i)
			p := svc.ParamsBatch(s, a)
			st, err := c.Unary(wire.Req{Method: m, Params: p, RequestID: "rid-" + m, LogLevel: "DEBUG"})
			p.Release()
			if err != nil {
				t.Fatalf("%s/%s: %v", m, act, err)
			}
			pred := svc.Model(s, svc.Call{Method: m, Args: a, LogLevel: "DEBUG", RequestID: "rid-" + m})
			if bad := svc.Match(pred, nil, &st, svc.MatchOpt{RequestID: "rid-" + m, CheckRequestID: true}); len(bad) > 0 {
				t.Errorf("%s/%s: %v\n got %s", m, act, bad, st.Key(wire.Norm{}))
			}
		}
	}

	for _, m := range svc.StreamMethods {
		meth := svc.Methods[m]
		for _, producer := range []bool{true, false} {
			if (meth.Kind == "producer" && !producer) || (meth.Kind == "exchange" && producer) {
				continue
			}
			s := svc.GenStream(rng, "s"+m, svc.StreamOpt{Producer: producer, Turns: 3, FailAt: -1})
			a := svc.GenArgs(rng)
			call := svc.Call{Method: m, Args: a, CancelAt: -1, Inputs: svc.GenInputs(rng, 5)}
			sc := wire.StreamCall{Req: wire.Req{Method: m, RequestID: "rid"}, ExpectHeader: meth.Header}
			sc.Req.Params = svc.ParamsBatch(s, a)
			if producer {
				for range call.Inputs {
					sc.Inputs = append(sc.Inputs, wire.Input{})
				}
			} else {
				sc.InputSchema = svc.InSchema
				for _, in := range call.Inputs {
					sc.Inputs = append(sc.Inputs, wire.Input{Batch: svc.BuildInput(in, "exact")})
				}
			}
			mark := log.Len()
			res := c.Stream(sc)
			if res.Err != nil {
				t.Fatalf("%s: %s: %v", m, res.Phase, res.Err)
			}
			pred := svc.Model(s, call)
			if bad := svc.Match(pred, res.Header, res.Output, svc.MatchOpt{}); len(bad) > 0 {
				t.Errorf("%s producer=%v: %v\n got %s", m, producer, bad, res.Output.Key(wire.Norm{}))
			}
			got := svc.EventsOf(svc.FromLog(log.Since(int64(mark))), s.ID)
			if msg := svc.MatchEvents(pred.Events, got); msg != "" {
				t.Errorf("%s producer=%v: %s", m, producer, msg)
			}
		}
	}

	// conformance method next to the family
	st, err := c.Unary(wire.Req{Method: "void_noop"})
	if err != nil || st.HasError() {
		t.Errorf("void_noop: %v %s", err, st.Key(wire.Norm{}))
	}
	c.CloseWrite()
	if left, _ := c.Leftover(2 * time.Second); len(left) != 0 {
		t.Errorf("leftover bytes: %d", len(left))
	}
	if !c.WaitServer(2 * time.Second) {
		t.Errorf("serve loop did not return after client EOF")
	}

	// Decode on garbage never panics and flags it.
	o := wire.Decode(bytes.Repeat([]byte{0xfe}, 100))
	if !o.Garbage {
		t.Errorf("garbage not flagged: %+v", o)
	}
}
