package svc

import (
	"fmt"
	"sort"
	"strings"

	"github.com/apache/arrow-go/v18/arrow"
	"github.com/apache/arrow-go/v18/arrow/array"

	"verif/harness/internal/gen"
	"verif/harness/internal/wire"
)

// PBatch is one predicted response batch.
type PBatch struct {
	Kind     wire.Kind         `json:"kind"`
	Optional bool              `json:"optional,omitempty"` // the contract does not say whether it is delivered
	Level    string            `json:"level,omitempty"`    // log
	Message  string            `json:"message,omitempty"`  // log
	Extra    map[string]string `json:"extra,omitempty"`    // log extras (nil = no log_extra key)
	Canon    string            `json:"canon,omitempty"`    // data: gen.CanonValues of the expected batch
	Meta     map[string]string `json:"meta,omitempty"`     // data: user metadata that must be present
	Why      string            `json:"why,omitempty"`      // error: what fails (advisory)
}

// PStream is one predicted response stream.
type PStream struct {
	Schema  string   `json:"schema"`
	Batches []PBatch `json:"batches"`
}

// PEvent is one predicted invocation of user code.
type PEvent struct {
	Kind string `json:"kind"`
	Turn int    `json:"turn"`
}

// Pred is the Model's prediction for one call.
type Pred struct {
	Header *PStream `json:"header,omitempty"` // nil: no header stream
	Output PStream  `json:"output"`
	Events []PEvent `json:"events"` // user-code invocations in order (init, produce/exchange k, cancel)
	Fails  bool     `json:"fails"`  // the response ends with an EXCEPTION batch
	// Cancelled: the cancel batch is reached before the stream ends otherwise.
	Cancelled bool `json:"cancelled,omitempty"`
	// InitLogs are predicted at the front of the header stream when there is
	// one, else at the front of the output stream; Match accepts either place.
	InitLogs []PBatch `json:"init_logs,omitempty"`
}

// Call is everything about one call that the Model needs besides the script.
type Call struct {
	Method    string
	Args      Args
	LogLevel  string // requested level ("" = none)
	RequestID string
	// Streams.
	Variant  string      // input schema variant (exchange); "" = "exact"
	Inputs   []InputSpec // exchange inputs, in order; producers: len(Inputs) = ticks the client is willing to send
	CancelAt int         // index of the input replaced by a cancel batch; <0 = never
}

var levelRank = map[string]int{"EXCEPTION": 0, "ERROR": 1, "WARN": 2, "INFO": 3, "DEBUG": 4, "TRACE": 5}

// KnownLevel reports whether s is one of the six protocol levels.
func KnownLevel(s string) bool { _, ok := levelRank[s]; return ok }

// filterLogs models CallContext.ClientLog: a message is kept iff its level is
// at or above the requested one. Messages with a level outside the protocol's
// six, and all messages when the requested level is outside them, are marked
// Optional (the contract does not order unknown levels).
func filterLogs(logs []Log, requested string) []PBatch {
	if requested == "" {
		requested = "TRACE"
	}
	rr, rok := levelRank[requested]
	var out []PBatch
	for _, l := range logs {
		pb := PBatch{Kind: wire.KindLog, Level: l.Level, Message: l.Msg, Extra: extrasMap(l.Extras)}
		lr, lok := levelRank[l.Level]
		switch {
		case !rok || !lok:
			pb.Optional = true
		case lr > rr:
			continue
		}
		out = append(out, pb)
	}
	return out
}

func allLogs(logs []Log, optional bool) []PBatch {
	var out []PBatch
	for _, l := range logs {
		out = append(out, PBatch{Kind: wire.KindLog, Level: l.Level, Message: l.Msg, Extra: extrasMap(l.Extras), Optional: optional})
	}
	return out
}

func extrasMap(e []KV) map[string]string {
	if len(e) == 0 {
		return nil
	}
	m := make(map[string]string, len(e))
	for _, kv := range e {
		m[kv.K] = kv.V
	}
	return m
}

// ResultSchema returns the declared result schema of a unary method, built by
// hand from the documented mapping (single "result" column).
func ResultSchema(m Method) *arrow.Schema {
	if m.Void {
		return arrow.NewSchema(nil, nil)
	}
	return arrow.NewSchema([]arrow.Field{{Name: "result", Type: m.ResultDT, Nullable: m.Nullable}}, nil)
}

// resultBatch builds the expected 1-row result batch by hand.
func resultBatch(m Method, a Args, zero bool) arrow.RecordBatch {
	schema := ResultSchema(m)
	if m.Void {
		return array.NewRecordBatch(schema, nil, 0)
	}
	b := array.NewBuilder(gen.Mem, m.ResultDT)
	defer b.Release()
	val := UnaryValue(m.Name, a)
	if zero {
		// the Go zero value: a nil slice is an empty value, a nil pointer is null
		switch val.(type) {
		case string:
			val = ""
		case int64:
			val = int64(0)
		case float64:
			val = float64(0)
		case bool:
			val = false
		case []byte:
			val = []byte(nil)
		case []int64:
			val = []int64(nil)
		case *string:
			val = (*string)(nil)
		}
	}
	switch v := val.(type) {
	case string:
		b.(*array.StringBuilder).Append(v)
	case int64:
		b.(*array.Int64Builder).Append(v)
	case float64:
		b.(*array.Float64Builder).Append(v)
	case bool:
		b.(*array.BooleanBuilder).Append(v)
	case []byte:
		b.(*array.BinaryBuilder).Append(v)
	case []int64:
		lb := b.(*array.ListBuilder)
		lb.Append(true)
		for _, e := range v {
			lb.ValueBuilder().(*array.Int64Builder).Append(e)
		}
	case *string:
		if v == nil {
			b.AppendNull()
		} else {
			b.(*array.StringBuilder).Append(*v)
		}
	default:
		panic(fmt.Sprintf("svc: no result builder for %T", v))
	}
	col := b.NewArray()
	defer col.Release()
	return array.NewRecordBatch(schema, []arrow.Array{col}, 1)
}

func canonOf(rec arrow.RecordBatch) string {
	defer rec.Release()
	return gen.CanonValues(rec)
}

// Model predicts the client-visible outcome and the user-code invocations of
// one call with VALID parameters on a registered scripted method, from the
// contract (C04 / C06 statements), not from the implementation. Places where
// the contract is silent are marked Optional rather than guessed.
func Model(s Script, c Call) Pred {
	m, ok := Methods[c.Method]
	if !ok {
		panic("svc.Model: unknown method " + c.Method)
	}
	if m.Kind == "unary" {
		return modelUnary(m, s, c)
	}
	return modelStream(m, s, c)
}

func modelUnary(m Method, s Script, c Call) Pred {
	p := Pred{Events: []PEvent{{Kind: EvUnary}}}
	p.Output.Schema = gen.SchemaFingerprint(ResultSchema(m))
	p.Output.Batches = filterLogs(s.ULogs, c.LogLevel)
	switch s.UAct {
	case ActError, ActPanic:
		p.Fails = true
		p.Output.Batches = append(p.Output.Batches, PBatch{Kind: wire.KindError, Why: string(s.UAct)})
	default:
		p.Output.Batches = append(p.Output.Batches, PBatch{Kind: wire.KindData, Canon: canonOf(resultBatch(m, c.Args, s.UZero))})
	}
	return p
}

func modelStream(m Method, s Script, c Call) Pred {
	p := Pred{Events: []PEvent{{Kind: EvInit, Turn: -1}}}
	p.Output.Schema = gen.SchemaFingerprint(OutSchema)
	producer := m.Kind == "producer" || (m.Kind == "dynamic" && s.Producer)
	initLogs := filterLogs(s.InitLogs, c.LogLevel)
	fail := func(why string) Pred {
		p.Fails = true
		p.Output.Batches = append(p.Output.Batches, PBatch{Kind: wire.KindError, Why: why})
		return p
	}
	switch s.InitAct {
	case ActError, ActPanic, ActNil, ActBadState:
		// the contract does not say whether logs of a failed init are delivered
		for i := range initLogs {
			initLogs[i].Optional = true
		}
		p.InitLogs = initLogs
		p.Output.Schema = "" // schema of an init-failure stream is not specified
		return fail("init:" + string(s.InitAct))
	}
	p.InitLogs = initLogs
	if m.Header && s.Header {
		h := HeaderFor(s, c.Args)
		tb := array.NewStringBuilder(gen.Mem)
		tb.Append(h.Title)
		cb := array.NewInt64Builder(gen.Mem)
		cb.Append(h.Count)
		cols := []arrow.Array{tb.NewArray(), cb.NewArray()}
		tb.Release()
		cb.Release()
		rec := array.NewRecordBatch(HeaderSchema, cols, 1)
		cols[0].Release()
		cols[1].Release()
		p.Header = &PStream{Schema: gen.SchemaFingerprint(HeaderSchema), Batches: []PBatch{{Kind: wire.KindData, Canon: canonOf(rec)}}}
	}
	variant := c.Variant
	if variant == "" {
		variant = "exact"
	}
	for k := 0; k < len(c.Inputs); k++ {
		if c.CancelAt >= 0 && k == c.CancelAt {
			p.Cancelled = true
			if !s.NoCancel {
				p.Events = append(p.Events, PEvent{Kind: EvCancel, Turn: k})
			}
			return p
		}
		if !producer && !Castable(variant) {
			return fail("input not castable")
		}
		t := s.TurnAt(k, producer)
		kind := EvExchange
		if producer {
			kind = EvProduce
		}
		p.Events = append(p.Events, PEvent{Kind: kind, Turn: k})
		data := func() PBatch {
			var rec arrow.RecordBatch
			if producer {
				v, g := ProducerRows(s.Seed, k, t.Rows)
				rec = OutBatch(k, v, g)
			} else {
				v, g := ExchangeRows(s.Seed, k, t.Rows, c.Inputs[k])
				rec = OutBatch(k, v, g)
			}
			return PBatch{Kind: wire.KindData, Canon: canonOf(rec), Meta: extrasMap(t.Meta)}
		}
		add := func(bs ...PBatch) { p.Output.Batches = append(p.Output.Batches, bs...) }
		switch t.Act {
		case ActEmit:
			add(allLogs(t.Logs, false)...)
			add(data())
		case ActFinishIgn, ActFinishRet:
			if t.Act == ActFinishRet && !producer {
				add(allLogs(t.Logs, true)...)
				return fail(fmt.Sprintf("turn %d: finish on exchange", k))
			}
			if producer {
				// a producer that finishes and emits: finished, data delivery unspecified
				add(allLogs(t.Logs, true)...)
				d := data()
				d.Optional = true
				add(d)
				return p
			}
			add(allLogs(t.Logs, false)...)
			add(data())
		case ActError, ActPanic, ActNone, ActEmitTwice:
			add(allLogs(t.Logs, true)...)
			return fail(fmt.Sprintf("turn %d: %s", k, t.Act))
		case ActFinish:
			add(allLogs(t.Logs, true)...)
			if producer {
				return p
			}
			// exchange: Finish() error returned by the state => failing turn
			return fail(fmt.Sprintf("turn %d: finish on exchange", k))
		case ActEmitFin:
			add(allLogs(t.Logs, true)...)
			d := data()
			d.Optional = true
			if producer {
				add(d)
				return p
			}
			return fail(fmt.Sprintf("turn %d: finish on exchange", k))
		default:
			panic("svc.Model: unknown act " + string(t.Act))
		}
	}
	return p
}

// ---------------------------------------------------------------------------
// Matching a prediction against an observation

// MatchOpt tunes Match.
type MatchOpt struct {
	RequestID      string // the call's request id ("" = the client sent none) ...
	CheckRequestID bool   // ... when set, every log and error batch must carry exactly it (absent == "")
	SkipSchema     bool   // do not compare stream schema fingerprints
}

func batchMatches(p PBatch, g wire.Batch, o MatchOpt) string {
	switch p.Kind {
	case wire.KindLog:
		// a scripted log may use level EXCEPTION; on the wire that is an error-shaped batch
		if g.Kind != wire.KindLog && g.Kind != wire.KindError {
			return fmt.Sprintf("want log %q/%q, got %s batch", p.Level, p.Message, g.Kind)
		}
		if g.Level != p.Level || g.Message != p.Message {
			return fmt.Sprintf("want log %q/%q, got %q/%q", p.Level, p.Message, g.Level, g.Message)
		}
		gm := g.ExtraMap()
		if len(p.Extra) == 0 {
			if _, has := g.Meta[wire.KeyLogExtra]; has && len(gm) != 0 {
				return fmt.Sprintf("log %q: unexpected extras %q", p.Message, g.Extra)
			}
		} else if !mapsEqual(p.Extra, gm) {
			return fmt.Sprintf("log %q: extras want %v, got %q", p.Message, p.Extra, g.Extra)
		}
	case wire.KindError:
		if g.Kind != wire.KindError {
			return fmt.Sprintf("want exception batch (%s), got %s batch", p.Why, g.Kind)
		}
	case wire.KindData:
		if g.Kind != wire.KindData {
			return fmt.Sprintf("want data batch, got %s batch (%s %q)", g.Kind, g.Level, g.Message)
		}
		if g.Canon != p.Canon {
			return fmt.Sprintf("data batch differs: want %s, got %s", p.Canon, g.Canon)
		}
		for k, v := range p.Meta {
			if gv, ok := g.Meta[k]; !ok || gv != v {
				return fmt.Sprintf("data batch metadata %q: want %q, got %q (present=%v)", k, v, gv, ok)
			}
		}
	default:
		return "model produced an unsupported batch kind " + string(p.Kind)
	}
	if o.CheckRequestID && p.Kind != wire.KindData {
		// with an empty client id there is nothing to echo: the key may be
		// absent or empty, but it must not carry somebody else's id
		if g.RequestID != o.RequestID {
			return fmt.Sprintf("%s batch %q does not echo request id %q (got %q, present=%v)", g.Kind, g.Message, o.RequestID, g.RequestID, g.HasReqID)
		}
	}
	return ""
}

func mapsEqual(a, b map[string]string) bool {
	if len(a) != len(b) {
		return false
	}
	for k, v := range a {
		if bv, ok := b[k]; !ok || bv != v {
			return false
		}
	}
	return true
}

// matchSeq aligns predicted batches (some optional) with observed ones.
// Returns "" on success, else the mismatch met on the longest partial match.
func matchSeq(pred []PBatch, got []wire.Batch, o MatchOpt) string {
	type key struct{ i, j int }
	memo := map[key]bool{}
	best, bestMsg := -1, ""
	note := func(depth int, msg string) {
		if depth > best {
			best, bestMsg = depth, msg
		}
	}
	var rec func(i, j int) bool
	rec = func(i, j int) bool {
		if i == len(pred) {
			if j == len(got) {
				return true
			}
			note(i+j, fmt.Sprintf("unexpected extra %s batch at position %d (%s %q)", got[j].Kind, j, got[j].Level, got[j].Message))
			return false
		}
		k := key{i, j}
		if v, ok := memo[k]; ok {
			return v
		}
		res := false
		if j < len(got) {
			if msg := batchMatches(pred[i], got[j], o); msg == "" {
				res = rec(i+1, j+1)
			} else {
				note(i+j, fmt.Sprintf("position %d: %s", j, msg))
			}
		} else if !pred[i].Optional {
			note(i+j, fmt.Sprintf("missing %s batch at position %d (%s %q %s)", pred[i].Kind, j, pred[i].Level, pred[i].Message, pred[i].Why))
		}
		if !res && pred[i].Optional {
			res = rec(i+1, j)
		}
		memo[k] = res
		return res
	}
	if rec(0, 0) {
		return ""
	}
	if bestMsg == "" {
		bestMsg = "sequence mismatch"
	}
	return bestMsg
}

// Match compares a stream observation (header may be nil) with the
// prediction. It returns the list of mismatches (empty = as predicted).
func Match(p Pred, header *wire.Stream, output *wire.Stream, o MatchOpt) []string {
	var bad []string
	if output == nil {
		return []string{"no output stream observed"}
	}
	if !output.Complete {
		bad = append(bad, "output stream not complete: "+output.Err)
	}
	// Init logs may ride in the header stream or lead the output stream.
	hdrPred, outPred := []PBatch(nil), []PBatch(nil)
	if p.Header != nil {
		if header == nil {
			bad = append(bad, "header stream missing")
		} else {
			if !header.Complete {
				bad = append(bad, "header stream not complete: "+header.Err)
			}
			if !o.SkipSchema && header.Schema != p.Header.Schema {
				bad = append(bad, fmt.Sprintf("header schema %s, want %s", header.Schema, p.Header.Schema))
			}
		}
	} else if header != nil {
		bad = append(bad, "unexpected header stream: "+header.KindSeq())
	}
	if !o.SkipSchema && p.Output.Schema != "" && output.Schema != p.Output.Schema {
		bad = append(bad, fmt.Sprintf("output schema %s, want %s", output.Schema, p.Output.Schema))
	}
	tryPlacement := func(inHeader bool) string {
		hdrPred, outPred = nil, nil
		if p.Header != nil {
			if inHeader {
				hdrPred = append(hdrPred, p.InitLogs...)
			}
			hdrPred = append(hdrPred, p.Header.Batches...)
		}
		if !inHeader || p.Header == nil {
			outPred = append(outPred, p.InitLogs...)
		}
		outPred = append(outPred, p.Output.Batches...)
		if p.Header != nil && header != nil {
			if msg := matchSeq(hdrPred, header.Batches, o); msg != "" {
				return "header stream: " + msg
			}
		}
		if msg := matchSeq(outPred, output.Batches, o); msg != "" {
			return "output stream: " + msg
		}
		return ""
	}
	msg := tryPlacement(true)
	if msg != "" && p.Header != nil && len(p.InitLogs) > 0 {
		if tryPlacement(false) == "" {
			msg = ""
		}
	}
	if msg != "" {
		bad = append(bad, msg)
	}
	return bad
}

// EventsOf extracts the user-code invocations recorded for a script id.
func EventsOf(evs []EventLike, id string) []PEvent {
	var out []PEvent
	for _, e := range evs {
		if e.Key != id {
			continue
		}
		switch e.Kind {
		case EvUnary, EvInit, EvProduce, EvExchange, EvCancel:
			out = append(out, PEvent{Kind: e.Kind, Turn: e.Turn})
		}
	}
	return out
}

// EventLike is the slice of mon.Event that EventsOf needs (see FromLog).
type EventLike struct {
	Kind, Key string
	Turn      int
	State     string
	Note      string
}

// MatchEvents compares predicted and recorded invocations.
func MatchEvents(want, got []PEvent) string {
	render := func(e []PEvent) string {
		parts := make([]string, len(e))
		for i, x := range e {
			parts[i] = fmt.Sprintf("%s@%d", x.Kind, x.Turn)
		}
		return strings.Join(parts, " ")
	}
	if len(want) != len(got) {
		return fmt.Sprintf("user-code invocations: want [%s], got [%s]", render(want), render(got))
	}
	for i := range want {
		if want[i].Kind != got[i].Kind || (want[i].Kind != EvCancel && want[i].Turn != got[i].Turn) {
			return fmt.Sprintf("user-code invocations: want [%s], got [%s]", render(want), render(got))
		}
	}
	return ""
}

// SortedKeys is a small helper for evidence output.
func SortedKeys[V any](m map[string]V) []string {
	out := make([]string, 0, len(m))
	for k := range m {
		out = append(out, k)
	}
	sort.Strings(out)
	return out
}

// Classify maps a Match / MatchEvents message to a short stable class name
// for violation signatures (the message itself carries concrete values).
func Classify(msg string) string {
	for _, c := range [][2]string{
		{"does not echo request id", "request-id-not-echoed"},
		{"not complete", "stream-incomplete"},
		{"no output stream", "no-output-stream"},
		{"header stream missing", "header-missing"},
		{"unexpected header stream", "header-unexpected"},
		{"header schema", "header-schema"},
		{"output schema", "result-schema"},
		{"header stream:", "header-content"},
		{"unexpected extras", "log-extras"},
		{"extras want", "log-extras"},
		{"want log", "log-sequence"},
		{"missing log", "log-missing"},
		{"missing error", "exception-missing"},
		{"missing data", "data-missing"},
		{"want exception batch", "exception-missing"},
		{"want data batch", "data-missing"},
		{"data batch differs", "data-value"},
		{"data batch metadata", "data-metadata"},
		{"unexpected extra error", "extra-exception"},
		{"unexpected extra data", "extra-data"},
		{"unexpected extra log", "extra-log"},
		{"unexpected extra", "extra-batch"},
		{"user-code invocations", "invocations"},
	} {
		if strings.Contains(msg, c[0]) {
			return c[1]
		}
	}
	return "other"
}
