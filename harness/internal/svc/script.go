package svc

import (
	"encoding/json"
	"errors"
	"fmt"
	"sync"

	"github.com/apache/arrow-go/v18/arrow"
	"github.com/apache/arrow-go/v18/arrow/array"
	"github.com/apache/arrow-go/v18/arrow/decimal128"
	"github.com/apache/arrow-go/v18/arrow/memory"

	"github.com/Query-farm/vgi-rpc-go/vgirpc"
)

// KV is an ordered key/value pair (log extras, per-batch metadata).
type KV struct{ K, V string }

// Log is one scripted client-log emission.
type Log struct {
	Level  string // any string; the six protocol levels or an unknown one
	Msg    string
	Extras []KV
}

// ErrSpec scripts a returned error.
type ErrSpec struct {
	// Kind: "rpc" (*vgirpc.RpcError{Type,Message,Kind}), "plain" (errors.New),
	// "wrapped" (fmt.Errorf("%w") around errors.New), "wrapped-rpc"
	// (fmt.Errorf("%w") around an RpcError), "custom" (*CustomError),
	// "custom-kind" (*KindedError, implements ErrorKind()), "rpc-sentinel" (ONE
	// package-level *vgirpc.RpcError value per (Type, Msg), returned again and
	// again across calls, like an exported ErrNotFound), "rpc-preset-id" (a
	// fresh *RpcError whose RequestID field is already set to PresetRequestID,
	// like an error relayed from an upstream client call). On the wire both
	// must look exactly like "rpc", with the CURRENT call's request id.
	Kind  string
	Type  string
	Msg   string
	EKind string
}

// PanicSpec scripts a panic value. Kind: "string", "error", "int", "rpc", "nil".
type PanicSpec struct {
	Kind string
	Val  string
}

// Act is what a handler / a turn does after its logs.
type Act string

const (
	ActValue     Act = "value"      // unary: return the value
	ActEmit      Act = "emit"       // turn: emit Rows rows (exchange: Rows<0 = as many as the input)
	ActError     Act = "error"      // return Err
	ActPanic     Act = "panic"      // panic with Panic
	ActNone      Act = "none"       // turn: return nil without emitting
	ActEmitTwice Act = "emit2"      // turn: emit, emit again, return the second Emit's error (nil if accepted)
	ActFinish    Act = "finish"     // producer turn: out.Finish(), no data
	ActEmitFin   Act = "emit+fin"   // producer turn: emit then Finish
	ActFinishRet Act = "finish-ret" // exchange turn: call out.Finish() and return its error (emit if it was nil)
	ActFinishIgn Act = "finish-ign" // exchange turn: call out.Finish(), ignore the result, emit normally
	ActOK        Act = "ok"         // stream init: return the state
	ActNil       Act = "nil"        // stream init: return (nil, nil)
	ActBadState  Act = "badstate"   // stream init: state implementing neither interface
)

// Turn scripts one Produce/Exchange invocation.
type Turn struct {
	Logs    []Log // out.ClientLog, before the data
	Act     Act
	Rows    int
	Meta    []KV // non-empty: EmitWithMetadata
	Err     ErrSpec
	Panic   PanicSpec
	SleepMs int
}

// Script drives one call. It travels JSON-encoded in the "script" parameter
// and, for streams, inside the state object (gob; all fields exported), so
// the same script runs on a pipe and across HTTP continuations.
type Script struct {
	ID   string // unique per call; key of every event this call records
	Seed int64  // feeds the emitted values

	// Unary.
	ULogs    []Log
	UAct     Act // value | error | panic
	UErr     ErrSpec
	UPanic   PanicSpec
	USleepMs int
	UZero    bool // value outcome: return the Go ZERO value of the result type (nil slice, nil pointer, "", 0)

	// Stream init.
	InitLogs  []Log
	InitAct   Act // ok | error | panic | nil | badstate
	InitErr   ErrSpec
	InitPanic PanicSpec
	Producer  bool // dynamic methods: which kind of state to return
	Header    bool // header methods: return a header (false: nil header)
	DeclInput bool // dynamic exchange: set StreamResult.InputSchema
	NoCancel  bool // return a state type without OnCancel

	// Stream turns; turn k >= len(Turns) behaves like After (default:
	// producer "finish", exchange "emit" with Rows -1).
	Turns []Turn
	After *Turn
}

// TurnAt returns the behaviour of turn k.
func (s *Script) TurnAt(k int, producer bool) Turn {
	if k < len(s.Turns) {
		return s.Turns[k]
	}
	if s.After != nil {
		return *s.After
	}
	if producer {
		return Turn{Act: ActFinish}
	}
	return Turn{Act: ActEmit, Rows: -1}
}

// Encode renders the script for the "script" parameter.
func (s Script) Encode() []byte {
	b, err := json.Marshal(s)
	if err != nil {
		panic("svc: script not encodable: " + err.Error())
	}
	return b
}

func decodeScript(b []byte) (Script, error) {
	var s Script
	err := json.Unmarshal(b, &s)
	return s, err
}

// CustomError is a user-defined error type without protocol knowledge.
type CustomError struct{ Code int }

func (e *CustomError) Error() string { return fmt.Sprintf("custom error %d", e.Code) }

// KindedError is a user error that advertises an error kind.
type KindedError struct{ K, M string }

func (e *KindedError) Error() string     { return e.M }
func (e *KindedError) ErrorKind() string { return e.K }

// Build materialises a scripted error.
func (e ErrSpec) Build() error {
	switch e.Kind {
	case "rpc":
		return &vgirpc.RpcError{Type: e.Type, Message: e.Msg, Kind: e.EKind}
	case "rpc-sentinel":
		return sentinelFor(e.Type, e.Msg)
	case "rpc-preset-id":
		return &vgirpc.RpcError{Type: e.Type, Message: e.Msg, RequestID: PresetRequestID}
	case "plain":
		return errors.New(e.Msg)
	case "wrapped":
		return fmt.Errorf("while handling: %w", errors.New(e.Msg))
	case "wrapped-rpc":
		return fmt.Errorf("while handling: %w", &vgirpc.RpcError{Type: e.Type, Message: e.Msg})
	case "custom":
		return &CustomError{Code: len(e.Msg)}
	case "custom-kind":
		return &KindedError{K: e.EKind, M: e.Msg}
	}
	return errors.New("svc: unknown ErrSpec kind " + e.Kind)
}

// PresetRequestID is the foreign request id carried by "rpc-preset-id" errors.
const PresetRequestID = "upstream-req-7"

var (
	sentinelMu sync.Mutex
	sentinels  = map[[2]string]*vgirpc.RpcError{}
)

// sentinelFor returns THE error value for (typ, msg): the same pointer for
// every call in the process.
func sentinelFor(typ, msg string) *vgirpc.RpcError {
	sentinelMu.Lock()
	defer sentinelMu.Unlock()
	k := [2]string{typ, msg}
	if e, ok := sentinels[k]; ok {
		return e
	}
	e := &vgirpc.RpcError{Type: typ, Message: msg}
	sentinels[k] = e
	return e
}

// Value materialises a scripted panic value.
func (p PanicSpec) Value() any {
	switch p.Kind {
	case "error":
		return errors.New(p.Val)
	case "int":
		return len(p.Val)
	case "rpc":
		return &vgirpc.RpcError{Type: "ValueError", Message: p.Val}
	case "nil":
		return nil
	}
	return p.Val
}

// ---------------------------------------------------------------------------
// Parameters

// Params is the parameter struct of every scripted method.
type Params struct {
	Script []byte  `vgirpc:"script"`
	N      int64   `vgirpc:"n"`
	Tag    string  `vgirpc:"tag"`
	Opt    *string `vgirpc:"opt"`
}

// ParamsSchema is the wire schema of Params, written by hand (Register
// cross-checks it against the library's derivation and panics on drift).
var ParamsSchema = arrow.NewSchema([]arrow.Field{
	{Name: "script", Type: arrow.BinaryTypes.Binary},
	{Name: "n", Type: arrow.PrimitiveTypes.Int64},
	{Name: "tag", Type: arrow.BinaryTypes.String},
	{Name: "opt", Type: arrow.BinaryTypes.String, Nullable: true},
}, nil)

// Alloc is the allocator for every batch this package builds (params,
// inputs, emitted data). C41 swaps in a checked allocator.
var Alloc memory.Allocator = memory.NewGoAllocator()

// Args are the non-script parameter values of a call.
type Args struct {
	N   int64
	Tag string
	Opt *string
}

// ParamsBatch builds the one-row request batch for a scripted method.
func ParamsBatch(s Script, a Args) arrow.RecordBatch {
	return ParamsBatchVariant(s, a, "exact")
}

// ParamVariants lists the schema perturbations ParamsBatchVariant knows.
// Every one except "exact" must be refused by parameter binding.
var ParamVariants = []string{"exact", "reordered", "narrowed", "widened", "type-int32", "type-large", "nullability", "renamed"}

// ParamsBatchVariant builds the request batch under a schema perturbation.
func ParamsBatchVariant(s Script, a Args, variant string) arrow.RecordBatch {
	bb := array.NewBinaryBuilder(Alloc, arrow.BinaryTypes.Binary)
	bb.Append(s.Encode())
	script := bb.NewArray()
	bb.Release()
	nb := array.NewInt64Builder(Alloc)
	nb.Append(a.N)
	n := nb.NewArray()
	nb.Release()
	tb := array.NewStringBuilder(Alloc)
	tb.Append(a.Tag)
	tag := tb.NewArray()
	tb.Release()
	ob := array.NewStringBuilder(Alloc)
	if a.Opt == nil {
		ob.AppendNull()
	} else {
		ob.Append(*a.Opt)
	}
	opt := ob.NewArray()
	ob.Release()
	f := ParamsSchema.Fields()
	fields := []arrow.Field{f[0], f[1], f[2], f[3]}
	cols := []arrow.Array{script, n, tag, opt}
	switch variant {
	case "exact":
	case "reordered":
		fields = []arrow.Field{f[1], f[0], f[2], f[3]}
		cols = []arrow.Array{n, script, tag, opt}
	case "narrowed":
		fields, cols = fields[:3], cols[:3]
	case "widened":
		xb := array.NewInt64Builder(Alloc)
		xb.Append(7)
		x := xb.NewArray()
		xb.Release()
		defer x.Release()
		fields = append(fields, arrow.Field{Name: "extra", Type: arrow.PrimitiveTypes.Int64})
		cols = append(cols, x)
	case "type-int32":
		ib := array.NewInt32Builder(Alloc)
		ib.Append(int32(a.N))
		n32 := ib.NewArray()
		ib.Release()
		defer n32.Release()
		fields[1] = arrow.Field{Name: "n", Type: arrow.PrimitiveTypes.Int32}
		cols[1] = n32
	case "type-large":
		lb := array.NewLargeStringBuilder(Alloc)
		lb.Append(a.Tag)
		lt := lb.NewArray()
		lb.Release()
		defer lt.Release()
		fields[2] = arrow.Field{Name: "tag", Type: arrow.BinaryTypes.LargeString}
		cols[2] = lt
	case "nullability":
		fields[1] = arrow.Field{Name: "n", Type: arrow.PrimitiveTypes.Int64, Nullable: true}
	case "renamed":
		fields[2] = arrow.Field{Name: "label", Type: arrow.BinaryTypes.String}
	default:
		panic("svc: unknown param variant " + variant)
	}
	rec := array.NewRecordBatch(arrow.NewSchema(fields, nil), cols, 1)
	script.Release()
	n.Release()
	tag.Release()
	opt.Release()
	return rec
}

// ---------------------------------------------------------------------------
// Stream schemas and deterministic data

// OutSchema is the output schema of every scripted stream method.
var OutSchema = arrow.NewSchema([]arrow.Field{
	{Name: "turn", Type: arrow.PrimitiveTypes.Int64},
	{Name: "idx", Type: arrow.PrimitiveTypes.Int64},
	{Name: "val", Type: arrow.PrimitiveTypes.Int64},
	{Name: "tag", Type: arrow.BinaryTypes.String, Nullable: true},
}, nil)

// InSchema is the declared input schema of the scripted exchange methods.
var InSchema = arrow.NewSchema([]arrow.Field{
	{Name: "x", Type: arrow.PrimitiveTypes.Int64},
	{Name: "w", Type: arrow.PrimitiveTypes.Float64},
}, nil)

// TickSchema is the (empty) input schema of producer streams.
var TickSchema = arrow.NewSchema(nil, nil)

// InputSpec is the logical content of one exchange input batch. W values are
// kept to multiples of 1/4 with small magnitude so every castable variant
// (float32, decimal) carries them exactly.
type InputSpec struct {
	X []int64
	W []float64
}

// InputVariants lists the input-stream schema variants. "exact" equals the
// declared schema; "int32", "float32", "decimal", "both" are castable to it;
// "badname", "badtype", "extracol", "fewer" are not.
var InputVariants = []string{"exact", "int32", "float32", "decimal", "both", "badname", "badtype", "extracol", "fewer"}

// Castable reports whether an input variant must be accepted.
func Castable(variant string) bool {
	switch variant {
	case "exact", "int32", "float32", "decimal", "both":
		return true
	}
	return false
}

// InputSchemaVariant returns the schema of a whole input stream.
func InputSchemaVariant(variant string) *arrow.Schema {
	x := arrow.Field{Name: "x", Type: arrow.PrimitiveTypes.Int64}
	w := arrow.Field{Name: "w", Type: arrow.PrimitiveTypes.Float64}
	switch variant {
	case "exact":
	case "int32":
		x.Type = arrow.PrimitiveTypes.Int32
	case "float32":
		w.Type = arrow.PrimitiveTypes.Float32
	case "decimal":
		w.Type = &arrow.Decimal128Type{Precision: 20, Scale: 4}
	case "both":
		x.Type = arrow.PrimitiveTypes.Int32
		w.Type = arrow.PrimitiveTypes.Float32
	case "badname":
		x.Name = "xx"
	case "badtype":
		x.Type = arrow.BinaryTypes.String
	case "extracol":
		return arrow.NewSchema([]arrow.Field{x, w, {Name: "z", Type: arrow.PrimitiveTypes.Int64}}, nil)
	case "fewer":
		return arrow.NewSchema([]arrow.Field{x}, nil)
	default:
		panic("svc: unknown input variant " + variant)
	}
	return arrow.NewSchema([]arrow.Field{x, w}, nil)
}

// BuildInput builds one input batch under a schema variant.
func BuildInput(in InputSpec, variant string) arrow.RecordBatch {
	schema := InputSchemaVariant(variant)
	cols := make([]arrow.Array, schema.NumFields())
	for i, f := range schema.Fields() {
		b := array.NewBuilder(Alloc, f.Type)
		for r := range in.X {
			switch bb := b.(type) {
			case *array.Int64Builder:
				if f.Name == "z" {
					bb.Append(int64(r))
				} else {
					bb.Append(in.X[r])
				}
			case *array.Int32Builder:
				bb.Append(int32(in.X[r]))
			case *array.Float64Builder:
				bb.Append(in.W[r])
			case *array.Float32Builder:
				bb.Append(float32(in.W[r]))
			case *array.Decimal128Builder:
				bb.Append(decimal128.FromI64(int64(in.W[r] * 10000)))
			case *array.StringBuilder:
				bb.Append(fmt.Sprintf("s%d", in.X[r]))
			default:
				b.AppendNull()
			}
		}
		cols[i] = b.NewArray()
		b.Release()
	}
	rec := array.NewRecordBatch(schema, cols, int64(len(in.X)))
	for _, c := range cols {
		c.Release()
	}
	return rec
}

// ProducerRows returns the rows a producer turn emits: (turn, idx, val, tag).
func ProducerRows(seed int64, turn, rows int) (val []int64, tag []*string) {
	for r := 0; r < rows; r++ {
		val = append(val, seed*1000003+int64(turn)*131+int64(r))
		if r%3 == 0 {
			tag = append(tag, nil)
		} else {
			s := fmt.Sprintf("t%d.%d", turn, r)
			tag = append(tag, &s)
		}
	}
	return
}

// ExchangeRows returns the rows an exchange turn emits for an input.
func ExchangeRows(seed int64, turn, rows int, in InputSpec) (val []int64, tag []*string) {
	var sx int64
	var sw float64
	for i := range in.X {
		sx += in.X[i]
		sw += in.W[i]
	}
	if rows < 0 {
		rows = len(in.X)
	}
	for r := 0; r < rows; r++ {
		val = append(val, sx*int64(turn+1)+int64(r)+seed)
		s := fmt.Sprintf("%g", sw)
		tag = append(tag, &s)
	}
	return
}

// OutBatch builds an output batch from row values.
func OutBatch(turn int, val []int64, tag []*string) arrow.RecordBatch {
	tb := array.NewInt64Builder(Alloc)
	ib := array.NewInt64Builder(Alloc)
	vb := array.NewInt64Builder(Alloc)
	sb := array.NewStringBuilder(Alloc)
	for r := range val {
		tb.Append(int64(turn))
		ib.Append(int64(r))
		vb.Append(val[r])
		if tag[r] == nil {
			sb.AppendNull()
		} else {
			sb.Append(*tag[r])
		}
	}
	cols := []arrow.Array{tb.NewArray(), ib.NewArray(), vb.NewArray(), sb.NewArray()}
	tb.Release()
	ib.Release()
	vb.Release()
	sb.Release()
	rec := array.NewRecordBatch(OutSchema, cols, int64(len(val)))
	for _, c := range cols {
		c.Release()
	}
	return rec
}

// Header is the stream header type of the *_hdr methods.
type Header struct {
	Title string `arrow:"title"`
	Count int64  `arrow:"count"`
}

// HeaderSchema is Header's wire schema.
var HeaderSchema = arrow.NewSchema([]arrow.Field{
	{Name: "title", Type: arrow.BinaryTypes.String},
	{Name: "count", Type: arrow.PrimitiveTypes.Int64},
}, nil)

func (Header) ArrowSchema() *arrow.Schema { return HeaderSchema }

// HeaderFor is the header a scripted init returns.
func HeaderFor(s Script, a Args) Header {
	return Header{Title: "hdr:" + s.ID + ":" + a.Tag, Count: a.N*3 + int64(len(s.Turns))}
}

// ParamsBatchRows builds a request batch of the exact parameter schema with
// rows rows (0 or >=2 violate the one-row request contract).
func ParamsBatchRows(s Script, a Args, rows int) arrow.RecordBatch {
	one := ParamsBatch(s, a)
	defer one.Release()
	if rows == 1 {
		one.Retain()
		return one
	}
	if rows == 0 {
		return one.NewSlice(0, 0)
	}
	cols := make([]arrow.Array, one.NumCols())
	for i := range cols {
		parts := make([]arrow.Array, rows)
		for j := range parts {
			parts[j] = one.Column(i)
		}
		c, err := array.Concatenate(parts, Alloc)
		if err != nil {
			panic(err)
		}
		cols[i] = c
	}
	rec := array.NewRecordBatch(one.Schema(), cols, int64(rows))
	for _, c := range cols {
		c.Release()
	}
	return rec
}
