// Package shmref is the harness-side view of a vgi-rpc shared-memory segment,
// written from the documented header layout only (shm.go's wire-format
// comment block and initializeHeader), never through the library:
//
//	[0:4]   magic "VGIS"
//	[4:8]   version  u32 LE (= 1)
//	[8:16]  data_size u64 LE (= segment size - 65536)
//	[16:20] allocation count u32 LE
//	[20:24] padding (0)
//	[24+16i : 40+16i]  entry i = (absolute offset u64 LE, length u64 LE)
//
// It provides (a) a reference first-fit allocator model (sorted slice), (b) a
// SECOND mapping of a segment via /dev/shm/<name> (what "another process
// attaching the segment" sees), (c) a header parser and invariant checker,
// (d) a harness-side allocator that edits the header through the second
// mapping (used by the C36 reference client, which owns its segment), and
// (e) canary helpers. Workers wI (C34, C35, C36).
package shmref

import (
	"encoding/binary"
	"fmt"
	"os"
	"path/filepath"
	"sort"
	"strings"
	"syscall"
)

const (
	HeaderSize = 65536
	FixedSize  = 24
	EntrySize  = 16
	MaxAllocs  = (HeaderSize - FixedSize) / EntrySize // 4094
	Version    = 1
)

var Magic = [4]byte{'V', 'G', 'I', 'S'}

// Entry is one allocation: absolute offset from the segment start, and length.
type Entry struct {
	Off uint64 `json:"off"`
	Len uint64 `json:"len"`
}

// ---------------------------------------------------------------------------
// Reference model

// Model is the reference first-fit allocator for a segment of Size bytes.
// Documented contract (shm.go): no alignment or rounding — an allocation of n
// bytes occupies exactly [off, off+n) where off is the start of the first gap
// (scanning from the end of the header upward) with at least n free bytes;
// at most MaxAllocs live entries; free removes the entry whose offset is equal.
type Model struct {
	Size    uint64
	Entries []Entry // sorted by Off, disjoint
}

func NewModel(size int) *Model { return &Model{Size: uint64(size)} }

// Place returns where an allocation of n bytes goes (first fit) and the index
// at which its entry is inserted. ok=false when n==0, the table is full, or no
// gap fits.
func (m *Model) Place(n uint64) (off uint64, idx int, ok bool) {
	if n == 0 || len(m.Entries) >= MaxAllocs {
		return 0, 0, false
	}
	prev := uint64(HeaderSize)
	for i, e := range m.Entries {
		if e.Off-prev >= n {
			return prev, i, true
		}
		prev = e.Off + e.Len
	}
	if m.Size >= prev && m.Size-prev >= n {
		return prev, len(m.Entries), true
	}
	return 0, 0, false
}

// Alloc places and records an allocation.
func (m *Model) Alloc(n uint64) (uint64, bool) {
	off, idx, ok := m.Place(n)
	if !ok {
		return 0, false
	}
	m.Entries = append(m.Entries, Entry{})
	copy(m.Entries[idx+1:], m.Entries[idx:])
	m.Entries[idx] = Entry{off, n}
	return off, true
}

// Free removes the entry starting exactly at off.
func (m *Model) Free(off uint64) bool {
	for i, e := range m.Entries {
		if e.Off == off {
			m.Entries = append(m.Entries[:i:i], m.Entries[i+1:]...)
			return true
		}
	}
	return false
}

func (m *Model) Reset() { m.Entries = nil }

// MaxGap is the size of the largest free gap (0 when the table is full).
func (m *Model) MaxGap() uint64 {
	if len(m.Entries) >= MaxAllocs {
		return 0
	}
	var best uint64
	prev := uint64(HeaderSize)
	for _, e := range m.Entries {
		if g := e.Off - prev; g > best {
			best = g
		}
		prev = e.Off + e.Len
	}
	if m.Size > prev && m.Size-prev > best {
		best = m.Size - prev
	}
	return best
}

func (m *Model) Clone() *Model {
	return &Model{Size: m.Size, Entries: append([]Entry(nil), m.Entries...)}
}

// Key renders the table compactly (porcupine state / witnesses).
func Key(es []Entry) string {
	var sb strings.Builder
	for _, e := range es {
		fmt.Fprintf(&sb, "%d+%d,", e.Off, e.Len)
	}
	return sb.String()
}

// ParseKey is the inverse of Key.
func ParseKey(s string) []Entry {
	var out []Entry
	for _, p := range strings.Split(s, ",") {
		if p == "" {
			continue
		}
		var e Entry
		fmt.Sscanf(p, "%d+%d", &e.Off, &e.Len)
		out = append(out, e)
	}
	return out
}

// ---------------------------------------------------------------------------
// Header parsing

// Header is the parsed allocator header.
type Header struct {
	Magic    [4]byte
	Version  uint32
	DataSize uint64
	Count    uint32
	Pad      uint32
	Entries  []Entry // min(Count, MaxAllocs) entries
}

// Parse decodes the header from the first HeaderSize bytes of a segment.
func Parse(b []byte) (Header, error) {
	var h Header
	if len(b) < HeaderSize {
		return h, fmt.Errorf("need %d header bytes, have %d", HeaderSize, len(b))
	}
	copy(h.Magic[:], b[0:4])
	h.Version = binary.LittleEndian.Uint32(b[4:8])
	h.DataSize = binary.LittleEndian.Uint64(b[8:16])
	h.Count = binary.LittleEndian.Uint32(b[16:20])
	h.Pad = binary.LittleEndian.Uint32(b[20:24])
	n := int(h.Count)
	if n > MaxAllocs {
		n = MaxAllocs
	}
	h.Entries = make([]Entry, n)
	for i := 0; i < n; i++ {
		base := FixedSize + i*EntrySize
		h.Entries[i] = Entry{binary.LittleEndian.Uint64(b[base : base+8]), binary.LittleEndian.Uint64(b[base+8 : base+16])}
	}
	return h, nil
}

// Problems lists violations of the table invariants of the property statement
// for a segment of segSize bytes: fixed fields as documented, count <= max,
// every region non-empty and inside the data area, offset order, disjoint.
// Each problem is "class: detail"; class is stable (used in signatures).
func (h Header) Problems(segSize int) []string {
	var p []string
	if h.Magic != Magic {
		p = append(p, fmt.Sprintf("bad-magic: %q", h.Magic[:]))
	}
	if h.Version != Version {
		p = append(p, fmt.Sprintf("bad-version: %d", h.Version))
	}
	if h.DataSize != uint64(segSize-HeaderSize) {
		p = append(p, fmt.Sprintf("bad-data-size: header says %d, segment has %d", h.DataSize, segSize-HeaderSize))
	}
	if h.Pad != 0 {
		p = append(p, fmt.Sprintf("padding-nonzero: %#x", h.Pad))
	}
	if h.Count > MaxAllocs {
		p = append(p, fmt.Sprintf("count-over-max: %d > %d", h.Count, MaxAllocs))
	}
	prevEnd := uint64(HeaderSize)
	for i, e := range h.Entries {
		end := e.Off + e.Len
		switch {
		case e.Len == 0:
			p = append(p, fmt.Sprintf("empty-region: entry %d = %d+0", i, e.Off))
		case end < e.Off:
			p = append(p, fmt.Sprintf("region-wraps: entry %d = %d+%d", i, e.Off, e.Len))
		case e.Off < HeaderSize || end > uint64(segSize):
			p = append(p, fmt.Sprintf("outside-data-area: entry %d = %d+%d, data area [%d,%d)", i, e.Off, e.Len, HeaderSize, segSize))
		}
		if i > 0 {
			pe := h.Entries[i-1]
			if e.Off < pe.Off {
				p = append(p, fmt.Sprintf("unsorted: entry %d offset %d < entry %d offset %d", i, e.Off, i-1, pe.Off))
			} else if e.Off < prevEnd {
				p = append(p, fmt.Sprintf("overlap: entry %d = %d+%d starts before end %d of entry %d", i, e.Off, e.Len, prevEnd, i-1))
			}
		}
		if end > prevEnd {
			prevEnd = end
		}
	}
	return p
}

// Diff compares the parsed table with the model's; "" when identical.
func Diff(got []Entry, want []Entry) string {
	if len(got) != len(want) {
		return fmt.Sprintf("count %d, model %d (header %s | model %s)", len(got), len(want), clip(Key(got)), clip(Key(want)))
	}
	for i := range got {
		if got[i] != want[i] {
			return fmt.Sprintf("entry %d = %d+%d, model %d+%d", i, got[i].Off, got[i].Len, want[i].Off, want[i].Len)
		}
	}
	return ""
}

func clip(s string) string {
	if len(s) > 300 {
		return s[:300] + "…"
	}
	return s
}

// ---------------------------------------------------------------------------
// Second mapping

// Path is the filesystem path behind a POSIX shm name on Linux.
func Path(name string) string { return filepath.Join("/dev/shm", strings.TrimPrefix(name, "/")) }

// Map is an independent mapping of a segment (by file, not by the library).
type Map struct {
	Name string
	Size int
	Data []byte // len == Size (read-write) or HeaderSize (header-only, read-only)
	ro   bool
}

// OpenHeaderRO maps the first HeaderSize bytes of the segment read-only.
func OpenHeaderRO(name string) (*Map, error) {
	f, err := os.Open(Path(name))
	if err != nil {
		return nil, err
	}
	defer f.Close()
	st, err := f.Stat()
	if err != nil {
		return nil, err
	}
	d, err := syscall.Mmap(int(f.Fd()), 0, HeaderSize, syscall.PROT_READ, syscall.MAP_SHARED)
	if err != nil {
		return nil, fmt.Errorf("mmap ro: %w", err)
	}
	return &Map{Name: name, Size: int(st.Size()), Data: d, ro: true}, nil
}

// OpenRW maps the whole segment read-write.
func OpenRW(name string) (*Map, error) {
	f, err := os.OpenFile(Path(name), os.O_RDWR, 0)
	if err != nil {
		return nil, err
	}
	defer f.Close()
	st, err := f.Stat()
	if err != nil {
		return nil, err
	}
	d, err := syscall.Mmap(int(f.Fd()), 0, int(st.Size()), syscall.PROT_READ|syscall.PROT_WRITE, syscall.MAP_SHARED)
	if err != nil {
		return nil, fmt.Errorf("mmap rw: %w", err)
	}
	return &Map{Name: name, Size: int(st.Size()), Data: d}, nil
}

// Create makes a new segment file of size bytes under /dev/shm (O_EXCL),
// writes the documented header (zero allocations) and maps it read-write.
// The caller owns the name and must Unlink it.
func Create(name string, size int) (*Map, error) {
	if size <= HeaderSize {
		return nil, fmt.Errorf("size %d <= header", size)
	}
	f, err := os.OpenFile(Path(name), os.O_RDWR|os.O_CREATE|os.O_EXCL, 0o600)
	if err != nil {
		return nil, err
	}
	defer f.Close()
	if err := f.Truncate(int64(size)); err != nil {
		os.Remove(Path(name))
		return nil, err
	}
	d, err := syscall.Mmap(int(f.Fd()), 0, size, syscall.PROT_READ|syscall.PROT_WRITE, syscall.MAP_SHARED)
	if err != nil {
		os.Remove(Path(name))
		return nil, fmt.Errorf("mmap: %w", err)
	}
	m := &Map{Name: name, Size: size, Data: d}
	copy(d[0:4], Magic[:])
	binary.LittleEndian.PutUint32(d[4:8], Version)
	binary.LittleEndian.PutUint64(d[8:16], uint64(size-HeaderSize))
	binary.LittleEndian.PutUint32(d[16:20], 0)
	binary.LittleEndian.PutUint32(d[20:24], 0)
	return m, nil
}

func (m *Map) Close() {
	if m != nil && m.Data != nil {
		_ = syscall.Munmap(m.Data)
		m.Data = nil
	}
}

// Unlink removes the segment's name.
func Unlink(name string) { _ = os.Remove(Path(name)) }

// Header parses the header through this mapping.
func (m *Map) Header() Header {
	h, _ := Parse(m.Data[:HeaderSize])
	return h
}

// WriteTable stores the table in the header (count, then entries) — the
// harness-side allocator used by the C36 client, which owns its segment and
// only touches it while the server is blocked reading (lockstep).
func (m *Map) WriteTable(es []Entry) {
	for i, e := range es {
		base := FixedSize + i*EntrySize
		binary.LittleEndian.PutUint64(m.Data[base:base+8], e.Off)
		binary.LittleEndian.PutUint64(m.Data[base+8:base+16], e.Len)
	}
	binary.LittleEndian.PutUint32(m.Data[16:20], uint32(len(es)))
}

// AllocTable allocates n bytes first-fit directly in the mapped header
// (read table, place, write table).
func (m *Map) AllocTable(n int) (uint64, bool) {
	mod := &Model{Size: uint64(m.Size), Entries: m.Header().Entries}
	off, ok := mod.Alloc(uint64(n))
	if ok {
		m.WriteTable(mod.Entries)
	}
	return off, ok
}

// FreeTable removes the entry at off directly in the mapped header.
func (m *Map) FreeTable(off uint64) bool {
	mod := &Model{Size: uint64(m.Size), Entries: m.Header().Entries}
	ok := mod.Free(off)
	if ok {
		m.WriteTable(mod.Entries)
	}
	return ok
}

// ---------------------------------------------------------------------------
// Canary

// CanaryByte is the fill pattern. 0xEE...: as a little-endian int32 message
// length it is negative, so an IPC reader pointed at canary bytes rejects it
// instead of attempting a huge allocation.
func CanaryByte(pos int) byte { return 0xE0 | byte(pos*7+3)&0x0F }

// FillCanary writes the pattern over the whole data area.
func (m *Map) FillCanary() {
	for i := HeaderSize; i < len(m.Data); i++ {
		m.Data[i] = CanaryByte(i)
	}
}

// FillRange writes the pattern over [off, off+n).
func (m *Map) FillRange(off, n int) {
	for i := off; i < off+n && i < len(m.Data); i++ {
		m.Data[i] = CanaryByte(i)
	}
}

// CanaryIntact reports the first data-area position outside all `used`
// regions whose byte differs from the pattern (-1 if none).
func (m *Map) CanaryIntact(used []Entry) int {
	es := append([]Entry(nil), used...)
	sort.Slice(es, func(i, j int) bool { return es[i].Off < es[j].Off })
	pos := HeaderSize
	check := func(to int) int {
		for i := pos; i < to; i++ {
			if m.Data[i] != CanaryByte(i) {
				return i
			}
		}
		return -1
	}
	for _, e := range es {
		if int(e.Off) > pos {
			if bad := check(int(e.Off)); bad >= 0 {
				return bad
			}
		}
		if end := int(e.Off + e.Len); end > pos {
			pos = end
		}
	}
	if pos < len(m.Data) {
		return check(len(m.Data))
	}
	return -1
}

// ---------------------------------------------------------------------------
// Misc

// RaceReports counts race-detector report files written by this run
// (GORACE log_path=$VERIF_RACE_LOG.<pid>) and returns the head of the first.
func RaceReports() (int, string) {
	base := os.Getenv("VERIF_RACE_LOG")
	if base == "" {
		return 0, ""
	}
	files, _ := filepath.Glob(base + ".*")
	head := ""
	n := 0
	for _, f := range files {
		data, err := os.ReadFile(f)
		if err != nil || !strings.Contains(string(data), "WARNING: DATA RACE") {
			continue
		}
		n += strings.Count(string(data), "WARNING: DATA RACE")
		if head == "" {
			head = string(data)
			if len(head) > 3000 {
				head = head[:3000]
			}
		}
	}
	return n, head
}

// CleanupPrefix removes every /dev/shm entry starting with prefix (names the
// harness created for this process; called at the end and after child crashes).
func CleanupPrefix(prefix string) int {
	files, _ := filepath.Glob(Path(prefix) + "*")
	for _, f := range files {
		_ = os.Remove(f)
	}
	return len(files)
}
