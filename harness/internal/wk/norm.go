package wk

import (
	"fmt"
	"sort"
	"strings"

	"verif/harness/internal/wire"
)

// BatchKey is the transport-independent normal form of one observed batch:
//
//	data   schema + values + user metadata
//	log    level, message, extras (parsed)
//	error  exception type, message, error kind
func BatchKey(b wire.Batch) string {
	switch b.Kind {
	case wire.KindLog:
		ex := b.ExtraMap()
		keys := make([]string, 0, len(ex))
		for k := range ex {
			keys = append(keys, k)
		}
		sort.Strings(keys)
		var sb strings.Builder
		fmt.Fprintf(&sb, "log|%q|%q|", b.Level, b.Message)
		for _, k := range keys {
			fmt.Fprintf(&sb, "%q=%q,", k, ex[k])
		}
		if ex == nil && b.Extra != "" {
			fmt.Fprintf(&sb, "raw=%q", b.Extra)
		}
		return sb.String()
	case wire.KindError:
		return fmt.Sprintf("error|%q|%q|%q", b.ErrType, b.ErrMessage, b.ErrKind)
	}
	// data: everything but the HTTP transport's own token keys is the method's
	// metadata (neither transport adds request / server ids to a data batch, so
	// a method that emits such a key must see it arrive on both)
	keys := make([]string, 0, len(b.Meta))
	for k := range b.Meta {
		if k != wire.KeyStreamState && k != wire.KeyCallState {
			keys = append(keys, k)
		}
	}
	sort.Strings(keys)
	var sb strings.Builder
	fmt.Fprintf(&sb, "%s|%s|", b.Kind, b.Canon)
	for _, k := range keys {
		fmt.Fprintf(&sb, "%q=%q,", k, b.Meta[k])
	}
	return sb.String()
}

// StreamKey is the normal form of a stream (nil -> "<none>"). The stream's
// own schema takes part unless the stream is nothing but logs and one error
// (the schema of a stream that only reports a failure is not specified).
func StreamKey(s *wire.Stream) string {
	if s == nil {
		return "<none>"
	}
	var sb strings.Builder
	onlyFailure := true
	n := 0
	for _, b := range s.Batches {
		if b.Kind != wire.KindLog && b.Kind != wire.KindError {
			onlyFailure = false
		}
		if b.Kind == wire.KindError {
			n++
		}
	}
	if onlyFailure && n > 0 {
		sb.WriteString("schema=<failure-only>\n")
	} else {
		fmt.Fprintf(&sb, "schema=%s\n", s.Schema)
	}
	fmt.Fprintf(&sb, "complete=%v\n", s.Complete)
	for _, b := range s.Batches {
		sb.WriteString(BatchKey(b))
		sb.WriteByte('\n')
	}
	return sb.String()
}

// Diff names the first difference between two streams' normal forms:
// a short class for signatures and a human-readable description.
func Diff(ref, got *wire.Stream) (class, what string) {
	if StreamKey(ref) == StreamKey(got) {
		return "", ""
	}
	if ref == nil || got == nil {
		return "stream-presence", fmt.Sprintf("reference has stream: %v, other has stream: %v", ref != nil, got != nil)
	}
	clip := func(s string) string {
		if len(s) > 300 {
			return s[:300] + "…"
		}
		return s
	}
	for i := 0; i < len(ref.Batches) || i < len(got.Batches); i++ {
		switch {
		case i >= len(got.Batches):
			return "missing-" + string(ref.Batches[i].Kind), fmt.Sprintf("batch %d: reference has %s, other ends", i, clip(BatchKey(ref.Batches[i])))
		case i >= len(ref.Batches):
			return "extra-" + string(got.Batches[i].Kind), fmt.Sprintf("batch %d: reference ends, other has %s", i, clip(BatchKey(got.Batches[i])))
		}
		a, b := ref.Batches[i], got.Batches[i]
		if BatchKey(a) == BatchKey(b) {
			continue
		}
		what = fmt.Sprintf("batch %d: reference %s / other %s", i, clip(BatchKey(a)), clip(BatchKey(b)))
		switch {
		case a.Kind != b.Kind:
			return string(a.Kind) + "-vs-" + string(b.Kind), what
		case a.Kind == wire.KindLog:
			return "log-content", what
		case a.Kind == wire.KindError:
			return "error-content", what
		case a.Canon != b.Canon:
			return "data-value", what
		}
		return "data-metadata", what
	}
	if ref.Complete != got.Complete {
		return "complete", fmt.Sprintf("reference complete=%v, other complete=%v", ref.Complete, got.Complete)
	}
	return "schema", fmt.Sprintf("stream schema: reference %s / other %s", ref.Schema, got.Schema)
}
