package wk

import (
	"context"
	"fmt"
	"math/rand/v2"

	"github.com/apache/arrow-go/v18/arrow"
	"github.com/apache/arrow-go/v18/arrow/array"
	"github.com/apache/arrow-go/v18/arrow/compute"
	"github.com/apache/arrow-go/v18/arrow/decimal128"

	"verif/harness/internal/gen"
	"verif/harness/internal/svc"
	"verif/harness/internal/wire"
)

// TypedRow is the logical content of one input row of the typed family. All
// values are chosen so that every variant carries them exactly.
type TypedRow struct {
	TS int64   // seconds since the epoch
	D  int64   // hundredths (decimal scale 2)
	L  []int32 // list elements
	X  int32
	W  float64 // multiple of 1/4, small
}

// TypedVariants are the input-schema variants of the typed family. Every one
// is castable to TypedIn; all but "exact" are unequal to it. The first block
// differs from the declared type only in a type PARAMETER (same type id).
var TypedVariants = []string{"exact", "ts-s", "ts-ms", "dec-10-2", "list-i32", "x-i32", "w-f32", "w-dec", "all"}

// TypedSchemaVariant returns the schema of an input stream under a variant.
func TypedSchemaVariant(v string) *arrow.Schema {
	f := append([]arrow.Field(nil), TypedIn.Fields()...)
	set := func(name string, t arrow.DataType) {
		for i := range f {
			if f[i].Name == name {
				f[i].Type = t
			}
		}
	}
	all := v == "all"
	if v == "ts-s" || all {
		set("ts", &arrow.TimestampType{Unit: arrow.Second, TimeZone: "UTC"})
	}
	if v == "ts-ms" {
		set("ts", &arrow.TimestampType{Unit: arrow.Millisecond, TimeZone: "UTC"})
	}
	if v == "dec-10-2" || all {
		set("d", &arrow.Decimal128Type{Precision: 10, Scale: 2})
	}
	if v == "list-i32" || all {
		set("l", arrow.ListOf(arrow.PrimitiveTypes.Int32))
	}
	if v == "x-i32" || all {
		set("x", arrow.PrimitiveTypes.Int32)
	}
	if v == "w-f32" || all {
		set("w", arrow.PrimitiveTypes.Float32)
	}
	if v == "w-dec" {
		set("w", &arrow.Decimal128Type{Precision: 12, Scale: 2})
	}
	switch v {
	case "exact", "ts-s", "ts-ms", "dec-10-2", "list-i32", "x-i32", "w-f32", "w-dec", "all":
	default:
		panic("wk: unknown typed variant " + v)
	}
	return arrow.NewSchema(f, nil)
}

// BuildTyped builds one input batch of the typed family under a variant.
func BuildTyped(rows []TypedRow, variant string) arrow.RecordBatch {
	schema := TypedSchemaVariant(variant)
	cols := make([]arrow.Array, schema.NumFields())
	for i, f := range schema.Fields() {
		b := array.NewBuilder(svc.Alloc, f.Type)
		for _, r := range rows {
			switch bb := b.(type) {
			case *array.TimestampBuilder:
				mul := int64(1)
				switch f.Type.(*arrow.TimestampType).Unit {
				case arrow.Millisecond:
					mul = 1000
				case arrow.Microsecond:
					mul = 1000000
				}
				bb.Append(arrow.Timestamp(r.TS * mul))
			case *array.Decimal128Builder:
				dt := f.Type.(*arrow.Decimal128Type)
				if f.Name == "w" {
					bb.Append(decimal128.FromI64(int64(r.W * 100))) // scale 2
				} else if dt.Scale == 4 {
					bb.Append(decimal128.FromI64(r.D * 100))
				} else {
					bb.Append(decimal128.FromI64(r.D))
				}
			case *array.ListBuilder:
				bb.Append(true)
				switch vb := bb.ValueBuilder().(type) {
				case *array.Int64Builder:
					for _, e := range r.L {
						vb.Append(int64(e))
					}
				case *array.Int32Builder:
					for _, e := range r.L {
						vb.Append(e)
					}
				}
			case *array.Int64Builder:
				bb.Append(int64(r.X))
			case *array.Int32Builder:
				bb.Append(r.X)
			case *array.Float64Builder:
				bb.Append(r.W)
			case *array.Float32Builder:
				bb.Append(float32(r.W))
			default:
				panic(fmt.Sprintf("wk: no builder case for %s", f.Type))
			}
		}
		cols[i] = b.NewArray()
		b.Release()
	}
	rec := array.NewRecordBatch(schema, cols, int64(len(rows)))
	for _, c := range cols {
		c.Release()
	}
	return rec
}

// GenTyped generates n typed inputs of 0..4 rows.
func GenTyped(rng *rand.Rand, n int) [][]TypedRow {
	out := make([][]TypedRow, n)
	for i := range out {
		rows := rng.IntN(5)
		out[i] = []TypedRow{}
		for r := 0; r < rows; r++ {
			tr := TypedRow{TS: rng.Int64N(4_000_000_000) - 1_000_000_000, D: rng.Int64N(2_000_001) - 1_000_000,
				X: int32(rng.IntN(2001) - 1000), W: float64(rng.IntN(801)-400) / 4}
			for e := rng.IntN(4); e > 0; e-- {
				tr.L = append(tr.L, int32(rng.IntN(200001)-100000))
			}
			out[i] = append(out[i], tr)
		}
	}
	return out
}

// ArrowCanCast asks arrow-go's compute package directly (the trusted base,
// not the library under test) whether every column of a non-empty sample
// batch under the variant casts safely to the declared type.
func ArrowCanCast(variant string) bool {
	sample := BuildTyped([]TypedRow{{TS: 1_700_000_000, D: 12345, L: []int32{1, -2}, X: 7, W: 1.25}}, variant)
	defer sample.Release()
	ctx := compute.WithAllocator(context.Background(), svc.Alloc)
	for i := 0; i < int(sample.NumCols()); i++ {
		target := TypedIn.Field(i).Type
		if arrow.TypeEqual(sample.Column(i).DataType(), target) {
			continue
		}
		d, err := compute.CastDatum(ctx, compute.NewDatum(sample.Column(i)), compute.SafeCastOptions(target))
		if err != nil {
			return false
		}
		d.Release()
	}
	return true
}

// TypedPred is the model of a typed call: one data batch per input whose
// content renders the batch the state must have been handed — the declared
// schema's types and the logical values when the method has a declared input
// schema (cast), the client's own types otherwise.
func TypedPred(seed int64, dynamic bool, id string, inputs [][]TypedRow, variant string, cast bool) svc.Pred {
	p := svc.Pred{Events: []svc.PEvent{{Kind: svc.EvInit, Turn: -1}}}
	p.Output.Schema = gen.SchemaFingerprint(TypedOut)
	if dynamic {
		tb := array.NewStringBuilder(gen.Mem)
		tb.Append("typed:" + id)
		cb := array.NewInt64Builder(gen.Mem)
		cb.Append(seed)
		cols := []arrow.Array{tb.NewArray(), cb.NewArray()}
		tb.Release()
		cb.Release()
		rec := array.NewRecordBatch(svc.HeaderSchema, cols, 1)
		cols[0].Release()
		cols[1].Release()
		p.Header = &svc.PStream{Schema: gen.SchemaFingerprint(svc.HeaderSchema), Batches: []svc.PBatch{{Kind: wire.KindData, Canon: gen.CanonValues(rec)}}}
		rec.Release()
	}
	for k, in := range inputs {
		v := variant
		if cast {
			v = "exact"
		}
		handed := BuildTyped(in, v)
		types, vals := RenderTyped(handed)
		rows := handed.NumRows()
		handed.Release()
		out := TypedOutBatch(seed, k, rows, types, vals)
		p.Output.Batches = append(p.Output.Batches, svc.PBatch{Kind: wire.KindData, Canon: gen.CanonValues(out)})
		out.Release()
		p.Events = append(p.Events, svc.PEvent{Kind: svc.EvExchange, Turn: k})
	}
	return p
}

// TypedParamsBatch builds the one-row request batch of the typed family.
func TypedParamsBatch(id string, seed int64, decl bool) arrow.RecordBatch {
	ib := array.NewStringBuilder(svc.Alloc)
	ib.Append(id)
	sb := array.NewInt64Builder(svc.Alloc)
	sb.Append(seed)
	db := array.NewBooleanBuilder(svc.Alloc)
	db.Append(decl)
	cols := []arrow.Array{ib.NewArray(), sb.NewArray(), db.NewArray()}
	ib.Release()
	sb.Release()
	db.Release()
	rec := array.NewRecordBatch(TypedParamsSchema, cols, 1)
	for _, c := range cols {
		c.Release()
	}
	return rec
}
