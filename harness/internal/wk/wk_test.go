package wk_test

import (
	"math/rand/v2"
	"testing"

	"verif/harness/internal/gen"
	"verif/harness/internal/mon"
	"verif/harness/internal/svc"
	"verif/harness/internal/wire"
	"verif/harness/internal/wk"
)

// Smoke test: one producer and one exchange script over the pipe and over a
// 2-instance cluster, compared with svc.Model.
func TestSmoke(t *testing.T) {
	log := mon.NewLog()
	svc.SetSink(log)
	defer svc.SetSink(nil)
	rng := rand.New(rand.NewPCG(1, 2))
	cl, err := wk.NewCluster(wk.ClusterOpt{Instances: 2, Key: []byte("0123456789abcdef0123456789abcdef"), BatchLimit: 2, CacheEntries: 0})
	if err != nil {
		t.Fatal(err)
	}
	for _, m := range []string{"p_hdr", "k_p", "x_hdr", "k_x", "k_d"} {
		meth := svc.Methods[m]
		producer := meth.Kind == "producer"
		s := svc.GenStream(rng, "s-"+m, svc.StreamOpt{Producer: producer, Turns: 5, FailAt: -1})
		a := svc.GenArgs(rng)
		ins := svc.GenInputs(rng, 6)
		call := svc.Call{Method: m, Args: a, CancelAt: -1, Inputs: ins}
		pred := svc.Model(s, call)
		sc := wk.StreamCall{Req: wire.Req{Method: m, Params: svc.ParamsBatch(s, a)}, HasHeader: meth.Header, Producer: producer}
		if !producer {
			for _, in := range ins {
				sc.Inputs = append(sc.Inputs, wk.In{Batch: svc.BuildInput(in, "exact"), Meta: [][2]string{{"u", "1"}}})
			}
		}
		res := cl.RunStream(cl.RoundRobin(0), sc)
		if bad := svc.Match(pred, res.Header, res.Output, svc.MatchOpt{}); len(bad) > 0 {
			t.Errorf("%s: %v (ended %s, %d responses)", m, bad, res.Ended, len(res.Responses))
		}
		if len(res.Responses) < 2 {
			t.Errorf("%s: only %d responses", m, len(res.Responses))
		}
	}
	probes := 0
	for _, e := range log.Snapshot() {
		if e.Actor == "wk" {
			probes++
		}
	}
	if probes == 0 {
		t.Errorf("no probe events recorded")
	}
	if fr := wk.Frames(gen.IPCBytes(svc.InSchema)); len(fr) != 2 || fr[0].Type != "schema" || fr[1].Type != "eos" {
		t.Errorf("Frames of an empty stream: %+v", fr)
	}
}
