// Package wk holds what worker wK's checks (C11, C16, C19) share on top of
// internal/svc and internal/wire:
//
//   - three extra method families registered next to svc's scripted family
//     (methods.go): "probe" streams that run svc scripts but additionally record
//     EVERYTHING the handler was handed (ordered CallContext.InputMetadata, the
//     input batch's own custom metadata, TransportMetadata with values); "typed"
//     exchanges whose output spells out the concrete Arrow column types and
//     values they received (so an input that was not cast is visible); "big"
//     unary / producer / exchange methods whose response sizes are scripted;
//   - a cluster of 1..3 HttpServer instances sharing one token key, an
//     independent HTTP stream driver (init, continuations, cancel, token echo,
//     pointer-batch resolution) and the join of its responses into one
//     header + output observation (http.go);
//   - an instrumented in-memory ExternalStorage (storage.go);
//   - a byte-offset walker over a response body (frames.go).
//
// Nothing here calls the library's client helpers.
package wk

import (
	"context"
	"encoding/json"
	"fmt"
	"reflect"
	"sort"
	"strings"
	"sync"

	"github.com/apache/arrow-go/v18/arrow"
	"github.com/apache/arrow-go/v18/arrow/array"

	"github.com/Query-farm/vgi-rpc-go/vgirpc"

	"verif/harness/internal/svc"
)

// ---------------------------------------------------------------------------
// Probe family: svc scripts + full record of what the handler was handed.

// Seen is the payload of the "probe.*" events (actor "wk", key Script.ID).
type Seen struct {
	Method       string            `json:"method"`
	Turn         int               `json:"turn"`
	InputMeta    [][2]string       `json:"input_metadata"`       // CallContext.InputMetadata, in order
	BatchHasMeta bool              `json:"batch_has_metadata"`   // the input batch implements RecordBatchWithMetadata
	BatchMeta    [][2]string       `json:"batch_metadata"`       // its Metadata(), in order
	SchemaMeta   [][2]string       `json:"batch_schema_meta"`    // input.Schema().Metadata()
	Transport    map[string]string `json:"transport_metadata"`   // CallContext.TransportMetadata
	Cookies      map[string]string `json:"cookies,omitempty"`    // CallContext.Cookies
	RequestID    string            `json:"request_id,omitempty"` // CallContext.RequestID
	Rows         int64             `json:"rows"`
}

// Probe event kinds.
const (
	EvProbeExchange = "probe.exchange"
	EvProbeProduce  = "probe.produce"
	EvProbeCancel   = "probe.cancel"
)

func pairs(md arrow.Metadata) [][2]string {
	out := make([][2]string, 0, md.Len())
	for i, k := range md.Keys() {
		out = append(out, [2]string{k, md.Values()[i]})
	}
	return out
}

func see(kind, id, method string, turn int, in arrow.RecordBatch, cc *vgirpc.CallContext) {
	l := svc.Sink()
	if l == nil {
		return
	}
	s := Seen{Method: method, Turn: turn, Transport: map[string]string{}}
	if cc != nil {
		s.InputMeta = pairs(cc.InputMetadata)
		for k, v := range cc.TransportMetadata {
			s.Transport[k] = v
		}
		if len(cc.Cookies) > 0 {
			s.Cookies = map[string]string{}
			for k, v := range cc.Cookies {
				s.Cookies[k] = v
			}
		}
		s.RequestID = cc.RequestID
	}
	if in != nil {
		s.Rows = in.NumRows()
		if bwm, ok := in.(arrow.RecordBatchWithMetadata); ok {
			s.BatchHasMeta = true
			s.BatchMeta = pairs(bwm.Metadata())
		}
		s.SchemaMeta = pairs(in.Schema().Metadata())
	}
	l.Add("wk", kind, id, s)
}

// Probe states wrap svc's states: same scripted behaviour (and the same svc
// events), plus a "probe.*" event before delegating.
type (
	ProbeX   struct{ svc.ExchangeState }
	ProbeXNC struct{ svc.ExchangeStateNC }
	ProbeP   struct{ svc.ProducerState }
	ProbePNC struct{ svc.ProducerStateNC }
)

func (s *ProbeX) Exchange(ctx context.Context, in arrow.RecordBatch, out *vgirpc.OutputCollector, cc *vgirpc.CallContext) error {
	see(EvProbeExchange, s.S.ID, s.Method, s.K, in, cc)
	return s.ExchangeState.Exchange(ctx, in, out, cc)
}
func (s *ProbeX) OnCancel(ctx context.Context, cc *vgirpc.CallContext) error {
	see(EvProbeCancel, s.S.ID, s.Method, s.K, nil, cc)
	return s.ExchangeState.OnCancel(ctx, cc)
}
func (s *ProbeXNC) Exchange(ctx context.Context, in arrow.RecordBatch, out *vgirpc.OutputCollector, cc *vgirpc.CallContext) error {
	see(EvProbeExchange, s.S.ID, s.Method, s.K, in, cc)
	return s.ExchangeStateNC.Exchange(ctx, in, out, cc)
}
func (s *ProbeP) Produce(ctx context.Context, out *vgirpc.OutputCollector, cc *vgirpc.CallContext) error {
	see(EvProbeProduce, s.S.ID, s.Method, s.K, nil, cc)
	return s.ProducerState.Produce(ctx, out, cc)
}
func (s *ProbeP) OnCancel(ctx context.Context, cc *vgirpc.CallContext) error {
	see(EvProbeCancel, s.S.ID, s.Method, s.K, nil, cc)
	return s.ProducerState.OnCancel(ctx, cc)
}
func (s *ProbePNC) Produce(ctx context.Context, out *vgirpc.OutputCollector, cc *vgirpc.CallContext) error {
	see(EvProbeProduce, s.S.ID, s.Method, s.K, nil, cc)
	return s.ProducerStateNC.Produce(ctx, out, cc)
}

// ProbeMethods are the probe family's methods (all take svc.Params; scripts
// as for svc's family; events of both svc and wk kinds).
var ProbeMethods = map[string]svc.Method{
	"k_x":  {Name: "k_x", Kind: "exchange"},
	"k_xh": {Name: "k_xh", Kind: "exchange", Header: true},
	"k_p":  {Name: "k_p", Kind: "producer"},
	"k_d":  {Name: "k_d", Kind: "dynamic", Header: true},
}

func probeInit(method string) func(context.Context, *vgirpc.CallContext, svc.Params) (*vgirpc.StreamResult, error) {
	m := ProbeMethods[method]
	return func(_ context.Context, cc *vgirpc.CallContext, p svc.Params) (*vgirpc.StreamResult, error) {
		var s svc.Script
		if err := json.Unmarshal(p.Script, &s); err != nil {
			return nil, &vgirpc.RpcError{Type: "ScriptError", Message: err.Error()}
		}
		a := svc.Args{N: p.N, Tag: p.Tag, Opt: p.Opt}
		if l := svc.Sink(); l != nil {
			in := svc.Info{Turn: -1}
			if cc != nil {
				in.Method, in.RequestID, in.Kind = cc.Method, cc.RequestID, string(cc.Kind)
			}
			l.Add("svc", svc.EvInit, s.ID, in)
		}
		for _, lg := range s.InitLogs {
			kv := make([]vgirpc.KV, len(lg.Extras))
			for i, e := range lg.Extras {
				kv[i] = vgirpc.KV{Key: e.K, Value: e.V}
			}
			cc.ClientLog(vgirpc.LogLevel(lg.Level), lg.Msg, kv...)
		}
		switch s.InitAct {
		case svc.ActError:
			return nil, s.InitErr.Build()
		case svc.ActPanic:
			panic(s.InitPanic.Value())
		case svc.ActNil:
			return nil, nil
		}
		producer := m.Kind == "producer" || (m.Kind == "dynamic" && s.Producer)
		res := &vgirpc.StreamResult{OutputSchema: svc.OutSchema}
		core := svc.Core{S: s, Method: method}
		switch {
		case producer && s.NoCancel:
			res.State = &ProbePNC{svc.ProducerStateNC{Core: core}}
		case producer:
			res.State = &ProbeP{svc.ProducerState{Core: core}}
		case s.NoCancel:
			res.State = &ProbeXNC{svc.ExchangeStateNC{Core: core}}
		default:
			res.State = &ProbeX{svc.ExchangeState{Core: core}}
		}
		if !producer && (m.Kind != "dynamic" || s.DeclInput) {
			res.InputSchema = svc.InSchema
		}
		if m.Header && s.Header {
			res.Header = svc.HeaderFor(s, a)
		}
		return res, nil
	}
}

// ---------------------------------------------------------------------------
// Typed family: the output spells out the concrete column types and values
// the Exchange method was handed.

// TypedIn is the declared input schema of k_t / k_td: every column has a
// castable-but-unequal sibling with the SAME type id (timestamp unit, decimal
// precision/scale, list element width) or a different one (int32, float32,
// decimal -> double).
var TypedIn = arrow.NewSchema([]arrow.Field{
	{Name: "ts", Type: &arrow.TimestampType{Unit: arrow.Microsecond, TimeZone: "UTC"}},
	{Name: "d", Type: &arrow.Decimal128Type{Precision: 20, Scale: 4}},
	{Name: "l", Type: arrow.ListOf(arrow.PrimitiveTypes.Int64)},
	{Name: "x", Type: arrow.PrimitiveTypes.Int64},
	{Name: "w", Type: arrow.PrimitiveTypes.Float64},
}, nil)

// TypedOut is the output schema of the typed family.
var TypedOut = arrow.NewSchema([]arrow.Field{
	{Name: "turn", Type: arrow.PrimitiveTypes.Int64},
	{Name: "rows", Type: arrow.PrimitiveTypes.Int64},
	{Name: "types", Type: arrow.BinaryTypes.String},
	{Name: "vals", Type: arrow.BinaryTypes.String},
}, nil)

// TypedParams are the parameters of the typed family.
type TypedParams struct {
	ID   string `vgirpc:"id"`
	Seed int64  `vgirpc:"seed"`
	Decl bool   `vgirpc:"decl"` // k_td: set StreamResult.InputSchema
}

// TypedParamsSchema is TypedParams' wire schema, by hand.
var TypedParamsSchema = arrow.NewSchema([]arrow.Field{
	{Name: "id", Type: arrow.BinaryTypes.String},
	{Name: "seed", Type: arrow.PrimitiveTypes.Int64},
	{Name: "decl", Type: arrow.FixedWidthTypes.Boolean},
}, nil)

// TypedState is the exchange state of the typed family.
type TypedState struct {
	ID     string
	Method string
	Seed   int64
	K      int
}

// RenderTyped renders what an Exchange call was handed: the column types and
// the values, row by row. Shared by the state and the model (the library only
// transports the batch; what is under test is which batch it hands over).
func RenderTyped(in arrow.RecordBatch) (types, vals string) {
	var tb, vb strings.Builder
	for i := 0; i < int(in.NumCols()); i++ {
		if i > 0 {
			tb.WriteByte('|')
		}
		fmt.Fprintf(&tb, "%s:%s", in.ColumnName(i), in.Column(i).DataType())
	}
	for r := 0; r < int(in.NumRows()); r++ {
		if r > 0 {
			vb.WriteByte('\n')
		}
		for i := 0; i < int(in.NumCols()); i++ {
			if i > 0 {
				vb.WriteByte(';')
			}
			vb.WriteString(in.Column(i).ValueStr(r))
		}
	}
	return tb.String(), vb.String()
}

// TypedOutBatch builds the one-row output batch of a typed turn.
func TypedOutBatch(seed int64, turn int, rows int64, types, vals string) arrow.RecordBatch {
	tb := array.NewInt64Builder(svc.Alloc)
	tb.Append(int64(turn) + seed*1000)
	rb := array.NewInt64Builder(svc.Alloc)
	rb.Append(rows)
	yb := array.NewStringBuilder(svc.Alloc)
	yb.Append(types)
	vb := array.NewStringBuilder(svc.Alloc)
	vb.Append(vals)
	cols := []arrow.Array{tb.NewArray(), rb.NewArray(), yb.NewArray(), vb.NewArray()}
	tb.Release()
	rb.Release()
	yb.Release()
	vb.Release()
	rec := array.NewRecordBatch(TypedOut, cols, 1)
	for _, c := range cols {
		c.Release()
	}
	return rec
}

func (s *TypedState) Exchange(_ context.Context, in arrow.RecordBatch, out *vgirpc.OutputCollector, cc *vgirpc.CallContext) error {
	k := s.K
	s.K++
	if l := svc.Sink(); l != nil {
		l.Add("svc", svc.EvExchange, s.ID, svc.Info{Method: s.Method, Turn: k, State: fmt.Sprintf("%p", s), InRows: in.NumRows(), InSchema: in.Schema().String()})
	}
	types, vals := RenderTyped(in)
	return out.Emit(TypedOutBatch(s.Seed, k, in.NumRows(), types, vals))
}

func typedInit(method string, dynamic bool) func(context.Context, *vgirpc.CallContext, TypedParams) (*vgirpc.StreamResult, error) {
	return func(_ context.Context, _ *vgirpc.CallContext, p TypedParams) (*vgirpc.StreamResult, error) {
		if l := svc.Sink(); l != nil {
			l.Add("svc", svc.EvInit, p.ID, svc.Info{Method: method, Turn: -1})
		}
		res := &vgirpc.StreamResult{OutputSchema: TypedOut, State: &TypedState{ID: p.ID, Method: method, Seed: p.Seed}}
		if !dynamic || p.Decl {
			res.InputSchema = TypedIn
		}
		if dynamic {
			res.Header = svc.Header{Title: "typed:" + p.ID, Count: p.Seed}
		}
		return res, nil
	}
}

// ---------------------------------------------------------------------------
// Big family: scripted response sizes.

// BigOut is the output schema of the big streams.
var BigOut = arrow.NewSchema([]arrow.Field{
	{Name: "k", Type: arrow.PrimitiveTypes.Int64},
	{Name: "payload", Type: arrow.BinaryTypes.Binary},
}, nil)

// BigIn is the input schema of k_bx.
var BigIn = arrow.NewSchema([]arrow.Field{
	{Name: "size", Type: arrow.PrimitiveTypes.Int64},
	{Name: "rows", Type: arrow.PrimitiveTypes.Int64},
}, nil)

// BigTurn scripts one emitted batch.
type BigTurn struct {
	Size    int  // payload bytes in the batch (spread over Rows rows)
	Rows    int  // >= 0; 0 = zero-row batch
	LogSize int  // >0: one INFO log of that many bytes before the data
	Meta    bool // EmitWithMetadata
	Fail    bool // return an error instead of emitting
}

// BigSpec scripts a big producer (JSON in the "spec" parameter).
type BigSpec struct {
	ID    string
	Seed  int64
	Turns []BigTurn
}

// BigParams are the parameters of k_bp / k_bx.
type BigParams struct {
	Spec []byte `vgirpc:"spec"`
}

// BigParamsSchema is BigParams' wire schema, by hand.
var BigParamsSchema = arrow.NewSchema([]arrow.Field{{Name: "spec", Type: arrow.BinaryTypes.Binary}}, nil)

// BlobParams are the parameters of the big unary methods.
type BlobParams struct {
	ID      string `vgirpc:"id"`
	Seed    int64  `vgirpc:"seed"`
	Size    int64  `vgirpc:"size"`
	NLogs   int64  `vgirpc:"nlogs"`
	LogSize int64  `vgirpc:"logsize"`
}

// BlobParamsSchema is BlobParams' wire schema, by hand.
var BlobParamsSchema = arrow.NewSchema([]arrow.Field{
	{Name: "id", Type: arrow.BinaryTypes.String},
	{Name: "seed", Type: arrow.PrimitiveTypes.Int64},
	{Name: "size", Type: arrow.PrimitiveTypes.Int64},
	{Name: "nlogs", Type: arrow.PrimitiveTypes.Int64},
	{Name: "logsize", Type: arrow.PrimitiveTypes.Int64},
}, nil)

// Payload is the deterministic content of a payload of n bytes: half of it is
// a repeated byte (compressible), the rest a cheap pseudo-random walk.
func Payload(seed int64, k, n int) []byte {
	b := make([]byte, n)
	x := uint64(seed)*0x9E3779B97F4A7C15 + uint64(k)*0xD1B54A32D192ED03 + 1
	for i := range b {
		if i < n/2 {
			b[i] = byte(k)
			continue
		}
		x ^= x << 13
		x ^= x >> 7
		x ^= x << 17
		b[i] = byte(x)
	}
	return b
}

// BigBatch builds the batch of one big turn.
func BigBatch(seed int64, k int, t BigTurn) arrow.RecordBatch {
	kb := array.NewInt64Builder(svc.Alloc)
	pb := array.NewBinaryBuilder(svc.Alloc, arrow.BinaryTypes.Binary)
	if t.Rows > 0 {
		all := Payload(seed, k, t.Size)
		per := t.Size / t.Rows
		for r := 0; r < t.Rows; r++ {
			kb.Append(int64(k))
			lo, hi := r*per, (r+1)*per
			if r == t.Rows-1 {
				hi = t.Size
			}
			pb.Append(all[lo:hi])
		}
	}
	cols := []arrow.Array{kb.NewArray(), pb.NewArray()}
	kb.Release()
	pb.Release()
	rec := array.NewRecordBatch(BigOut, cols, int64(t.Rows))
	for _, c := range cols {
		c.Release()
	}
	return rec
}

func bigTurn(seed int64, k int, t BigTurn, out *vgirpc.OutputCollector) error {
	if t.LogSize > 0 {
		out.ClientLog(vgirpc.LogLevel("INFO"), strings.Repeat("L", t.LogSize))
	}
	if t.Fail {
		return &vgirpc.RpcError{Type: "ValueError", Message: fmt.Sprintf("scripted failure at turn %d", k)}
	}
	if t.Meta {
		return out.EmitWithMetadata(BigBatch(seed, k, t), map[string]string{"vgi_batch_index": fmt.Sprint(k)})
	}
	return out.Emit(BigBatch(seed, k, t))
}

// BigP is the producer state of k_bp; BigX the exchange state of k_bx.
type (
	BigP struct {
		Spec BigSpec
		K    int
	}
	BigX struct {
		ID   string
		Seed int64
		K    int
	}
)

func bigEvent(kind, id string, turn int) {
	if l := svc.Sink(); l != nil {
		l.Add("svc", kind, id, svc.Info{Turn: turn})
	}
}

func (s *BigP) Produce(_ context.Context, out *vgirpc.OutputCollector, _ *vgirpc.CallContext) error {
	k := s.K
	s.K++
	bigEvent(svc.EvProduce, s.Spec.ID, k)
	if k >= len(s.Spec.Turns) {
		return out.Finish()
	}
	return bigTurn(s.Spec.Seed, k, s.Spec.Turns[k], out)
}

func (s *BigX) Exchange(_ context.Context, in arrow.RecordBatch, out *vgirpc.OutputCollector, _ *vgirpc.CallContext) error {
	k := s.K
	s.K++
	bigEvent(svc.EvExchange, s.ID, k)
	if in.NumRows() != 1 || in.NumCols() != 2 {
		return fmt.Errorf("wk: k_bx wants one row {size, rows}, got %d rows / %d cols", in.NumRows(), in.NumCols())
	}
	size := in.Column(0).(*array.Int64).Value(0)
	rows := in.Column(1).(*array.Int64).Value(0)
	t := BigTurn{Size: int(size), Rows: int(rows)}
	if size < 0 { // negative size: log of that many bytes before a small batch
		t = BigTurn{Size: 8, Rows: 1, LogSize: int(-size)}
	}
	return bigTurn(s.Seed, k, t, out)
}

func bigInit(producer bool) func(context.Context, *vgirpc.CallContext, BigParams) (*vgirpc.StreamResult, error) {
	return func(_ context.Context, _ *vgirpc.CallContext, p BigParams) (*vgirpc.StreamResult, error) {
		var sp BigSpec
		if err := json.Unmarshal(p.Spec, &sp); err != nil {
			return nil, &vgirpc.RpcError{Type: "ScriptError", Message: err.Error()}
		}
		bigEvent(svc.EvInit, sp.ID, -1)
		if producer {
			return &vgirpc.StreamResult{OutputSchema: BigOut, State: &BigP{Spec: sp}}, nil
		}
		return &vgirpc.StreamResult{OutputSchema: BigOut, InputSchema: BigIn, State: &BigX{ID: sp.ID, Seed: sp.Seed}}, nil
	}
}

func blobLogs(cc *vgirpc.CallContext, p BlobParams) {
	if l := svc.Sink(); l != nil {
		l.Add("svc", svc.EvUnary, p.ID, svc.Info{Turn: 0})
	}
	for i := int64(0); i < p.NLogs; i++ {
		cc.ClientLog(vgirpc.LogLevel("INFO"), strings.Repeat("l", int(p.LogSize)))
	}
}

// ---------------------------------------------------------------------------
// Registration

var registerOnce sync.Once

func mustSchema(v any, want *arrow.Schema) {
	got, err := vgirpc.SchemaForStruct(reflect.TypeOf(v))
	if err != nil || !got.Equal(want) {
		panic(fmt.Sprintf("wk: hand-written schema of %T drifted from the library's derivation: %v / %v", v, got, err))
	}
}

// Register registers svc's scripted family and wk's three families on s.
func Register(s *vgirpc.Server) {
	registerOnce.Do(func() {
		for _, v := range []any{&ProbeX{}, &ProbeXNC{}, &ProbeP{}, &ProbePNC{}, &TypedState{}, &BigP{}, &BigX{}} {
			vgirpc.RegisterStateType(v)
		}
		mustSchema(TypedParams{}, TypedParamsSchema)
		mustSchema(BigParams{}, BigParamsSchema)
		mustSchema(BlobParams{}, BlobParamsSchema)
		// svc.Model looks methods up in svc.Methods: the probe family behaves
		// exactly like svc's own (same Core), so it can be modelled by it.
		for k, m := range ProbeMethods {
			svc.Methods[k] = m
		}
	})
	svc.Register(s)
	vgirpc.Exchange(s, "k_x", svc.OutSchema, svc.InSchema, probeInit("k_x"))
	vgirpc.ExchangeWithHeader(s, "k_xh", svc.OutSchema, svc.InSchema, svc.HeaderSchema, probeInit("k_xh"))
	vgirpc.Producer(s, "k_p", svc.OutSchema, probeInit("k_p"))
	vgirpc.DynamicStreamWithHeader(s, "k_d", svc.HeaderSchema, probeInit("k_d"))
	vgirpc.Exchange(s, "k_t", TypedOut, TypedIn, typedInit("k_t", false))
	vgirpc.DynamicStreamWithHeader(s, "k_td", svc.HeaderSchema, typedInit("k_td", true))
	vgirpc.Producer(s, "k_bp", BigOut, bigInit(true))
	vgirpc.Exchange(s, "k_bx", BigOut, BigIn, bigInit(false))
	vgirpc.Unary(s, "k_blob", func(_ context.Context, cc *vgirpc.CallContext, p BlobParams) ([]byte, error) {
		blobLogs(cc, p)
		return Payload(p.Seed, 0, int(p.Size)), nil
	})
	vgirpc.UnaryVoid(s, "k_bvoid", func(_ context.Context, cc *vgirpc.CallContext, p BlobParams) error {
		blobLogs(cc, p)
		return nil
	})
}

// NewServer returns a fresh Server with everything registered.
func NewServer() *vgirpc.Server {
	s := vgirpc.NewServer()
	Register(s)
	return s
}

// SortedKeys returns the keys of m in order.
func SortedKeys[V any](m map[string]V) []string {
	out := make([]string, 0, len(m))
	for k := range m {
		out = append(out, k)
	}
	sort.Strings(out)
	return out
}
