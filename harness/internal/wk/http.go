package wk

import (
	"fmt"
	"math/rand/v2"

	"github.com/apache/arrow-go/v18/arrow"

	"github.com/Query-farm/vgi-rpc-go/vgirpc"

	"verif/harness/internal/svc"
	"verif/harness/internal/wire"
)

// ---------------------------------------------------------------------------
// Cluster: 1..3 HttpServer instances sharing one token key, each with its own
// Server built by the same registration function.

// ClusterOpt configures a Cluster.
type ClusterOpt struct {
	Instances    int    // 1..3
	Key          []byte // shared token key (>= 16 bytes)
	BatchLimit   int    // SetProducerBatchLimit (0 = unlimited)
	CacheEntries int    // SetCallStateCacheEntries; < 0 = leave the default
	MaxResponse  int64  // SetMaxResponseBytes
	MaxExternal  int64  // SetMaxExternalizedResponseBytes
	// External storage (nil = none): every Server gets SetExternalLocation
	// with this storage, threshold and compression.
	Storage      *MemStorage
	ExtThreshold int64
	ExtZstd      bool
	Compression  *int // SetCompressionLevel when non-nil
}

// Cluster is a set of HttpServer instances behind per-request routing.
type Cluster struct {
	Opt     ClusterOpt
	Servers []*vgirpc.Server
	HTTP    []*vgirpc.HttpServer
	Targets []*wire.HTTPTarget
}

// NewCluster builds the instances (in-process targets).
func NewCluster(o ClusterOpt) (*Cluster, error) {
	if o.Instances < 1 {
		o.Instances = 1
	}
	c := &Cluster{Opt: o}
	for i := 0; i < o.Instances; i++ {
		srv := NewServer()
		if o.Storage != nil {
			cfg := vgirpc.DefaultExternalLocationConfig(o.Storage)
			cfg.ExternalizeThresholdBytes = o.ExtThreshold
			if o.ExtZstd {
				cfg.Compression = &vgirpc.Compression{Algorithm: "zstd", Level: 3}
			}
			cfg.HTTPClient = o.Storage.Client()
			srv.SetExternalLocation(cfg)
		}
		h, err := vgirpc.NewHttpServerWithKey(srv, o.Key)
		if err != nil {
			return nil, err
		}
		h.SetProducerBatchLimit(o.BatchLimit)
		if o.CacheEntries >= 0 {
			h.SetCallStateCacheEntries(o.CacheEntries)
		}
		if o.MaxResponse > 0 {
			h.SetMaxResponseBytes(o.MaxResponse)
		}
		if o.MaxExternal > 0 {
			h.SetMaxExternalizedResponseBytes(o.MaxExternal)
		}
		if o.Compression != nil {
			if err := h.SetCompressionLevel(*o.Compression); err != nil {
				return nil, err
			}
		}
		c.Servers = append(c.Servers, srv)
		c.HTTP = append(c.HTTP, h)
		c.Targets = append(c.Targets, &wire.HTTPTarget{Handler: h})
	}
	return c, nil
}

// Router picks the instance of the next request.
type Router func() int

// RoundRobin routes 0,1,2,0,... starting at start.
func (c *Cluster) RoundRobin(start int) Router {
	i := start
	return func() int { i++; return (i - 1) % len(c.Targets) }
}

// Random routes uniformly.
func (c *Cluster) Random(rng *rand.Rand) Router {
	return func() int { return rng.IntN(len(c.Targets)) }
}

// ---------------------------------------------------------------------------
// Stream driver

// In is one exchange input of an HTTP stream call.
type In struct {
	Batch     arrow.RecordBatch // nil = zero-row batch of the empty schema
	Cancel    bool              // send a cancel continuation instead (ends the call)
	CancelVal *string           // value of the vgi_rpc.cancel key (nil: "true")
	Meta      [][2]string       // user metadata before the framework keys
	MetaAfter [][2]string       // ... and after them
	Hdr       map[string]string // extra HTTP headers of this continuation
}

// StreamCall describes one stream call over HTTP.
type StreamCall struct {
	Req       wire.Req
	HasHeader bool              // the method declares a header
	Producer  bool              // follow continuation tokens instead of sending inputs
	Inputs    []In              // exchange: one continuation per input, in order
	CancelAt  int               // producer: replace the continuation after that many responses by a cancel (<=0: never)
	CancelVal *string           // value of the vgi_rpc.cancel key of that cancel (nil: "true")
	MaxResp   int               // producer: stop after that many responses (default 1000)
	Hdr       map[string]string // HTTP headers of every request (accept-encoding ...)
	Storage   *MemStorage       // resolves pointer batches client-side
	// Resolve, when set, may rewrite an input just before it is sent, knowing
	// the live cursor and call token (e.g. to place them in user metadata).
	Resolve func(cursor, call string, in In) In
}

// Resp is one HTTP response of a stream call.
type Resp struct {
	Step      string        `json:"step"` // "init" | "turn k" | "cancel"
	Instance  int           `json:"instance"`
	Status    int           `json:"status"`
	RPCError  bool          `json:"rpc_error_header"`
	Encoding  string        `json:"encoding,omitempty"`
	BodyLen   int           `json:"body_len"` // as sent (possibly compressed)
	PlainLen  int           `json:"plain_len"`
	Plain     []byte        `json:"-"`
	Streams   []wire.Stream `json:"streams"`
	Presented string        `json:"presented_cursor,omitempty"` // cursor echoed on the request
	Cursor    string        `json:"cursor,omitempty"`           // cursor found in the response
	CallToken string        `json:"call_token,omitempty"`
	Panic     string        `json:"panic,omitempty"`
	Malformed string        `json:"malformed,omitempty"`
	// EvLo/EvHi delimit the events (svc.Sink) recorded while this request
	// was being served: Since(EvLo) up to sequence EvHi.
	EvLo int `json:"ev_lo"`
	EvHi int `json:"ev_hi"`
	// UpLo/UpHi delimit the uploads (MemStorage marks) made while this
	// request was being served.
	UpLo int `json:"up_lo"`
	UpHi int `json:"up_hi"`
	// Out is the response's output stream after pointer resolution, with
	// token-bearing batches marked (see TokenOnly).
	Out []OutBatch `json:"-"`
}

// OutBatch is one batch of a response's output stream.
type OutBatch struct {
	wire.Batch
	TokenOnly bool // a pure continuation-token batch (no data of its own)
	External  bool // was a pointer batch, resolved client-side
	Frame     int  // index of its record-batch message in the response body (-1 when fetched)
}

// Result is what the client saw over a whole call.
type Result struct {
	Responses []Resp       `json:"responses"`
	Header    *wire.Stream `json:"header,omitempty"`
	Output    *wire.Stream `json:"output"` // joined, tokens removed
	Ended     string       `json:"ended"`  // "no-cursor" | "inputs-exhausted" | "cancelled" | "max-responses" | "malformed"
}

// userMeta returns the batch metadata minus the framework's token keys.
func userMeta(m map[string]string) map[string]string {
	out := map[string]string{}
	for k, v := range m {
		if k == wire.KeyStreamState || k == wire.KeyCallState {
			continue
		}
		out[k] = v
	}
	if len(out) == 0 {
		return nil
	}
	return out
}

// decodeResp fills the derived fields of one response. exchangeTurn tells
// whether the response answers an exchange continuation (there the batch
// carrying the cursor IS the data batch, also with zero rows).
func decodeResp(r *Resp, hr wire.HTTPResp, hasHeader, exchangeTurn bool, st *MemStorage) {
	r.Status, r.RPCError, r.Encoding, r.BodyLen, r.Panic = hr.Status, hr.RPCError, hr.Encoding, len(hr.Body), hr.Panic
	r.Streams = hr.Obs.Streams
	r.Plain = PlainBody(hr)
	r.PlainLen = len(r.Plain)
	if hr.Panic != "" {
		r.Malformed = "panic escaped ServeHTTP: " + hr.Panic
		return
	}
	if !hr.Obs.WellFormed() || len(hr.Obs.Streams) == 0 {
		r.Malformed = fmt.Sprintf("response body is not a sequence of complete IPC streams (status %d, %d bytes)", hr.Status, len(hr.Body))
		return
	}
	want := 1
	if hasHeader && len(hr.Obs.Streams) == 2 {
		want = 2
	}
	if len(hr.Obs.Streams) != want {
		r.Malformed = fmt.Sprintf("response carries %d IPC streams", len(hr.Obs.Streams))
		return
	}
	out := hr.Obs.Streams[len(hr.Obs.Streams)-1]
	for i, b := range out.Batches {
		ob := OutBatch{Batch: b, Frame: i}
		if b.Kind == wire.KindExtPointer && st != nil {
			fetched, err := st.Fetch(b.Meta[wire.KeyLocation])
			if err != "" {
				r.Malformed = "pointer batch does not resolve: " + err
				return
			}
			// the fetched stream's data batch stands in for the pointer
			n := 0
			for _, fb := range fetched.Batches {
				if fb.Kind == wire.KindLog || fb.Kind == wire.KindError {
					continue
				}
				ob = OutBatch{Batch: fb, External: true, Frame: i}
				n++
			}
			if n != 1 {
				r.Malformed = fmt.Sprintf("uploaded stream holds %d data batches", n)
				return
			}
		}
		if ob.StreamState != "" {
			r.Cursor = ob.StreamState
			if ob.CallState != "" {
				r.CallToken = ob.CallState
			}
			if exchangeTurn {
				ob.Kind = wire.KindData
			} else if ob.Rows == 0 && len(userMeta(ob.Meta)) == 0 {
				ob.TokenOnly = true
			}
		}
		r.Out = append(r.Out, ob)
	}
}

// RunStream performs the call: /init on the instance the router picks, then
// one /exchange per input (or per continuation token for producers), each on
// the instance the router picks, echoing the latest cursor and the call token.
func (c *Cluster) RunStream(route Router, sc StreamCall) Result {
	var res Result
	joined := &wire.Stream{Complete: true}
	res.Output = joined
	maxResp := sc.MaxResp
	if maxResp <= 0 {
		maxResp = 1000
	}
	add := func(r *Resp) {
		for _, ob := range r.Out {
			if ob.TokenOnly {
				continue
			}
			b := ob.Batch
			b.Meta = userMeta(b.Meta)
			b.StreamState, b.CallState = "", ""
			joined.Batches = append(joined.Batches, b)
		}
	}
	post := func(step string, do func(t *wire.HTTPTarget) wire.HTTPResp, exchangeTurn bool, presented string) *Resp {
		i := route()
		lo := 0
		if l := svc.Sink(); l != nil {
			lo = l.Len()
		}
		up := 0
		if sc.Storage != nil {
			up = sc.Storage.Mark()
		}
		hr := do(c.Targets[i])
		r := Resp{Step: step, Instance: i, Presented: presented, EvLo: lo, UpLo: up}
		if l := svc.Sink(); l != nil {
			r.EvHi = l.Len()
		}
		if sc.Storage != nil {
			r.UpHi = sc.Storage.Mark()
		}
		decodeResp(&r, hr, sc.HasHeader && step == "init", exchangeTurn, sc.Storage)
		res.Responses = append(res.Responses, r)
		return &res.Responses[len(res.Responses)-1]
	}

	r := post("init", func(t *wire.HTTPTarget) wire.HTTPResp { return t.Init(sc.Req, sc.Hdr) }, false, "")
	if r.Malformed != "" {
		res.Ended = "malformed"
		return res
	}
	if len(r.Streams) == 2 {
		h := r.Streams[0]
		res.Header = &h
	}
	joined.Schema = r.Streams[len(r.Streams)-1].Schema
	add(r)
	cursor, call := r.Cursor, r.CallToken
	if cursor == "" {
		res.Ended = "no-cursor"
		return res
	}
	merge := func(extra map[string]string) map[string]string {
		if len(extra) == 0 {
			return sc.Hdr
		}
		m := map[string]string{}
		for k, v := range sc.Hdr {
			m[k] = v
		}
		for k, v := range extra {
			m[k] = v
		}
		return m
	}
	if sc.Producer {
		for n := 1; ; n++ {
			if n >= maxResp {
				res.Ended = "max-responses"
				return res
			}
			cancel := sc.CancelAt > 0 && n == sc.CancelAt
			step := fmt.Sprintf("turn %d", n)
			if cancel {
				step = "cancel"
			}
			u := wire.Turn{Method: sc.Req.Method, StreamState: cursor, CallState: call, Cancel: cancel, CancelValue: sc.CancelVal}
			if n-1 < len(sc.Inputs) {
				in := sc.Inputs[n-1]
				if sc.Resolve != nil {
					in = sc.Resolve(cursor, call, in)
				}
				u.Meta, u.MetaAfter = in.Meta, in.MetaAfter
			}
			r := post(step, func(t *wire.HTTPTarget) wire.HTTPResp { return t.Exchange(u, sc.Hdr) }, false, cursor)
			if r.Malformed != "" {
				res.Ended = "malformed"
				return res
			}
			add(r)
			if cancel {
				res.Ended = "cancelled"
				return res
			}
			if r.Cursor == "" {
				res.Ended = "no-cursor"
				return res
			}
			cursor = r.Cursor
		}
	}
	for k, in := range sc.Inputs {
		step := fmt.Sprintf("turn %d", k)
		if in.Cancel {
			step = "cancel"
		}
		if sc.Resolve != nil {
			in = sc.Resolve(cursor, call, in)
		}
		u := wire.Turn{Method: sc.Req.Method, Input: in.Batch, StreamState: cursor, CallState: call, Cancel: in.Cancel, CancelValue: in.CancelVal, Meta: in.Meta, MetaAfter: in.MetaAfter}
		r := post(step, func(t *wire.HTTPTarget) wire.HTTPResp { return t.Exchange(u, merge(in.Hdr)) }, !in.Cancel, cursor)
		if r.Malformed != "" {
			res.Ended = "malformed"
			return res
		}
		add(r)
		if in.Cancel {
			res.Ended = "cancelled"
			return res
		}
		if r.Cursor == "" {
			res.Ended = "no-cursor"
			return res
		}
		cursor = r.Cursor
	}
	res.Ended = "inputs-exhausted"
	return res
}

// RunUnary performs one unary call on the instance the router picks.
func (c *Cluster) RunUnary(route Router, q wire.Req, hdr map[string]string, st *MemStorage) Resp {
	i := route()
	lo := 0
	if l := svc.Sink(); l != nil {
		lo = l.Len()
	}
	up := 0
	if st != nil {
		up = st.Mark()
	}
	hr := c.Targets[i].Unary(q, hdr)
	r := Resp{Step: "unary", Instance: i, EvLo: lo, UpLo: up}
	if l := svc.Sink(); l != nil {
		r.EvHi = l.Len()
	}
	if st != nil {
		r.UpHi = st.Mark()
	}
	decodeResp(&r, hr, false, false, st)
	return r
}

// Counts returns the number of data, log and error batches of a response's
// output stream (token-only batches excluded).
func (r Resp) Counts() (data, logs, errs int) {
	for _, ob := range r.Out {
		switch {
		case ob.TokenOnly:
		case ob.Kind == wire.KindError:
			errs++
		case ob.Kind == wire.KindLog:
			logs++
		default:
			data++
		}
	}
	return
}

// FirstError returns the first error batch of the response's output stream.
func (r Resp) FirstError() (wire.Batch, bool) {
	for _, ob := range r.Out {
		if ob.Kind == wire.KindError {
			return ob.Batch, true
		}
	}
	return wire.Batch{}, false
}
