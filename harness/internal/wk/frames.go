package wk

import (
	"bytes"
	"io"

	"github.com/apache/arrow-go/v18/arrow/ipc"
)

// Frame is one encapsulated IPC message of a body, with its byte extent.
type Frame struct {
	Stream  int    `json:"stream"` // index of the IPC stream inside the body
	Type    string `json:"type"`   // "schema" | "record-batch" | "dictionary" | "eos" | "other"
	Start   int    `json:"start"`
	End     int    `json:"end"`      // offset just after the message body
	BodyLen int64  `json:"body_len"` // Message.bodyLength (the padded Arrow buffers)
}

type countReader struct {
	r io.Reader
	n int
}

func (c *countReader) Read(b []byte) (int, error) {
	n, err := c.r.Read(b)
	c.n += n
	return n, err
}

// Frames walks a body made of complete IPC streams and returns every message
// with its byte offsets (arrow-go's message reader reads exact amounts, so a
// counting reader under it yields exact boundaries). It stops at the first
// thing that is not a message.
func Frames(body []byte) (out []Frame) {
	defer func() { _ = recover() }()
	cr := &countReader{r: bytes.NewReader(body)}
	stream := 0
	for cr.n < len(body) {
		mr := ipc.NewMessageReader(cr)
		for {
			start := cr.n
			msg, err := mr.Message()
			if err != nil {
				if err == io.EOF && cr.n > start {
					out = append(out, Frame{Stream: stream, Type: "eos", Start: start, End: cr.n})
					break
				}
				mr.Release()
				return out
			}
			f := Frame{Stream: stream, Start: start, End: cr.n, BodyLen: msg.BodyLen()}
			switch msg.Type() {
			case ipc.MessageSchema:
				f.Type = "schema"
			case ipc.MessageRecordBatch:
				f.Type = "record-batch"
			case ipc.MessageDictionaryBatch:
				f.Type = "dictionary"
			default:
				f.Type = "other"
			}
			out = append(out, f)
		}
		mr.Release()
		stream++
	}
	return out
}
