package wk

import (
	"bytes"
	"compress/gzip"
	"fmt"
	"io"
	"net/http"
	"strings"
	"sync"

	"github.com/apache/arrow-go/v18/arrow"
	"github.com/klauspost/compress/zstd"

	"verif/harness/internal/wire"
)

// Upload is one object handed to MemStorage.Upload.
type Upload struct {
	URL      string `json:"url"`
	Encoding string `json:"encoding,omitempty"` // "zstd" | ""
	Stored   int    `json:"stored_bytes"`       // bytes as handed over (possibly compressed)
	Raw      []byte `json:"-"`                  // uncompressed IPC bytes
	RawLen   int    `json:"arrow_ipc_bytes"`    // len(Raw): the Arrow (IPC) size
	BufBytes int64  `json:"arrow_buffer_bytes"` // sum of the body lengths of the record-batch messages inside
}

// MemStorage is an instrumented in-memory vgirpc.ExternalStorage. It measures
// uploads at the storage boundary: what was handed over, and its Arrow size
// after undoing the upload's own compression.
type MemStorage struct {
	mu      sync.Mutex
	uploads []Upload
	byURL   map[string]int
	stored  map[string][]byte
}

// NewMemStorage returns an empty storage.
func NewMemStorage() *MemStorage {
	return &MemStorage{byURL: map[string]int{}, stored: map[string][]byte{}}
}

// Upload implements vgirpc.ExternalStorage.
func (m *MemStorage) Upload(data []byte, _ *arrow.Schema, contentEncoding string) (string, error) {
	raw := data
	if contentEncoding == "zstd" {
		out, err := zstdDecoder().DecodeAll(data, nil)
		if err != nil {
			return "", fmt.Errorf("wk: upload declared zstd but does not decode: %w", err)
		}
		raw = out
	} else {
		raw = append([]byte(nil), data...)
	}
	var body int64
	for _, f := range Frames(raw) {
		if f.Type == "record-batch" {
			body += f.BodyLen
		}
	}
	m.mu.Lock()
	defer m.mu.Unlock()
	u := Upload{URL: fmt.Sprintf("https://mem.invalid/o/%d", len(m.uploads)), Encoding: contentEncoding, Stored: len(data), Raw: raw, RawLen: len(raw), BufBytes: body}
	m.byURL[u.URL] = len(m.uploads)
	m.stored[u.URL] = append([]byte(nil), data...)
	m.uploads = append(m.uploads, u)
	return u.URL, nil
}

// Put stores a client-made object (an externalised request input) and returns
// its URL; it is not counted as a server upload.
func (m *MemStorage) Put(raw []byte) string {
	m.mu.Lock()
	defer m.mu.Unlock()
	url := fmt.Sprintf("https://mem.invalid/c/%d", len(m.stored))
	m.stored[url] = append([]byte(nil), raw...)
	return url
}

// Mark returns the number of uploads so far; Since the uploads after a mark.
func (m *MemStorage) Mark() int { m.mu.Lock(); defer m.mu.Unlock(); return len(m.uploads) }

// Since returns the uploads recorded after mark.
func (m *MemStorage) Since(mark int) []Upload {
	m.mu.Lock()
	defer m.mu.Unlock()
	return append([]Upload(nil), m.uploads[mark:]...)
}

// Reset forgets everything (keeps memory bounded over a long run).
func (m *MemStorage) Reset() {
	m.mu.Lock()
	defer m.mu.Unlock()
	m.uploads, m.byURL, m.stored = nil, map[string]int{}, map[string][]byte{}
}

// Fetch is the client side: the uploaded object decoded as one IPC stream.
func (m *MemStorage) Fetch(url string) (wire.Stream, string) {
	m.mu.Lock()
	i, ok := m.byURL[url]
	var raw []byte
	if ok {
		raw = m.uploads[i].Raw
	}
	m.mu.Unlock()
	if !ok {
		return wire.Stream{}, "no such object: " + url
	}
	o := wire.Decode(raw)
	if !o.WellFormed() || len(o.Streams) != 1 {
		return wire.Stream{}, fmt.Sprintf("uploaded object is not one complete IPC stream (%d streams, trailing %d)", len(o.Streams), o.Trailing)
	}
	return o.Streams[0], ""
}

type memTransport struct{ m *MemStorage }

func (t memTransport) RoundTrip(req *http.Request) (*http.Response, error) {
	url := req.URL.String()
	t.m.mu.Lock()
	data, ok := t.m.stored[url]
	enc := ""
	if i, up := t.m.byURL[url]; up {
		enc = t.m.uploads[i].Encoding
	}
	t.m.mu.Unlock()
	resp := &http.Response{Proto: "HTTP/1.1", ProtoMajor: 1, ProtoMinor: 1, Header: http.Header{}, Request: req}
	if !ok || req.Method != http.MethodGet {
		resp.StatusCode, resp.Status = 404, "404 Not Found"
		resp.Body = io.NopCloser(strings.NewReader("not found"))
		return resp, nil
	}
	resp.StatusCode, resp.Status = 200, "200 OK"
	resp.ContentLength = int64(len(data))
	if enc != "" {
		resp.Header.Set("Content-Encoding", enc)
	}
	resp.Body = io.NopCloser(bytes.NewReader(data))
	return resp, nil
}

// Client returns an http.Client that serves the stored objects (what the
// server uses to resolve an externalised request input).
func (m *MemStorage) Client() *http.Client { return &http.Client{Transport: memTransport{m}} }

// PlainBody undoes the response's content coding (zstd / gzip, standard or
// X-VGI header), giving the uncompressed IPC body the caps are about.
func PlainBody(hr wire.HTTPResp) []byte {
	enc := hr.Header.Get("X-VGI-Content-Encoding")
	if enc == "" {
		enc = hr.Header.Get("Content-Encoding")
	}
	switch strings.ToLower(strings.TrimSpace(enc)) {
	case "zstd":
		if out, derr := zstdDecoder().DecodeAll(hr.Body, nil); derr == nil {
			return out
		}
	case "gzip":
		if zr, err := gzip.NewReader(bytes.NewReader(hr.Body)); err == nil {
			if out, derr := io.ReadAll(zr); derr == nil {
				return out
			}
		}
	}
	return hr.Body
}

var (
	zstdOnce sync.Once
	zstdDec  *zstd.Decoder
)

// zstdDecoder is one shared decoder (DecodeAll is safe for concurrent use).
func zstdDecoder() *zstd.Decoder {
	zstdOnce.Do(func() {
		d, err := zstd.NewReader(nil, zstd.WithDecoderConcurrency(1))
		if err != nil {
			panic(err)
		}
		zstdDec = d
	})
	return zstdDec
}

// Range returns the uploads with index in [lo, hi).
func (m *MemStorage) Range(lo, hi int) []Upload {
	m.mu.Lock()
	defer m.mu.Unlock()
	if hi > len(m.uploads) {
		hi = len(m.uploads)
	}
	if lo >= hi {
		return nil
	}
	return append([]Upload(nil), m.uploads[lo:hi]...)
}
