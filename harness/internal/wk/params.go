package wk

import (
	"encoding/json"

	"github.com/apache/arrow-go/v18/arrow"
	"github.com/apache/arrow-go/v18/arrow/array"

	"verif/harness/internal/svc"
)

// BigParamsBatch builds the one-row request batch of k_bp / k_bx.
func BigParamsBatch(sp BigSpec) arrow.RecordBatch {
	js, err := json.Marshal(sp)
	if err != nil {
		panic(err)
	}
	bb := array.NewBinaryBuilder(svc.Alloc, arrow.BinaryTypes.Binary)
	bb.Append(js)
	col := bb.NewArray()
	bb.Release()
	defer col.Release()
	return array.NewRecordBatch(BigParamsSchema, []arrow.Array{col}, 1)
}

// BlobParamsBatch builds the one-row request batch of k_blob / k_bvoid.
func BlobParamsBatch(p BlobParams) arrow.RecordBatch {
	ib := array.NewStringBuilder(svc.Alloc)
	ib.Append(p.ID)
	cols := []arrow.Array{ib.NewArray()}
	ib.Release()
	for _, v := range []int64{p.Seed, p.Size, p.NLogs, p.LogSize} {
		b := array.NewInt64Builder(svc.Alloc)
		b.Append(v)
		cols = append(cols, b.NewArray())
		b.Release()
	}
	rec := array.NewRecordBatch(BlobParamsSchema, cols, 1)
	for _, c := range cols {
		c.Release()
	}
	return rec
}

// BigInput builds one k_bx input row.
func BigInput(size, rows int64) arrow.RecordBatch {
	sb := array.NewInt64Builder(svc.Alloc)
	sb.Append(size)
	rb := array.NewInt64Builder(svc.Alloc)
	rb.Append(rows)
	cols := []arrow.Array{sb.NewArray(), rb.NewArray()}
	sb.Release()
	rb.Release()
	rec := array.NewRecordBatch(BigIn, cols, 1)
	cols[0].Release()
	cols[1].Release()
	return rec
}

// SetCaps sets both response caps on every instance (0 = none).
func (c *Cluster) SetCaps(maxResponse, maxExternal int64) {
	for _, h := range c.HTTP {
		h.SetMaxResponseBytes(maxResponse)
		h.SetMaxExternalizedResponseBytes(maxExternal)
	}
}
