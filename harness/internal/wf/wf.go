// Package wf holds worker wF's shared pieces for the HTTP auth/header checks
// (C20, C22, C23): an instrumented service whose every user-provided callback
// logs to a mon.Log, an in-process driver for HttpServer.ServeHTTP, and
// request builders.
package wf

import (
	"bytes"
	"context"
	"errors"
	"fmt"
	"io"
	"net/http"
	"net/http/httptest"
	"sync/atomic"
	"time"

	"github.com/apache/arrow-go/v18/arrow"
	"github.com/apache/arrow-go/v18/arrow/array"
	"github.com/apache/arrow-go/v18/arrow/ipc"
	"github.com/apache/arrow-go/v18/arrow/memory"

	"github.com/Query-farm/vgi-rpc-go/vgirpc"

	"verif/harness/internal/mon"
)

// Log is where every instrumented callback records its invocation. Stream
// states are rebuilt from tokens by gob, so they cannot carry a pointer; a
// package-level log is the only way to observe them. Checks are
// single-threaded (VARIANT=plain), mon.Log is safe anyway.
var Log = mon.NewLog()

// Svc is the actor name of every event produced by user-provided callbacks
// that do work for a request (handlers, states, providers, resolvers, hooks,
// storage). Authenticators log under actor "auth", lifecycle hooks under
// "lifecycle".
const Svc = "svc"

func ev(kind, key string) { Log.Add(Svc, kind, key, nil) }

// ---- parameter / state types ------------------------------------------------

type EchoParams struct {
	X int64 `vgirpc:"x"`
}
type CountParams struct {
	N int64 `vgirpc:"n"`
}
type SumParams struct {
	Initial int64 `vgirpc:"initial"`
}

type CountState struct{ Left int64 }

func (s *CountState) Produce(_ context.Context, out *vgirpc.OutputCollector, _ *vgirpc.CallContext) error {
	ev("state.produce", "count")
	if s.Left <= 0 {
		return out.Finish()
	}
	b := array.NewInt64Builder(memory.DefaultAllocator)
	defer b.Release()
	b.Append(s.Left)
	arr := b.NewArray()
	defer arr.Release()
	s.Left--
	return out.EmitArrays([]arrow.Array{arr}, 1)
}

func (s *CountState) OnCancel(context.Context, *vgirpc.CallContext) error {
	ev("state.cancel", "count")
	return nil
}

type SumState struct{ Sum int64 }

func (s *SumState) Exchange(_ context.Context, in arrow.RecordBatch, out *vgirpc.OutputCollector, _ *vgirpc.CallContext) error {
	ev("state.exchange", "sum")
	if in.NumCols() > 0 {
		if col, ok := in.Column(0).(*array.Int64); ok {
			for i := 0; i < col.Len(); i++ {
				s.Sum += col.Value(i)
			}
		}
	}
	b := array.NewInt64Builder(memory.DefaultAllocator)
	defer b.Release()
	b.Append(s.Sum)
	arr := b.NewArray()
	defer arr.Release()
	return out.EmitArrays([]arrow.Array{arr}, 1)
}

func (s *SumState) OnCancel(context.Context, *vgirpc.CallContext) error {
	ev("state.cancel", "sum")
	return nil
}

// SessState is a sticky-session state; Close is a svc event.
type SessState struct{ N int }

func (s *SessState) Close() error { ev("session.close", ""); return nil }

var (
	I64Schema = func(name string) *arrow.Schema {
		return arrow.NewSchema([]arrow.Field{{Name: name, Type: arrow.PrimitiveTypes.Int64}}, nil)
	}
	CountOut = I64Schema("value")
	SumIn    = I64Schema("value")
	SumOut   = I64Schema("sum")
)

func init() {
	vgirpc.RegisterStateType(&CountState{})
	vgirpc.RegisterStateType(&SumState{})
}

// LastPrincipal is the principal the most recent unary handler saw ("" when
// anonymous). Reset by the caller.
var LastPrincipal atomic.Value

// NewService registers the instrumented methods:
//
//	echo     unary  {x} -> x
//	whoami   unary  {x} -> principal (also stored in LastPrincipal)
//	opensess unary  {x} -> 1, opens a sticky session (needs VGI-Session-Accept)
//	closesess unary {x} -> 1, closes the bound sticky session
//	boom     unary  {x} -> error
//	count    producer {n}
//	sum      exchange {initial}
func NewService() *vgirpc.Server {
	s := vgirpc.NewServer()
	s.SetServiceName("wf")
	vgirpc.Unary(s, "echo", func(_ context.Context, _ *vgirpc.CallContext, p EchoParams) (int64, error) {
		ev("handler", "echo")
		return p.X, nil
	})
	vgirpc.Unary(s, "whoami", func(_ context.Context, c *vgirpc.CallContext, p EchoParams) (string, error) {
		ev("handler", "whoami")
		pr := ""
		if c.Auth != nil {
			pr = c.Auth.Principal
		}
		LastPrincipal.Store(pr)
		return pr, nil
	})
	vgirpc.Unary(s, "opensess", func(_ context.Context, c *vgirpc.CallContext, p EchoParams) (int64, error) {
		ev("handler", "opensess")
		if err := c.OpenSession(&SessState{N: int(p.X)}, 0); err != nil {
			return 0, err
		}
		return 1, nil
	})
	vgirpc.Unary(s, "closesess", func(_ context.Context, c *vgirpc.CallContext, p EchoParams) (int64, error) {
		ev("handler", "closesess")
		if c.CloseSession() {
			return 1, nil
		}
		return 0, nil
	})
	vgirpc.Unary(s, "boom", func(_ context.Context, _ *vgirpc.CallContext, p EchoParams) (int64, error) {
		ev("handler", "boom")
		return 0, &vgirpc.RpcError{Type: "RuntimeError", Message: "boom"}
	})
	vgirpc.Producer(s, "count", CountOut, func(_ context.Context, _ *vgirpc.CallContext, p CountParams) (*vgirpc.StreamResult, error) {
		ev("handler", "count")
		return &vgirpc.StreamResult{OutputSchema: CountOut, State: &CountState{Left: p.N}}, nil
	})
	vgirpc.Exchange(s, "sum", SumOut, SumIn, func(_ context.Context, _ *vgirpc.CallContext, p SumParams) (*vgirpc.StreamResult, error) {
		ev("handler", "sum")
		return &vgirpc.StreamResult{OutputSchema: SumOut, InputSchema: SumIn, State: &SumState{Sum: p.Initial}}, nil
	})
	return s
}

// ---- instrumented collaborators ----------------------------------------------

type Hook struct{}

func (Hook) OnDispatchStart(ctx context.Context, info vgirpc.DispatchInfo) (context.Context, vgirpc.HookToken) {
	ev("hook.start", info.Method)
	return ctx, nil
}
func (Hook) OnDispatchEnd(context.Context, vgirpc.HookToken, vgirpc.DispatchInfo, *vgirpc.CallStatistics, error) {
	ev("hook.end", "")
}

type Provider struct{ n int }

func (p *Provider) GenerateUploadURL(*arrow.Schema) (vgirpc.UploadURL, error) {
	ev("upload-provider", "")
	p.n++
	return vgirpc.UploadURL{
		UploadURL:   fmt.Sprintf("https://store.example/put/%d?sig=SECRET", p.n),
		DownloadURL: fmt.Sprintf("https://store.example/get/%d?sig=SECRET", p.n),
		ExpiresAt:   time.Unix(1893456000, 0).UTC(),
	}, nil
}

type Storage struct{}

func (Storage) Upload([]byte, *arrow.Schema, string) (string, error) {
	ev("storage.upload", "")
	return "https://store.example/obj", nil
}

// FetchTransport is installed as the external-location HTTP client: any fetch
// the server attempts on behalf of a request is a svc event.
type FetchTransport struct{}

func (FetchTransport) RoundTrip(*http.Request) (*http.Response, error) {
	ev("storage.fetch", "")
	return nil, errors.New("wf: no network")
}

func Resolver(credential string) (vgirpc.TokenIdentity, bool, error) {
	ev("token-resolver", "")
	if credential == "opaque-good" {
		return vgirpc.TokenIdentity{Principal: "alice", TokenName: "t1"}, true, nil
	}
	return vgirpc.TokenIdentity{}, false, nil
}

func Rehydrate(state interface{}, method string) error {
	ev("rehydrate", method)
	return nil
}

// ---- in-process driver ---------------------------------------------------------

// Exchange is one request/response pair as the server saw it.
type Exchange struct {
	Method  string      `json:"method"`
	Path    string      `json:"path"`
	Header  http.Header `json:"header"`
	Body    []byte      `json:"body_b64,omitempty"`
	Status  int         `json:"status"`
	RHeader http.Header `json:"response_header"`
	RBody   []byte      `json:"-"`
	// SvcKinds are the svc-actor events the request caused; AuthCalls the
	// number of authenticator invocations (actor "auth") it caused.
	SvcKinds  []string `json:"svc_events,omitempty"`
	AuthCalls int      `json:"auth_calls"`
}

func observe(seq int64) (kinds []string, authCalls int) {
	for _, e := range Log.Since(seq) {
		switch e.Actor {
		case Svc:
			k := e.Kind
			if e.Key != "" {
				k += ":" + e.Key
			}
			kinds = append(kinds, k)
		case "auth":
			authCalls++
		}
	}
	return
}

// Do runs one request through h in-process. target is the request-target
// (path + optional query). Headers are set verbatim.
func Do(h http.Handler, method, target string, hdr http.Header, body []byte) *Exchange {
	var rd io.Reader
	if body != nil {
		rd = bytes.NewReader(body)
	}
	req := httptest.NewRequest(method, "http://wf.test"+target, rd)
	for k, vs := range hdr {
		req.Header[k] = append([]string(nil), vs...)
	}
	rec := httptest.NewRecorder()
	seq := int64(Log.Len())
	h.ServeHTTP(rec, req)
	res := rec.Result()
	rb, _ := io.ReadAll(res.Body)
	ex := &Exchange{Method: method, Path: target, Header: hdr, Body: body, Status: res.StatusCode, RHeader: res.Header, RBody: rb}
	ex.SvcKinds, ex.AuthCalls = observe(seq)
	return ex
}

// Recorder is an http.RoundTripper that serves requests from H in-process and
// keeps every exchange, so the library's own HttpClient can be used to produce
// well-formed requests (and valid continuation tokens) that are replayed later.
type Recorder struct {
	H        http.Handler
	Extra    http.Header // added to every request
	Captured []*Exchange
}

func (t *Recorder) RoundTrip(req *http.Request) (*http.Response, error) {
	var body []byte
	if req.Body != nil {
		body, _ = io.ReadAll(req.Body)
		req.Body.Close()
	}
	hdr := req.Header.Clone()
	for k, vs := range t.Extra {
		hdr[k] = vs
	}
	target := req.URL.RequestURI()
	sreq := httptest.NewRequest(req.Method, "http://wf.test"+target, bytes.NewReader(body))
	sreq.Header = hdr.Clone()
	rec := httptest.NewRecorder()
	seq := int64(Log.Len())
	t.H.ServeHTTP(rec, sreq)
	res := rec.Result()
	rb, _ := io.ReadAll(res.Body)
	ex := &Exchange{Method: req.Method, Path: target, Header: hdr, Body: body,
		Status: res.StatusCode, RHeader: res.Header, RBody: rb}
	ex.SvcKinds, ex.AuthCalls = observe(seq)
	t.Captured = append(t.Captured, ex)
	res.Body = io.NopCloser(bytes.NewReader(rb))
	res.Request = req
	return res, nil
}

// Replay sends a captured request again (same bytes, same headers).
func Replay(h http.Handler, e *Exchange) *Exchange {
	return Do(h, e.Method, e.Path, e.Header, e.Body)
}

// ---- request builders ------------------------------------------------------------

// I64Batch builds a one-column int64 batch.
func I64Batch(name string, vals ...int64) arrow.RecordBatch {
	b := array.NewInt64Builder(memory.DefaultAllocator)
	defer b.Release()
	b.AppendValues(vals, nil)
	arr := b.NewArray()
	defer arr.Release()
	return array.NewRecordBatch(I64Schema(name), []arrow.Array{arr}, int64(len(vals)))
}

// RequestBody serialises a one-row request for method with the framework
// metadata the wire protocol requires.
func RequestBody(method string, params arrow.RecordBatch, extraMeta map[string]string) []byte {
	keys := []string{vgirpc.MetaMethod, vgirpc.MetaRequestVersion}
	vals := []string{method, vgirpc.ProtocolVersion}
	for k, v := range extraMeta {
		keys = append(keys, k)
		vals = append(vals, v)
	}
	md := arrow.NewMetadata(keys, vals)
	var buf bytes.Buffer
	w := ipc.NewWriter(&buf, ipc.WithSchema(params.Schema()))
	withMeta := array.NewRecordBatchWithMetadata(params.Schema(), params.Columns(), params.NumRows(), md)
	defer withMeta.Release()
	if err := w.Write(withMeta); err != nil {
		panic(err)
	}
	if err := w.Close(); err != nil {
		panic(err)
	}
	return buf.Bytes()
}

const ArrowCT = "application/vnd.apache.arrow.stream"

// ArrowHeader returns headers for an Arrow POST.
func ArrowHeader() http.Header {
	return http.Header{"Content-Type": {ArrowCT}}
}

// SvcEvents returns the svc-actor events recorded since seq.
func SvcEvents(seq int64) []mon.Event {
	var out []mon.Event
	for _, e := range Log.Since(seq) {
		if e.Actor == Svc {
			out = append(out, e)
		}
	}
	return out
}

// Kinds renders events compactly.
func Kinds(evs []mon.Event) []string {
	out := make([]string, len(evs))
	for i, e := range evs {
		out[i] = e.Kind
		if e.Key != "" {
			out[i] += ":" + e.Key
		}
	}
	return out
}
