package wm

import (
	"errors"
	"fmt"
	"io"
	"net/http/httptest"
	"os"
	"path/filepath"
	"regexp"
	"runtime/debug"
	"strings"
	"sync/atomic"
	"time"

	"github.com/Query-farm/vgi-rpc-go/vgirpc"

	"verif/harness/internal/gen"
	"verif/harness/internal/svc"
	"verif/harness/internal/wire"
)

// Norm is the normal form responses are compared under: state tokens carry a
// random nonce, everything else must be identical between two runs.
var Norm = wire.Norm{DropTokens: true, DropTraceback: true}

// Dispatch is what the driver saw of one request (a whole call on a pipe, one
// HTTP request over HTTP).
type Dispatch struct {
	Call    int    `json:"call"`
	Leg     int    `json:"leg"`
	LegKind string `json:"leg_kind"` // pipe-unary | pipe-stream | unary | init | exchange | cancel
	Class   string `json:"class"`
	Method  string `json:"method"`
	// Demand: the request is a dispatched call in the sense of the property
	// statement (parsed, registered method, passes the version gate, over
	// HTTP: its tokens resolve). Otherwise nothing is demanded of the hooks.
	Demand     bool              `json:"demand"`
	Mode       string            `json:"hook_mode"`
	Trace      *Trace            `json:"trace,omitempty"`
	RespErr    bool              `json:"response_reports_error"`
	NoResponse string            `json:"no_response,omitempty"` // transport failure / panic out of ServeHTTP: outcome not evaluable
	Key        string            `json:"-"`                     // normalised response (differential oracle)
	Status     int               `json:"status,omitempty"`
	EvFrom     int               `json:"ev_from"`
	EvTo       int               `json:"ev_to"`
	Settled    bool              `json:"settled"` // the end hook had returned when the window was closed (false: closed at quiescence)
	Witness    map[string]any    `json:"witness,omitempty"`
	Extra      map[string]any    `json:"-"` // filled by Env.After
	Header     map[string]string `json:"request_headers,omitempty"`
}

// Env is one server behind one transport with a recording hook.
type Env struct {
	Transport string
	Cfg       Cfg
	Srv       *vgirpc.Server
	Rec       *Rec
	// After runs once per dispatch when its event window is closed.
	After func(d *Dispatch)

	conn     *wire.Conn
	hs       *vgirpc.HttpServer
	ht       *wire.HTTPTarget
	ts       *httptest.Server
	unixDone chan error
	unixPath string
	closed   bool
	pool     *Pool
	poolKey  string
	// Quiescent: the transport was torn down and the server side is known
	// to have finished (every hook invocation that will ever happen has).
	Quiescent bool
	Problem   string // why quiescence could not be established (=> inconclusive)
	// ServePanic: a panic escaped Server.Serve on the in-process pipe (the
	// driver recovers it so that it becomes a verdict, not a dead process).
	ServePanic string
}

var sockSeq atomic.Int64

// capSizes matches the byte counts in a response-cap refusal; the body size
// includes a state token whose compressed length varies with its nonce.
var capSizes = regexp.MustCompile(`\(\d+ > \d+\)`)

// Pool keeps servers alive across the histories of ONE worker goroutine
// (keyed by transport family and configuration): building a Server means
// registering ~20 methods and hashing the describe payload, which dominates a
// short history under the race detector. A pooled server is used by one
// history at a time and only after the previous one reached quiescence; every
// history still gets a fresh recorder (and, for C43, a freshly installed hook).
type Pool struct {
	servers map[string]*pooled
}

type pooled struct {
	s  *vgirpc.Server
	hs *vgirpc.HttpServer
}

// NewPool returns an empty pool.
func NewPool() *Pool { return &Pool{servers: map[string]*pooled{}} }

// Close stops what the pooled servers keep running (sticky-session reapers).
func (p *Pool) Close() {
	for k, ps := range p.servers {
		if ps.hs != nil {
			if dh := ps.hs.DrainHandle(); dh != nil {
				dh.Shutdown()
			}
		}
		delete(p.servers, k)
	}
}

func buildServer(transport string, cfg Cfg) *pooled {
	s := svc.NewServer(false)
	RegisterExtras(s)
	s.SetServerID("wm-server")
	if cfg.ProtoSet {
		s.SetProtocolVersion(ServerProto)
	}
	ps := &pooled{s: s}
	if IsHTTP(transport) {
		ps.hs = vgirpc.NewHttpServer(s)
		ps.hs.SetProducerBatchLimit(cfg.BatchLimit)
		ps.hs.SetMaxResponseBytes(MaxResp)
		if cfg.Sticky {
			ps.hs.EnableSticky(5 * time.Minute)
		}
	}
	return ps
}

// NewEnv is Pool.NewEnv without a pool: a fresh server, torn down by Close.
func NewEnv(transport string, cfg Cfg, install func(*vgirpc.Server) vgirpc.DispatchHook) (*Env, error) {
	return (*Pool)(nil).NewEnv(transport, cfg, install)
}

// NewEnv builds (or reuses) a server for the transport. install (optional) may
// configure the server and returns the hook the recorder wraps (nil: recorder alone).
func (p *Pool) NewEnv(transport string, cfg Cfg, install func(*vgirpc.Server) vgirpc.DispatchHook) (*Env, error) {
	e := &Env{Transport: transport, Cfg: cfg, pool: p}
	fam := transport
	if IsHTTP(transport) {
		fam = "http"
	} else {
		cfg.BatchLimit, cfg.Sticky = 0, false // HTTP-only settings
	}
	e.poolKey = fmt.Sprintf("%s/%+v", fam, cfg)
	var ps *pooled
	if p != nil {
		ps = p.servers[e.poolKey]
	}
	if ps == nil {
		ps = buildServer(transport, cfg)
		if p != nil {
			p.servers[e.poolKey] = ps
		}
	}
	s := ps.s
	s.SetDispatchHook(nil)
	var inner vgirpc.DispatchHook
	if install != nil {
		inner = install(s)
	}
	e.Rec = NewRec(inner)
	s.SetDispatchHook(e.Rec)
	e.Srv = s
	switch transport {
	case "pipe":
		e.conn = wire.NewInProc(func(r io.Reader, w io.Writer) {
			defer func() {
				if rv := recover(); rv != nil {
					e.ServePanic = fmt.Sprintf("%v\n%s", rv, debug.Stack())
				}
			}()
			s.Serve(r, w)
		})
	case "unix":
		e.unixPath = filepath.Join(os.TempDir(), fmt.Sprintf("wM-%d-%d.sock", os.Getpid(), sockSeq.Add(1)))
		e.unixDone = make(chan error, 1)
		bound := make(chan string, 1)
		go func() { e.unixDone <- s.RunUnix(e.unixPath, 30*time.Millisecond, func(p string) { bound <- p }) }()
		select {
		case <-bound:
		case err := <-e.unixDone:
			return nil, fmt.Errorf("unix listener did not start: %v", err)
		case <-time.After(10 * time.Second):
			return nil, fmt.Errorf("unix listener did not start in 10 s")
		}
		c, err := wire.DialNet("unix", e.unixPath)
		if err != nil {
			return nil, err
		}
		e.conn = c
	case "http", "http-net":
		e.hs = ps.hs
		if transport == "http" {
			e.ht = &wire.HTTPTarget{Handler: e.hs}
		} else {
			e.ts = httptest.NewServer(e.hs)
			e.ht = &wire.HTTPTarget{BaseURL: e.ts.URL, Client: e.ts.Client()}
		}
	default:
		return nil, fmt.Errorf("wm: unknown transport %q", transport)
	}
	if e.conn != nil {
		e.conn.Timeout = 20 * time.Second
	}
	return e, nil
}

// Close tears the transport down and establishes quiescence.
func (e *Env) Close() {
	if e.closed {
		return
	}
	e.closed = true
	switch e.Transport {
	case "pipe":
		e.conn.CloseWrite()
		_, lerr := e.conn.Leftover(10 * time.Second)
		ok := e.conn.WaitServer(10 * time.Second)
		e.conn.Close()
		e.Quiescent = ok
		if !ok {
			e.Problem = fmt.Sprintf("pipe serve loop did not return within 10 s of client EOF (leftover err: %v)", lerr)
		}
	case "unix":
		e.conn.CloseWrite()
		_, _ = e.conn.Leftover(10 * time.Second)
		e.conn.Close()
		select {
		case <-e.unixDone:
			e.Quiescent = true
		case <-time.After(15 * time.Second):
			e.Problem = "RunUnix did not return within 15 s of the last connection closing"
		}
		_ = os.Remove(e.unixPath)
	case "http":
		e.Quiescent = true // ServeHTTP is synchronous
	case "http-net":
		e.ts.Close() // blocks until outstanding requests have completed
		e.Quiescent = true
	}
	switch {
	case e.pool != nil && (!e.Quiescent || e.ServePanic != ""):
		delete(e.pool.servers, e.poolKey) // never reuse a server that may still be running something
	case e.pool == nil && e.hs != nil:
		if dh := e.hs.DrainHandle(); dh != nil {
			dh.Shutdown()
		}
	}
}

// Result of running a history.
type Result struct {
	Dispatches []*Dispatch
	Stray      []Ev   // hook events recorded after the last dispatch's window (seen at quiescence)
	Aborted    string // the history was cut short (transport failure / unsettled hook)
	// Inconclusive: the history ran into a wall-clock exit (read timeout) or a
	// socket-level error of the real HTTP listener; nothing about it is a verdict.
	Inconclusive string
}

func (e *Env) finish(d *Dispatch, from int) bool {
	d.EvFrom = from
	d.Settled = e.Rec.WaitSettled(from, 3*time.Second)
	if !d.Settled {
		// not a verdict: tear down, so that what is missing is known to be missing for good
		e.Close()
	}
	d.EvTo = e.Rec.Mark()
	if e.After != nil {
		e.After(d)
	}
	return d.Settled
}

// Run issues the history's calls in order and returns one Dispatch per request.
func (e *Env) Run(h History) (res Result) {
	next := e.Rec.Mark()
	for ci, call := range h.Calls {
		var stop string
		if IsHTTP(e.Transport) {
			stop = e.httpCall(ci, call, &res, &next)
		} else {
			stop = e.pipeCall(ci, call, &res, &next)
		}
		if stop != "" {
			res.Aborted = stop
			break
		}
	}
	e.Close()
	res.Stray = e.Rec.Events(next, -1)
	return res
}

// req builds the request of a call; release q.Params when non-nil.
func (c Call) req() (q wire.Req) {
	q = wire.Req{Method: c.Method, RequestID: c.RequestID, ProtoVersion: c.Proto}
	if c.Class == "describe" {
		return q
	}
	if c.PVariant != "" {
		q.Params = svc.ParamsBatchVariant(c.Script, c.Args, c.PVariant)
	} else {
		q.Params = svc.ParamsBatch(c.Script, c.Args)
	}
	return q
}

func traceMeta(t *Trace) [][2]string {
	if t == nil {
		return nil
	}
	out := [][2]string{{"traceparent", t.Parent}}
	if t.State != "" {
		out = append(out, [2]string{"tracestate", t.State})
	}
	return out
}

func pipeDemand(class string) bool {
	switch class {
	case "unary:unknown-method", "unary:proto-refused", "stream:proto-refused", "describe":
		return false
	}
	return true
}

func (e *Env) pipeCall(ci int, call Call, res *Result, next *int) (stop string) {
	d := &Dispatch{Call: ci, Class: call.Class, Method: call.Method, Demand: pipeDemand(call.Class), Mode: call.ModeAt(0), Trace: call.TraceAt(0)}
	res.Dispatches = append(res.Dispatches, d)
	e.Rec.SetMode(d.Mode)
	from := *next
	q := call.req()
	if q.Params != nil {
		defer q.Params.Release()
	}
	q.ExtraMeta = traceMeta(d.Trace)
	rawMark := e.conn.RawMark()
	if !strings.HasPrefix(call.Class, "stream:") {
		d.LegKind = "pipe-unary"
		st, err := e.conn.Unary(q)
		d.RespErr = st.HasError()
		d.Key = st.Key(Norm)
		if err != nil {
			d.NoResponse = err.Error()
			if errors.Is(err, wire.ErrReadTimeout) {
				res.Inconclusive = "read timed out after " + call.Class + " on " + e.Transport
			}
		}
	} else {
		d.LegKind = "pipe-stream"
		m, _ := MethodOf(call.Method)
		sc := wire.StreamCall{Req: q, ExpectHeader: m.Header}
		if !call.Producer {
			sc.InputSchema = svc.InputSchemaVariant(call.IVariant)
		}
		for k, in := range call.Inputs {
			x := wire.Input{Cancel: k == call.CancelAt}
			if !call.Producer && !x.Cancel {
				x.Batch = svc.BuildInput(in, call.IVariant)
				defer x.Batch.Release()
			}
			sc.Inputs = append(sc.Inputs, x)
			if x.Cancel {
				break
			}
		}
		r := e.conn.Stream(sc)
		if r.Header != nil {
			d.RespErr = d.RespErr || r.Header.HasError()
			d.Key += "header:\n" + r.Header.Key(Norm)
		}
		if r.Output != nil {
			d.RespErr = d.RespErr || r.Output.HasError()
			d.Key += "output:\n" + r.Output.Key(Norm)
		}
		if r.Err != nil {
			d.NoResponse = r.Phase + ": " + r.Err.Error()
			if errors.Is(r.Err, wire.ErrReadTimeout) {
				res.Inconclusive = "read timed out (" + r.Phase + ") after " + call.Class + " on " + e.Transport
			}
		}
	}
	d.Witness = map[string]any{"response_b64": gen.B64(e.conn.RawSince(rawMark))}
	if d.NoResponse != "" {
		d.Key += "\ntransport: " + strings.SplitN(d.NoResponse, "\n", 2)[0]
	}
	settled := e.finish(d, from)
	*next = d.EvTo
	switch {
	case d.NoResponse != "":
		return "transport failure after " + call.Class + ": " + strings.SplitN(d.NoResponse, "\n", 2)[0]
	case !settled:
		return "hook end not observed within 3 s after " + call.Class
	}
	return ""
}

func (e *Env) post(d *Dispatch, do func(hdr map[string]string) wire.HTTPResp, call Call, res *Result, next *int) (wire.HTTPResp, bool) {
	res.Dispatches = append(res.Dispatches, d)
	d.Class, d.Method = call.Class, call.Method
	d.Mode, d.Trace = call.ModeAt(d.Leg), call.TraceAt(d.Leg)
	e.Rec.SetMode(d.Mode)
	from := *next
	hdr := map[string]string{}
	if d.Trace != nil {
		hdr["Traceparent"] = d.Trace.Parent
		if d.Trace.State != "" {
			hdr["Tracestate"] = d.Trace.State
		}
	}
	if call.Sticky && d.LegKind != "init" {
		// a stream presents the garbage session on its first continuation, a unary call at once
		hdr["VGI-Session"] = "Z2FyYmFnZS1zZXNzaW9uLXRva2Vu"
	}
	d.Header = hdr
	resp := do(hdr)
	d.Status = resp.Status
	for _, s := range resp.Obs.Streams {
		d.RespErr = d.RespErr || s.HasError()
	}
	d.RespErr = d.RespErr || resp.Status >= 400 || resp.RPCError
	norm := Norm
	if call.BadToken != "" && d.Leg == 1 {
		// which check refuses a token with one flipped character depends on the (random) token
		norm.DropErrDetail = true
	}
	d.Key = fmt.Sprintf("status=%d rpc_error=%v\n%s", resp.Status, resp.RPCError, capSizes.ReplaceAllString(resp.Obs.Key(norm), "(n > cap)"))
	switch {
	case resp.Panic != "":
		d.NoResponse = "panic out of ServeHTTP: " + resp.Panic
	case resp.Err != "":
		d.NoResponse = "transport: " + resp.Err
		res.Inconclusive = "HTTP client error on the listener after " + call.Class + ": " + resp.Err
	}
	d.Witness = map[string]any{"status": resp.Status, "rpc_error_header": resp.RPCError, "body_b64": gen.B64(resp.Body)}
	settled := e.finish(d, from)
	*next = d.EvTo
	return resp, settled && d.NoResponse == ""
}

func (e *Env) httpCall(ci int, call Call, res *Result, next *int) (stop string) {
	q := call.req()
	if q.Params != nil {
		defer q.Params.Release()
	}
	fail := func(d *Dispatch) string {
		if d.NoResponse != "" {
			return "no HTTP response after " + call.Class + ": " + d.NoResponse
		}
		return "hook end not observed within 3 s after " + call.Class
	}
	if !strings.HasPrefix(call.Class, "stream:") {
		d := &Dispatch{Call: ci, LegKind: "unary", Demand: pipeDemand(call.Class)}
		if _, ok := e.post(d, func(h map[string]string) wire.HTTPResp { return e.ht.Unary(q, h) }, call, res, next); !ok {
			return fail(d)
		}
		return ""
	}
	d := &Dispatch{Call: ci, LegKind: "init", Demand: pipeDemand(call.Class)}
	resp, ok := e.post(d, func(h map[string]string) wire.HTTPResp { return e.ht.Init(q, h) }, call, res, next)
	if !ok {
		return fail(d)
	}
	stream, callTok := resp.Obs.Tokens()
	leg := 0
	for k := 0; k < len(call.Inputs) && stream != ""; k++ {
		leg++
		t := wire.Turn{Method: call.Method, StreamState: stream, CallState: callTok}
		d := &Dispatch{Call: ci, Leg: leg, LegKind: "exchange", Demand: true}
		if k == call.CancelAt {
			t.Cancel, d.LegKind = true, "cancel"
		} else if !call.Producer {
			t.Input = svc.BuildInput(call.Inputs[k], call.IVariant)
			defer t.Input.Release()
			if !svc.Castable(call.IVariant) {
				// refused while casting, before the tokens are looked at: the statement's
				// definition of "dispatched" does not clearly cover it
				d.Demand = false
			}
		}
		if k == 0 && call.BadToken != "" {
			d.Demand = false
			if call.BadToken == "missing" {
				t.StreamState, t.CallState = "", ""
			} else {
				b := []byte(t.StreamState)
				b[len(b)/2] ^= 0x01
				t.StreamState = string(b)
			}
		}
		resp, ok := e.post(d, func(h map[string]string) wire.HTTPResp { return e.ht.Exchange(t, h) }, call, res, next)
		if !ok {
			return fail(d)
		}
		if t.Cancel {
			break
		}
		stream, _ = resp.Obs.Tokens()
	}
	return ""
}
