package wm

import (
	"context"
	"encoding/json"
	"sync"

	"github.com/apache/arrow-go/v18/arrow"
	"github.com/apache/arrow-go/v18/arrow/array"

	"github.com/Query-farm/vgi-rpc-go/vgirpc"

	"verif/harness/internal/svc"
)

// Extra methods (all take svc.Params and run svc's scripted states): each one
// makes the call fail AFTER the user handler returned successfully, at a place
// user code can realistically cause.
//
//	wm_p_badhdr / wm_x_badhdr  stream with header; the returned header does not serialise
//	                           (its struct lacks a field its ArrowSchema declares)
//	wm_p_ungob / wm_x_ungob    the state type was never RegisterStateType'd: sealing it into an
//	                           HTTP state token fails (on a pipe nothing is ever sealed)
//	wm_p_late / wm_x_late      a registered state that becomes unsealable from turn Args.N on
//	                           (an interface field then holds an unregistered type)
//	wm_p_narrow / wm_x_narrow  at turn Args.N the state emits a batch with fewer columns than the
//	                           declared output schema (the exchange one with per-batch metadata):
//	                           the response writer refuses it
var ExtraMethods = map[string]svc.Method{
	"wm_p_badhdr": {Name: "wm_p_badhdr", Kind: "producer", Header: true},
	"wm_x_badhdr": {Name: "wm_x_badhdr", Kind: "exchange", Header: true},
	"wm_p_ungob":  {Name: "wm_p_ungob", Kind: "producer"},
	"wm_x_ungob":  {Name: "wm_x_ungob", Kind: "exchange"},
	"wm_p_late":   {Name: "wm_p_late", Kind: "producer"},
	"wm_x_late":   {Name: "wm_x_late", Kind: "exchange"},
	"wm_p_narrow": {Name: "wm_p_narrow", Kind: "producer"},
	"wm_x_narrow": {Name: "wm_x_narrow", Kind: "exchange"},
}

// MethodOf looks a method up in svc's family or the extras.
func MethodOf(name string) (svc.Method, bool) {
	if m, ok := svc.Methods[name]; ok {
		return m, true
	}
	m, ok := ExtraMethods[name]
	return m, ok
}

// BadHeader declares two columns but carries only one of them.
type BadHeader struct {
	Title string `arrow:"title"`
}

func (BadHeader) ArrowSchema() *arrow.Schema { return svc.HeaderSchema }

type (
	// UnregProducer / UnregExchange are deliberately never registered with gob.
	UnregProducer struct{ svc.ProducerState }
	UnregExchange struct{ svc.ExchangeState }
	// LateProducer / LateExchange are registered, but Extra receives an
	// unregistered value at turn FailTurn.
	LateProducer struct {
		svc.ProducerState
		FailTurn int
		Extra    any
	}
	LateExchange struct {
		svc.ExchangeState
		FailTurn int
		Extra    any
	}
	// NarrowProducer emits a one-column batch at turn FailTurn.
	NarrowProducer struct {
		svc.ProducerState
		FailTurn int
	}
	// NarrowExchange emits a one-column batch with metadata at turn FailTurn.
	NarrowExchange struct {
		svc.ExchangeState
		FailTurn int
	}
	lateBlob struct{ X int }
)

func (s *LateProducer) Produce(ctx context.Context, out *vgirpc.OutputCollector, cc *vgirpc.CallContext) error {
	if s.K >= s.FailTurn {
		s.Extra = lateBlob{X: s.K}
	}
	return s.ProducerState.Produce(ctx, out, cc)
}

func (s *LateExchange) Exchange(ctx context.Context, in arrow.RecordBatch, out *vgirpc.OutputCollector, cc *vgirpc.CallContext) error {
	if s.K >= s.FailTurn {
		s.Extra = lateBlob{X: s.K}
	}
	return s.ExchangeState.Exchange(ctx, in, out, cc)
}

var narrowSchema = arrow.NewSchema([]arrow.Field{{Name: "turn", Type: arrow.PrimitiveTypes.Int64}}, nil)

func narrowBatch(turn int) arrow.RecordBatch {
	b := array.NewInt64Builder(svc.Alloc)
	b.Append(int64(turn))
	col := b.NewArray()
	b.Release()
	rec := array.NewRecordBatch(narrowSchema, []arrow.Array{col}, 1)
	col.Release()
	return rec
}

func (s *NarrowProducer) Produce(ctx context.Context, out *vgirpc.OutputCollector, cc *vgirpc.CallContext) error {
	if s.K == s.FailTurn {
		s.K++
		return out.Emit(narrowBatch(s.FailTurn))
	}
	return s.ProducerState.Produce(ctx, out, cc)
}

func (s *NarrowExchange) Exchange(ctx context.Context, in arrow.RecordBatch, out *vgirpc.OutputCollector, cc *vgirpc.CallContext) error {
	if s.K == s.FailTurn {
		s.K++
		return out.EmitWithMetadata(narrowBatch(s.FailTurn), map[string]string{"vgi_batch_index": "0"})
	}
	return s.ExchangeState.Exchange(ctx, in, out, cc)
}

var registerOnce sync.Once

// RegisterExtras registers the extra methods on s.
func RegisterExtras(s *vgirpc.Server) {
	registerOnce.Do(func() {
		vgirpc.RegisterStateType(&LateProducer{})
		vgirpc.RegisterStateType(&LateExchange{})
		vgirpc.RegisterStateType(&NarrowProducer{})
		vgirpc.RegisterStateType(&NarrowExchange{})
	})
	vgirpc.ProducerWithHeader(s, "wm_p_badhdr", svc.OutSchema, svc.HeaderSchema, initExtra("wm_p_badhdr"))
	vgirpc.ExchangeWithHeader(s, "wm_x_badhdr", svc.OutSchema, svc.InSchema, svc.HeaderSchema, initExtra("wm_x_badhdr"))
	vgirpc.Producer(s, "wm_p_ungob", svc.OutSchema, initExtra("wm_p_ungob"))
	vgirpc.Exchange(s, "wm_x_ungob", svc.OutSchema, svc.InSchema, initExtra("wm_x_ungob"))
	vgirpc.Producer(s, "wm_p_late", svc.OutSchema, initExtra("wm_p_late"))
	vgirpc.Exchange(s, "wm_x_late", svc.OutSchema, svc.InSchema, initExtra("wm_x_late"))
	vgirpc.Producer(s, "wm_p_narrow", svc.OutSchema, initExtra("wm_p_narrow"))
	vgirpc.Exchange(s, "wm_x_narrow", svc.OutSchema, svc.InSchema, initExtra("wm_x_narrow"))
}

func initExtra(method string) func(context.Context, *vgirpc.CallContext, svc.Params) (*vgirpc.StreamResult, error) {
	return func(_ context.Context, _ *vgirpc.CallContext, p svc.Params) (*vgirpc.StreamResult, error) {
		var s svc.Script
		if err := json.Unmarshal(p.Script, &s); err != nil {
			return nil, &vgirpc.RpcError{Type: "ScriptError", Message: err.Error()}
		}
		core := svc.Core{S: s, Method: method}
		res := &vgirpc.StreamResult{OutputSchema: svc.OutSchema}
		ft := int(p.N)
		switch method {
		case "wm_p_badhdr":
			res.State, res.Header = &svc.ProducerState{Core: core}, BadHeader{Title: "t"}
		case "wm_x_badhdr":
			res.State, res.Header, res.InputSchema = &svc.ExchangeState{Core: core}, BadHeader{Title: "t"}, svc.InSchema
		case "wm_p_ungob":
			res.State = &UnregProducer{svc.ProducerState{Core: core}}
		case "wm_x_ungob":
			res.State, res.InputSchema = &UnregExchange{svc.ExchangeState{Core: core}}, svc.InSchema
		case "wm_p_late":
			res.State = &LateProducer{ProducerState: svc.ProducerState{Core: core}, FailTurn: ft}
		case "wm_x_late":
			res.State, res.InputSchema = &LateExchange{ExchangeState: svc.ExchangeState{Core: core}, FailTurn: ft}, svc.InSchema
		case "wm_p_narrow":
			res.State = &NarrowProducer{ProducerState: svc.ProducerState{Core: core}, FailTurn: ft}
		case "wm_x_narrow":
			res.State, res.InputSchema = &NarrowExchange{ExchangeState: svc.ExchangeState{Core: core}, FailTurn: ft}, svc.InSchema
		}
		return res, nil
	}
}
