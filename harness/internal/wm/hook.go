// Package wm holds the shared driver of the C37 / C43 checks (worker wM): a
// recording DispatchHook with scripted misbehaviour, a handful of extra
// methods whose failures happen AFTER the user handler ran (header
// serialisation, state-token sealing, output-writer refusal), and a history
// driver that issues the same abstract call history over a pipe, a Unix
// socket and HTTP through the independent reference client (internal/wire)
// against the scripted services of internal/svc.
package wm

import (
	"context"
	"fmt"
	"sync"
	"time"

	"github.com/Query-farm/vgi-rpc-go/vgirpc"
)

// Hook behaviours.
const (
	ModeNormal     = "normal"
	ModePanicStart = "panic-start"
	ModePanicEnd   = "panic-end"
	ModePanicBoth  = "panic-both"
	ModeNilCtx     = "nil-ctx"
)

// Modes lists every hook behaviour.
var Modes = []string{ModeNormal, ModePanicStart, ModePanicEnd, ModePanicBoth, ModeNilCtx}

// token is what Rec hands to the framework. Every issued token stays
// referenced by Rec.toks, so pointer identity can never be recycled.
type token struct {
	id    int64
	mode  string
	inner vgirpc.HookToken
}

// Ev is one observed hook invocation.
type Ev struct {
	Seq         int    `json:"seq"`
	Kind        string `json:"kind"` // "start" | "end"
	Tok         int64  `json:"tok"`  // id of the token issued (start) / recognised by pointer identity (end); 0 = not one of ours
	Foreign     string `json:"foreign_token,omitempty"`
	Method      string `json:"method"`
	MethodType  string `json:"method_type"`
	RequestID   string `json:"request_id,omitempty"`
	StreamID    string `json:"stream_id,omitempty"`
	Cancelled   bool   `json:"cancelled,omitempty"`
	Mode        string `json:"mode"`
	Panicked    bool   `json:"panicked,omitempty"` // the hook panicked in this invocation (scripted)
	HasErr      bool   `json:"has_err"`
	Err         string `json:"err,omitempty"`
	CtxLost     bool   `json:"ctx_lost,omitempty"`    // end: the context does not descend from the one start returned
	Traceparent string `json:"traceparent,omitempty"` // start: TransportMetadata["traceparent"]
}

type ctxKey struct{}

// Rec is a vgirpc.DispatchHook that records every invocation, misbehaves on
// request (SetMode) and optionally delegates to an inner hook (the
// OpenTelemetry hook for C43). It is safe for concurrent use.
type Rec struct {
	Inner vgirpc.DispatchHook

	mu   sync.Mutex
	cond *sync.Cond
	mode string
	n    int64
	evs  []Ev
	toks map[*token]int64
	done map[int64]bool // token id -> OnDispatchEnd (including the inner hook's) has returned or panicked
}

// NewRec returns a recorder in ModeNormal.
func NewRec(inner vgirpc.DispatchHook) *Rec {
	h := &Rec{Inner: inner, mode: ModeNormal, toks: map[*token]int64{}, done: map[int64]bool{}}
	h.cond = sync.NewCond(&h.mu)
	return h
}

// SetMode selects the behaviour of the NEXT OnDispatchStart (the matching
// OnDispatchEnd keeps the mode its start saw).
func (h *Rec) SetMode(m string) { h.mu.Lock(); h.mode = m; h.mu.Unlock() }

// Mark returns the number of events recorded so far.
func (h *Rec) Mark() int { h.mu.Lock(); defer h.mu.Unlock(); return len(h.evs) }

// Events returns a copy of evs[from:to] (to < 0: up to now).
func (h *Rec) Events(from, to int) []Ev {
	h.mu.Lock()
	defer h.mu.Unlock()
	if to < 0 || to > len(h.evs) {
		to = len(h.evs)
	}
	if from > to {
		from = to
	}
	return append([]Ev(nil), h.evs[from:to]...)
}

// settledLocked: every start in evs[from:] that returned normally has had its
// end hook return.
func (h *Rec) settledLocked(from int) bool {
	for _, e := range h.evs[from:] {
		if e.Kind == "start" && !e.Panicked && !h.done[e.Tok] {
			return false
		}
	}
	return true
}

// WaitSettled waits (at most d) until every normally returned start recorded
// at or after mark has seen its end hook return. It is a synchronisation aid
// only: a false result is never a verdict, the caller then establishes
// quiescence by other means (session end) and looks again.
func (h *Rec) WaitSettled(mark int, d time.Duration) bool {
	deadline := time.Now().Add(d)
	h.mu.Lock()
	defer h.mu.Unlock()
	for !h.settledLocked(mark) {
		left := time.Until(deadline)
		if left <= 0 {
			return false
		}
		t := time.AfterFunc(left, func() { h.mu.Lock(); h.cond.Broadcast(); h.mu.Unlock() })
		h.cond.Wait()
		t.Stop()
	}
	return true
}

func (h *Rec) OnDispatchStart(ctx context.Context, info vgirpc.DispatchInfo) (context.Context, vgirpc.HookToken) {
	h.mu.Lock()
	h.n++
	tk := &token{id: h.n, mode: h.mode}
	h.toks[tk] = tk.id
	panics := tk.mode == ModePanicStart || tk.mode == ModePanicBoth
	h.evs = append(h.evs, Ev{Seq: len(h.evs), Kind: "start", Tok: tk.id, Method: info.Method, MethodType: info.MethodType,
		RequestID: info.RequestID, StreamID: info.StreamID, Cancelled: info.Cancelled, Mode: tk.mode, Panicked: panics,
		Traceparent: info.TransportMetadata["traceparent"]})
	h.cond.Broadcast()
	h.mu.Unlock()
	if panics {
		panic("wm: scripted panic in OnDispatchStart")
	}
	out := ctx
	if h.Inner != nil {
		out, tk.inner = h.Inner.OnDispatchStart(ctx, info)
	}
	if tk.mode == ModeNilCtx {
		return nil, tk
	}
	if out == nil {
		out = ctx
	}
	return context.WithValue(out, ctxKey{}, tk.id), tk
}

func (h *Rec) OnDispatchEnd(ctx context.Context, tok vgirpc.HookToken, info vgirpc.DispatchInfo, stats *vgirpc.CallStatistics, err error) {
	tk, _ := tok.(*token)
	h.mu.Lock()
	id, known := h.toks[tk]
	mode := h.mode
	if known {
		mode = tk.mode
	}
	panics := mode == ModePanicEnd || mode == ModePanicBoth
	ev := Ev{Seq: len(h.evs), Kind: "end", Tok: id, Method: info.Method, MethodType: info.MethodType, RequestID: info.RequestID,
		StreamID: info.StreamID, Cancelled: info.Cancelled, Mode: mode, Panicked: panics, HasErr: err != nil}
	if !known {
		ev.Foreign = fmt.Sprintf("%T(%v)", tok, tok)
	}
	if err != nil {
		ev.Err = fmt.Sprintf("%T: %v", err, err)
	}
	if known && mode != ModeNilCtx {
		var v int64
		if ctx != nil {
			v, _ = ctx.Value(ctxKey{}).(int64)
		}
		ev.CtxLost = v != id
	}
	h.evs = append(h.evs, ev)
	h.mu.Unlock()
	defer func() {
		h.mu.Lock()
		if known {
			h.done[id] = true
		}
		h.cond.Broadcast()
		h.mu.Unlock()
	}()
	if h.Inner != nil {
		in := tok
		if known {
			in = tk.inner
		}
		h.Inner.OnDispatchEnd(ctx, in, info, stats, err)
	}
	if panics {
		panic("wm: scripted panic in OnDispatchEnd")
	}
}
