package wm

import (
	"fmt"
	"math/rand/v2"
	"strings"

	"verif/harness/internal/svc"
)

const (
	ServerProto = "1.4.2"
	GoodProto   = "1.4.9"
	MaxResp     = 64 << 10 // HTTP body cap of every HTTP server the driver builds
)

// Trace is a W3C trace context the client sends with one request.
type Trace struct {
	Parent  string `json:"traceparent"`
	State   string `json:"tracestate,omitempty"`
	Kind    string `json:"kind"`
	Valid   bool   `json:"valid"` // Parent is a well-formed version-00 traceparent (decided by ValidTraceparent, not by the SDK)
	TraceID string `json:"trace_id,omitempty"`
	SpanID  string `json:"span_id,omitempty"`
	Sampled bool   `json:"sampled,omitempty"`
}

// Call is one abstract call of a history; the drivers turn it into one pipe
// dispatch or into one HTTP request per leg (unary | init, exchange...).
type Call struct {
	Class     string          `json:"class"`
	Method    string          `json:"method"`
	Script    svc.Script      `json:"script"`
	Args      svc.Args        `json:"args"`
	PVariant  string          `json:"param_variant,omitempty"`
	Proto     string          `json:"protocol_version,omitempty"`
	Producer  bool            `json:"producer,omitempty"`
	IVariant  string          `json:"input_variant,omitempty"`
	Inputs    []svc.InputSpec `json:"inputs,omitempty"`
	CancelAt  int             `json:"cancel_at"`
	RequestID string          `json:"request_id"`
	Modes     []string        `json:"hook_modes,omitempty"` // per leg, cycled; empty = normal
	Traces    []*Trace        `json:"traces,omitempty"`     // per leg, cycled; empty = none
	BadToken  string          `json:"bad_token,omitempty"`  // HTTP: "corrupt" | "missing" on the first continuation
	Sticky    bool            `json:"garbage_session_header,omitempty"`
}

// ModeAt / TraceAt give the scripted hook behaviour / trace context of leg k.
func (c Call) ModeAt(k int) string {
	if len(c.Modes) == 0 {
		return ModeNormal
	}
	return c.Modes[k%len(c.Modes)]
}
func (c Call) TraceAt(k int) *Trace {
	if len(c.Traces) == 0 {
		return nil
	}
	return c.Traces[k%len(c.Traces)]
}

// Cfg is the server configuration of a history.
type Cfg struct {
	ProtoSet   bool `json:"protocol_version_set"`
	BatchLimit int  `json:"producer_batch_limit"` // HTTP
	Sticky     bool `json:"sticky_enabled"`       // HTTP
}

// History is a sequence of calls issued on one connection / one HTTP server.
type History struct {
	Index     int    `json:"index"`
	Transport string `json:"transport"` // pipe | unix | http | http-net
	Cfg       Cfg    `json:"cfg"`
	Calls     []Call `json:"calls"`
}

// IsHTTP reports whether the transport is one of the HTTP ones.
func IsHTTP(t string) bool { return strings.HasPrefix(t, "http") }

// Classes of calls. The first call of history i is Classes[i mod len] (after
// the transport filter), so every class gets its quota by construction.
var Classes = []string{
	"unary:value", "unary:void", "unary:error", "unary:panic", "unary:param-mismatch",
	"unary:unknown-method", "unary:proto-refused", "describe",
	"stream:complete", "stream:early-eos", "stream:zero-inputs", "stream:cancel", "stream:not-castable",
	"stream:init-error", "stream:init-panic", "stream:init-nil", "stream:init-badstate",
	"stream:turn-error", "stream:turn-panic", "stream:turn-none", "stream:turn-emit2", "stream:turn-finish",
	"stream:param-mismatch", "stream:proto-refused",
	"stream:hdr-fail", "stream:ungob", "stream:late",
	// the handler fails with a *vgirpc.RpcError whose Type is empty: bare, wrapped with %w, carrying only a Kind
	"unary:untyped-bare", "unary:untyped-wrapped", "unary:untyped-kind",
	"stream:init-untyped-bare", "stream:init-untyped-wrapped", "stream:init-untyped-kind",
	"stream:turn-untyped-bare", "stream:turn-untyped-wrapped", "stream:turn-untyped-kind",
	// HTTP only
	"stream:narrow", "unary:cap", "stream:cap", "unary:sticky-error", "stream:sticky-error", "stream:bad-token", "stream:no-token",
}

// HTTPOnly classes have no counterpart on a pipe (caps, sticky sessions and
// tokens are HTTP features; a refused output batch ends a pipe session).
var HTTPOnly = map[string]bool{"stream:narrow": true, "unary:cap": true, "stream:cap": true, "unary:sticky-error": true,
	"stream:sticky-error": true, "stream:bad-token": true, "stream:no-token": true}

// PipeLast lists classes a pipe history issues only as its LAST call: on an
// unrepaired tree a header that does not serialise makes the pipe server write
// nothing at all and read the client's input stream as the next request, so
// the session is unusable afterwards (framing is C02's subject, not C37's).
var PipeLast = map[string]bool{"stream:hdr-fail": true}

// stripException removes EXCEPTION-level client logs: on the wire such a log
// IS an error report, whatever the handler returns afterwards.
func stripException(ls []svc.Log) []svc.Log {
	out := ls[:0:0]
	for _, l := range ls {
		if l.Level != "EXCEPTION" {
			out = append(out, l)
		}
	}
	return out
}

// UntypedClasses are the classes whose handler error is an RpcError with an
// empty Type (a failed call all the same: the EXCEPTION batch is on the wire).
var UntypedClasses = []string{"unary:untyped-bare", "unary:untyped-wrapped", "unary:untyped-kind",
	"stream:init-untyped-bare", "stream:init-untyped-wrapped", "stream:init-untyped-kind",
	"stream:turn-untyped-bare", "stream:turn-untyped-wrapped", "stream:turn-untyped-kind"}

// untypedErr scripts &vgirpc.RpcError{Type: "", ...}: "bare" returned as is,
// "wrapped" inside fmt.Errorf("...: %w"), "kind" with only Kind set.
func untypedErr(class string, rg *rand.Rand) svc.ErrSpec {
	e := svc.ErrSpec{Kind: "rpc", Type: "", Msg: fmt.Sprintf("untyped failure %d", rg.IntN(1000))}
	switch {
	case strings.HasSuffix(class, "-wrapped"):
		e.Kind = "wrapped-rpc"
	case strings.HasSuffix(class, "-kind"):
		e.EKind = []string{"some_kind", "quota_exceeded"}[rg.IntN(2)]
		if rg.IntN(2) == 0 {
			e.Msg = ""
		}
	}
	return e
}

func genCall(rg *rand.Rand, hidx, j int, class string, cfg Cfg) Call {
	c := Call{Class: class, CancelAt: -1, RequestID: fmt.Sprintf("h%d.c%d", hidx, j), Args: svc.GenArgs(rg)}
	id := fmt.Sprintf("wm-h%d-c%d", hidx, j)
	if cfg.ProtoSet {
		c.Proto = GoodProto
	}
	badProto := func() string { return []string{"", "2.0.0", "1.3.9", "1.4", "abc"}[rg.IntN(5)] }
	if strings.HasPrefix(class, "unary:") || class == "describe" {
		c.Method = svc.UnaryMethods[rg.IntN(len(svc.UnaryMethods)-1)]
		act := svc.ActValue
		switch class {
		case "unary:void":
			c.Method = "u_void"
		case "unary:error":
			act = svc.ActError
		case "unary:panic":
			act = svc.ActPanic
		case "unary:unknown-method":
			c.Method = []string{"no_such_method", "u_strx", "p_plainn"}[rg.IntN(3)]
		case "unary:param-mismatch":
			c.PVariant = svc.ParamVariants[1+rg.IntN(len(svc.ParamVariants)-1)]
		case "unary:proto-refused":
			c.Proto = badProto()
		case "describe":
			c.Method = "__describe__"
		case "unary:cap":
			c.Method = "u_str"
			c.Args.Tag = strings.Repeat("cap-", MaxResp/3)
		case "unary:sticky-error":
			c.Sticky = true
		case "unary:untyped-bare", "unary:untyped-wrapped", "unary:untyped-kind":
			act = svc.ActError
		}
		c.Script = svc.GenUnary(rg, id, act, 3)
		c.Script.ULogs = stripException(c.Script.ULogs)
		if strings.HasPrefix(class, "unary:untyped-") {
			c.Script.UErr = untypedErr(class, rg)
		}
		return c
	}
	c.Method = svc.StreamMethods[rg.IntN(len(svc.StreamMethods))]
	m := svc.Methods[c.Method]
	c.Producer = m.Kind == "producer" || (m.Kind == "dynamic" && rg.IntN(2) == 0)
	o := svc.StreamOpt{Producer: c.Producer, Turns: rg.IntN(6), FailAt: -1, MaxLogs: 2, NoCancel: rg.IntN(4) == 0}
	nIn := o.Turns + rg.IntN(3)
	c.IVariant = "exact"
	setMethod := func(name string) {
		c.Method = name
		mm, _ := MethodOf(name)
		m = mm
		c.Producer = mm.Kind == "producer"
		o.Producer = c.Producer
	}
	switch class {
	case "stream:early-eos":
		o.Turns = 1 + rg.IntN(5)
		nIn = rg.IntN(o.Turns)
	case "stream:zero-inputs":
		nIn = 0
	case "stream:cancel":
		nIn = 1 + rg.IntN(5)
		c.CancelAt = rg.IntN(nIn)
		if c.Producer && o.Turns <= c.CancelAt {
			o.Turns = c.CancelAt + 1
		}
	case "stream:not-castable":
		if c.Producer {
			setMethod([]string{"x_plain", "x_hdr"}[rg.IntN(2)])
		}
		c.IVariant = []string{"badname", "badtype", "extracol", "fewer"}[rg.IntN(4)]
		nIn = 1 + rg.IntN(3)
	case "stream:init-error":
		o.InitAct = svc.ActError
	case "stream:init-untyped-bare", "stream:init-untyped-wrapped", "stream:init-untyped-kind":
		o.InitAct = svc.ActError
	case "stream:turn-untyped-bare", "stream:turn-untyped-wrapped", "stream:turn-untyped-kind":
		o.Turns = 1 + rg.IntN(5)
		if nIn < o.Turns {
			nIn = o.Turns
		}
		o.FailAt = rg.IntN(o.Turns)
		o.FailAct = svc.ActError
	case "stream:init-panic":
		o.InitAct = svc.ActPanic
	case "stream:init-nil":
		o.InitAct = svc.ActNil
	case "stream:init-badstate":
		o.InitAct = svc.ActBadState
	case "stream:turn-error", "stream:turn-panic", "stream:turn-none", "stream:turn-emit2", "stream:turn-finish":
		o.Turns = 1 + rg.IntN(5)
		if nIn < o.Turns {
			nIn = o.Turns
		}
		o.FailAt = rg.IntN(o.Turns)
		switch class {
		case "stream:turn-error":
			o.FailAct = svc.ActError
		case "stream:turn-panic":
			o.FailAct = svc.ActPanic
		case "stream:turn-none":
			o.FailAct = svc.ActNone
		case "stream:turn-emit2":
			o.FailAct = svc.ActEmitTwice
		case "stream:turn-finish":
			if c.Producer {
				o.FailAct = []svc.Act{svc.ActFinish, svc.ActEmitFin}[rg.IntN(2)]
			} else {
				o.FailAct = []svc.Act{svc.ActFinishRet, svc.ActFinishIgn}[rg.IntN(2)]
			}
		}
	case "stream:param-mismatch":
		c.PVariant = svc.ParamVariants[1+rg.IntN(len(svc.ParamVariants)-1)]
	case "stream:proto-refused":
		c.Proto = badProto()
	case "stream:hdr-fail":
		setMethod([]string{"wm_p_badhdr", "wm_x_badhdr"}[rg.IntN(2)])
	case "stream:ungob":
		setMethod([]string{"wm_p_ungob", "wm_x_ungob"}[rg.IntN(2)])
		o.Turns = 1 + rg.IntN(5)
		nIn = o.Turns + 1
	case "stream:late":
		setMethod([]string{"wm_p_late", "wm_x_late"}[rg.IntN(2)])
		o.Turns = 2 + rg.IntN(5)
		nIn = o.Turns + 1
		c.Args.N = int64(rg.IntN(o.Turns + 1))
	case "stream:narrow":
		setMethod([]string{"wm_p_narrow", "wm_x_narrow"}[rg.IntN(2)])
		o.Turns = 1 + rg.IntN(5)
		nIn = o.Turns + 1
		c.Args.N = int64(rg.IntN(o.Turns))
	case "stream:cap":
		setMethod("x_plain")
		o.Turns, nIn = 2, 2
	case "stream:sticky-error":
		c.Sticky = true
		if nIn == 0 {
			nIn = 1
		}
	case "stream:bad-token", "stream:no-token":
		c.BadToken = map[string]string{"stream:bad-token": "corrupt", "stream:no-token": "missing"}[class]
		o.Turns = 2 + rg.IntN(4)
		nIn = o.Turns + 1
	}
	if c.Producer {
		c.IVariant = ""
	}
	c.Script = svc.GenStream(rg, id, o)
	switch {
	case strings.HasPrefix(class, "stream:init-untyped-"):
		c.Script.InitErr = untypedErr(class, rg)
	case strings.HasPrefix(class, "stream:turn-untyped-"):
		c.Script.Turns[o.FailAt].Err = untypedErr(class, rg)
	}
	if class == "stream:cap" {
		c.Script.Turns[rg.IntN(2)].Rows = 4000
	}
	if m.Kind != "dynamic" {
		c.Script.Producer = c.Producer
	}
	c.Inputs = svc.GenInputs(rg, nIn)
	if class == "stream:not-castable" {
		for k := range c.Inputs {
			if len(c.Inputs[k].X) == 0 {
				c.Inputs[k] = svc.InputSpec{X: []int64{int64(k) + 1}, W: []float64{0.5}}
			}
		}
	}
	return c
}

// GenOpt shapes GenHistory.
type GenOpt struct {
	MaxCalls int  // default 8
	Modes    bool // draw hook misbehaviour per leg (C37's variant run)
	Traces   bool // draw trace contexts per leg (C43)
}

// GenHistory generates history i for a transport. rng must be derived from i
// only, so the same index gives the same calls on every transport.
func GenHistory(rng *rand.Rand, i int, transport string, o GenOpt) History {
	if o.MaxCalls == 0 {
		o.MaxCalls = 8
	}
	h := History{Index: i, Transport: transport, Cfg: Cfg{ProtoSet: i%3 == 1, BatchLimit: []int{0, 1, 2, 3}[(i/3)%4], Sticky: i%5 < 2}}
	http := IsHTTP(transport)
	var pool []string
	for _, c := range Classes {
		if HTTPOnly[c] && !http {
			continue
		}
		pool = append(pool, c)
	}
	n := 1 + rng.IntN(o.MaxCalls)
	var last *Call
	for j := 0; j < n; j++ {
		class := pool[rng.IntN(len(pool))]
		if j == 0 {
			class = pool[(i/4)%len(pool)]
		}
		if strings.HasSuffix(class, "proto-refused") && !h.Cfg.ProtoSet {
			if j == 0 {
				h.Cfg.ProtoSet = true
			} else {
				class = strings.Replace(class, "proto-refused", "param-mismatch", 1)
			}
		}
		if strings.HasSuffix(class, "sticky-error") && !h.Cfg.Sticky {
			if j == 0 {
				h.Cfg.Sticky = true
			} else {
				class = strings.Replace(class, "sticky-error", "param-mismatch", 1)
			}
		}
		if transport == "unix" && PipeLast[class] {
			// on an unrepaired tree this call stalls; over a socket the stall is only seen
			// by a wall-clock timeout (an inconclusive), the in-process pipe sees it exactly
			class = "stream:complete"
		}
		rg := rand.New(rand.NewPCG(rng.Uint64(), uint64(j)+1))
		c := genCall(rg, i, j, class, h.Cfg)
		if o.Modes {
			legs := 1 + rg.IntN(4)
			for k := 0; k < legs; k++ {
				m := ModeNormal
				if rg.IntN(5) < 3 {
					m = Modes[1+rg.IntN(len(Modes)-1)]
				}
				c.Modes = append(c.Modes, m)
			}
		}
		if o.Traces {
			legs := 1 + rg.IntN(3)
			for k := 0; k < legs; k++ {
				c.Traces = append(c.Traces, GenTrace(rg))
			}
		}
		if !http && PipeLast[class] {
			// out-of-frame afterwards: keep it for the end of the session
			cc := c
			last = &cc
			continue
		}
		h.Calls = append(h.Calls, c)
	}
	if last != nil {
		h.Calls = append(h.Calls, *last)
	}
	return h
}

// ---------------------------------------------------------------------------
// Trace contexts

const lowerHex = "0123456789abcdef"

func randHex(rng *rand.Rand, n int) string {
	b := make([]byte, n)
	zero := true
	for i := range b {
		b[i] = lowerHex[rng.IntN(16)]
		if b[i] != '0' {
			zero = false
		}
	}
	if zero {
		b[n-1] = '1'
	}
	return string(b)
}

// TraceKinds lists what GenTrace draws from ("" = no trace context sent).
var TraceKinds = []string{"", "valid", "valid-unsampled", "valid+state", "valid+badstate",
	"bad:short", "bad:upper", "bad:zero-trace", "bad:zero-span", "bad:version-ff", "bad:nonhex", "bad:parts", "bad:garbage", "bad:trailing"}

// GenTrace draws a trace context (nil = none).
func GenTrace(rng *rand.Rand) *Trace {
	kind := TraceKinds[rng.IntN(len(TraceKinds))]
	if rng.IntN(3) == 0 {
		kind = []string{"valid", "valid-unsampled", "valid+state"}[rng.IntN(3)]
	}
	if kind == "" {
		return nil
	}
	tid, sid := randHex(rng, 32), randHex(rng, 16)
	t := &Trace{Kind: kind, Parent: "00-" + tid + "-" + sid + "-01"}
	switch kind {
	case "valid":
	case "valid-unsampled":
		t.Parent = "00-" + tid + "-" + sid + "-00"
	case "valid+state":
		t.State = "vendor1=opaque" + randHex(rng, 4) + ",v2=x"
	case "valid+badstate":
		t.State = []string{"=,=", "no equals sign", "k=v,,=", "UPPER=v"}[rng.IntN(4)]
	case "bad:short":
		t.Parent = "00-" + tid[:31] + "-" + sid + "-01"
	case "bad:upper":
		t.Parent = "00-" + strings.ToUpper(tid[:31]) + "A-" + sid + "-01"
	case "bad:zero-trace":
		t.Parent = "00-" + strings.Repeat("0", 32) + "-" + sid + "-01"
	case "bad:zero-span":
		t.Parent = "00-" + tid + "-" + strings.Repeat("0", 16) + "-01"
	case "bad:version-ff":
		t.Parent = "ff-" + tid + "-" + sid + "-01"
	case "bad:nonhex":
		t.Parent = "00-" + tid[:30] + "zz-" + sid + "-01"
	case "bad:parts":
		t.Parent = "00-" + tid + "-" + sid
	case "bad:garbage":
		t.Parent = []string{"garbage", "-", "00", "00-00-00-00", "traceparent"}[rng.IntN(5)]
	case "bad:trailing":
		t.Parent = "00-" + tid + "-" + sid + "-01-extra"
	}
	t.TraceID, t.SpanID, t.Sampled, t.Valid = ValidTraceparent(t.Parent)
	return t
}

func isLowerHex(s string) bool {
	for i := 0; i < len(s); i++ {
		if strings.IndexByte(lowerHex, s[i]) < 0 {
			return false
		}
	}
	return true
}

// ValidTraceparent is the harness's own reading of the W3C Trace Context
// header for version 00: 00-<32 lower hex, not all zero>-<16 lower hex, not
// all zero>-<2 lower hex>, nothing else.
func ValidTraceparent(s string) (traceID, spanID string, sampled, ok bool) {
	if len(s) != 55 || s[:3] != "00-" || s[35] != '-' || s[52] != '-' {
		return "", "", false, false
	}
	tid, sid, fl := s[3:35], s[36:52], s[53:55]
	if !isLowerHex(tid) || !isLowerHex(sid) || !isLowerHex(fl) || strings.Trim(tid, "0") == "" || strings.Trim(sid, "0") == "" {
		return "", "", false, false
	}
	lo := strings.IndexByte(lowerHex, fl[1])
	return tid, sid, lo&1 == 1, true
}
