// Package gen holds the seeded generators shared by the checks: Arrow schemas
// and batches (incl. edge values, nulls, sliced arrays, nested and dictionary
// types), a canonical JSON rendering used as an independent equality oracle,
// IPC helpers and byte/Arrow-level mutators.
package gen

import (
	"bytes"
	"encoding/base64"
	"encoding/json"
	"fmt"
	"math"
	"math/rand/v2"
	"sort"
	"strings"

	"github.com/apache/arrow-go/v18/arrow"
	"github.com/apache/arrow-go/v18/arrow/array"
	"github.com/apache/arrow-go/v18/arrow/decimal128"
	"github.com/apache/arrow-go/v18/arrow/ipc"
	"github.com/apache/arrow-go/v18/arrow/memory"
)

// Mem is the allocator used for generated data (plain Go allocator; checks
// that need leak accounting pass their own).
var Mem memory.Allocator = memory.NewGoAllocator()

// SchemaOpt bounds schema generation.
type SchemaOpt struct {
	MaxCols    int  // default 6
	MaxDepth   int  // nesting depth for list/struct/map (default 2)
	Dict       bool // allow dictionary<int, utf8> columns
	Nested     bool // allow list/struct/map
	MinCols    int
	FlatOnly   bool // only primitive fixed/var width types
	NoNullable bool
}

var names = []string{"a", "b", "c", "id", "value", "name", "x", "y", "ts", "flag", "payload", "k", "v", "données", "名前", "col_0", "n", "s", "result", "count"}

// Schema generates a schema with distinct field names.
func Schema(rng *rand.Rand, o SchemaOpt) *arrow.Schema {
	if o.MaxCols == 0 {
		o.MaxCols = 6
	}
	if o.MaxDepth == 0 {
		o.MaxDepth = 2
	}
	n := o.MinCols
	if o.MaxCols > o.MinCols {
		n += rng.IntN(o.MaxCols - o.MinCols + 1)
	}
	perm := rng.Perm(len(names))
	fields := make([]arrow.Field, n)
	for i := range fields {
		name := names[perm[i%len(names)]]
		if i >= len(names) {
			name = fmt.Sprintf("%s_%d", name, i)
		}
		fields[i] = arrow.Field{Name: name, Type: DataType(rng, o, o.MaxDepth), Nullable: !o.NoNullable && rng.IntN(3) != 0}
	}
	return arrow.NewSchema(fields, nil)
}

// DataType generates one data type.
func DataType(rng *rand.Rand, o SchemaOpt, depth int) arrow.DataType {
	prims := []arrow.DataType{
		arrow.FixedWidthTypes.Boolean,
		arrow.PrimitiveTypes.Int8, arrow.PrimitiveTypes.Int16, arrow.PrimitiveTypes.Int32, arrow.PrimitiveTypes.Int64,
		arrow.PrimitiveTypes.Uint8, arrow.PrimitiveTypes.Uint16, arrow.PrimitiveTypes.Uint32, arrow.PrimitiveTypes.Uint64,
		arrow.PrimitiveTypes.Float32, arrow.PrimitiveTypes.Float64,
		arrow.BinaryTypes.String, arrow.BinaryTypes.Binary,
		arrow.BinaryTypes.LargeString, arrow.BinaryTypes.LargeBinary,
		arrow.FixedWidthTypes.Date32,
		arrow.FixedWidthTypes.Timestamp_us, arrow.FixedWidthTypes.Timestamp_ms, arrow.FixedWidthTypes.Timestamp_s, arrow.FixedWidthTypes.Timestamp_ns,
		&arrow.TimestampType{Unit: arrow.Microsecond},
		arrow.FixedWidthTypes.Time64us,
		arrow.FixedWidthTypes.Duration_us,
		&arrow.FixedSizeBinaryType{ByteWidth: 1 + rng.IntN(8)},
		&arrow.Decimal128Type{Precision: 20, Scale: 4},
	}
	k := rng.IntN(100)
	switch {
	case o.Nested && !o.FlatOnly && depth > 0 && k < 10:
		return arrow.ListOf(DataType(rng, o, depth-1))
	case o.Nested && !o.FlatOnly && depth > 0 && k < 18:
		nf := 1 + rng.IntN(3)
		fs := make([]arrow.Field, nf)
		for i := range fs {
			fs[i] = arrow.Field{Name: fmt.Sprintf("f%d", i), Type: DataType(rng, o, depth-1), Nullable: true}
		}
		return arrow.StructOf(fs...)
	case o.Nested && !o.FlatOnly && depth > 0 && k < 23:
		return arrow.MapOf(arrow.BinaryTypes.String, DataType(rng, o, depth-1))
	case o.Dict && !o.FlatOnly && k < 30:
		idx := []arrow.DataType{arrow.PrimitiveTypes.Int8, arrow.PrimitiveTypes.Int16, arrow.PrimitiveTypes.Int32}[rng.IntN(3)]
		return &arrow.DictionaryType{IndexType: idx, ValueType: arrow.BinaryTypes.String}
	}
	return prims[rng.IntN(len(prims))]
}

// BatchOpt bounds batch generation.
type BatchOpt struct {
	Rows      int // exact row count when >= 0 and FixedRows
	MaxRows   int // default 8
	FixedRows bool
	Slice     bool // sometimes build longer arrays and slice (offset != 0)
	Meta      arrow.Metadata
	Mem       memory.Allocator
}

// Batch generates a batch for a schema.
func Batch(rng *rand.Rand, schema *arrow.Schema, o BatchOpt) arrow.RecordBatch {
	mem := o.Mem
	if mem == nil {
		mem = Mem
	}
	rows := o.Rows
	if !o.FixedRows {
		mr := o.MaxRows
		if mr == 0 {
			mr = 8
		}
		rows = rng.IntN(mr + 1)
	}
	cols := make([]arrow.Array, schema.NumFields())
	for i, f := range schema.Fields() {
		if o.Slice && rng.IntN(3) == 0 {
			pre := 1 + rng.IntN(3)
			full := Array(rng, mem, f.Type, rows+pre+rng.IntN(2), f.Nullable)
			cols[i] = array.NewSlice(full, int64(pre), int64(pre+rows))
			full.Release()
		} else {
			cols[i] = Array(rng, mem, f.Type, rows, f.Nullable)
		}
	}
	var rec arrow.RecordBatch
	if o.Meta.Len() > 0 {
		rec = array.NewRecordBatchWithMetadata(schema, cols, int64(rows), o.Meta)
	} else {
		rec = array.NewRecordBatch(schema, cols, int64(rows))
	}
	for _, c := range cols {
		c.Release()
	}
	return rec
}

var edgeStrings = []string{"", "a", "hello", "héllo wörld", "日本語", "\U0001F600", "a\x00b", " leading", "trailing ", "\"quoted\"", "line\nbreak", strings.Repeat("x", 300)}

func genString(rng *rand.Rand) string {
	if rng.IntN(3) == 0 {
		return edgeStrings[rng.IntN(len(edgeStrings))]
	}
	n := rng.IntN(12)
	b := make([]byte, n)
	for i := range b {
		b[i] = byte('a' + rng.IntN(26))
	}
	return string(b)
}

func genBytes(rng *rand.Rand, n int) []byte {
	b := make([]byte, n)
	for i := range b {
		b[i] = byte(rng.IntN(256))
	}
	return b
}

func edgeInt(rng *rand.Rand, bits int, signed bool) int64 {
	if rng.IntN(3) != 0 {
		if signed {
			return rng.Int64N(2001) - 1000
		}
		return rng.Int64N(1000)
	}
	if signed {
		mx := int64(1)<<(bits-1) - 1
		return []int64{0, 1, -1, mx, -mx - 1, mx - 1}[rng.IntN(6)]
	}
	if bits == 64 {
		return []int64{0, 1, math.MaxInt64, -1}[rng.IntN(4)] // -1 => MaxUint64 when cast
	}
	mx := int64(1)<<bits - 1
	return []int64{0, 1, mx, mx - 1}[rng.IntN(4)]
}

func edgeFloat(rng *rand.Rand) float64 {
	if rng.IntN(3) != 0 {
		return (rng.Float64() - 0.5) * 1e6
	}
	return []float64{0, math.Copysign(0, -1), 1, -1, math.NaN(), math.Inf(1), math.Inf(-1), math.MaxFloat64, math.SmallestNonzeroFloat64, 1e-300}[rng.IntN(10)]
}

// Array generates an array of n elements.
func Array(rng *rand.Rand, mem memory.Allocator, dt arrow.DataType, n int, nullable bool) arrow.Array {
	b := array.NewBuilder(mem, dt)
	defer b.Release()
	allNull := nullable && n > 0 && rng.IntN(12) == 0
	for i := 0; i < n; i++ {
		if nullable && (allNull || rng.IntN(5) == 0) {
			b.AppendNull()
			continue
		}
		appendValue(rng, b, dt)
	}
	return b.NewArray()
}

func appendValue(rng *rand.Rand, b array.Builder, dt arrow.DataType) {
	switch bb := b.(type) {
	case *array.BooleanBuilder:
		bb.Append(rng.IntN(2) == 0)
	case *array.Int8Builder:
		bb.Append(int8(edgeInt(rng, 8, true)))
	case *array.Int16Builder:
		bb.Append(int16(edgeInt(rng, 16, true)))
	case *array.Int32Builder:
		bb.Append(int32(edgeInt(rng, 32, true)))
	case *array.Int64Builder:
		bb.Append(edgeInt(rng, 64, true))
	case *array.Uint8Builder:
		bb.Append(uint8(edgeInt(rng, 8, false)))
	case *array.Uint16Builder:
		bb.Append(uint16(edgeInt(rng, 16, false)))
	case *array.Uint32Builder:
		bb.Append(uint32(edgeInt(rng, 32, false)))
	case *array.Uint64Builder:
		bb.Append(uint64(edgeInt(rng, 64, false)))
	case *array.Float32Builder:
		bb.Append(float32(edgeFloat(rng)))
	case *array.Float64Builder:
		bb.Append(edgeFloat(rng))
	case *array.StringBuilder:
		bb.Append(genString(rng))
	case *array.LargeStringBuilder:
		bb.Append(genString(rng))
	case *array.BinaryBuilder:
		bb.Append(genBytes(rng, rng.IntN(16)))
	case *array.FixedSizeBinaryBuilder:
		bb.Append(genBytes(rng, dt.(*arrow.FixedSizeBinaryType).ByteWidth))
	case *array.Date32Builder:
		bb.Append(arrow.Date32(edgeInt(rng, 32, true) % 200000))
	case *array.TimestampBuilder:
		bb.Append(arrow.Timestamp(edgeInt(rng, 64, true)))
	case *array.Time64Builder:
		bb.Append(arrow.Time64(rng.Int64N(86400000000)))
	case *array.DurationBuilder:
		bb.Append(arrow.Duration(edgeInt(rng, 64, true)))
	case *array.Decimal128Builder:
		bb.Append(decimal128.FromI64(edgeInt(rng, 64, true)))
	case *array.BinaryDictionaryBuilder:
		_ = bb.AppendString([]string{"red", "green", "blue", "", "ünï"}[rng.IntN(5)])
	case *array.ListBuilder:
		bb.Append(true)
		k := rng.IntN(4)
		et := dt.(*arrow.ListType).Elem()
		for j := 0; j < k; j++ {
			if rng.IntN(6) == 0 {
				bb.ValueBuilder().AppendNull()
			} else {
				appendValue(rng, bb.ValueBuilder(), et)
			}
		}
	case *array.StructBuilder:
		bb.Append(true)
		st := dt.(*arrow.StructType)
		for j := 0; j < st.NumFields(); j++ {
			if rng.IntN(6) == 0 {
				bb.FieldBuilder(j).AppendNull()
			} else {
				appendValue(rng, bb.FieldBuilder(j), st.Field(j).Type)
			}
		}
	case *array.MapBuilder:
		bb.Append(true)
		k := rng.IntN(3)
		mt := dt.(*arrow.MapType)
		seen := map[string]bool{}
		for j := 0; j < k; j++ {
			key := fmt.Sprintf("k%d", rng.IntN(50))
			if seen[key] {
				continue
			}
			seen[key] = true
			bb.KeyBuilder().(*array.StringBuilder).Append(key)
			if rng.IntN(6) == 0 {
				bb.ItemBuilder().AppendNull()
			} else {
				appendValue(rng, bb.ItemBuilder(), mt.ItemType())
			}
		}
	default:
		b.AppendNull()
	}
}

// ---------------------------------------------------------------------------
// Canonical rendering (independent equality oracle)

// Canon renders a batch (schema fingerprint + row values + custom metadata)
// as deterministic JSON. NaN renders as "NaN" so NaN == NaN; -0 renders "-0".
func Canon(rec arrow.RecordBatch) string {
	var sb strings.Builder
	sb.WriteString(SchemaFingerprint(rec.Schema()))
	sb.WriteString("|rows=")
	fmt.Fprintf(&sb, "%d|", rec.NumRows())
	for i := 0; i < int(rec.NumCols()); i++ {
		sb.WriteString(CanonArray(rec.Column(i)))
		sb.WriteByte(';')
	}
	if m, ok := rec.(arrow.RecordBatchWithMetadata); ok && m.Metadata().Len() > 0 {
		sb.WriteString("|meta=")
		sb.WriteString(CanonMeta(m.Metadata(), nil))
	}
	return sb.String()
}

// CanonValues is Canon without custom metadata.
func CanonValues(rec arrow.RecordBatch) string {
	var sb strings.Builder
	sb.WriteString(SchemaFingerprint(rec.Schema()))
	fmt.Fprintf(&sb, "|rows=%d|", rec.NumRows())
	for i := 0; i < int(rec.NumCols()); i++ {
		sb.WriteString(CanonArray(rec.Column(i)))
		sb.WriteByte(';')
	}
	return sb.String()
}

// CanonMeta renders metadata sorted by key, skipping keys in drop.
func CanonMeta(m arrow.Metadata, drop map[string]bool) string {
	type kv struct{ k, v string }
	var kvs []kv
	for i, k := range m.Keys() {
		if drop[k] {
			continue
		}
		kvs = append(kvs, kv{k, m.Values()[i]})
	}
	sort.SliceStable(kvs, func(i, j int) bool { return kvs[i].k < kvs[j].k })
	var sb strings.Builder
	for _, e := range kvs {
		fmt.Fprintf(&sb, "%q=%q,", e.k, e.v)
	}
	return sb.String()
}

// SchemaFingerprint renders field names, types, nullability (not metadata).
func SchemaFingerprint(s *arrow.Schema) string {
	var sb strings.Builder
	sb.WriteByte('{')
	for _, f := range s.Fields() {
		fmt.Fprintf(&sb, "%q:%s:%v,", f.Name, f.Type.String(), f.Nullable)
	}
	sb.WriteByte('}')
	return sb.String()
}

// CanonArray renders an array's logical values.
func CanonArray(a arrow.Array) string {
	var sb strings.Builder
	sb.WriteByte('[')
	for i := 0; i < a.Len(); i++ {
		canonValue(&sb, a, i)
		sb.WriteByte(',')
	}
	sb.WriteByte(']')
	return sb.String()
}

func canonFloat(sb *strings.Builder, f float64) {
	switch {
	case math.IsNaN(f):
		sb.WriteString("NaN")
	case f == 0 && math.Signbit(f):
		sb.WriteString("-0")
	default:
		fmt.Fprintf(sb, "%v", f)
	}
}

func canonValue(sb *strings.Builder, a arrow.Array, i int) {
	if a.IsNull(i) {
		sb.WriteString("null")
		return
	}
	switch x := a.(type) {
	case *array.Boolean:
		fmt.Fprintf(sb, "%v", x.Value(i))
	case *array.Int8:
		fmt.Fprintf(sb, "%d", x.Value(i))
	case *array.Int16:
		fmt.Fprintf(sb, "%d", x.Value(i))
	case *array.Int32:
		fmt.Fprintf(sb, "%d", x.Value(i))
	case *array.Int64:
		fmt.Fprintf(sb, "%d", x.Value(i))
	case *array.Uint8:
		fmt.Fprintf(sb, "%d", x.Value(i))
	case *array.Uint16:
		fmt.Fprintf(sb, "%d", x.Value(i))
	case *array.Uint32:
		fmt.Fprintf(sb, "%d", x.Value(i))
	case *array.Uint64:
		fmt.Fprintf(sb, "%d", x.Value(i))
	case *array.Float32:
		canonFloat(sb, float64(x.Value(i)))
	case *array.Float64:
		canonFloat(sb, x.Value(i))
	case *array.String:
		fmt.Fprintf(sb, "%q", x.Value(i))
	case *array.LargeString:
		fmt.Fprintf(sb, "%q", x.Value(i))
	case *array.Binary:
		fmt.Fprintf(sb, "b%x", x.Value(i))
	case *array.LargeBinary:
		fmt.Fprintf(sb, "b%x", x.Value(i))
	case *array.FixedSizeBinary:
		fmt.Fprintf(sb, "f%x", x.Value(i))
	case *array.Date32:
		fmt.Fprintf(sb, "d%d", int32(x.Value(i)))
	case *array.Date64:
		fmt.Fprintf(sb, "D%d", int64(x.Value(i)))
	case *array.Timestamp:
		fmt.Fprintf(sb, "t%d", int64(x.Value(i)))
	case *array.Time32:
		fmt.Fprintf(sb, "T%d", int32(x.Value(i)))
	case *array.Time64:
		fmt.Fprintf(sb, "T%d", int64(x.Value(i)))
	case *array.Duration:
		fmt.Fprintf(sb, "u%d", int64(x.Value(i)))
	case *array.Decimal128:
		v := x.Value(i)
		fmt.Fprintf(sb, "m%s", v.BigInt().String())
	case *array.Dictionary:
		canonValue(sb, x.Dictionary(), x.GetValueIndex(i))
	case *array.List:
		s, e := x.ValueOffsets(i)
		sb.WriteByte('[')
		for j := s; j < e; j++ {
			canonValue(sb, x.ListValues(), int(j))
			sb.WriteByte(',')
		}
		sb.WriteByte(']')
	case *array.LargeList:
		s, e := x.ValueOffsets(i)
		sb.WriteByte('[')
		for j := s; j < e; j++ {
			canonValue(sb, x.ListValues(), int(j))
			sb.WriteByte(',')
		}
		sb.WriteByte(']')
	case *array.Map:
		s, e := x.ValueOffsets(i)
		sb.WriteByte('{')
		for j := s; j < e; j++ {
			canonValue(sb, x.Keys(), int(j))
			sb.WriteByte(':')
			canonValue(sb, x.Items(), int(j))
			sb.WriteByte(',')
		}
		sb.WriteByte('}')
	case *array.Struct:
		sb.WriteByte('(')
		for j := 0; j < x.NumField(); j++ {
			canonValue(sb, x.Field(j), i)
			sb.WriteByte(',')
		}
		sb.WriteByte(')')
	case *array.Null:
		sb.WriteString("null")
	default:
		fmt.Fprintf(sb, "?%s", a.ValueStr(i))
	}
}

// ---------------------------------------------------------------------------
// IPC helpers

// IPCBytes serialises batches as one complete IPC stream (schema, batches, EOS).
func IPCBytes(schema *arrow.Schema, recs ...arrow.RecordBatch) []byte {
	var buf bytes.Buffer
	w := ipc.NewWriter(&buf, ipc.WithSchema(schema))
	for _, r := range recs {
		if err := w.Write(r); err != nil {
			panic(fmt.Sprintf("gen.IPCBytes: %v", err))
		}
	}
	if err := w.Close(); err != nil {
		panic(fmt.Sprintf("gen.IPCBytes close: %v", err))
	}
	return buf.Bytes()
}

// ReadIPC reads every batch of ONE IPC stream from data and returns them
// (retained) plus the number of bytes consumed.
func ReadIPC(data []byte) (schema *arrow.Schema, recs []arrow.RecordBatch, consumed int, err error) {
	br := bytes.NewReader(data)
	rd, e := ipc.NewReader(br)
	if e != nil {
		return nil, nil, 0, e
	}
	defer rd.Release()
	schema = rd.Schema()
	for rd.Next() {
		r := rd.RecordBatch()
		r.Retain()
		recs = append(recs, r)
	}
	if e := rd.Err(); e != nil {
		return schema, recs, len(data) - br.Len(), e
	}
	return schema, recs, len(data) - br.Len(), nil
}

// WithMeta returns rec re-wrapped with custom metadata (columns shared).
func WithMeta(rec arrow.RecordBatch, keys, vals []string) arrow.RecordBatch {
	return array.NewRecordBatchWithMetadata(rec.Schema(), rec.Columns(), rec.NumRows(), arrow.NewMetadata(keys, vals))
}

// MetaOf returns the custom metadata of a batch (empty if none).
func MetaOf(rec arrow.RecordBatch) arrow.Metadata {
	if m, ok := rec.(arrow.RecordBatchWithMetadata); ok {
		return m.Metadata()
	}
	return arrow.Metadata{}
}

// MetaMap returns custom metadata as a map.
func MetaMap(rec arrow.RecordBatch) map[string]string {
	m := MetaOf(rec)
	out := make(map[string]string, m.Len())
	for i, k := range m.Keys() {
		out[k] = m.Values()[i]
	}
	return out
}

// ---------------------------------------------------------------------------
// Byte-level mutators

// Mutation describes one byte-level mutation (for witnesses).
type Mutation struct {
	Kind string `json:"kind"`
	Pos  int    `json:"pos"`
	Arg  int    `json:"arg"`
}

// MutateBytes applies one random mutation and describes it.
func MutateBytes(rng *rand.Rand, in []byte) ([]byte, Mutation) {
	out := append([]byte(nil), in...)
	if len(out) == 0 {
		return []byte{byte(rng.IntN(256))}, Mutation{Kind: "insert", Pos: 0}
	}
	switch rng.IntN(7) {
	case 0: // bit flip
		p := rng.IntN(len(out))
		bit := rng.IntN(8)
		out[p] ^= 1 << bit
		return out, Mutation{"bitflip", p, bit}
	case 1: // byte set
		p := rng.IntN(len(out))
		v := rng.IntN(256)
		out[p] = byte(v)
		return out, Mutation{"byteset", p, v}
	case 2: // truncate
		p := rng.IntN(len(out))
		return out[:p], Mutation{"truncate", p, 0}
	case 3: // extend with noise
		n := 1 + rng.IntN(64)
		return append(out, genBytes(rng, n)...), Mutation{"extend", len(out), n}
	case 4: // splice: duplicate a region elsewhere
		a := rng.IntN(len(out))
		l := 1 + rng.IntN(min(64, len(out)-a))
		p := rng.IntN(len(out))
		res := append([]byte(nil), out[:p]...)
		res = append(res, out[a:a+l]...)
		res = append(res, out[p:]...)
		return res, Mutation{"splice", p, l}
	case 5: // delete region
		a := rng.IntN(len(out))
		l := 1 + rng.IntN(min(32, len(out)-a))
		return append(out[:a:a], out[a+l:]...), Mutation{"delete", a, l}
	default: // overwrite 4 bytes with an extreme little-endian integer
		if len(out) < 4 {
			out[0] ^= 0xff
			return out, Mutation{"bitflip", 0, 8}
		}
		p := rng.IntN(len(out) - 3)
		vals := [][]byte{{0xff, 0xff, 0xff, 0xff}, {0xff, 0xff, 0xff, 0x7f}, {0, 0, 0, 0x80}, {0, 0, 0, 0}, {1, 0, 0, 0}}
		k := rng.IntN(len(vals))
		copy(out[p:], vals[k])
		return out, Mutation{"int32", p, k}
	}
}

// B64 is a short helper for witnesses.
func B64(b []byte) string { return base64.StdEncoding.EncodeToString(b) }

// JSON renders v compactly for signatures/witnesses.
func JSON(v any) string {
	b, err := json.Marshal(v)
	if err != nil {
		return fmt.Sprintf("%+v", v)
	}
	return string(b)
}

// SchemaStrict renders a schema completely: field names, types (recursively,
// with child field names and nullability), nullability, field-level and
// schema-level key/value metadata (sorted by key). Two schemas are "equal in
// schema" in the strictest sense iff their SchemaStrict strings are equal.
func SchemaStrict(s *arrow.Schema) string {
	var sb strings.Builder
	sb.WriteByte('{')
	for _, f := range s.Fields() {
		strictField(&sb, f)
		sb.WriteByte(',')
	}
	sb.WriteByte('}')
	if s.HasMetadata() {
		sb.WriteString("meta=")
		sb.WriteString(CanonMeta(s.Metadata(), nil))
	}
	return sb.String()
}

func strictField(sb *strings.Builder, f arrow.Field) {
	fmt.Fprintf(sb, "%q:", f.Name)
	strictType(sb, f.Type)
	fmt.Fprintf(sb, ":null=%v", f.Nullable)
	if f.HasMetadata() {
		sb.WriteString(":meta=")
		sb.WriteString(CanonMeta(f.Metadata, nil))
	}
}

func strictType(sb *strings.Builder, dt arrow.DataType) {
	switch t := dt.(type) {
	case *arrow.ListType:
		sb.WriteString("list<")
		strictField(sb, t.ElemField())
		sb.WriteByte('>')
	case *arrow.LargeListType:
		sb.WriteString("large_list<")
		strictField(sb, t.ElemField())
		sb.WriteByte('>')
	case *arrow.FixedSizeListType:
		fmt.Fprintf(sb, "fixed_size_list[%d]<", t.Len())
		strictField(sb, t.ElemField())
		sb.WriteByte('>')
	case *arrow.MapType:
		sb.WriteString("map<")
		strictField(sb, t.KeyField())
		sb.WriteByte(';')
		strictField(sb, t.ItemField())
		fmt.Fprintf(sb, ";sorted=%v>", t.KeysSorted)
	case *arrow.StructType:
		sb.WriteString("struct<")
		for _, c := range t.Fields() {
			strictField(sb, c)
			sb.WriteByte(',')
		}
		sb.WriteByte('>')
	case *arrow.DictionaryType:
		sb.WriteString("dict<")
		strictType(sb, t.IndexType)
		sb.WriteByte(',')
		strictType(sb, t.ValueType)
		fmt.Fprintf(sb, ",ordered=%v>", t.Ordered)
	default:
		sb.WriteString(dt.String())
	}
}
