package mon

import (
	"runtime"
	"syscall"
)

var sigQuit = syscall.SIGQUIT

func runtimeStack(buf []byte) int { return runtime.Stack(buf, false) }
