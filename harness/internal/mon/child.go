package mon

import (
	"bufio"
	"encoding/binary"
	"fmt"
	"io"
	"os"
	"os/exec"
	"path/filepath"
	"strconv"
	"strings"
	"time"
)

// Crash-isolated case execution.
//
// Hostile inputs can kill the process in ways recover() never sees (runtime
// fatal errors, out-of-memory, SIGBUS). RunIsolated executes cases in a child
// copy of the current binary, journalling "case i starting" before each one,
// so a dead child is attributed to exactly one case; the parent then restarts
// a child on the remaining cases.
//
// Usage in a check's main():
//
//	mon.ChildMain(map[string]mon.ChildFunc{"decode": func(in []byte) []byte {...}})
//	// ^ returns immediately unless this process is a child
//	r := mon.Start("C03") ...
//	outs := mon.RunIsolated("decode", inputs, mon.ChildOpt{VMemKiB: 8<<20})

// ChildFunc handles one case in the child. It must not panic for a result to
// be reported as a normal output: a panic that escapes is caught by the child
// loop and reported as Panicked with the panic text and stack.
type ChildFunc func(input []byte) (output []byte)

// ChildOpt configures a child batch.
type ChildOpt struct {
	VMemKiB   int64         // ulimit -v for the child (0 = none). Do not use with -race builds.
	Timeout   time.Duration // wall-clock watchdog for one child process (default 10 min); firing is inconclusive, never a violation
	Env       []string      // extra KEY=VALUE
	BatchSize int           // cases per child process (default: all)
}

// Outcome is the result of one isolated case.
type Outcome struct {
	Index    int
	Output   []byte
	Panicked bool   // recovered panic escaped the ChildFunc
	Crashed  bool   // the child process died while running this case
	TimedOut bool   // watchdog fired while running this case (inconclusive)
	Detail   string // panic text / stderr tail
}

const (
	envChildKind = "VERIF_CHILD_KIND"
	envChildIn   = "VERIF_CHILD_IN"
	envChildOut  = "VERIF_CHILD_OUT"
	envChildJrnl = "VERIF_CHILD_JOURNAL"
	envChildFrom = "VERIF_CHILD_FROM"
)

// IsChild reports whether this process was started by RunIsolated.
func IsChild() bool { return os.Getenv(envChildKind) != "" }

// ChildMain runs the child loop and exits if this process is a child;
// otherwise it returns immediately.
func ChildMain(handlers map[string]ChildFunc) {
	kind := os.Getenv(envChildKind)
	if kind == "" {
		return
	}
	fn, ok := handlers[kind]
	if !ok {
		fmt.Fprintf(os.Stderr, "child: unknown kind %q\n", kind)
		os.Exit(90)
	}
	inputs, err := readFrames(os.Getenv(envChildIn))
	if err != nil {
		fmt.Fprintf(os.Stderr, "child: reading inputs: %v\n", err)
		os.Exit(91)
	}
	from, _ := strconv.Atoi(os.Getenv(envChildFrom))
	out, err := os.OpenFile(os.Getenv(envChildOut), os.O_WRONLY|os.O_APPEND|os.O_CREATE, 0o644)
	if err != nil {
		os.Exit(92)
	}
	jr, err := os.OpenFile(os.Getenv(envChildJrnl), os.O_WRONLY|os.O_APPEND|os.O_CREATE, 0o644)
	if err != nil {
		os.Exit(93)
	}
	for i := from; i < len(inputs); i++ {
		fmt.Fprintf(jr, "%d\n", i)
		res, panicked, detail := runOne(fn, inputs[i])
		var hdr [13]byte
		binary.LittleEndian.PutUint32(hdr[0:], uint32(i))
		if panicked {
			hdr[4] = 1
			res = []byte(detail)
		}
		binary.LittleEndian.PutUint64(hdr[5:], uint64(len(res)))
		buf := append(hdr[:], res...)
		if _, err := out.Write(buf); err != nil {
			os.Exit(94)
		}
	}
	os.Exit(0)
}

func runOne(fn ChildFunc, in []byte) (out []byte, panicked bool, detail string) {
	defer func() {
		if rv := recover(); rv != nil {
			panicked = true
			detail = fmt.Sprintf("panic: %v\n%s", rv, stack())
		}
	}()
	return fn(in), false, ""
}

func stack() string {
	buf := make([]byte, 8192)
	n := runtimeStack(buf)
	return string(buf[:n])
}

func writeFrames(path string, frames [][]byte) error {
	f, err := os.Create(path)
	if err != nil {
		return err
	}
	w := bufio.NewWriter(f)
	var hdr [8]byte
	for _, fr := range frames {
		binary.LittleEndian.PutUint64(hdr[:], uint64(len(fr)))
		w.Write(hdr[:])
		w.Write(fr)
	}
	if err := w.Flush(); err != nil {
		f.Close()
		return err
	}
	return f.Close()
}

func readFrames(path string) ([][]byte, error) {
	data, err := os.ReadFile(path)
	if err != nil {
		return nil, err
	}
	var out [][]byte
	for len(data) >= 8 {
		n := binary.LittleEndian.Uint64(data[:8])
		data = data[8:]
		if uint64(len(data)) < n {
			return nil, fmt.Errorf("truncated frame file")
		}
		out = append(out, data[:n:n])
		data = data[n:]
	}
	return out, nil
}

// RunIsolated runs every input through the named ChildFunc in child
// processes and returns one Outcome per input, in order.
func RunIsolated(kind string, inputs [][]byte, opt ChildOpt) ([]Outcome, error) {
	if opt.Timeout == 0 {
		opt.Timeout = 10 * time.Minute
	}
	bs := opt.BatchSize
	if bs <= 0 || bs > len(inputs) {
		bs = len(inputs)
	}
	outs := make([]Outcome, 0, len(inputs))
	for base := 0; base < len(inputs); base += bs {
		end := base + bs
		if end > len(inputs) {
			end = len(inputs)
		}
		part, err := runIsolatedBatch(kind, inputs[base:end], opt)
		if err != nil {
			return outs, err
		}
		for _, o := range part {
			o.Index += base
			outs = append(outs, o)
		}
	}
	return outs, nil
}

func runIsolatedBatch(kind string, inputs [][]byte, opt ChildOpt) ([]Outcome, error) {
	self, err := os.Executable()
	if err != nil {
		return nil, err
	}
	dir, err := os.MkdirTemp("", "verif-child-")
	if err != nil {
		return nil, err
	}
	defer os.RemoveAll(dir)
	inPath := filepath.Join(dir, "in")
	if err := writeFrames(inPath, inputs); err != nil {
		return nil, err
	}
	outs := make([]Outcome, len(inputs))
	for i := range outs {
		outs[i].Index = i
	}
	done := make([]bool, len(inputs))
	from := 0
	for attempt := 0; from < len(inputs); attempt++ {
		outPath := filepath.Join(dir, fmt.Sprintf("out%d", attempt))
		jrPath := filepath.Join(dir, fmt.Sprintf("jr%d", attempt))
		errPath := filepath.Join(dir, fmt.Sprintf("err%d", attempt))
		var cmd *exec.Cmd
		if opt.VMemKiB > 0 {
			cmd = exec.Command("sh", "-c", fmt.Sprintf("ulimit -v %d; exec \"$0\"", opt.VMemKiB), self)
		} else {
			cmd = exec.Command(self)
		}
		cmd.Env = append(os.Environ(),
			envChildKind+"="+kind, envChildIn+"="+inPath, envChildOut+"="+outPath,
			envChildJrnl+"="+jrPath, envChildFrom+"="+strconv.Itoa(from), "VERIF_NO_EVIDENCE=1")
		cmd.Env = append(cmd.Env, opt.Env...)
		ef, _ := os.Create(errPath)
		cmd.Stderr = ef
		cmd.Stdout = ef
		if err := cmd.Start(); err != nil {
			ef.Close()
			return nil, err
		}
		waitCh := make(chan error, 1)
		go func() { waitCh <- cmd.Wait() }()
		timedOut := false
		select {
		case <-waitCh:
		case <-time.After(opt.Timeout):
			timedOut = true
			_ = cmd.Process.Signal(sigQuit)
			select {
			case <-waitCh:
			case <-time.After(5 * time.Second):
				_ = cmd.Process.Kill()
				<-waitCh
			}
		}
		ef.Close()
		// Collect results.
		if data, err := os.ReadFile(outPath); err == nil {
			for len(data) >= 13 {
				idx := int(binary.LittleEndian.Uint32(data[0:]))
				pan := data[4] == 1
				n := binary.LittleEndian.Uint64(data[5:])
				data = data[13:]
				if uint64(len(data)) < n || idx < 0 || idx >= len(outs) {
					break
				}
				body := append([]byte(nil), data[:n]...)
				data = data[n:]
				if pan {
					outs[idx].Panicked = true
					outs[idx].Detail = string(body)
				} else {
					outs[idx].Output = body
				}
				done[idx] = true
			}
		}
		last := -1
		if data, err := os.ReadFile(jrPath); err == nil {
			lines := strings.Split(strings.TrimSpace(string(data)), "\n")
			if len(lines) > 0 && lines[len(lines)-1] != "" {
				last, _ = strconv.Atoi(lines[len(lines)-1])
			}
		}
		next := len(inputs)
		if last >= 0 && last < len(inputs) && !done[last] {
			// The child died (or was stopped) inside case `last`.
			tail := tailFile(errPath, 6000)
			if timedOut {
				outs[last].TimedOut = true
			} else {
				outs[last].Crashed = true
			}
			outs[last].Detail = tail
			done[last] = true
			next = last + 1
		} else if last == -1 && !timedOut {
			// Child died before journalling anything: harness problem.
			return nil, fmt.Errorf("child produced no journal: %s", tailFile(errPath, 2000))
		} else {
			// Normal completion, or timed out between cases.
			next = last + 1
			if timedOut && last == -1 {
				return nil, fmt.Errorf("child timed out before first case")
			}
		}
		// Anything before `next` that is still not done is a harness problem.
		for i := from; i < next && i < len(inputs); i++ {
			if !done[i] {
				outs[i].Crashed = true
				outs[i].Detail = "no result recorded for this case (child exited early): " + tailFile(errPath, 2000)
				done[i] = true
			}
		}
		from = next
	}
	return outs, nil
}

func tailFile(path string, n int) string {
	// The "fatal error:" / "panic:" line is at the top of a goroutine dump, the
	// faulting goroutine right below it: keep the head as well as the tail.
	if data, err := os.ReadFile(path); err == nil && len(data) > n {
		h := n / 2
		return string(data[:h]) + "\n...[snip]...\n" + string(data[len(data)-h:])
	}
	f, err := os.Open(path)
	if err != nil {
		return ""
	}
	defer f.Close()
	st, err := f.Stat()
	if err != nil {
		return ""
	}
	off := st.Size() - int64(n)
	if off < 0 {
		off = 0
	}
	_, _ = f.Seek(off, io.SeekStart)
	b, _ := io.ReadAll(f)
	return string(b)
}
