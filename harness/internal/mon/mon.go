// Package mon is the shared run/verdict/evidence layer of the /verif harness.
//
// Every check binary does:
//
//	r := mon.Start("C28")
//	defer r.Finish()            // writes evidence/<id>.json, prints verdict, exits
//	... r.Case(sig) / r.Violation(sig, what, witness) / r.Class(name) ...
//
// Verdicts are three-valued: violated (VIOLATION line, exit 1), held (exit 0),
// inconclusive (INCONCLUSIVE line, exit 0, inconclusive:true in the evidence).
// A violation whose signature matches a "known" entry of known_findings.json
// prints KNOWN-FINDING instead and does not fail the run.
package mon

import (
	"crypto/sha256"
	"encoding/binary"
	"encoding/json"
	"fmt"
	"math/rand/v2"
	"os"
	"path/filepath"
	"regexp"
	"runtime"
	"sort"
	"strconv"
	"strings"
	"sync"
	"sync/atomic"
	"time"
)

// Run is one execution of one property check. All methods are safe for
// concurrent use.
type Run struct {
	ID    string
	tier  string
	seed  int64
	root  string
	start time.Time
	level string

	replayPath string

	mu            sync.Mutex
	evals         int64
	distinct      map[[16]byte]struct{}
	samples       []any
	maxSamples    int
	classes       map[string]int64
	required      []string
	counters      map[string]int64
	extra         map[string]any
	assumptions   []string
	rule          string
	exhaustive    *bool
	violations    []violation
	violSigs      map[string]int
	knownHit      map[string]int
	inconclusive  []string
	findings      []finding
	finished      atomic.Bool
	maxViolations int
}

type violation struct {
	Signature string `json:"signature"`
	What      string `json:"what"`
	Replay    string `json:"replay"`
}

type finding struct {
	Property  string `json:"property"`
	Status    string `json:"status"` // "known" | "fixed"
	Commit    string `json:"commit,omitempty"`
	Signature string `json:"signature"` // regexp, anchored, matched against the violation signature
	What      string `json:"what"`
	re        *regexp.Regexp
}

// Root returns the /verif root (directory holding properties.jsonl).
func Root() string {
	if v := os.Getenv("VERIF_ROOT"); v != "" {
		return v
	}
	if wd, err := os.Getwd(); err == nil {
		d := wd
		for {
			if _, err := os.Stat(filepath.Join(d, "properties.jsonl")); err == nil {
				return d
			}
			p := filepath.Dir(d)
			if p == d {
				break
			}
			d = p
		}
	}
	return "/verif"
}

// Start begins a run. Tier comes from argv[1] ("quick"/"thorough") or
// VERIF_TIER (default quick); seed from VERIF_SEED (default 1); an optional
// "--replay <file>" is exposed through ReplayPath.
func Start(id string) *Run {
	r := &Run{
		ID:            id,
		tier:          "quick",
		seed:          1,
		root:          Root(),
		start:         time.Now(),
		level:         "exploration",
		distinct:      map[[16]byte]struct{}{},
		classes:       map[string]int64{},
		counters:      map[string]int64{},
		extra:         map[string]any{},
		violSigs:      map[string]int{},
		knownHit:      map[string]int{},
		maxSamples:    6,
		maxViolations: 25,
	}
	if v := os.Getenv("VERIF_TIER"); v == "quick" || v == "thorough" {
		r.tier = v
	}
	args := os.Args[1:]
	for i := 0; i < len(args); i++ {
		switch args[i] {
		case "quick", "thorough":
			r.tier = args[i]
		case "--replay":
			if i+1 < len(args) {
				r.replayPath = args[i+1]
				i++
			}
		}
	}
	if v := os.Getenv("VERIF_SEED"); v != "" {
		if n, err := strconv.ParseInt(v, 10, 64); err == nil {
			r.seed = n
		}
	}
	r.loadFindings()
	return r
}

func (r *Run) loadFindings() {
	data, err := os.ReadFile(filepath.Join(r.root, "known_findings.json"))
	if err != nil {
		return
	}
	var doc struct {
		Findings []finding `json:"findings"`
	}
	if err := json.Unmarshal(data, &doc); err != nil {
		fmt.Fprintf(os.Stderr, "mon: known_findings.json unreadable: %v\n", err)
		return
	}
	for _, f := range doc.Findings {
		if f.Property != r.ID {
			continue
		}
		re, err := regexp.Compile("^(?:" + f.Signature + ")$")
		if err != nil {
			fmt.Fprintf(os.Stderr, "mon: bad signature regexp %q: %v\n", f.Signature, err)
			continue
		}
		f.re = re
		r.findings = append(r.findings, f)
	}
}

func (r *Run) Tier() string       { return r.tier }
func (r *Run) Thorough() bool     { return r.tier == "thorough" }
func (r *Run) Seed() int64        { return r.seed }
func (r *Run) RootDir() string    { return r.root }
func (r *Run) ReplayPath() string { return r.replayPath }

// N picks a budget by tier.
func (r *Run) N(quick, thorough int) int {
	if r.Thorough() {
		return thorough
	}
	return quick
}

// Rand returns a deterministic PRNG for (seed, stream...). Distinct streams
// are independent; the same arguments always give the same sequence.
func (r *Run) Rand(stream ...uint64) *rand.Rand {
	h := sha256.New()
	var b [8]byte
	binary.LittleEndian.PutUint64(b[:], uint64(r.seed))
	h.Write(b[:])
	h.Write([]byte(r.ID))
	for _, s := range stream {
		binary.LittleEndian.PutUint64(b[:], s)
		h.Write(b[:])
	}
	sum := h.Sum(nil)
	return rand.New(rand.NewPCG(binary.LittleEndian.Uint64(sum[:8]), binary.LittleEndian.Uint64(sum[8:16])))
}

// SetLevel sets the evidence level ("exploration" default, "fault_enumeration", ...).
func (r *Run) SetLevel(l string) { r.level = l }

// SetRule documents how cases are generated and what makes one distinct/non-trivial.
func (r *Run) SetRule(s string) { r.mu.Lock(); r.rule = s; r.mu.Unlock() }

// SetExhaustive records that a finite sub-space was enumerated completely.
func (r *Run) SetExhaustive(b bool) { r.mu.Lock(); r.exhaustive = &b; r.mu.Unlock() }

// Case counts one evaluated case. sig is its normalised signature: cases with
// equal signatures count once toward distinct_nontrivial; an empty sig marks a
// trivial case (counted as an evaluation only).
func (r *Run) Case(sig string) {
	var k [16]byte
	if sig != "" {
		s := sha256.Sum256([]byte(sig))
		copy(k[:], s[:16])
	}
	r.mu.Lock()
	r.evals++
	if sig != "" {
		r.distinct[k] = struct{}{}
	}
	r.mu.Unlock()
}

// Evals adds n evaluations without signatures.
func (r *Run) Evals(n int) { r.mu.Lock(); r.evals += int64(n); r.mu.Unlock() }

// Sample keeps up to a handful of actual cases for the evidence file.
func (r *Run) Sample(v any) {
	r.mu.Lock()
	if len(r.samples) < r.maxSamples {
		r.samples = append(r.samples, v)
	}
	r.mu.Unlock()
}

// Require declares observation classes that must each be hit at least once,
// otherwise the run is inconclusive.
func (r *Run) Require(classes ...string) {
	r.mu.Lock()
	r.required = append(r.required, classes...)
	r.mu.Unlock()
}

// Class records one hit of an observation class.
func (r *Run) Class(name string) { r.mu.Lock(); r.classes[name]++; r.mu.Unlock() }

// Count adds n to a named monitor-side counter (events per kind etc.).
func (r *Run) Count(name string, n int64) { r.mu.Lock(); r.counters[name] += n; r.mu.Unlock() }

// Set stores an extra key in the coverage object.
func (r *Run) Set(key string, v any) { r.mu.Lock(); r.extra[key] = v; r.mu.Unlock() }

// Assume records an assumption / trusted-base item.
func (r *Run) Assume(s string) { r.mu.Lock(); r.assumptions = append(r.assumptions, s); r.mu.Unlock() }

// Inconclusive marks the run inconclusive (never folded into held/violated).
func (r *Run) Inconclusive(reason string) {
	r.mu.Lock()
	r.inconclusive = append(r.inconclusive, reason)
	r.mu.Unlock()
}

// Violation reports a violation. signature names the failing input class /
// call site / history shape (stable across seeds; used for de-duplication and
// for matching known_findings.json); what is a one-line human description;
// witness is any JSON-encodable value that replays the case.
// Returns true when the violation is a listed known finding.
func (r *Run) Violation(signature, what string, witness any) bool {
	r.mu.Lock()
	defer r.mu.Unlock()
	for i := range r.findings {
		f := &r.findings[i]
		if f.Status == "known" && f.re.MatchString(signature) {
			key := f.Signature
			if r.knownHit[key] == 0 {
				fmt.Printf("KNOWN-FINDING: property=%s %s\n", r.ID, f.What)
			}
			r.knownHit[key]++
			return true
		}
	}
	r.violSigs[signature]++
	if r.violSigs[signature] > 1 || len(r.violations) >= r.maxViolations {
		return false
	}
	dir := filepath.Join(r.root, "replays")
	_ = os.MkdirAll(dir, 0o755)
	path := filepath.Join(dir, fmt.Sprintf("%s-seed%d-%s-%d.json", r.ID, r.seed, r.tier, len(r.violations)))
	doc := map[string]any{
		"property":  r.ID,
		"signature": signature,
		"what":      what,
		"seed":      r.seed,
		"tier":      r.tier,
		"witness":   witness,
	}
	data, err := json.MarshalIndent(doc, "", " ")
	if err != nil {
		data, _ = json.MarshalIndent(map[string]any{"property": r.ID, "signature": signature, "what": what,
			"seed": r.seed, "tier": r.tier, "witness": fmt.Sprintf("%+v", witness)}, "", " ")
	}
	_ = os.WriteFile(path, data, 0o644)
	r.violations = append(r.violations, violation{Signature: signature, What: what, Replay: path})
	fmt.Printf("VIOLATION property=%s replay=%s\n", r.ID, path)
	fmt.Printf("  signature=%s\n  what=%s\n", signature, what)
	return false
}

// Violated reports whether any non-known violation has been recorded.
func (r *Run) Violated() bool { r.mu.Lock(); defer r.mu.Unlock(); return len(r.violations) > 0 }

// Fatal aborts the run as a broken check (harness bug), distinct from a verdict.
func (r *Run) Fatal(format string, a ...any) {
	fmt.Printf("CHECK-BROKEN property=%s %s\n", r.ID, fmt.Sprintf(format, a...))
	r.Inconclusive("harness failure: " + fmt.Sprintf(format, a...))
	r.finish(2)
}

// Finish writes the evidence file, prints the verdict and exits the process:
// 1 on violation, 0 otherwise.
func (r *Run) Finish() {
	if rv := recover(); rv != nil {
		buf := make([]byte, 16384)
		n := runtime.Stack(buf, false)
		fmt.Printf("CHECK-BROKEN property=%s harness panic: %v\n%s\n", r.ID, rv, buf[:n])
		r.Inconclusive(fmt.Sprintf("harness panic: %v", rv))
		r.finish(2)
	}
	r.finish(-1)
}

func (r *Run) finish(force int) {
	if !r.finished.CompareAndSwap(false, true) {
		return
	}
	r.mu.Lock()
	for _, c := range r.required {
		if r.classes[c] == 0 {
			r.inconclusive = append(r.inconclusive, "required observation class never hit: "+c)
		}
	}
	if r.evals == 0 {
		r.inconclusive = append(r.inconclusive, "no case evaluated")
	}
	wall := time.Since(r.start).Seconds()
	cov := map[string]any{}
	for k, v := range r.extra {
		cov[k] = v
	}
	cov["evaluations"] = r.evals
	cov["distinct_nontrivial"] = len(r.distinct)
	rule := r.rule
	if rule == "" {
		rule = "cases derived from (VERIF_SEED, case index); distinct = distinct normalised case signatures; trivial cases carry no signature"
	}
	cov["rule"] = rule
	samples := r.samples
	if len(samples) == 0 {
		samples = []any{"(no sample recorded)"}
	}
	cov["samples"] = samples
	if r.exhaustive != nil {
		cov["exhaustive"] = *r.exhaustive
	}
	if len(r.classes) > 0 {
		cov["observation_classes"] = r.classes
	}
	if len(r.counters) > 0 {
		cov["monitor_counters"] = r.counters
	}
	if len(r.knownHit) > 0 {
		cov["known_findings_hit"] = r.knownHit
	}
	if len(r.inconclusive) > 0 {
		cov["inconclusive_reasons"] = r.inconclusive
	}
	if len(r.violations) > 0 {
		cov["violations"] = r.violations
		vs := map[string]int{}
		for k, v := range r.violSigs {
			vs[k] = v
		}
		cov["violation_signature_counts"] = vs
	}
	ev := map[string]any{
		"property_id":  r.ID,
		"tier":         r.tier,
		"seed":         r.seed,
		"level":        r.level,
		"coverage":     cov,
		"assumptions":  append([]string{}, r.assumptions...),
		"wall_s":       wall,
		"violations":   len(r.violations),
		"inconclusive": len(r.inconclusive) > 0,
	}
	nviol := len(r.violations)
	inconc := append([]string{}, r.inconclusive...)
	evals, ndist := r.evals, len(r.distinct)
	classes := make([]string, 0, len(r.classes))
	for k, v := range r.classes {
		classes = append(classes, fmt.Sprintf("%s=%d", k, v))
	}
	sort.Strings(classes)
	r.mu.Unlock()

	if os.Getenv("VERIF_NO_EVIDENCE") == "" {
		dir := filepath.Join(r.root, "evidence")
		if d := os.Getenv("VERIF_EVIDENCE_DIR"); d != "" {
			dir = d // scratch-copy runs (VERIF_REPO) must not overwrite the real evidence
		}
		_ = os.MkdirAll(dir, 0o755)
		data, err := json.MarshalIndent(ev, "", " ")
		if err != nil {
			fmt.Printf("CHECK-BROKEN property=%s evidence not encodable: %v\n", r.ID, err)
		} else {
			tmp := filepath.Join(dir, r.ID+".json.tmp")
			_ = os.WriteFile(tmp, data, 0o644)
			_ = os.Rename(tmp, filepath.Join(dir, r.ID+".json"))
		}
	}
	fmt.Printf("SUMMARY property=%s tier=%s seed=%d evaluations=%d distinct=%d violations=%d wall=%.1fs\n",
		r.ID, r.tier, r.seed, evals, ndist, nviol, wall)
	if len(classes) > 0 {
		fmt.Printf("  classes: %s\n", strings.Join(classes, " "))
	}
	for _, s := range inconc {
		fmt.Printf("INCONCLUSIVE property=%s reason=%s\n", r.ID, s)
	}
	switch {
	case nviol > 0:
		os.Exit(1)
	case force == 2:
		// Broken harness: not a verdict. Exit 0 would hide it from the
		// developer; exit 3 keeps it apart from "violation" (1).
		os.Exit(3)
	default:
		os.Exit(0)
	}
}

// ---------------------------------------------------------------------------
// Event log

// Event is one entry of the append-only run log.
type Event struct {
	Seq     int64  `json:"seq"`
	T       int64  `json:"t_ns"` // monotonic ns since log creation
	Actor   string `json:"actor"`
	Kind    string `json:"kind"`
	Key     string `json:"key,omitempty"`
	Payload any    `json:"payload,omitempty"`
}

// Log is an append-only, totally ordered event log: one mutex, one counter,
// one monotonic clock. Monitors read it through Snapshot or Since.
type Log struct {
	mu     sync.Mutex
	t0     time.Time
	events []Event
}

func NewLog() *Log { return &Log{t0: time.Now()} }

// Add appends an event and returns its sequence number.
func (l *Log) Add(actor, kind, key string, payload any) int64 {
	l.mu.Lock()
	defer l.mu.Unlock()
	seq := int64(len(l.events))
	l.events = append(l.events, Event{Seq: seq, T: int64(time.Since(l.t0)), Actor: actor, Kind: kind, Key: key, Payload: payload})
	return seq
}

// Now returns the log's monotonic clock (ns since creation); use it for
// call/return stamps fed to porcupine so all stamps share one source.
func (l *Log) Now() int64 { return int64(time.Since(l.t0)) }

func (l *Log) Len() int { l.mu.Lock(); defer l.mu.Unlock(); return len(l.events) }

// Snapshot returns a copy of all events.
func (l *Log) Snapshot() []Event {
	l.mu.Lock()
	defer l.mu.Unlock()
	return append([]Event(nil), l.events...)
}

// Since returns a copy of the events with Seq >= seq.
func (l *Log) Since(seq int64) []Event {
	l.mu.Lock()
	defer l.mu.Unlock()
	if seq < 0 {
		seq = 0
	}
	if int(seq) >= len(l.events) {
		return nil
	}
	return append([]Event(nil), l.events[seq:]...)
}

// Reset drops all events (between independent histories).
func (l *Log) Reset() { l.mu.Lock(); l.events = nil; l.mu.Unlock() }

// KindOrder returns a compact signature of the order of event kinds — the
// "interleaving signature" used to count distinct schedules observed.
func KindOrder(evs []Event) string {
	var b strings.Builder
	for _, e := range evs {
		b.WriteString(e.Actor)
		b.WriteByte(':')
		b.WriteString(e.Kind)
		b.WriteByte(';')
	}
	s := sha256.Sum256([]byte(b.String()))
	return fmt.Sprintf("%x", s[:8])
}

// Hash returns a short stable hash of any strings, for building signatures.
func Hash(parts ...string) string {
	h := sha256.New()
	for _, p := range parts {
		h.Write([]byte(p))
		h.Write([]byte{0})
	}
	return fmt.Sprintf("%x", h.Sum(nil)[:8])
}
