// Package we is worker wE's shared fixture for the state-token properties
// (C12..C15): an instrumented stream service whose every state method,
// rehydrate callback and dispatch hook logs to a mon.Log, an authenticator
// that reads the presented identity from test headers, and a raw in-process
// HTTP client (ServeHTTP on an httptest recorder, panics recovered and
// recorded) that turns a response into a normalised observation.
//
// The client is written from the wire protocol as the server's read side
// implements it; it never calls the library's own client helpers.
package we

import (
	"bytes"
	"context"
	"encoding/base64"
	"encoding/json"
	"fmt"
	"net/http"
	"net/http/httptest"
	"os"
	"path/filepath"
	"strings"
	"sync"
	"time"

	"github.com/apache/arrow-go/v18/arrow"
	"github.com/apache/arrow-go/v18/arrow/array"
	"github.com/apache/arrow-go/v18/arrow/ipc"
	"github.com/apache/arrow-go/v18/arrow/memory"

	"github.com/Query-farm/vgi-rpc-go/vgirpc"

	"verif/harness/internal/gen"
	"verif/harness/internal/mon"
)

const arrowCT = "application/vnd.apache.arrow.stream"

// ---------------------------------------------------------------------------
// Identities

// Identity is what the test authenticator turns into an AuthContext.
type Identity struct {
	Anonymous bool   `json:"anonymous,omitempty"`
	Domain    string `json:"domain"`
	Principal string `json:"principal"`
}

var Anon = Identity{Anonymous: true}

func Auth(domain, principal string) Identity { return Identity{Domain: domain, Principal: principal} }

// Key is the reference identity: anonymous | (domain, principal). Two
// identities are the same caller iff their Keys are equal. (Independent of the
// library's AAD / cache-key renderings.)
func (id Identity) Key() string {
	if id.Anonymous {
		return "anon"
	}
	return fmt.Sprintf("auth:%d:%s|%s", len(id.Domain), id.Domain, id.Principal)
}

func (id Identity) String() string {
	if id.Anonymous {
		return "anonymous"
	}
	return fmt.Sprintf("(%q,%q)", id.Domain, id.Principal)
}

// AuthContext builds the AuthContext the authenticator would return.
func (id Identity) AuthContext() *vgirpc.AuthContext {
	if id.Anonymous {
		return vgirpc.Anonymous()
	}
	return &vgirpc.AuthContext{Domain: id.Domain, Principal: id.Principal, Authenticated: true}
}

func (id Identity) apply(req *http.Request) {
	if id.Anonymous {
		req.Header.Set("X-T-Auth", "anon")
		return
	}
	req.Header.Set("X-T-Auth", "auth")
	req.Header.Set("X-T-Domain", base64.StdEncoding.EncodeToString([]byte(id.Domain)))
	req.Header.Set("X-T-Principal", base64.StdEncoding.EncodeToString([]byte(id.Principal)))
}

func authenticator(r *http.Request) (*vgirpc.AuthContext, error) {
	switch r.Header.Get("X-T-Auth") {
	case "auth":
		d, e1 := base64.StdEncoding.DecodeString(r.Header.Get("X-T-Domain"))
		p, e2 := base64.StdEncoding.DecodeString(r.Header.Get("X-T-Principal"))
		if e1 != nil || e2 != nil {
			return nil, &vgirpc.RpcError{Type: "ValueError", Message: "bad test identity"}
		}
		return &vgirpc.AuthContext{Domain: string(d), Principal: string(p), Authenticated: true}, nil
	default:
		return vgirpc.Anonymous(), nil
	}
}

// ---------------------------------------------------------------------------
// Instrumented service

var (
	OutSchema = arrow.NewSchema([]arrow.Field{{Name: "v", Type: arrow.PrimitiveTypes.Int64}}, nil)
	InSchema  = arrow.NewSchema([]arrow.Field{{Name: "v", Type: arrow.PrimitiveTypes.Int64}}, nil)
	DynSchema = arrow.NewSchema([]arrow.Field{{Name: "d", Type: arrow.PrimitiveTypes.Int64}}, nil)
)

type Params struct {
	Arg int64  `vgirpc:"arg"`
	Tag string `vgirpc:"tag"`
}

var paramsSchema = arrow.NewSchema([]arrow.Field{
	{Name: "arg", Type: arrow.PrimitiveTypes.Int64},
	{Name: "tag", Type: arrow.BinaryTypes.String},
}, nil)

type Header struct {
	Note string `arrow:"note"`
}

func (Header) ArrowSchema() *arrow.Schema {
	return arrow.NewSchema([]arrow.Field{{Name: "note", Type: arrow.BinaryTypes.String}}, nil)
}

// Evt is the payload of every service-side event.
type Evt struct {
	Inst   string `json:"inst"`
	Route  string `json:"route"`           // CallContext.Method / hook Method / rehydrate method
	State  string `json:"state,omitempty"` // Go type of the state the method ran on
	Origin string `json:"origin,omitempty"`
	Tag    string `json:"tag,omitempty"`
	Turn   int64  `json:"turn,omitempty"`
	Auth   string `json:"auth,omitempty"`
	Stream string `json:"stream_id,omitempty"`
}

func instOf(c *vgirpc.CallContext) *Instance {
	if c != nil {
		if in, ok := c.Implementation.(*Instance); ok {
			return in
		}
	}
	return nil
}

func logState(c *vgirpc.CallContext, kind, stateType, origin, tag string, turn int64) {
	in := instOf(c)
	if in == nil || in.Log == nil {
		return
	}
	route := ""
	auth := ""
	if c != nil {
		route = c.Method
		auth = authString(c.Auth)
	}
	in.Log.Add("state", kind, tag, Evt{Inst: in.Name, Route: route, State: stateType, Origin: origin, Tag: tag, Turn: turn, Auth: auth})
}

func authString(a *vgirpc.AuthContext) string {
	if a == nil || !a.Authenticated {
		return "anon"
	}
	return fmt.Sprintf("auth:%d:%s|%s", len(a.Domain), a.Domain, a.Principal)
}

func emit1(out *vgirpc.OutputCollector, v int64) error {
	b := array.NewInt64Builder(memory.DefaultAllocator)
	defer b.Release()
	b.Append(v)
	arr := b.NewArray()
	defer arr.Release()
	return out.EmitArrays([]arrow.Array{arr}, 1)
}

func sumInput(in arrow.RecordBatch) int64 {
	var s int64
	if in != nil && in.NumCols() > 0 {
		if c, ok := in.Column(0).(*array.Int64); ok {
			for i := 0; i < c.Len(); i++ {
				s += c.Value(i)
			}
		}
	}
	return s
}

// ProdState: counting producer. Origin = method that minted the stream.
type ProdState struct {
	Origin string
	Tag    string
	Next   int64
	Pad    []byte // optional incompressible padding (token length control)
}

func (s *ProdState) Produce(_ context.Context, out *vgirpc.OutputCollector, c *vgirpc.CallContext) error {
	logState(c, "produce", "ProdState", s.Origin, s.Tag, s.Next)
	v := s.Next
	s.Next++
	return emit1(out, v)
}
func (s *ProdState) OnCancel(_ context.Context, c *vgirpc.CallContext) error {
	logState(c, "oncancel", "ProdState", s.Origin, s.Tag, s.Next)
	return nil
}

// ProdStateB: a second producer state type.
type ProdStateB struct {
	Origin string
	Tag    string
	Next   int64
}

func (s *ProdStateB) Produce(_ context.Context, out *vgirpc.OutputCollector, c *vgirpc.CallContext) error {
	logState(c, "produce", "ProdStateB", s.Origin, s.Tag, s.Next)
	v := s.Next
	s.Next += 10
	return emit1(out, v)
}
func (s *ProdStateB) OnCancel(_ context.Context, c *vgirpc.CallContext) error {
	logState(c, "oncancel", "ProdStateB", s.Origin, s.Tag, s.Next)
	return nil
}

// ExchState: running sum.
type ExchState struct {
	Origin string
	Tag    string
	Sum    int64
	Turns  int64
	Pad    []byte
}

func (s *ExchState) Exchange(_ context.Context, in arrow.RecordBatch, out *vgirpc.OutputCollector, c *vgirpc.CallContext) error {
	logState(c, "exchange", "ExchState", s.Origin, s.Tag, s.Turns)
	s.Sum += sumInput(in)
	s.Turns++
	return emit1(out, s.Sum)
}
func (s *ExchState) OnCancel(_ context.Context, c *vgirpc.CallContext) error {
	logState(c, "oncancel", "ExchState", s.Origin, s.Tag, s.Turns)
	return nil
}

// ExchStateB: a second exchange state type (running product-ish).
type ExchStateB struct {
	Origin string
	Tag    string
	Acc    int64
	Turns  int64
}

func (s *ExchStateB) Exchange(_ context.Context, in arrow.RecordBatch, out *vgirpc.OutputCollector, c *vgirpc.CallContext) error {
	logState(c, "exchange", "ExchStateB", s.Origin, s.Tag, s.Turns)
	s.Acc = s.Acc*3 + sumInput(in)
	s.Turns++
	return emit1(out, s.Acc)
}
func (s *ExchStateB) OnCancel(_ context.Context, c *vgirpc.CallContext) error {
	logState(c, "oncancel", "ExchStateB", s.Origin, s.Tag, s.Turns)
	return nil
}

func init() {
	vgirpc.RegisterStateType(&ProdState{})
	vgirpc.RegisterStateType(&ProdStateB{})
	vgirpc.RegisterStateType(&ExchState{})
	vgirpc.RegisterStateType(&ExchStateB{})
}

// MethodKind describes one registered stream method.
type MethodKind struct {
	Name     string
	Producer bool   // continuation runs Produce (else Exchange)
	State    string // Go type name of the state it mints
	Dynamic  bool
	Header   bool
}

// Methods is the registered stream surface, in a fixed order.
var Methods = []MethodKind{
	{Name: "prod", Producer: true, State: "ProdState"},
	{Name: "prod2", Producer: true, State: "ProdState"}, // same state type, second name
	{Name: "prodh", Producer: true, State: "ProdState", Header: true},
	{Name: "prodB", Producer: true, State: "ProdStateB"},
	{Name: "exch", State: "ExchState"},
	{Name: "exch2", State: "ExchState"}, // same state type, second name
	{Name: "exchh", State: "ExchState", Header: true},
	{Name: "exchB", State: "ExchStateB"},
	{Name: "dynp", Producer: true, State: "ProdState", Dynamic: true, Header: true},
	{Name: "dyne", State: "ExchState", Dynamic: true, Header: true},
}

func MethodByName(n string) MethodKind {
	for _, m := range Methods {
		if m.Name == n {
			return m
		}
	}
	panic("we: unknown method " + n)
}

// padFor derives deterministic, incompressible padding from the init arg so a
// test can choose the sealed token's length (arg < 0 => -arg bytes).
func padFor(arg int64) []byte {
	if arg >= 0 {
		return nil
	}
	n := int(-arg)
	out := make([]byte, n)
	x := uint64(0x9E3779B97F4A7C15)
	for i := range out {
		x ^= x << 13
		x ^= x >> 7
		x ^= x << 17
		out[i] = byte(x >> 32)
	}
	return out
}

func (in *Instance) logInit(c *vgirpc.CallContext, p Params) {
	in.Log.Add("state", "init", p.Tag, Evt{Inst: in.Name, Route: c.Method, Tag: p.Tag, Auth: authString(c.Auth)})
}

func (in *Instance) register() {
	s := in.S
	prod := func(name string, withHeader bool) func(context.Context, *vgirpc.CallContext, Params) (*vgirpc.StreamResult, error) {
		return func(_ context.Context, c *vgirpc.CallContext, p Params) (*vgirpc.StreamResult, error) {
			in.logInit(c, p)
			start := p.Arg
			if start < 0 {
				start = 0
			}
			r := &vgirpc.StreamResult{OutputSchema: OutSchema, State: &ProdState{Origin: name, Tag: p.Tag, Next: start, Pad: padFor(p.Arg)}}
			if withHeader {
				r.Header = Header{Note: name}
			}
			return r, nil
		}
	}
	exch := func(name string, withHeader bool) func(context.Context, *vgirpc.CallContext, Params) (*vgirpc.StreamResult, error) {
		return func(_ context.Context, c *vgirpc.CallContext, p Params) (*vgirpc.StreamResult, error) {
			in.logInit(c, p)
			start := p.Arg
			if start < 0 {
				start = 0
			}
			r := &vgirpc.StreamResult{OutputSchema: OutSchema, InputSchema: InSchema, State: &ExchState{Origin: name, Tag: p.Tag, Sum: start, Pad: padFor(p.Arg)}}
			if withHeader {
				r.Header = Header{Note: name}
			}
			return r, nil
		}
	}
	vgirpc.Producer(s, "prod", OutSchema, prod("prod", false))
	vgirpc.Producer(s, "prod2", OutSchema, prod("prod2", false))
	vgirpc.ProducerWithHeader(s, "prodh", OutSchema, Header{}.ArrowSchema(), prod("prodh", true))
	vgirpc.Producer(s, "prodB", OutSchema, func(_ context.Context, c *vgirpc.CallContext, p Params) (*vgirpc.StreamResult, error) {
		in.logInit(c, p)
		return &vgirpc.StreamResult{OutputSchema: OutSchema, State: &ProdStateB{Origin: "prodB", Tag: p.Tag, Next: p.Arg}}, nil
	})
	vgirpc.Exchange(s, "exch", OutSchema, InSchema, exch("exch", false))
	vgirpc.Exchange(s, "exch2", OutSchema, InSchema, exch("exch2", false))
	vgirpc.ExchangeWithHeader(s, "exchh", OutSchema, InSchema, Header{}.ArrowSchema(), exch("exchh", true))
	vgirpc.Exchange(s, "exchB", OutSchema, InSchema, func(_ context.Context, c *vgirpc.CallContext, p Params) (*vgirpc.StreamResult, error) {
		in.logInit(c, p)
		return &vgirpc.StreamResult{OutputSchema: OutSchema, InputSchema: InSchema, State: &ExchStateB{Origin: "exchB", Tag: p.Tag, Acc: p.Arg}}, nil
	})
	// Dynamic methods: output schema decided at runtime (DynSchema, which is
	// NOT the static methods' schema), carried in the call token.
	vgirpc.DynamicStreamWithHeader(s, "dynp", Header{}.ArrowSchema(), func(_ context.Context, c *vgirpc.CallContext, p Params) (*vgirpc.StreamResult, error) {
		in.logInit(c, p)
		return &vgirpc.StreamResult{OutputSchema: DynSchema, State: &ProdState{Origin: "dynp", Tag: p.Tag, Next: p.Arg}, Header: Header{Note: "dynp"}}, nil
	})
	vgirpc.DynamicStreamWithHeader(s, "dyne", Header{}.ArrowSchema(), func(_ context.Context, c *vgirpc.CallContext, p Params) (*vgirpc.StreamResult, error) {
		in.logInit(c, p)
		return &vgirpc.StreamResult{OutputSchema: DynSchema, InputSchema: InSchema, State: &ExchState{Origin: "dyne", Tag: p.Tag, Sum: p.Arg}, Header: Header{Note: "dyne"}}, nil
	})
	// A unary method that opens a sticky session (C13 sticky-token minting).
	vgirpc.Unary(s, "open_session", func(_ context.Context, c *vgirpc.CallContext, p Params) (int64, error) {
		in.Log.Add("state", "open_session", p.Tag, Evt{Inst: in.Name, Route: c.Method, Tag: p.Tag, Auth: authString(c.Auth)})
		if err := c.OpenSession(&SessionState{Tag: p.Tag, Owner: authString(c.Auth)}, 0); err != nil {
			return 0, err
		}
		return p.Arg, nil
	})
	vgirpc.Unary(s, "use_session", func(_ context.Context, c *vgirpc.CallContext, p Params) (string, error) {
		st, _ := c.Session().(*SessionState)
		owner := ""
		if st != nil {
			owner = st.Owner + "#" + st.Tag
		}
		in.Log.Add("state", "use_session", p.Tag, Evt{Inst: in.Name, Route: c.Method, Tag: p.Tag, Auth: authString(c.Auth), Origin: owner})
		return owner, nil
	})
}

// SessionState is the sticky-session payload.
type SessionState struct {
	Tag   string
	Owner string
}

type hook struct{ in *Instance }

func (h hook) OnDispatchStart(ctx context.Context, info vgirpc.DispatchInfo) (context.Context, vgirpc.HookToken) {
	h.in.Log.Add("hook", "start", info.Method, Evt{Inst: h.in.Name, Route: info.Method, Auth: authString(info.Auth), Stream: info.StreamID, Tag: info.TransportMetadata["user_agent"]})
	return ctx, nil
}
func (h hook) OnDispatchEnd(_ context.Context, _ vgirpc.HookToken, info vgirpc.DispatchInfo, _ *vgirpc.CallStatistics, _ error) {
	h.in.Log.Add("hook", "end", info.Method, Evt{Inst: h.in.Name, Route: info.Method, Auth: authString(info.Auth), Stream: info.StreamID, Tag: info.TransportMetadata["user_agent"]})
}

// strictRehydrate is a RehydrateFunc body as services write it: dispatch on
// the method name, assert the state type that method mints, re-attach
// whatever cannot be serialised (nothing here).
func strictRehydrate(state interface{}, method string, assert bool) error {
	check := func(ok bool) error {
		if !ok {
			return fmt.Errorf("method %s: unexpected state type %T", method, state)
		}
		return nil
	}
	switch method {
	case "prod", "prod2", "prodh", "dynp":
		if assert {
			_ = state.(*ProdState)
			return nil
		}
		_, ok := state.(*ProdState)
		return check(ok)
	case "prodB":
		if assert {
			_ = state.(*ProdStateB)
			return nil
		}
		_, ok := state.(*ProdStateB)
		return check(ok)
	case "exch", "exch2", "exchh", "dyne":
		if assert {
			_ = state.(*ExchState)
			return nil
		}
		_, ok := state.(*ExchState)
		return check(ok)
	case "exchB":
		if assert {
			_ = state.(*ExchStateB)
			return nil
		}
		_, ok := state.(*ExchStateB)
		return check(ok)
	}
	return nil
}

// Opt configures one server instance.
type Opt struct {
	Key          []byte        // token key (>= 16 bytes); nil => fixed default
	TTL          time.Duration // 0 => library default (5 min)
	CacheEntries int           // <0 => library default (4096); 0 disables
	Sticky       bool
	ServerID     string
	BatchLimit   int // producer batches per response; 0 => 1
	// Rehydrate selects the RehydrateFunc: "" / "logging" only logs;
	// "strict-assert" additionally does what applications do — a per-method
	// switch that type-asserts the state (panics on a foreign type);
	// "strict-error" returns an error for an unexpected type instead.
	Rehydrate string
}

// Instance is one HttpServer with its own Server, sharing a log.
type Instance struct {
	Name string
	Key  []byte
	S    *vgirpc.Server
	H    *vgirpc.HttpServer
	Log  *mon.Log
	// Parallel: do not serialise requests (event attribution is then off).
	Parallel bool
	mu       sync.Mutex
}

var DefaultKey = []byte("0123456789abcdef0123456789abcdef")

func NewInstance(log *mon.Log, name string, o Opt) *Instance {
	in := &Instance{Name: name, Log: log}
	in.S = vgirpc.NewServer()
	sid := o.ServerID
	if sid == "" {
		sid = "srv-" + name
	}
	in.S.SetServerID(sid)
	in.S.SetImplementation(in)
	in.register()
	in.S.SetDispatchHook(hook{in})
	key := o.Key
	if key == nil {
		key = DefaultKey
	}
	in.Key = key
	h, err := vgirpc.NewHttpServerWithKey(in.S, key)
	if err != nil {
		panic(err)
	}
	// Order matters: SetTokenTTL rebuilds the cache at the default size.
	if o.TTL > 0 {
		h.SetTokenTTL(o.TTL)
	}
	if o.CacheEntries >= 0 {
		h.SetCallStateCacheEntries(o.CacheEntries)
	}
	bl := o.BatchLimit
	if bl == 0 {
		bl = 1
	}
	h.SetProducerBatchLimit(bl)
	h.SetAuthenticate(authenticator)
	_ = h.SetCompressionLevel(0)
	// HTML pages are rendered on the first request of every instance; the
	// checks create thousands of instances and never look at pages.
	h.SetEnableLandingPage(false)
	h.SetEnableDescribePage(false)
	h.SetEnableNotFoundPage(false)
	h.SetRehydrateFunc(func(state interface{}, method string) error {
		log.Add("rehydrate", "rehydrate", method, Evt{Inst: name, Route: method, State: strings.TrimPrefix(fmt.Sprintf("%T", state), "*we.")})
		switch o.Rehydrate {
		case "strict-assert":
			strictRehydrate(state, method, true)
		case "strict-error":
			return strictRehydrate(state, method, false)
		}
		return nil
	})
	if o.Sticky {
		h.EnableSticky(time.Hour)
	}
	in.H = h
	return in
}

// ---------------------------------------------------------------------------
// Raw client + observation

// Obs is the normalised observation of one HTTP request.
type Obs struct {
	Status  int    `json:"status"`
	RPCErr  bool   `json:"x_vgi_rpc_error,omitempty"`
	Panic   string `json:"panic,omitempty"` // ServeHTTP panicked (value); connection would be aborted
	ErrType string `json:"err_type,omitempty"`
	ErrMsg  string `json:"err_msg,omitempty"`
	// Data rows (first column of every data batch with rows), in order.
	Rows    []int64 `json:"rows,omitempty"`
	Cursor  []byte  `json:"-"`
	Call    []byte  `json:"-"`
	Streams int     `json:"ipc_streams,omitempty"`
	Schema  string  `json:"schema,omitempty"` // first column name of the data stream
	Session string  `json:"vgi_session,omitempty"`
	Unparse string  `json:"unparseable,omitempty"`
	BodyLen int     `json:"body_len"`
	CT      string  `json:"content_type,omitempty"`
	Text    string  `json:"text,omitempty"` // non-arrow body head
	// Service-side events recorded while the request was in flight.
	Events []mon.Event `json:"events,omitempty"`
}

// Accepted: the continuation ran — a 2xx without an error envelope.
func (o Obs) Accepted() bool {
	return o.Panic == "" && o.Status >= 200 && o.Status < 300 && !o.RPCErr && o.ErrType == "" && o.Unparse == ""
}

// Refused4xx: a client-error response carrying an error.
func (o Obs) Refused4xx() bool {
	return o.Panic == "" && o.Status >= 400 && o.Status < 500
}

// Refusal is the comparable part of a refusal.
func (o Obs) Refusal() string {
	return fmt.Sprintf("%d|rpcerr=%v|%s|%s", o.Status, o.RPCErr, o.ErrType, o.ErrMsg)
}

// UserEvents returns events that show user code / callbacks ran: state
// methods, rehydrate, hook start.
func (o Obs) UserEvents() []mon.Event {
	var out []mon.Event
	for _, e := range o.Events {
		if e.Actor == "state" || e.Actor == "rehydrate" || e.Actor == "hook" {
			out = append(out, e)
		}
	}
	return out
}

func (o Obs) EventKinds() string {
	var b strings.Builder
	for _, e := range o.Events {
		b.WriteString(e.Actor + ":" + e.Kind + ";")
	}
	return b.String()
}

func (in *Instance) do(req *http.Request) (o Obs) {
	if !in.Parallel {
		in.mu.Lock()
		defer in.mu.Unlock()
	}
	seq := int64(in.Log.Len())
	rec := httptest.NewRecorder()
	func() {
		defer func() {
			if rv := recover(); rv != nil {
				o.Panic = fmt.Sprint(rv)
			}
		}()
		in.H.ServeHTTP(rec, req)
	}()
	for _, e := range in.Log.Since(seq) {
		if ev, ok := e.Payload.(Evt); ok && ev.Inst != in.Name {
			continue
		}
		o.Events = append(o.Events, e)
	}
	o.Status = rec.Code
	o.RPCErr = rec.Header().Get("X-VGI-RPC-Error") == "true"
	o.Session = rec.Header().Get("VGI-Session")
	o.CT = rec.Header().Get("Content-Type")
	body := rec.Body.Bytes()
	o.BodyLen = len(body)
	if o.CT != arrowCT {
		if len(body) > 200 {
			body = body[:200]
		}
		o.Text = string(body)
		return o
	}
	parseBody(&o, body)
	return o
}

func parseBody(o *Obs, body []byte) {
	for len(body) > 0 {
		schema, recs, n, err := gen.ReadIPC(body)
		if err != nil && len(recs) == 0 && schema == nil {
			o.Unparse = err.Error()
			return
		}
		o.Streams++
		for _, rec := range recs {
			meta := gen.MetaMap(rec)
			if lvl, ok := meta[vgirpc.MetaLogLevel]; ok {
				if lvl == "EXCEPTION" {
					o.ErrMsg = meta[vgirpc.MetaLogMessage]
					var extra struct {
						T string `json:"exception_type"`
					}
					_ = json.Unmarshal([]byte(meta[vgirpc.MetaLogExtra]), &extra)
					o.ErrType = extra.T
					if o.ErrType == "" {
						o.ErrType = "?"
					}
				}
				rec.Release()
				continue
			}
			if v, ok := meta[vgirpc.MetaStreamState]; ok {
				o.Cursor = []byte(v)
			}
			if v, ok := meta[vgirpc.MetaCallState]; ok {
				o.Call = []byte(v)
			}
			if rec.NumRows() > 0 && rec.NumCols() > 0 {
				if c, ok := rec.Column(0).(*array.Int64); ok {
					for i := 0; i < c.Len(); i++ {
						o.Rows = append(o.Rows, c.Value(i))
					}
					o.Schema = rec.Schema().Field(0).Name
				}
			}
			rec.Release()
		}
		if err != nil {
			o.Unparse = err.Error()
			return
		}
		if n <= 0 {
			return
		}
		body = body[n:]
	}
}

func initBody(method string, arg int64, tag string) []byte {
	ab := array.NewInt64Builder(memory.DefaultAllocator)
	ab.Append(arg)
	a := ab.NewArray()
	ab.Release()
	sb := array.NewStringBuilder(memory.DefaultAllocator)
	sb.Append(tag)
	s := sb.NewArray()
	sb.Release()
	meta := arrow.NewMetadata([]string{vgirpc.MetaMethod, vgirpc.MetaRequestVersion}, []string{method, vgirpc.ProtocolVersion})
	rec := array.NewRecordBatchWithMetadata(paramsSchema, []arrow.Array{a, s}, 1, meta)
	a.Release()
	s.Release()
	defer rec.Release()
	var buf bytes.Buffer
	w := ipc.NewWriter(&buf, ipc.WithSchema(paramsSchema))
	if err := w.Write(rec); err != nil {
		panic(err)
	}
	if err := w.Close(); err != nil {
		panic(err)
	}
	return buf.Bytes()
}

// Init posts /{method}/init.
func (in *Instance) Init(method string, id Identity, arg int64, tag string, hdr map[string]string) Obs {
	req := httptest.NewRequest(http.MethodPost, "/"+method+"/init", bytes.NewReader(initBody(method, arg, tag)))
	req.Header.Set("Content-Type", arrowCT)
	id.apply(req)
	for k, v := range hdr {
		req.Header.Set(k, v)
	}
	return in.do(req)
}

// Unary posts /{method}.
func (in *Instance) Unary(method string, id Identity, arg int64, tag string, hdr map[string]string) Obs {
	req := httptest.NewRequest(http.MethodPost, "/"+method, bytes.NewReader(initBody(method, arg, tag)))
	req.Header.Set("Content-Type", arrowCT)
	id.apply(req)
	for k, v := range hdr {
		req.Header.Set(k, v)
	}
	return in.do(req)
}

// Cont describes one continuation request.
type Cont struct {
	Method string
	ID     Identity
	Cursor []byte // nil => key omitted
	Call   []byte // nil => key omitted
	Val    int64  // exchange input
	Tick   bool   // send a zero-column tick batch (producer continuation)
	Cancel bool
	Hdr    map[string]string
}

func contBody(c Cont) []byte {
	var keys, vals []string
	if c.Cursor != nil {
		keys = append(keys, vgirpc.MetaStreamState)
		vals = append(vals, string(c.Cursor))
	}
	if c.Call != nil {
		keys = append(keys, vgirpc.MetaCallState)
		vals = append(vals, string(c.Call))
	}
	if c.Cancel {
		keys = append(keys, vgirpc.MetaCancel)
		vals = append(vals, "1")
	}
	meta := arrow.NewMetadata(keys, vals)
	var buf bytes.Buffer
	if c.Tick || c.Cancel {
		schema := arrow.NewSchema(nil, nil)
		rec := array.NewRecordBatchWithMetadata(schema, nil, 0, meta)
		defer rec.Release()
		w := ipc.NewWriter(&buf, ipc.WithSchema(schema))
		if err := w.Write(rec); err != nil {
			panic(err)
		}
		_ = w.Close()
		return buf.Bytes()
	}
	b := array.NewInt64Builder(memory.DefaultAllocator)
	b.Append(c.Val)
	a := b.NewArray()
	b.Release()
	rec := array.NewRecordBatchWithMetadata(InSchema, []arrow.Array{a}, 1, meta)
	a.Release()
	defer rec.Release()
	w := ipc.NewWriter(&buf, ipc.WithSchema(InSchema))
	if err := w.Write(rec); err != nil {
		panic(err)
	}
	_ = w.Close()
	return buf.Bytes()
}

// Continue posts /{method}/exchange.
func (in *Instance) Continue(c Cont) Obs {
	req := httptest.NewRequest(http.MethodPost, "/"+c.Method+"/exchange", bytes.NewReader(contBody(c)))
	req.Header.Set("Content-Type", arrowCT)
	c.ID.apply(req)
	for k, v := range c.Hdr {
		req.Header.Set(k, v)
	}
	return in.do(req)
}

// ContFor builds the natural continuation for a method kind (tick for
// producers, data for exchanges).
func ContFor(m MethodKind, id Identity, cursor, call []byte, val int64) Cont {
	return Cont{Method: m.Name, ID: id, Cursor: cursor, Call: call, Val: val, Tick: m.Producer}
}

// B64 is a short rendering for witnesses.
func B64(b []byte) string { return string(b) }

// RaceReports counts the race-detector reports written so far by this process
// (GORACE log_path=$VERIF_RACE_LOG, set by /verif/check) and returns the head
// of the first one.
func RaceReports() (int, string) {
	base := os.Getenv("VERIF_RACE_LOG")
	if base == "" {
		return 0, ""
	}
	files, _ := filepath.Glob(base + ".*")
	n := 0
	head := ""
	for _, f := range files {
		b, err := os.ReadFile(f)
		if err != nil {
			continue
		}
		c := strings.Count(string(b), "WARNING: DATA RACE")
		n += c
		if c > 0 && head == "" {
			head = string(b)
			if len(head) > 3000 {
				head = head[:3000]
			}
		}
	}
	return n, head
}
