package wj

import (
	"os"
	"path/filepath"
	"sort"
	"strings"

	"verif/harness/internal/mon"
)

const libPrefix = "github.com/Query-farm/vgi-rpc-go/"

// RaceReport is one "WARNING: DATA RACE" block of the race detector's log.
type RaceReport struct {
	Text   string     // the whole block
	Stacks [][]string // function names of the two access stacks, innermost first
	Sig    string     // race:<innermost library fn A>|<innermost library fn B> (sorted)
	InLib  bool       // at least one access stack has a library frame
}

// fnName strips the argument list from a race-report function line
// ("pkg.(*T).m(...)" or "pkg.f()").
func fnName(line string) string {
	s := strings.TrimSpace(line)
	if i := strings.LastIndex(s, "("); i > 0 && strings.HasSuffix(s, ")") {
		// Receiver types also carry parentheses: cut only the trailing "(...)".
		depth := 0
		for j := len(s) - 1; j >= 0; j-- {
			switch s[j] {
			case ')':
				depth++
			case '(':
				depth--
				if depth == 0 {
					return s[:j]
				}
			}
		}
	}
	return s
}

// ParseRaceLog splits the text of one race log file into reports.
func ParseRaceLog(text string) []RaceReport {
	var out []RaceReport
	parts := strings.Split(text, "WARNING: DATA RACE")
	for _, p := range parts[1:] {
		if i := strings.Index(p, "=================="); i >= 0 {
			p = p[:i]
		}
		rep := RaceReport{Text: "WARNING: DATA RACE" + p}
		var cur []string
		inAccess := false
		flush := func() {
			if inAccess && len(rep.Stacks) < 2 {
				rep.Stacks = append(rep.Stacks, cur)
			}
			cur, inAccess = nil, false
		}
		for _, line := range strings.Split(p, "\n") {
			t := strings.TrimSpace(line)
			switch {
			case t == "":
				flush()
			case strings.HasSuffix(t, ":") && (strings.HasPrefix(t, "Read at") || strings.HasPrefix(t, "Write at") ||
				strings.HasPrefix(t, "Previous read at") || strings.HasPrefix(t, "Previous write at") ||
				strings.HasPrefix(t, "Atomic") || strings.HasPrefix(t, "Previous atomic")):
				flush()
				inAccess = true
			case strings.HasPrefix(t, "Goroutine ") || strings.HasPrefix(t, "[failed to restore the stack]"):
				flush()
			case inAccess && strings.HasPrefix(line, "  ") && !strings.HasPrefix(line, "      "):
				cur = append(cur, fnName(t))
			}
		}
		flush()
		var inner []string
		for _, st := range rep.Stacks {
			pick := ""
			for _, f := range st {
				if strings.HasPrefix(f, libPrefix) {
					pick = strings.TrimPrefix(f, libPrefix)
					rep.InLib = true
					break
				}
			}
			if pick == "" {
				if len(st) > 0 {
					pick = "(non-library)" + st[0]
				} else {
					pick = "(unknown)"
				}
			}
			inner = append(inner, pick)
		}
		sort.Strings(inner)
		rep.Sig = "race:" + strings.Join(inner, "|")
		out = append(out, rep)
	}
	return out
}

// ReportRaces reads $VERIF_RACE_LOG.* and reports every distinct race that
// touches library code as a violation; races entirely inside harness code make
// the check broken (Fatal). Returns the number of race blocks seen.
// requireLog: when true, a missing VERIF_RACE_LOG makes the run inconclusive
// (the primary oracle of C40 was not armed).
func ReportRaces(r *mon.Run, requireLog bool) int {
	prefix := os.Getenv("VERIF_RACE_LOG")
	if prefix == "" {
		if requireLog {
			r.Inconclusive("VERIF_RACE_LOG not set: race reports were not collected")
		}
		r.Set("race_log", "not armed")
		return 0
	}
	files, _ := filepath.Glob(prefix + ".*")
	total := 0
	distinct := map[string]int{}
	harnessOnly := []string{}
	for _, f := range files {
		data, err := os.ReadFile(f)
		if err != nil {
			continue
		}
		for _, rep := range ParseRaceLog(string(data)) {
			total++
			distinct[rep.Sig]++
			if !rep.InLib {
				harnessOnly = append(harnessOnly, rep.Text)
				continue
			}
			r.Violation(rep.Sig, "data race reported by the Go race detector", map[string]any{"report": rep.Text, "log": f})
		}
	}
	r.Set("race_reports_total", total)
	r.Set("race_reports_distinct", len(distinct))
	r.Set("race_log", prefix+".*")
	if len(harnessOnly) > 0 {
		r.Fatal("data race inside harness code (no library frame):\n%s", harnessOnly[0])
	}
	return total
}
