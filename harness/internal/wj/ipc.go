// Package wj holds helpers shared by the C29 / C39 / C40 / C42 checks (worker
// wJ): a small Arrow-IPC request builder and response reader written against
// the wire format (not the library's client helpers), and the race-detector
// log reader.
package wj

import (
	"bytes"
	"encoding/json"
	"fmt"
	"io"

	"github.com/apache/arrow-go/v18/arrow"
	"github.com/apache/arrow-go/v18/arrow/array"
	"github.com/apache/arrow-go/v18/arrow/ipc"
	"github.com/apache/arrow-go/v18/arrow/memory"
)

// ArrowCT is the content type of every RPC body.
const ArrowCT = "application/vnd.apache.arrow.stream"

// P is one named request parameter; V is int64, string, bool or float64.
type P struct {
	Name string
	V    any
}

// BuildBatchStream renders one IPC stream holding a single one-row batch with
// the given columns (non-nullable) and batch-level custom metadata.
func BuildBatchStream(params []P, metaKeys, metaVals []string) []byte {
	mem := memory.NewGoAllocator()
	fields := make([]arrow.Field, len(params))
	cols := make([]arrow.Array, len(params))
	for i, p := range params {
		switch v := p.V.(type) {
		case int64:
			fields[i] = arrow.Field{Name: p.Name, Type: arrow.PrimitiveTypes.Int64}
			b := array.NewInt64Builder(mem)
			b.Append(v)
			cols[i] = b.NewArray()
			b.Release()
		case string:
			fields[i] = arrow.Field{Name: p.Name, Type: arrow.BinaryTypes.String}
			b := array.NewStringBuilder(mem)
			b.Append(v)
			cols[i] = b.NewArray()
			b.Release()
		case bool:
			fields[i] = arrow.Field{Name: p.Name, Type: arrow.FixedWidthTypes.Boolean}
			b := array.NewBooleanBuilder(mem)
			b.Append(v)
			cols[i] = b.NewArray()
			b.Release()
		case float64:
			fields[i] = arrow.Field{Name: p.Name, Type: arrow.PrimitiveTypes.Float64}
			b := array.NewFloat64Builder(mem)
			b.Append(v)
			cols[i] = b.NewArray()
			b.Release()
		default:
			panic(fmt.Sprintf("wj: unsupported param type %T", p.V))
		}
	}
	schema := arrow.NewSchema(fields, nil)
	meta := arrow.NewMetadata(metaKeys, metaVals)
	rows := int64(1)
	if len(params) == 0 {
		rows = 0
	}
	batch := array.NewRecordBatchWithMetadata(schema, cols, rows, meta)
	var buf bytes.Buffer
	w := ipc.NewWriter(&buf, ipc.WithSchema(schema))
	if err := w.Write(batch); err != nil {
		panic(err)
	}
	if err := w.Close(); err != nil {
		panic(err)
	}
	batch.Release()
	for _, c := range cols {
		c.Release()
	}
	return buf.Bytes()
}

// BuildRequest renders an RPC request stream for method.
func BuildRequest(method, requestID string, params []P, extraMeta ...string) []byte {
	keys := []string{"vgi_rpc.method", "vgi_rpc.request_version"}
	vals := []string{method, "1"}
	if requestID != "" {
		keys = append(keys, "vgi_rpc.request_id")
		vals = append(vals, requestID)
	}
	for i := 0; i+1 < len(extraMeta); i += 2 {
		keys = append(keys, extraMeta[i])
		vals = append(vals, extraMeta[i+1])
	}
	return BuildBatchStream(params, keys, vals)
}

// Batch is one decoded response batch.
type Batch struct {
	Kind   string            // data | log | error | token
	Rows   int64             //
	Meta   map[string]string // batch custom metadata
	Int64s []int64           // values of the first column when it is int64
	Strs   []string          // values of the first column when it is utf8
	ErrTyp string            // exception_type of an error batch
}

// Resp is a decoded response body: possibly several concatenated IPC streams.
type Resp struct {
	Batches []Batch
	Err     string // decode error, "" if the body decoded cleanly
}

// FirstError returns the first error batch, or nil.
func (r Resp) FirstError() *Batch {
	for i := range r.Batches {
		if r.Batches[i].Kind == "error" {
			return &r.Batches[i]
		}
	}
	return nil
}

// ErrorKind returns vgi_rpc.error_kind of the first error batch ("" if none).
func (r Resp) ErrorKind() string {
	if b := r.FirstError(); b != nil {
		return b.Meta["vgi_rpc.error_kind"]
	}
	return ""
}

// Token returns the stream-state and call-state tokens found in the response.
func (r Resp) Token() (state, call string, ok bool) {
	for i := range r.Batches {
		if r.Batches[i].Meta["vgi_rpc.stream_state#b64"] != "" {
			return r.Batches[i].Meta["vgi_rpc.stream_state#b64"], r.Batches[i].Meta["vgi_rpc.call_state#b64"], true
		}
	}
	return "", "", false
}

// DataInt64 returns the int64 values of all data batches, in order.
func (r Resp) DataInt64() []int64 {
	var out []int64
	for _, b := range r.Batches {
		if b.Kind == "data" {
			out = append(out, b.Int64s...)
		}
	}
	return out
}

// DataStr returns the utf8 values of all data batches, in order.
func (r Resp) DataStr() []string {
	var out []string
	for _, b := range r.Batches {
		if b.Kind == "data" {
			out = append(out, b.Strs...)
		}
	}
	return out
}

// ReadResponse decodes body (the bytes of a well-formed server response; not
// for hostile input).
func ReadResponse(body []byte) (res Resp) {
	defer func() {
		if rv := recover(); rv != nil {
			res.Err = fmt.Sprintf("decoder panic: %v", rv)
		}
	}()
	rd := bytes.NewReader(body)
	for rd.Len() > 0 {
		r, err := ipc.NewReader(rd)
		if err != nil {
			if err == io.EOF {
				break
			}
			res.Err = err.Error()
			return res
		}
		for r.Next() {
			rb := r.RecordBatch()
			b := Batch{Rows: rb.NumRows(), Meta: map[string]string{}}
			if wm, ok := rb.(arrow.RecordBatchWithMetadata); ok {
				m := wm.Metadata()
				for i, k := range m.Keys() {
					b.Meta[k] = m.Values()[i]
				}
			}
			switch {
			case b.Meta["vgi_rpc.log_level"] == "EXCEPTION":
				b.Kind = "error"
				var extra struct {
					ExceptionType string `json:"exception_type"`
				}
				_ = json.Unmarshal([]byte(b.Meta["vgi_rpc.log_extra"]), &extra)
				b.ErrTyp = extra.ExceptionType
			case b.Meta["vgi_rpc.log_level"] != "":
				b.Kind = "log"
			case b.Meta["vgi_rpc.stream_state#b64"] != "" && rb.NumRows() == 0:
				// Zero-row sentinel. An exchange reply carries the token on
				// its (non-empty) data batch instead, which stays "data".
				b.Kind = "token"
			default:
				b.Kind = "data"
				if rb.NumCols() > 0 {
					switch c := rb.Column(0).(type) {
					case *array.Int64:
						for i := 0; i < c.Len(); i++ {
							b.Int64s = append(b.Int64s, c.Value(i))
						}
					case *array.String:
						for i := 0; i < c.Len(); i++ {
							b.Strs = append(b.Strs, c.Value(i))
						}
					}
				}
			}
			res.Batches = append(res.Batches, b)
		}
		if err := r.Err(); err != nil {
			res.Err = err.Error()
			r.Release()
			return res
		}
		r.Release()
	}
	return res
}

// ReadOneStream reads exactly one IPC stream (schema .. EOS) from rd, as a
// lockstep socket client does after writing a request.
func ReadOneStream(rd io.Reader) (res Resp, err error) {
	defer func() {
		if rv := recover(); rv != nil {
			err = fmt.Errorf("decoder panic: %v", rv)
		}
	}()
	r, err := ipc.NewReader(rd)
	if err != nil {
		return res, err
	}
	defer r.Release()
	for r.Next() {
		rb := r.RecordBatch()
		b := Batch{Rows: rb.NumRows(), Meta: map[string]string{}}
		if wm, ok := rb.(arrow.RecordBatchWithMetadata); ok {
			m := wm.Metadata()
			for i, k := range m.Keys() {
				b.Meta[k] = m.Values()[i]
			}
		}
		switch {
		case b.Meta["vgi_rpc.log_level"] == "EXCEPTION":
			b.Kind = "error"
		case b.Meta["vgi_rpc.log_level"] != "":
			b.Kind = "log"
		default:
			b.Kind = "data"
			if rb.NumCols() > 0 {
				if c, ok := rb.Column(0).(*array.Int64); ok {
					for i := 0; i < c.Len(); i++ {
						b.Int64s = append(b.Int64s, c.Value(i))
					}
				}
			}
		}
		res.Batches = append(res.Batches, b)
	}
	return res, r.Err()
}
