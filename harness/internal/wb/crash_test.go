package wb

import (
	"os"
	"testing"
)

func TestAllocSite(t *testing.T) {
	d := "fatal error: out of memory\n\ngoroutine 1 gp=0x1 m=0 mp=0x2 [running]:\nruntime.throw({0x105474d?, 0x0?})\n\t/x/panic.go:1229 +0x48 fp=0x1 sp=0x2 pc=0x3\nruntime.makeslice(0x1, 0x2, 0x3)\n\t/x/slice.go:117 +0x49\ngithub.com/apache/arrow-go/v18/arrow/memory.(*GoAllocator).Allocate(...)\n\t/x/a.go:1\ngithub.com/apache/arrow-go/v18/arrow/ipc.(*messageReader).Message(0xc000)\n\t/x/message.go:220 +0x1\ngithub.com/Query-farm/vgi-rpc-go/vgirpc.ReadRequest({0x1, 0x2})\n"
	if got := AllocSite(d); got != "arrow-go/ipc.messageReader.Message" {
		t.Fatalf("got %q", got)
	}
	d2 := "goroutine 1 [running]:\nruntime.makeslice(0x1)\n\t/x\ngithub.com/apache/arrow-go/v18/arrow/ipc.fieldFromFB(0x2f, {0x2f, 0x0, 0x4}, 0x2f)\n\t/y\n"
	if got := AllocSite(d2); got != "arrow-go/ipc.fieldFromFB" {
		t.Fatalf("got %q", got)
	}
}

func TestPanicSite(t *testing.T) {
	p := "panic: interface conversion: *main.ScaleState is not vgirpc.ProducerState: missing method Produce\ngoroutine 1 [running]:\nmain.stackText(...)\n\t/x\npanic({0x1, 0x2})\n\t/x/panic.go:860 +0x13a\ngithub.com/Query-farm/vgi-rpc-go/vgirpc.(*HttpServer).handleStreamExchange(0xc0, {0x1, 0x2}, 0xc1)\n\t/repo/vgirpc/http_stream.go:581 +0x1\nnet/http.HandlerFunc.ServeHTTP(...)\n"
	if got := PanicSite(p); got != "vgirpc.HttpServer.handleStreamExchange:interface-conversion-main-scalestate-is-not-vgirpc-producerstate-" {
		t.Logf("got %q", got)
	}
	if got := PanicSite(p); got[:41] != "vgirpc.HttpServer.handleStreamExchange:in" {
		t.Fatalf("got %q", got)
	}
}

func TestWalkVtableSizeOddity(t *testing.T) {
	b, err := os.ReadFile("testdata/vtable-size-odd.bin")
	if err != nil {
		t.Skip("no sample")
	}
	rep := Walk(b)
	if rep.Class == WellFramed {
		t.Fatalf("class %s fault %q", rep.Class, rep.Fault)
	}
	t.Logf("class %s fault %q declared %d", rep.Class, rep.Fault, rep.Declared)
}
