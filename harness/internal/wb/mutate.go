package wb

import (
	"encoding/binary"
	"math/rand/v2"

	"verif/harness/internal/gen"
)

// Hostile describes how a hostile body was derived (kept in witnesses).
type Hostile struct {
	Base  string         `json:"base"`            // which valid body it was derived from
	Kind  string         `json:"kind"`            // mutation family
	Steps []gen.Mutation `json:"steps,omitempty"` // byte-level steps
	Note  string         `json:"note,omitempty"`
}

// extreme lengths written into length fields by the targeted mutators.
// Mid-range values (tens of MiB .. a few GiB) are deliberately rare: an allocation
// of that size SUCCEEDS under the 8 GiB address-space limit and then costs seconds
// of page faults on this machine, without telling us anything the huge values do not.
var extremeMeta = []int32{0x7fffffff, 1 << 20, 1 << 16, 4096, -1, -0x80000000, 1, 7}
var extremeBody = []int64{64 << 30, 1 << 40, 1 << 46, 0x7fffffffffffffff, 1 << 36, 1 << 24, 1 << 16, -1, -0x8000000000000000, 1}

// MutateFraming overwrites one message's metadata length or body length with
// an extreme value (the "single flipped bit in a length" family, made
// systematic). Returns nil when the body has no such field.
func MutateFraming(rng *rand.Rand, b []byte) ([]byte, Hostile, bool) {
	rep := Walk(b)
	var cands []Msg
	for _, m := range rep.Msgs {
		if !m.IsEOS {
			cands = append(cands, m)
		}
	}
	if len(cands) == 0 {
		return nil, Hostile{}, false
	}
	m := cands[rng.IntN(len(cands))]
	out := append([]byte(nil), b...)
	switch {
	case m.BodyLenPos >= 0 && rng.IntN(3) != 0:
		if rng.IntN(4) == 0 { // flip one bit of the body length
			bit := rng.IntN(64)
			out[m.BodyLenPos+bit/8] ^= 1 << (bit % 8)
			return out, Hostile{Kind: "bodylen-bitflip", Steps: []gen.Mutation{{Kind: "bitflip", Pos: m.BodyLenPos + bit/8, Arg: bit % 8}}}, true
		}
		v := extremeBody[rng.IntN(len(extremeBody))]
		binary.LittleEndian.PutUint64(out[m.BodyLenPos:], uint64(v))
		return out, Hostile{Kind: "bodylen-set", Steps: []gen.Mutation{{Kind: "int64", Pos: m.BodyLenPos, Arg: int(v >> 20)}}}, true
	default:
		if rng.IntN(4) == 0 {
			bit := rng.IntN(32)
			out[m.MetaLenPos+bit/8] ^= 1 << (bit % 8)
			return out, Hostile{Kind: "metalen-bitflip", Steps: []gen.Mutation{{Kind: "bitflip", Pos: m.MetaLenPos + bit/8, Arg: bit % 8}}}, true
		}
		v := extremeMeta[rng.IntN(len(extremeMeta))]
		binary.LittleEndian.PutUint32(out[m.MetaLenPos:], uint32(v))
		return out, Hostile{Kind: "metalen-set", Steps: []gen.Mutation{{Kind: "int32", Pos: m.MetaLenPos, Arg: int(v)}}}, true
	}
}

// MutateBytesN applies 1..n random byte-level mutations.
func MutateBytesN(rng *rand.Rand, b []byte, n int) ([]byte, Hostile) {
	k := 1 + rng.IntN(n)
	h := Hostile{Kind: "bytes"}
	out := b
	for i := 0; i < k; i++ {
		var m gen.Mutation
		out, m = gen.MutateBytes(rng, out)
		h.Steps = append(h.Steps, m)
	}
	return out, h
}

// MutateInsideMeta flips bytes only inside flatbuffer metadata regions (where
// vtable offsets, type tags and buffer descriptors live) so that the framing
// stays intact and the damage reaches the schema / record-batch decoders.
func MutateInsideMeta(rng *rand.Rand, b []byte) ([]byte, Hostile, bool) {
	rep := Walk(b)
	var cands []Msg
	for _, m := range rep.Msgs {
		if !m.IsEOS && m.MetaLen > 0 {
			cands = append(cands, m)
		}
	}
	if len(cands) == 0 {
		return nil, Hostile{}, false
	}
	out := append([]byte(nil), b...)
	h := Hostile{Kind: "meta-bytes"}
	k := 1 + rng.IntN(3)
	for i := 0; i < k; i++ {
		m := cands[rng.IntN(len(cands))]
		p := m.MetaStart + rng.IntN(m.MetaLen)
		if m.BodyLenPos >= 0 && p >= m.BodyLenPos && p < m.BodyLenPos+8 {
			continue // keep the framing: body length untouched
		}
		if rng.IntN(2) == 0 {
			bit := rng.IntN(8)
			out[p] ^= 1 << bit
			h.Steps = append(h.Steps, gen.Mutation{Kind: "bitflip", Pos: p, Arg: bit})
		} else {
			v := []byte{0, 1, 0x7f, 0x80, 0xff, byte(rng.IntN(256))}[rng.IntN(6)]
			out[p] = v
			h.Steps = append(h.Steps, gen.Mutation{Kind: "byteset", Pos: p, Arg: int(v)})
		}
	}
	return out, h, true
}

// MutateInsideBody damages only message bodies (validity bitmaps, offsets,
// values) and leaves all metadata intact: the batch still "parses" and the
// damage is only met when values are read.
func MutateInsideBody(rng *rand.Rand, b []byte) ([]byte, Hostile, bool) {
	rep := Walk(b)
	var cands []Msg
	for _, m := range rep.Msgs {
		if !m.IsEOS && m.BodyLen > 0 {
			cands = append(cands, m)
		}
	}
	if len(cands) == 0 {
		return nil, Hostile{}, false
	}
	out := append([]byte(nil), b...)
	h := Hostile{Kind: "body-bytes"}
	k := 1 + rng.IntN(4)
	for i := 0; i < k; i++ {
		m := cands[rng.IntN(len(cands))]
		bodyStart := m.End - int(m.BodyLen)
		p := bodyStart + rng.IntN(int(m.BodyLen))
		if rng.IntN(2) == 0 && p+4 <= m.End {
			vals := [][]byte{{0xff, 0xff, 0xff, 0xff}, {0xff, 0xff, 0xff, 0x7f}, {0, 0, 0, 0x80}, {0, 0, 0, 0}, {0, 1, 0, 0}}
			kk := rng.IntN(len(vals))
			p &^= 3
			if p < bodyStart {
				p = bodyStart
			}
			if p+4 <= m.End {
				copy(out[p:], vals[kk])
				h.Steps = append(h.Steps, gen.Mutation{Kind: "int32", Pos: p, Arg: kk})
				continue
			}
		}
		bit := rng.IntN(8)
		out[p] ^= 1 << bit
		h.Steps = append(h.Steps, gen.Mutation{Kind: "bitflip", Pos: p, Arg: bit})
	}
	return out, h, true
}

// Noise returns n random bytes; with some probability it starts with a
// continuation marker so the reader gets past the first prefix.
func Noise(rng *rand.Rand, n int) []byte {
	b := make([]byte, n)
	for i := range b {
		b[i] = byte(rng.IntN(256))
	}
	if n >= 8 && rng.IntN(2) == 0 {
		binary.LittleEndian.PutUint32(b, 0xFFFFFFFF)
		if rng.IntN(2) == 0 {
			binary.LittleEndian.PutUint32(b[4:], uint32(rng.IntN(n)))
		}
	}
	return b
}

// NoiseFramed returns random bytes that always begin with a continuation
// marker and a metadata length that fits, so a reader gets as far as the
// (random) flatbuffer instead of allocating a random 31-bit legacy length.
func NoiseFramed(rng *rand.Rand, n int) []byte {
	if n < 16 {
		n = 16
	}
	b := make([]byte, n)
	for i := range b {
		b[i] = byte(rng.IntN(256))
	}
	binary.LittleEndian.PutUint32(b, 0xFFFFFFFF)
	binary.LittleEndian.PutUint32(b[4:], uint32(8+rng.IntN(n-15)))
	return b
}
