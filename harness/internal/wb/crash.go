package wb

import (
	"regexp"
	"strings"
)

var rePanicLine = regexp.MustCompile(`(?m)^panic: `)

var (
	reFatal  = regexp.MustCompile(`(?m)^fatal error: (.*)$`)
	reSignal = regexp.MustCompile(`(?m)^(?:\[signal |SIG)([A-Z]+)`)
	reNum    = regexp.MustCompile(`0x[0-9a-fA-F]+|[0-9]+`)
	reFrame  = regexp.MustCompile(`(?m)^(github\.com/Query-farm/vgi-rpc-go/[^\s(]+?)(?:\(|$)`)
	reArrow  = regexp.MustCompile(`(?m)^(github\.com/apache/arrow-go/v18/[^\s(]+?)(?:\(|$)`)
	reSlug   = regexp.MustCompile(`[^a-z0-9]+`)
)

// CrashKind names how a child process died, from its stderr: "oom" for the Go
// runtime's out-of-memory fatal error, otherwise a slug of the fatal error /
// signal, "died" when nothing recognisable was printed.
func CrashKind(detail string) string {
	if strings.Contains(detail, "runtime: out of memory") || strings.Contains(detail, "cannot allocate") && strings.Contains(detail, "fatal error") {
		return "oom"
	}
	if strings.Contains(detail, "pthread_create failed") || strings.Contains(detail, "failed to create new OS thread") {
		return "thread-create-failed"
	}
	if m := reFatal.FindStringSubmatch(detail); m != nil {
		return "fatal-" + slug(m[1])
	}
	if m := reSignal.FindStringSubmatch(detail); m != nil {
		return "signal-" + strings.ToLower(m[1])
	}
	if strings.Contains(detail, "goroutine stack exceeds") {
		return "fatal-stack-overflow"
	}
	if rePanicLine.MatchString(detail) {
		// an unrecovered panic ended the process: it happened on a goroutine
		// that nobody up the request's stack could have wrapped in a recover
		return "goroutine-panic"
	}
	return "died"
}

func slug(s string) string {
	s = reNum.ReplaceAllString(strings.ToLower(s), "N")
	s = strings.Trim(reSlug.ReplaceAllString(s, "-"), "-")
	if len(s) > 60 {
		s = s[:60]
	}
	return s
}

// PanicSite gives a seed-independent name for a recovered panic: the first
// frame inside the library under test (function name only) plus a slug of the
// panic message with all numbers removed.
func PanicSite(text string) string {
	msg := text
	if i := strings.IndexByte(msg, '\n'); i >= 0 {
		msg = msg[:i]
	}
	msg = strings.TrimPrefix(msg, "panic: ")
	site := "unknown-frame"
	arrowSite := ""
	for _, m := range reAnyFrame.FindAllStringSubmatch(text, -1) {
		f := m[1]
		if strings.HasPrefix(f, "github.com/Query-farm/vgi-rpc-go/") {
			site = normFrame(f)
			break
		}
		if arrowSite == "" && strings.HasPrefix(f, "github.com/apache/arrow-go/") && !strings.Contains(f, "/arrow/memory.") {
			arrowSite = normFrame(f)
		}
	}
	if site == "unknown-frame" && arrowSite != "" {
		site = arrowSite
	}
	return site + ":" + slug(msg)
}

var reAnyFrame = regexp.MustCompile(`(?m)^([A-Za-z0-9_][^\s]*)\([^()]*\)[ \t]*(?:fp=.*)?$`)

// AllocSite names where a dying process was when the runtime gave up: the
// first frame of the crashing goroutine that is neither the Go runtime nor
// arrow-go's allocator plumbing, as "arrow-go/ipc.schemaFromFB" or
// "vgirpc.ReadRequest". "unknown-site" when the dump has no such frame.
func AllocSite(detail string) string {
	i := strings.Index(detail, "[running]")
	if i < 0 {
		i = 0
	}
	for _, m := range reAnyFrame.FindAllStringSubmatch(detail[i:], -1) {
		f := m[1]
		switch {
		case strings.HasPrefix(f, "runtime."), strings.HasPrefix(f, "runtime/"),
			strings.Contains(f, "/arrow/memory."), strings.Contains(f, "/arrow/internal/"), strings.HasPrefix(f, "internal/"),
			strings.HasPrefix(f, "bytes."), strings.HasPrefix(f, "io."):
			continue
		}
		return normFrame(f)
	}
	return "unknown-site"
}

func normFrame(f string) string {
	f = strings.NewReplacer("(*", "", ")", "", "[...]", "").Replace(f)
	switch {
	case strings.HasPrefix(f, "github.com/apache/arrow-go/v18/arrow/"):
		return "arrow-go/" + strings.TrimPrefix(f, "github.com/apache/arrow-go/v18/arrow/")
	case strings.HasPrefix(f, "github.com/Query-farm/vgi-rpc-go/"):
		return strings.TrimPrefix(f, "github.com/Query-farm/vgi-rpc-go/")
	case strings.HasPrefix(f, "github.com/google/flatbuffers/go."):
		return "flatbuffers." + strings.TrimPrefix(f, "github.com/google/flatbuffers/go.")
	}
	// closures: drop trailing .funcN
	return f
}
