// Package wb holds helpers shared by the C01 and C03 checks (worker wB): an
// independent Arrow-IPC *framing* walker (pure byte arithmetic, never calls
// arrow-go, so it is safe on hostile bytes in the parent process), targeted
// framing mutators, and Arrow-level request builders.
package wb

import (
	"encoding/binary"
	"fmt"
)

// Frame classes of a byte string read as a sequence of encapsulated IPC
// messages the way a stream reader would consume it (first fault decides).
const (
	WellFramed       = "well-framed"       // every message fits, every started stream ends in EOS, no bytes left over
	Truncated        = "truncated"         // ends inside a 4/8-byte message prefix, or at a message boundary without EOS
	Overdeclared     = "overdeclared"      // a declared metadata/body length exceeds the bytes that follow (declared < 1 GiB)
	OverdeclaredHuge = "overdeclared-huge" // same, declared length >= 1 GiB (the giant-allocation class)
	Garbage          = "garbage"           // negative length, or metadata that is not a walkable flatbuffer Message
)

const hugeDeclared = 1 << 30

// Msg is one framed message found by the walker.
type Msg struct {
	Start       int   // offset of the continuation marker (or legacy length)
	Legacy      bool  // no 0xFFFFFFFF continuation marker (pre-0.15 framing: the 4 bytes ARE the length)
	MetaLenPos  int   // offset of the int32 metadata length
	MetaStart   int   // offset of the flatbuffer
	MetaLen     int   // declared metadata length
	BodyLenPos  int   // absolute offset of the int64 Message.bodyLength field, -1 when the field is absent (default 0)
	BodyLen     int64 // declared body length
	End         int   // offset just after the body
	HeaderType  byte  // Message.header_type (1 schema, 2 dictionary batch, 3 record batch), 0 if absent
	IsEOS       bool
	StreamIndex int
}

// Report is the result of walking a byte string.
type Report struct {
	Class       string
	Msgs        []Msg
	Streams     int    // number of complete streams (EOS seen)
	FaultOffset int    // offset of the first fault, -1 if none
	Fault       string // what the first fault was
	Declared    int64  // the offending declared length for the overdeclared classes
}

// Walk classifies b. It mirrors what arrow-go's message reader does with the
// prefix bytes (continuation marker 0xFFFFFFFF + int32 length; anything else
// is taken as a legacy int32 length; 0 is EOS) but allocates nothing and
// checks every declared length against the bytes that are really there.
func Walk(b []byte) Report {
	rep := Report{FaultOffset: -1}
	pos := 0
	open := false // inside a stream that has not seen EOS yet
	stream := 0
	fault := func(class, what string, at int, declared int64) Report {
		rep.Class, rep.Fault, rep.FaultOffset, rep.Declared = class, what, at, declared
		return rep
	}
	for pos < len(b) {
		m := Msg{Start: pos, BodyLenPos: -1, StreamIndex: stream}
		if len(b)-pos < 4 {
			return fault(Truncated, "fewer than 4 bytes where a message prefix should be", pos, 0)
		}
		marker := binary.LittleEndian.Uint32(b[pos:])
		var mlen int32
		switch marker {
		case 0xFFFFFFFF:
			if len(b)-pos < 8 {
				return fault(Truncated, "continuation marker without a metadata length", pos, 0)
			}
			m.MetaLenPos = pos + 4
			mlen = int32(binary.LittleEndian.Uint32(b[pos+4:]))
			pos += 8
		case 0:
			m.Legacy, m.IsEOS, m.End = true, true, pos+4
			rep.Msgs = append(rep.Msgs, m)
			pos += 4
			if open {
				rep.Streams++
			}
			open = false
			stream++
			continue
		default:
			m.Legacy = true
			m.MetaLenPos = pos
			mlen = int32(marker)
			pos += 4
		}
		if mlen == 0 {
			m.IsEOS, m.End = true, pos
			rep.Msgs = append(rep.Msgs, m)
			if open {
				rep.Streams++
			}
			open = false
			stream++
			continue
		}
		if mlen < 0 {
			return fault(Garbage, "negative metadata length", m.MetaLenPos, int64(mlen))
		}
		m.MetaStart, m.MetaLen = pos, int(mlen)
		if int(mlen) > len(b)-pos {
			cl := Overdeclared
			if int64(mlen) >= hugeDeclared {
				cl = OverdeclaredHuge
			}
			return fault(cl, fmt.Sprintf("metadata length %d exceeds the %d bytes that follow", mlen, len(b)-pos), m.MetaLenPos, int64(mlen))
		}
		meta := b[pos : pos+int(mlen)]
		bl, blPos, ht, ok := messageBodyLength(meta)
		if !ok {
			return fault(Garbage, "metadata is not a walkable flatbuffer Message", pos, 0)
		}
		if blPos >= 0 {
			m.BodyLenPos = pos + blPos
		}
		m.BodyLen, m.HeaderType = bl, ht
		pos += int(mlen)
		if bl < 0 {
			return fault(Garbage, "negative body length", m.BodyLenPos, bl)
		}
		if bl > int64(len(b)-pos) {
			cl := Overdeclared
			if bl >= hugeDeclared {
				cl = OverdeclaredHuge
			}
			return fault(cl, fmt.Sprintf("body length %d exceeds the %d bytes that follow", bl, len(b)-pos), m.BodyLenPos, bl)
		}
		pos += int(bl)
		m.End = pos
		rep.Msgs = append(rep.Msgs, m)
		open = true
	}
	if open {
		return fault(Truncated, "stream ends at a message boundary without EOS", pos, 0)
	}
	if len(rep.Msgs) == 0 {
		return fault(Truncated, "empty input", 0, 0)
	}
	rep.Class = WellFramed
	return rep
}

// messageBodyLength reads org.apache.arrow.flatbuf.Message.bodyLength (field
// id 3) and header_type (field id 1) out of a flatbuffer with full bounds
// checks. blPos is the offset of the int64 inside meta, -1 when the field is
// absent (value defaults to 0).
func messageBodyLength(meta []byte) (bodyLen int64, blPos int, headerType byte, ok bool) {
	if len(meta) < 8 {
		return 0, -1, 0, false
	}
	root := int(binary.LittleEndian.Uint32(meta))
	if root < 4 || root+4 > len(meta) {
		return 0, -1, 0, false
	}
	soff := int(int32(binary.LittleEndian.Uint32(meta[root:])))
	vt := root - soff
	if vt < 0 || vt+4 > len(meta) {
		return 0, -1, 0, false
	}
	vtSize := int(binary.LittleEndian.Uint16(meta[vt:]))
	if vtSize < 4 || vt+vtSize > len(meta) {
		return 0, -1, 0, false
	}
	field := func(id int) (int, bool) { // offset of the field inside meta, 0 = absent
		slot := 4 + 2*id
		// The flatbuffers runtime treats a slot as present when it STARTS
		// inside the declared vtable size (slot < vtSize), even if its second
		// byte lies beyond it; mirror that, or a one-byte change of the vtable
		// size makes the walker and the reader disagree about bodyLength.
		if slot >= vtSize {
			return 0, true
		}
		if vt+slot+2 > len(meta) {
			return 0, false
		}
		off := int(binary.LittleEndian.Uint16(meta[vt+slot:]))
		if off == 0 {
			return 0, true
		}
		if root+off >= len(meta) {
			return 0, false
		}
		return root + off, true
	}
	htPos, ok1 := field(1)
	if !ok1 {
		return 0, -1, 0, false
	}
	if htPos > 0 {
		headerType = meta[htPos]
	}
	p, ok2 := field(3)
	if !ok2 {
		return 0, -1, 0, false
	}
	if p == 0 {
		return 0, -1, headerType, true
	}
	if p+8 > len(meta) {
		return 0, -1, 0, false
	}
	return int64(binary.LittleEndian.Uint64(meta[p:])), p, headerType, true
}

// Boundaries returns every message start/end offset of a well-framed prefix
// (used to truncate "at every message boundary").
func Boundaries(b []byte) []int {
	rep := Walk(b)
	seen := map[int]bool{}
	var out []int
	for _, m := range rep.Msgs {
		for _, o := range []int{m.Start, m.MetaStart, m.End} {
			if o > 0 && o <= len(b) && !seen[o] {
				seen[o] = true
				out = append(out, o)
			}
		}
	}
	return out
}
