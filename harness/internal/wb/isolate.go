package wb

import (
	"sync/atomic"
	"time"

	"verif/harness/internal/mon"
)

// BigAllocThreshold: a body whose first framing fault declares at least this
// many bytes makes arrow-go allocate that much before it notices the bytes are
// not there. Such an allocation succeeds under the 8 GiB address-space limit,
// and a SECOND one in the same process reuses the span the collector just
// freed, which then has to be zeroed — tens of seconds of page faults per GiB
// on this machine (a fresh, never-touched span costs nothing). Bodies of that
// kind therefore run in children with the collector off (GOGC=off: nothing is
// reused), a few per child so that the sum of their declared lengths stays far
// below the address-space limit and no innocent case can be the one that hits it.
const BigAllocThreshold = 16 << 20

const binBudget = 3 << 30 // sum of declared lengths per GOGC=off child
const binMax = 8

// Declared returns the length the first framing fault of b declares (0 when
// nothing is over-declared).
func Declared(b []byte) int64 {
	rep := Walk(b)
	if rep.Class == Overdeclared || rep.Class == OverdeclaredHuge {
		return rep.Declared
	}
	return 0
}

// RunPartitioned runs inputs through mon.RunIsolated (8 GiB ulimit -v).
// declared[i] is Declared() of the hostile body inside inputs[i]. Inputs below
// BigAllocThreshold go in batches of `batch`; the others are binned as
// described above. Outcomes come back in input order.
func RunPartitioned(kind string, inputs [][]byte, declared []int64, batch int, timeout time.Duration) ([]mon.Outcome, error) {
	outs, err := runPartitioned(kind, inputs, declared, batch, timeout)
	if err != nil {
		return nil, err
	}
	n, err := ConfirmCrashes(kind, inputs, outs, timeout)
	NotReproduced.Add(int64(n))
	return outs, err
}

// NotReproduced counts crashes that ConfirmCrashes could not reproduce in a
// fresh child (reported in the evidence).
var NotReproduced atomic.Int64

func runPartitioned(kind string, inputs [][]byte, declared []int64, batch int, timeout time.Duration) ([]mon.Outcome, error) {
	outs := make([]mon.Outcome, len(inputs))
	var si []int
	var small [][]byte
	var bins [][]int
	var cur []int
	var curSum int64
	for i, in := range inputs {
		d := declared[i]
		if d < BigAllocThreshold {
			si, small = append(si, i), append(small, in)
			continue
		}
		if d > binBudget { // will die (or take the whole budget): alone
			bins = append(bins, []int{i})
			continue
		}
		if len(cur) > 0 && (curSum+d > binBudget || len(cur) >= binMax) {
			bins, cur, curSum = append(bins, cur), nil, 0
		}
		cur, curSum = append(cur, i), curSum+d
	}
	if len(cur) > 0 {
		bins = append(bins, cur)
	}
	if len(small) > 0 {
		o, err := mon.RunIsolated(kind, small, mon.ChildOpt{VMemKiB: 8 << 20, BatchSize: batch, Timeout: timeout})
		if err != nil {
			return nil, err
		}
		for j, x := range o {
			x.Index = si[j]
			outs[si[j]] = x
		}
	}
	for _, bin := range bins {
		ins := make([][]byte, len(bin))
		for j, i := range bin {
			ins[j] = inputs[i]
		}
		o, err := mon.RunIsolated(kind, ins, mon.ChildOpt{VMemKiB: 8 << 20, Timeout: timeout, Env: []string{"GOGC=off"}})
		if err != nil {
			return nil, err
		}
		for j, x := range o {
			x.Index = bin[j]
			outs[bin[j]] = x
		}
	}
	return outs, nil
}

// ConfirmCrashes re-runs, alone in a fresh child, every case whose child died
// of anything other than the Go runtime's out-of-memory error. A child that
// has already decoded a few hostile bodies can sit close to the 8 GiB
// address-space limit (Go never unmaps heap address space), and then dies in
// an innocent case with "runtime/cgo: pthread_create failed" — a death that
// belongs to the harness's own ulimit, not to the journalled case. A crash that
// is the case's own doing happens again in a fresh process. Returns how many
// crashes did not reproduce (their outcome is replaced by the second run's).
func ConfirmCrashes(kind string, inputs [][]byte, outs []mon.Outcome, timeout time.Duration) (notReproduced int, err error) {
	for i := range outs {
		if !outs[i].Crashed || CrashKind(outs[i].Detail) == "oom" {
			continue
		}
		o, e := mon.RunIsolated(kind, [][]byte{inputs[i]}, mon.ChildOpt{VMemKiB: 8 << 20, Timeout: timeout})
		if e != nil {
			return notReproduced, e
		}
		second := o[0]
		second.Index = outs[i].Index
		if !second.Crashed {
			notReproduced++
		}
		outs[i] = second
	}
	return notReproduced, nil
}
