package wb

import (
	"time"

	"verif/harness/internal/mon"
)

// BigAllocThreshold: a body whose first framing fault declares at least this
// many bytes makes arrow-go allocate that much before it notices the bytes are
// not there. Such an allocation succeeds under the 8 GiB address-space limit,
// and a SECOND one in the same process reuses the freed span, which has to be
// zeroed — tens of seconds of page faults per GiB on this machine. Those
// bodies therefore get a child process of their own.
const BigAllocThreshold = 16 << 20

// RunPartitioned runs inputs through mon.RunIsolated, the ones flagged big one
// per child process, the rest in batches. Outcomes come back in input order.
func RunPartitioned(kind string, inputs [][]byte, big []bool, batch int, timeout time.Duration) ([]mon.Outcome, error) {
	var si, bi []int
	var small, bigs [][]byte
	for i, in := range inputs {
		if big[i] {
			bi, bigs = append(bi, i), append(bigs, in)
		} else {
			si, small = append(si, i), append(small, in)
		}
	}
	outs := make([]mon.Outcome, len(inputs))
	if len(small) > 0 {
		o, err := mon.RunIsolated(kind, small, mon.ChildOpt{VMemKiB: 8 << 20, BatchSize: batch, Timeout: timeout})
		if err != nil {
			return nil, err
		}
		for j, x := range o {
			x.Index = si[j]
			outs[si[j]] = x
		}
	}
	if len(bigs) > 0 {
		o, err := mon.RunIsolated(kind, bigs, mon.ChildOpt{VMemKiB: 8 << 20, BatchSize: 1, Timeout: timeout})
		if err != nil {
			return nil, err
		}
		for j, x := range o {
			x.Index = bi[j]
			outs[bi[j]] = x
		}
	}
	return outs, nil
}

// IsBig reports whether a hostile body belongs in a child of its own.
func IsBig(b []byte) bool {
	rep := Walk(b)
	return rep.Declared >= BigAllocThreshold
}
