package wc

import (
	"bytes"
	"encoding/json"
	"fmt"
	"io"
	"net/http"
	"net/http/httptest"
	"runtime/debug"

	"github.com/Query-farm/vgi-rpc-go/vgirpc"
	"github.com/apache/arrow-go/v18/arrow"
	"github.com/apache/arrow-go/v18/arrow/array"
	"github.com/apache/arrow-go/v18/arrow/ipc"

	"verif/harness/internal/gen"
)

// Reference-client helpers. Requests are framed here (schema + one batch with
// vgi_rpc.* custom metadata + EOS) rather than with vgirpc.WriteRequest, and
// responses are decoded with the Arrow IPC reader directly.

const ArrowCT = "application/vnd.apache.arrow.stream"

// RequestBytes frames params as a request for method. extra are additional
// custom-metadata pairs (k, v, k, v ...).
func RequestBytes(method string, params arrow.RecordBatch, extra ...string) []byte {
	keys := []string{vgirpc.MetaMethod, vgirpc.MetaRequestVersion}
	vals := []string{method, vgirpc.ProtocolVersion}
	for i := 0; i+1 < len(extra); i += 2 {
		keys = append(keys, extra[i])
		vals = append(vals, extra[i+1])
	}
	wm := gen.WithMeta(params, keys, vals)
	defer wm.Release()
	return gen.IPCBytes(params.Schema(), wm)
}

// EmptyBatch is a zero-column batch with the given row count.
func EmptyBatch(rows int64) arrow.RecordBatch {
	return array.NewRecordBatch(EmptySchema, nil, rows)
}

// TickStream is a client input stream of n empty ticks.
func TickStream(n int) []byte {
	recs := make([]arrow.RecordBatch, n)
	for i := range recs {
		recs[i] = EmptyBatch(0)
	}
	return gen.IPCBytes(EmptySchema, recs...)
}

// ErrInfo is the decoded error envelope of one EXCEPTION batch.
type ErrInfo struct {
	Level     string            `json:"level"`
	Message   string            `json:"log_message"`
	ExtraRaw  string            `json:"log_extra"`
	Kind      string            `json:"error_kind"`
	HasKind   bool              `json:"has_error_kind"`
	Type      string            `json:"exception_type"`
	ExMessage string            `json:"exception_message"`
	Traceback string            `json:"traceback"`
	NFrames   int               `json:"n_frames"`
	ExtraOK   bool              `json:"log_extra_is_json"`
	Meta      map[string]string `json:"-"`
}

// Obs is what a client sees of one response.
type Obs struct {
	Status     int         // HTTP status (0 on pipe)
	Header     http.Header // HTTP only
	Streams    int
	Batches    []arrow.RecordBatch // all batches of all streams, in order (retained)
	Schemas    []*arrow.Schema
	Errors     []ErrInfo
	DecodeErr  string
	Panicked   string // non-empty if the server entry point panicked (value + stack)
	RawLen     int
	ResultData []arrow.RecordBatch // batches with rows > 0 and no log level
}

// Release drops the retained batches.
func (o *Obs) Release() {
	for _, b := range o.Batches {
		b.Release()
	}
	o.Batches = nil
}

// DecodeResponse parses all concatenated IPC streams in data.
func DecodeResponse(data []byte, o *Obs) {
	o.RawLen = len(data)
	off := 0
	for off < len(data) {
		sc, recs, n, err := gen.ReadIPC(data[off:])
		if err != nil && n == 0 && len(recs) == 0 {
			o.DecodeErr = err.Error()
			return
		}
		o.Streams++
		o.Schemas = append(o.Schemas, sc)
		for _, r := range recs {
			o.Batches = append(o.Batches, r)
			m := gen.MetaMap(r)
			if lvl, ok := m[vgirpc.MetaLogLevel]; ok {
				if lvl == string(vgirpc.LogException) {
					o.Errors = append(o.Errors, parseErr(m))
				}
				continue
			}
			o.ResultData = append(o.ResultData, r)
		}
		if err != nil {
			o.DecodeErr = err.Error()
			return
		}
		if n <= 0 {
			return
		}
		off += n
	}
}

func parseErr(m map[string]string) ErrInfo {
	e := ErrInfo{Level: m[vgirpc.MetaLogLevel], Message: m[vgirpc.MetaLogMessage], ExtraRaw: m[vgirpc.MetaLogExtra], Meta: m}
	e.Kind, e.HasKind = m[vgirpc.MetaErrorKind]
	var x struct {
		T  *string           `json:"exception_type"`
		M  string            `json:"exception_message"`
		Tb string            `json:"traceback"`
		Fr []json.RawMessage `json:"frames"`
	}
	if json.Unmarshal([]byte(e.ExtraRaw), &x) == nil && x.T != nil {
		e.ExtraOK = true
		e.Type, e.ExMessage, e.Traceback, e.NFrames = *x.T, x.M, x.Tb, len(x.Fr)
	}
	return e
}

// PipeCall runs Server.Serve over in-memory reader/writer with the given
// client bytes (one request, optionally followed by the client's input
// stream) and decodes everything the server wrote. A panic escaping Serve is
// captured, not propagated.
func PipeCall(s *vgirpc.Server, clientBytes []byte) *Obs {
	o := &Obs{}
	var out bytes.Buffer
	func() {
		defer func() {
			if rv := recover(); rv != nil {
				o.Panicked = fmt.Sprintf("%v\n%s", rv, debug.Stack())
			}
		}()
		s.Serve(bytes.NewReader(clientBytes), &out)
	}()
	DecodeResponse(out.Bytes(), o)
	return o
}

// HTTPCall drives HttpServer.ServeHTTP in-process.
func HTTPCall(h http.Handler, path string, body []byte, hdr ...string) *Obs {
	o := &Obs{}
	req := httptest.NewRequest(http.MethodPost, path, bytes.NewReader(body))
	req.Header.Set("Content-Type", ArrowCT)
	for i := 0; i+1 < len(hdr); i += 2 {
		req.Header.Set(hdr[i], hdr[i+1])
	}
	rec := httptest.NewRecorder()
	func() {
		defer func() {
			if rv := recover(); rv != nil {
				o.Panicked = fmt.Sprintf("%v\n%s", rv, debug.Stack())
			}
		}()
		h.ServeHTTP(rec, req)
	}()
	o.Status = rec.Code
	o.Header = rec.Header()
	if ct := rec.Header().Get("Content-Type"); ct == ArrowCT {
		DecodeResponse(rec.Body.Bytes(), o)
	} else {
		o.RawLen = rec.Body.Len()
	}
	return o
}

// PanicHead is the first line of a captured panic.
func PanicHead(p string) string {
	for i := 0; i < len(p); i++ {
		if p[i] == '\n' {
			return p[:i]
		}
	}
	return p
}

// ---------------------------------------------------------------------------
// A long-lived Serve session over io.Pipe (synchronous, unbuffered pipes: the
// server sees exactly the chunks the client writes).

// PipeSession is one Server.Serve loop on a pair of io.Pipes.
type PipeSession struct {
	cw   *io.PipeWriter
	sr   *io.PipeReader
	done chan string
	dead bool
	Why  string
}

// NewPipeSession starts s.Serve on fresh pipes.
func NewPipeSession(s *vgirpc.Server) *PipeSession {
	cr, cw := io.Pipe()
	sr, sw := io.Pipe()
	ps := &PipeSession{cw: cw, sr: sr, done: make(chan string, 1)}
	go func() {
		p := ""
		defer func() {
			if rv := recover(); rv != nil {
				p = fmt.Sprintf("%v\n%s", rv, debug.Stack())
			}
			_ = sw.CloseWithError(io.ErrClosedPipe)
			_ = cr.CloseWithError(io.ErrClosedPipe)
			ps.done <- p
		}()
		s.Serve(cr, sw)
	}()
	return ps
}

// Dead reports whether the serve loop has ended.
func (ps *PipeSession) Dead() bool { return ps.dead }

// Call sends one unary request and reads exactly one response stream.
func (ps *PipeSession) Call(req []byte) *Obs {
	o := &Obs{}
	if ps.dead {
		o.DecodeErr = "session dead"
		return o
	}
	// Write in small chunks: the reader must cope with short reads.
	for off := 0; off < len(req); {
		n := min(len(req)-off, 4093)
		if _, err := ps.cw.Write(req[off : off+n]); err != nil {
			ps.dead = true
			o.Panicked = <-ps.done
			ps.Why = o.Panicked
			o.DecodeErr = "request write: " + err.Error()
			return o
		}
		off += n
	}
	rd, err := ipc.NewReader(ps.sr)
	if err != nil {
		ps.dead = true
		o.Panicked = <-ps.done
		ps.Why = o.Panicked
		o.DecodeErr = "response: " + err.Error()
		return o
	}
	defer rd.Release()
	o.Streams = 1
	o.Schemas = append(o.Schemas, rd.Schema())
	for rd.Next() {
		r := rd.RecordBatch()
		r.Retain()
		o.Batches = append(o.Batches, r)
		m := gen.MetaMap(r)
		if lvl, ok := m[vgirpc.MetaLogLevel]; ok {
			if lvl == string(vgirpc.LogException) {
				o.Errors = append(o.Errors, parseErr(m))
			}
			continue
		}
		o.ResultData = append(o.ResultData, r)
	}
	if err := rd.Err(); err != nil {
		o.DecodeErr = err.Error()
		ps.dead = true
		select {
		case p := <-ps.done:
			o.Panicked, ps.Why = p, p
		default:
		}
	}
	return o
}

// Close ends the session (client EOF) and waits for the serve loop.
func (ps *PipeSession) Close() {
	_ = ps.cw.Close()
	if !ps.dead {
		ps.dead = true
		<-ps.done
	}
	_ = ps.sr.Close()
}
