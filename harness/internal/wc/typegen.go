package wc

import (
	"fmt"
	"math/rand/v2"
	"reflect"
	"strconv"
	"time"
)

// Status is a named string type, used with the `enum` option as in the guide.
type Status string

// Leaf is one supported (Go type, tag option) pair of the documented mapping.
type Leaf struct {
	T   reflect.Type
	Opt string // type option ("" = default mapping)
}

func tf[T any]() reflect.Type { return reflect.TypeFor[T]() }

// Leaves is the catalogue of scalar field forms (non-pointer).
var Leaves = []Leaf{
	{tf[string](), ""}, {tf[string](), "large_string"}, {tf[string](), "enum"}, {tf[string](), "dict_string"}, {tf[Status](), "enum"},
	{tf[string](), "decimal"},
	{tf[int64](), ""}, {tf[int](), ""}, {tf[int32](), ""}, {tf[int16](), ""}, {tf[int8](), ""},
	{tf[int64](), "int32"}, {tf[int64](), "int16"}, {tf[int64](), "int8"},
	{tf[uint64](), ""}, {tf[uint](), ""}, {tf[uint32](), ""}, {tf[uint16](), ""}, {tf[uint8](), ""},
	{tf[uint64](), "uint64"}, {tf[uint64](), "uint32"}, {tf[uint64](), "uint16"}, {tf[uint64](), "uint8"},
	{tf[int64](), "uint8"}, {tf[int64](), "uint32"}, {tf[int64](), "uint64"}, {tf[uint64](), "int8"}, {tf[uint64](), "int32"}, {tf[int](), "uint16"},
	{tf[float64](), ""}, {tf[float32](), ""}, {tf[float64](), "float32"},
	{tf[bool](), ""},
	{tf[[]byte](), ""}, {tf[[]byte](), "binary"}, {tf[[]byte](), "large_binary"},
	{tf[[]byte](), "fixed_binary[1]"}, {tf[[]byte](), "fixed_binary[4]"}, {tf[[]byte](), "fixed_binary[8]"}, {tf[[]byte](), "fixed_binary[16]"},
	{tf[time.Time](), "date"}, {tf[time.Time](), "timestamp"}, {tf[time.Time](), "timestamp_utc"}, {tf[time.Time](), "time"},
	{tf[time.Duration](), "duration"},
}

// ListForm is a slice field form: Go type + optional elem= override.
type ListForm struct {
	T    reflect.Type
	Elem string
}

// Lists is the catalogue of list field forms.
var Lists = []ListForm{
	{tf[[]string](), ""}, {tf[[]int64](), ""}, {tf[[]int32](), ""}, {tf[[]float64](), ""}, {tf[[]bool](), ""}, {tf[[]uint64](), ""},
	{tf[[][]byte](), ""}, {tf[[]float32](), ""}, {tf[[]int](), ""},
	{tf[[]*string](), ""}, {tf[[]*int64](), ""}, {tf[[]*float64](), ""}, {tf[[]*bool](), ""},
	{tf[[][]int64](), ""}, {tf[[][]string](), ""}, {tf[[][]*int64](), ""}, {tf[[][][]int64](), ""},
	{tf[[][]byte](), "large_binary"}, {tf[[]string](), "large_string"}, {tf[[]int64](), "int32"}, {tf[[]float64](), "float32"},
	{tf[[]time.Time](), "timestamp"}, {tf[[]time.Time](), "timestamp_utc"}, {tf[[]time.Time](), "date"}, {tf[[]time.Time](), "time"},
	{tf[[]time.Duration](), "duration"}, {tf[[]string](), "decimal"}, {tf[[]string](), "enum"}, {tf[[][]byte](), "fixed_binary[4]"},
	{tf[[]uint64](), "uint8"},
}

// Maps is the catalogue of map field forms (string and integer keys).
var Maps = []reflect.Type{
	tf[map[string]string](), tf[map[string]int64](), tf[map[string]float64](), tf[map[string]bool](),
	tf[map[int64]string](), tf[map[int32]int64](), tf[map[uint64]string](), tf[map[int](int64)](),
	tf[map[string][]int64](), tf[map[string][]byte](), tf[map[int64]float64](),
	// map items are nullable on the wire (arrow.MapOf); a nil pointer value is a null item
	tf[map[string]*int64](), tf[map[string]*string](), tf[map[int64]*float64](),
}

// DefaultKinds are the kinds the guide documents default= for.
var defaultLeaves = []struct {
	T    reflect.Type
	Vals []string
}{
	{tf[string](), []string{"-", "default", "", "a=b", "x y", "ü"}},
	{tf[int](), []string{"0", "42", "-7"}},
	{tf[int64](), []string{"42", "-9223372036854775808", "9223372036854775807"}},
	{tf[float64](), []string{"0", "2.5", "-1e-3"}},
	{tf[bool](), []string{"true", "false"}},
}

var wireNames = []string{"a", "b", "value", "Value", "x_y", "col1", "request", "result", "ünï", "col 1", "a.b", "名前", "id", "n", "0", "vgi_rpc.method"}

// TypeOpt tunes struct type generation.
type TypeOpt struct {
	MaxFields  int  // default 8
	MaxNest    int  // deepest chain of `struct` fields (0..8)
	Defaults   bool // allow default= on nullable documented kinds
	NoRequest  bool // never name a column "request"
	OnlyLeaves bool // no lists/maps/structs
	NoPtrMap   bool // no *map[K]V fields
}

// GenStructType builds a tagged struct type with reflect.StructOf.
func GenStructType(rng *rand.Rand, o TypeOpt) reflect.Type {
	return genStructType(rng, o, 0, true)
}

func genStructType(rng *rand.Rand, o TypeOpt, nest int, top bool) reflect.Type {
	maxF := o.MaxFields
	if maxF == 0 {
		maxF = 8
	}
	n := rng.IntN(maxF + 1)
	if !top {
		n = 1 + rng.IntN(3)
	} else if rng.IntN(12) != 0 && n == 0 {
		n = 1
	}
	used := map[string]bool{}
	fields := make([]reflect.StructField, 0, n+1)
	for i := 0; i < n; i++ {
		name := "f" + strconv.Itoa(i)
		if rng.IntN(3) == 0 {
			cand := wireNames[rng.IntN(len(wireNames))]
			if !(o.NoRequest && cand == "request") {
				name = cand
			}
		}
		for used[name] {
			name += "_"
		}
		used[name] = true
		ft, opts := genFieldForm(rng, o, nest)
		tag := name
		for _, op := range opts {
			tag += "," + op
		}
		fields = append(fields, reflect.StructField{
			Name: "F" + strconv.Itoa(i),
			Type: ft,
			Tag:  reflect.StructTag(fmt.Sprintf("vgirpc:%q", tag)),
		})
	}
	if top && rng.IntN(6) == 0 {
		// An untagged field: not part of the wire contract.
		fields = append(fields, reflect.StructField{Name: "Untagged", Type: tf[int64]()})
	}
	t := reflect.StructOf(fields)
	if top && isLoneBinaryRequest(t) {
		return genStructType(rng, o, nest, top)
	}
	return t
}

// isLoneBinaryRequest recognises the one shape the C07 statement excludes.
func isLoneBinaryRequest(t reflect.Type) bool {
	n, hit := 0, false
	for i := 0; i < t.NumField(); i++ {
		tag := t.Field(i).Tag.Get("vgirpc")
		if tag == "" || tag == "-" {
			continue
		}
		n++
		tm := parseTagModel(tag)
		ft := t.Field(i).Type
		if ft.Kind() == reflect.Ptr {
			ft = ft.Elem()
		}
		if tm.name == "request" && ft.Kind() == reflect.Slice && ft.Elem().Kind() == reflect.Uint8 && (tm.typ == "" || tm.typ == "binary") {
			hit = true
		}
	}
	return n == 1 && hit
}

// IsLoneBinaryRequest is exported for the static family filter.
func IsLoneBinaryRequest(t reflect.Type) bool { return isLoneBinaryRequest(t) }

func genFieldForm(rng *rand.Rand, o TypeOpt, nest int) (reflect.Type, []string) {
	roll := rng.IntN(100)
	if o.OnlyLeaves {
		roll = roll % 60
	}
	switch {
	case roll < 8 && o.Defaults:
		d := defaultLeaves[rng.IntN(len(defaultLeaves))]
		val := d.Vals[rng.IntN(len(d.Vals))]
		if rng.IntN(2) == 0 {
			return reflect.PointerTo(d.T), []string{"default=" + val}
		}
		if rng.IntN(2) == 0 {
			return d.T, []string{"nullable", "default=" + val}
		}
		return d.T, []string{"default=" + val, "nullable"}
	case roll < 60:
		l := Leaves[rng.IntN(len(Leaves))]
		var opts []string
		if l.Opt != "" {
			opts = append(opts, l.Opt)
		}
		t := l.T
		switch rng.IntN(5) {
		case 0:
			t = reflect.PointerTo(t)
		case 1:
			opts = append(opts, "nullable")
		}
		return t, opts
	case roll < 78:
		l := Lists[rng.IntN(len(Lists))]
		var opts []string
		if l.Elem != "" {
			opts = append(opts, "elem="+l.Elem)
		}
		t := l.T
		switch rng.IntN(6) {
		case 0:
			t = reflect.PointerTo(t)
		case 1:
			opts = append(opts, "nullable")
		}
		return t, opts
	case roll < 88:
		t := Maps[rng.IntN(len(Maps))]
		var opts []string
		switch rng.IntN(6) {
		case 0:
			opts = append(opts, "nullable")
		case 1:
			if !o.NoPtrMap {
				t = reflect.PointerTo(t) // the nullable form of a map column
			}
		}
		return t, opts
	default:
		if nest >= o.MaxNest {
			return tf[int64](), nil
		}
		child := genStructType(rng, o, nest+1, false)
		// Make sure deep chains actually occur: the first child field of a
		// nested struct is itself a struct while the budget lasts.
		if rng.IntN(2) == 0 {
			return reflect.PointerTo(child), []string{"struct"}
		}
		return child, []string{"struct"}
	}
}

// GenChainType builds a type whose `struct` fields nest exactly depth levels
// (1..8), alternating pointer and value children.
func GenChainType(rng *rand.Rand, depth int) reflect.Type {
	inner := reflect.StructOf([]reflect.StructField{
		{Name: "Leaf", Type: tf[*int64](), Tag: `vgirpc:"leaf"`},
		{Name: "S", Type: tf[string](), Tag: `vgirpc:"s"`},
	})
	for d := depth - 1; d >= 1; d-- {
		ft := inner
		if rng.IntN(2) == 0 {
			ft = reflect.PointerTo(inner)
		}
		inner = reflect.StructOf([]reflect.StructField{
			{Name: "N", Type: tf[int32](), Tag: `vgirpc:"n"`},
			{Name: "Child", Type: ft, Tag: `vgirpc:"child,struct"`},
		})
	}
	ft := inner
	if rng.IntN(2) == 0 {
		ft = reflect.PointerTo(inner)
	}
	return reflect.StructOf([]reflect.StructField{
		{Name: "Top", Type: ft, Tag: `vgirpc:"top,struct"`},
		{Name: "Tail", Type: tf[bool](), Tag: `vgirpc:"tail"`},
	})
}
