package wc

import (
	"bytes"
	"fmt"
	"math"
	"math/big"
	"math/rand/v2"
	"reflect"
	"sort"
	"strconv"
	"strings"
	"time"
	"unicode/utf8"
)

// ---------------------------------------------------------------------------
// Integer calendar arithmetic (no time.Duration anywhere)

func floorDiv(a, b int64) int64 {
	q := a / b
	if (a%b != 0) && ((a < 0) != (b < 0)) {
		q--
	}
	return q
}

func floorMod(a, b int64) int64 { return a - floorDiv(a, b)*b }

// UnixNanosBig is the instant of t as nanoseconds since the epoch, exact.
func UnixNanosBig(t time.Time) *big.Int {
	n := new(big.Int).Mul(big.NewInt(t.Unix()), big.NewInt(1_000_000_000))
	return n.Add(n, big.NewInt(int64(t.Nanosecond())))
}

// EpochDay is the UTC calendar day of t counted from 1970-01-01 (floor).
func EpochDay(t time.Time) int64 { return floorDiv(t.Unix(), 86400) }

// TimeOfDayMicros is the UTC time of day of t in whole microseconds.
func TimeOfDayMicros(t time.Time) int64 {
	return floorMod(t.Unix(), 86400)*1_000_000 + int64(t.Nanosecond())/1000
}

// TimeFromMicros builds the instant us microseconds after the epoch (+ extra
// nanoseconds 0..999) without going through time.Duration.
func TimeFromMicros(us int64, subNanos int64, loc *time.Location) time.Time {
	sec := floorDiv(us, 1_000_000)
	rem := floorMod(us, 1_000_000)
	return time.Unix(sec, rem*1000+subNanos).In(loc)
}

// ---------------------------------------------------------------------------
// Decimal canonicalisation: value * 10^4 as a big.Int (nil if unparsable or
// if it carries more than 4 fraction digits that are not zero).

func DecimalScaled4(s string) *big.Int {
	neg := false
	switch {
	case strings.HasPrefix(s, "-"):
		neg, s = true, s[1:]
	case strings.HasPrefix(s, "+"):
		s = s[1:]
	}
	ip, fp := s, ""
	if i := strings.IndexByte(s, '.'); i >= 0 {
		ip, fp = s[:i], s[i+1:]
	}
	if ip == "" && fp == "" {
		return nil
	}
	for _, c := range ip + fp {
		if c < '0' || c > '9' {
			return nil
		}
	}
	for len(fp) > 4 {
		if fp[len(fp)-1] != '0' {
			return nil
		}
		fp = fp[:len(fp)-1]
	}
	for len(fp) < 4 {
		fp += "0"
	}
	v, ok := new(big.Int).SetString(ip+fp, 10)
	if !ok {
		v, ok = new(big.Int).SetString("0"+ip+fp, 10)
		if !ok {
			return nil
		}
	}
	if neg {
		v.Neg(v)
	}
	return v
}

// ---------------------------------------------------------------------------
// Comparator

// Equal compares an original and a decoded value of the same Go type under
// the documented equivalence. It returns "" when they are the same, otherwise
// (path, class, reason) of the first difference; class is a stable label of
// the failing input class for violation signatures.
func Equal(sp *Spec, path string, a, b reflect.Value) (where, class, why string) {
	if sp.Ptr {
		if a.IsNil() != b.IsNil() {
			return path, sp.Class + ":nil-ness", fmt.Sprintf("nil=%v became nil=%v", a.IsNil(), b.IsNil())
		}
		if a.IsNil() {
			return "", "", ""
		}
		a, b = a.Elem(), b.Elem()
	}
	bad := func(cls, format string, args ...any) (string, string, string) {
		return path, cls, fmt.Sprintf(format, args...)
	}
	switch sp.Sem {
	case SemInt:
		if a.Int() != b.Int() {
			return bad(sp.Class, "%d became %d", a.Int(), b.Int())
		}
	case SemUint:
		if a.Uint() != b.Uint() {
			return bad(sp.Class, "%d became %d", a.Uint(), b.Uint())
		}
	case SemFloat:
		x, y := a.Float(), b.Float()
		if math.IsNaN(x) || math.IsNaN(y) {
			if math.IsNaN(x) != math.IsNaN(y) {
				return bad(sp.Class+":nan", "%v became %v", x, y)
			}
			return "", "", ""
		}
		if math.Float64bits(x) != math.Float64bits(y) {
			return bad(sp.Class, "%v (%#x) became %v (%#x)", x, math.Float64bits(x), y, math.Float64bits(y))
		}
	case SemBool:
		if a.Bool() != b.Bool() {
			return bad(sp.Class, "%v became %v", a.Bool(), b.Bool())
		}
	case SemString:
		if a.String() != b.String() {
			return bad(sp.Class, "%q became %q", clip(a.String()), clip(b.String()))
		}
	case SemBytes:
		if !bytes.Equal(a.Bytes(), b.Bytes()) {
			return bad(sp.Class, "%d bytes became %d bytes (first diff at %d)", a.Len(), b.Len(), firstDiff(a.Bytes(), b.Bytes()))
		}
	case SemDate:
		ta, tb := a.Interface().(time.Time), b.Interface().(time.Time)
		if EpochDay(ta) != EpochDay(tb) {
			return bad("date:"+dateClass(ta), "UTC day %d (%s) became day %d (%s)", EpochDay(ta), renderTime(ta), EpochDay(tb), renderTime(tb))
		}
	case SemTimestamp:
		ta, tb := a.Interface().(time.Time), b.Interface().(time.Time)
		na, nb := UnixNanosBig(ta), UnixNanosBig(tb)
		d := new(big.Int).Sub(na, nb)
		d.Abs(d)
		if d.Cmp(big.NewInt(1000)) >= 0 {
			return bad("timestamp:"+tsClass(ta), "instant %s became %s", renderTime(ta), renderTime(tb))
		}
		if tb.Nanosecond()%1000 != 0 && ta.Nanosecond()%1000 == 0 {
			// a whole-microsecond instant came back off the microsecond grid
			return bad("timestamp:"+tsClass(ta), "instant %s became %s", renderTime(ta), renderTime(tb))
		}
	case SemTimeOfDay:
		ta, tb := a.Interface().(time.Time), b.Interface().(time.Time)
		if TimeOfDayMicros(ta) != TimeOfDayMicros(tb) {
			return bad("time-of-day", "time of day %d us became %d us", TimeOfDayMicros(ta), TimeOfDayMicros(tb))
		}
	case SemDuration:
		if a.Int() != b.Int() {
			return bad("duration", "%d ns became %d ns", a.Int(), b.Int())
		}
	case SemDecimal:
		x, y := DecimalScaled4(a.String()), DecimalScaled4(b.String())
		if x == nil || y == nil || x.Cmp(y) != 0 {
			return bad("decimal", "%q became %q", a.String(), b.String())
		}
	case SemList:
		if a.Len() != b.Len() {
			return bad(sp.Class+":len", "len %d became %d", a.Len(), b.Len())
		}
		for i := 0; i < a.Len(); i++ {
			if w, c, y := Equal(sp.Elem, fmt.Sprintf("%s[%d]", path, i), a.Index(i), b.Index(i)); w != "" {
				return w, "list-elem:" + c, y
			}
		}
	case SemMap:
		if a.Len() != b.Len() {
			return bad(sp.Class+":len", "len %d became %d", a.Len(), b.Len())
		}
		it := a.MapRange()
		for it.Next() {
			bv := b.MapIndex(it.Key())
			if !bv.IsValid() {
				return bad(sp.Class+":key-lost", "key %v missing after decode", it.Key().Interface())
			}
			if w, c, y := Equal(sp.Elem, fmt.Sprintf("%s[%v]", path, it.Key().Interface()), it.Value(), bv); w != "" {
				return w, "map-value:" + c, y
			}
		}
	case SemStruct, SemArrowSer:
		for _, f := range sp.Fields {
			if w, c, y := Equal(f.Spec, path+"."+f.Wire, a.Field(f.Index), b.Field(f.Index)); w != "" {
				return w, sp.Sem.String() + "-child:" + c, y
			}
		}
	}
	return "", "", ""
}

// EqualStruct compares two values of a modelled struct type.
func EqualStruct(ss *StructSpec, a, b reflect.Value) (where, class, why string) {
	for _, f := range ss.Fields {
		if w, c, y := Equal(f.Spec, f.Wire, a.Field(f.Index), b.Field(f.Index)); w != "" {
			return w, c, y
		}
	}
	return "", "", ""
}

func clip(s string) string {
	if len(s) > 80 {
		return s[:80] + "…"
	}
	return s
}

func firstDiff(a, b []byte) int {
	n := min(len(a), len(b))
	for i := 0; i < n; i++ {
		if a[i] != b[i] {
			return i
		}
	}
	return n
}

// Limits of what int64 nanoseconds (time.Duration) can express around 1970.
const durLimitMicros = math.MaxInt64 / 1000

func tsClass(t time.Time) string {
	us := new(big.Int).Div(UnixNanosBig(t), big.NewInt(1000))
	lim := big.NewInt(durLimitMicros)
	switch {
	case us.Cmp(new(big.Int).Neg(lim)) < 0:
		return "before-1677"
	case us.Cmp(lim) > 0:
		return "after-2262"
	case us.Sign() < 0:
		return "1677..1970"
	}
	return "1970..2262"
}

func dateClass(t time.Time) string {
	c := tsClass(t)
	if c == "before-1677" || c == "after-2262" {
		return c
	}
	if t.Unix() < 0 && floorMod(t.Unix(), 86400) != 0 || (t.Unix() < 0 && t.Nanosecond() != 0) {
		return "pre-epoch-non-midnight"
	}
	return c
}

func renderTime(t time.Time) string {
	return fmt.Sprintf("unix=%d.%09d(day=%d,tod_us=%d)", t.Unix(), t.Nanosecond(), EpochDay(t), TimeOfDayMicros(t))
}

// ---------------------------------------------------------------------------
// Rendering for witnesses (time.Time does not JSON-encode outside year 0..9999)

// Render turns a value into a JSON-encodable tree.
func Render(sp *Spec, v reflect.Value) any {
	if sp.Ptr {
		if v.IsNil() {
			return nil
		}
		v = v.Elem()
	}
	switch sp.Sem {
	case SemInt:
		return strconv.FormatInt(v.Int(), 10)
	case SemUint:
		return strconv.FormatUint(v.Uint(), 10)
	case SemFloat:
		return fmt.Sprintf("%v(%#x)", v.Float(), math.Float64bits(v.Float()))
	case SemBool:
		return v.Bool()
	case SemString, SemDecimal:
		return fmt.Sprintf("%q", v.String())
	case SemBytes:
		b := v.Bytes()
		if len(b) > 48 {
			return fmt.Sprintf("bytes[%d] %x…", len(b), b[:48])
		}
		if b == nil {
			return "bytes(nil)"
		}
		return fmt.Sprintf("bytes[%d] %x", len(b), b)
	case SemDate, SemTimestamp, SemTimeOfDay:
		return renderTime(v.Interface().(time.Time))
	case SemDuration:
		return fmt.Sprintf("%dns", v.Int())
	case SemList:
		if v.IsNil() {
			return "list(nil)"
		}
		out := make([]any, 0, v.Len())
		for i := 0; i < v.Len() && i < 40; i++ {
			out = append(out, Render(sp.Elem, v.Index(i)))
		}
		return out
	case SemMap:
		if v.IsNil() {
			return "map(nil)"
		}
		out := map[string]any{}
		keys := v.MapKeys()
		sort.Slice(keys, func(i, j int) bool { return fmt.Sprint(keys[i].Interface()) < fmt.Sprint(keys[j].Interface()) })
		for i, k := range keys {
			if i >= 40 {
				break
			}
			out[fmt.Sprint(k.Interface())] = Render(sp.Elem, v.MapIndex(k))
		}
		return out
	case SemStruct, SemArrowSer:
		out := map[string]any{}
		for _, f := range sp.Fields {
			out[f.Wire] = Render(f.Spec, v.Field(f.Index))
		}
		return out
	}
	return fmt.Sprint(v.Interface())
}

// RenderStruct renders a value of a modelled struct type, with the type's tags.
func RenderStruct(ss *StructSpec, v reflect.Value) map[string]any {
	out := map[string]any{}
	for _, f := range ss.Fields {
		out[fmt.Sprintf("%s %v `%s`", f.GoName, ss.Type.Field(f.Index).Type, f.Tag)] = Render(f.Spec, v.Field(f.Index))
	}
	return out
}

// DescribeType renders the struct type declaration (for witnesses).
func DescribeType(t reflect.Type) string {
	var sb strings.Builder
	describeType(&sb, t, 0)
	return sb.String()
}

func describeType(sb *strings.Builder, t reflect.Type, depth int) {
	sb.WriteString("struct{")
	for i := 0; i < t.NumField(); i++ {
		f := t.Field(i)
		if i > 0 {
			sb.WriteString("; ")
		}
		ft := f.Type
		inner := ft
		if inner.Kind() == reflect.Ptr {
			inner = inner.Elem()
		}
		if inner.Kind() == reflect.Struct && inner != timeT && inner.Name() == "" && depth < 9 {
			fmt.Fprintf(sb, "%s ", f.Name)
			if ft.Kind() == reflect.Ptr {
				sb.WriteByte('*')
			}
			describeType(sb, inner, depth+1)
		} else {
			fmt.Fprintf(sb, "%s %v", f.Name, ft)
		}
		fmt.Fprintf(sb, " `%s`", f.Tag)
	}
	sb.WriteString("}")
}

// ---------------------------------------------------------------------------
// Value generation

// ValOpt tunes value generation.
type ValOpt struct {
	// Tame keeps instants inside 1970..2262 on whole microseconds and dates at
	// UTC midnight, so a check about something else (C07) does not trip over
	// range behaviour that belongs to C08.
	Tame bool
	// MaxBytes bounds binary/string sizes (default 64).
	MaxBytes int
	// BigBytes lets about 1 in 200 binaries be up to 64 KiB.
	BigBytes bool
	// NilPtrMap keeps *map[K]V fields nil (C07 leaves the non-nil *map decode
	// to C08).
	NilPtrMap bool
}

var unicodeEdges = []string{"", " ", "a", "é", "ß", "日本語", "😀", "\U0010FFFF", "\x00", "a\x00b", "\u200b", "\ufeff", "\u0301e",
	"line\nbreak", "tab\t", `"quoted"`, `back\slash`, "null", "NaN", "-0", strings.Repeat("x", 300)}

// GenUTF8 generates a valid UTF-8 string (edge cases and random runes).
func GenUTF8(rng *rand.Rand, max int) string { return genUTF8(rng, max) }

func genUTF8(rng *rand.Rand, max int) string {
	if rng.IntN(3) == 0 {
		return unicodeEdges[rng.IntN(len(unicodeEdges))]
	}
	n := rng.IntN(max + 1)
	var sb strings.Builder
	for sb.Len() < n {
		switch rng.IntN(6) {
		case 0:
			sb.WriteRune(rune(0x80 + rng.IntN(0x700)))
		case 1:
			r := rune(0x800 + rng.IntN(0xF800))
			if r >= 0xD800 && r <= 0xDFFF {
				r = 0x4E2D
			}
			sb.WriteRune(r)
		case 2:
			sb.WriteRune(rune(0x10000 + rng.IntN(0x100000)))
		default:
			sb.WriteByte(byte(0x20 + rng.IntN(0x5f)))
		}
	}
	s := sb.String()
	if !utf8.ValidString(s) {
		return "fallback"
	}
	return s
}

func genBytes(rng *rand.Rand, o ValOpt) []byte {
	max := o.MaxBytes
	if max == 0 {
		max = 64
	}
	n := rng.IntN(max + 1)
	if o.BigBytes && rng.IntN(200) == 0 {
		n = 1 + rng.IntN(64<<10)
	}
	switch rng.IntN(8) {
	case 0:
		return nil
	case 1:
		return []byte{}
	}
	b := make([]byte, n)
	for i := range b {
		b[i] = byte(rng.Uint32())
	}
	return b
}

func genInt(rng *rand.Rand, bits int) int64 {
	lo, hi := int64(-1)<<(bits-1), int64(1)<<(bits-1)-1
	switch rng.IntN(10) {
	case 0:
		return lo
	case 1:
		return hi
	case 2:
		return 0
	case 3:
		return -1
	case 4:
		return lo + int64(rng.IntN(3))
	case 5:
		return hi - int64(rng.IntN(3))
	case 6:
		return int64(rng.IntN(256)) - 128
	}
	v := int64(rng.Uint64())
	if bits < 64 {
		v >>= (64 - bits)
	}
	return v
}

func genBounded(rng *rand.Rand, max uint64) uint64 {
	switch rng.IntN(5) {
	case 0:
		return 0
	case 1:
		return max
	case 2:
		return max - uint64(rng.IntN(3))
	}
	return rng.Uint64N(max) // max < 2^64-1 for every mixed pair
}

func genUint(rng *rand.Rand, bits int) uint64 {
	hi := ^uint64(0)
	if bits < 64 {
		hi = uint64(1)<<bits - 1
	}
	switch rng.IntN(8) {
	case 0:
		return 0
	case 1:
		return hi
	case 2:
		return hi - uint64(rng.IntN(3))
	case 3:
		return hi/2 + uint64(rng.IntN(3)) // around the signed boundary
	case 4:
		return uint64(rng.IntN(256))
	}
	return rng.Uint64() & hi
}

var floatEdges = []float64{0, math.Copysign(0, -1), 1, -1, math.NaN(), math.Inf(1), math.Inf(-1), math.MaxFloat64, -math.MaxFloat64,
	math.SmallestNonzeroFloat64, -math.SmallestNonzeroFloat64, 2.2250738585072014e-308, 0.1, 1e-320, float64(1 << 53), float64(1<<53) + 2, math.Pi}
var float32Edges = []float32{0, float32(math.Copysign(0, -1)), 1, -1, float32(math.NaN()), float32(math.Inf(1)), float32(math.Inf(-1)),
	math.MaxFloat32, -math.MaxFloat32, math.SmallestNonzeroFloat32, 1.17549435e-38, 0.1, 1e-42, 16777216, 16777218}

func genFloat(rng *rand.Rand, bits int) float64 {
	if bits == 32 {
		if rng.IntN(3) == 0 {
			return float64(float32Edges[rng.IntN(len(float32Edges))])
		}
		f := math.Float32frombits(rng.Uint32())
		if f != f { // keep NaNs canonical: payloads are not part of "the value"
			return math.NaN()
		}
		return float64(f)
	}
	if rng.IntN(3) == 0 {
		return floatEdges[rng.IntN(len(floatEdges))]
	}
	f := math.Float64frombits(rng.Uint64())
	if f != f {
		return math.NaN()
	}
	return f
}

var zones = []*time.Location{time.UTC, time.UTC, time.FixedZone("p5", 5*3600+1800), time.FixedZone("m8", -8*3600), time.FixedZone("p14", 14*3600), time.FixedZone("m12", -12*3600)}

// Interesting microsecond instants: the epoch, the time.Duration horizon on
// both sides (1677-09-21 / 2262-04-11), the int64 microsecond extremes.
var microEdges = []int64{0, 1, -1, 999_999, -999_999, 1_000_000, -1_000_000, 86_400_000_000, -86_400_000_000, -43_200_000_000,
	durLimitMicros, durLimitMicros + 1, durLimitMicros - 1, -durLimitMicros, -durLimitMicros - 1, -durLimitMicros + 1,
	math.MaxInt64, math.MaxInt64 - 1, math.MinInt64, math.MinInt64 + 1,
	-2208988800_000_000 /*1900*/, -11644473600_000_000 /*1601*/, 253402300799_999_999 /*9999-12-31*/, 253402300800_000_000,
	-62135596800_000_000 /*0001-01-01*/, -62135596800_000_001, -62167219200_000_000 /*0000-01-01*/, 4102444800_000_000 /*2100*/, 10413792000_000_000 /*2300*/, -11676096000_000_000 /*1600*/}

func genMicros(rng *rand.Rand) int64 {
	switch rng.IntN(10) {
	case 0, 1:
		e := microEdges[rng.IntN(len(microEdges))]
		// jitter that cannot overflow
		j := int64(rng.IntN(2_000_001)) - 1_000_000
		if (j > 0 && e > math.MaxInt64-j) || (j < 0 && e < math.MinInt64-j) {
			return e
		}
		if rng.IntN(2) == 0 {
			return e
		}
		return e + j
	case 2: // dense around the Duration horizon
		d := int64(rng.IntN(400)) - 200
		base := int64(durLimitMicros)
		if rng.IntN(2) == 0 {
			base = -base
		}
		return base + d*86_400_000_000/4
	case 3: // pre-epoch, within the Duration range, non-midnight
		return -int64(rng.Uint64N(uint64(durLimitMicros)))
	case 4: // modern
		return int64(rng.Uint64N(4_102_444_800_000_000))
	case 5: // within +-10 days of the epoch
		return int64(rng.IntN(1_728_000_000_000)) - 864_000_000_000
	}
	return int64(rng.Uint64()) // whole Arrow microsecond range
}

func genTime(rng *rand.Rand, sem Sem, o ValOpt) time.Time {
	if o.Tame {
		switch sem {
		case SemDate:
			return time.Unix(int64(rng.IntN(100_000))*86400, 0).UTC()
		case SemTimeOfDay:
			return TimeFromMicros(int64(rng.Uint64N(86_400_000_000)), 0, time.UTC)
		}
		return TimeFromMicros(int64(rng.Uint64N(durLimitMicros)), 0, time.UTC)
	}
	switch sem {
	case SemTimeOfDay:
		var us int64
		switch rng.IntN(6) {
		case 0:
			us = 0
		case 1:
			us = 86_399_999_999
		case 2:
			us = 43_200_000_000
		default:
			us = int64(rng.Uint64N(86_400_000_000))
		}
		// The date part is not part of a time-of-day value: half the values
		// sit on 1970-01-01 (where the decoder puts them), half on another day.
		if rng.IntN(2) == 0 {
			us += (int64(rng.IntN(40000)) - 10000) * 86_400_000_000
		}
		return TimeFromMicros(us, 0, time.UTC)
	case SemDate:
		if rng.IntN(8) == 0 {
			// date32 reaches further than int64 microseconds: the whole int32 day range
			day := int64(int32(rng.Uint32()))
			switch rng.IntN(4) {
			case 0:
				day = math.MaxInt32
			case 1:
				day = math.MinInt32
			}
			return time.Unix(day*86400+int64(rng.IntN(86400)), int64(rng.IntN(1_000_000))*1000).In(zones[rng.IntN(len(zones))])
		}
		us := genMicros(rng)
		if rng.IntN(3) == 0 { // a plain calendar date
			us = floorDiv(us, 86_400_000_000) * 86_400_000_000
		}
		return TimeFromMicros(us, 0, zones[rng.IntN(len(zones))])
	}
	us := genMicros(rng)
	sub := int64(0)
	if rng.IntN(4) == 0 {
		sub = int64(rng.IntN(1000))
	}
	return TimeFromMicros(us, sub, zones[rng.IntN(len(zones))])
}

func genDecimal(rng *rand.Rand) string {
	switch rng.IntN(12) {
	case 0:
		return "0"
	case 1:
		return "0.0000"
	case 2:
		return "-0.0001"
	case 3:
		return "9999999999999999.9999"
	case 4:
		return "-9999999999999999.9999"
	case 5:
		return "1.5000"
	case 6:
		return "0.1"
	case 7:
		return "1000000000000000"
	}
	nd := 1 + rng.IntN(16)
	var sb strings.Builder
	if rng.IntN(2) == 0 {
		sb.WriteByte('-')
	}
	sb.WriteByte(byte('1' + rng.IntN(9)))
	for i := 1; i < nd; i++ {
		sb.WriteByte(byte('0' + rng.IntN(10)))
	}
	if nf := rng.IntN(5); nf > 0 {
		sb.WriteByte('.')
		for i := 0; i < nf; i++ {
			sb.WriteByte(byte('0' + rng.IntN(10)))
		}
	}
	return sb.String()
}

func genDuration(rng *rand.Rand) time.Duration {
	const maxUS = math.MaxInt64 / 1000
	switch rng.IntN(8) {
	case 0:
		return 0
	case 1:
		return time.Duration(maxUS * 1000)
	case 2:
		return time.Duration(-maxUS * 1000)
	case 3:
		return time.Duration(1000)
	case 4:
		return time.Duration(-1000)
	}
	us := int64(rng.Uint64N(2*maxUS)) - maxUS
	return time.Duration(us * 1000)
}

// GenValue fills v (settable, of the position's Go type incl. pointer) with a
// generated value that is representable in the position's wire type.
func GenValue(rng *rand.Rand, sp *Spec, v reflect.Value, o ValOpt, depth int) {
	if sp.Ptr {
		if rng.IntN(4) == 0 || (o.NilPtrMap && sp.Sem == SemMap) {
			v.Set(reflect.Zero(v.Type()))
			return
		}
		p := reflect.New(sp.Go)
		v.Set(p)
		v = p.Elem()
	}
	switch sp.Sem {
	case SemInt:
		if sp.Max > 0 {
			v.SetInt(int64(genBounded(rng, sp.Max)))
		} else {
			v.SetInt(genInt(rng, sp.Bits))
		}
	case SemUint:
		if sp.Max > 0 {
			v.SetUint(genBounded(rng, sp.Max))
		} else {
			v.SetUint(genUint(rng, sp.Bits))
		}
	case SemFloat:
		v.SetFloat(genFloat(rng, sp.Bits))
	case SemBool:
		v.SetBool(rng.IntN(2) == 0)
	case SemString:
		v.SetString(genUTF8(rng, 24))
	case SemBytes:
		if sp.Width > 0 {
			b := make([]byte, sp.Width)
			for i := range b {
				b[i] = byte(rng.Uint32())
			}
			v.SetBytes(b)
		} else {
			b := genBytes(rng, o)
			if b == nil {
				v.Set(reflect.Zero(v.Type()))
			} else {
				v.SetBytes(b)
			}
		}
	case SemDate, SemTimestamp, SemTimeOfDay:
		v.Set(reflect.ValueOf(genTime(rng, sp.Sem, o)).Convert(v.Type()))
	case SemDuration:
		v.SetInt(int64(genDuration(rng)))
	case SemDecimal:
		v.SetString(genDecimal(rng))
	case SemList:
		switch rng.IntN(6) {
		case 0:
			v.Set(reflect.Zero(v.Type())) // nil
		case 1:
			v.Set(reflect.MakeSlice(v.Type(), 0, 0)) // empty
		default:
			n := 1 + rng.IntN(5)
			if depth > 1 {
				n = 1 + rng.IntN(2)
			}
			s := reflect.MakeSlice(v.Type(), n, n)
			for i := 0; i < n; i++ {
				GenValue(rng, sp.Elem, s.Index(i), o, depth+1)
			}
			v.Set(s)
		}
	case SemMap:
		switch rng.IntN(6) {
		case 0:
			v.Set(reflect.Zero(v.Type()))
		case 1:
			v.Set(reflect.MakeMap(v.Type()))
		default:
			n := 1 + rng.IntN(4)
			m := reflect.MakeMap(v.Type())
			for i := 0; i < n; i++ {
				k := reflect.New(v.Type().Key()).Elem()
				GenValue(rng, sp.Key, k, o, depth+1)
				if k.Kind() == reflect.Float32 || k.Kind() == reflect.Float64 {
					if math.IsNaN(k.Float()) {
						continue
					}
				}
				e := reflect.New(v.Type().Elem()).Elem()
				GenValue(rng, sp.Elem, e, o, depth+1)
				m.SetMapIndex(k, e)
			}
			v.Set(m)
		}
	case SemStruct, SemArrowSer:
		for _, f := range sp.Fields {
			GenValue(rng, f.Spec, v.Field(f.Index), o, depth+1)
		}
	}
}

// GenStruct generates a value of a modelled struct type.
func GenStruct(rng *rand.Rand, ss *StructSpec, o ValOpt) reflect.Value {
	v := reflect.New(ss.Type).Elem()
	for _, f := range ss.Fields {
		GenValue(rng, f.Spec, v.Field(f.Index), o, 0)
	}
	return v
}

// WalkClasses reports the value classes present in v (for required
// observation classes): e.g. "timestamp:after-2262", "list:nil", "ptr:nil".
func WalkClasses(sp *Spec, v reflect.Value, hit func(string)) {
	if sp.Ptr {
		if v.IsNil() {
			hit("ptr:nil:" + sp.Sem.String())
			return
		}
		hit("ptr:set:" + sp.Sem.String())
		v = v.Elem()
	}
	switch sp.Sem {
	case SemInt:
		if sp.Max > 0 {
			hit("int:mixed-signedness")
			break
		}
		lo, hi := int64(-1)<<(sp.Bits-1), int64(1)<<(sp.Bits-1)-1
		if v.Int() == lo {
			hit(fmt.Sprintf("int%d:min", sp.Bits))
		} else if v.Int() == hi {
			hit(fmt.Sprintf("int%d:max", sp.Bits))
		}
	case SemUint:
		if sp.Max > 0 {
			hit("int:mixed-signedness")
			break
		}
		if sp.Bits == 64 && v.Uint() > math.MaxInt64 {
			hit("uint64:above-int64")
		}
	case SemFloat:
		f := v.Float()
		switch {
		case math.IsNaN(f):
			hit("float:nan")
		case math.IsInf(f, 0):
			hit("float:inf")
		case f == 0 && math.Signbit(f):
			hit("float:-0")
		case f != 0 && math.Abs(f) < 2.2250738585072014e-308 && sp.Bits == 64:
			hit("float:subnormal")
		}
	case SemString:
		s := v.String()
		if s == "" {
			hit("string:empty")
		} else if strings.ContainsRune(s, 0) {
			hit("string:nul")
		} else if len(s) != utf8.RuneCountInString(s) {
			hit("string:multibyte")
		}
	case SemBytes:
		if sp.Width > 0 {
			hit("bytes:fixed")
		} else if v.IsNil() {
			hit("bytes:nil")
		} else if v.Len() == 0 {
			hit("bytes:empty")
		} else if v.Len() > 1024 {
			hit("bytes:big")
		}
	case SemTimestamp:
		hit("timestamp:" + tsClass(v.Interface().(time.Time)))
	case SemDate:
		hit("date:" + dateClass(v.Interface().(time.Time)))
		if d := EpochDay(v.Interface().(time.Time)); d > 106751991 || d < -106751991 {
			hit("date:beyond-microsecond-range")
		}
	case SemTimeOfDay:
		hit("time-of-day")
	case SemDuration:
		hit("duration")
	case SemDecimal:
		hit("decimal")
	case SemList:
		if v.IsNil() {
			hit("list:nil")
		} else if v.Len() == 0 {
			hit("list:empty")
		}
		for i := 0; i < v.Len(); i++ {
			if sp.Elem.Ptr && v.Index(i).IsNil() {
				hit("list:nil-element")
			}
			if sp.Elem.Sem == SemList {
				hit("list:nested")
			}
			WalkClasses(sp.Elem, v.Index(i), hit)
		}
	case SemMap:
		if v.IsNil() {
			hit("map:nil")
		} else if v.Len() == 0 {
			hit("map:empty")
		} else if sp.Key.Sem == SemString {
			hit("map:string-key")
		} else {
			hit("map:int-key")
		}
		if sp.Elem.Ptr && !v.IsNil() {
			it := v.MapRange()
			for it.Next() {
				if it.Value().IsNil() {
					hit("map:nil-value")
				} else {
					hit("map:pointer-value")
				}
			}
		}
	case SemStruct:
		hit("struct")
		for _, f := range sp.Fields {
			WalkClasses(f.Spec, v.Field(f.Index), hit)
		}
	case SemArrowSer:
		hit("arrowser")
	}
}

// StructDepth is the deepest chain of `struct`-tagged fields below sp.
func StructDepth(sp *Spec) int {
	d := 0
	for _, f := range sp.Fields {
		if f.Spec.Sem == SemStruct {
			d = max(d, 1+StructDepth(f.Spec))
		}
	}
	return d
}
