package wc

import (
	"fmt"
	"math/rand/v2"

	"github.com/apache/arrow-go/v18/arrow"
	"github.com/apache/arrow-go/v18/arrow/array"
	"github.com/apache/arrow-go/v18/arrow/memory"
)

// Dictionary columns built by hand.
//
// A dictionary builder fed the single value of a one-row batch produces a
// one-entry dictionary with index 0. A client is free to ship all members of
// an enum and select one by index, so the same logical batch is also sent with
// a dictionary of k distinct entries (k in 2..6) in random order and indices
// pointing at the entry that holds the value — mostly NOT the first one.

// DictStats counts what RebuildDictionaries did.
type DictStats struct {
	Arrays           int // dictionary arrays rebuilt (top level or nested)
	NonFirstSelected int // non-null positions whose index is != 0
	FirstSelected    int
	MaxEntries       int
}

var dictMem = memory.NewGoAllocator()

var fillerWords = []string{"red", "green", "blue", "ACTIVE", "inactive", "", "ünï", "PENDING", "a", "z", "0", "名前"}

// RebuildDictionaries returns a batch with the same schema, custom metadata
// and logical values as rec in which every dictionary<intN, utf8> array (top
// level, list element, struct child, map item) carries a multi-entry
// dictionary. The caller owns the result; rec is not released.
func RebuildDictionaries(rng *rand.Rand, rec arrow.RecordBatch) (arrow.RecordBatch, DictStats) {
	var st DictStats
	cols := make([]arrow.Array, rec.NumCols())
	for i := range cols {
		nd := rebuildData(rng, rec.Column(i).Data(), &st)
		cols[i] = array.MakeFromData(nd)
		nd.Release()
	}
	var out arrow.RecordBatch
	if m, ok := rec.(arrow.RecordBatchWithMetadata); ok && m.Metadata().Len() > 0 {
		out = array.NewRecordBatchWithMetadata(rec.Schema(), cols, rec.NumRows(), m.Metadata())
	} else {
		out = array.NewRecordBatch(rec.Schema(), cols, rec.NumRows())
	}
	for _, c := range cols {
		c.Release()
	}
	return out, st
}

// rebuildData returns a retained ArrayData (caller releases).
func rebuildData(rng *rand.Rand, d arrow.ArrayData, st *DictStats) arrow.ArrayData {
	switch dt := d.DataType().(type) {
	case *arrow.DictionaryType:
		if dt.ValueType.ID() != arrow.STRING {
			d.Retain()
			return d
		}
		return rebuildDict(rng, d, dt, st)
	case *arrow.ListType, *arrow.MapType, *arrow.StructType:
		_ = dt
		kids := d.Children()
		if len(kids) == 0 {
			d.Retain()
			return d
		}
		nk := make([]arrow.ArrayData, len(kids))
		for i, k := range kids {
			nk[i] = rebuildData(rng, k, st)
		}
		nd := array.NewData(d.DataType(), d.Len(), d.Buffers(), nk, d.NullN(), d.Offset())
		for _, k := range nk {
			k.Release()
		}
		return nd
	}
	d.Retain()
	return d
}

func rebuildDict(rng *rand.Rand, d arrow.ArrayData, dt *arrow.DictionaryType, st *DictStats) arrow.ArrayData {
	src := array.MakeFromData(d).(*array.Dictionary)
	defer src.Release()
	vals := src.Dictionary().(*array.String)
	n := src.Len()
	logical := make([]string, n)
	null := make([]bool, n)
	seen := map[string]bool{}
	var entries []string
	for i := 0; i < n; i++ {
		if src.IsNull(i) {
			null[i] = true
			continue
		}
		logical[i] = vals.Value(src.GetValueIndex(i))
		if !seen[logical[i]] {
			seen[logical[i]] = true
			entries = append(entries, logical[i])
		}
	}
	// fillers: distinct from the values and from each other, total k in 2..6 at least
	want := 2 + rng.IntN(5)
	for tries := 0; len(entries) < want || len(entries) < 2; tries++ {
		w := fillerWords[rng.IntN(len(fillerWords))]
		if tries > 20 {
			w = fmt.Sprintf("filler-%d", tries)
		}
		if !seen[w] {
			seen[w] = true
			entries = append(entries, w)
		}
	}
	rng.Shuffle(len(entries), func(i, j int) { entries[i], entries[j] = entries[j], entries[i] })
	pos := make(map[string]int, len(entries))
	sb := array.NewStringBuilder(dictMem)
	defer sb.Release()
	for i, e := range entries {
		pos[e] = i
		sb.Append(e)
	}
	dictArr := sb.NewArray()
	defer dictArr.Release()
	ib := array.NewBuilder(dictMem, dt.IndexType)
	defer ib.Release()
	for i := 0; i < n; i++ {
		if null[i] {
			ib.AppendNull()
			continue
		}
		j := pos[logical[i]]
		if j == 0 {
			st.FirstSelected++
		} else {
			st.NonFirstSelected++
		}
		switch b := ib.(type) {
		case *array.Int8Builder:
			b.Append(int8(j))
		case *array.Int16Builder:
			b.Append(int16(j))
		case *array.Int32Builder:
			b.Append(int32(j))
		case *array.Int64Builder:
			b.Append(int64(j))
		case *array.Uint8Builder:
			b.Append(uint8(j))
		case *array.Uint16Builder:
			b.Append(uint16(j))
		case *array.Uint32Builder:
			b.Append(uint32(j))
		case *array.Uint64Builder:
			b.Append(uint64(j))
		default:
			panic(fmt.Sprintf("wc: unsupported dictionary index type %s", dt.IndexType))
		}
	}
	idxArr := ib.NewArray()
	defer idxArr.Release()
	st.Arrays++
	st.MaxEntries = max(st.MaxEntries, len(entries))
	na := array.NewDictionaryArray(dt, idxArr, dictArr)
	defer na.Release()
	nd := na.Data()
	nd.Retain()
	return nd
}
