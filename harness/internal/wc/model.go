// Package wc holds what the C05/C07/C08 checks share: an independent model of
// the documented `vgirpc` struct-tag -> Arrow mapping, a generator of tagged
// struct types (reflect.StructOf) and of values per wire type, a comparator
// that implements the documented equivalence with explicit integer / calendar
// arithmetic (never time.Duration), and small reference-client helpers.
//
// Nothing in this package calls the library's own derivation to decide what
// is expected: Model() re-derives the schema from the tags by the table in
// docs/guide/struct-tags.md + the option list in types_schema.go's doc
// comments, and Equal() never uses the library's conversions.
package wc

import (
	"fmt"
	"reflect"
	"strconv"
	"strings"
	"time"

	"github.com/apache/arrow-go/v18/arrow"
)

// Sem is the value semantics of one field: what "the same value" means.
type Sem int

const (
	SemInt Sem = iota
	SemUint
	SemFloat
	SemBool
	SemString
	SemBytes
	SemDate      // UTC calendar day
	SemTimestamp // microsecond instant
	SemTimeOfDay // time of day, microseconds
	SemDuration  // whole microseconds
	SemDecimal   // decimal128(20,4): numeric value to 4 places
	SemList
	SemMap
	SemStruct   // inline struct column (`struct` tag)
	SemArrowSer // ArrowSerializable carried as IPC bytes in a binary column
)

func (s Sem) String() string {
	return [...]string{"int", "uint", "float", "bool", "string", "bytes", "date", "timestamp", "time", "duration",
		"decimal", "list", "map", "struct", "arrowser"}[s]
}

// Spec describes one value position (field, list element, map key/value).
type Spec struct {
	Sem    Sem
	Go     reflect.Type   // Go type with the outer pointer (if any) stripped
	Ptr    bool           // the position's Go type is *Go
	Arrow  arrow.DataType // expected wire type
	Bits   int            // ints/uints: min(Go bits, wire bits); floats: wire bits (32|64)
	Max    uint64         // ints/uints under a wire type of the other signedness: values lie in [0, Max] (0 = not set)
	Width  int            // fixed_size_binary width (0 = variable)
	Elem   *Spec          // list element / map value
	Key    *Spec          // map key
	Fields []FieldSpec    // struct children (tagged fields only)
	Class  string         // short label for signatures, e.g. "int64/int32", "time/date"
}

// FieldSpec is one tagged struct field.
type FieldSpec struct {
	Index    int    // Go field index
	GoName   string // Go field name
	Wire     string // column name
	Spec     *Spec
	Nullable bool    // expected Arrow nullability of the column
	Default  *string // declared default=, nil if none
	Tag      string
}

// StructSpec is the model of a tagged struct type.
type StructSpec struct {
	Type   reflect.Type
	Fields []FieldSpec
	Schema *arrow.Schema // expected schema, built by this package
}

var (
	timeT     = reflect.TypeOf(time.Time{})
	durationT = reflect.TypeOf(time.Duration(0))
)

// arrowSchemaer mirrors vgirpc.ArrowSerializable without importing it.
type arrowSchemaer interface{ ArrowSchema() *arrow.Schema }

var arrowSchemaerT = reflect.TypeOf((*arrowSchemaer)(nil)).Elem()

type tagModel struct {
	name     string
	typ      string // type option ("" if none)
	elem     string // elem= option
	nullable bool
	def      *string
}

func parseTagModel(tag string) tagModel {
	parts := strings.Split(tag, ",")
	m := tagModel{name: parts[0]}
	for _, p := range parts[1:] {
		switch {
		case strings.HasPrefix(p, "default="):
			v := p[len("default="):]
			m.def = &v
		case strings.HasPrefix(p, "elem="):
			m.elem = p[len("elem="):]
		case p == "nullable":
			m.nullable = true
		default:
			m.typ = p
		}
	}
	return m
}

// Model derives the expected schema and value semantics of a tagged struct
// type from its tags, by the documented mapping.
func Model(t reflect.Type) (*StructSpec, error) {
	fs, err := modelFields(t, 0)
	if err != nil {
		return nil, err
	}
	af := make([]arrow.Field, len(fs))
	for i, f := range fs {
		af[i] = arrow.Field{Name: f.Wire, Type: f.Spec.Arrow, Nullable: f.Nullable}
	}
	return &StructSpec{Type: t, Fields: fs, Schema: arrow.NewSchema(af, nil)}, nil
}

func modelFields(t reflect.Type, depth int) ([]FieldSpec, error) {
	if t.Kind() != reflect.Struct {
		return nil, fmt.Errorf("not a struct: %v", t)
	}
	var out []FieldSpec
	for i := 0; i < t.NumField(); i++ {
		f := t.Field(i)
		tag := f.Tag.Get("vgirpc")
		if tag == "" || tag == "-" {
			continue
		}
		tm := parseTagModel(tag)
		sp, err := modelType(f.Type, tm.typ, tm.elem, depth)
		if err != nil {
			return nil, fmt.Errorf("field %s: %w", f.Name, err)
		}
		out = append(out, FieldSpec{Index: i, GoName: f.Name, Wire: tm.name, Spec: sp,
			Nullable: sp.Ptr || tm.nullable, Default: tm.def, Tag: tag})
	}
	return out, nil
}

func intBits(k reflect.Kind) (bits int, signed, ok bool) {
	switch k {
	case reflect.Int, reflect.Int64:
		return 64, true, true
	case reflect.Int32:
		return 32, true, true
	case reflect.Int16:
		return 16, true, true
	case reflect.Int8:
		return 8, true, true
	case reflect.Uint, reflect.Uint64:
		return 64, false, true
	case reflect.Uint32:
		return 32, false, true
	case reflect.Uint16:
		return 16, false, true
	case reflect.Uint8:
		return 8, false, true
	}
	return 0, false, false
}

func modelType(t reflect.Type, opt, elemOpt string, depth int) (*Spec, error) {
	sp := &Spec{}
	if t.Kind() == reflect.Ptr {
		sp.Ptr = true
		t = t.Elem()
	}
	sp.Go = t
	label := func(s string) { sp.Class = s }
	gobits, gosigned, isInt := intBits(t.Kind())
	intOpt := func(wbits int, wsigned bool, dt arrow.DataType) (*Spec, error) {
		if !isInt {
			return nil, fmt.Errorf("%s option on non-integer %v", opt, t)
		}
		if gosigned != wsigned {
			// The library accepts the pair; the values both sides can hold are
			// the non-negative ones below the smaller positive range.
			pos := func(bits int, signed bool) uint64 {
				if signed {
					bits--
				}
				if bits >= 64 {
					return ^uint64(0)
				}
				return uint64(1)<<bits - 1
			}
			sp.Max = min(pos(gobits, gosigned), pos(wbits, wsigned))
		}
		if gosigned {
			sp.Sem = SemInt
		} else {
			sp.Sem = SemUint
		}
		sp.Bits = min(gobits, wbits)
		sp.Arrow = dt
		label(t.Kind().String() + "/" + opt)
		return sp, nil
	}
	switch opt {
	case "int8":
		return intOpt(8, true, arrow.PrimitiveTypes.Int8)
	case "int16":
		return intOpt(16, true, arrow.PrimitiveTypes.Int16)
	case "int32":
		return intOpt(32, true, arrow.PrimitiveTypes.Int32)
	case "uint8":
		return intOpt(8, false, arrow.PrimitiveTypes.Uint8)
	case "uint16":
		return intOpt(16, false, arrow.PrimitiveTypes.Uint16)
	case "uint32":
		return intOpt(32, false, arrow.PrimitiveTypes.Uint32)
	case "uint64":
		return intOpt(64, false, arrow.PrimitiveTypes.Uint64)
	case "float32":
		sp.Sem, sp.Bits, sp.Arrow = SemFloat, 32, arrow.PrimitiveTypes.Float32
		label(t.Kind().String() + "/float32")
		return sp, nil
	case "enum", "dict_string":
		sp.Sem = SemString
		sp.Arrow = &arrow.DictionaryType{IndexType: arrow.PrimitiveTypes.Int16, ValueType: arrow.BinaryTypes.String}
		label("string/" + opt)
		return sp, nil
	case "binary":
		sp.Arrow = arrow.BinaryTypes.Binary
		if t.Implements(arrowSchemaerT) || reflect.PointerTo(t).Implements(arrowSchemaerT) {
			return modelArrowSer(sp, t)
		}
		sp.Sem = SemBytes
		label("bytes/binary")
		return sp, nil
	case "struct":
		if depth >= 8 {
			return nil, fmt.Errorf("struct nesting exceeds 8")
		}
		fs, err := modelFields(t, depth+1)
		if err != nil {
			return nil, err
		}
		if len(fs) == 0 {
			return nil, fmt.Errorf("struct %v without tagged fields", t)
		}
		af := make([]arrow.Field, len(fs))
		for i, f := range fs {
			af[i] = arrow.Field{Name: f.Wire, Type: f.Spec.Arrow, Nullable: f.Nullable}
		}
		sp.Sem, sp.Fields, sp.Arrow = SemStruct, fs, arrow.StructOf(af...)
		label("struct")
		return sp, nil
	case "large_string":
		sp.Sem, sp.Arrow = SemString, arrow.BinaryTypes.LargeString
		label("string/large_string")
		return sp, nil
	case "large_binary":
		sp.Sem, sp.Arrow = SemBytes, arrow.BinaryTypes.LargeBinary
		label("bytes/large_binary")
		return sp, nil
	case "date":
		sp.Sem, sp.Arrow = SemDate, arrow.FixedWidthTypes.Date32
		label("time/date")
		return sp, nil
	case "timestamp":
		sp.Sem, sp.Arrow = SemTimestamp, &arrow.TimestampType{Unit: arrow.Microsecond}
		label("time/timestamp")
		return sp, nil
	case "timestamp_utc":
		sp.Sem, sp.Arrow = SemTimestamp, &arrow.TimestampType{Unit: arrow.Microsecond, TimeZone: "UTC"}
		label("time/timestamp_utc")
		return sp, nil
	case "time":
		sp.Sem, sp.Arrow = SemTimeOfDay, arrow.FixedWidthTypes.Time64us
		label("time/time")
		return sp, nil
	case "duration":
		sp.Sem, sp.Arrow = SemDuration, arrow.FixedWidthTypes.Duration_us
		label("duration")
		return sp, nil
	case "decimal":
		sp.Sem, sp.Arrow = SemDecimal, &arrow.Decimal128Type{Precision: 20, Scale: 4}
		label("string/decimal")
		return sp, nil
	}
	if strings.HasPrefix(opt, "fixed_binary[") && strings.HasSuffix(opt, "]") {
		w, err := strconv.Atoi(opt[len("fixed_binary[") : len(opt)-1])
		if err != nil || w <= 0 {
			return nil, fmt.Errorf("bad %s", opt)
		}
		sp.Sem, sp.Width, sp.Arrow = SemBytes, w, &arrow.FixedSizeBinaryType{ByteWidth: w}
		label("bytes/fixed")
		return sp, nil
	}
	if opt != "" {
		return nil, fmt.Errorf("model: unknown tag option %q", opt)
	}
	if t.Implements(arrowSchemaerT) || reflect.PointerTo(t).Implements(arrowSchemaerT) {
		sp.Arrow = arrow.BinaryTypes.Binary
		return modelArrowSer(sp, t)
	}
	switch t.Kind() {
	case reflect.String:
		sp.Sem, sp.Arrow = SemString, arrow.BinaryTypes.String
		label("string")
	case reflect.Int, reflect.Int64:
		sp.Sem, sp.Bits, sp.Arrow = SemInt, 64, arrow.PrimitiveTypes.Int64
		label(t.Kind().String())
	case reflect.Int32:
		sp.Sem, sp.Bits, sp.Arrow = SemInt, 32, arrow.PrimitiveTypes.Int32
		label("int32")
	case reflect.Int16:
		sp.Sem, sp.Bits, sp.Arrow = SemInt, 16, arrow.PrimitiveTypes.Int16
		label("int16")
	case reflect.Int8:
		sp.Sem, sp.Bits, sp.Arrow = SemInt, 8, arrow.PrimitiveTypes.Int8
		label("int8")
	case reflect.Uint, reflect.Uint64:
		sp.Sem, sp.Bits, sp.Arrow = SemUint, 64, arrow.PrimitiveTypes.Uint64
		label(t.Kind().String())
	case reflect.Uint32:
		sp.Sem, sp.Bits, sp.Arrow = SemUint, 32, arrow.PrimitiveTypes.Uint32
		label("uint32")
	case reflect.Uint16:
		sp.Sem, sp.Bits, sp.Arrow = SemUint, 16, arrow.PrimitiveTypes.Uint16
		label("uint16")
	case reflect.Uint8:
		sp.Sem, sp.Bits, sp.Arrow = SemUint, 8, arrow.PrimitiveTypes.Uint8
		label("uint8")
	case reflect.Float64:
		sp.Sem, sp.Bits, sp.Arrow = SemFloat, 64, arrow.PrimitiveTypes.Float64
		label("float64")
	case reflect.Float32:
		sp.Sem, sp.Bits, sp.Arrow = SemFloat, 32, arrow.PrimitiveTypes.Float32
		label("float32")
	case reflect.Bool:
		sp.Sem, sp.Arrow = SemBool, arrow.FixedWidthTypes.Boolean
		label("bool")
	case reflect.Slice:
		if t.Elem().Kind() == reflect.Uint8 {
			sp.Sem, sp.Arrow = SemBytes, arrow.BinaryTypes.Binary
			label("bytes")
			return sp, nil
		}
		el, err := modelType(t.Elem(), elemOpt, "", depth)
		if err != nil {
			return nil, fmt.Errorf("list element: %w", err)
		}
		sp.Sem, sp.Elem, sp.Arrow = SemList, el, arrow.ListOf(el.Arrow)
		label("list<" + el.Class + ptrMark(el) + ">")
	case reflect.Map:
		k, err := modelType(t.Key(), "", "", depth)
		if err != nil {
			return nil, fmt.Errorf("map key: %w", err)
		}
		v, err := modelType(t.Elem(), "", "", depth)
		if err != nil {
			return nil, fmt.Errorf("map value: %w", err)
		}
		sp.Sem, sp.Key, sp.Elem, sp.Arrow = SemMap, k, v, arrow.MapOf(k.Arrow, v.Arrow)
		label("map<" + k.Class + "," + v.Class + ">")
	default:
		return nil, fmt.Errorf("model: unsupported Go type %v", t)
	}
	return sp, nil
}

func ptrMark(s *Spec) string {
	if s.Ptr {
		return "*"
	}
	return ""
}

// modelArrowSer models an ArrowSerializable value: its user-declared schema
// names the columns, the `arrow` struct tags bind them to Go fields.
func modelArrowSer(sp *Spec, t reflect.Type) (*Spec, error) {
	zero := reflect.New(t)
	var sc *arrow.Schema
	if a, ok := zero.Interface().(arrowSchemaer); ok {
		sc = a.ArrowSchema()
	} else if a, ok := zero.Elem().Interface().(arrowSchemaer); ok {
		sc = a.ArrowSchema()
	}
	if sc == nil {
		return nil, fmt.Errorf("no ArrowSchema on %v", t)
	}
	sp.Sem = SemArrowSer
	sp.Class = "arrowser"
	for _, af := range sc.Fields() {
		idx := -1
		for i := 0; i < t.NumField(); i++ {
			if t.Field(i).Tag.Get("arrow") == af.Name {
				idx = i
				break
			}
		}
		if idx < 0 {
			return nil, fmt.Errorf("ArrowSerializable %v: no Go field for %q", t, af.Name)
		}
		cs, err := specFromArrow(t.Field(idx).Type, af.Type)
		if err != nil {
			return nil, err
		}
		sp.Fields = append(sp.Fields, FieldSpec{Index: idx, GoName: t.Field(idx).Name, Wire: af.Name, Spec: cs, Nullable: af.Nullable})
	}
	return sp, nil
}

// specFromArrow gives value semantics for a Go type carried in a given,
// user-declared Arrow type (ArrowSerializable children). Only the simple
// shapes used by the static family are supported.
func specFromArrow(t reflect.Type, dt arrow.DataType) (*Spec, error) {
	sp := &Spec{Arrow: dt}
	if t.Kind() == reflect.Ptr {
		sp.Ptr = true
		t = t.Elem()
	}
	sp.Go = t
	switch dt.ID() {
	case arrow.STRING, arrow.LARGE_STRING:
		sp.Sem, sp.Class = SemString, "string"
	case arrow.INT64, arrow.INT32, arrow.INT16, arrow.INT8:
		b, _, _ := intBits(t.Kind())
		sp.Sem, sp.Bits, sp.Class = SemInt, min(b, dt.(arrow.FixedWidthDataType).BitWidth()), "int"
	case arrow.FLOAT64:
		sp.Sem, sp.Bits, sp.Class = SemFloat, 64, "float64"
	case arrow.FLOAT32:
		sp.Sem, sp.Bits, sp.Class = SemFloat, 32, "float32"
	case arrow.BOOL:
		sp.Sem, sp.Class = SemBool, "bool"
	case arrow.BINARY:
		sp.Sem, sp.Class = SemBytes, "bytes"
	case arrow.LIST:
		el, err := specFromArrow(t.Elem(), dt.(*arrow.ListType).Elem())
		if err != nil {
			return nil, err
		}
		sp.Sem, sp.Elem, sp.Class = SemList, el, "list<"+el.Class+">"
	default:
		return nil, fmt.Errorf("specFromArrow: unsupported %v", dt)
	}
	return sp, nil
}

// SchemaDiff compares two schemas on exactly what the C07 statement names:
// field order, names, types (recursively, incl. nested names/nullability) and
// nullability; schema- and field-level metadata are ignored. "" = equal.
func SchemaDiff(a, b *arrow.Schema) string {
	if a.NumFields() != b.NumFields() {
		return fmt.Sprintf("field count %d != %d", a.NumFields(), b.NumFields())
	}
	for i := 0; i < a.NumFields(); i++ {
		fa, fb := a.Field(i), b.Field(i)
		if fa.Name != fb.Name {
			return fmt.Sprintf("field %d name %q != %q", i, fa.Name, fb.Name)
		}
		if fa.Nullable != fb.Nullable {
			return fmt.Sprintf("field %q nullable %v != %v", fa.Name, fa.Nullable, fb.Nullable)
		}
		if d := typeDiff(fa.Type, fb.Type); d != "" {
			return fmt.Sprintf("field %q: %s", fa.Name, d)
		}
	}
	return ""
}

func typeDiff(a, b arrow.DataType) string {
	if a.ID() != b.ID() {
		return fmt.Sprintf("type %s != %s", a, b)
	}
	switch x := a.(type) {
	case *arrow.ListType:
		y := b.(*arrow.ListType)
		if x.ElemField().Nullable != y.ElemField().Nullable {
			return "list item nullability differs"
		}
		return typeDiff(x.Elem(), y.Elem())
	case *arrow.MapType:
		y := b.(*arrow.MapType)
		if d := typeDiff(x.KeyType(), y.KeyType()); d != "" {
			return "map key: " + d
		}
		if x.ItemField().Nullable != y.ItemField().Nullable {
			return "map item nullability differs"
		}
		if x.KeysSorted != y.KeysSorted {
			return "map keys_sorted differs"
		}
		return typeDiff(x.ItemType(), y.ItemType())
	case *arrow.StructType:
		y := b.(*arrow.StructType)
		if x.NumFields() != y.NumFields() {
			return "struct child count differs"
		}
		for i := 0; i < x.NumFields(); i++ {
			if x.Field(i).Name != y.Field(i).Name {
				return fmt.Sprintf("struct child %d name %q != %q", i, x.Field(i).Name, y.Field(i).Name)
			}
			if x.Field(i).Nullable != y.Field(i).Nullable {
				return fmt.Sprintf("struct child %q nullability differs", x.Field(i).Name)
			}
			if d := typeDiff(x.Field(i).Type, y.Field(i).Type); d != "" {
				return fmt.Sprintf("struct child %q: %s", x.Field(i).Name, d)
			}
		}
		return ""
	case *arrow.DictionaryType:
		y := b.(*arrow.DictionaryType)
		if d := typeDiff(x.IndexType, y.IndexType); d != "" {
			return "dictionary index: " + d
		}
		if x.Ordered != y.Ordered {
			return "dictionary ordered differs"
		}
		return typeDiff(x.ValueType, y.ValueType)
	case *arrow.TimestampType:
		y := b.(*arrow.TimestampType)
		if x.Unit != y.Unit || x.TimeZone != y.TimeZone {
			return fmt.Sprintf("type %s != %s", a, b)
		}
	case *arrow.Time64Type:
		if x.Unit != b.(*arrow.Time64Type).Unit {
			return fmt.Sprintf("type %s != %s", a, b)
		}
	case *arrow.DurationType:
		if x.Unit != b.(*arrow.DurationType).Unit {
			return fmt.Sprintf("type %s != %s", a, b)
		}
	case *arrow.Decimal128Type:
		y := b.(*arrow.Decimal128Type)
		if x.Precision != y.Precision || x.Scale != y.Scale {
			return fmt.Sprintf("type %s != %s", a, b)
		}
	case *arrow.FixedSizeBinaryType:
		if x.ByteWidth != b.(*arrow.FixedSizeBinaryType).ByteWidth {
			return fmt.Sprintf("type %s != %s", a, b)
		}
	}
	return ""
}

// SchemaString is a stable rendering of what SchemaDiff compares.
func SchemaString(s *arrow.Schema) string {
	var sb strings.Builder
	for i, f := range s.Fields() {
		if i > 0 {
			sb.WriteString(", ")
		}
		fmt.Fprintf(&sb, "%q: %s", f.Name, f.Type)
		if f.Nullable {
			sb.WriteString(" null")
		}
	}
	return sb.String()
}
