package wc

import (
	"context"
	"reflect"
	"time"

	"github.com/Query-farm/vgi-rpc-go/vgirpc"
	"github.com/apache/arrow-go/v18/arrow"
)

// The static family: hand-written tagged struct types registered through the
// real generic API (vgirpc.Unary[P,R] / Producer[P]) — the path users take.

type SScalars struct {
	S   string  `vgirpc:"s"`
	I   int64   `vgirpc:"i"`
	F   float64 `vgirpc:"f"`
	B   bool    `vgirpc:"b"`
	Raw []byte  `vgirpc:"raw"`
}

type SIntWidths struct {
	I8   int8   `vgirpc:"i8"`
	I16  int16  `vgirpc:"i16"`
	I32  int32  `vgirpc:"i32"`
	I64  int64  `vgirpc:"i64"`
	I    int    `vgirpc:"i"`
	U8   uint8  `vgirpc:"u8"`
	U16  uint16 `vgirpc:"u16"`
	U32  uint32 `vgirpc:"u32"`
	U64  uint64 `vgirpc:"u64"`
	U    uint   `vgirpc:"u"`
	T8   int64  `vgirpc:"t8,int8"`
	T16  int64  `vgirpc:"t16,int16"`
	T32  int64  `vgirpc:"t32,int32"`
	TU8  uint64 `vgirpc:"tu8,uint8"`
	TU16 uint64 `vgirpc:"tu16,uint16"`
	TU32 uint64 `vgirpc:"tu32,uint32"`
	TU64 uint64 `vgirpc:"tu64,uint64"`
}

type SFloats struct {
	F64  float64  `vgirpc:"f64"`
	F32  float32  `vgirpc:"f32"`
	T32  float64  `vgirpc:"t32,float32"`
	PF64 *float64 `vgirpc:"pf64"`
}

type SStrings struct {
	S    string  `vgirpc:"s"`
	L    string  `vgirpc:"l,large_string"`
	E    Status  `vgirpc:"e,enum"`
	D    string  `vgirpc:"d,dict_string"`
	Dec  string  `vgirpc:"dec,decimal"`
	PS   *string `vgirpc:"ps"`
	PE   *Status `vgirpc:"pe,enum"`
	PDec *string `vgirpc:"pdec,decimal"`
}

type SBinaries struct {
	B  []byte  `vgirpc:"b"`
	LB []byte  `vgirpc:"lb,large_binary"`
	F8 []byte  `vgirpc:"f8,fixed_binary[8]"`
	F1 []byte  `vgirpc:"f1,fixed_binary[1]"`
	PB *[]byte `vgirpc:"pb"`
	NB []byte  `vgirpc:"nb,nullable"`
}

type STemporal struct {
	D   time.Time     `vgirpc:"d,date"`
	TS  time.Time     `vgirpc:"ts,timestamp"`
	TSU time.Time     `vgirpc:"tsu,timestamp_utc"`
	T   time.Time     `vgirpc:"t,time"`
	Dur time.Duration `vgirpc:"dur,duration"`
}

type STemporalPtr struct {
	D   *time.Time     `vgirpc:"d,date"`
	TS  *time.Time     `vgirpc:"ts,timestamp"`
	TSU *time.Time     `vgirpc:"tsu,timestamp_utc"`
	T   *time.Time     `vgirpc:"t,time"`
	Dur *time.Duration `vgirpc:"dur,duration"`
}

type SNullablePrims struct {
	S   *string  `vgirpc:"s"`
	I   *int64   `vgirpc:"i"`
	F   *float64 `vgirpc:"f"`
	B   *bool    `vgirpc:"b"`
	N   int64    `vgirpc:"n,nullable"`
	T   string   `vgirpc:"t,nullable"`
	I32 *int32   `vgirpc:"i32"`
	U16 *uint16  `vgirpc:"u16"`
}

type SLists struct {
	Strs   []string    `vgirpc:"strs"`
	Ints   []int64     `vgirpc:"ints"`
	Fl     []float64   `vgirpc:"fl"`
	Bools  []bool      `vgirpc:"bools"`
	Blobs  [][]byte    `vgirpc:"blobs"`
	PS     []*string   `vgirpc:"ps"`
	PI     []*int64    `vgirpc:"pi"`
	Nested [][]int64   `vgirpc:"nested"`
	Deep   [][][]int64 `vgirpc:"deep"`
	PL     *[]string   `vgirpc:"pl"`
}

type SListElems struct {
	LB  [][]byte        `vgirpc:"lb,elem=large_binary"`
	LS  []string        `vgirpc:"ls,elem=large_string"`
	I32 []int64         `vgirpc:"i32,elem=int32"`
	TS  []time.Time     `vgirpc:"ts,elem=timestamp"`
	DT  []time.Time     `vgirpc:"dt,elem=date"`
	Dec []string        `vgirpc:"dec,elem=decimal"`
	En  []string        `vgirpc:"en,elem=enum"`
	Dur []time.Duration `vgirpc:"dur,elem=duration"`
	Fix [][]byte        `vgirpc:"fix,elem=fixed_binary[4]"`
}

type SMaps struct {
	SS map[string]string  `vgirpc:"ss"`
	SI map[string]int64   `vgirpc:"si"`
	SF map[string]float64 `vgirpc:"sf"`
	IS map[int64]string   `vgirpc:"is"`
	I3 map[int32]int64    `vgirpc:"i3"`
	SL map[string][]int64 `vgirpc:"sl"`
	NM map[string]bool    `vgirpc:"nm,nullable"`
	PM *map[string]int64  `vgirpc:"pm"`
}

type SInner struct {
	Format   string    `vgirpc:"format"`
	FilePath string    `vgirpc:"file_path"`
	Expected []byte    `vgirpc:"expected_schema"`
	Opt      *int64    `vgirpc:"opt"`
	Kind     Status    `vgirpc:"kind,enum"`
	When     time.Time `vgirpc:"when,timestamp_utc"`
	Tags     []string  `vgirpc:"tags"`
}

type SOuter struct {
	CopyFrom *SInner `vgirpc:"copy_from,struct"`
	CopyTo   SInner  `vgirpc:"copy_to,struct"`
	N        int64   `vgirpc:"n"`
}

type SL3 struct {
	V *float64 `vgirpc:"v"`
}
type SL2 struct {
	C *SL3   `vgirpc:"c,struct"`
	S string `vgirpc:"s"`
}
type SL1 struct {
	C  SL2  `vgirpc:"c,struct"`
	PC *SL2 `vgirpc:"pc,struct"`
}
type SNest3 struct {
	Top *SL1 `vgirpc:"top,struct"`
}

type SEmpty struct{}

type SUntagged struct {
	A    int64 `vgirpc:"a"`
	Skip string
	Dash int64  `vgirpc:"-"`
	B    string `vgirpc:"b"`
}

// Shapes next to the reserved wrapped-request shape, all inside the C07 quantifier.
type SRequestString struct {
	Request string `vgirpc:"request"`
}
type SRequestPlus struct {
	Request []byte `vgirpc:"request"`
	Other   int64  `vgirpc:"other"`
}
type SRequestLarge struct {
	Request []byte `vgirpc:"request,large_binary"`
}

// Defaults on the documented kinds (docs/guide/struct-tags.md).
type SDefaults struct {
	Prefix string  `vgirpc:"prefix"`
	Sep    string  `vgirpc:"separator,nullable,default=-"`
	Count  int64   `vgirpc:"count,nullable,default=42"`
	Ratio  float64 `vgirpc:"ratio,nullable,default=0"`
	Flag   bool    `vgirpc:"flag,nullable,default=true"`
	N      int     `vgirpc:"n,nullable,default=-7"`
}
type SDefaultPtrs struct {
	Sep   *string  `vgirpc:"separator,default=-"`
	Count *int64   `vgirpc:"count,default=42"`
	Ratio *float64 `vgirpc:"ratio,default=2.5"`
	Flag  *bool    `vgirpc:"flag,default=true"`
	Plain *string  `vgirpc:"plain"`
}

// Defaults on the other integer / float widths and on tagged strings: the
// library accepts the declaration (and advertises the default in __describe__).
type SDefaultsWide struct {
	I32  int32   `vgirpc:"i32,nullable,default=5"`
	I8   *int8   `vgirpc:"i8,default=-3"`
	U64  *uint64 `vgirpc:"u64,default=18446744073709551615"`
	U16  uint16  `vgirpc:"u16,nullable,default=7"`
	F32  float32 `vgirpc:"f32,nullable,default=1.5"`
	T32  int64   `vgirpc:"t32,int32,nullable,default=9"`
	En   Status  `vgirpc:"en,enum,nullable,default=ACTIVE"`
	LS   *string `vgirpc:"ls,large_string,default=big"`
	Keep string  `vgirpc:"keep"`
}

// Declared defaults the harness does not judge (no documented text form /
// not parsable for the kind): outcomes are only counted.
type SDefaultsOdd struct {
	Raw []byte `vgirpc:"raw,nullable,default=xy"`
	Bad int64  `vgirpc:"bad,nullable,default=abc"`
	N   int64  `vgirpc:"n"`
}

// SPoint is an ArrowSerializable carried as IPC bytes (`binary`).
type SPoint struct {
	X float64 `arrow:"x"`
	Y float64 `arrow:"y"`
	L string  `arrow:"label"`
}

var sPointSchema = arrow.NewSchema([]arrow.Field{
	{Name: "x", Type: arrow.PrimitiveTypes.Float64},
	{Name: "y", Type: arrow.PrimitiveTypes.Float64},
	{Name: "label", Type: arrow.BinaryTypes.String},
}, nil)

func (SPoint) ArrowSchema() *arrow.Schema { return sPointSchema }

type SWithPoint struct {
	P  SPoint  `vgirpc:"point,binary"`
	PP *SPoint `vgirpc:"ppoint,binary"`
	N  int64   `vgirpc:"n"`
}

// StaticType is one member of the static family with its registration
// closures over the real generic API.
type StaticType struct {
	Name string
	Type reflect.Type
	// RegisterEcho registers vgirpc.Unary[T,T]; tap (may be nil) sees the
	// value the handler received.
	RegisterEcho func(s *vgirpc.Server, method string, tap func(reflect.Value))
	// RegisterVoid registers vgirpc.UnaryVoid[T].
	RegisterVoid func(s *vgirpc.Server, method string, tap func(reflect.Value))
	// RegisterProducer registers vgirpc.Producer[T] with an immediately
	// finishing state.
	RegisterProducer func(s *vgirpc.Server, method string, tap func(reflect.Value))
}

// FinishState is a producer state that finishes at its first turn.
type FinishState struct{}

func (*FinishState) Produce(_ context.Context, out *vgirpc.OutputCollector, _ *vgirpc.CallContext) error {
	return out.Finish()
}

// CtxT is reflect's type of context.Context (for reflect.FuncOf handlers).
var CtxT = reflect.TypeFor[context.Context]()

// EmptySchema is the zero-column schema.
var EmptySchema = arrow.NewSchema(nil, nil)

func st[T any](name string) StaticType {
	return StaticType{
		Name: name,
		Type: reflect.TypeFor[T](),
		RegisterEcho: func(s *vgirpc.Server, method string, tap func(reflect.Value)) {
			vgirpc.Unary(s, method, func(_ context.Context, _ *vgirpc.CallContext, p T) (T, error) {
				if tap != nil {
					tap(reflect.ValueOf(p))
				}
				return p, nil
			})
		},
		RegisterVoid: func(s *vgirpc.Server, method string, tap func(reflect.Value)) {
			vgirpc.UnaryVoid(s, method, func(_ context.Context, _ *vgirpc.CallContext, p T) error {
				if tap != nil {
					tap(reflect.ValueOf(p))
				}
				return nil
			})
		},
		RegisterProducer: func(s *vgirpc.Server, method string, tap func(reflect.Value)) {
			vgirpc.Producer(s, method, EmptySchema, func(_ context.Context, _ *vgirpc.CallContext, p T) (*vgirpc.StreamResult, error) {
				if tap != nil {
					tap(reflect.ValueOf(p))
				}
				return &vgirpc.StreamResult{OutputSchema: EmptySchema, State: &FinishState{}}, nil
			})
		},
	}
}

// StaticFamily lists the hand-written types. withDefaults adds the types that
// declare default= (only C07 is about defaults).
func StaticFamily(withDefaults bool) []StaticType {
	out := []StaticType{
		st[SScalars]("SScalars"), st[SIntWidths]("SIntWidths"), st[SFloats]("SFloats"), st[SStrings]("SStrings"),
		st[SBinaries]("SBinaries"), st[STemporal]("STemporal"), st[STemporalPtr]("STemporalPtr"),
		st[SNullablePrims]("SNullablePrims"), st[SLists]("SLists"), st[SListElems]("SListElems"), st[SMaps]("SMaps"),
		st[SOuter]("SOuter"), st[SNest3]("SNest3"), st[SEmpty]("SEmpty"), st[SUntagged]("SUntagged"),
		st[SRequestString]("SRequestString"), st[SRequestPlus]("SRequestPlus"), st[SRequestLarge]("SRequestLarge"),
		st[SWithPoint]("SWithPoint"),
	}
	if withDefaults {
		out = append(out, st[SDefaults]("SDefaults"), st[SDefaultPtrs]("SDefaultPtrs"), st[SDefaultsWide]("SDefaultsWide"), st[SDefaultsOdd]("SDefaultsOdd"))
	}
	return out
}
