// Package wn holds the helpers worker wN added for C38 (access-log records)
// and C41 (Arrow memory accounting): a raw HTTP poster that measures what
// crossed the wire in both directions (and can withhold the Content-Length,
// compress the request, or make the response writer fail after N bytes), an
// HTTP stream driver (init + continuations + cancel) built on it, an
// in-memory ExternalStorage with a matching fetch transport, a writer that
// fails at byte N for pipe sessions, and a leak reporter for arrow's
// CheckedAllocator. Nothing here calls the library's client helpers.
package wn

import (
	"bytes"
	"compress/gzip"
	"context"
	"errors"
	"fmt"
	"io"
	"net/http"
	"net/http/httptest"
	"strings"
	"sync"
	"sync/atomic"

	"github.com/klauspost/compress/zstd"

	"verif/harness/internal/wire"
)

// Poster sends raw POSTs either to an in-process handler (synchronous: when
// Post returns, every deferred function of ServeHTTP has run) or to a real
// listener through a byte-counting RoundTripper.
type Poster struct {
	Handler http.Handler // in-process when non-nil
	BaseURL string       // real listener
	Client  *http.Client // real listener; build with NewRecordingClient
	Prefix  string
}

// PostOpt shapes one request.
type PostOpt struct {
	Header      map[string]string
	Chunked     bool   // do not declare a Content-Length
	ReqEncoding string // "", "zstd", "gzip": compress the body and say so in Content-Encoding
	FailWrite   bool   // in-process only: the ResponseWriter fails ...
	FailAfter   int    // ... once this many body bytes were accepted
}

// Resp is one response plus the byte counts the client side measured.
type Resp struct {
	Status    int         `json:"status"`
	Header    http.Header `json:"header,omitempty"`
	Raw       []byte      `json:"-"`          // body exactly as received (before any decompression)
	Sent      int64       `json:"sent_bytes"` // request body bytes handed to the transport
	Declared  bool        `json:"content_length_declared"`
	Recv      int64       `json:"recv_bytes"` // response body bytes received
	Obs       wire.Obs    `json:"obs"`
	RPCError  bool        `json:"rpc_error_header"`
	Encoding  string      `json:"encoding,omitempty"`
	Panic     string      `json:"panic,omitempty"`
	Err       string      `json:"err,omitempty"`
	WriteFail bool        `json:"write_failed,omitempty"` // the injected writer failure fired
}

// One encoder / decoder per process: EncodeAll / DecodeAll are safe for
// concurrent use, and building one per call costs more than the call.
var zstdEnc = sync.OnceValue(func() *zstd.Encoder {
	w, _ := zstd.NewWriter(nil, zstd.WithEncoderConcurrency(1), zstd.WithEncoderLevel(zstd.SpeedFastest), zstd.WithWindowSize(1<<16))
	return w
})
var zstdDec = sync.OnceValue(func() *zstd.Decoder {
	d, _ := zstd.NewReader(nil, zstd.WithDecoderConcurrency(1))
	return d
})

// Compress encodes b with the named coding.
func Compress(enc string, b []byte) []byte {
	switch enc {
	case "zstd":
		return zstdEnc().EncodeAll(b, nil)
	case "gzip":
		var buf bytes.Buffer
		zw, _ := gzip.NewWriterLevel(&buf, gzip.BestSpeed)
		_, _ = zw.Write(b)
		_ = zw.Close()
		return buf.Bytes()
	}
	return b
}

// Decompress undoes a response coding ("" / identity: unchanged).
func Decompress(enc string, b []byte) ([]byte, error) {
	switch strings.ToLower(strings.TrimSpace(enc)) {
	case "zstd":
		return zstdDec().DecodeAll(b, nil)
	case "gzip":
		zr, err := gzip.NewReader(bytes.NewReader(b))
		if err != nil {
			return nil, err
		}
		return io.ReadAll(zr)
	}
	return b, nil
}

// unknownLen hides the concrete reader type so net/http cannot infer a length.
type unknownLen struct{ r io.Reader }

func (u unknownLen) Read(p []byte) (int, error) { return u.r.Read(p) }

var errInjectedWrite = errors.New("wn: injected response write failure")

// failingRecorder is a ResponseRecorder whose body writes fail at byte N.
type failingRecorder struct {
	*httptest.ResponseRecorder
	left  int
	fired bool
}

func (f *failingRecorder) Write(b []byte) (int, error) {
	if len(b) <= f.left {
		f.left -= len(b)
		return f.ResponseRecorder.Write(b)
	}
	n := f.left
	if n > 0 {
		_, _ = f.ResponseRecorder.Write(b[:n])
	}
	f.left = 0
	f.fired = true
	return n, errInjectedWrite
}

// Post sends body to prefix+path.
func (p *Poster) Post(path string, body []byte, o PostOpt) (resp Resp) {
	wireBody := body
	if o.ReqEncoding != "" {
		wireBody = Compress(o.ReqEncoding, body)
	}
	url := p.Prefix + path
	var rd io.Reader = bytes.NewReader(wireBody)
	if o.Chunked {
		rd = unknownLen{rd}
	}
	var req *http.Request
	if p.Handler != nil {
		req = httptest.NewRequest(http.MethodPost, url, rd)
		if o.Chunked {
			req.ContentLength = -1
			req.TransferEncoding = []string{"chunked"}
		}
	} else {
		var err error
		req, err = http.NewRequest(http.MethodPost, p.BaseURL+url, rd)
		if err != nil {
			return Resp{Err: err.Error()}
		}
	}
	req.Header.Set("Content-Type", wire.ContentType)
	if o.ReqEncoding != "" {
		req.Header.Set("Content-Encoding", o.ReqEncoding)
	}
	for k, v := range o.Header {
		req.Header.Set(k, v)
	}
	resp.Sent, resp.Declared = int64(len(wireBody)), !o.Chunked
	if p.Handler != nil {
		rec := httptest.NewRecorder()
		var w http.ResponseWriter = rec
		var fr *failingRecorder
		if o.FailWrite {
			fr = &failingRecorder{ResponseRecorder: rec, left: o.FailAfter}
			w = fr
		}
		func() {
			defer func() {
				if rv := recover(); rv != nil {
					resp.Panic = fmt.Sprintf("%v", rv)
				}
			}()
			p.Handler.ServeHTTP(w, req)
		}()
		resp.Status, resp.Header, resp.Raw = rec.Code, rec.Header(), rec.Body.Bytes()
		resp.Recv = int64(len(resp.Raw))
		if fr != nil {
			resp.WriteFail = fr.fired
		}
	} else {
		cl := p.Client
		if cl == nil {
			cl = http.DefaultClient
		}
		if req.Header.Get("Accept-Encoding") == "" {
			req.Header.Set("Accept-Encoding", "identity")
		}
		cnt := &counts{}
		req = req.WithContext(withCounts(req.Context(), cnt))
		hr, err := cl.Do(req)
		if err != nil {
			resp.Err = err.Error()
			return resp
		}
		b, err := io.ReadAll(hr.Body)
		_ = hr.Body.Close()
		if err != nil {
			resp.Err = err.Error()
		}
		resp.Status, resp.Header, resp.Raw = hr.StatusCode, hr.Header, b
		resp.Sent, resp.Recv = cnt.sent.Load(), cnt.recv.Load()
	}
	resp.RPCError = strings.EqualFold(resp.Header.Get("X-VGI-RPC-Error"), "true")
	enc := resp.Header.Get("X-VGI-Content-Encoding")
	if enc == "" {
		enc = resp.Header.Get("Content-Encoding")
	}
	resp.Encoding = enc
	plain, derr := Decompress(enc, resp.Raw)
	if derr != nil {
		resp.Err = "decompress " + enc + ": " + derr.Error()
		plain = nil
	}
	if strings.HasPrefix(resp.Header.Get("Content-Type"), wire.ContentType) && !resp.WriteFail {
		resp.Obs = wire.Decode(plain)
	}
	return resp
}

// ---------------------------------------------------------------------------
// Recording transport (real listener): counts body bytes as they pass.

type counts struct{ sent, recv atomic.Int64 }

type countsKey struct{}

func withCounts(ctx context.Context, c *counts) context.Context {
	return context.WithValue(ctx, countsKey{}, c)
}

type countingBody struct {
	io.ReadCloser
	n *atomic.Int64
}

func (c countingBody) Read(p []byte) (int, error) {
	n, err := c.ReadCloser.Read(p)
	c.n.Add(int64(n))
	return n, err
}

type recordingRT struct{ base http.RoundTripper }

func (t recordingRT) RoundTrip(req *http.Request) (*http.Response, error) {
	cnt, _ := req.Context().Value(countsKey{}).(*counts)
	if cnt != nil && req.Body != nil {
		req.Body = countingBody{req.Body, &cnt.sent}
	}
	resp, err := t.base.RoundTrip(req)
	if err == nil && cnt != nil {
		resp.Body = countingBody{resp.Body, &cnt.recv}
	}
	return resp, err
}

// NewRecordingClient returns a client whose transport never negotiates or
// undoes compression on its own and counts request/response body bytes.
func NewRecordingClient() *http.Client {
	return &http.Client{Transport: recordingRT{&http.Transport{DisableCompression: true, MaxIdleConnsPerHost: 4}}}
}
