package wn

import (
	"fmt"
	"sort"
	"strings"

	"github.com/apache/arrow-go/v18/arrow/memory"
)

// LeakSink is a memory.TestingT that collects what CheckedAllocator.AssertSize
// reports: one entry per outstanding allocation (size, allocation site and,
// when ARROW_CHECKED_MAX_RETAINED_FRAMES is set, the retained frames).
type LeakSink struct{ Lines []string }

func (l *LeakSink) Errorf(format string, args ...interface{}) {
	l.Lines = append(l.Lines, fmt.Sprintf(format, args...))
}
func (l *LeakSink) Helper() {}

// LeakReport lists the outstanding allocations of a, most useful first.
// AssertSize consumes the stored frame iterators, so the stacks of one
// allocation are printed once only.
func LeakReport(assert func(t memory.TestingT, want int), want int) []string {
	s := &LeakSink{}
	assert(s, want)
	sort.Strings(s.Lines)
	for i, ln := range s.Lines {
		if len(ln) > 3000 {
			s.Lines[i] = ln[:3000] + " ...[cut]"
		}
	}
	return s.Lines
}

// LeakSites reduces a report to the distinct "func file:line" allocation
// sites (stable across runs: used in signatures and evidence).
func LeakSites(report []string) []string {
	seen := map[string]bool{}
	var out []string
	for _, ln := range report {
		if !strings.HasPrefix(ln, "LEAK of") {
			continue
		}
		parts := strings.Split(ln, "\n")
		site := ""
		if len(parts) >= 2 {
			site = strings.TrimSpace(parts[1])
			if i := strings.LastIndex(site, "+"); i > 0 {
				site = site[:i]
			}
		}
		if site != "" && !seen[site] {
			seen[site] = true
			out = append(out, site)
		}
	}
	sort.Strings(out)
	return out
}
