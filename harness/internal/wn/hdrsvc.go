package wn

import (
	"context"
	"sync"

	"github.com/apache/arrow-go/v18/arrow"
	"github.com/apache/arrow-go/v18/arrow/array"

	"github.com/Query-farm/vgi-rpc-go/vgirpc"

	"verif/harness/internal/svc"
)

// A small family of methods whose stream HEADER (and, for the unary one, whose
// RESULT) is an ArrowSerializable value with several fields, each of which can
// be made unserialisable by the caller: serialisation then fails part-way,
// after earlier fields were already built (C41).
//
//	hp_hdr  ProducerWithHeader   hx_hdr  ExchangeWithHeader (input svc.InSchema)   hu_hdr  Unary returning the value
//
// Parameters: mode (index of the header field to break, <0 = none), tag.

// HdrParams is the parameter struct of the family.
type HdrParams struct {
	Mode int64  `vgirpc:"mode"`
	Tag  string `vgirpc:"tag"`
}

// HdrParamsSchema is its wire schema.
var HdrParamsSchema = arrow.NewSchema([]arrow.Field{
	{Name: "mode", Type: arrow.PrimitiveTypes.Int64},
	{Name: "tag", Type: arrow.BinaryTypes.String},
}, nil)

// HdrParamsBatch builds the request batch (svc.Alloc).
func HdrParamsBatch(mode int64, tag string) arrow.RecordBatch {
	mb := array.NewInt64Builder(svc.Alloc)
	mb.Append(mode)
	tb := array.NewStringBuilder(svc.Alloc)
	tb.Append(tag)
	cols := []arrow.Array{mb.NewArray(), tb.NewArray()}
	mb.Release()
	tb.Release()
	rec := array.NewRecordBatch(HdrParamsSchema, cols, 1)
	for _, c := range cols {
		c.Release()
	}
	return rec
}

// FragileHeader has three value-dependent fields followed by a plain one.
type FragileHeader struct {
	Code   []byte `arrow:"code"`   // fixed_size_binary(4): wrong length fails
	Amount string `arrow:"amount"` // decimal128(20,4): unparsable text fails
	Digest []byte `arrow:"digest"` // fixed_size_binary(8): wrong length fails
	Title  string `arrow:"title"`
}

// FragileHeaderSchema is the header's schema.
var FragileHeaderSchema = arrow.NewSchema([]arrow.Field{
	{Name: "code", Type: &arrow.FixedSizeBinaryType{ByteWidth: 4}},
	{Name: "amount", Type: &arrow.Decimal128Type{Precision: 20, Scale: 4}},
	{Name: "digest", Type: &arrow.FixedSizeBinaryType{ByteWidth: 8}},
	{Name: "title", Type: arrow.BinaryTypes.String},
}, nil)

func (FragileHeader) ArrowSchema() *arrow.Schema { return FragileHeaderSchema }

// FragileHeaderFor builds the value; field `mode` (0..2) is malformed.
func FragileHeaderFor(mode int64, tag string) FragileHeader {
	h := FragileHeader{Code: []byte("CODE"), Amount: "1234.5678", Digest: []byte("8 bytes!"), Title: "fragile header for " + tag}
	switch mode {
	case 0:
		h.Code = []byte("too long for four")
	case 1:
		h.Amount = "twelve and a half"
	case 2:
		h.Digest = []byte("short")
	}
	return h
}

// HdrProducer finishes at once; HdrExchange echoes one row per input row.
type (
	HdrProducer struct{ Seen int }
	HdrExchange struct{ Seen int }
)

func (p *HdrProducer) Produce(_ context.Context, out *vgirpc.OutputCollector, _ *vgirpc.CallContext) error {
	p.Seen++
	if p.Seen > 1 {
		return out.Finish()
	}
	v, g := svc.ProducerRows(7, 0, 2)
	return out.Emit(svc.OutBatch(0, v, g))
}

func (x *HdrExchange) Exchange(_ context.Context, in arrow.RecordBatch, out *vgirpc.OutputCollector, _ *vgirpc.CallContext) error {
	x.Seen++
	v, g := svc.ProducerRows(9, x.Seen, int(in.NumRows()))
	return out.Emit(svc.OutBatch(x.Seen, v, g))
}

var hdrOnce sync.Once

// RegisterHdr registers hp_hdr, hx_hdr and hu_hdr on s.
func RegisterHdr(s *vgirpc.Server) {
	hdrOnce.Do(func() {
		vgirpc.RegisterStateType(&HdrProducer{})
		vgirpc.RegisterStateType(&HdrExchange{})
	})
	vgirpc.ProducerWithHeader(s, "hp_hdr", svc.OutSchema, FragileHeaderSchema,
		func(_ context.Context, _ *vgirpc.CallContext, p HdrParams) (*vgirpc.StreamResult, error) {
			return &vgirpc.StreamResult{OutputSchema: svc.OutSchema, State: &HdrProducer{}, Header: FragileHeaderFor(p.Mode, p.Tag)}, nil
		})
	vgirpc.ExchangeWithHeader(s, "hx_hdr", svc.OutSchema, svc.InSchema, FragileHeaderSchema,
		func(_ context.Context, _ *vgirpc.CallContext, p HdrParams) (*vgirpc.StreamResult, error) {
			return &vgirpc.StreamResult{OutputSchema: svc.OutSchema, InputSchema: svc.InSchema, State: &HdrExchange{}, Header: FragileHeaderFor(p.Mode, p.Tag)}, nil
		})
	vgirpc.Unary(s, "hu_hdr", func(_ context.Context, _ *vgirpc.CallContext, p HdrParams) (FragileHeader, error) {
		return FragileHeaderFor(p.Mode, p.Tag), nil
	})
}
