package wn

import (
	"bytes"
	"errors"
	"fmt"
	"io"
	"net/http"
	"runtime"
	"strings"
	"sync"
	"time"

	"github.com/apache/arrow-go/v18/arrow"
)

// MemStorage is an in-memory vgirpc.ExternalStorage plus the http.RoundTripper
// that serves what was uploaded (and whatever the test Put there) back to the
// library's resolver. URLs look like https://mem.invalid/<n>.
type MemStorage struct {
	mu      sync.Mutex
	objs    map[string]memObj
	n       int
	Uploads int64 // number of Upload calls
	Bytes   int64 // bytes uploaded through Upload
	Fetches int64
	FailUp  bool // Upload returns an error
}

type memObj struct {
	data []byte
	enc  string
}

const memHost = "https://mem.invalid/"

// NewMemStorage returns an empty store.
func NewMemStorage() *MemStorage { return &MemStorage{objs: map[string]memObj{}} }

// Upload implements vgirpc.ExternalStorage.
func (m *MemStorage) Upload(data []byte, _ *arrow.Schema, contentEncoding string) (string, error) {
	m.mu.Lock()
	defer m.mu.Unlock()
	if m.FailUp {
		return "", errors.New("wn: injected upload failure")
	}
	m.Uploads++
	m.Bytes += int64(len(data))
	return m.putLocked(data, contentEncoding), nil
}

func (m *MemStorage) putLocked(data []byte, enc string) string {
	m.n++
	url := fmt.Sprintf("%sobj/%d", memHost, m.n)
	m.objs[url] = memObj{data: append([]byte(nil), data...), enc: enc}
	return url
}

// Put stores client-made content (an "uploaded request") and returns its URL.
func (m *MemStorage) Put(data []byte) string {
	m.mu.Lock()
	defer m.mu.Unlock()
	return m.putLocked(data, "")
}

// Snapshot returns (uploads, uploaded bytes).
func (m *MemStorage) Snapshot() (int64, int64) {
	m.mu.Lock()
	defer m.mu.Unlock()
	return m.Uploads, m.Bytes
}

// Get returns a stored object (for decoding externalised results).
func (m *MemStorage) Get(url string) ([]byte, string, bool) {
	m.mu.Lock()
	defer m.mu.Unlock()
	o, ok := m.objs[url]
	return o.data, o.enc, ok
}

// RoundTrip implements http.RoundTripper over the store.
func (m *MemStorage) RoundTrip(req *http.Request) (*http.Response, error) {
	m.mu.Lock()
	m.Fetches++
	o, ok := m.objs[req.URL.String()]
	m.mu.Unlock()
	if !strings.HasPrefix(req.URL.String(), memHost) || !ok {
		return &http.Response{StatusCode: 404, Status: "404 Not Found", Body: io.NopCloser(strings.NewReader("no such object")),
			Header: http.Header{}, Request: req, ProtoMajor: 1, ProtoMinor: 1}, nil
	}
	h := http.Header{}
	if o.enc != "" {
		h.Set("Content-Encoding", o.enc)
	}
	return &http.Response{StatusCode: 200, Status: "200 OK", Body: io.NopCloser(bytes.NewReader(o.data)),
		ContentLength: int64(len(o.data)), Header: h, Request: req, ProtoMajor: 1, ProtoMinor: 1}, nil
}

// Client returns an http.Client fetching from the store.
func (m *MemStorage) Client() *http.Client { return &http.Client{Transport: m} }

// FailAt is an io.Writer that accepts N bytes and then fails every write (a
// transport that breaks mid-response).
type FailAt struct {
	W     io.Writer
	Left  int
	Fired bool
}

func (f *FailAt) Write(b []byte) (int, error) {
	if f.Fired {
		return 0, io.ErrClosedPipe
	}
	if len(b) <= f.Left {
		f.Left -= len(b)
		return f.W.Write(b)
	}
	n := f.Left
	if n > 0 {
		_, _ = f.W.Write(b[:n])
	}
	f.Left, f.Fired = 0, true
	return n, io.ErrClosedPipe
}

// parker is the part of wire.Pipe WaitParked needs.
type parker interface{ Parked() bool }

// WaitParked waits until the serving goroutine of an in-process pipe session
// is blocked reading an empty client->server pipe: everything the previous
// call deferred (hook end, releases) has run by then. It polls a state, the
// clock only bounds the wait (false = not reached, treat as inconclusive).
func WaitParked(p parker, returned func() bool, max time.Duration) bool {
	deadline := time.Now().Add(max)
	for i := 0; ; i++ {
		if p.Parked() {
			return true
		}
		if returned != nil && returned() {
			return true // serve loop returned: nothing runs any more
		}
		if time.Now().After(deadline) {
			return false
		}
		if i < 200 {
			runtime.Gosched()
		} else {
			time.Sleep(200 * time.Microsecond)
		}
	}
}
