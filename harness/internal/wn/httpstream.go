package wn

import (
	"fmt"

	"github.com/apache/arrow-go/v18/arrow"

	"verif/harness/internal/wire"
)

// StreamInput is one client turn of an HTTP stream: an exchange input batch,
// a producer continuation (Batch nil), or a cancel.
type StreamInput struct {
	Batch  arrow.RecordBatch
	Cancel bool
	Meta   [][2]string // user metadata placed before the framework keys
}

// StreamSpec describes one stream call over HTTP.
type StreamSpec struct {
	Req      wire.Req // Method + Params (+ RequestID / ProtoVersion)
	Producer bool     // continuations carry no data; sent only while the server hands out a cursor
	Inputs   []StreamInput
	// Opt returns the options of the i-th HTTP request of this stream (0 = init)
	// and the X-Request-ID it carries (also returned in HTTPCall.ID).
	Opt func(i int, phase string) (id string, o PostOpt)
}

// HTTPCall is one HTTP request of a stream (or a unary call) and its answer.
type HTTPCall struct {
	ID      string `json:"id"`
	Phase   string `json:"phase"` // unary | init | exchange | continuation | cancel
	Method  string `json:"method"`
	Resp    Resp   `json:"resp"`
	Failed  bool   `json:"failed"` // the response carries an EXCEPTION batch
	HasData bool   `json:"has_data"`
}

func observe(c *HTTPCall) {
	for _, s := range c.Resp.Obs.Streams {
		for _, b := range s.Batches {
			switch b.Kind {
			case wire.KindError:
				c.Failed = true
			case wire.KindData, wire.KindExtPointer:
				c.HasData = true
			}
		}
	}
}

// Unary performs one unary POST.
func (p *Poster) Unary(q wire.Req, id string, o PostOpt) HTTPCall {
	c := HTTPCall{ID: id, Phase: "unary", Method: q.Method}
	c.Resp = p.Post("/"+q.Method, q.Encode(), withID(o, id))
	observe(&c)
	return c
}

func withID(o PostOpt, id string) PostOpt {
	if id == "" {
		return o
	}
	h := map[string]string{"X-Request-ID": id}
	for k, v := range o.Header {
		h[k] = v
	}
	o.Header = h
	return o
}

// Stream drives one stream call: init, then one request per input while the
// server keeps handing out a cursor; it stops at the first failed response, at
// a response without a cursor (stream finished), after a cancel, or when the
// inputs are used up (the client walks away, as a pipe client closing early).
func (p *Poster) Stream(s StreamSpec) []HTTPCall {
	opt := s.Opt
	if opt == nil {
		opt = func(int, string) (string, PostOpt) { return "", PostOpt{} }
	}
	var calls []HTTPCall
	id, o := opt(0, "init")
	c := HTTPCall{ID: id, Phase: "init", Method: s.Req.Method}
	c.Resp = p.Post("/"+s.Req.Method+"/init", s.Req.Encode(), withID(o, id))
	observe(&c)
	calls = append(calls, c)
	cursor, call := c.Resp.Obs.Tokens()
	for i, in := range s.Inputs {
		last := calls[len(calls)-1]
		if last.Failed || cursor == "" || last.Resp.Status != 200 || last.Resp.Panic != "" || last.Resp.WriteFail {
			break
		}
		phase := "exchange"
		if s.Producer {
			phase = "continuation"
		}
		t := wire.Turn{Method: s.Req.Method, StreamState: cursor, CallState: call, Meta: in.Meta}
		if in.Cancel {
			phase, t.Cancel = "cancel", true
		} else if !s.Producer {
			t.Input = in.Batch
		}
		id, o := opt(i+1, phase)
		c := HTTPCall{ID: id, Phase: phase, Method: s.Req.Method}
		c.Resp = p.Post("/"+s.Req.Method+"/exchange", t.Encode(), withID(o, id))
		observe(&c)
		calls = append(calls, c)
		if in.Cancel {
			break
		}
		cursor, _ = c.Resp.Obs.Tokens()
	}
	return calls
}

// Describe renders a call list compactly for witnesses.
func Describe(calls []HTTPCall) []string {
	out := make([]string, 0, len(calls))
	for _, c := range calls {
		var kinds []string
		for _, s := range c.Resp.Obs.Streams {
			kinds = append(kinds, s.KindSeq())
		}
		out = append(out, fmt.Sprintf("%s %s %s status=%d sent=%d recv=%d enc=%q failed=%v streams=%v err=%q panic=%q",
			c.ID, c.Phase, c.Method, c.Resp.Status, c.Resp.Sent, c.Resp.Recv, c.Resp.Encoding, c.Failed, kinds, c.Resp.Err, c.Resp.Panic))
	}
	return out
}
