package wire

import (
	"bytes"
	"encoding/json"
	"fmt"
	"io"
	"sort"
	"strings"

	"github.com/apache/arrow-go/v18/arrow"
	"github.com/apache/arrow-go/v18/arrow/ipc"

	"verif/harness/internal/gen"
)

// Protocol metadata keys, written out here on purpose (the reference client
// must not import them from the library under test).
const (
	KeyMethod          = "vgi_rpc.method"
	KeyRequestVersion  = "vgi_rpc.request_version"
	KeyRequestID       = "vgi_rpc.request_id"
	KeyLogLevel        = "vgi_rpc.log_level"
	KeyLogMessage      = "vgi_rpc.log_message"
	KeyLogExtra        = "vgi_rpc.log_extra"
	KeyServerID        = "vgi_rpc.server_id"
	KeyStreamState     = "vgi_rpc.stream_state#b64"
	KeyCallState       = "vgi_rpc.call_state#b64"
	KeyCancel          = "vgi_rpc.cancel"
	KeyErrorKind       = "vgi_rpc.error_kind"
	KeyProtocolVersion = "vgi_rpc.protocol_version"
	KeyLocation        = "vgi_rpc.location"
	KeyShmOffset       = "vgi_rpc.shm_offset"
	KeyShmLength       = "vgi_rpc.shm_length"

	LevelException = "EXCEPTION"
	ContentType    = "application/vnd.apache.arrow.stream"
)

// Kind classifies one response batch from its wire shape alone.
type Kind string

const (
	KindData       Kind = "data"
	KindLog        Kind = "log"
	KindError      Kind = "error"
	KindToken      Kind = "token"       // zero rows + stream_state, no log level
	KindExtPointer Kind = "ext-pointer" // zero rows + vgi_rpc.location
	KindShmPointer Kind = "shm-pointer" // zero rows + shm offset/length
)

// Batch is the normalised observation of one record batch.
type Batch struct {
	Kind   Kind              `json:"kind"`
	Rows   int64             `json:"rows"`
	Schema string            `json:"schema,omitempty"` // fingerprint of the batch's own schema
	Canon  string            `json:"canon,omitempty"`  // gen.CanonValues (schema + values, no metadata)
	Meta   map[string]string `json:"meta,omitempty"`   // all custom metadata of the batch
	// Log / error view (Kind log|error).
	Level   string `json:"level,omitempty"`
	Message string `json:"message,omitempty"`
	Extra   string `json:"extra,omitempty"` // raw vgi_rpc.log_extra JSON
	// Error view (Kind error): exception_type / exception_message out of log_extra.
	ErrType    string `json:"err_type,omitempty"`
	ErrMessage string `json:"err_message,omitempty"`
	ErrKind    string `json:"err_kind,omitempty"`
	// Correlation and tokens (any kind).
	RequestID   string `json:"request_id,omitempty"`
	HasReqID    bool   `json:"has_request_id,omitempty"`
	ServerID    string `json:"server_id,omitempty"`
	StreamState string `json:"stream_state,omitempty"`
	CallState   string `json:"call_state,omitempty"`
}

// Stream is one IPC stream of a response.
type Stream struct {
	Schema   string  `json:"schema"`
	Batches  []Batch `json:"batches"`
	Complete bool    `json:"complete"`      // the end-of-stream marker was read
	Err      string  `json:"err,omitempty"` // decode / transport error, if any
}

// Obs is the normalised observation of a whole response byte string.
type Obs struct {
	Streams  []Stream `json:"streams"`
	Trailing int      `json:"trailing,omitempty"` // bytes after the last complete stream
	Garbage  bool     `json:"garbage,omitempty"`  // trailing bytes do not start a parsable stream
}

// ObserveBatch builds the normalised view of a batch.
func ObserveBatch(rec arrow.RecordBatch) Batch {
	b := Batch{Rows: rec.NumRows(), Schema: gen.SchemaFingerprint(rec.Schema()), Canon: gen.CanonValues(rec)}
	md := gen.MetaOf(rec)
	if md.Len() > 0 {
		b.Meta = make(map[string]string, md.Len())
		for i, k := range md.Keys() {
			b.Meta[k] = md.Values()[i]
		}
	}
	if v, ok := b.Meta[KeyRequestID]; ok {
		b.RequestID, b.HasReqID = v, true
	}
	b.ServerID = b.Meta[KeyServerID]
	b.StreamState = b.Meta[KeyStreamState]
	b.CallState = b.Meta[KeyCallState]
	level, hasLevel := b.Meta[KeyLogLevel]
	_, hasLoc := b.Meta[KeyLocation]
	_, hasShmOff := b.Meta[KeyShmOffset]
	_, hasShmLen := b.Meta[KeyShmLength]
	switch {
	case b.Rows == 0 && hasLevel:
		b.Level, b.Message, b.Extra = level, b.Meta[KeyLogMessage], b.Meta[KeyLogExtra]
		if level == LevelException {
			b.Kind = KindError
			b.ErrKind = b.Meta[KeyErrorKind]
			var ex struct {
				T string `json:"exception_type"`
				M string `json:"exception_message"`
			}
			if json.Unmarshal([]byte(b.Extra), &ex) == nil {
				b.ErrType, b.ErrMessage = ex.T, ex.M
			}
		} else {
			b.Kind = KindLog
		}
	case b.Rows == 0 && hasLoc:
		b.Kind = KindExtPointer
	case b.Rows == 0 && hasShmOff && hasShmLen:
		b.Kind = KindShmPointer
	case b.Rows == 0 && b.StreamState != "":
		b.Kind = KindToken
	default:
		b.Kind = KindData
	}
	return b
}

// ExtraMap parses the log_extra JSON object of a log batch into string values
// (nil when absent or not an object of strings).
func (b Batch) ExtraMap() map[string]string {
	if b.Extra == "" {
		return nil
	}
	var m map[string]string
	if json.Unmarshal([]byte(b.Extra), &m) != nil {
		return nil
	}
	return m
}

var eosMarker = []byte{0xff, 0xff, 0xff, 0xff, 0, 0, 0, 0}

// countingReader counts consumed bytes and remembers a transport-level EOF.
type countingReader struct {
	r   io.Reader
	n   int
	eof bool
}

func (c *countingReader) Read(b []byte) (int, error) {
	n, err := c.r.Read(b)
	c.n += n
	if err == io.EOF {
		c.eof = true
	}
	return n, err
}

// Decode turns ANY byte string into an observation: as many IPC streams as
// parse back to back, then the number of bytes left over. It never panics.
func Decode(data []byte) (o Obs) {
	off := 0
	for off < len(data) {
		st, n, ok := decodeOne(data[off:])
		if !ok {
			o.Trailing = len(data) - off
			o.Garbage = true
			if st != nil {
				o.Streams = append(o.Streams, *st)
			}
			return o
		}
		o.Streams = append(o.Streams, *st)
		off += n
		if !st.Complete {
			// an incomplete stream swallows the rest
			return o
		}
	}
	return o
}

func decodeOne(data []byte) (st *Stream, n int, ok bool) {
	defer func() {
		if rv := recover(); rv != nil {
			st = &Stream{Err: fmt.Sprintf("decoder panic: %v", rv)}
			ok = false
		}
	}()
	cr := &countingReader{r: bytes.NewReader(data)}
	rd, err := ipc.NewReader(cr)
	if err != nil {
		return &Stream{Err: err.Error()}, cr.n, false
	}
	defer rd.Release()
	s := &Stream{Schema: gen.SchemaFingerprint(rd.Schema())}
	for rd.Next() {
		s.Batches = append(s.Batches, ObserveBatch(rd.RecordBatch()))
	}
	if e := rd.Err(); e != nil {
		s.Err = e.Error()
	}
	s.Complete = s.Err == "" && cr.n >= 8 && bytes.Equal(data[cr.n-8:cr.n], eosMarker)
	return s, cr.n, true
}

// ---------------------------------------------------------------------------
// Views

// Errors returns the error batches of a stream.
func (s Stream) Errors() []Batch { return s.OfKind(KindError) }

// OfKind returns the batches of one kind, in order.
func (s Stream) OfKind(k Kind) []Batch {
	var out []Batch
	for _, b := range s.Batches {
		if b.Kind == k {
			out = append(out, b)
		}
	}
	return out
}

// HasError reports whether the stream carries an EXCEPTION batch.
func (s Stream) HasError() bool { return len(s.Errors()) > 0 }

// KindSeq renders the batch kinds compactly, e.g. "log,log,data,error".
func (s Stream) KindSeq() string {
	parts := make([]string, len(s.Batches))
	for i, b := range s.Batches {
		parts[i] = string(b.Kind)
	}
	return strings.Join(parts, ",")
}

// Tokens returns the last stream_state token and the first call_state token
// found in an observation (what a client has to echo on the continuation).
func (o Obs) Tokens() (stream, call string) {
	for _, s := range o.Streams {
		for _, b := range s.Batches {
			if b.StreamState != "" {
				stream = b.StreamState
			}
			if b.CallState != "" && call == "" {
				call = b.CallState
			}
		}
	}
	return
}

// ---------------------------------------------------------------------------
// Normal form and equality

// Norm selects what observation equality ignores.
type Norm struct {
	DropRequestID bool // ignore vgi_rpc.request_id
	DropServerID  bool // ignore vgi_rpc.server_id
	DropTokens    bool // ignore stream/call state tokens and drop pure token batches
	DropErrDetail bool // compare error batches by kind only (not type/message/extra)
	DropTraceback bool // ignore traceback/frames inside error log_extra (always sensible)
	DropMetaKeys  []string
}

func (n Norm) dropKey(k string) bool {
	switch {
	case n.DropRequestID && k == KeyRequestID:
		return true
	case n.DropServerID && k == KeyServerID:
		return true
	case n.DropTokens && (k == KeyStreamState || k == KeyCallState):
		return true
	}
	for _, d := range n.DropMetaKeys {
		if d == k {
			return true
		}
	}
	return false
}

// Key renders a batch in normal form; equal keys == equal observations.
func (b Batch) Key(n Norm) string {
	var sb strings.Builder
	fmt.Fprintf(&sb, "%s|", b.Kind)
	if b.Kind == KindError && n.DropErrDetail {
		return sb.String()
	}
	sb.WriteString(b.Canon)
	keys := make([]string, 0, len(b.Meta))
	for k := range b.Meta {
		if n.dropKey(k) {
			continue
		}
		keys = append(keys, k)
	}
	sort.Strings(keys)
	sb.WriteString("|meta:")
	for _, k := range keys {
		v := b.Meta[k]
		if k == KeyLogExtra && b.Kind == KindError && n.DropTraceback {
			v = fmt.Sprintf("type=%q msg=%q", b.ErrType, b.ErrMessage)
		}
		fmt.Fprintf(&sb, "%q=%q,", k, v)
	}
	return sb.String()
}

// Key renders a stream in normal form.
func (s Stream) Key(n Norm) string {
	var sb strings.Builder
	fmt.Fprintf(&sb, "schema=%s complete=%v err=%q\n", s.Schema, s.Complete, s.Err)
	for _, b := range s.Batches {
		if n.DropTokens && b.Kind == KindToken {
			continue
		}
		sb.WriteString(b.Key(n))
		sb.WriteByte('\n')
	}
	return sb.String()
}

// Key renders a whole observation in normal form.
func (o Obs) Key(n Norm) string {
	var sb strings.Builder
	for i, s := range o.Streams {
		fmt.Fprintf(&sb, "--stream %d--\n%s", i, s.Key(n))
	}
	fmt.Fprintf(&sb, "trailing=%d garbage=%v\n", o.Trailing, o.Garbage)
	return sb.String()
}

// Equal is observation equality under a normal form.
func (o Obs) Equal(p Obs, n Norm) bool { return o.Key(n) == p.Key(n) }

// WellFormed reports whether the observation is a sequence of complete
// streams with nothing left over.
func (o Obs) WellFormed() bool {
	if o.Trailing != 0 || o.Garbage {
		return false
	}
	for _, s := range o.Streams {
		if !s.Complete || s.Err != "" {
			return false
		}
	}
	return true
}
