package wire

import (
	"bytes"
	"errors"
	"fmt"
	"io"
	"net"
	"runtime"
	"strings"
	"sync"
	"sync/atomic"
	"time"

	"github.com/apache/arrow-go/v18/arrow"
	"github.com/apache/arrow-go/v18/arrow/array"
	"github.com/apache/arrow-go/v18/arrow/ipc"

	"verif/harness/internal/gen"
)

// StallError is the deterministic "no answer" witness: the client is waiting
// for response bytes, everything it wrote has been consumed, nothing is
// buffered towards it, and the serving goroutine is parked reading (or has
// returned). No wall-clock threshold decides it; only the hard Timeout
// (ErrReadTimeout, an *inconclusive*) is time based.
type StallError struct {
	Why  string // "server-waiting-for-input" | "server-returned"
	Dump string // goroutines with vgirpc frames at the time of detection
}

func (e *StallError) Error() string { return "wire: stalled: " + e.Why }

// Conn is one client connection of the reference client. Not safe for
// concurrent use (the protocol is sequential per connection).
type Conn struct {
	Label   string
	Timeout time.Duration // hard cap for one read step; expiry = inconclusive (default 20s)

	in  *Pipe // bytes from the server
	c2s *Pipe // native mode: the pipe the server reads from
	// bridged mode (io.Pipe, sockets): outq is drained into the real writer.
	outq       *Pipe
	writing    atomic.Bool
	closeWrite func() error
	closeAll   func() error
	// ServerParked, bridged mode only: probe telling whether the serving
	// goroutine is parked reading. Defaults to a goroutine-dump scan.
	ServerParked func() bool

	done      chan struct{} // closed when the serve function returned (nil = unknown)
	wg        sync.WaitGroup
	raw       []byte // consumed response bytes (capped)
	rawTotal  int64
	tail      [8]byte // last 8 consumed bytes
	sawEOF    bool
	lastErr   error
	closeOnce sync.Once
}

const rawCap = 1 << 20

// NewInProc serves one connection in-process over two instrumented Pipes:
// serve(r, w) is typically srv.Serve. The returned Conn knows when serve
// returned (ServerReturned) and when it is parked waiting for input.
func NewInProc(serve func(r io.Reader, w io.Writer)) *Conn {
	c := &Conn{in: NewPipe(), c2s: NewPipe(), done: make(chan struct{}), Timeout: 20 * time.Second}
	go func() {
		defer func() {
			close(c.done)
			_ = c.in.CloseWrite()
		}()
		serve(c.c2s, c.in)
	}()
	return c
}

// ClientToServer / ServerToClient expose the two native pipes (short-read
// injection through Pipe.Chop, counters). Nil in bridged mode.
func (c *Conn) ClientToServer() *Pipe { return c.c2s }
func (c *Conn) ServerToClient() *Pipe { return c.in }

// NewBridged wraps any reader/writer pair (io.Pipe ends, a net.Conn): a pump
// goroutine moves server bytes into a Pipe (so reads get deadlines and server
// writes never block on the client), a writer goroutine drains client bytes
// into w (so client writes never block either).
func NewBridged(r io.Reader, w io.Writer, closeWrite, closeAll func() error) *Conn {
	c := &Conn{in: NewPipe(), outq: NewPipe(), closeWrite: closeWrite, closeAll: closeAll, Timeout: 20 * time.Second}
	c.ServerParked = func() bool { return ServeGoroutinesAllParked() }
	c.wg.Add(2)
	go func() { // pump
		defer c.wg.Done()
		buf := make([]byte, 32<<10)
		for {
			n, err := r.Read(buf)
			if n > 0 {
				if _, werr := c.in.Write(buf[:n]); werr != nil {
					return
				}
			}
			if err != nil {
				_ = c.in.CloseWrite()
				return
			}
		}
	}()
	go func() { // writer
		defer c.wg.Done()
		buf := make([]byte, 32<<10)
		for {
			n, err := c.outq.Read(buf)
			if n > 0 {
				c.writing.Store(true)
				_, werr := w.Write(buf[:n])
				c.writing.Store(false)
				if werr != nil {
					_ = c.outq.CloseRead()
					return
				}
			}
			if err != nil {
				if err == io.EOF && c.closeWrite != nil {
					_ = c.closeWrite()
				}
				return
			}
		}
	}()
	return c
}

// NewIOPipe serves one connection in-process over two synchronous io.Pipe
// pairs (the transport Go users typically hand to Server.Serve in tests).
func NewIOPipe(serve func(r io.Reader, w io.Writer)) *Conn {
	sr, cw := io.Pipe() // client -> server
	cr, sw := io.Pipe() // server -> client
	c := NewBridged(cr, cw, cw.Close, func() error { _ = cw.Close(); _ = cr.Close(); _ = sr.Close(); return sw.Close() })
	c.done = make(chan struct{})
	go func() {
		defer func() {
			close(c.done)
			_ = sw.Close()
		}()
		serve(sr, sw)
	}()
	return c
}

// DialNet connects to a RunUnix / RunTcp listener ("unix", path / "tcp", addr).
func DialNet(network, addr string) (*Conn, error) {
	nc, err := net.DialTimeout(network, addr, 5*time.Second)
	if err != nil {
		return nil, err
	}
	cw := func() error {
		switch x := nc.(type) {
		case *net.UnixConn:
			return x.CloseWrite()
		case *net.TCPConn:
			return x.CloseWrite()
		}
		return nil
	}
	return NewBridged(nc, nc, cw, nc.Close), nil
}

// ServerReturned reports whether the serve function has returned (in-process
// transports) — for sockets: whether the server closed the connection.
func (c *Conn) ServerReturned() bool {
	if c.done != nil {
		select {
		case <-c.done:
			return true
		default:
			return false
		}
	}
	return c.sawEOF
}

// WaitServer waits for the serve function to return (in-process) or for the
// peer to close (sockets; consumes and discards nothing — use Leftover first).
func (c *Conn) WaitServer(d time.Duration) bool {
	if c.done == nil {
		return c.sawEOF
	}
	select {
	case <-c.done:
		return true
	case <-time.After(d):
		return false
	}
}

// CloseWrite signals client EOF (end of session) to the server.
func (c *Conn) CloseWrite() {
	if c.c2s != nil {
		_ = c.c2s.CloseWrite()
		return
	}
	_ = c.outq.CloseWrite()
}

// Close tears everything down and unblocks the helper goroutines.
func (c *Conn) Close() {
	c.closeOnce.Do(func() {
		if c.c2s != nil {
			_ = c.c2s.Close()
			_ = c.in.Close()
			return
		}
		_ = c.outq.Close()
		if c.closeAll != nil {
			_ = c.closeAll()
		}
		_ = c.in.Close()
	})
}

// Leftover reads whatever the server still sends until it closes its side
// (call after CloseWrite). A well-framed session leaves nothing.
func (c *Conn) Leftover(d time.Duration) ([]byte, error) {
	var out []byte
	buf := make([]byte, 4096)
	deadline := time.Now().Add(d)
	for {
		n, err := c.in.ReadTimeout(buf, 20*time.Millisecond)
		out = append(out, buf[:n]...)
		if err == io.EOF {
			c.sawEOF = true
			return out, nil
		}
		if err != nil && err != ErrReadTimeout {
			return out, err
		}
		if time.Now().After(deadline) {
			return out, ErrReadTimeout
		}
	}
}

// PendingOut is the number of client bytes the transport has not accepted yet.
func (c *Conn) PendingOut() int {
	if c.c2s != nil {
		return c.c2s.Len()
	}
	return c.outq.Len()
}

// Raw returns the response bytes consumed so far (capped at 1 MiB).
func (c *Conn) Raw() []byte { return c.raw }

// RawMark / RawSince let a caller cut out the bytes of one call.
func (c *Conn) RawMark() int64 { return c.rawTotal }
func (c *Conn) RawSince(mark int64) []byte {
	start := mark - (c.rawTotal - int64(len(c.raw)))
	if start < 0 {
		start = 0
	}
	if start > int64(len(c.raw)) {
		return nil
	}
	return c.raw[start:]
}

func (c *Conn) write(b []byte) error {
	if c.c2s != nil {
		_, err := c.c2s.Write(b)
		return err
	}
	_, err := c.outq.Write(b)
	return err
}

// WriteRaw sends arbitrary bytes (garbage injection for other checks).
func (c *Conn) WriteRaw(b []byte) error { return c.write(b) }

func (c *Conn) stalled(sinceProgress time.Duration) string {
	if c.in.Len() > 0 {
		return ""
	}
	if c.c2s != nil {
		select {
		case <-c.done:
			return "server-returned"
		default:
		}
		if c.c2s.Parked() && c.in.Len() == 0 {
			return "server-waiting-for-input"
		}
		return ""
	}
	if c.done != nil {
		select {
		case <-c.done:
			return "server-returned"
		default:
		}
	}
	if sinceProgress < 300*time.Millisecond {
		return ""
	}
	if c.outq.Len() == 0 && !c.writing.Load() && c.ServerParked != nil && c.ServerParked() {
		return "server-waiting-for-input"
	}
	return ""
}

// Read implements io.Reader over the response bytes with stall detection and
// the hard timeout; it is what the IPC reader sits on.
func (c *Conn) Read(b []byte) (int, error) {
	start := time.Now()
	poll := 2 * time.Millisecond
	streak := 0
	lastWhy := ""
	for {
		n, err := c.in.ReadTimeout(b, poll)
		if n > 0 {
			c.record(b[:n])
			return n, nil
		}
		if err == io.EOF {
			c.sawEOF = true
			c.lastErr = io.EOF
			return 0, io.EOF
		}
		if err != ErrReadTimeout {
			c.lastErr = err
			return 0, err
		}
		if why := c.stalled(time.Since(start)); why != "" && why == lastWhy {
			streak++
			if streak >= 2 {
				e := &StallError{Why: why, Dump: Goroutines("vgirpc.")}
				c.lastErr = e
				return 0, e
			}
		} else {
			lastWhy = why
			streak = 0
		}
		if time.Since(start) > c.Timeout {
			c.lastErr = ErrReadTimeout
			return 0, ErrReadTimeout
		}
		if poll < 50*time.Millisecond {
			poll *= 2
		}
	}
}

func (c *Conn) record(b []byte) {
	c.rawTotal += int64(len(b))
	if len(b) >= 8 {
		copy(c.tail[:], b[len(b)-8:])
	} else {
		copy(c.tail[:], c.tail[len(b):])
		copy(c.tail[8-len(b):], b)
	}
	if len(c.raw)+len(b) > rawCap {
		drop := len(c.raw) + len(b) - rawCap
		if drop > len(c.raw) {
			drop = len(c.raw)
		}
		c.raw = c.raw[drop:]
	}
	c.raw = append(c.raw, b...)
}

// ---------------------------------------------------------------------------
// Requests

// Req describes one request IPC stream, field by field as the server's read
// side (ReadRequest) consumes it.
type Req struct {
	Method       string
	Params       arrow.RecordBatch // nil = zero-column batch with one row
	RequestID    string            // "" = key omitted
	LogLevel     string            // "" = key omitted
	ProtoVersion string            // vgi_rpc.protocol_version; "" = key omitted
	Version      string            // vgi_rpc.request_version; "" = "1"
	NoMethod     bool              // omit vgi_rpc.method
	NoVersion    bool              // omit vgi_rpc.request_version
	ExtraMeta    [][2]string       // appended verbatim
	ExtraBatches int               // that many copies of the params batch appended to the stream
}

// Metadata renders the request batch's custom metadata.
func (q Req) Metadata() arrow.Metadata {
	var k, v []string
	if !q.NoMethod {
		k, v = append(k, KeyMethod), append(v, q.Method)
	}
	if !q.NoVersion {
		ver := q.Version
		if ver == "" {
			ver = "1"
		}
		k, v = append(k, KeyRequestVersion), append(v, ver)
	}
	if q.RequestID != "" {
		k, v = append(k, KeyRequestID), append(v, q.RequestID)
	}
	if q.LogLevel != "" {
		k, v = append(k, KeyLogLevel), append(v, q.LogLevel)
	}
	if q.ProtoVersion != "" {
		k, v = append(k, KeyProtocolVersion), append(v, q.ProtoVersion)
	}
	for _, e := range q.ExtraMeta {
		k, v = append(k, e[0]), append(v, e[1])
	}
	return arrow.NewMetadata(k, v)
}

// Encode renders the request as one complete IPC stream.
func (q Req) Encode() []byte {
	var schema *arrow.Schema
	var cols []arrow.Array
	rows := int64(1)
	if q.Params != nil {
		schema, cols, rows = q.Params.Schema(), q.Params.Columns(), q.Params.NumRows()
	} else {
		schema = arrow.NewSchema(nil, nil)
	}
	rec := array.NewRecordBatchWithMetadata(schema, cols, rows, q.Metadata())
	defer rec.Release()
	recs := []arrow.RecordBatch{rec}
	for i := 0; i < q.ExtraBatches; i++ {
		recs = append(recs, rec)
	}
	return gen.IPCBytes(schema, recs...)
}

// SendRequest writes the request stream.
func (c *Conn) SendRequest(q Req) error { return c.write(q.Encode()) }

// ---------------------------------------------------------------------------
// Reading streams

// StreamReader reads one response IPC stream batch by batch.
type StreamReader struct {
	c    *Conn
	rd   *ipc.Reader
	st   Stream
	done bool
}

// OpenStream blocks until the next stream's schema message arrived.
func (c *Conn) OpenStream() (*StreamReader, error) {
	c.lastErr = nil
	rd, err := ipc.NewReader(c)
	if err != nil {
		if c.lastErr != nil {
			return nil, c.lastErr
		}
		return nil, err
	}
	return &StreamReader{c: c, rd: rd, st: Stream{Schema: gen.SchemaFingerprint(rd.Schema())}}, nil
}

// Next returns the next batch, or (nil, nil) at the end-of-stream marker.
func (sr *StreamReader) Next() (*Batch, error) {
	if sr.done {
		return nil, nil
	}
	sr.c.lastErr = nil
	if sr.rd.Next() {
		b := ObserveBatch(sr.rd.RecordBatch())
		sr.st.Batches = append(sr.st.Batches, b)
		return &b, nil
	}
	sr.done = true
	err := sr.rd.Err()
	// arrow's reader folds a transport EOF into a clean end: undo that.
	if sr.c.lastErr != nil {
		err = sr.c.lastErr
	}
	sr.rd.Release()
	if err != nil {
		sr.st.Err = err.Error()
		return nil, err
	}
	if !bytes.Equal(sr.c.tail[:], eosMarker) {
		sr.st.Err = "stream ended without end-of-stream marker"
		return nil, errors.New(sr.st.Err)
	}
	sr.st.Complete = true
	return nil, nil
}

// Drain reads to the end of the stream.
func (sr *StreamReader) Drain() error {
	for {
		b, err := sr.Next()
		if err != nil {
			return err
		}
		if b == nil {
			return nil
		}
	}
}

// Stream returns what has been observed so far.
func (sr *StreamReader) Stream() Stream { return sr.st }

// ReadStream reads one complete response stream.
func (c *Conn) ReadStream() (Stream, error) {
	sr, err := c.OpenStream()
	if err != nil {
		return Stream{Err: err.Error()}, err
	}
	err = sr.Drain()
	return sr.Stream(), err
}

// Unary sends a request and reads its single response stream.
func (c *Conn) Unary(q Req) (Stream, error) {
	if err := c.SendRequest(q); err != nil {
		return Stream{Err: err.Error()}, err
	}
	return c.ReadStream()
}

// ---------------------------------------------------------------------------
// Stream calls

// Input is one input batch of a stream call.
type Input struct {
	Batch  arrow.RecordBatch // schema must equal StreamCall.InputSchema; nil = zero-row batch
	Cancel bool              // send a cancel batch (zero rows + vgi_rpc.cancel) instead, then EOS
	// CancelValue is the value of the cancel key (nil: "true"). The signal is
	// the key's presence, so any value - also "" - must cancel.
	CancelValue *string
	Meta        [][2]string // custom metadata on the batch
}

// StreamCall describes one stream method call on a pipe-like connection.
type StreamCall struct {
	Req          Req
	InputSchema  *arrow.Schema // nil = empty schema (producer ticks)
	Inputs       []Input       // sent in lockstep; sending stops after a Cancel input
	ExpectHeader bool          // the method declares a header: first response stream is the header (or an error)
	Pipelined    bool          // write all inputs and EOS before reading anything
}

// StreamResult is what the client saw.
type StreamResult struct {
	Header      *Stream `json:"header,omitempty"`
	Output      *Stream `json:"output,omitempty"`
	InputsSent  int     `json:"inputs_sent"`
	CancelSent  bool    `json:"cancel_sent,omitempty"`
	InputClosed bool    `json:"input_closed"`
	Phase       string  `json:"phase,omitempty"` // where Err happened
	Err         error   `json:"-"`
	ErrText     string  `json:"err,omitempty"`
}

type inputEnc struct {
	c      *Conn
	buf    bytes.Buffer
	w      *ipc.Writer
	schema *arrow.Schema
	closed bool
}

func (e *inputEnc) flush() error {
	if e.buf.Len() == 0 {
		return nil
	}
	err := e.c.write(append([]byte(nil), e.buf.Bytes()...))
	e.buf.Reset()
	return err
}

func (e *inputEnc) send(in Input) error {
	var rec arrow.RecordBatch
	var k, v []string
	if in.Cancel {
		cv := "true"
		if in.CancelValue != nil {
			cv = *in.CancelValue
		}
		k, v = append(k, KeyCancel), append(v, cv)
	}
	for _, m := range in.Meta {
		k, v = append(k, m[0]), append(v, m[1])
	}
	src := in.Batch
	if src == nil || in.Cancel {
		src = emptyOf(e.schema)
		defer src.Release()
	}
	if len(k) > 0 {
		rec = array.NewRecordBatchWithMetadata(e.schema, src.Columns(), src.NumRows(), arrow.NewMetadata(k, v))
	} else {
		rec = array.NewRecordBatch(e.schema, src.Columns(), src.NumRows())
	}
	defer rec.Release()
	if err := e.w.Write(rec); err != nil {
		return fmt.Errorf("wire: encoding input batch: %w", err)
	}
	return e.flush()
}

func (e *inputEnc) close() error {
	if e.closed {
		return nil
	}
	e.closed = true
	if err := e.w.Close(); err != nil {
		return err
	}
	return e.flush()
}

func emptyOf(s *arrow.Schema) arrow.RecordBatch {
	cols := make([]arrow.Array, s.NumFields())
	for i, f := range s.Fields() {
		b := array.NewBuilder(gen.Mem, f.Type)
		cols[i] = b.NewArray()
		b.Release()
	}
	rec := array.NewRecordBatch(s, cols, 0)
	for _, c := range cols {
		c.Release()
	}
	return rec
}

// Stream performs one stream call the way the protocol prescribes for pipe
// transports: request stream; input stream opened at once (schema and first
// input are written BEFORE anything is read); optional header stream; output
// stream read in lockstep (one non-log batch per input sent); the input
// stream is always closed with EOS, also after an error was seen.
func (c *Conn) Stream(sc StreamCall) (res StreamResult) {
	fail := func(phase string, err error) StreamResult {
		res.Phase, res.Err, res.ErrText = phase, err, err.Error()
		return res
	}
	if err := c.SendRequest(sc.Req); err != nil {
		return fail("request", err)
	}
	schema := sc.InputSchema
	if schema == nil {
		schema = arrow.NewSchema(nil, nil)
	}
	enc := &inputEnc{c: c, schema: schema}
	enc.w = ipc.NewWriter(&enc.buf, ipc.WithSchema(schema))
	next := 0
	sendNext := func() error {
		// sends Inputs[next]; after the last input (or a cancel) closes the stream
		if next >= len(sc.Inputs) {
			res.InputClosed = true
			return enc.close()
		}
		in := sc.Inputs[next]
		next++
		if err := enc.send(in); err != nil {
			return err
		}
		res.InputsSent++
		if in.Cancel {
			res.CancelSent = true
			next = len(sc.Inputs)
			res.InputClosed = true
			return enc.close()
		}
		return nil
	}
	closeInput := func() {
		if !res.InputClosed {
			res.InputClosed = true
			_ = enc.close()
		}
	}
	if sc.Pipelined {
		for !res.InputClosed {
			if err := sendNext(); err != nil {
				return fail("input", err)
			}
		}
	} else if err := sendNext(); err != nil { // schema + first input (or schema + EOS)
		return fail("input", err)
	}

	if sc.ExpectHeader {
		hs, err := c.ReadStream()
		if err != nil {
			res.Header = &hs
			closeInput()
			return fail("header", err)
		}
		if hs.HasError() {
			// init failed: the error stream stands in for the whole response
			res.Output = &hs
			closeInput()
			return res
		}
		res.Header = &hs
	}

	sr, err := c.OpenStream()
	if err != nil {
		closeInput()
		return fail("output-open", err)
	}
	defer func() { st := sr.Stream(); res.Output = &st }()
	for {
		b, err := sr.Next()
		if err != nil {
			closeInput()
			return fail(fmt.Sprintf("output after %d inputs", res.InputsSent), err)
		}
		if b == nil { // EOS
			closeInput()
			return res
		}
		switch b.Kind {
		case KindLog:
			continue
		case KindError:
			closeInput()
		default: // a data-like batch answers the input sent last
			if !res.InputClosed {
				if err := sendNext(); err != nil {
					return fail("input", err)
				}
			}
		}
	}
}

// ---------------------------------------------------------------------------
// Diagnostics

// Goroutines returns the stacks of all goroutines whose dump contains every
// given substring.
func Goroutines(must ...string) string {
	buf := make([]byte, 1<<20)
	for {
		n := runtime.Stack(buf, true)
		if n < len(buf) {
			buf = buf[:n]
			break
		}
		buf = make([]byte, 2*len(buf))
	}
	var out []string
	for _, g := range strings.Split(string(buf), "\n\n") {
		ok := true
		for _, m := range must {
			if !strings.Contains(g, m) {
				ok = false
				break
			}
		}
		if ok {
			out = append(out, g)
		}
	}
	return strings.Join(out, "\n\n")
}

// ServeGoroutinesAllParked reports whether the process has at least one
// goroutine inside (*Server).serveOne and every such goroutine is blocked in a
// transport read. Exact when one connection is being served at a time; with
// several it can only err towards "not parked" (=> a hard timeout, i.e.
// inconclusive, never a false violation).
func ServeGoroutinesAllParked() bool {
	dump := Goroutines("vgirpc.(*Server).serveOne")
	if dump == "" {
		return false
	}
	for _, g := range strings.Split(dump, "\n\n") {
		head := g
		if i := strings.IndexByte(g, '\n'); i >= 0 {
			head = g[:i]
		}
		waiting := strings.Contains(head, "[IO wait") || strings.Contains(head, "[select") ||
			strings.Contains(head, "[chan receive") || strings.Contains(head, "[sync.Cond.Wait")
		reading := strings.Contains(g, "internal/poll.(*FD).Read") || strings.Contains(g, "io.(*pipe).read") ||
			strings.Contains(g, "wire.(*Pipe).ReadTimeout")
		if !waiting || !reading {
			return false
		}
	}
	return true
}
