package wire

import (
	"bytes"
	"compress/gzip"
	"fmt"
	"io"
	"net/http"
	"net/http/httptest"
	"strings"

	"github.com/apache/arrow-go/v18/arrow"
	"github.com/apache/arrow-go/v18/arrow/array"
	"github.com/klauspost/compress/zstd"

	"verif/harness/internal/gen"
)

// HTTPTarget is where raw HTTP requests go: an in-process handler (ServeHTTP
// with a ResponseRecorder, so a panic escaping the handler is attributed to
// the request that caused it) or a real listener (BaseURL + Client).
type HTTPTarget struct {
	Handler http.Handler // in-process when non-nil
	BaseURL string       // e.g. "http://127.0.0.1:1234" (real listener)
	Client  *http.Client // default http.DefaultClient
	Prefix  string       // route prefix configured on the server ("" default)
	Header  map[string]string
}

// HTTPResp is one HTTP response plus its decoded observation.
type HTTPResp struct {
	Status   int         `json:"status"`
	Header   http.Header `json:"header,omitempty"`
	Body     []byte      `json:"-"`
	BodyB64  string      `json:"body_b64,omitempty"` // filled by Witness()
	Obs      Obs         `json:"obs"`
	RPCError bool        `json:"rpc_error_header"` // X-VGI-RPC-Error: true
	Panic    string      `json:"panic,omitempty"`  // in-process only: value that escaped ServeHTTP
	Err      string      `json:"err,omitempty"`    // transport error (real listener)
	Encoding string      `json:"encoding,omitempty"`
}

// Witness returns a copy with the body base64-encoded for replay files.
func (r HTTPResp) Witness() HTTPResp { r.BodyB64 = gen.B64(r.Body); return r }

// Post sends a raw body to prefix+path with the Arrow content type (override
// through hdr) and decodes the response body (after undoing Content-Encoding
// or X-VGI-Content-Encoding zstd/gzip).
func (t *HTTPTarget) Post(path string, body []byte, hdr map[string]string) (resp HTTPResp) {
	url := t.Prefix + path
	var req *http.Request
	if t.Handler != nil {
		req = httptest.NewRequest(http.MethodPost, url, bytes.NewReader(body))
	} else {
		var err error
		req, err = http.NewRequest(http.MethodPost, t.BaseURL+url, bytes.NewReader(body))
		if err != nil {
			return HTTPResp{Err: err.Error()}
		}
	}
	req.Header.Set("Content-Type", ContentType)
	for k, v := range t.Header {
		req.Header.Set(k, v)
	}
	for k, v := range hdr {
		if v == "\x00" {
			req.Header.Del(k)
		} else {
			req.Header.Set(k, v)
		}
	}
	if t.Handler != nil {
		rec := httptest.NewRecorder()
		func() {
			defer func() {
				if rv := recover(); rv != nil {
					resp.Panic = fmt.Sprintf("%v", rv)
				}
			}()
			t.Handler.ServeHTTP(rec, req)
		}()
		resp.Status, resp.Header, resp.Body = rec.Code, rec.Header(), rec.Body.Bytes()
	} else {
		cl := t.Client
		if cl == nil {
			cl = http.DefaultClient
		}
		// keep control of decompression
		if req.Header.Get("Accept-Encoding") == "" {
			req.Header.Set("Accept-Encoding", "identity")
		}
		hr, err := cl.Do(req)
		if err != nil {
			resp.Err = err.Error()
			return resp
		}
		b, err := io.ReadAll(hr.Body)
		_ = hr.Body.Close()
		if err != nil {
			resp.Err = err.Error()
		}
		resp.Status, resp.Header, resp.Body = hr.StatusCode, hr.Header, b
	}
	resp.RPCError = strings.EqualFold(resp.Header.Get("X-VGI-RPC-Error"), "true")
	plain := resp.Body
	enc := resp.Header.Get("X-VGI-Content-Encoding")
	if enc == "" {
		enc = resp.Header.Get("Content-Encoding")
	}
	resp.Encoding = enc
	switch strings.ToLower(strings.TrimSpace(enc)) {
	case "zstd":
		if d, err := zstd.NewReader(nil); err == nil {
			if out, derr := d.DecodeAll(resp.Body, nil); derr == nil {
				plain = out
			} else {
				resp.Err = "zstd: " + derr.Error()
			}
			d.Close()
		}
	case "gzip":
		if zr, err := gzip.NewReader(bytes.NewReader(resp.Body)); err == nil {
			if out, derr := io.ReadAll(zr); derr == nil {
				plain = out
			} else {
				resp.Err = "gzip: " + derr.Error()
			}
		}
	}
	if strings.HasPrefix(resp.Header.Get("Content-Type"), ContentType) {
		resp.Obs = Decode(plain)
	}
	return resp
}

// Unary POSTs a request to {prefix}/{method}.
func (t *HTTPTarget) Unary(q Req, hdr map[string]string) HTTPResp {
	return t.Post("/"+q.Method, q.Encode(), hdr)
}

// Init POSTs a stream-init request to {prefix}/{method}/init.
func (t *HTTPTarget) Init(q Req, hdr map[string]string) HTTPResp {
	return t.Post("/"+q.Method+"/init", q.Encode(), hdr)
}

// Turn describes one continuation request to {prefix}/{method}/exchange.
type Turn struct {
	Method      string
	Input       arrow.RecordBatch // nil = zero-row batch of an empty schema (producer continuation / cancel)
	StreamState string            // cursor token to echo ("" = omit)
	CallState   string            // call token to echo ("" = omit)
	Cancel      bool              // add vgi_rpc.cancel
	CancelValue *string           // value of the cancel key (nil: "true"); the signal is the key's presence
	Meta        [][2]string       // user metadata placed BEFORE the framework keys
	MetaAfter   [][2]string       // user metadata placed after them
}

// Encode renders the continuation body: one IPC stream with one batch whose
// custom metadata carries the tokens.
func (u Turn) Encode() []byte {
	var k, v []string
	for _, m := range u.Meta {
		k, v = append(k, m[0]), append(v, m[1])
	}
	if u.StreamState != "" {
		k, v = append(k, KeyStreamState), append(v, u.StreamState)
	}
	if u.CallState != "" {
		k, v = append(k, KeyCallState), append(v, u.CallState)
	}
	if u.Cancel {
		cv := "true"
		if u.CancelValue != nil {
			cv = *u.CancelValue
		}
		k, v = append(k, KeyCancel), append(v, cv)
	}
	for _, m := range u.MetaAfter {
		k, v = append(k, m[0]), append(v, m[1])
	}
	src := u.Input
	if src == nil {
		src = emptyOf(arrow.NewSchema(nil, nil))
		defer src.Release()
	}
	rec := array.NewRecordBatchWithMetadata(src.Schema(), src.Columns(), src.NumRows(), arrow.NewMetadata(k, v))
	defer rec.Release()
	return gen.IPCBytes(src.Schema(), rec)
}

// Exchange POSTs one continuation.
func (t *HTTPTarget) Exchange(u Turn, hdr map[string]string) HTTPResp {
	return t.Post("/"+u.Method+"/exchange", u.Encode(), hdr)
}
