package wire

import (
	"errors"
	"io"
	"sync"
	"time"
)

// Pipe is an in-memory, unbounded, one-directional byte queue with the two
// things io.Pipe lacks for a monitor: writes never block (so a lockstep client
// and a server that both "write before reading" cannot deadlock on the
// transport itself), and the state "a reader is parked on an empty queue" is
// observable (Parked), which is what turns "no answer" into a deterministic
// quiescence witness instead of a wall-clock guess.
//
// One goroutine reads, any number write. All state is under one mutex.
type Pipe struct {
	mu       sync.Mutex
	notify   chan struct{} // closed and replaced on every state change
	buf      []byte
	wclosed  bool // writer side closed: Read returns io.EOF once drained
	rclosed  bool // reader side closed: Write fails
	parked   int  // readers blocked in Read on an empty queue
	written  int64
	consumed int64
	// Chop, when non-nil, bounds the number of bytes one Read may return
	// (short-read injection). Called under the pipe mutex; must not block.
	Chop func() int
}

// ErrReadTimeout is returned by ReadTimeout when the deadline passes.
var ErrReadTimeout = errors.New("wire: read timed out")

func NewPipe() *Pipe { return &Pipe{notify: make(chan struct{})} }

func (p *Pipe) wake() {
	close(p.notify)
	p.notify = make(chan struct{})
}

// Write appends b; it never blocks.
func (p *Pipe) Write(b []byte) (int, error) {
	p.mu.Lock()
	defer p.mu.Unlock()
	if p.rclosed || p.wclosed {
		return 0, io.ErrClosedPipe
	}
	p.buf = append(p.buf, b...)
	p.written += int64(len(b))
	p.wake()
	return len(b), nil
}

// Read blocks until data, EOF (writer closed) or reader close.
func (p *Pipe) Read(b []byte) (int, error) { return p.ReadTimeout(b, 0) }

// ReadTimeout is Read with a deadline (d <= 0: none).
func (p *Pipe) ReadTimeout(b []byte, d time.Duration) (int, error) {
	if len(b) == 0 {
		return 0, nil
	}
	var timer <-chan time.Time
	if d > 0 {
		t := time.NewTimer(d)
		defer t.Stop()
		timer = t.C
	}
	p.mu.Lock()
	for {
		if len(p.buf) > 0 {
			n := len(b)
			if p.Chop != nil {
				if c := p.Chop(); c > 0 && c < n {
					n = c
				}
			}
			n = copy(b[:n], p.buf)
			p.buf = p.buf[n:]
			if len(p.buf) == 0 {
				p.buf = nil
			}
			p.consumed += int64(n)
			p.wake()
			p.mu.Unlock()
			return n, nil
		}
		if p.wclosed {
			p.mu.Unlock()
			return 0, io.EOF
		}
		if p.rclosed {
			p.mu.Unlock()
			return 0, io.ErrClosedPipe
		}
		ch := p.notify
		p.parked++
		p.mu.Unlock()
		select {
		case <-ch:
			p.mu.Lock()
			p.parked--
		case <-timer:
			p.mu.Lock()
			p.parked--
			if len(p.buf) == 0 && !p.wclosed {
				p.mu.Unlock()
				return 0, ErrReadTimeout
			}
		}
	}
}

// CloseWrite marks end of input: pending bytes stay readable, then EOF.
func (p *Pipe) CloseWrite() error {
	p.mu.Lock()
	defer p.mu.Unlock()
	if !p.wclosed {
		p.wclosed = true
		p.wake()
	}
	return nil
}

// CloseRead makes further writes fail and unblocks a parked reader.
func (p *Pipe) CloseRead() error {
	p.mu.Lock()
	defer p.mu.Unlock()
	if !p.rclosed {
		p.rclosed = true
		p.wake()
	}
	return nil
}

// Close closes both sides.
func (p *Pipe) Close() error { _ = p.CloseWrite(); return p.CloseRead() }

// Len is the number of unread bytes.
func (p *Pipe) Len() int { p.mu.Lock(); defer p.mu.Unlock(); return len(p.buf) }

// Parked reports that a reader is blocked in Read and the queue is empty and
// not closed: the reading side is waiting for bytes nobody has sent.
func (p *Pipe) Parked() bool {
	p.mu.Lock()
	defer p.mu.Unlock()
	return p.parked > 0 && len(p.buf) == 0 && !p.wclosed
}

// Counters returns (bytes written, bytes consumed) so far.
func (p *Pipe) Counters() (written, consumed int64) {
	p.mu.Lock()
	defer p.mu.Unlock()
	return p.written, p.consumed
}

// Changed returns a channel closed at the next state change.
func (p *Pipe) Changed() <-chan struct{} { p.mu.Lock(); defer p.mu.Unlock(); return p.notify }

// WriterClosed reports whether CloseWrite was called.
func (p *Pipe) WriterClosed() bool { p.mu.Lock(); defer p.mu.Unlock(); return p.wclosed }
