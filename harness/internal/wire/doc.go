// Package wire is the harness's independent reference CLIENT and response
// decoder for vgi-rpc. It is written from the protocol as the server's read
// side implements it (ReadRequest, serveStream, the HTTP handlers) and never
// calls the library's client helpers (WriteRequest, HttpClient, ...), so a
// client bug and a server bug cannot cancel out. arrow-go's ipc reader/writer
// is used directly.
//
// # Observations (obs.go)
//
//	Decode(bytes) Obs                 ANY byte string -> []Stream + Trailing/Garbage flags; never panics
//	Stream{Schema, Batches, Complete, Err}
//	Batch{Kind data|log|error|token|ext-pointer|shm-pointer, Rows, Canon (gen.CanonValues), Meta,
//	      Level/Message/Extra, ErrType/ErrMessage/ErrKind, RequestID/HasReqID, ServerID, StreamState, CallState}
//	Obs.Key(Norm) / Obs.Equal(other, Norm)    observation equality under a normal form (what differential oracles compare)
//	Obs.Tokens()                      (stream_state, call_state) to echo on a continuation
//	Obs.WellFormed()                  only complete streams, nothing trailing
//
// Classification is by wire shape alone: zero rows + vgi_rpc.log_level ->
// log, or error when the level is EXCEPTION; zero rows + vgi_rpc.location ->
// ext-pointer; zero rows + shm offset/length -> shm-pointer; zero rows +
// stream_state -> token; anything else -> data. (A zero-row exchange *data*
// batch carrying its continuation token is wire-identical to a token batch;
// callers that know the context read Batch.StreamState, which is filled for
// every kind.)
//
// # Pipe-like transports (pipe.go, conn.go)
//
//	NewInProc(srv.Serve)        two instrumented Pipes (default; exact quiescence detection; Pipe.Chop = short reads)
//	NewIOPipe(srv.Serve)        two synchronous io.Pipe pairs, bridged
//	DialNet("unix"|"tcp", addr) Server.RunUnix / RunTcp listeners, bridged
//	c.Unary(Req) (Stream, error)
//	c.Stream(StreamCall) StreamResult    request, input stream (schema + first input written BEFORE reading;
//	                                     lockstep; cancel batch; EOS always, also after an error), optional
//	                                     header stream, output stream
//	c.SendRequest / OpenStream / ReadStream / WriteRaw    lower level
//	c.CloseWrite(); c.Leftover(d); c.WaitServer(d); c.ServerReturned(); c.Close()
//
// Nothing blocks forever. Every read has two exits besides data: a
// *StallError (the client waits for a response while everything it wrote was
// consumed, nothing is buffered towards it and the serving goroutine is
// parked reading, or has returned: a deterministic witness, with the vgirpc
// goroutine stacks attached) and ErrReadTimeout after Conn.Timeout (time
// based, therefore only ever an *inconclusive*).
//
// # HTTP (http.go)
//
//	HTTPTarget{Handler | BaseURL+Client, Prefix}.Post(path, body, hdr) HTTPResp
//	t.Unary(Req) / t.Init(Req) / t.Exchange(Turn)      raw POSTs to {prefix}/{method}, /init, /exchange
//	HTTPResp{Status, Header, Body, Obs, RPCError, Panic (in-process), Err}
//
// Response bodies are decompressed (zstd, gzip; Content-Encoding or
// X-VGI-Content-Encoding) before decoding.
package wire
