// Package wd holds the small reference-client pieces shared by worker wD's
// checks (C09 C10 C17 C18): request construction, response decoding and
// in-process pipe / HTTP drivers. Everything here is written against the wire
// protocol as documented (metadata keys, one IPC stream per message) with
// arrow-go's IPC reader/writer as the trusted base; nothing calls the
// library's own client helpers.
package wd

import (
	"bytes"
	"fmt"
	"io"
	"net/http"
	"net/http/httptest"

	"github.com/apache/arrow-go/v18/arrow"
	"github.com/apache/arrow-go/v18/arrow/array"
	"github.com/apache/arrow-go/v18/arrow/ipc"
	"github.com/apache/arrow-go/v18/arrow/memory"

	"github.com/Query-farm/vgi-rpc-go/vgirpc"
)

// ArrowCT is the Arrow IPC stream media type the HTTP transport requires.
const ArrowCT = "application/vnd.apache.arrow.stream"

var mem = memory.NewGoAllocator()

// KV is one metadata pair (ordered; duplicates allowed).
type KV struct{ K, V string }

// Request builds one request IPC stream: schema, one batch carrying the
// routing metadata plus extra, EOS. cols may be nil for a zero-column request.
func Request(method string, schema *arrow.Schema, cols []arrow.Array, rows int64, extra ...KV) []byte {
	if schema == nil {
		schema = arrow.NewSchema(nil, nil)
	}
	keys := []string{"vgi_rpc.method", "vgi_rpc.request_version"}
	vals := []string{method, "1"}
	for _, kv := range extra {
		keys = append(keys, kv.K)
		vals = append(vals, kv.V)
	}
	rec := array.NewRecordBatchWithMetadata(schema, cols, rows, arrow.NewMetadata(keys, vals))
	defer rec.Release()
	var buf bytes.Buffer
	w := ipc.NewWriter(&buf, ipc.WithSchema(schema))
	if err := w.Write(rec); err != nil {
		panic(fmt.Sprintf("wd.Request: %v", err))
	}
	if err := w.Close(); err != nil {
		panic(fmt.Sprintf("wd.Request close: %v", err))
	}
	return buf.Bytes()
}

// EmptyRequest is Request for a method with no parameters (zero columns, zero rows).
func EmptyRequest(method string, extra ...KV) []byte {
	return Request(method, nil, nil, 0, extra...)
}

// TickStream builds a producer input stream: empty schema, n zero-row tick
// batches, EOS.
func TickStream(n int) []byte {
	schema := arrow.NewSchema(nil, nil)
	var buf bytes.Buffer
	w := ipc.NewWriter(&buf, ipc.WithSchema(schema))
	for i := 0; i < n; i++ {
		rec := array.NewRecordBatch(schema, nil, 0)
		if err := w.Write(rec); err != nil {
			panic(err)
		}
		rec.Release()
	}
	if err := w.Close(); err != nil {
		panic(err)
	}
	return buf.Bytes()
}

// Batch is one decoded response batch.
type Batch struct {
	Rows  int64
	Meta  map[string]string
	Rec   arrow.RecordBatch // retained; caller may Release via Stream.Release
	IsErr bool              // vgi_rpc.log_level == EXCEPTION
	IsLog bool              // carries a log level other than EXCEPTION
}

// Stream is one decoded IPC stream.
type Stream struct {
	Schema  *arrow.Schema
	Batches []Batch
}

// Release drops the retained batches.
func (s *Stream) Release() {
	for _, b := range s.Batches {
		if b.Rec != nil {
			b.Rec.Release()
		}
	}
}

// DecodeStreams decodes a byte string that is a concatenation of complete IPC
// streams (what a pipe response or an HTTP response body is).
func DecodeStreams(data []byte) ([]Stream, error) {
	var out []Stream
	br := bytes.NewReader(data)
	for br.Len() > 0 {
		rd, err := ipc.NewReader(br, ipc.WithAllocator(mem))
		if err != nil {
			return out, fmt.Errorf("stream %d: %w", len(out), err)
		}
		st := Stream{Schema: rd.Schema()}
		for rd.Next() {
			rec := rd.RecordBatch()
			rec.Retain()
			b := Batch{Rows: rec.NumRows(), Rec: rec, Meta: map[string]string{}}
			if m, ok := rec.(arrow.RecordBatchWithMetadata); ok {
				md := m.Metadata()
				for i, k := range md.Keys() {
					b.Meta[k] = md.Values()[i]
				}
			}
			if lv, ok := b.Meta["vgi_rpc.log_level"]; ok {
				if lv == "EXCEPTION" {
					b.IsErr = true
				} else {
					b.IsLog = true
				}
			}
			st.Batches = append(st.Batches, b)
		}
		err = rd.Err()
		rd.Release()
		out = append(out, st)
		if err != nil && err != io.EOF {
			return out, fmt.Errorf("stream %d: %w", len(out)-1, err)
		}
	}
	return out, nil
}

// FirstError returns the first EXCEPTION batch of the decoded streams.
func FirstError(sts []Stream) (Batch, bool) {
	for _, s := range sts {
		for _, b := range s.Batches {
			if b.IsErr {
				return b, true
			}
		}
	}
	return Batch{}, false
}

// ReleaseAll releases every stream.
func ReleaseAll(sts []Stream) {
	for i := range sts {
		sts[i].Release()
	}
}

// Pipe runs one in-memory pipe session: the server reads `in` to EOF and the
// bytes it wrote are returned. No goroutines: Serve returns when the reader
// is exhausted.
func Pipe(s *vgirpc.Server, in []byte) []byte {
	var out bytes.Buffer
	s.Serve(bytes.NewReader(in), &out)
	return out.Bytes()
}

// HTTPDo performs one in-process request against the handler.
// chunked=true hides the body length (Content-Length unknown).
func HTTPDo(h http.Handler, method, path string, body []byte, hdr [][2]string, chunked bool) *httptest.ResponseRecorder {
	var rd io.Reader
	if body != nil {
		if chunked {
			rd = struct{ io.Reader }{bytes.NewReader(body)}
		} else {
			rd = bytes.NewReader(body)
		}
	}
	req := httptest.NewRequest(method, path, rd)
	if chunked {
		req.ContentLength = -1
	}
	for _, kv := range hdr {
		// Direct map assignment with the canonical key keeps the raw value
		// (no net/textproto validation of the value here; the values used by
		// the checks are valid field content anyway).
		req.Header[http.CanonicalHeaderKey(kv[0])] = append(req.Header[http.CanonicalHeaderKey(kv[0])], kv[1])
	}
	rec := httptest.NewRecorder()
	h.ServeHTTP(rec, req)
	return rec
}
