// C16 — HTTP continuations advance the stream exactly one turn.
//
// Scripted exchange / producer / dynamic states of the "probe" family (svc
// scripts + a record of everything the handler was handed) run behind 1..2
// HttpServer instances. An independent client drives /init and one /exchange
// per input, puts 0..8 user metadata pairs around the framework keys
// (colliding names, prefixes, empty values, duplicates of user AND of
// framework keys) and cancels at any turn. Monitors:
//
//   - response side: an accepted exchange continuation carries exactly one
//     data batch with a FRESH cursor (never seen before in this call; presenting
//     it runs turn k+1 — checked through the turn numbers the states record and
//     the values the model predicts); a failed turn carries an error and no
//     cursor; a cancel answers with an empty stream and no cursor;
//   - handler side: OnCancel ran exactly once (iff the state has the hook) and
//     nothing ran after it; CallContext.InputMetadata equals the ordered list of
//     sent pairs minus the framework's token and cancel keys; no token key and
//     no token value anywhere in InputMetadata, in the input batch's own custom
//     metadata, in its schema metadata, in TransportMetadata or in Cookies.
package main

import (
	"fmt"
	"io"
	"log/slog"
	"strings"

	"github.com/apache/arrow-go/v18/arrow"
	"github.com/apache/arrow-go/v18/arrow/array"

	"verif/harness/internal/gen"
	"verif/harness/internal/mon"
	"verif/harness/internal/svc"
	"verif/harness/internal/wire"
	"verif/harness/internal/wk"
)

const (
	kStream = wire.KeyStreamState
	kCall   = wire.KeyCallState
	kCancel = wire.KeyCancel
)

func isFramework(k string) bool { return k == kStream || k == kCall || k == kCancel }

type turnMeta struct {
	Before [][2]string `json:"before,omitempty"` // placed before the framework keys ("$cursor" / "$call" stand for the live tokens)
	After  [][2]string `json:"after,omitempty"`
}

type caseT struct {
	Index     int             `json:"index"`
	Method    string          `json:"method"`
	Producer  bool            `json:"producer"`
	Shape     string          `json:"shape"`
	Script    svc.Script      `json:"script"`
	Args      svc.Args        `json:"args"`
	Variant   string          `json:"input_variant,omitempty"`
	Inputs    []svc.InputSpec `json:"inputs"`
	Meta      []turnMeta      `json:"meta"`
	CancelAt  int             `json:"cancel_at"`
	CancelVal string          `json:"cancel_value"` // value of the vgi_rpc.cancel key; the signal is its presence
	ExtInput  int             `json:"ext_input_at"` // turn whose input is sent as a pointer batch (-1 none)
	Instances int             `json:"instances"`
	Cache     int             `json:"cache_entries"`
	Limit     int             `json:"batch_limit"`
}

var userKeys = []string{"k", "user", "trace_id", "clé", "a.b", "", "vgi_rpc.request_id", "vgi_rpc.method", "vgi_pushdown_filters", "n"}

// names that collide with / are prefixed by / extend the framework keys but
// are NOT the framework keys: they are the request's own metadata.
var nearKeys = []string{"vgi_rpc.stream_state", "vgi_rpc.stream_state#b64x", "vgi_rpc.stream_state#B64", "vgi_rpc.call_state", "vgi_rpc.call_state#b64 ",
	"vgi_rpc.cancelled", "vgi_rpc.cance", "xvgi_rpc.cancel", "VGI_RPC.CANCEL", "vgi_rpc.stream_state#b64#b64"}
var userVals = []string{"", "v", "42", "true", "ünï", "{\"json\":1}", "multi\nline", "x=y", "long-" + "yyyyyyyyyyyyyyyyyyyyyyyyyyyyyyyyyyyyyyyyyyyyyyy"}

// other PROTOCOL keys: on a continuation request without external storage /
// shared memory attached they mean nothing to the framework, so they are the
// request's own metadata like any other key (domain audit: keys that look
// like framework keys). Not generated on the external-storage cluster, where a
// zero-row batch carrying vgi_rpc.location IS a pointer batch by protocol.
var protoKeys = []string{"vgi_rpc.location", "vgi_rpc.location.sha256", "vgi_rpc.log_level", "vgi_rpc.log_message", "vgi_rpc.log_extra",
	"vgi_rpc.shm_offset", "vgi_rpc.shm_length", "vgi_rpc.error_kind", "vgi_rpc.server_id", "vgi_rpc.protocol_version", "vgi_rpc.request_version"}

func genMeta(rng interface{ IntN(int) int }, cancel, proto bool) turnMeta {
	var m turnMeta
	n := rng.IntN(9) // 0..8
	if rng.IntN(4) == 0 {
		n = 0
	}
	for j := 0; j < n; j++ {
		var kv [2]string
		switch rng.IntN(10) {
		case 0, 1, 2: // near-collision
			kv = [2]string{nearKeys[rng.IntN(len(nearKeys))], userVals[rng.IntN(len(userVals))]}
		case 3: // duplicate of an earlier user key
			all := stripped(append(append([][2]string{}, m.Before...), m.After...))
			if len(all) > 0 {
				kv = [2]string{all[rng.IntN(len(all))][0], userVals[rng.IntN(len(userVals))]}
			} else {
				kv = [2]string{"dup", "1"}
			}
		case 4: // duplicate FRAMEWORK key. Before the real one only with the live value (the server
			// reads the first occurrence); after it with anything (an echoed stale value).
			if rng.IntN(2) == 0 {
				if rng.IntN(2) == 0 {
					m.Before = append(m.Before, [2]string{kStream, "$cursor"})
				} else {
					m.Before = append(m.Before, [2]string{kCall, "$call"})
				}
			} else {
				k := []string{kStream, kCall}[rng.IntN(2)]
				v := []string{"$cursor", "$call", "stale-token", ""}[rng.IntN(4)]
				m.After = append(m.After, [2]string{k, v})
			}
			continue
		case 5:
			if cancel { // duplicate cancel key
				m.After = append(m.After, [2]string{kCancel, []string{"true", "", "1"}[rng.IntN(3)]})
				continue
			}
			fallthrough
		case 6:
			if proto {
				kv = [2]string{protoKeys[rng.IntN(len(protoKeys))], []string{"", "INFO", "EXCEPTION", "https://mem.invalid/x", "0", "42", "true"}[rng.IntN(7)]}
				break
			}
			fallthrough
		default:
			kv = [2]string{userKeys[rng.IntN(len(userKeys))], userVals[rng.IntN(len(userVals))]}
		}
		if rng.IntN(2) == 0 {
			m.Before = append(m.Before, kv)
		} else {
			m.After = append(m.After, kv)
		}
	}
	return m
}

var shapes = []string{"complete", "cancel", "fail-error", "complete", "cancel", "fail-panic", "cancel-nohook", "fail-none", "complete", "fail-emit2", "cancel", "finish-variant", "castable", "ext-input", "complete", "cancel"}
var finishActs = []svc.Act{svc.ActFinish, svc.ActEmitFin, svc.ActFinishRet, svc.ActFinishIgn}
var methods = []string{"k_x", "k_xh", "k_d", "k_p", "k_d"}

func genCase(r *mon.Run, i int) caseT {
	rng := r.Rand(uint64(i))
	c := caseT{Index: i, CancelAt: -1, ExtInput: -1}
	c.Method = methods[i%len(methods)]
	c.Producer = c.Method == "k_p" || (c.Method == "k_d" && i%len(methods) == 4)
	c.Shape = shapes[(i/len(methods))%len(shapes)]
	round := i / (len(methods) * len(shapes))
	c.Instances = 1 + rng.IntN(2)
	c.Cache = []int{0, -1, 0, -1, 1}[rng.IntN(5)] // 1: every other call evicts this one's entry
	turns := 1 + rng.IntN(7)
	o := svc.StreamOpt{Producer: c.Producer, Turns: turns, FailAt: -1}
	nIn := turns + 1 + rng.IntN(2)
	if c.Producer {
		c.Limit = 1 + rng.IntN(3)
		switch c.Shape {
		case "cancel", "cancel-nohook":
		case "fail-error", "fail-panic", "fail-none", "fail-emit2":
		default:
			c.Shape = "complete"
		}
	}
	switch c.Shape {
	case "fail-error", "fail-panic", "fail-none", "fail-emit2":
		o.FailAt = (round + rng.IntN(turns)) % turns
		o.FailAct = map[string]svc.Act{"fail-error": svc.ActError, "fail-panic": svc.ActPanic, "fail-none": svc.ActNone, "fail-emit2": svc.ActEmitTwice}[c.Shape]
	case "finish-variant":
		o.FailAt = rng.IntN(turns)
		o.FailAct = finishActs[round%len(finishActs)]
	case "cancel", "cancel-nohook":
		c.CancelAt = []int{0, 1, 2, 3, 5}[(round+rng.IntN(5))%5]
		// cancellation is signalled by the PRESENCE of the key, whatever its value
		c.CancelVal = []string{"true", "1", "", "0", "false", "cancel", " "}[rng.IntN(7)]
		if c.Producer {
			// a producer is cancelled on its n-th continuation (n >= 1): it must still be running then
			if c.CancelAt == 0 {
				c.CancelAt = 1
			}
			o.Turns = c.CancelAt*c.Limit + 1 + rng.IntN(4)
		} else if nIn <= c.CancelAt {
			nIn = c.CancelAt + 1
		}
		o.NoCancel = c.Shape == "cancel-nohook"
	case "castable":
		c.Variant = []string{"int32", "float32", "decimal", "both"}[round%4]
	case "ext-input":
		c.ExtInput = rng.IntN(nIn)
	}
	if !c.Producer && c.Variant == "" {
		c.Variant = "exact"
	}
	c.Script = svc.GenStream(rng, fmt.Sprintf("c16-%d", i), o)
	c.Args = svc.GenArgs(rng)
	c.Inputs = svc.GenInputs(rng, nIn)
	for k := 0; k < nIn; k++ {
		c.Meta = append(c.Meta, genMeta(rng, k == c.CancelAt, c.ExtInput < 0))
	}
	return c
}

func subst(in [][2]string, cursor, call string) [][2]string {
	out := make([][2]string, len(in))
	for i, kv := range in {
		switch kv[1] {
		case "$cursor":
			kv[1] = cursor
		case "$call":
			kv[1] = call
		}
		out[i] = kv
	}
	return out
}

// sentPairs is the request batch's metadata as the reference client writes it
// (wire.Turn.Encode): Before, stream_state, call_state, [cancel], After.
func sentPairs(m turnMeta, cursor, call string, cancel bool, cancelVal string) [][2]string {
	out := subst(m.Before, cursor, call)
	out = append(out, [2]string{kStream, cursor}, [2]string{kCall, call})
	if cancel {
		out = append(out, [2]string{kCancel, cancelVal})
	}
	return append(out, subst(m.After, cursor, call)...)
}

func stripped(p [][2]string) [][2]string {
	out := [][2]string{}
	for _, kv := range p {
		if !isFramework(kv[0]) {
			out = append(out, kv)
		}
	}
	return out
}

func samePairs(a, b [][2]string) bool {
	if len(a) != len(b) {
		return false
	}
	for i := range a {
		if a[i] != b[i] {
			return false
		}
	}
	return true
}

type checker struct {
	r      *mon.Run
	log    *mon.Log
	store  *wk.MemStorage
	key    []byte
	caches map[string]*wk.Cluster
}

func (w *checker) cluster(c caseT, ext bool) *wk.Cluster {
	k := fmt.Sprintf("%d/%d/%d/%v", c.Instances, c.Cache, c.Limit, ext)
	if cl, ok := w.caches[k]; ok {
		return cl
	}
	o := wk.ClusterOpt{Instances: c.Instances, Key: w.key, BatchLimit: c.Limit, CacheEntries: c.Cache}
	if ext {
		o.Storage, o.ExtThreshold = w.store, 1<<30
	}
	cl, err := wk.NewCluster(o)
	if err != nil {
		w.r.Fatal("cluster: %v", err)
	}
	w.caches[k] = cl
	return cl
}

// pointerInput uploads the real input (with the user metadata on the data
// batch) and returns the zero-row pointer batch standing in for it.
func (w *checker) pointerInput(real arrow.RecordBatch, user [][2]string) (arrow.RecordBatch, string) {
	var k, v []string
	for _, kv := range user {
		k, v = append(k, kv[0]), append(v, kv[1])
	}
	withMeta := array.NewRecordBatchWithMetadata(real.Schema(), real.Columns(), real.NumRows(), arrow.NewMetadata(k, v))
	defer withMeta.Release()
	url := w.store.Put(gen.IPCBytes(real.Schema(), withMeta))
	return real.NewSlice(0, 0), url
}

func tokensIn(s string, toks []string) string {
	for _, t := range toks {
		if len(t) >= 16 && strings.Contains(s, t) {
			return t
		}
	}
	return ""
}

func (w *checker) run(c caseT) {
	r := w.r
	cl := w.cluster(c, c.ExtInput >= 0) // (registers the probe family on first use)
	kind := svc.Methods[c.Method].Kind
	if kind == "dynamic" {
		kind = map[bool]string{true: "dynamic-producer", false: "dynamic-exchange"}[c.Producer]
	}
	sig := func(class string) string { return fmt.Sprintf("%s:%s", kind, class) }

	call := svc.Call{Method: c.Method, Args: c.Args, Variant: c.Variant, Inputs: c.Inputs, CancelAt: c.CancelAt}
	sc := wk.StreamCall{Req: wire.Req{Method: c.Method, Params: svc.ParamsBatch(c.Script, c.Args), RequestID: fmt.Sprintf("rid-%d", c.Index)},
		HasHeader: svc.Methods[c.Method].Header, Producer: c.Producer}
	defer sc.Req.Params.Release()
	extURL := ""
	if c.Producer {
		// producers: input k is the metadata of continuation k+1; the model needs enough ticks
		sc.CancelAt = c.CancelAt
		sc.CancelVal = &c.CancelVal
		for _, m := range c.Meta {
			sc.Inputs = append(sc.Inputs, wk.In{Meta: m.Before, MetaAfter: m.After})
		}
		call.Inputs = make([]svc.InputSpec, len(c.Script.Turns)+2)
		call.CancelAt = -1
		if c.CancelAt > 0 {
			// cancelled on its CancelAt-th continuation: Limit turns ran per earlier response
			call.Inputs = make([]svc.InputSpec, c.CancelAt*c.Limit+1)
			call.CancelAt = c.CancelAt * c.Limit
		}
	} else {
		for k, in := range c.Inputs {
			x := wk.In{Cancel: k == c.CancelAt, CancelVal: &c.CancelVal, Meta: c.Meta[k].Before, MetaAfter: c.Meta[k].After}
			if !x.Cancel {
				x.Batch = svc.BuildInput(in, c.Variant)
				defer x.Batch.Release()
				if k == c.ExtInput {
					ptr, url := w.pointerInput(x.Batch, stripped(append(append([][2]string{}, c.Meta[k].Before...), c.Meta[k].After...)))
					defer ptr.Release()
					x.Batch, extURL = ptr, url
					x.Meta = append([][2]string{{wire.KeyLocation, url}}, x.Meta...)
				}
			}
			sc.Inputs = append(sc.Inputs, x)
			if x.Cancel {
				break
			}
		}
	}
	// "$cursor"/"$call" placeholders are resolved per request by the driver's
	// caller: RunStream does not know them, so resolve lazily through a wrapper.
	res := runWithPlaceholders(cl, cl.RoundRobin(c.Index), sc)

	evAll := w.log.Since(int64(res.mark))
	pred := svc.Model(c.Script, call)
	wit := map[string]any{"case": c, "responses": res.Responses, "ended": res.Ended, "predicted": pred}
	r.Class("kind." + kind)
	r.Class("shape." + c.Shape)
	r.Class(fmt.Sprintf("instances.%d", c.Instances))
	r.Class(fmt.Sprintf("cache.%d", c.Cache))
	r.Case(fmt.Sprintf("%s|%s|t%d|c%d|i%d|cache%d|lim%d", kind, c.Shape, len(c.Script.Turns), c.CancelAt, c.Instances, c.Cache, c.Limit))

	if res.Ended == "malformed" {
		last := res.Responses[len(res.Responses)-1]
		r.Violation(sig("malformed-response:"+last.Step[:4]), last.Malformed, wit)
		return
	}

	// ---- every token this call has seen (for the "never sees a token" scan)
	var toks []string
	for _, rp := range res.Responses {
		for _, t := range []string{rp.Cursor, rp.CallToken, rp.Presented} {
			if t != "" {
				toks = append(toks, t)
			}
		}
	}

	// ---- response side
	seenCursors := map[string]string{}
	nTurn := 0
	for ri, rp := range res.Responses {
		var data, errs, logs int
		for _, ob := range rp.Out {
			switch {
			case ob.TokenOnly:
			case ob.Kind == wire.KindError:
				errs++
			case ob.Kind == wire.KindLog:
				logs++
			default:
				data++
			}
		}
		switch {
		case rp.Step == "cancel":
			r.Class("cancel.response")
			if len(rp.Out) != 0 || len(rp.Streams) != 1 {
				r.Violation(sig("cancel:response-not-empty"), fmt.Sprintf("cancel continuation answered with %d batches in %d streams", len(rp.Out), len(rp.Streams)), wit)
			}
			if rp.Cursor != "" {
				r.Violation(sig("cancel:cursor-present"), "cancel continuation answered with a cursor", wit)
			}
			if rp.Status != 200 || rp.RPCError {
				r.Violation(sig("cancel:error-status"), fmt.Sprintf("cancel continuation answered status %d rpc-error=%v", rp.Status, rp.RPCError), wit)
			}
		case ri == 0: // init: not a continuation
		case c.Producer:
			// producer continuations: at most Limit data batches; a cursor iff not finished (model decides below)
		default:
			nTurn++
			if errs > 0 {
				r.Class("turn.failed")
				if rp.Cursor != "" {
					r.Violation(sig("failed-turn:cursor-present"), fmt.Sprintf("%s failed (error batch) but the response carries a cursor", rp.Step), wit)
				}
				if data > 0 {
					r.Violation(sig("failed-turn:data-present"), fmt.Sprintf("%s failed (error batch) but the response carries %d data batches", rp.Step, data), wit)
				}
				break
			}
			r.Class("turn.accepted")
			if data != 1 {
				r.Violation(sig("accepted-turn:data-batches!=1"), fmt.Sprintf("%s accepted but carries %d data batches", rp.Step, data), wit)
			}
			if rp.Cursor == "" {
				r.Violation(sig("accepted-turn:no-cursor"), fmt.Sprintf("%s accepted but carries no cursor", rp.Step), wit)
			}
		}
		if rp.Cursor != "" {
			if rp.Cursor == rp.Presented {
				r.Violation(sig("cursor-not-fresh:equals-presented"), fmt.Sprintf("%s answered with the cursor it was presented", rp.Step), wit)
			} else if prev, dup := seenCursors[rp.Cursor]; dup {
				r.Violation(sig("cursor-not-fresh:repeated"), fmt.Sprintf("%s answered with the cursor already issued by %s", rp.Step, prev), wit)
			}
			seenCursors[rp.Cursor] = rp.Step
			r.Class("cursor.fresh-checked")
		}
	}

	// ---- model: values (each presented cursor continued at turn+1) and invocations
	if bad := svc.Match(pred, res.Header, res.Output, svc.MatchOpt{}); len(bad) > 0 {
		wit["mismatches"] = bad
		r.Violation(sig("model:"+svc.Classify(bad[0])), bad[0], wit)
	}
	got := svc.EventsOf(svc.FromLog(evAll), c.Script.ID)
	want := pred.Events
	{
		if msg := svc.MatchEvents(want, got); msg != "" {
			wit["events"] = got
			cls := "invocations"
			nc := 0
			for _, e := range got {
				if e.Kind == svc.EvCancel {
					nc++
				}
			}
			if res.Ended == "cancelled" {
				switch {
				case !c.Script.NoCancel && nc != 1:
					cls = fmt.Sprintf("cancel:oncancel-ran-%d-times", min(nc, 2))
				case len(got) > 0 && got[len(got)-1].Kind != svc.EvCancel && nc > 0:
					cls = "cancel:state-method-after-cancel"
				}
			}
			r.Violation(sig(cls), msg, wit)
		}
	}
	if res.Ended == "cancelled" {
		r.Class(map[bool]string{true: "cancel.no-hook", false: "cancel.hook-once"}[c.Script.NoCancel])
		if c.CancelVal == "" {
			r.Class("cancel.value-empty")
		} else if c.CancelVal != "true" {
			r.Class("cancel.value-other")
		}
		switch {
		case c.CancelAt == 0:
			r.Class("cancel.turn0")
		case c.CancelAt == 1:
			r.Class("cancel.turn1")
		default:
			r.Class("cancel.turn>=2")
		}
	}

	// ---- handler side
	for ri, rp := range res.Responses {
		if ri == 0 {
			continue // /init is not a continuation
		}
		cancel := rp.Step == "cancel"
		var m turnMeta
		if c.Producer {
			if ri-1 < len(c.Meta) {
				m = c.Meta[ri-1]
			}
		} else {
			var k int
			if cancel {
				k = c.CancelAt
			} else {
				fmt.Sscanf(rp.Step, "turn %d", &k)
			}
			m = c.Meta[k]
		}
		sent := sentPairs(m, rp.Presented, res.call, cancel, c.CancelVal)
		wantMeta := stripped(sent)
		isExt := !c.Producer && !cancel && extURL != "" && rp.Step == fmt.Sprintf("turn %d", c.ExtInput)
		first := true
		for _, e := range w.log.Since(int64(rp.EvLo)) {
			if int(e.Seq) >= rp.EvHi {
				break
			}
			s, ok := e.Payload.(wk.Seen)
			if !ok || e.Key != c.Script.ID {
				continue
			}
			r.Count("handler_events."+e.Kind, 1)
			w2 := map[string]any{"case": c, "step": rp.Step, "sent_metadata": sent, "handler_saw": s}
			// (a) never sees a token or a framework key, anywhere
			for _, where := range []struct {
				name  string
				pairs [][2]string
			}{{"input-metadata", s.InputMeta}, {"input-batch-metadata", s.BatchMeta}, {"input-batch-schema-metadata", s.SchemaMeta}} {
				for _, kv := range where.pairs {
					if isFramework(kv[0]) {
						r.Violation(sig(fmt.Sprintf("handler-sees-framework-key:%s:%s", e.Kind, where.name)),
							fmt.Sprintf("%s: the handler's %s contains the framework key %q", rp.Step, where.name, kv[0]), w2)
					} else if t := tokensIn(kv[1], toks); t != "" && !userSent(sent, kv) {
						r.Violation(sig(fmt.Sprintf("handler-sees-token-value:%s:%s", e.Kind, where.name)),
							fmt.Sprintf("%s: the handler's %s carries a state token under key %q", rp.Step, where.name, kv[0]), w2)
					}
				}
			}
			for k, v := range s.Transport {
				if isFramework(k) || tokensIn(v, toks) != "" || tokensIn(k, toks) != "" {
					r.Violation(sig(fmt.Sprintf("handler-sees-token:%s:transport-metadata", e.Kind)), fmt.Sprintf("%s: TransportMetadata[%q] exposes a token / framework key", rp.Step, k), w2)
				}
			}
			for k, v := range s.Cookies {
				if tokensIn(v, toks) != "" {
					r.Violation(sig(fmt.Sprintf("handler-sees-token:%s:cookies", e.Kind)), fmt.Sprintf("%s: Cookies[%q] exposes a token", rp.Step, k), w2)
				}
			}
			r.Class("handler.scanned." + e.Kind)
			// (b) sees the request's own metadata, order preserved
			switch {
			case e.Kind == wk.EvProbeCancel:
				// the cancel hook's context carries no per-batch metadata on any transport: nothing to demand
			case isExt:
				r.Class("handler.ext-input")
			case e.Kind == wk.EvProbeExchange || (e.Kind == wk.EvProbeProduce && first):
				if !samePairs(s.InputMeta, wantMeta) {
					cls := "user-metadata:differs"
					if len(s.InputMeta) < len(wantMeta) {
						cls = "user-metadata:lost"
					} else if len(s.InputMeta) == len(wantMeta) {
						cls = "user-metadata:reordered-or-changed"
					}
					w2["want_input_metadata"] = wantMeta
					r.Violation(sig(cls+":"+e.Kind), fmt.Sprintf("%s: InputMetadata %q, want %q", rp.Step, s.InputMeta, wantMeta), w2)
				}
				r.Class("handler.user-metadata-checked")
				classifyMeta(r, sent)
			}
			first = false
		}
	}
}

func userSent(sent [][2]string, kv [2]string) bool {
	for _, s := range sent {
		if s == kv && !isFramework(s[0]) {
			return true
		}
	}
	return false
}

func classifyMeta(r *mon.Run, sent [][2]string) {
	nStream, nCall, user := 0, 0, 0
	seen := map[string]bool{}
	for _, kv := range sent {
		switch kv[0] {
		case kStream:
			nStream++
		case kCall:
			nCall++
		case kCancel:
		default:
			user++
			if seen[kv[0]] {
				r.Class("meta.duplicate-user-key")
			}
			seen[kv[0]] = true
			if kv[1] == "" {
				r.Class("meta.empty-value")
			}
			for _, pk := range protoKeys {
				if kv[0] == pk {
					r.Class("meta.protocol-key-as-user-key")
				}
			}
			if strings.HasPrefix(strings.ToLower(kv[0]), "vgi_rpc.stream_state") || strings.HasPrefix(kv[0], "vgi_rpc.call_state") || strings.HasPrefix(kv[0], "vgi_rpc.cance") {
				r.Class("meta.near-framework-key")
			}
		}
	}
	if nStream > 1 || nCall > 1 {
		r.Class("meta.duplicate-framework-key")
	}
	switch {
	case user == 0:
		r.Class("meta.0-user-keys")
	case user >= 5:
		r.Class("meta.>=5-user-keys")
	default:
		r.Class("meta.1-4-user-keys")
	}
}

// result wraps wk.Result with what the placeholder-resolving driver learnt.
type result struct {
	wk.Result
	call string
	mark int
}

// runWithPlaceholders drives the call one request at a time so that the
// "$cursor" / "$call" placeholders in user metadata can be replaced by the
// live tokens: it re-implements nothing, it only feeds wk.RunStream's inputs
// lazily through a resolving router hook.
func runWithPlaceholders(cl *wk.Cluster, route wk.Router, sc wk.StreamCall) result {
	mark := 0
	if l := svc.Sink(); l != nil {
		mark = l.Len()
	}
	sc.Resolve = func(cursor, call string, in wk.In) wk.In {
		in.Meta, in.MetaAfter = subst(in.Meta, cursor, call), subst(in.MetaAfter, cursor, call)
		return in
	}
	res := cl.RunStream(route, sc)
	out := result{Result: res, mark: mark}
	if len(res.Responses) > 0 {
		out.call = res.Responses[0].CallToken
	}
	return out
}

func main() {
	r := mon.Start("C16")
	defer r.Finish()
	r.SetRule("case i = (probe method i mod 5: exchange / exchange+header / dynamic exchange / producer / dynamic producer; shape cycled over complete, failing turn (error, panic, no-emit, double-emit, Finish variants), cancel at turn 0/1/2/3/5 with and without OnCancel, castable input, externalised input; 1..7 scripted turns; per continuation 0..8 user metadata pairs around the framework keys incl. near-collisions, empty values, duplicate user keys and duplicate framework keys; 1..2 instances, call cache 0 / default, producer batch limit 1..3); distinct = kind x shape x #turns x cancel point x instances x cache x limit")
	r.Assume("a duplicate stream_state / call_state key placed BEFORE the client's real one carries the same live token (the server reads the first occurrence); duplicates after it carry arbitrary text")
	r.Assume("the cancel hook's CallContext carries no per-batch metadata on any transport, so for OnCancel only the absence of tokens / framework keys is demanded; likewise for an externalised input only absence is demanded (which batch is 'the request's own' is not fixed by the statement)")
	r.Require("kind.exchange", "kind.dynamic-exchange", "kind.producer", "kind.dynamic-producer",
		"turn.accepted", "turn.failed", "cancel.response", "cancel.turn0", "cancel.turn1", "cancel.turn>=2", "cancel.hook-once", "cancel.no-hook",
		"cursor.fresh-checked", "cancel.value-empty", "cancel.value-other", "handler.scanned."+wk.EvProbeExchange, "handler.scanned."+wk.EvProbeProduce, "handler.scanned."+wk.EvProbeCancel,
		"handler.user-metadata-checked", "handler.ext-input", "meta.duplicate-user-key", "meta.duplicate-framework-key", "meta.near-framework-key", "meta.empty-value",
		"meta.0-user-keys", "meta.1-4-user-keys", "meta.>=5-user-keys", "instances.1", "instances.2", "cache.0", "cache.-1", "cache.1", "meta.protocol-key-as-user-key",
		"shape.fail-error", "shape.fail-panic", "shape.fail-none", "shape.fail-emit2", "shape.finish-variant", "shape.castable", "shape.ext-input")
	slog.SetDefault(slog.New(slog.NewTextHandler(io.Discard, nil)))
	log := mon.NewLog()
	svc.SetSink(log)
	w := &checker{r: r, log: log, store: wk.NewMemStorage(), key: []byte("c16-shared-token-key-0123456789ab"), caches: map[string]*wk.Cluster{}}
	n := r.N(2000, 200000)
	for i := 0; i < n; i++ {
		c := genCase(r, i)
		if i < 2 {
			r.Sample(c)
		}
		w.run(c)
		if i%500 == 499 {
			log.Reset()
			w.store.Reset()
		}
	}
	r.Count("cases", int64(n))
}
