// C24 — credential extractors accept exactly what they are configured to accept.
//
// Arm 1 (bearer): exact string model. A header is accepted iff it is
// "Bearer " + one of the configured tokens byte-for-byte, and then the returned
// *AuthContext is the one configured for that token (pointer identity).
//
// Arm 2 (XFCC): the harness owns the structure and an Envoy-grammar PRINTER
// (xfcc.go); ParseXfcc(print(elements)) must equal elements, and the default
// identity of MtlsAuthenticateXfcc must be the CN the generator put into the
// selected element's subject. Arbitrary noise: no panic, deterministic.
package main

import (
	"encoding/base64"
	"fmt"
	"io"
	"log/slog"
	"math/rand/v2"
	"net/http"
	"reflect"
	"sort"
	"strings"
	"unicode/utf8"

	"github.com/Query-farm/vgi-rpc-go/vgirpc"

	"verif/harness/internal/mon"
)

// ---------------------------------------------------------------------------
// Bearer arm

func genTokenSet(rng *rand.Rand) []string {
	n := 1 + rng.IntN(8)
	seen := map[string]bool{}
	var out []string
	add := func(t string) {
		if !seen[t] {
			seen[t] = true
			out = append(out, t)
		}
	}
	base := randFrom(rng, plainChars+"-._~+/", 1, 24)
	add(base)
	for len(out) < n {
		prev := out[rng.IntN(len(out))]
		switch rng.IntN(14) {
		case 0:
			add("") // the empty token
		case 1:
			if len(prev) > 0 {
				add(prev[:len(prev)-1]) // proper prefix
			}
		case 2:
			add(prev + randFrom(rng, plainChars, 1, 2)) // extension
		case 3:
			add(strings.ToUpper(prev))
		case 4:
			add(strings.ToLower(prev))
		case 5:
			add(prev + " ")
		case 6:
			add(" " + prev)
		case 7:
			add("Bearer " + prev)
		case 8:
			add(prev + unicodeBits[rng.IntN(len(unicodeBits))])
		case 9:
			add(randFrom(rng, plainChars, 1, 6) + " " + randFrom(rng, plainChars, 1, 6))
		case 10:
			if len(prev) > 1 {
				add(prev[1:]) // proper suffix
			}
		case 11:
			add(prev + "\x00")
		case 12:
			b := make([]byte, 1+rng.IntN(6))
			for i := range b {
				b[i] = byte(0x80 + rng.IntN(0x80)) // obs-text, not valid UTF-8
			}
			add(prev + string(b))
		default:
			add(randFrom(rng, plainChars+"-._~+/=", 1, 40))
		}
		if len(out) < n && rng.IntN(40) == 0 {
			break
		}
	}
	return out
}

type hdrCase struct {
	class string
	set   bool // false = no Authorization header at all
	value string
}

func mutateByte(b byte) byte {
	if b >= 'a' && b <= 'z' {
		return b - 32
	}
	if b >= 'A' && b <= 'Z' {
		return b + 32
	}
	return b ^ 1
}

func genHeaders(rng *rand.Rand, toks []string) []hdrCase {
	var hs []hdrCase
	add := func(class, v string) { hs = append(hs, hdrCase{class, true, v}) }
	hs = append(hs, hdrCase{"absent", false, ""})
	add("empty", "")
	add("scheme-only", "Bearer")
	add("scheme-space", "Bearer ")
	for _, t := range toks {
		add("exact", "Bearer "+t)
	}
	// Per-set mutations on a few target tokens.
	for k := 0; k < 3; k++ {
		t := toks[rng.IntN(len(toks))]
		add("scheme-lower", "bearer "+t)
		add("scheme-upper", "BEARER "+t)
		add("scheme-mixed", "BeArEr "+t)
		add("no-space", "Bearer"+t)
		add("double-space", "Bearer  "+t)
		add("tab", "Bearer\t"+t)
		add("leading-space", " Bearer "+t)
		add("trailing-space", "Bearer "+t+" ")
		add("trailing-byte", "Bearer "+t+string(rune('a'+rng.IntN(26))))
		add("trailing-nul", "Bearer "+t+"\x00")
		add("trailing-crlf", "Bearer "+t+"\r\n")
		add("other-scheme", []string{"Basic ", "Token ", "Bearer: ", "Bearer=", "Bearerx "}[rng.IntN(5)]+t)
		add("lookalike-scheme", "Вearer "+t) // Cyrillic Ve
		add("bare-token", t)
		add("comma-list", "Bearer "+t+", Bearer "+t)
		if len(t) > 0 {
			add("truncated", "Bearer "+t[:len(t)-1])
			add("shifted", "Bearer "+t[1:])
			// near-miss at EVERY position: substitution, deletion, insertion
			for i := 0; i < len(t); i++ {
				b := []byte(t)
				b[i] = mutateByte(b[i])
				add("subst", "Bearer "+string(b))
				add("delete", "Bearer "+t[:i]+t[i+1:])
				add("insert", "Bearer "+t[:i]+string(plainChars[rng.IntN(len(plainChars))])+t[i:])
			}
		}
	}
	return hs
}

func runBearer(r *mon.Run, nSets int) {
	for si := 0; si < nSets; si++ {
		rng := r.Rand(1, uint64(si))
		toks := genTokenSet(rng)
		cfg := map[string]*vgirpc.AuthContext{}
		for i, t := range toks {
			cfg[t] = &vgirpc.AuthContext{Domain: "bearer", Authenticated: true, Principal: fmt.Sprintf("p%d", i)}
		}
		auth := vgirpc.BearerAuthenticateStatic(cfg)
		hasEmpty := false
		for _, t := range toks {
			for i := 0; i < len(t); i++ {
				if t[i] >= 0x80 && !utf8.ValidString(t) {
					r.Class("bearer:high-byte-token")
					break
				}
			}
			if t == "" {
				hasEmpty = true
			}
			for _, u := range toks {
				if t != u && strings.HasPrefix(u, t) && t != "" {
					r.Class("bearer:prefix-related-tokens")
				}
			}
		}
		for _, hc := range genHeaders(rng, toks) {
			req := &http.Request{Method: "POST", Header: http.Header{}}
			if hc.set {
				req.Header.Set("Authorization", hc.value)
			}
			// Model.
			var want *vgirpc.AuthContext
			if hc.set && strings.HasPrefix(hc.value, "Bearer ") {
				want = cfg[hc.value[len("Bearer "):]]
			}
			var got *vgirpc.AuthContext
			var err error
			panicked := func() (p any) {
				defer func() { p = recover() }()
				got, err = auth(req)
				return nil
			}()
			witness := map[string]any{"tokens": toks, "header_set": hc.set, "authorization": hc.value, "authorization_b64": base64.StdEncoding.EncodeToString([]byte(hc.value)), "class": hc.class}
			sig := "bearer|" + hc.class
			if want != nil {
				sig += "|accept"
				r.Class("bearer:accept")
				if hc.class != "exact" {
					r.Class("bearer:accept-via-mutation-that-is-another-token")
				}
				if hc.value == "Bearer " && hasEmpty {
					r.Class("bearer:empty-token-accept")
				}
			} else {
				r.Class("bearer:reject")
				r.Class("bearer:reject:" + hc.class)
			}
			r.Case(fmt.Sprintf("%s|%d|%d", sig, len(toks), len(hc.value)))
			if si < 2 && hc.class == "double-space" {
				r.Sample(witness)
			}
			switch {
			case panicked != nil:
				r.Violation("bearer:panic:"+hc.class, fmt.Sprintf("BearerAuthenticateStatic panicked: %v", panicked), witness)
			case want == nil && err == nil:
				r.Violation("bearer:accepts-nonmatching:"+hc.class,
					fmt.Sprintf("header %q accepted (principal %v) although it is not \"Bearer \"+configured token", hc.value, principalOf(got)), witness)
			case want != nil && err != nil:
				r.Violation("bearer:rejects-exact:"+hc.class,
					fmt.Sprintf("header %q is \"Bearer \"+configured token but was rejected: %v", hc.value, err), witness)
			case want != nil && got != want:
				r.Violation("bearer:wrong-identity:"+hc.class,
					fmt.Sprintf("header %q yielded principal %v, configured identity is %v", hc.value, principalOf(got), want.Principal), witness)
			}
		}
	}
}

func principalOf(a *vgirpc.AuthContext) any {
	if a == nil {
		return nil
	}
	return a.Principal
}

// ---------------------------------------------------------------------------
// XFCC arm

func sameElem(want elem, got vgirpc.XfccElement) (field string, ok bool) {
	switch {
	case got.Hash != want.Hash:
		return "hash", false
	case got.Cert != want.Cert:
		return "cert", false
	case got.Subject != want.Subject:
		return "subject", false
	case got.URI != want.URI:
		return "uri", false
	case got.By != want.By:
		return "by", false
	}
	if len(got.DNS) != len(want.DNS) {
		return "dns", false
	}
	for i := range want.DNS {
		if got.DNS[i] != want.DNS[i] {
			return "dns", false
		}
	}
	return "", true
}

func featureList(f map[string]bool) []string {
	var l []string
	for k := range f {
		l = append(l, k)
	}
	sort.Strings(l)
	return l
}

func runXfcc(r *mon.Run, n int) {
	var multiEq, multiNe int64
	for ci := 0; ci < n; ci++ {
		rng := r.Rand(2, uint64(ci))
		ne := 1 + rng.IntN(5)
		if rng.IntN(3) == 0 {
			ne = 1
		}
		elems := make([]elem, ne)
		for i := range elems {
			elems[i] = genElem(rng)
		}
		st := printStyle{AlwaysQuote: rng.IntN(4) == 0, KeyCase: []int{0, 0, 1, 2}[rng.IntN(4)], OWS: rng.IntN(3) == 0,
			FullPct: rng.IntN(2) == 0, Shuffle: rng.IntN(3) == 0, Unknown: rng.IntN(10) == 0}
		feats := map[string]bool{}
		hdr := printHeader(rng, elems, st, feats)
		fl := featureList(feats)
		for _, f := range fl {
			r.Class("xfcc:" + f)
		}
		witness := map[string]any{"elements": elems, "style": st, "header": hdr, "header_b64": base64.StdEncoding.EncodeToString([]byte(hdr))}
		for _, e := range elems {
			if !utf8.ValidString(e.Hash) || !utf8.ValidString(e.Subject) || !utf8.ValidString(strings.Join(e.DNS, "")) {
				r.Class("xfcc:high-byte-value")
			}
		}
		r.Case("xfcc|" + strings.Join(fl, ",") + fmt.Sprintf("|%d", ne))
		if ci%(n/3+1) == 0 {
			r.Sample(witness)
		}

		var got []vgirpc.XfccElement
		if p := func() (p any) {
			defer func() { p = recover() }()
			got = vgirpc.ParseXfcc(hdr)
			return nil
		}(); p != nil {
			r.Violation("xfcc:panic:grammar", fmt.Sprintf("ParseXfcc panicked on a grammatical header: %v", p), witness)
			continue
		}
		okParse := true
		if len(got) != len(elems) {
			okParse = false
			first := "none"
			if len(fl) > 0 {
				first = fl[0]
			}
			r.Violation("xfcc:roundtrip:element-count:"+first,
				fmt.Sprintf("ParseXfcc returned %d elements for a header printed from %d (features %v)", len(got), len(elems), fl), witness)
		} else {
			for i := range elems {
				if field, ok := sameElem(elems[i], got[i]); !ok {
					okParse = false
					first := "none"
					if len(fl) > 0 {
						first = fl[0]
					}
					witness["got"] = got
					r.Violation("xfcc:roundtrip:"+field+":"+first,
						fmt.Sprintf("element %d field %s differs after print->ParseXfcc (features %v): got %+v", i, field, fl, got[i]), witness)
					break
				}
			}
		}
		if !okParse {
			continue
		}

		// Default identity.
		for _, sel := range []string{"", "first", "last"} {
			auth, err := vgirpc.MtlsAuthenticateXfcc(vgirpc.MtlsAuthenticateXfccConfig{SelectElement: sel})
			if err != nil {
				r.Fatal("MtlsAuthenticateXfcc(%q): %v", sel, err)
			}
			chosen := elems[0]
			selName := "first"
			if sel == "last" {
				chosen = elems[len(elems)-1]
				selName = "last"
			}
			req := &http.Request{Method: "POST", Header: http.Header{}}
			req.Header.Set("X-Forwarded-Client-Cert", hdr)
			var ac *vgirpc.AuthContext
			var aerr error
			if p := func() (p any) {
				defer func() { p = recover() }()
				ac, aerr = auth(req)
				return nil
			}(); p != nil {
				r.Violation("xfcc:identity:panic", fmt.Sprintf("MtlsAuthenticateXfcc panicked: %v", p), witness)
				continue
			}
			if aerr != nil || ac == nil {
				r.Violation("xfcc:identity:rejected:"+selName,
					fmt.Sprintf("default XFCC authenticator rejected a grammatical non-empty header: %v", aerr), witness)
				continue
			}
			r.Class("xfcc:identity:" + selName + ":" + chosen.cnClass)
			if ne > 1 && elems[0].cn != elems[ne-1].cn {
				r.Class("xfcc:identity:first-and-last-differ")
			}
			if chosen.cnClass == "multirdn" {
				if ac.Principal == chosen.cn {
					multiEq++
				} else {
					multiNe++
				}
			}
			switch chosen.cnClass {
			case "plain", "absent", "nosubject", "multirdn", "emptycn":
				if ac.Principal != chosen.cn {
					witness["selected"] = selName
					r.Violation("xfcc:identity:"+selName+":"+chosen.cnClass,
						fmt.Sprintf("default identity %q, CN of the %s element's subject %q is %q", ac.Principal, selName, chosen.Subject, chosen.cn), witness)
				}
			default:
				// CN value needing RFC 4514 escapes: only determinism.
				ac2, _ := auth(req)
				if ac2 == nil || ac2.Principal != ac.Principal {
					r.Violation("xfcc:identity:nondeterministic", "same header, different principal", witness)
				}
			}
		}
	}
	r.Set("multi_valued_rdn.principal_equals_cn", multiEq)
	r.Set("multi_valued_rdn.principal_differs", multiNe)
}

func runNoise(r *mon.Run, n int) {
	auth, _ := vgirpc.MtlsAuthenticateXfcc(vgirpc.MtlsAuthenticateXfccConfig{})
	for ci := 0; ci < n; ci++ {
		rng := r.Rand(3, uint64(ci))
		hdr := genNoiseHeader(rng)
		witness := map[string]any{"header": hdr}
		r.Case("")
		var a, b []vgirpc.XfccElement
		if p := func() (p any) {
			defer func() { p = recover() }()
			a = vgirpc.ParseXfcc(hdr)
			b = vgirpc.ParseXfcc(hdr)
			req := &http.Request{Method: "POST", Header: http.Header{}}
			req.Header.Set("X-Forwarded-Client-Cert", hdr)
			_, _ = auth(req)
			return nil
		}(); p != nil {
			r.Violation("xfcc:panic:noise", fmt.Sprintf("panic on arbitrary header: %v", p), witness)
			continue
		}
		if !reflect.DeepEqual(a, b) {
			r.Violation("xfcc:nondeterministic:noise", "ParseXfcc returned different results for the same input", witness)
		}
		r.Class("xfcc:noise")
	}
	// Observed, not asserted: a literal '+' in a URI that the sender did not
	// percent-encode (Envoy does not encode URI at all).
	got := vgirpc.ParseXfcc("URI=spiffe://td/ns/a+b")
	if len(got) == 1 {
		r.Set("observed_not_asserted.uri_literal_plus_parses_as", got[0].URI)
	}
}

func main() {
	slog.SetDefault(slog.New(slog.NewTextHandler(io.Discard, nil)))
	r := mon.Start("C24")
	defer r.Finish()
	r.SetRule("bearer: generated token sets (1..8 tokens: prefix/suffix/extension/case-related, empty, spaces, unicode, NUL, 'Bearer '-prefixed) x headers (absent, empty, exact for every token, scheme case/space/tab variants, trailing bytes, other schemes, substitution+deletion+insertion at EVERY token position); exact string model. xfcc: 1..5 generated elements printed by the harness's Envoy-grammar printer under random styles (quoting, key case, OWS, pair order, unknown keys, full/minimal percent-encoding); expected parse = the structure; identity = generator-known CN. distinct = (class, accept/reject, sizes) resp. (feature set, element count)")
	r.Require("bearer:accept", "bearer:reject", "bearer:empty-token-accept", "bearer:prefix-related-tokens",
		"bearer:reject:scheme-lower", "bearer:reject:no-space", "bearer:reject:subst", "bearer:reject:delete", "bearer:reject:insert", "bearer:reject:trailing-byte",
		"xfcc:quoted-comma", "xfcc:quoted-semicolon", "xfcc:escaped-quote", "xfcc:escaped-backslash", "xfcc:urlencoded",
		"xfcc:multi-element", "xfcc:key-case", "xfcc:ows",
		"xfcc:identity:first:plain", "xfcc:identity:last:plain", "xfcc:identity:first:absent", "xfcc:identity:first:multirdn", "xfcc:identity:last:multirdn", "xfcc:identity:first:emptycn", "xfcc:high-byte-value", "bearer:high-byte-token", "xfcc:identity:first-and-last-differ",
		"xfcc:noise")
	r.Assume("header values are handed to the AuthenticateFunc through http.Header.Set on a constructed *http.Request (the public API); net/http's own header canonicalisation is trusted")
	r.Assume("XFCC grammar as documented in mtls.go: comma-separated elements, semicolon-separated key=value pairs, double-quoted values with backslash escapes, Cert/URI/By percent-encoded; CN values that need RFC 4514 escapes are generated but only determinism is asserted for them; multi-valued RDNs (CN=a+OU=b) are asserted: the CN is a")

	runBearer(r, r.N(1500, 40000))
	runXfcc(r, r.N(60000, 2000000))
	runNoise(r, r.N(20000, 400000))
}
