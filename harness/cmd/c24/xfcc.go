package main

import (
	"fmt"
	"math/rand/v2"
	"strings"
	"unicode"
	"unicode/utf8"
)

// ---------------------------------------------------------------------------
// Reference structure + Envoy-grammar printer.
//
// The harness never parses an XFCC header. It owns the *structure* (elements,
// key/value pairs, the CN it put into the subject) and prints it following
// the header grammar the library documents:
//
//	header  = element *( OWS "," OWS element )
//	element = pair *( OWS ";" OWS pair )
//	pair    = key "=" value            ; key is case-insensitive
//	value   = token / quoted           ; quoted = DQUOTE *( qchar / "\" CHAR ) DQUOTE
//	Cert / URI / By values are URL-encoded (percent-encoding) before quoting.
//
// The expected parse result is the structure itself.

type elem struct {
	Hash    string   `json:"hash,omitempty"`
	Cert    string   `json:"cert,omitempty"`
	Subject string   `json:"subject,omitempty"`
	URI     string   `json:"uri,omitempty"`
	DNS     []string `json:"dns,omitempty"`
	By      string   `json:"by,omitempty"`

	// generator-side knowledge (not part of the parse result)
	cn      string // the CN the generator put into Subject ("" = none)
	cnClass string // "plain" | "absent" | "escaped" | "multirdn" | "emptycn" | "nosubject"
}

type pairOut struct {
	key, val string // val = decoded value
	urlenc   bool
}

type printStyle struct {
	AlwaysQuote bool `json:"always_quote"`
	KeyCase     int  `json:"key_case"` // 0 Envoy (Hash), 1 lower, 2 upper
	OWS         bool `json:"ows"`
	FullPct     bool `json:"full_pct"` // percent-encode everything outside unreserved; else Envoy's minimal set
	Shuffle     bool `json:"shuffle"`
	Unknown     bool `json:"unknown_keys"`
}

const unreserved = "ABCDEFGHIJKLMNOPQRSTUVWXYZabcdefghijklmnopqrstuvwxyz0123456789-._~"

func pctEncode(s string, full bool) string {
	var sb strings.Builder
	for i := 0; i < len(s); i++ {
		c := s[i]
		enc := false
		if full {
			enc = strings.IndexByte(unreserved, c) < 0
		} else {
			// Envoy's urlEncodedPem set plus '%' itself (needed for an
			// unambiguous encoding) and bytes that cannot appear in a header.
			switch c {
			case '\n', '\r', ' ', '+', '/', '=', '%':
				enc = true
			default:
				enc = c < 0x20 || c == 0x7f || c >= 0x80
			}
		}
		if enc {
			fmt.Fprintf(&sb, "%%%02X", c)
		} else {
			sb.WriteByte(c)
		}
	}
	return sb.String()
}

func needsQuote(v string) bool {
	if v == "" {
		return false
	}
	if strings.ContainsAny(v, ",;=\"\\") {
		return true
	}
	first, _ := utf8.DecodeRuneInString(v)
	last, _ := utf8.DecodeLastRuneInString(v)
	return unicode.IsSpace(first) || unicode.IsSpace(last)
}

func quote(v string) string {
	var sb strings.Builder
	sb.WriteByte('"')
	for i := 0; i < len(v); i++ {
		if v[i] == '"' || v[i] == '\\' {
			sb.WriteByte('\\')
		}
		sb.WriteByte(v[i])
	}
	sb.WriteByte('"')
	return sb.String()
}

func keyName(k string, kc int) string {
	switch kc {
	case 1:
		return strings.ToLower(k)
	case 2:
		return strings.ToUpper(k)
	}
	return k
}

func ows(rng *rand.Rand, on bool) string {
	if !on {
		return ""
	}
	switch rng.IntN(4) {
	case 0:
		return " "
	case 1:
		return "\t"
	case 2:
		return "  "
	}
	return ""
}

// printHeader renders the elements. features collects the grammar features
// actually exercised (for observation classes and violation signatures).
func printHeader(rng *rand.Rand, elems []elem, st printStyle, features map[string]bool) string {
	var out strings.Builder
	for ei, e := range elems {
		if ei > 0 {
			out.WriteString(ows(rng, st.OWS) + "," + ows(rng, st.OWS))
		}
		var pairs []pairOut
		if e.By != "" {
			pairs = append(pairs, pairOut{"By", e.By, true})
		}
		if e.Hash != "" {
			pairs = append(pairs, pairOut{"Hash", e.Hash, false})
		}
		if e.Cert != "" {
			pairs = append(pairs, pairOut{"Cert", e.Cert, true})
		}
		if e.Subject != "" {
			pairs = append(pairs, pairOut{"Subject", e.Subject, false})
		}
		if e.URI != "" {
			pairs = append(pairs, pairOut{"URI", e.URI, true})
		}
		for _, d := range e.DNS {
			pairs = append(pairs, pairOut{"DNS", d, false})
		}
		if st.Unknown {
			pairs = append(pairs, pairOut{"Chain", "-----BEGIN CERTIFICATE-----\nAAAA,;\"\n-----END CERTIFICATE-----\n", true})
			features["unknown-key"] = true
		}
		if st.Shuffle {
			// Shuffle, but keep the relative order of the DNS pairs (the
			// order of a repeated key is part of the result).
			perm := rng.Perm(len(pairs))
			sh := make([]pairOut, len(pairs))
			for i, p := range perm {
				sh[p] = pairs[i]
			}
			var dns []pairOut
			for _, p := range pairs {
				if p.key == "DNS" {
					dns = append(dns, p)
				}
			}
			di := 0
			for i := range sh {
				if sh[i].key == "DNS" {
					sh[i] = dns[di]
					di++
				}
			}
			pairs = sh
		}
		for pi, p := range pairs {
			if pi > 0 {
				out.WriteString(ows(rng, st.OWS) + ";" + ows(rng, st.OWS))
			}
			v := p.val
			if p.urlenc {
				v = pctEncode(v, st.FullPct)
				if v != p.val {
					features["urlencoded"] = true
				}
			}
			q := st.AlwaysQuote || needsQuote(v) || (p.key == "Subject" && rng.IntN(2) == 0)
			if q {
				if strings.Contains(v, ",") {
					features["quoted-comma"] = true
				}
				if strings.Contains(v, ";") {
					features["quoted-semicolon"] = true
				}
				if strings.Contains(v, "=") {
					features["quoted-equals"] = true
				}
				if strings.Contains(v, "\"") {
					features["escaped-quote"] = true
				}
				if strings.Contains(v, "\\") {
					features["escaped-backslash"] = true
				}
				v = quote(v)
			}
			out.WriteString(keyName(p.key, st.KeyCase) + "=" + v)
		}
	}
	if st.KeyCase != 0 {
		features["key-case"] = true
	}
	if st.OWS {
		features["ows"] = true
	}
	if len(elems) > 1 {
		features["multi-element"] = true
	}
	return out.String()
}

// ---------------------------------------------------------------------------
// Value generators

const plainChars = "ABCDEFGHIJKLMNOPQRSTUVWXYZabcdefghijklmnopqrstuvwxyz0123456789"

func randFrom(rng *rand.Rand, alphabet string, min, max int) string {
	n := min + rng.IntN(max-min+1)
	var sb strings.Builder
	for i := 0; i < n; i++ {
		sb.WriteByte(alphabet[rng.IntN(len(alphabet))])
	}
	return sb.String()
}

var unicodeBits = []string{"é", "ß", "日本", "Ω", "ñ", "ü"}

// noisy returns printable text that exercises the quoting rules.
func noisy(rng *rand.Rand) string {
	const specials = ",;=\"\\ %+/:'()<>[]{}|!?*&^$#@`~-_."
	n := 1 + rng.IntN(16)
	var sb strings.Builder
	for i := 0; i < n; i++ {
		switch rng.IntN(5) {
		case 0, 1:
			sb.WriteByte(specials[rng.IntN(len(specials))])
		case 2:
			if r := rng.IntN(8); r == 0 {
				// obs-text byte (0x80..0xFF): legal in a header value, usually
				// not valid UTF-8 on its own
				sb.WriteByte(byte(0x80 + rng.IntN(0x80)))
			} else if r < 3 {
				sb.WriteString(unicodeBits[rng.IntN(len(unicodeBits))])
			} else {
				sb.WriteByte(plainChars[rng.IntN(len(plainChars))])
			}
		default:
			sb.WriteByte(plainChars[rng.IntN(len(plainChars))])
		}
	}
	return sb.String()
}

func genHash(rng *rand.Rand) string {
	switch rng.IntN(6) {
	case 0:
		return noisy(rng)
	case 1:
		return randFrom(rng, "0123456789abcdef", 8, 16) + "%41+b" // must NOT be URL-decoded
	}
	return randFrom(rng, "0123456789abcdef", 16, 64)
}

func genCert(rng *rand.Rand) string {
	body := randFrom(rng, plainChars+"+/", 20, 90)
	if rng.IntN(5) == 0 {
		body += "=="
	}
	s := "-----BEGIN CERTIFICATE-----\n" + body + "\n-----END CERTIFICATE-----\n"
	if rng.IntN(6) == 0 {
		s += noisy(rng)
	}
	return s
}

func genURI(rng *rand.Rand) string {
	base := "spiffe://" + randFrom(rng, plainChars+".-", 3, 12) + "/ns/" + randFrom(rng, plainChars, 1, 8) + "/sa/" + randFrom(rng, plainChars+"-_", 1, 10)
	switch rng.IntN(6) {
	case 0:
		return base + "/" + noisy(rng)
	case 1:
		return "https://h.example/p?a=1&b=" + noisy(rng)
	case 2:
		// arbitrary bytes (only reachable through percent-encoding)
		b := make([]byte, 1+rng.IntN(6))
		for i := range b {
			b[i] = byte(rng.IntN(256))
		}
		return base + "/" + string(b)
	}
	return base
}

func genDNS(rng *rand.Rand) string {
	if rng.IntN(8) == 0 {
		return noisy(rng)
	}
	return randFrom(rng, "abcdefghijklmnopqrstuvwxyz0123456789-", 1, 12) + "." + randFrom(rng, "abcdefghijklmnopqrstuvwxyz", 2, 6)
}

// attribute value without any character that RFC 4514 requires escaping
// (, + " \ < > ; leading space/# trailing space) — and without '='.
func dnPlainValue(rng *rand.Rand) string {
	const mid = plainChars + " .-_:/@'()"
	v := randFrom(rng, plainChars, 1, 1) + randFrom(rng, mid, 0, 14)
	if v[len(v)-1] == ' ' {
		v += "x"
	}
	if rng.IntN(8) == 0 {
		v += unicodeBits[rng.IntN(len(unicodeBits))]
	}
	return v
}

// genSubject builds a DN and remembers the CN it contains.
func genSubject(rng *rand.Rand, e *elem) {
	others := []string{"O", "OU", "C", "L", "ST", "DC", "UID", "emailAddress", "serialNumber", "OCN", "CNx", "XCN"}
	nOther := rng.IntN(4)
	var rdns []string
	for i := 0; i < nOther; i++ {
		k := others[rng.IntN(len(others))]
		v := dnPlainValue(rng)
		switch rng.IntN(8) {
		case 0:
			// RFC 4514-escaped comma inside a NON-CN value followed by
			// text that looks like a CN attribute: must not split there.
			v = v + "\\,CN=decoy" + randFrom(rng, plainChars, 1, 4)
		case 1:
			// escaped plus followed by CN-looking text: one value, not a
			// second attribute of a multi-valued RDN
			v = v + "\\+CN=decoy" + randFrom(rng, plainChars, 1, 4)
		case 2:
			v = "cn=" + v // '=' inside a value is legal unescaped
		}
		rdns = append(rdns, k+"="+v)
	}
	cls := rng.IntN(20)
	e.cnClass = "plain"
	cnKey := "CN"
	switch rng.IntN(5) {
	case 0:
		cnKey = "cn"
	case 1:
		cnKey = "Cn"
	}
	switch {
	case cls < 3:
		e.cnClass = "absent"
		if len(rdns) == 0 {
			rdns = append(rdns, "O="+dnPlainValue(rng))
		}
	case cls < 5:
		// CN value needing RFC 4514 escapes: not asserted (statement is
		// silent on whether the CN comes back escaped).
		e.cnClass = "escaped"
		e.cn = dnPlainValue(rng) + []string{"\\,", "\\+", "\\\"", "\\\\", "\\3D"}[rng.IntN(5)] + randFrom(rng, plainChars, 1, 5)
	case cls == 19:
		// CN attribute present with an empty value: the CN is "".
		e.cnClass = "emptycn"
	case cls < 6:
		// multi-valued RDN (CN=x+OU=y / OU=y+CN=x): the CN is x.
		e.cnClass = "multirdn"
		e.cn = dnPlainValue(rng)
	default:
		e.cn = dnPlainValue(rng)
	}
	if e.cnClass != "absent" {
		cnRDN := cnKey + "=" + e.cn
		if e.cnClass == "multirdn" {
			// RFC 4514 multi-valued RDN: attribute=value pairs joined by an
			// unescaped '+'; the CN is one of them, in either position.
			if rng.IntN(2) == 0 {
				cnRDN += "+OU=" + randFrom(rng, plainChars, 1, 6)
			} else {
				cnRDN = "OU=" + randFrom(rng, plainChars, 1, 6) + "+" + cnRDN
			}
		}
		pos := rng.IntN(len(rdns) + 1)
		switch rng.IntN(3) {
		case 0:
			pos = 0
		case 1:
			pos = len(rdns)
		}
		rdns = append(rdns[:pos], append([]string{cnRDN}, rdns[pos:]...)...)
	}
	sep := ","
	if rng.IntN(4) == 0 {
		sep = ", "
	}
	e.Subject = strings.Join(rdns, sep)
}

func genElem(rng *rand.Rand) elem {
	var e elem
	e.cnClass = "nosubject"
	if rng.IntN(10) != 0 {
		e.Hash = genHash(rng)
	}
	if rng.IntN(4) == 0 {
		e.Cert = genCert(rng)
	}
	if rng.IntN(8) != 0 {
		genSubject(rng, &e)
	}
	if rng.IntN(3) != 0 {
		e.URI = genURI(rng)
	}
	if rng.IntN(2) == 0 {
		for i, n := 0, 1+rng.IntN(3); i < n; i++ {
			e.DNS = append(e.DNS, genDNS(rng))
		}
	}
	if rng.IntN(3) == 0 {
		e.By = genURI(rng)
	}
	if e.Hash == "" && e.Cert == "" && e.Subject == "" && e.URI == "" && len(e.DNS) == 0 && e.By == "" {
		e.Hash = genHash(rng) // an element has at least one pair
	}
	return e
}

// arbitrary printable noise for the no-panic / determinism arm.
func genNoiseHeader(rng *rand.Rand) string {
	const alpha = "abcHSUDBhsudb=;,\"\\ %+\tCNcn0129-_./:"
	n := rng.IntN(60)
	var sb strings.Builder
	for i := 0; i < n; i++ {
		if rng.IntN(12) == 0 {
			sb.WriteString([]string{"Hash=", "Subject=\"", "URI=", "By=", "Cert=", "DNS=", "%zz", "%2", "CN="}[rng.IntN(9)])
			continue
		}
		if rng.IntN(30) == 0 {
			sb.WriteByte(byte(rng.IntN(256)))
			continue
		}
		sb.WriteByte(alpha[rng.IntN(len(alpha))])
	}
	return sb.String()
}
