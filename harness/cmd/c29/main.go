// C29 — sticky sessions are isolated per caller and serialized per session.
//
// Real goroutines drive real HttpServer instances (in-process ServeHTTP, -race
// build) with open / resume / handler-side close / DELETE / short-TTL expiry /
// drain / shutdown / panicking handlers / stream turns bearing the session.
// Observations come from (a) instrumented user code — handlers log enter/exit
// while they hold the session, the session state's Close() logs itself and the
// library path that invoked it — and (b) call/return records at the HTTP
// client boundary. Oracles (all independent of the registry's own bookkeeping):
//
//   - no two handler intervals on one session overlap;
//   - no handler ENTERS on a session after that session's Close() ran because
//     of an explicit close (CloseSession / DELETE); Close() racing a handler on
//     TTL expiry or shutdown is allowed by the statement and is not flagged;
//   - a DELETE's Close() never runs while a handler is inside the session;
//   - Close() runs at most once per state, exactly once for every session that
//     ended, zero times for a session that is still live;
//   - OpenSession never succeeds strictly inside a draining window;
//   - at quiescence no registered session is locked, and a follow-up call on
//     every live session completes;
//   - per-session porcupine check of the client-boundary history against the
//     sequential model absent -> open(owner) -> closed.
package main

import (
	"bytes"
	"context"
	"fmt"
	"math/rand/v2"
	"net/http"
	"net/http/httptest"
	"runtime"
	"sort"
	"strconv"
	"strings"
	"sync"
	"sync/atomic"
	"time"

	"github.com/Query-farm/vgi-rpc-go/vgirpc"
	"github.com/anishathalye/porcupine"
	"github.com/apache/arrow-go/v18/arrow"
	"github.com/apache/arrow-go/v18/arrow/array"
	"github.com/apache/arrow-go/v18/arrow/memory"

	"verif/harness/internal/mon"
	"verif/harness/internal/wj"
)

// ---------------------------------------------------------------------------
// Instrumented user code

type world struct {
	log     *mon.Log
	workers []*worker
	uidSeq  atomic.Int64
	states  sync.Map // uid -> *sessState
}

type worker struct {
	id    string
	srv   *vgirpc.Server
	h     *vgirpc.HttpServer
	drain *vgirpc.DrainHandle
}

type sessState struct {
	w       *world
	uid     int64
	closeUs int64
}

func closeCause() string {
	pcs := make([]uintptr, 48)
	n := runtime.Callers(2, pcs)
	frames := runtime.CallersFrames(pcs[:n])
	for {
		f, more := frames.Next()
		switch {
		case strings.HasSuffix(f.Function, ".handleStickyDelete"):
			return "delete"
		case strings.HasSuffix(f.Function, ".CloseSession"):
			return "handler"
		case strings.HasSuffix(f.Function, ".drainExpired"), strings.HasSuffix(f.Function, "sessionRegistry).get"):
			return "expiry"
		case strings.HasSuffix(f.Function, "sessionRegistry).shutdown"):
			return "shutdown"
		case strings.HasSuffix(f.Function, ".OpenSession"):
			return "rollback"
		}
		if !more {
			break
		}
	}
	return "other"
}

// Close is what the registry calls when the session ends.
func (s *sessState) Close() error {
	s.w.log.Add("state", "close", strconv.FormatInt(s.uid, 10), closeCause())
	if s.closeUs > 0 {
		time.Sleep(time.Duration(s.closeUs) * time.Microsecond)
	}
	return nil
}

type openParams struct {
	TTLMs   int64 `vgirpc:"ttl_ms"`
	Mode    int64 `vgirpc:"mode"`
	CloseUs int64 `vgirpc:"close_us"`
}

type useParams struct {
	SleepUs int64 `vgirpc:"sleep_us"`
	Mode    int64 `vgirpc:"mode"`
}

type streamParams struct {
	SleepUs int64 `vgirpc:"sleep_us"`
	Count   int64 `vgirpc:"count"`
}

const (
	openNormal = iota
	openPanic
	openThenClose
	openThenError
)

const (
	useNormal = iota
	useClose
	usePanic
	useCloseThenPanic
)

var outSchema = arrow.NewSchema([]arrow.Field{{Name: "uid", Type: arrow.PrimitiveTypes.Int64}}, nil)
var inSchema = arrow.NewSchema([]arrow.Field{{Name: "by", Type: arrow.PrimitiveTypes.Int64}}, nil)

// inSession is the body every session-bound handler runs while it holds the
// session: log enter, sleep (the seam that parks competitors), log exit.
func inSession(callCtx *vgirpc.CallContext, kind string, sleepUs int64, body func(st *sessState)) (int64, error) {
	st, ok := callCtx.Session().(*sessState)
	if !ok || st == nil {
		return -1, &vgirpc.RpcError{Type: "RuntimeError", Message: "no-session-bound"}
	}
	key := strconv.FormatInt(st.uid, 10)
	st.w.log.Add("handler", "enter", key, kind)
	defer st.w.log.Add("handler", "exit", key, kind)
	if sleepUs > 0 {
		time.Sleep(time.Duration(sleepUs) * time.Microsecond)
	} else {
		runtime.Gosched()
	}
	if body != nil {
		body(st)
	}
	return st.uid, nil
}

type prodState struct {
	SleepUs int64
	Count   int64
	Current int64
}

func emitUID(out *vgirpc.OutputCollector, uid int64) error {
	b := array.NewInt64Builder(memory.NewGoAllocator())
	b.Append(uid)
	arr := b.NewArray()
	b.Release()
	defer arr.Release()
	return out.EmitArrays([]arrow.Array{arr}, 1)
}

func (s *prodState) Produce(_ context.Context, out *vgirpc.OutputCollector, callCtx *vgirpc.CallContext) error {
	if s.Current >= s.Count {
		return out.Finish()
	}
	uid, err := inSession(callCtx, "produce", s.SleepUs, nil)
	if err != nil {
		return err
	}
	s.Current++
	return emitUID(out, uid)
}

type exchState struct {
	SleepUs int64
}

func (s *exchState) Exchange(_ context.Context, _ arrow.RecordBatch, out *vgirpc.OutputCollector, callCtx *vgirpc.CallContext) error {
	uid, err := inSession(callCtx, "exchange", s.SleepUs, nil)
	if err != nil {
		return err
	}
	return emitUID(out, uid)
}

func (w *world) register(wk *worker) {
	s := wk.srv
	vgirpc.Unary(s, "open", func(_ context.Context, ctx *vgirpc.CallContext, p openParams) (int64, error) {
		uid := w.uidSeq.Add(1)
		st := &sessState{w: w, uid: uid, closeUs: p.CloseUs}
		w.states.Store(uid, st)
		key := strconv.FormatInt(uid, 10)
		tBefore := w.log.Now()
		w.log.Add("handler", "open_attempt", key, map[string]any{"worker": wk.id, "req": ctx.RequestID})
		err := ctx.OpenSession(st, time.Duration(p.TTLMs)*time.Millisecond)
		tAfter := w.log.Now()
		res := "ok"
		if err != nil {
			res = fmt.Sprintf("%T", err)
		}
		w.log.Add("handler", "open_result", key, map[string]any{"worker": wk.id, "req": ctx.RequestID, "res": res,
			"t_before": tBefore, "t_after": tAfter, "sid": ctx.SessionID()})
		if err != nil {
			return 0, err
		}
		switch p.Mode {
		case openPanic:
			panic("scripted panic after OpenSession")
		case openThenClose:
			ctx.CloseSession()
		case openThenError:
			return 0, &vgirpc.RpcError{Type: "ValueError", Message: "scripted error after OpenSession"}
		}
		return uid, nil
	})
	vgirpc.Unary(s, "use", func(_ context.Context, ctx *vgirpc.CallContext, p useParams) (int64, error) {
		return inSession(ctx, "use", p.SleepUs, func(st *sessState) {
			switch p.Mode {
			case useClose:
				ctx.CloseSession()
			case usePanic:
				panic("scripted panic inside session")
			case useCloseThenPanic:
				ctx.CloseSession()
				panic("scripted panic after CloseSession")
			}
		})
	})
	vgirpc.Producer(s, "pstream", outSchema, func(_ context.Context, _ *vgirpc.CallContext, p streamParams) (*vgirpc.StreamResult, error) {
		return &vgirpc.StreamResult{OutputSchema: outSchema, State: &prodState{SleepUs: p.SleepUs, Count: p.Count}}, nil
	})
	vgirpc.Exchange(s, "xstream", outSchema, inSchema, func(_ context.Context, _ *vgirpc.CallContext, p streamParams) (*vgirpc.StreamResult, error) {
		return &vgirpc.StreamResult{OutputSchema: outSchema, InputSchema: inSchema, State: &exchState{SleepUs: p.SleepUs}}, nil
	})
}

// ---------------------------------------------------------------------------
// Identities

type ident struct {
	Name      string `json:"name"` // "" = anonymous
	Domain    string `json:"domain"`
	Principal string `json:"principal"`
}

var identities = []ident{
	{Name: "anon"},
	{Name: "hdr/u1", Domain: "hdr", Principal: "u1"},
	{Name: "hdr/u2", Domain: "hdr", Principal: "u2"},
	{Name: "alt/u1", Domain: "alt", Principal: "u1"}, // same principal, other domain
}

func authenticator(r *http.Request) (*vgirpc.AuthContext, error) {
	v := r.Header.Get("X-Ident")
	if v == "" || v == "anon" {
		return vgirpc.Anonymous(), nil
	}
	d, p, _ := strings.Cut(v, "/")
	return &vgirpc.AuthContext{Domain: d, Principal: p, Authenticated: true}, nil
}

// ---------------------------------------------------------------------------
// Client side

type session struct {
	Idx      int    `json:"idx"`
	UID      int64  `json:"uid"`
	Token    string `json:"-"`
	Owner    int    `json:"owner_ident"`
	Worker   int    `json:"owner_worker"`
	TTLMs    int64  `json:"ttl_ms"` // 0 = default (long)
	OpenMode int    `json:"open_mode"`
	ExpLow   int64  `json:"exp_low_ns"`  // earliest instant the session can be expired
	ExpHigh  int64  `json:"exp_high_ns"` // latest instant the session can still be unexpired
}

type opRec struct {
	Client   int    `json:"client"`
	Kind     string `json:"kind"` // resume | closecall | delete | shutdown | open | drain | cleardrain
	Sess     int    `json:"sess"`
	Ident    int    `json:"ident"`
	Worker   int    `json:"worker"`
	Tamper   bool   `json:"tamper,omitempty"`
	Route    string `json:"route,omitempty"`
	Call     int64  `json:"call_ns"`
	Ret      int64  `json:"ret_ns"`
	Resolved bool   `json:"resolved"`
	Outcome  string `json:"outcome"`
}

type scriptOp struct {
	Kind    string `json:"kind"` // use | close | delete | open | drain | cleardrain | shutdown | pstream | xstream | wrongident | wrongworker | tamper | wait
	Sess    int    `json:"sess"`
	SleepUs int64  `json:"sleep_us"`
	Mode    int64  `json:"mode"`
	TTLMs   int64  `json:"ttl_ms"`
	Ident   int    `json:"ident"`
	Worker  int    `json:"worker"`
	WaitUs  int64  `json:"wait_us"`
}

type history struct {
	w        *world
	r        *mon.Run
	idx      int
	mu       sync.Mutex
	sessions []*session
	ops      []opRec
	reqSeq   atomic.Int64
	pending  atomic.Int64
	fatal    atomic.Value // string
}

type httpResult struct {
	code    int
	hdr     http.Header
	resp    wj.Resp
	call    int64
	ret     int64
	panicV  any
	reqID   string
	rawBody []byte
}

func (hs *history) do(worker int, method, path string, id int, token string, accept bool, body []byte, reqID string) httpResult {
	wk := hs.w.workers[worker]
	req := httptest.NewRequest(method, path, bytes.NewReader(body))
	if method == http.MethodPost {
		req.Header.Set("Content-Type", wj.ArrowCT)
	}
	req.Header.Set("X-Ident", identities[id].Name)
	if token != "" {
		req.Header.Set("VGI-Session", token)
	}
	if accept {
		req.Header.Set("VGI-Session-Accept", "true")
	}
	rec := httptest.NewRecorder()
	res := httpResult{reqID: reqID}
	hs.pending.Add(1)
	res.call = hs.w.log.Now()
	func() {
		defer func() {
			if rv := recover(); rv != nil {
				res.panicV = rv
			}
		}()
		wk.h.ServeHTTP(rec, req)
	}()
	res.ret = hs.w.log.Now()
	hs.pending.Add(-1)
	res.code = rec.Code
	res.hdr = rec.Header()
	res.rawBody = rec.Body.Bytes()
	if method == http.MethodPost && rec.Header().Get("Content-Type") == wj.ArrowCT {
		res.resp = wj.ReadResponse(res.rawBody)
	}
	if res.panicV != nil {
		hs.fatal.Store(fmt.Sprintf("panic escaped ServeHTTP on %s %s: %v", method, path, res.panicV))
	}
	return res
}

func (hs *history) newReqID() string {
	return fmt.Sprintf("h%d-r%d", hs.idx, hs.reqSeq.Add(1))
}

// classify maps a session-bearing RPC response onto resolved / lost / other.
func classify(res httpResult) (resolved bool, outcome string) {
	if res.panicV != nil {
		return false, "serve-panic"
	}
	if res.code != 200 {
		return false, fmt.Sprintf("http-%d", res.code)
	}
	if res.resp.Err != "" {
		return false, "undecodable:" + res.resp.Err
	}
	if eb := res.resp.FirstError(); eb != nil {
		if eb.Meta["vgi_rpc.error_kind"] == "session_lost" {
			return false, "session_lost"
		}
		msg := eb.Meta["vgi_rpc.log_message"]
		if strings.Contains(msg, "scripted panic") {
			return true, "resolved-panicked"
		}
		if strings.Contains(msg, "no-session-bound") {
			return false, "no-session-bound"
		}
		return false, "error:" + eb.ErrTyp + ":" + msg
	}
	if v := res.resp.DataInt64(); len(v) >= 1 {
		return true, "ok:" + strconv.FormatInt(v[0], 10)
	}
	return false, "no-data"
}

func (hs *history) record(op opRec) {
	hs.mu.Lock()
	hs.ops = append(hs.ops, op)
	hs.mu.Unlock()
}

func (hs *history) sess(i int) *session {
	hs.mu.Lock()
	defer hs.mu.Unlock()
	if i < 0 || i >= len(hs.sessions) {
		return nil
	}
	return hs.sessions[i]
}

// open issues an open call; returns the new session or nil when refused.
func (hs *history) open(client, worker, id int, ttlMs int64, mode int64, closeUs int64) *session {
	reqID := hs.newReqID()
	body := wj.BuildRequest("open", reqID, []wj.P{{Name: "ttl_ms", V: ttlMs}, {Name: "mode", V: mode}, {Name: "close_us", V: closeUs}})
	res := hs.do(worker, http.MethodPost, "/open", id, "", true, body, reqID)
	tok := res.hdr.Get("VGI-Session")
	op := opRec{Client: client, Kind: "open", Sess: -1, Ident: id, Worker: worker, Call: res.call, Ret: res.ret}
	// Find what the handler saw for this request.
	var uid int64 = -1
	var hres string
	var tBefore, tAfter int64
	for _, e := range hs.w.log.Snapshot() {
		if e.Kind != "open_result" {
			continue
		}
		m := e.Payload.(map[string]any)
		if m["req"] == reqID {
			uid, _ = strconv.ParseInt(e.Key, 10, 64)
			hres = m["res"].(string)
			tBefore, tAfter = m["t_before"].(int64), m["t_after"].(int64)
		}
	}
	switch {
	case res.panicV != nil:
		op.Outcome = "serve-panic"
	case uid < 0:
		op.Outcome = fmt.Sprintf("handler-not-reached:http-%d", res.code)
		hs.fatal.Store("open handler not reached: " + string(res.rawBody))
	case hres != "ok":
		op.Outcome = "refused:" + hres + ":" + res.resp.ErrorKind()
		if tok != "" {
			op.Outcome += ":token-emitted"
		}
	default:
		op.Outcome = "opened"
		op.Resolved = true
	}
	if hres == "ok" && tok == "" {
		// The statement does not speak about header delivery; without the
		// token the session cannot be exercised further.
		op.Outcome += ":no-token"
	}
	var s *session
	if hres == "ok" && tok != "" {
		hs.mu.Lock()
		s = &session{Idx: len(hs.sessions), UID: uid, Token: tok, Owner: id, Worker: worker, TTLMs: ttlMs, OpenMode: int(mode)}
		if ttlMs > 0 {
			s.ExpLow = tBefore + ttlMs*int64(time.Millisecond)
			s.ExpHigh = tAfter + ttlMs*int64(time.Millisecond)
		}
		hs.sessions = append(hs.sessions, s)
		op.Sess = s.Idx
		hs.mu.Unlock()
	}
	hs.record(op)
	return s
}

func tamper(tok string, rng *rand.Rand) string {
	if len(tok) < 4 {
		return tok + "A"
	}
	b := []byte(tok)
	i := rng.IntN(len(b))
	c := b[i]
	for b[i] == c {
		b[i] = "ABCDEFGHIJKLMNOPQRSTUVWXYZabcdefghijklmnopqrstuvwxyz0123456789-_"[rng.IntN(64)]
	}
	return string(b)
}

// use issues one unary call bearing the session.
func (hs *history) use(client int, s *session, worker, id int, sleepUs, mode int64, token string, tampered bool) opRec {
	reqID := hs.newReqID()
	body := wj.BuildRequest("use", reqID, []wj.P{{Name: "sleep_us", V: sleepUs}, {Name: "mode", V: mode}})
	res := hs.do(worker, http.MethodPost, "/use", id, token, false, body, reqID)
	kind := "resume"
	if mode == useClose || mode == useCloseThenPanic {
		kind = "closecall"
	}
	op := opRec{Client: client, Kind: kind, Sess: s.Idx, Ident: id, Worker: worker, Tamper: tampered, Route: "unary", Call: res.call, Ret: res.ret}
	op.Resolved, op.Outcome = classify(res)
	hs.record(op)
	return op
}

func (hs *history) del(client int, s *session, worker, id int) {
	res := hs.do(worker, http.MethodDelete, "/__session__", id, s.Token, false, nil, "")
	op := opRec{Client: client, Kind: "delete", Sess: s.Idx, Ident: id, Worker: worker, Route: "delete", Call: res.call, Ret: res.ret}
	op.Resolved = res.code == http.StatusNoContent
	op.Outcome = fmt.Sprintf("http-%d", res.code)
	hs.record(op)
}

// stream runs init + up to two further turns, every request bearing the session.
func (hs *history) stream(client int, s *session, producer bool, sleepUs int64) {
	method, route := "xstream", "exchange"
	if producer {
		method, route = "pstream", "producer"
	}
	reqID := hs.newReqID()
	body := wj.BuildRequest(method, reqID, []wj.P{{Name: "sleep_us", V: sleepUs}, {Name: "count", V: int64(3)}})
	res := hs.do(s.Worker, http.MethodPost, "/"+method+"/init", s.Owner, s.Token, false, body, reqID)
	op := opRec{Client: client, Kind: "resume", Sess: s.Idx, Ident: s.Owner, Worker: s.Worker, Route: route + "-init", Call: res.call, Ret: res.ret}
	if producer {
		op.Resolved, op.Outcome = classify(res)
	} else {
		// Exchange init does not run session-bound user code; it resolves the
		// token (or answers session_lost) and returns a state token.
		if res.resp.ErrorKind() == "session_lost" {
			op.Outcome = "session_lost"
		} else if _, _, ok := res.resp.Token(); ok {
			op.Resolved, op.Outcome = true, "ok:token"
		} else {
			_, op.Outcome = classify(res)
		}
	}
	hs.record(op)
	state, call, ok := res.resp.Token()
	for turn := 0; turn < 2 && ok; turn++ {
		keys := []string{"vgi_rpc.stream_state#b64", "vgi_rpc.request_id"}
		vals := []string{state, hs.newReqID()}
		if call != "" {
			keys = append(keys, "vgi_rpc.call_state#b64")
			vals = append(vals, call)
		}
		var params []wj.P
		if !producer {
			params = []wj.P{{Name: "by", V: int64(1)}}
		}
		b := wj.BuildBatchStream(params, keys, vals)
		res = hs.do(s.Worker, http.MethodPost, "/"+method+"/exchange", s.Owner, s.Token, false, b, "")
		op := opRec{Client: client, Kind: "resume", Sess: s.Idx, Ident: s.Owner, Worker: s.Worker, Route: route + "-turn", Call: res.call, Ret: res.ret}
		op.Resolved, op.Outcome = classify(res)
		hs.record(op)
		var c2 string
		state, c2, ok = res.resp.Token()
		if c2 != "" {
			call = c2
		}
	}
}

// ---------------------------------------------------------------------------
// One history

type histSpec struct {
	Seed      int64        `json:"seed"`
	Index     int          `json:"index"`
	Workers   int          `json:"workers"`
	Idents    int          `json:"idents"`
	PreOpen   []scriptOp   `json:"pre_open"`
	Scripts   [][]scriptOp `json:"scripts"`
	ShortTTL  bool         `json:"short_ttl"`
	Shutdown  bool         `json:"shutdown"`
	ReaperMs  int64        `json:"reaper_ms"`
	TotalOps  int          `json:"total_ops"`
	StratName string       `json:"stratum"`
	Expiry    []expirySpec `json:"expiry_race,omitempty"`
}

var strata = []string{"close-race", "delete-race", "mixed", "ttl", "drain", "shutdown", "streams", "isolation", "expiry-race"}

// expirySpec is one session of the expiry-race stratum: opened with a short
// TTL, left alone until just past its expiry (so it is expired but, with a long
// reaper tick, not yet reaped; with a short tick the lookups race the sweep),
// then hit by N lookups released together from a spin barrier.
type expirySpec struct {
	TTLMs   int64 `json:"ttl_ms"`
	N       int   `json:"lookups"`
	Mix     int   `json:"mix"` // 0 resume calls, 1 DELETEs, 2 mixed
	ExtraUs int64 `json:"extra_wait_us"`
	CloseUs int64 `json:"close_us"`
	Ident   int   `json:"ident"`
}

func genSpec(rng *rand.Rand, seed int64, idx int) histSpec {
	sp := histSpec{Seed: seed, Index: idx, ReaperMs: 2 + rng.Int64N(6)}
	sp.StratName = strata[idx%len(strata)]
	sp.Workers = 1 + rng.IntN(2)
	sp.Idents = 1 + rng.IntN(3)
	if sp.StratName == "isolation" {
		sp.Workers, sp.Idents = 2, 3
	}
	nSess := 1 + rng.IntN(4)
	nG := 2 + rng.IntN(7)
	if rng.IntN(5) == 0 {
		nG = 8 + rng.IntN(25)
	}
	if sp.StratName == "close-race" || sp.StratName == "delete-race" {
		nSess = 1 + rng.IntN(2)
	}
	sp.ShortTTL = sp.StratName == "ttl"
	sp.Shutdown = sp.StratName == "shutdown"
	for i := 0; i < nSess; i++ {
		o := scriptOp{Kind: "open", Ident: rng.IntN(sp.Idents), Worker: rng.IntN(sp.Workers), Mode: openNormal}
		switch rng.IntN(8) {
		case 0:
			o.Mode = openPanic
		case 1:
			o.Mode = openThenError
		}
		if sp.ShortTTL && (i == 0 || rng.IntN(2) == 0) {
			o.TTLMs = 30 + rng.Int64N(90)
		}
		if rng.IntN(3) == 0 {
			o.SleepUs = rng.Int64N(1500) // Close() delay of the state
		}
		sp.PreOpen = append(sp.PreOpen, o)
	}
	budget := 60 - nSess
	perG := budget / nG
	if perG < 1 {
		perG = 1
	}
	if perG > 6 {
		perG = 1 + rng.IntN(6)
	}
	sleep := func() int64 {
		switch rng.IntN(4) {
		case 0:
			return 0
		case 1:
			return rng.Int64N(200)
		default:
			return rng.Int64N(2000)
		}
	}
	for g := 0; g < nG; g++ {
		var sc []scriptOp
		for k := 0; k < perG && sp.TotalOps < budget; k++ {
			op := scriptOp{Sess: rng.IntN(nSess), SleepUs: sleep()}
			x := rng.IntN(100)
			switch sp.StratName {
			case "close-race":
				switch {
				case x < 30:
					op.Kind, op.Mode = "close", useClose
					if rng.IntN(6) == 0 {
						op.Mode = useCloseThenPanic
					}
				case x < 90:
					op.Kind = "use"
				default:
					op.Kind = "delete"
				}
			case "delete-race":
				switch {
				case x < 30:
					op.Kind = "delete"
				case x < 90:
					op.Kind = "use"
				default:
					op.Kind, op.Mode = "close", useClose
				}
			case "ttl":
				switch {
				case x < 55:
					op.Kind = "use"
				case x < 80:
					op.Kind, op.WaitUs = "wait", 5000+rng.Int64N(60000)
				case x < 90:
					op.Kind, op.TTLMs = "open", 20+rng.Int64N(60)
				case x < 95:
					op.Kind = "delete"
				default:
					op.Kind, op.Mode = "close", useClose
				}
			case "drain":
				switch {
				case x < 25:
					op.Kind = "drain"
				case x < 45:
					op.Kind = "cleardrain"
				case x < 80:
					op.Kind = "open"
					if rng.IntN(6) == 0 {
						op.Mode = openThenClose
					}
				default:
					op.Kind = "use"
				}
			case "shutdown":
				switch {
				case x < 50:
					op.Kind = "use"
				case x < 65:
					op.Kind, op.Mode = "close", useClose
				case x < 80:
					op.Kind = "delete"
				case x < 90:
					op.Kind = "open"
				default:
					op.Kind = "shutdown"
				}
			case "streams":
				switch {
				case x < 30:
					op.Kind = "pstream"
				case x < 60:
					op.Kind = "xstream"
				case x < 85:
					op.Kind = "use"
				case x < 93:
					op.Kind, op.Mode = "close", useClose
				default:
					op.Kind = "delete"
				}
			case "isolation":
				switch {
				case x < 25:
					op.Kind = "wrongident"
				case x < 45:
					op.Kind = "wrongworker"
				case x < 60:
					op.Kind = "tamper"
				case x < 70:
					op.Kind = "wrongdelete"
				case x < 95:
					op.Kind = "use"
				default:
					op.Kind, op.Mode = "close", useClose
				}
			default: // mixed
				switch {
				case x < 40:
					op.Kind = "use"
					if rng.IntN(8) == 0 {
						op.Mode = usePanic
					}
				case x < 52:
					op.Kind, op.Mode = "close", useClose
				case x < 62:
					op.Kind = "delete"
				case x < 72:
					op.Kind = "open"
					op.Mode = int64(rng.IntN(4))
				case x < 78:
					op.Kind = "pstream"
				case x < 84:
					op.Kind = "xstream"
				case x < 90:
					op.Kind = "wrongident"
				case x < 94:
					op.Kind = "tamper"
				case x < 97:
					op.Kind = "drain"
				default:
					op.Kind = "cleardrain"
				}
			}
			op.Ident = rng.IntN(len(identities))
			op.Worker = rng.IntN(sp.Workers)
			sc = append(sc, op)
			sp.TotalOps++
		}
		sp.Scripts = append(sp.Scripts, sc)
	}
	if sp.StratName == "expiry-race" {
		// Half of these histories keep the reaper out of the way (10 s tick:
		// expired sessions stay registered until a lookup evicts them in-line),
		// the other half let the lookups race a fast reaper sweep.
		sp.Workers = 1
		sp.Scripts, sp.TotalOps = nil, 0
		sp.PreOpen = sp.PreOpen[:1]
		sp.PreOpen[0].TTLMs, sp.PreOpen[0].Mode, sp.PreOpen[0].Worker = 0, openNormal, 0
		longTick := (idx/len(strata))%2 == 0
		if longTick {
			sp.ReaperMs = 10000
		} else {
			sp.ReaperMs = 1 + rng.Int64N(5)
		}
		k := 6 + rng.IntN(7)
		for i := 0; i < k; i++ {
			e := expirySpec{TTLMs: 30 + rng.Int64N(51), N: 4 + rng.IntN(13), Mix: rng.IntN(3), Ident: rng.IntN(sp.Idents)}
			if !longTick {
				e.ExtraUs = rng.Int64N(sp.ReaperMs * 1000)
			} else {
				e.ExtraUs = rng.Int64N(3000)
			}
			if rng.IntN(2) == 0 {
				e.CloseUs = rng.Int64N(800) // a slow Close() keeps later lookups overlapping the eviction
			}
			sp.Expiry = append(sp.Expiry, e)
		}
	}
	// Cold-shutdown variant: worker 1 has served no request when the concurrent
	// phase starts; its Shutdown() then races the first sticky-aware requests
	// (lazy reaper start vs. reaper stop).
	if sp.StratName == "shutdown" && (idx/len(strata))%2 == 0 && len(sp.Scripts) >= 2 {
		sp.Workers = 2
		for i := range sp.PreOpen {
			sp.PreOpen[i].Worker = 0
		}
		for g := range sp.Scripts {
			if len(sp.Scripts[g]) == 0 {
				continue
			}
			if g == 0 {
				sp.Scripts[g][0] = scriptOp{Kind: "shutdown", Worker: 1}
			} else {
				sp.Scripts[g][0] = scriptOp{Kind: "open", Worker: 1, Ident: rng.IntN(sp.Idents)}
			}
		}
	}
	return sp
}

type histResult struct {
	events []mon.Event
	ops    []opRec
	sess   []*session
}

func dumpGoroutines() string {
	buf := make([]byte, 1<<20)
	n := runtime.Stack(buf, true)
	return string(buf[:n])
}

func runHistory(r *mon.Run, sp histSpec, key []byte) {
	rng := rand.New(rand.NewPCG(uint64(sp.Seed), uint64(sp.Index)*7919+13))
	w := &world{log: mon.NewLog()}
	for i := 0; i < sp.Workers; i++ {
		srv := vgirpc.NewServer()
		srv.SetServerID(fmt.Sprintf("w%c", 'A'+i))
		h, err := vgirpc.NewHttpServerWithKey(srv, key)
		if err != nil {
			r.Fatal("NewHttpServerWithKey: %v", err)
		}
		h.SetAuthenticate(authenticator)
		h.SetProducerBatchLimit(1)
		h.EnableSticky(60 * time.Second)
		vgirpc.VerifSetReaperTick(h, time.Duration(sp.ReaperMs)*time.Millisecond)
		wk := &worker{id: srv.ServerID(), srv: srv, h: h, drain: h.DrainHandle()}
		w.workers = append(w.workers, wk)
		w.register(wk)
	}
	hs := &history{w: w, r: r, idx: sp.Index}
	witness := func(extra map[string]any) map[string]any {
		m := map[string]any{"spec": sp, "events": w.log.Snapshot()}
		hs.mu.Lock()
		m["ops"] = append([]opRec(nil), hs.ops...)
		m["sessions"] = append([]*session(nil), hs.sessions...)
		hs.mu.Unlock()
		for k, v := range extra {
			m[k] = v
		}
		return m
	}

	// Setup: sessions opened before the concurrent phase.
	for _, o := range sp.PreOpen {
		hs.open(0, o.Worker, o.Ident, o.TTLMs, o.Mode, o.SleepUs)
	}
	nPre := len(hs.sessions)
	if nPre == 0 {
		r.Fatal("history %d: no session could be opened in the setup phase: %+v", sp.Index, hs.ops)
	}

	// Concurrent phase.
	var wg sync.WaitGroup
	start := make(chan struct{})
	var shutdownOnce [2]sync.Once
	for g, script := range sp.Scripts {
		wg.Add(1)
		go func(g int, script []scriptOp) {
			defer wg.Done()
			grng := rand.New(rand.NewPCG(uint64(sp.Seed)^0x9e37, uint64(sp.Index)<<16|uint64(g)))
			var mine []*session
			pick := func(i int) *session {
				if len(mine) > 0 && grng.IntN(3) == 0 {
					return mine[grng.IntN(len(mine))]
				}
				return hs.sess(i % nPre)
			}
			<-start
			for _, op := range script {
				s := pick(op.Sess)
				client := g + 1
				switch op.Kind {
				case "use", "close":
					hs.use(client, s, s.Worker, s.Owner, op.SleepUs, op.Mode, s.Token, false)
				case "delete":
					hs.del(client, s, s.Worker, s.Owner)
				case "wrongdelete":
					id := (s.Owner + 1 + grng.IntN(len(identities)-1)) % len(identities)
					hs.del(client, s, s.Worker, id)
				case "open":
					if ns := hs.open(client, op.Worker, op.Ident%sp.Idents, op.TTLMs, op.Mode, 0); ns != nil {
						mine = append(mine, ns)
					}
				case "pstream":
					hs.stream(client, s, true, op.SleepUs)
				case "xstream":
					hs.stream(client, s, false, op.SleepUs)
				case "wrongident":
					id := (s.Owner + 1 + grng.IntN(len(identities)-1)) % len(identities)
					hs.use(client, s, s.Worker, id, 0, useNormal, s.Token, false)
				case "wrongworker":
					if sp.Workers > 1 {
						hs.use(client, s, (s.Worker+1)%sp.Workers, s.Owner, 0, useNormal, s.Token, false)
					}
				case "tamper":
					hs.use(client, s, s.Worker, s.Owner, 0, useNormal, tamper(s.Token, grng), true)
				case "drain":
					wk := w.workers[op.Worker]
					w.log.Add("operator", "drain_on_start", wk.id, client)
					wk.drain.Drain()
					w.log.Add("operator", "drain_on_done", wk.id, client)
				case "cleardrain":
					wk := w.workers[op.Worker]
					w.log.Add("operator", "drain_off_start", wk.id, client)
					wk.drain.ClearDrain()
					w.log.Add("operator", "drain_off_done", wk.id, client)
				case "shutdown":
					wk := w.workers[op.Worker]
					shutdownOnce[op.Worker].Do(func() {
						call := w.log.Now()
						w.log.Add("operator", "shutdown_start", wk.id, nil)
						wk.drain.Shutdown()
						w.log.Add("operator", "shutdown_done", wk.id, nil)
						hs.record(opRec{Client: client, Kind: "shutdown", Sess: -1, Worker: op.Worker, Call: call, Ret: w.log.Now(), Outcome: "done"})
					})
				case "wait":
					time.Sleep(time.Duration(op.WaitUs) * time.Microsecond)
				}
			}
		}(g, script)
	}
	for k, e := range sp.Expiry {
		wg.Add(1)
		go func(k int, e expirySpec) {
			defer wg.Done()
			<-start
			base := 1000 * (k + 1)
			sess := hs.open(base, 0, e.Ident, e.TTLMs, openNormal, e.CloseUs)
			if sess == nil {
				return
			}
			// Just past the expiry (2 ms beyond the latest instant it can
			// still be unexpired, so every lookup must answer session_lost).
			target := sess.ExpHigh + int64(2*time.Millisecond) + e.ExtraUs*1000
			if d := time.Duration(target - w.log.Now()); d > 0 {
				time.Sleep(d)
			}
			var ready atomic.Int32
			var release atomic.Bool
			var lw sync.WaitGroup
			for j := 0; j < e.N; j++ {
				lw.Add(1)
				go func(j int) {
					defer lw.Done()
					ready.Add(1)
					for spins := 0; !release.Load(); spins++ {
						if spins > 1<<16 {
							runtime.Gosched()
						}
					}
					if e.Mix == 1 || (e.Mix == 2 && j%2 == 1) {
						hs.del(base+j+1, sess, sess.Worker, sess.Owner)
					} else {
						hs.use(base+j+1, sess, sess.Worker, sess.Owner, 0, useNormal, sess.Token, false)
					}
				}(j)
			}
			for int(ready.Load()) < e.N {
				runtime.Gosched()
			}
			release.Store(true)
			lw.Wait()
		}(k, e)
	}
	close(start)
	done := make(chan struct{})
	go func() { wg.Wait(); close(done) }()

	// Bounded-progress watchdog: the history is stuck only if requests are
	// pending, no handler is inside a session and the event log has not grown
	// for 30 s — then nothing can ever wake the pending requests.
	lastLen, lastChange := w.log.Len(), time.Now()
	stuck := false
wait:
	for {
		select {
		case <-done:
			break wait
		case <-time.After(250 * time.Millisecond):
			if n := w.log.Len(); n != lastLen {
				lastLen, lastChange = n, time.Now()
			} else if time.Since(lastChange) > 30*time.Second {
				stuck = true
				break wait
			}
		}
	}
	if stuck {
		inside := map[string]int{}
		for _, e := range w.log.Snapshot() {
			if e.Actor == "handler" && e.Kind == "enter" {
				inside[e.Key]++
			} else if e.Actor == "handler" && e.Kind == "exit" {
				inside[e.Key]--
			}
		}
		running := 0
		for _, v := range inside {
			running += v
		}
		if hs.pending.Load() > 0 && running == 0 {
			r.Violation("request-blocked-forever:no-handler-inside", fmt.Sprintf("%d request(s) have not returned although no handler is running and nothing happened for 30 s (a session lock was left locked)", hs.pending.Load()),
				witness(map[string]any{"goroutines": dumpGoroutines()}))
		} else {
			r.Inconclusive(fmt.Sprintf("history %d: watchdog fired with %d pending requests and %d running handlers", sp.Index, hs.pending.Load(), running))
		}
		return // the world is abandoned (blocked goroutines stay parked)
	}
	if f := hs.fatal.Load(); f != nil {
		r.Fatal("history %d: %s", sp.Index, f.(string))
	}

	// Quiescence: every request has returned.
	for wi, wk := range w.workers {
		if n := vgirpc.VerifStickyLocked(wk.h); n != 0 {
			r.Violation("session-left-locked-at-quiescence", fmt.Sprintf("%d registered session(s) on worker %d are still locked after every request returned", n, wi), witness(nil))
			return
		}
	}
	r.Class("quiescent-lock-probe")
	w.log.Add("harness", "quiescent", "", nil)

	// Let every short-TTL session pass its expiry, then probe each session with
	// its owner: the follow-up on a live session must complete and resolve.
	hs.mu.Lock()
	sessions := append([]*session(nil), hs.sessions...)
	hs.mu.Unlock()
	var maxExp int64
	for _, s := range sessions {
		if s.ExpHigh > maxExp {
			maxExp = s.ExpHigh
		}
	}
	if maxExp > 0 {
		if d := time.Duration(maxExp-w.log.Now()) + 3*time.Millisecond; d > 0 {
			time.Sleep(d)
		}
	}
	probe := map[int]opRec{}
	for _, s := range sessions {
		ch := make(chan opRec, 1)
		go func() { ch <- hs.use(0, s, s.Worker, s.Owner, 0, useNormal, s.Token, false) }()
		select {
		case op := <-ch:
			probe[s.Idx] = op
		case <-time.After(30 * time.Second):
			r.Violation("follow-up-blocked-at-quiescence", "a follow-up call on a session did not complete within 30 s although no other request is in flight",
				witness(map[string]any{"session": s, "goroutines": dumpGoroutines()}))
			return
		}
	}
	closesBefore := closeCounts(w.log.Snapshot())
	for _, s := range sessions {
		op := probe[s.Idx]
		n := closesBefore[s.UID]
		switch {
		case op.Resolved:
			r.Class("followup-live-ok")
			if len(n) != 0 {
				r.Violation("close-count:live-session-closed:"+strings.Join(n, "+"), fmt.Sprintf("session uid %d still resolves for its owner but its state's Close() already ran %d time(s)", s.UID, len(n)), witness(map[string]any{"session": s}))
			}
		case op.Outcome == "session_lost":
			// The session has ended. Its Close() may still be in flight on the
			// reaper goroutine (the registry removes the entry first and calls
			// Close() after dropping its mutex), so "exactly once" is judged
			// after the final Shutdown below, which joins the reaper.
			if len(n) == 1 {
				r.Class("ended-closed-once:" + n[0])
			} else if len(n) == 0 {
				r.Class("ended-close-still-in-flight-at-probe")
			}
		}
	}
	// Final shutdown: afterwards every state ever registered was closed once.
	for wi, wk := range w.workers {
		call := w.log.Now()
		wk.drain.Shutdown()
		hs.record(opRec{Client: 0, Kind: "shutdown", Sess: -1, Worker: wi, Call: call, Ret: w.log.Now(), Outcome: "final"})
		if n := vgirpc.VerifStickyLive(wk.h); n != 0 {
			r.Violation("registry-not-empty-after-shutdown", fmt.Sprintf("%d entries remain after Shutdown", n), witness(nil))
		}
	}
	events := w.log.Snapshot()
	final := closeCounts(events)
	opened := map[int64]bool{}
	for _, e := range events {
		if e.Kind == "open_result" && e.Payload.(map[string]any)["res"] == "ok" {
			uid, _ := strconv.ParseInt(e.Key, 10, 64)
			opened[uid] = true
		}
	}
	w.states.Range(func(k, _ any) bool {
		uid := k.(int64)
		n := final[uid]
		if opened[uid] && len(n) != 1 {
			r.Violation(fmt.Sprintf("close-count:after-shutdown:%d:%s", len(n), strings.Join(n, "+")), fmt.Sprintf("state uid %d was registered; after Shutdown its Close() ran %d times", uid, len(n)), witness(map[string]any{"uid": uid}))
		}
		if !opened[uid] && len(n) != 0 {
			r.Violation("close-count:never-registered:"+strings.Join(n, "+"), fmt.Sprintf("state uid %d was refused by OpenSession but its Close() ran", uid), witness(map[string]any{"uid": uid}))
		}
		return true
	})

	hs.mu.Lock()
	ops := append([]opRec(nil), hs.ops...)
	hs.mu.Unlock()
	checkEvents(r, sp, events, sessions, witness)
	checkOutcomes(r, sp, ops, sessions, witness)
	checkPorcupine(r, sp, ops, sessions, witness)

	if sp.StratName == "expiry-race" {
		firstClose := map[int64]int64{}
		for _, e := range events {
			if e.Actor == "state" && e.Kind == "close" {
				uid, _ := strconv.ParseInt(e.Key, 10, 64)
				if _, ok := firstClose[uid]; !ok {
					firstClose[uid] = e.T
				}
			}
		}
		for _, sx := range sessions {
			if sx.TTLMs == 0 {
				continue
			}
			type iv struct{ call, ret int64 }
			var post []iv
			for _, o := range ops {
				if o.Sess == sx.Idx && (o.Kind == "resume" || o.Kind == "delete") && o.Client != 0 && o.Call > sx.ExpHigh {
					post = append(post, iv{o.Call, o.Ret})
				}
			}
			overlapping := false
			first := int64(1) << 62
			for i := range post {
				if post[i].call < first {
					first = post[i].call
				}
				for j := i + 1; j < len(post); j++ {
					if post[i].call < post[j].ret && post[j].call < post[i].ret {
						overlapping = true
					}
				}
			}
			if !overlapping {
				continue
			}
			r.Count("expiry_race.sessions_with_overlapping_post_expiry_lookups", 1)
			if fc, ok := firstClose[sx.UID]; !ok || fc > first {
				// Still registered when the first of the overlapping lookups started.
				r.Class("expired-unreaped-concurrent-lookups")
				r.Count("expiry_race.sessions_unreaped_at_first_lookup", 1)
			} else {
				r.Class("expired-reaped-before-concurrent-lookups")
			}
			if sp.ReaperMs < 1000 {
				r.Class("expiry-lookups-racing-fast-reaper")
			}
		}
	}

	// Evidence.
	var trace []mon.Event
	for _, e := range events {
		if e.Actor == "handler" || e.Actor == "state" {
			trace = append(trace, e)
		}
	}
	r.Case(sp.StratName + ":" + mon.KindOrder(trace))
	counts := map[string]int64{}
	for _, e := range events {
		counts["events."+e.Actor+"."+e.Kind]++
	}
	for _, o := range ops {
		counts["ops."+o.Kind]++
	}
	for k, v := range counts {
		r.Count(k, v)
	}
	if sp.Index < 3 {
		r.Sample(map[string]any{"spec": sp, "ops": ops})
	}
	_ = rng
}

func closeCounts(events []mon.Event) map[int64][]string {
	out := map[int64][]string{}
	for _, e := range events {
		if e.Actor == "state" && e.Kind == "close" {
			uid, _ := strconv.ParseInt(e.Key, 10, 64)
			out[uid] = append(out[uid], e.Payload.(string))
		}
	}
	for _, v := range out {
		sort.Strings(v)
	}
	return out
}

// checkEvents runs the event-log monitors.
func checkEvents(r *mon.Run, sp histSpec, events []mon.Event, sessions []*session, witness func(map[string]any) map[string]any) {
	inside := map[string]int{}
	closedBy := map[string]string{}
	closes := map[string]int{}
	// Drain windows per worker.
	defDraining := map[string]bool{}
	offStarts := map[string]int{}
	offInFlight := map[string]int{}
	type drainSnap struct {
		clean bool
		offs  int
	}
	drainClean := map[string]drainSnap{}
	type attempt struct {
		draining bool
		offs     int
	}
	attempts := map[string]attempt{}
	for _, e := range events {
		switch {
		case e.Actor == "handler" && e.Kind == "enter":
			kind := e.Payload.(string)
			if inside[e.Key] > 0 {
				r.Violation("handler-overlap:"+kind, fmt.Sprintf("two handlers are inside session uid %s at once", e.Key), witness(map[string]any{"at_seq": e.Seq}))
			}
			if c, ok := closedBy[e.Key]; ok && (c == "handler" || c == "delete") {
				r.Violation("handler-entered-after-close:cause="+c+":handler="+kind,
					fmt.Sprintf("a %s handler entered on session uid %s after that session's Close() had run (closed by %s): the request was answered normally on a closed session instead of session_lost", kind, e.Key, c),
					witness(map[string]any{"at_seq": e.Seq}))
			} else if ok {
				r.Class("enter-after-" + c + "-close(allowed)")
			}
			inside[e.Key]++
			if inside[e.Key] == 1 {
				r.Class("handler-enter")
			}
		case e.Actor == "handler" && e.Kind == "exit":
			inside[e.Key]--
		case e.Actor == "state" && e.Kind == "close":
			cause := e.Payload.(string)
			closes[e.Key]++
			if closes[e.Key] > 1 {
				r.Violation("close-twice:"+closedBy[e.Key]+"+"+cause, fmt.Sprintf("Close() ran %d times on the state of session uid %s", closes[e.Key], e.Key), witness(map[string]any{"at_seq": e.Seq}))
			}
			if cause == "delete" && inside[e.Key] > 0 {
				r.Violation("delete-close-during-handler", fmt.Sprintf("DELETE closed session uid %s while a handler was running inside it", e.Key), witness(map[string]any{"at_seq": e.Seq}))
			}
			if inside[e.Key] > 0 && cause != "handler" {
				r.Class("close-during-handler:" + cause + "(allowed unless delete)")
			}
			if _, ok := closedBy[e.Key]; !ok {
				closedBy[e.Key] = cause
			}
			r.Class("close-by-" + cause)
		case e.Actor == "operator" && e.Kind == "drain_on_start":
			// A ClearDrain() still in flight may land after this Drain(): then
			// the worker is not *definitely* draining once Drain() returns.
			drainClean[fmt.Sprint(e.Key, "/", e.Payload)] = drainSnap{clean: offInFlight[e.Key] == 0, offs: offStarts[e.Key]}
		case e.Actor == "operator" && e.Kind == "drain_on_done":
			if sn := drainClean[fmt.Sprint(e.Key, "/", e.Payload)]; sn.clean && sn.offs == offStarts[e.Key] {
				defDraining[e.Key] = true
			}
		case e.Actor == "operator" && e.Kind == "drain_off_start":
			defDraining[e.Key] = false
			offStarts[e.Key]++
			offInFlight[e.Key]++
		case e.Actor == "operator" && e.Kind == "drain_off_done":
			offInFlight[e.Key]--
		case e.Actor == "handler" && e.Kind == "open_attempt":
			wid := e.Payload.(map[string]any)["worker"].(string)
			attempts[e.Key] = attempt{draining: defDraining[wid], offs: offStarts[wid]}
		case e.Actor == "handler" && e.Kind == "open_result":
			m := e.Payload.(map[string]any)
			wid := m["worker"].(string)
			a := attempts[e.Key]
			if m["res"] == "ok" {
				if a.draining && a.offs == offStarts[wid] {
					r.Violation("open-succeeded-while-draining", fmt.Sprintf("OpenSession (state uid %s) succeeded although Drain() had returned before the attempt and ClearDrain() had not started before it finished", e.Key), witness(map[string]any{"at_seq": e.Seq}))
				}
				r.Class("open-ok")
			} else {
				r.Class("open-refused:" + m["res"].(string))
				if a.draining && a.offs == offStarts[wid] {
					r.Class("open-refused-while-definitely-draining")
				}
			}
		}
	}
}

// checkOutcomes: point checks on client-visible outcomes that need no search.
func checkOutcomes(r *mon.Run, sp histSpec, ops []opRec, sessions []*session, witness func(map[string]any) map[string]any) {
	type iv struct{ call, ret int64 }
	bySess := map[int][]iv{}
	for _, o := range ops {
		if o.Sess < 0 || o.Kind == "open" {
			continue
		}
		s := sessions[o.Sess]
		identOK := o.Ident == s.Owner && o.Worker == s.Worker && !o.Tamper
		if o.Kind == "resume" || o.Kind == "closecall" {
			switch {
			case strings.HasPrefix(o.Outcome, "ok:"), o.Outcome == "resolved-panicked", o.Outcome == "session_lost":
			default:
				r.Violation("unexpected-outcome:"+o.Route+":"+strings.SplitN(o.Outcome, ":", 2)[0],
					fmt.Sprintf("a call bearing a session was answered with neither the handler's result nor session_lost: %s", o.Outcome), witness(map[string]any{"op": o}))
			}
			if strings.HasPrefix(o.Outcome, "ok:") && o.Route != "exchange-init" {
				if got := strings.TrimPrefix(o.Outcome, "ok:"); got != strconv.FormatInt(s.UID, 10) {
					r.Violation("resolved-to-other-session", fmt.Sprintf("token of session uid %d resolved to state uid %s", s.UID, got), witness(map[string]any{"op": o}))
				}
			}
			if !identOK {
				what := "wrong-identity"
				if o.Tamper {
					what = "tampered-token"
				} else if o.Worker != s.Worker {
					what = "wrong-worker"
				}
				if o.Resolved {
					r.Violation("isolation:"+what+":resolved", fmt.Sprintf("session uid %d (owner %s on worker %d) was resolved for %s on worker %d", s.UID, identities[s.Owner].Name, s.Worker, identities[o.Ident].Name, o.Worker), witness(map[string]any{"op": o}))
				} else if o.Outcome == "session_lost" {
					r.Class(what + "-lost")
				}
			}
			if identOK {
				bySess[o.Sess] = append(bySess[o.Sess], iv{o.Call, o.Ret})
			}
		}
		if o.Kind == "delete" {
			r.Class("delete-" + o.Outcome)
		}
		if o.Kind == "resume" && strings.HasPrefix(o.Route, "producer") && o.Resolved {
			r.Class("stream-producer-resume")
		}
		if o.Kind == "resume" && o.Route == "exchange-turn" && o.Resolved {
			r.Class("stream-exchange-resume")
		}
		if o.Outcome == "resolved-panicked" {
			r.Class("handler-panic-inside-session")
		}
	}
	for _, o := range ops {
		if o.Kind == "open" {
			switch {
			case strings.HasPrefix(o.Outcome, "refused:*vgirpc.ServerDrainingError:server_draining"):
				r.Class("open-refused-draining")
			case strings.HasPrefix(o.Outcome, "refused:"):
				// Not a clause of the statement; but the run then exercised less than intended.
				r.Class("open-refused-other")
				r.Inconclusive("OpenSession was refused with something other than server_draining: " + o.Outcome)
			}
			if o.Sess >= 0 && (sessions[o.Sess].OpenMode == openPanic || sessions[o.Sess].OpenMode == openThenError) {
				r.Class("panic-or-error-after-open")
			}
		}
	}
	for _, ivs := range bySess {
		conc := false
		for i := range ivs {
			for j := i + 1; j < len(ivs); j++ {
				if ivs[i].call < ivs[j].ret && ivs[j].call < ivs[i].ret {
					conc = true
				}
			}
		}
		if conc {
			r.Class("concurrent-same-session-calls")
		}
	}
}

// Porcupine model, one partition per session.
type pIn struct {
	Kind    string
	IdentOK bool
	Call    int64
	Ret     int64
	Short   bool
	ExpLow  int64
	ExpHigh int64
	Desc    string
}

const slackNs = int64(time.Millisecond)

var sessModel = porcupine.Model{
	Init: func() interface{} { return 0 }, // 0 open, 1 closed
	Step: func(state, input, output interface{}) (bool, interface{}) {
		st := state.(int)
		in := input.(pIn)
		resolved := output.(bool)
		switch in.Kind {
		case "shutdown":
			return true, 1
		case "delete":
			// The statement says nothing about DELETE's status code; only
			// its effect is modelled.
			if in.IdentOK {
				return true, 1
			}
			return true, st
		case "resume", "closecall":
			if !in.IdentOK {
				return !resolved, st
			}
			if st == 1 {
				return !resolved, 1
			}
			if resolved {
				if in.Short && in.Call > in.ExpHigh+slackNs {
					return false, st // resolved although it had certainly expired before the call
				}
				if in.Kind == "closecall" {
					return true, 1
				}
				return true, 0
			}
			// session_lost on an open session: only expiry explains it.
			if in.Short && in.Ret >= in.ExpLow-slackNs {
				return true, 1
			}
			return false, st
		}
		return false, st
	},
	Equal:             func(a, b interface{}) bool { return a.(int) == b.(int) },
	DescribeOperation: func(in, out interface{}) string { return fmt.Sprintf("%s -> resolved=%v", in.(pIn).Desc, out) },
	DescribeState:     func(s interface{}) string { return []string{"open", "closed"}[s.(int)] },
}

func checkPorcupine(r *mon.Run, sp histSpec, ops []opRec, sessions []*session, witness func(map[string]any) map[string]any) {
	for _, s := range sessions {
		var hist []porcupine.Operation
		var openCall, openRet int64
		for _, o := range ops {
			if o.Kind == "open" && o.Sess == s.Idx {
				openCall, openRet = o.Call, o.Ret
			}
		}
		ambiguous := false
		for _, o := range ops {
			var in pIn
			switch {
			case o.Kind == "shutdown" && o.Worker == s.Worker:
				if o.Ret < openCall {
					continue // finished before the session existed
				}
				if o.Call < openRet {
					ambiguous = true // overlapped the open: may or may not have swept it
					continue
				}
				in = pIn{Kind: "shutdown"}
			case o.Sess == s.Idx && (o.Kind == "resume" || o.Kind == "closecall" || o.Kind == "delete"):
				in = pIn{Kind: o.Kind, IdentOK: o.Ident == s.Owner && o.Worker == s.Worker && !o.Tamper}
			default:
				continue
			}
			in.Call, in.Ret, in.Short, in.ExpLow, in.ExpHigh = o.Call, o.Ret, s.TTLMs > 0, s.ExpLow, s.ExpHigh
			in.Desc = fmt.Sprintf("%s[%s ident=%d worker=%d]", o.Kind, o.Route, o.Ident, o.Worker)
			hist = append(hist, porcupine.Operation{ClientId: o.Client, Input: in, Call: o.Call, Output: o.Resolved, Return: o.Ret})
		}
		if ambiguous {
			r.Count("porcupine.skipped_open_overlaps_shutdown", 1)
			continue
		}
		if len(hist) == 0 {
			continue
		}
		model := sessModel
		if s.OpenMode == openThenClose {
			model.Init = func() interface{} { return 1 }
		}
		filtered := hist
		res := porcupine.CheckOperationsTimeout(model, filtered, 3*time.Second)
		exact := intervalCheck(filtered, s.OpenMode == openThenClose)
		switch {
		case res == porcupine.Unknown:
			// Porcupine's search is exponential in the number of mutually
			// overlapping operations; the model is a one-way two-state
			// machine, for which intervalCheck decides linearizability
			// exactly. It is cross-checked against porcupine on every
			// history porcupine does finish.
			r.Count("porcupine.unknown_decided_by_interval_checker", 1)
			if exact {
				res = porcupine.Ok
			} else {
				res = porcupine.Illegal
			}
		case (res == porcupine.Ok) != exact:
			r.Fatal("history %d session %d: porcupine says %v, interval checker says %v", sp.Index, s.Idx, res, exact)
		default:
			r.Count("porcupine.agrees_with_interval_checker", 1)
		}
		switch res {
		case porcupine.Ok:
			r.Count("porcupine.ok", 1)
			r.Class("porcupine-ok")
		case porcupine.Illegal:
			r.Count("porcupine.illegal", 1)
			var lines []string
			for _, h := range filtered {
				lines = append(lines, fmt.Sprintf("[%d,%d] c%d %s", h.Call, h.Return, h.ClientId, sessModel.DescribeOperation(h.Input, h.Output)))
			}
			core := minimalCore(filtered, s.OpenMode == openThenClose)
			var coreLines []string
			for _, h := range core {
				coreLines = append(coreLines, fmt.Sprintf("[%d,%d] c%d %s", h.Call, h.Return, h.ClientId, sessModel.DescribeOperation(h.Input, h.Output)))
			}
			lines = append(lines, "-- minimal non-linearizable core --")
			lines = append(lines, coreLines...)
			r.Violation("porcupine-illegal:core="+illegalShape(core), fmt.Sprintf("client-boundary history of session uid %d is not linearizable against absent->open(owner)->closed", s.UID),
				witness(map[string]any{"session": s, "history": lines}))
		}
	}
}

// intervalCheck decides linearizability of one session's history against
// sessModel exactly, in O(n^2): the state moves open -> closed once, at the
// linearization point t of the first closing operation X. Operations that need
// the open state must be able to take effect before t (call < t), operations
// that need the closed state and every other closing operation after it
// (ret > t), and X's own interval must contain t.
func intervalCheck(h []porcupine.Operation, initClosed bool) bool {
	type iv struct{ call, ret int64 }
	var needOpen, needClosed, closers []iv
	var closeCalls []iv
	for _, o := range h {
		in := o.Input.(pIn)
		resolved := o.Output.(bool)
		x := iv{o.Call, o.Return}
		switch in.Kind {
		case "shutdown":
			closers = append(closers, x)
		case "delete":
			if in.IdentOK {
				closers = append(closers, x)
			}
		case "resume", "closecall":
			if !in.IdentOK {
				if resolved {
					return false
				}
				continue
			}
			if resolved {
				if in.Short && in.Call > in.ExpHigh+slackNs {
					return false
				}
				if in.Kind == "closecall" {
					closeCalls = append(closeCalls, x)
				} else {
					needOpen = append(needOpen, x)
				}
			} else if in.Short && in.Ret >= in.ExpLow-slackNs {
				closers = append(closers, x) // expiry explains it in the open state; legal when closed anyway
			} else {
				needClosed = append(needClosed, x)
			}
		}
	}
	if initClosed {
		return len(needOpen) == 0 && len(closeCalls) == 0
	}
	if len(closeCalls) > 1 {
		return false
	}
	if len(closers) == 0 && len(closeCalls) == 0 {
		return len(needClosed) == 0
	}
	try := func(x iv, others []iv) bool {
		lo, hi := x.call, x.ret
		for _, o := range needOpen {
			if o.call > lo {
				lo = o.call
			}
		}
		for _, c := range needClosed {
			if c.ret < hi {
				hi = c.ret
			}
		}
		for _, y := range others {
			if y.ret < hi {
				hi = y.ret
			}
		}
		return lo < hi
	}
	if len(closeCalls) == 1 {
		return try(closeCalls[0], closers)
	}
	for i, x := range closers {
		others := append(append([]iv(nil), closers[:i]...), closers[i+1:]...)
		if try(x, others) {
			return true
		}
	}
	return false
}

// minimalCore greedily drops operations while the history stays illegal.
func minimalCore(h []porcupine.Operation, initClosed bool) []porcupine.Operation {
	core := append([]porcupine.Operation(nil), h...)
	for i := 0; i < len(core); {
		trial := append(append([]porcupine.Operation(nil), core[:i]...), core[i+1:]...)
		if len(trial) > 0 && !intervalCheck(trial, initClosed) {
			core = trial
		} else {
			i++
		}
	}
	return core
}

// illegalShape names the operations of a (minimal) non-linearizable history:
// kinds with multiplicity, no values, no order — stable across seeds.
func illegalShape(h []porcupine.Operation) string {
	set := map[string]int{}
	for _, o := range h {
		in := o.Input.(pIn)
		k := in.Kind
		if !in.IdentOK && in.Kind != "shutdown" {
			k += "(foreign)"
		}
		if o.Output.(bool) {
			k += "+"
		} else {
			k += "-"
		}
		set[k]++
	}
	var ks []string
	for k, n := range set {
		if n > 1 {
			k = fmt.Sprintf("%dx%s", n, k)
		}
		ks = append(ks, k)
	}
	sort.Strings(ks)
	return strings.Join(ks, ",")
}

func main() {
	r := mon.Start("C29")
	defer r.Finish()
	vgirpc.RegisterStateType(&prodState{})
	vgirpc.RegisterStateType(&exchState{})
	r.SetRule("one case = one concurrent history (<= 60 ops, 2..32 goroutines, 1..4 pre-opened sessions, 1..3 identities, 1..2 workers) generated from (VERIF_SEED, index) in 9 strata (close-race, delete-race, mixed, ttl, drain, shutdown, streams, isolation, expiry-race: 6..12 short-TTL sessions per history each hit by 4..16 barrier-released lookups just past expiry, reaper tick 10 s or 1..5 ms); distinct = distinct (stratum, order of handler enter/exit and state Close events) signatures, i.e. distinct observed interleavings")
	r.Assume("in-process ServeHTTP(recorder) stands for the HTTP client boundary: a call has returned when ServeHTTP returned (deferred lock release included)")
	r.Assume("session state Close() classifies its caller from the Go call stack (CloseSession / handleStickyDelete / drainExpired|get / shutdown); handler-entered-after-close is only judged for the explicit causes")
	r.Assume("TTL bounds use the process monotonic clock on both sides; 1 ms slack in the permissive direction")
	r.Require("handler-enter", "concurrent-same-session-calls", "close-by-handler", "close-by-delete", "close-by-expiry", "close-by-shutdown",
		"open-refused-draining", "wrong-identity-lost", "wrong-worker-lost", "tampered-token-lost", "panic-or-error-after-open",
		"handler-panic-inside-session", "stream-producer-resume", "stream-exchange-resume", "followup-live-ok", "quiescent-lock-probe", "porcupine-ok",
		"expired-unreaped-concurrent-lookups", "expiry-lookups-racing-fast-reaper")

	n := r.N(324, 30006)
	par := r.N(4, 12)
	key := []byte("c29-shared-token-key-0123456789abcdef")
	idxCh := make(chan int)
	var wg sync.WaitGroup
	for p := 0; p < par; p++ {
		wg.Add(1)
		go func() {
			defer wg.Done()
			for i := range idxCh {
				if r.Violated() && i > 64 {
					continue // a defect was found; finish fast but keep the early histories for classes
				}
				sp := genSpec(r.Rand(uint64(i)), r.Seed(), i)
				runHistory(r, sp, key)
			}
		}()
	}
	for i := 0; i < n; i++ {
		idxCh <- i
	}
	close(idxCh)
	wg.Wait()
	wj.ReportRaces(r, false)
}
