// C43 — the OpenTelemetry hook ends every span it starts with the call's outcome.
//
// vgiotel.InstrumentServer installs the real hook on servers running C37's
// call histories (pipe, Unix socket, in-process HTTP, HTTP listener). The
// providers are the OTel SDK's with in-memory back ends owned by the check: a
// SpanProcessor that counts OnStart / OnEnd per span id and keeps the ended
// span, and a ManualReader collected after every request. A pass-through
// recorder around the hook (wm.Rec; the hook is fetched with the verif-tagged
// VerifDispatchHook getter) tells when the hook's OnDispatchEnd has returned,
// so every verdict is taken at a known point, not after a sleep.
//
// Per request whose dispatch reached the hook:
//   - recording spans started == 1 when tracing is on and the sampler records,
//     0 when tracing is off; every started span is ended exactly once;
//   - span status is Error exactly when the response reports an error to the
//     client (EXCEPTION batch / error status / X-VGI-RPC-Error, by the
//     harness's decoder), Ok otherwise;
//   - when a well-formed traceparent was sent (harness's own W3C reading), the
//     span's trace id and parent span id are the sent ones and the parent is
//     remote — on a pipe through request metadata, over HTTP through the header;
//   - rpc.server.requests grows by exactly 1, on the series whose status
//     attribute matches the outcome and whose rpc.method is the method called
//     (the metric does not exist when metrics are off).
package main

import (
	"context"
	"encoding/json"
	"fmt"
	"io"
	"log/slog"
	"os"
	"runtime"
	"sort"
	"strings"
	"sync"

	"go.opentelemetry.io/otel/attribute"
	"go.opentelemetry.io/otel/codes"
	"go.opentelemetry.io/otel/propagation"
	sdkmetric "go.opentelemetry.io/otel/sdk/metric"
	"go.opentelemetry.io/otel/sdk/metric/metricdata"
	sdktrace "go.opentelemetry.io/otel/sdk/trace"

	"github.com/Query-farm/vgi-rpc-go/vgirpc"
	vgiotel "github.com/Query-farm/vgi-rpc-go/vgirpc/otel"

	"verif/harness/internal/mon"
	"verif/harness/internal/svc"
	"verif/harness/internal/wj"
	"verif/harness/internal/wm"
)

// ---------------------------------------------------------------------------
// In-memory span back end

type spanRec struct {
	ID      string `json:"span_id"`
	TraceID string `json:"trace_id"`
	Name    string `json:"name"`
	Starts  int    `json:"on_start"`
	Ends    int    `json:"on_end"`
	// from the ended span
	Status       string `json:"status,omitempty"`
	StatusDesc   string `json:"status_description,omitempty"`
	ParentSpan   string `json:"parent_span_id,omitempty"`
	ParentTrace  string `json:"parent_trace_id,omitempty"`
	ParentRemote bool   `json:"parent_remote,omitempty"`
	ParentValid  bool   `json:"parent_valid"`
	TraceState   string `json:"tracestate,omitempty"`
	Method       string `json:"rpc_method,omitempty"`
	Events       int    `json:"events"`
	ErrType      string `json:"error_type,omitempty"`
}

type spanProc struct {
	mu    sync.Mutex
	order []string // span ids in OnStart order (an id never seen by OnStart is appended by OnEnd)
	byID  map[string]*spanRec
}

func newSpanProc() *spanProc { return &spanProc{byID: map[string]*spanRec{}} }

func (p *spanProc) get(id, trace string) *spanRec {
	s := p.byID[id]
	if s == nil {
		s = &spanRec{ID: id, TraceID: trace}
		p.byID[id] = s
		p.order = append(p.order, id)
	}
	return s
}

func (p *spanProc) OnStart(_ context.Context, s sdktrace.ReadWriteSpan) {
	p.mu.Lock()
	defer p.mu.Unlock()
	r := p.get(s.SpanContext().SpanID().String(), s.SpanContext().TraceID().String())
	r.Starts++
	r.Name = s.Name()
}

func (p *spanProc) OnEnd(s sdktrace.ReadOnlySpan) {
	p.mu.Lock()
	defer p.mu.Unlock()
	r := p.get(s.SpanContext().SpanID().String(), s.SpanContext().TraceID().String())
	r.Ends++
	r.Status, r.StatusDesc = s.Status().Code.String(), s.Status().Description
	par := s.Parent()
	r.ParentValid, r.ParentRemote = par.IsValid(), par.IsRemote()
	r.ParentSpan, r.ParentTrace = par.SpanID().String(), par.TraceID().String()
	r.TraceState = s.SpanContext().TraceState().String()
	r.Events = len(s.Events())
	for _, a := range s.Attributes() {
		switch a.Key {
		case "rpc.method":
			r.Method = a.Value.AsString()
		case "rpc.vgi_rpc.error_type":
			r.ErrType = a.Value.AsString()
		}
	}
}
func (p *spanProc) Shutdown(context.Context) error   { return nil }
func (p *spanProc) ForceFlush(context.Context) error { return nil }
func (p *spanProc) mark() int                        { p.mu.Lock(); defer p.mu.Unlock(); return len(p.order) }
func (p *spanProc) since(from int) []spanRec {
	p.mu.Lock()
	defer p.mu.Unlock()
	var out []spanRec
	for _, id := range p.order[from:] {
		out = append(out, *p.byID[id])
	}
	return out
}

// ---------------------------------------------------------------------------
// Metric snapshots

type series struct {
	Attrs map[string]string `json:"attrs"`
	Value int64             `json:"value"`
}

// collect returns, per metric name, the cumulative value (counter sum /
// histogram count) of every attribute set.
func collect(rd *sdkmetric.ManualReader) (map[string]map[string]series, error) {
	var rm metricdata.ResourceMetrics
	if err := rd.Collect(context.Background(), &rm); err != nil {
		return nil, err
	}
	out := map[string]map[string]series{}
	add := func(name string, set attribute.Set, v int64) {
		if out[name] == nil {
			out[name] = map[string]series{}
		}
		s := series{Attrs: map[string]string{}, Value: v}
		for _, kv := range set.ToSlice() {
			s.Attrs[string(kv.Key)] = kv.Value.Emit()
		}
		keys := make([]string, 0, len(s.Attrs))
		for k := range s.Attrs {
			keys = append(keys, k+"="+s.Attrs[k])
		}
		sort.Strings(keys)
		out[name][strings.Join(keys, ",")] = s
	}
	for _, sm := range rm.ScopeMetrics {
		for _, m := range sm.Metrics {
			switch d := m.Data.(type) {
			case metricdata.Sum[int64]:
				for _, dp := range d.DataPoints {
					add(m.Name, dp.Attributes, dp.Value)
				}
			case metricdata.Histogram[float64]:
				for _, dp := range d.DataPoints {
					add(m.Name, dp.Attributes, int64(dp.Count))
				}
			}
		}
	}
	return out, nil
}

func delta(before, after map[string]series) (out []series) {
	for k, a := range after {
		if d := a.Value - before[k].Value; d != 0 {
			out = append(out, series{Attrs: a.Attrs, Value: d})
		}
	}
	return out
}

// ---------------------------------------------------------------------------

type otelCfg struct {
	Tracing    bool   `json:"tracing"`
	Metrics    bool   `json:"metrics"`
	Sampler    string `json:"sampler"` // always | never | parentbased
	RecordExc  bool   `json:"record_exceptions"`
	Propagator string `json:"propagator"` // tracecontext | composite
}

func cfgFor(i int) otelCfg {
	c := otelCfg{Tracing: true, Metrics: true, Sampler: "always", RecordExc: i%2 == 0, Propagator: []string{"tracecontext", "composite"}[(i/2)%2]}
	switch (i / 8) % 8 {
	case 1:
		c.Tracing = false
	case 2:
		c.Metrics = false
	case 3:
		c.Tracing, c.Metrics = false, false
	case 4:
		c.Sampler = "never"
	case 5, 6:
		c.Sampler = "parentbased"
	}
	return c
}

type checker struct {
	r     *mon.Run
	debug bool
}

func family(t string) string {
	if wm.IsHTTP(t) {
		return "http"
	}
	return "pipe"
}

func (c *checker) runHistory(i int, pool *wm.Pool) {
	r := c.r
	transport := []string{"pipe", "http", "pipe", "http", "unix", "http", "pipe", "http-net"}[i%8]
	if only := os.Getenv("C43_ONLY"); only != "" { // development aid
		transport = only
	}
	h := wm.GenHistory(r.Rand(uint64(i)), i, transport, wm.GenOpt{Traces: true, MaxCalls: 6})
	oc := cfgFor(i)
	if i < 2 {
		r.Sample(map[string]any{"history": h, "otel": oc})
	}
	c.runGiven(h, oc, pool)
}

// runGiven runs one history under one OTel configuration and judges it.
func (c *checker) runGiven(h wm.History, oc otelCfg, pool *wm.Pool) {
	r := c.r
	transport := h.Transport
	fam := family(transport)
	sp := newSpanProc()
	var sampler sdktrace.Sampler
	switch oc.Sampler {
	case "always":
		sampler = sdktrace.AlwaysSample()
	case "never":
		sampler = sdktrace.NeverSample()
	default:
		sampler = sdktrace.ParentBased(sdktrace.AlwaysSample())
	}
	tp := sdktrace.NewTracerProvider(sdktrace.WithSampler(sampler), sdktrace.WithSpanProcessor(sp))
	rd := sdkmetric.NewManualReader()
	mp := sdkmetric.NewMeterProvider(sdkmetric.WithReader(rd))
	defer func() { _ = tp.Shutdown(context.Background()); _ = mp.Shutdown(context.Background()) }()
	var prop propagation.TextMapPropagator = propagation.TraceContext{}
	if oc.Propagator == "composite" {
		prop = propagation.NewCompositeTextMapPropagator(propagation.Baggage{}, propagation.TraceContext{})
	}
	install := func(s *vgirpc.Server) vgirpc.DispatchHook {
		vgiotel.InstrumentServer(s, vgiotel.OtelConfig{TracerProvider: tp, MeterProvider: mp, Propagator: prop,
			EnableTracing: oc.Tracing, EnableMetrics: oc.Metrics, RecordExceptions: oc.RecordExc, ServiceName: "wm-svc"})
		return vgirpc.VerifDispatchHook(s)
	}
	env, err := pool.NewEnv(transport, h.Cfg, install)
	if err != nil {
		r.Inconclusive("environment: " + err.Error())
		return
	}
	if env.Rec.Inner == nil {
		r.Fatal("InstrumentServer installed no dispatch hook")
	}
	prevSpans := 0
	prevMetrics, err := collect(rd)
	if err != nil {
		r.Fatal("metric collection: %v", err)
	}
	r.Class("tracing." + fmt.Sprint(oc.Tracing))
	r.Class("metrics." + fmt.Sprint(oc.Metrics))
	r.Class("sampler." + oc.Sampler)

	env.After = func(d *wm.Dispatch) {
		spans := sp.since(prevSpans)
		prevSpans = sp.mark()
		now, err := collect(rd)
		if err != nil {
			r.Fatal("metric collection: %v", err)
		}
		dreq := delta(prevMetrics["rpc.server.requests"], now["rpc.server.requests"])
		ddur := delta(prevMetrics["rpc.server.duration"], now["rpc.server.duration"])
		prevMetrics = now
		evs := env.Rec.Events(d.EvFrom, d.EvTo)
		var start, end *wm.Ev
		nStart := 0
		for k := range evs {
			switch {
			case evs[k].Kind == "start":
				nStart++
				start = &evs[k]
			case start != nil && evs[k].Tok == start.Tok:
				end = &evs[k]
			}
		}
		r.Evals(1)
		tk := "none"
		if d.Trace != nil {
			tk = d.Trace.Kind
		}
		if c.debug {
			fmt.Printf("DBG h%d %s call=%d leg=%d %s %s demand=%v trace=%s respErr=%v start=%v end=%v spans=%+v dreq=%+v\n", h.Index, transport, d.Call, d.Leg, d.LegKind, d.Class,
				d.Demand, tk, d.RespErr, start != nil, end != nil, spans, dreq)
		}
		viol := func(what, msg string) {
			hh := h
			hh.Calls = h.Calls[:d.Call+1]
			m, _ := wm.MethodOf(d.Method)
			r.Violation(fmt.Sprintf("%s:%s:%s:%s:%s", fam, d.LegKind, d.Class, m.Kind, what),
				fmt.Sprintf("[%s] call %d leg %d (%s %s): %s", transport, d.Call, d.Leg, d.Class, d.Method, msg),
				map[string]any{"history": hh, "otel": oc, "dispatch": d, "hook_events": evs, "spans": spans, "requests_delta": dreq, "duration_delta": ddur})
		}
		if nStart == 0 {
			// the library did not run the hook for this request: nothing may have been recorded
			r.Class("hook-not-run." + d.Class)
			if len(spans) > 0 || len(dreq) > 0 {
				viol("telemetry-without-dispatch", "spans or request counts appeared although the dispatch hook did not run")
			}
			return
		}
		if nStart > 1 {
			return // C37's subject
		}
		r.Class("transport." + transport)
		r.Class("trace." + tk)
		hookErr := "hook-got-nil-err"
		if end != nil && end.HasErr {
			hookErr = "hook-got-err"
		}
		evaluable := d.Demand && d.NoResponse == ""

		// --- spans
		wantSpans := -1 // unknown
		switch {
		case !oc.Tracing, oc.Sampler == "never":
			wantSpans = 0
		case oc.Sampler == "always":
			wantSpans = 1
		case d.Trace == nil || !d.Trace.Valid: // parent-based, root span
			if d.Trace == nil {
				wantSpans = 1
			}
		case d.Trace.Sampled:
			wantSpans = 1
		default:
			wantSpans = 0
		}
		if wantSpans >= 0 && len(spans) != wantSpans {
			viol(fmt.Sprintf("recording-spans-%d-want-%d", len(spans), wantSpans), fmt.Sprintf("%d recording span(s) started for one dispatch, expected %d (tracing=%v sampler=%s trace=%s)", len(spans), wantSpans, oc.Tracing, oc.Sampler, tk))
		}
		if len(spans) == 0 {
			r.Class("span.none-or-nonrecording")
		}
		for _, s := range spans {
			switch {
			case s.Starts != 1:
				viol("span-started-twice", fmt.Sprintf("span %s saw OnStart %d times", s.ID, s.Starts))
			case s.Ends == 0 && end == nil:
				viol("span-not-ended:end-hook-never-called", fmt.Sprintf("span %s (%s) was started and never ended: the library never ran OnDispatchEnd (quiescent=%v)", s.ID, s.Name, env.Quiescent))
			case s.Ends == 0:
				viol("span-not-ended", fmt.Sprintf("span %s (%s) was started but not ended although OnDispatchEnd returned", s.ID, s.Name))
			case s.Ends > 1:
				viol("span-ended-twice", fmt.Sprintf("span %s saw OnEnd %d times", s.ID, s.Ends))
			default:
				r.Class("span.started-once-ended-once")
			}
			if s.Ends != 1 {
				continue
			}
			if s.Method != d.Method {
				viol("span-method-attribute", fmt.Sprintf("span rpc.method=%q for a call of %q", s.Method, d.Method))
			}
			if evaluable {
				switch {
				case d.RespErr && s.Status == codes.Error.String():
					r.Class("span.status-error-on-failure")
					r.Class("span.status-judged." + fam + "." + d.Class)
				case !d.RespErr && s.Status == codes.Ok.String():
					r.Class("span.status-ok-on-success")
				case d.RespErr:
					viol("span-status-"+strings.ToLower(s.Status)+"-but-call-failed:"+hookErr, "the response reports an error to the client but the span status is "+s.Status)
				default:
					viol("span-status-"+strings.ToLower(s.Status)+"-but-call-succeeded:"+hookErr, "the response reports success but the span status is "+s.Status+" ("+s.StatusDesc+")")
				}
			}
			if d.Trace != nil && d.Trace.Valid {
				if s.TraceID == d.Trace.TraceID && s.ParentTrace == d.Trace.TraceID && s.ParentSpan == d.Trace.SpanID && s.ParentRemote {
					r.Class("span.parented-on-sent-traceparent")
					if d.Trace.State != "" && s.TraceState != "" {
						r.Class("span.tracestate-carried")
					}
				} else {
					viol("span-parent-mismatch:"+strings.SplitN(tk, ":", 2)[0], fmt.Sprintf("sent traceparent %s but the span has trace %s, parent %s/%s remote=%v", d.Trace.Parent, s.TraceID, s.ParentTrace, s.ParentSpan, s.ParentRemote))
				}
			} else if s.ParentValid {
				r.Count("span.parent-valid-without-valid-traceparent."+tk, 1)
			} else {
				r.Class("span.root-without-valid-traceparent")
			}
		}

		// --- request metric
		if !oc.Metrics {
			if len(now["rpc.server.requests"]) > 0 || len(now["rpc.server.duration"]) > 0 {
				viol("metric-recorded-while-disabled", "rpc.server.* instruments carry data although metrics are disabled")
			} else {
				r.Class("metric.absent-when-disabled")
			}
			return
		}
		if end == nil {
			if len(dreq) != 0 {
				viol("request-counted-without-end", "rpc.server.requests changed although OnDispatchEnd did not run")
			}
			viol("request-not-counted:end-hook-never-called", "the request was dispatched but never counted: the library never ran OnDispatchEnd")
			return
		}
		var total int64
		for _, s := range dreq {
			total += s.Value
		}
		if total != 1 || len(dreq) != 1 {
			viol(fmt.Sprintf("request-count-delta-%d", total), fmt.Sprintf("rpc.server.requests grew by %d over %d series for one dispatch", total, len(dreq)))
			return
		}
		got := dreq[0].Attrs
		if got["rpc.method"] != d.Method {
			viol("request-metric-method-attribute", fmt.Sprintf("counted under rpc.method=%q for a call of %q", got["rpc.method"], d.Method))
		}
		if evaluable {
			want := "ok"
			if d.RespErr {
				want = "error"
			}
			if got["status"] == want {
				r.Class("metric.counted-once-status-" + want)
				r.Class("metric.status-judged." + fam + "." + d.Class)
			} else {
				viol("request-metric-status-"+got["status"]+"-want-"+want+":"+hookErr, fmt.Sprintf("the request was counted with status=%q but the response reports %s", got["status"], map[bool]string{true: "an error", false: "success"}[d.RespErr]))
			}
		} else {
			r.Class("metric.counted-once-undemanded")
		}
		var dt int64
		for _, s := range ddur {
			dt += s.Value
		}
		if dt == 1 {
			r.Class("metric.duration-recorded-once")
		} else {
			r.Count("metric.duration-delta-not-1", 1)
		}
	}
	res := env.Run(h)
	if res.Inconclusive != "" {
		r.Inconclusive(fmt.Sprintf("history %d: %s", h.Index, res.Inconclusive))
		return
	}
	if env.ServePanic != "" {
		r.Violation(fam+":session:panic-escaped-serve-loop", "a panic escaped Server.Serve: "+strings.SplitN(env.ServePanic, "\n", 2)[0], map[string]any{"history": h, "otel": oc, "stack": env.ServePanic})
		return
	}
	if !env.Quiescent {
		r.Inconclusive(fmt.Sprintf("history %d (%s): %s", h.Index, transport, env.Problem))
		return
	}
	// anything that happened after the last window
	if late := sp.since(prevSpans); len(late) > 0 || len(res.Stray) > 0 {
		r.Violation(fam+":session-end:late-telemetry", fmt.Sprintf("[%s] %d span(s) / %d hook event(s) appeared after the last request's window", transport, len(late), len(res.Stray)),
			map[string]any{"history": h, "spans": late, "hook_events": res.Stray})
	}
	for _, s := range sp.since(0) {
		if s.Ends != s.Starts {
			r.Count("spans.unbalanced-at-session-end", 1)
		}
	}
	var seq []string
	for _, cl := range h.Calls {
		t := "-"
		if tr := cl.TraceAt(0); tr != nil {
			t = tr.Kind
		}
		seq = append(seq, cl.Class+"/"+t)
	}
	r.Case(mon.Hash(transport, fmt.Sprint(h.Cfg, oc), strings.Join(seq, ",")))
}

func main() {
	r := mon.Start("C43")
	defer r.Finish()
	r.SetRule("history i = 1..6 calls of C37's class list (incl. handler failures with an RpcError of empty Type: bare, %w-wrapped, Kind only; unary, stream init, stream turn) on one connection / HTTP server (transport by i mod 8: pipe x3, in-process HTTP x3, Unix socket, HTTP listener), every request with a drawn trace context (none, valid sampled/unsampled, with good/malformed tracestate, nine malformed traceparent shapes); OTel config by i: tracing on/off, metrics on/off, sampler always/never/parent-based, RecordExceptions on/off, propagator TraceContext alone or composite; distinct = transport x server config x otel config x (class, trace kind) sequence")
	r.Assume("the propagator is configured explicitly (W3C TraceContext): with vgiotel.DefaultConfig and no global propagator set, OTel's default propagator is a no-op and no traceparent is ever honoured")
	r.Assume("'the call failed' = the response reports an error to the client (EXCEPTION batch, status >= 400 or X-VGI-RPC-Error), as in C37; status/outcome demands are made only for dispatched calls in C37's sense")
	r.Assume("the OTel SDK's TracerProvider / ManualReader and the pass-through recorder wrapped around the hook are trusted")
	slog.SetDefault(slog.New(slog.NewTextHandler(io.Discard, nil)))
	svc.SetSink(nil)
	c := &checker{r: r, debug: os.Getenv("C43_DEBUG") != ""}
	if p := r.ReplayPath(); p != "" {
		// ./check C43 quick --replay <file>: re-run the history of a replay file
		var doc struct {
			Witness struct {
				History wm.History `json:"history"`
				Otel    otelCfg    `json:"otel"`
			} `json:"witness"`
		}
		data, err := os.ReadFile(p)
		if err == nil {
			err = json.Unmarshal(data, &doc)
		}
		if err != nil || len(doc.Witness.History.Calls) == 0 {
			r.Fatal("replay file %s: no history in it (%v)", p, err)
		}
		r.Require("replayed-history")
		r.Class("replayed-history")
		c.runGiven(doc.Witness.History, doc.Witness.Otel, nil)
		return
	}
	for _, cl := range wm.UntypedClasses {
		for _, f := range []string{"pipe", "http"} {
			r.Require("span.status-judged."+f+"."+cl, "metric.status-judged."+f+"."+cl)
		}
	}
	r.Require("transport.pipe", "transport.unix", "transport.http", "transport.http-net",
		"tracing.true", "tracing.false", "metrics.true", "metrics.false", "sampler.always", "sampler.never", "sampler.parentbased",
		"span.started-once-ended-once", "span.status-error-on-failure", "span.status-ok-on-success", "span.parented-on-sent-traceparent",
		"span.tracestate-carried", "span.root-without-valid-traceparent", "span.none-or-nonrecording",
		"metric.counted-once-status-ok", "metric.counted-once-status-error", "metric.absent-when-disabled", "metric.duration-recorded-once",
		"trace.none", "trace.valid", "trace.valid-unsampled", "trace.valid+state", "trace.valid+badstate", "trace.bad:short", "trace.bad:upper",
		"trace.bad:zero-trace", "trace.bad:zero-span", "trace.bad:version-ff", "trace.bad:nonhex", "trace.bad:parts", "trace.bad:garbage", "trace.bad:trailing")

	n := r.N(500, 10000)
	workers := 4
	if r.Thorough() {
		workers = min(16, runtime.NumCPU())
	}
	var wg sync.WaitGroup
	for w := 0; w < workers; w++ {
		wg.Add(1)
		go func(w int) {
			defer wg.Done()
			pool := wm.NewPool()
			defer pool.Close()
			for i := w; i < n; i += workers {
				if r.Violated() && i > 60*workers {
					return
				}
				c.runHistory(i, pool)
			}
		}(w)
	}
	wg.Wait()
	wj.ReportRaces(r, false)
}
