// C35 — batches written to shared memory read back identically and pointers
// are safe.
//
// Round-trip arm (in-process): generated batches (flat, nested, top-level
// dictionaries, dictionaries only below the top level, mixed, zero columns,
// sliced arrays, 0..3000 rows, custom metadata incl. keys colliding with the
// pointer keys) are written with AllocateAndWrite / MaybeWriteToShm by one
// library handle and read back with ReadBatch / ResolveShmBatch through a
// SECOND library handle attached by name, after the pointer batch has travelled
// through an IPC stream as it would on the pipe. Oracle: gen.Canon equality of
// schema and values (independent rendering), metadata = original minus pointer
// keys plus the source key; the slot is scribbled through a harness mapping
// right after the read (the result must not alias the segment) and the bytes
// around every slot are a canary pattern that must survive the write.
//
// Hostile arm (child processes, so a SIGSEGV/SIGBUS/fatal error is attributed
// to one case): offset/length strings — non-numeric, empty, signs, hex, spaces,
// 2^63, 2^64-1, offset+length wrapping, inside the header, straddling the end,
// length 0, negative, missing — must give an error, never a panic, never a
// batch that differs from the one in the slot.
package main

import (
	"encoding/json"
	"fmt"
	"math/rand/v2"
	"os"
	"sort"
	"strconv"
	"strings"
	"sync"
	"sync/atomic"
	"time"

	"github.com/Query-farm/vgi-rpc-go/vgirpc"
	"github.com/apache/arrow-go/v18/arrow"
	"github.com/apache/arrow-go/v18/arrow/array"

	"verif/harness/internal/gen"
	"verif/harness/internal/mon"
	"verif/harness/internal/shmref"
)

var parentPID = func() int {
	if v := os.Getenv("C35_PARENT_PID"); v != "" {
		n, _ := strconv.Atoi(v)
		return n
	}
	return os.Getpid()
}()
var namePrefix = fmt.Sprintf("verif_wI_c35_%d_", parentPID)
var nameCtr atomic.Uint64

func newName(tag string) string { return fmt.Sprintf("/%s%s%d", namePrefix, tag, nameCtr.Add(1)) }

// ---------------------------------------------------------------------------
// Schema classes

var schemaClasses = []string{"flat", "nested", "dict-top", "dict-nested-only", "dict-mixed", "zero-cols", "random"}

func dictType(rng *rand.Rand) arrow.DataType {
	idx := []arrow.DataType{arrow.PrimitiveTypes.Int8, arrow.PrimitiveTypes.Int16, arrow.PrimitiveTypes.Int32}[rng.IntN(3)]
	return &arrow.DictionaryType{IndexType: idx, ValueType: arrow.BinaryTypes.String}
}

// nestedWithDict returns a nested type containing a dictionary at depth 1..2.
func nestedWithDict(rng *rand.Rand) arrow.DataType {
	inner := dictType(rng)
	if rng.IntN(3) == 0 { // depth 2
		switch rng.IntN(3) {
		case 0:
			inner = arrow.ListOf(inner)
		case 1:
			inner = arrow.StructOf(arrow.Field{Name: "d", Type: inner, Nullable: true}, arrow.Field{Name: "n", Type: arrow.PrimitiveTypes.Int32, Nullable: true})
		default:
			inner = arrow.MapOf(arrow.BinaryTypes.String, inner)
		}
	}
	switch rng.IntN(3) {
	case 0:
		return arrow.ListOf(inner)
	case 1:
		return arrow.StructOf(arrow.Field{Name: "state", Type: inner, Nullable: true}, arrow.Field{Name: "v", Type: arrow.PrimitiveTypes.Float64, Nullable: true})
	default:
		return arrow.MapOf(arrow.BinaryTypes.String, inner)
	}
}

func hasDict(dt arrow.DataType) bool {
	switch t := dt.(type) {
	case *arrow.DictionaryType:
		return true
	case *arrow.ListType:
		return hasDict(t.Elem())
	case *arrow.MapType:
		return hasDict(t.ItemType()) || hasDict(t.KeyType())
	case *arrow.StructType:
		for _, f := range t.Fields() {
			if hasDict(f.Type) {
				return true
			}
		}
	}
	return false
}

// classify returns what the schema really contains (independent of the class asked for).
func classify(s *arrow.Schema) (top, nested, anyNested bool) {
	for _, f := range s.Fields() {
		if _, ok := f.Type.(*arrow.DictionaryType); ok {
			top = true
			continue
		}
		switch f.Type.(type) {
		case *arrow.ListType, *arrow.MapType, *arrow.StructType:
			anyNested = true
		}
		if hasDict(f.Type) {
			nested = true
		}
	}
	return
}

func makeSchema(rng *rand.Rand, class string) *arrow.Schema {
	switch class {
	case "zero-cols":
		return arrow.NewSchema(nil, nil)
	case "flat":
		return gen.Schema(rng, gen.SchemaOpt{MaxCols: 6, MinCols: 1, FlatOnly: true})
	case "nested":
		s := gen.Schema(rng, gen.SchemaOpt{MaxCols: 4, MinCols: 1, Nested: true})
		fs := append([]arrow.Field{}, s.Fields()...)
		fs = append(fs, arrow.Field{Name: "nest_x", Type: gen.DataType(rng, gen.SchemaOpt{Nested: true}, 2), Nullable: true},
			arrow.Field{Name: "lst", Type: arrow.ListOf(arrow.BinaryTypes.String), Nullable: true})
		return arrow.NewSchema(fs, nil)
	case "random":
		return gen.Schema(rng, gen.SchemaOpt{MaxCols: 6, Nested: true, Dict: true})
	}
	base := gen.Schema(rng, gen.SchemaOpt{MaxCols: 3, Nested: class != "dict-top"})
	fs := append([]arrow.Field{}, base.Fields()...)
	add := func(name string, dt arrow.DataType) {
		f := arrow.Field{Name: name, Type: dt, Nullable: rng.IntN(3) != 0}
		pos := rng.IntN(len(fs) + 1)
		fs = append(fs, arrow.Field{})
		copy(fs[pos+1:], fs[pos:])
		fs[pos] = f
	}
	switch class {
	case "dict-top":
		add("dict_a", dictType(rng))
		if rng.IntN(2) == 0 {
			add("dict_b", dictType(rng))
		}
	case "dict-nested-only":
		add("nd_a", nestedWithDict(rng))
		if rng.IntN(3) == 0 {
			add("nd_b", nestedWithDict(rng))
		}
	case "dict-mixed":
		add("dict_a", dictType(rng))
		add("nd_a", nestedWithDict(rng))
		if rng.IntN(3) == 0 {
			add("dict_b", dictType(rng))
		}
	}
	return arrow.NewSchema(fs, nil)
}

var metaKeys = []string{"k", "vgi_batch_index", "x.y", "données", "empty", "vgi_rpc.request_id", "vgi_rpc.server_id", "traceparent", "a b"}

func makeMeta(rng *rand.Rand) (keys, vals []string) {
	n := rng.IntN(4)
	perm := rng.Perm(len(metaKeys))
	for i := 0; i < n; i++ {
		keys = append(keys, metaKeys[perm[i]])
		v := []string{"", "1", "value", "日本", strings.Repeat("z", 70)}[rng.IntN(5)]
		vals = append(vals, v)
	}
	if rng.IntN(8) == 0 { // original metadata colliding with a pointer key
		keys = append(keys, vgirpc.MetaShmOffset)
		vals = append(vals, "12345")
	}
	if rng.IntN(8) == 0 {
		keys = append(keys, vgirpc.MetaShmLength)
		vals = append(vals, "junk")
	}
	// Domain audit: the original batch already carries the source key (e.g. a batch that
	// was itself resolved from another segment and is forwarded). "Pointer keys replaced by
	// the source key": the resolved batch must name the segment it was read from.
	if rng.IntN(10) == 0 {
		keys = append(keys, vgirpc.MetaShmSource)
		vals = append(vals, "/some_other_segment")
	}
	return
}

// expectMeta renders original metadata minus pointer keys plus the source key.
func expectMeta(keys, vals []string, source string) string {
	var k2, v2 []string
	for i, k := range keys {
		if k == vgirpc.MetaShmOffset || k == vgirpc.MetaShmLength {
			continue
		}
		k2 = append(k2, k)
		v2 = append(v2, vals[i])
	}
	k2 = append(k2, vgirpc.MetaShmSource)
	v2 = append(v2, source)
	return gen.CanonMeta(arrow.NewMetadata(k2, v2), nil)
}

// viaIPC sends a batch through an IPC stream, as it travels on the pipe.
func viaIPC(rec arrow.RecordBatch) (arrow.RecordBatch, error) {
	data := gen.IPCBytes(rec.Schema(), rec)
	_, recs, _, err := gen.ReadIPC(data)
	if err != nil {
		return nil, err
	}
	if len(recs) != 1 {
		return nil, fmt.Errorf("expected 1 batch, got %d", len(recs))
	}
	return recs[0], nil
}

// pointerBatch builds a pointer batch the way a foreign client would.
func pointerBatch(schema *arrow.Schema, keys, vals []string) arrow.RecordBatch {
	cols := make([]arrow.Array, schema.NumFields())
	for i, f := range schema.Fields() {
		b := array.NewBuilder(gen.Mem, f.Type)
		cols[i] = b.NewArray()
		b.Release()
	}
	rec := array.NewRecordBatchWithMetadata(schema, cols, 0, arrow.NewMetadata(keys, vals))
	for _, c := range cols {
		c.Release()
	}
	return rec
}

// ---------------------------------------------------------------------------
// Round-trip arm

type segPair struct {
	name   string
	size   int
	writer *vgirpc.ShmSegment // creator handle
	reader *vgirpc.ShmSegment // attached by name
	second *shmref.Map        // harness mapping (rw)
}

func newSegPair(r *mon.Run, rng *rand.Rand) *segPair {
	size := shmref.HeaderSize + 64*1024 + rng.IntN(1<<20)
	if rng.IntN(4) == 0 {
		size = shmref.HeaderSize + 4096 + rng.IntN(20000) // tight: many batches will not fit
	}
	sp := &segPair{size: size}
	if rng.IntN(2) == 0 {
		w, err := vgirpc.ShmCreate(size)
		if err != nil {
			r.Fatal("ShmCreate: %v", err)
		}
		sp.writer, sp.name = w, w.Name()
	} else {
		sp.name = newName("rt")
		m, err := shmref.Create(sp.name, size)
		if err != nil {
			r.Fatal("shmref.Create: %v", err)
		}
		m.Close()
		w, err := vgirpc.ShmAttach(sp.name, size, true)
		if err != nil {
			r.Fatal("ShmAttach(own layout): %v", err)
		}
		sp.writer = w
	}
	rd, err := vgirpc.ShmAttach(sp.name, size, false)
	if err != nil {
		r.Fatal("ShmAttach reader: %v", err)
	}
	sp.reader = rd
	sp.second, err = shmref.OpenRW(sp.name)
	if err != nil {
		r.Fatal("second mapping: %v", err)
	}
	sp.second.FillCanary()
	return sp
}

func (sp *segPair) close() {
	sp.second.Close()
	_ = sp.reader.Close()
	_ = sp.writer.Close()
	shmref.Unlink(sp.name)
}

// canaryAround checks the canary in a window around [off, off+n) that is not
// covered by any allocation.
func (sp *segPair) canaryAround(off uint64, n int) int {
	h := sp.second.Header()
	lo := int(off) - 8192
	if lo < shmref.HeaderSize {
		lo = shmref.HeaderSize
	}
	hi := int(off) + n + 8192
	if hi > sp.size {
		hi = sp.size
	}
	for i := lo; i < hi; i++ {
		covered := false
		for _, e := range h.Entries {
			if uint64(i) >= e.Off && uint64(i) < e.Off+e.Len {
				covered = true
				i = int(e.Off+e.Len) - 1
				break
			}
		}
		if !covered && sp.second.Data[i] != shmref.CanaryByte(i) {
			return i
		}
	}
	return -1
}

type rtWitness struct {
	Case      int      `json:"case_index"`
	Class     string   `json:"schema_class"`
	Schema    string   `json:"schema"`
	Rows      int64    `json:"rows"`
	MetaKeys  []string `json:"meta_keys"`
	MetaVals  []string `json:"meta_vals"`
	Offset    uint64   `json:"offset"`
	Length    int      `json:"length"`
	Want      string   `json:"want"`
	Got       string   `json:"got"`
	BatchIPC  string   `json:"batch_ipc_b64"`
	Step      string   `json:"step"`
	SegSize   int      `json:"segment_size"`
	ErrorText string   `json:"error,omitempty"`
}

func clip(s string, n int) string {
	if len(s) > n {
		return s[:n] + "…"
	}
	return s
}

func dictTag(top, nested bool) string {
	switch {
	case top && nested:
		return "dict-top+nested"
	case top:
		return "dict-top"
	case nested:
		return "dict-nested"
	}
	return "no-dict"
}

func runRoundTrip(r *mon.Run, idx int, sp *segPair, live *[]uint64) {
	rng := r.Rand(1, uint64(idx))
	class := schemaClasses[idx%len(schemaClasses)]
	schema := makeSchema(rng, class)
	top, nestedDict, anyNested := classify(schema)
	bo := gen.BatchOpt{MaxRows: 30, Slice: true}
	switch rng.IntN(10) {
	case 0:
		bo = gen.BatchOpt{Rows: 0, FixedRows: true}
	case 1:
		bo.MaxRows = 3000
	case 2:
		bo = gen.BatchOpt{Rows: 1, FixedRows: true, Slice: true}
	}
	keys, vals := makeMeta(rng)
	plain := gen.Batch(rng, schema, bo)
	defer plain.Release()
	var orig arrow.RecordBatch = plain
	if len(keys) > 0 {
		orig = gen.WithMeta(plain, keys, vals)
		defer orig.Release()
	}
	wantValues := gen.CanonValues(orig)
	tag := dictTag(top, nestedDict)
	sliced := false
	for i := 0; i < int(orig.NumCols()); i++ {
		if orig.Column(i).Data().Offset() != 0 {
			sliced = true
		}
	}
	wit := func(step string, off uint64, ln int, want, got string, err error) rtWitness {
		w := rtWitness{Case: idx, Class: class, Schema: schema.String(), Rows: orig.NumRows(), MetaKeys: keys, MetaVals: vals,
			Offset: off, Length: ln, Want: clip(want, 4000), Got: clip(got, 4000), Step: step, SegSize: sp.size}
		if data := gen.IPCBytes(orig.Schema(), orig); len(data) < 200000 {
			w.BatchIPC = gen.B64(data)
		}
		if err != nil {
			w.ErrorText = err.Error()
		}
		return w
	}

	// ---- path A: AllocateAndWrite -> ReadBatch through the other handle
	off, ln, ok, err := sp.writer.AllocateAndWrite(orig)
	if err != nil {
		r.Violation("write:error:"+tag, fmt.Sprintf("AllocateAndWrite failed on a generated batch: %v", err), wit("AllocateAndWrite", 0, 0, "", "", err))
		return
	}
	if !ok {
		r.Class("write-refused-no-fit")
		r.Case("")
		return
	}
	// the slot is in the table exactly as reported
	inTable := false
	for _, e := range sp.second.Header().Entries {
		if e.Off == off && e.Len == uint64(ln) {
			inTable = true
		}
	}
	if !inTable {
		r.Violation("write:slot-not-in-table", fmt.Sprintf("AllocateAndWrite returned (%d,%d) but the table (second mapping) has no such entry", off, ln), wit("AllocateAndWrite", off, ln, "", shmref.Key(sp.second.Header().Entries), nil))
		return
	}
	if bad := sp.canaryAround(off, ln); bad >= 0 {
		r.Violation("write:outside-slot:"+tag, fmt.Sprintf("writing slot [%d,%d) changed byte %d outside every allocation", off, off+uint64(ln), bad), wit("AllocateAndWrite", off, ln, "", "", nil))
		return
	}
	// the pointer's schema, as the receiver sees it (fresh schema object)
	// a foreign client's pointer: drop colliding originals first (keys must be unique)
	var fk, fv []string
	for i, k := range keys {
		if k != vgirpc.MetaShmOffset && k != vgirpc.MetaShmLength {
			fk, fv = append(fk, k), append(fv, vals[i])
		}
	}
	fk = append(fk, vgirpc.MetaShmOffset, vgirpc.MetaShmLength)
	fv = append(fv, strconv.FormatUint(off, 10), strconv.Itoa(ln))
	hp := pointerBatch(schema, fk, fv)
	hpWire, werr := viaIPC(hp)
	hp.Release()
	if werr != nil {
		r.Fatal("pointer batch through IPC: %v", werr)
	}
	defer hpWire.Release()

	got, rerr := sp.reader.ReadBatch(off, ln, hpWire.Schema())
	// scribble the slot through the harness mapping: the result must not alias it
	saved := append([]byte(nil), sp.second.Data[off:off+uint64(ln)]...)
	for i := range saved {
		sp.second.Data[int(off)+i] = 0x5A
	}
	if rerr != nil {
		copy(sp.second.Data[off:], saved)
		r.Violation("read:error:"+tag, fmt.Sprintf("ReadBatch failed on a slot just written: %v", rerr), wit("ReadBatch", off, ln, wantValues, "", rerr))
		_ = sp.writer.FreeOffset(off)
		sp.second.FillRange(int(off), ln)
		return
	}
	gotValues := gen.CanonValues(got)
	got.Release()
	copy(sp.second.Data[off:], saved)
	if gotValues != wantValues {
		r.Violation("read:differs:"+tag, "ReadBatch result differs from the written batch (schema or values)", wit("ReadBatch", off, ln, wantValues, gotValues, nil))
		_ = sp.writer.FreeOffset(off)
		sp.second.FillRange(int(off), ln)
		return
	}

	// ---- path A': foreign-built pointer -> ResolveShmBatch
	res, relOff, rel, err := vgirpc.ResolveShmBatch(hpWire, sp.reader)
	if err != nil {
		r.Violation("resolve:error:"+tag, fmt.Sprintf("ResolveShmBatch failed on a valid pointer: %v", err), wit("ResolveShmBatch(foreign pointer)", off, ln, wantValues, "", err))
	} else {
		gv, gm := gen.CanonValues(res), gen.CanonMeta(gen.MetaOf(res), nil)
		res.Release()
		wm := expectMeta(fk[:len(fk)-2], fv[:len(fv)-2], sp.reader.Name())
		switch {
		case gv != wantValues:
			r.Violation("resolve:differs:"+tag, "ResolveShmBatch result differs from the written batch", wit("ResolveShmBatch(foreign pointer)", off, ln, wantValues, gv, nil))
		case gm != wm:
			r.Violation("resolve:metadata", "resolved metadata is not original minus pointer keys plus source key", wit("ResolveShmBatch(foreign pointer)", off, ln, wm, gm, nil))
		case !rel || relOff != off:
			r.Violation("resolve:release-offset", fmt.Sprintf("ResolveShmBatch returned release=%v offset=%d for a pointer at %d", rel, relOff, off), wit("ResolveShmBatch(foreign pointer)", off, ln, "", "", nil))
		}
	}
	if ferr := sp.reader.FreeOffset(off); ferr != nil {
		r.Violation("free:after-resolve", fmt.Sprintf("FreeOffset(%d) after resolve failed: %v", off, ferr), wit("FreeOffset", off, ln, "", "", ferr))
	}
	sp.second.FillRange(int(off), ln)

	// ---- path B: MaybeWriteToShm -> pipe -> ResolveShmBatch
	ptr, replaced, err := vgirpc.MaybeWriteToShm(orig, sp.writer)
	switch {
	case err != nil:
		r.Violation("maybe-write:error:"+tag, fmt.Sprintf("MaybeWriteToShm failed: %v", err), wit("MaybeWriteToShm", 0, 0, "", "", err))
	case orig.NumRows() == 0:
		if replaced || ptr != orig {
			r.Violation("maybe-write:empty-batch-replaced", "MaybeWriteToShm replaced an empty batch (documented: returned unchanged)", wit("MaybeWriteToShm", 0, 0, "", "", nil))
		}
		r.Class("empty-batch-not-shipped")
	case !replaced:
		r.Class("maybe-write-no-fit")
	default:
		pm := gen.MetaMap(ptr)
		o2, e1 := strconv.ParseUint(pm[vgirpc.MetaShmOffset], 10, 64)
		l2, e2 := strconv.Atoi(pm[vgirpc.MetaShmLength])
		okShape := e1 == nil && e2 == nil && ptr.NumRows() == 0 && gen.SchemaFingerprint(ptr.Schema()) == gen.SchemaFingerprint(schema) && vgirpc.IsShmPointerBatch(ptr)
		if !okShape {
			r.Violation("maybe-write:pointer-shape", "MaybeWriteToShm did not return a zero-row pointer batch of the same schema with decimal offset/length", wit("MaybeWriteToShm", o2, l2, "", gen.Canon(ptr), nil))
			ptr.Release()
			break
		}
		if bad := sp.canaryAround(o2, l2); bad >= 0 {
			r.Violation("write:outside-slot:"+tag, fmt.Sprintf("writing slot [%d,%d) changed byte %d outside every allocation", o2, o2+uint64(l2), bad), wit("MaybeWriteToShm", o2, l2, "", "", nil))
		}
		wire, werr := viaIPC(ptr)
		ptr.Release()
		if werr != nil {
			r.Fatal("pointer batch through IPC: %v", werr)
		}
		res, relOff, rel, err := vgirpc.ResolveShmBatch(wire, sp.reader)
		// scribble before rendering
		saved := append([]byte(nil), sp.second.Data[o2:o2+uint64(l2)]...)
		for i := range saved {
			sp.second.Data[int(o2)+i] = 0xA5
		}
		if err != nil {
			r.Violation("resolve:error:"+tag, fmt.Sprintf("ResolveShmBatch failed on the pointer MaybeWriteToShm produced: %v", err), wit("ResolveShmBatch", o2, l2, wantValues, "", err))
		} else {
			gv, gm := gen.CanonValues(res), gen.CanonMeta(gen.MetaOf(res), nil)
			res.Release()
			wm := expectMeta(keys, vals, sp.reader.Name())
			switch {
			case gv != wantValues:
				r.Violation("resolve:differs:"+tag, "ResolveShmBatch result differs from the written batch", wit("MaybeWriteToShm->ResolveShmBatch", o2, l2, wantValues, gv, nil))
			case gm != wm:
				r.Violation("resolve:metadata", "resolved metadata is not original minus pointer keys plus source key", wit("MaybeWriteToShm->ResolveShmBatch", o2, l2, wm, gm, nil))
			case !rel || relOff != o2:
				r.Violation("resolve:release-offset", fmt.Sprintf("release=%v offset=%d for a pointer at %d", rel, relOff, o2), wit("MaybeWriteToShm->ResolveShmBatch", o2, l2, "", "", nil))
			}
		}
		wire.Release()
		copy(sp.second.Data[o2:], saved)
		// keep some slots alive so later offsets vary; free the rest
		if rng.IntN(3) == 0 && len(*live) < 6 {
			*live = append(*live, o2)
		} else {
			if ferr := sp.reader.FreeOffset(o2); ferr != nil {
				r.Violation("free:after-resolve", fmt.Sprintf("FreeOffset(%d) after resolve failed: %v", o2, ferr), wit("FreeOffset", o2, l2, "", "", ferr))
			}
			sp.second.FillRange(int(o2), l2)
		}
		if len(*live) > 0 && rng.IntN(3) == 0 {
			k := rng.IntN(len(*live))
			lo := (*live)[k]
			for _, e := range sp.second.Header().Entries {
				if e.Off == lo {
					_ = sp.writer.FreeOffset(lo)
					sp.second.FillRange(int(e.Off), int(e.Len))
				}
			}
			*live = append((*live)[:k], (*live)[k+1:]...)
		}
		r.Class("shipped-via-maybe-write")
	}

	if !top && !nestedDict && schema.NumFields() > 0 && rng.IntN(2) == 0 {
		runTwins(r, idx, sp, rng, schema)
	}

	r.Class("class:" + class)
	r.Class(tag)
	if sliced {
		r.Class("sliced-arrays")
	}
	if anyNested {
		r.Class("nested-columns")
	}
	if orig.NumRows() == 0 {
		r.Class("rows=0")
	} else if orig.NumRows() > 500 {
		r.Class("rows>500")
	}
	if len(keys) > 0 {
		r.Class("with-metadata")
	}
	for _, k := range keys {
		if k == vgirpc.MetaShmOffset || k == vgirpc.MetaShmLength {
			r.Class("metadata-collides-with-pointer-keys")
		}
		if k == vgirpc.MetaShmSource {
			r.Class("metadata-already-has-source-key")
		}
	}
	r.Case(fmt.Sprintf("rt|%s|rows=%d|%v|%s", gen.SchemaFingerprint(schema), orig.NumRows(), sliced, strings.Join(keys, ",")))
	if idx < 4 {
		r.Sample(map[string]any{"arm": "round-trip", "schema": schema.String(), "rows": orig.NumRows(), "meta_keys": keys, "offset": off, "length": ln})
	}
}

// runTwins writes, into the SAME segment, batches under "twin" schemas:
// identical column names/types/nullability, differing only in schema-level
// metadata, field-level metadata, or the naming/nullability of a list child
// field. "Reads back equal in schema" must hold for each of them, in the
// order written: whatever the segment remembers about the first twin must not
// leak into the second. (Dictionary-free schemas only: those are stored as
// self-contained streams carrying their own schema message.)
func runTwins(r *mon.Run, idx int, sp *segPair, rng *rand.Rand, base *arrow.Schema) {
	fields := append([]arrow.Field(nil), base.Fields()...)
	mk := func(kind string, variant int) *arrow.Schema {
		fs := append([]arrow.Field(nil), fields...)
		var md *arrow.Metadata
		switch kind {
		case "schema-metadata":
			m := arrow.NewMetadata([]string{"unit", "table_version"}, []string{[]string{"celsius", "kelvin"}[variant], fmt.Sprint(variant + 1)})
			md = &m
		case "field-metadata":
			fs[0].Metadata = arrow.NewMetadata([]string{"semantic"}, []string{[]string{"id", "label"}[variant]})
		case "list-child-name":
			fs = append(fs, arrow.Field{Name: "twin_list", Nullable: true,
				Type: arrow.ListOfField(arrow.Field{Name: []string{"item", "element"}[variant], Type: arrow.PrimitiveTypes.Int32, Nullable: true})})
		case "list-child-nullability":
			fs = append(fs, arrow.Field{Name: "twin_list", Nullable: true,
				Type: arrow.ListOfField(arrow.Field{Name: "item", Type: arrow.PrimitiveTypes.Int32, Nullable: variant == 0})})
		}
		return arrow.NewSchema(fs, md)
	}
	kinds := []string{"schema-metadata", "field-metadata", "list-child-name", "list-child-nullability"}
	kind := kinds[rng.IntN(len(kinds))]
	order := []int{0, 1}
	if rng.IntN(2) == 0 {
		order = []int{1, 0}
	}
	for step, variant := range order {
		sc := mk(kind, variant)
		rec := gen.Batch(rng, sc, gen.BatchOpt{Rows: 1 + rng.IntN(4), FixedRows: true})
		want := gen.SchemaStrict(sc)
		wantValues := gen.CanonValues(rec)
		off, ln, ok, err := sp.writer.AllocateAndWrite(rec)
		rec.Release()
		if err != nil || !ok {
			r.Class("twin:write-refused")
			return
		}
		hp := pointerBatch(sc, []string{vgirpc.MetaShmOffset, vgirpc.MetaShmLength}, []string{strconv.FormatUint(off, 10), strconv.Itoa(ln)})
		wire, werr := viaIPC(hp)
		hp.Release()
		if werr != nil {
			r.Fatal("twin pointer batch through IPC: %v", werr)
		}
		wit := map[string]any{"case": idx, "kind": kind, "step": step, "variant": variant, "order": order, "schema_written": want, "offset": off, "length": ln}
		got, rerr := sp.reader.ReadBatch(off, ln, wire.Schema())
		if rerr != nil {
			r.Violation("read:error:twin:"+kind, fmt.Sprintf("ReadBatch failed on a twin-schema slot: %v", rerr), wit)
		} else {
			gs, gv := gen.SchemaStrict(got.Schema()), gen.CanonValues(got)
			got.Release()
			if gs != want {
				wit["schema_read"] = gs
				r.Violation(fmt.Sprintf("read:schema-differs:twin:%s:written-%s", kind, []string{"first", "second"}[step]),
					"a batch written under a schema that differs from an earlier one in this segment only in "+kind+" read back with another schema", wit)
			} else if gv != wantValues {
				r.Violation("read:differs:twin:"+kind, "twin-schema batch read back with other values", wit)
			}
		}
		res, _, _, err := vgirpc.ResolveShmBatch(wire, sp.reader)
		if err != nil {
			r.Violation("resolve:error:twin:"+kind, fmt.Sprintf("ResolveShmBatch failed on a twin-schema pointer: %v", err), wit)
		} else {
			gs := gen.SchemaStrict(res.Schema())
			res.Release()
			if gs != want {
				wit["schema_resolved"] = gs
				r.Violation(fmt.Sprintf("resolve:schema-differs:twin:%s:written-%s", kind, []string{"first", "second"}[step]),
					"a pointer to a batch written under a twin schema resolved to a batch with another schema", wit)
			}
		}
		wire.Release()
		_ = sp.reader.FreeOffset(off)
		sp.second.FillRange(int(off), ln)
		r.Case(fmt.Sprintf("twin|%s|%d|%d|%s", kind, step, variant, gen.SchemaFingerprint(base)))
	}
	r.Class("twin:" + kind)
}

// ---------------------------------------------------------------------------
// Hostile arm

const (
	mustErr = "must-error"
	lenient = "error-or-exact-batch"
	noCrash = "no-crash-only"
)

type hostileIn struct {
	Case  int    `json:"case"`
	Seed  uint64 `json:"seed"`
	Kind  string `json:"kind"`
	Class string `json:"schema_class"`
	Name  string `json:"segment_name"`
}

type hostileOut struct {
	OffStr   string `json:"offset_string"`
	LenStr   string `json:"length_string"`
	HasLen   bool   `json:"has_length_key"`
	SlotOff  uint64 `json:"slot_offset"`
	SlotLen  int    `json:"slot_length"`
	SegSize  int    `json:"segment_size"`
	Expect   string `json:"expect"`
	Err      string `json:"error,omitempty"`
	NilErr   bool   `json:"nil_error"`
	Equal    bool   `json:"result_equals_slot_batch"`
	Release  bool   `json:"release"`
	RelOff   uint64 `json:"release_offset"`
	Setup    string `json:"setup_error,omitempty"`
	Schema   string `json:"schema"`
	TableOK  bool   `json:"table_unchanged"`
	DirectRB string `json:"direct_readbatch,omitempty"` // observation only
	Micros   int64  `json:"resolve_micros"`             // observation only
}

var hostileKinds = []string{
	// malformed offsets
	"off-empty", "off-alpha", "off-hex", "off-exp", "off-float", "off-minus1", "off-minus-valid", "off-2^64", "off-huge-digits",
	"off-fullwidth", "off-nul", "off-inner-space", "off-nan", "off-minus-space",
	// lenient offsets (some integer parsers accept them)
	"off-plus", "off-lead-space", "off-trail-space", "off-lead-zero", "off-newline",
	// malformed lengths
	"len-empty", "len-alpha", "len-hex", "len-float", "len-2^63", "len-2^64-1", "len-fullwidth", "len-missing", "len-inner-space",
	// negative lengths
	"len-minus1", "len-minus-valid", "len-min-int64", "len-minus-zero",
	// lenient lengths
	"len-plus", "len-lead-zero", "len-lead-space",
	// zero
	"len-zero", "off-size-len-zero", "off-past-size-len-zero",
	// overflow
	"off-2^64-1", "off-2^63", "wrap-small", "wrap-to-slot-end", "len-max-int64", "off-2^63-len-max",
	// out of segment
	"off-eq-size", "straddle-end-1", "straddle-end-len", "len-eq-size", "off-past-size",
	// inside the header
	"header-start", "header-entries", "header-from-data-size", "header-into-data",
	// inside the segment, longer than the slot (reader must stop at the end of the stream)
	"overlong-in-segment",
	// unallocated canary bytes inside the segment
	"canary-region",
}

var expectOf = map[string]string{}

func init() {
	for _, k := range hostileKinds {
		switch {
		case strings.HasPrefix(k, "off-plus"), k == "off-lead-space", k == "off-trail-space", k == "off-lead-zero", k == "off-newline",
			k == "len-plus", k == "len-lead-zero", k == "len-lead-space", k == "overlong-in-segment":
			expectOf[k] = lenient
		case k == "canary-region":
			expectOf[k] = noCrash
		default:
			expectOf[k] = mustErr
		}
	}
}

func hostileStrings(kind string, off uint64, ln, size int, rng *rand.Rand) (offStr, lenStr string, hasLen bool) {
	o, l := strconv.FormatUint(off, 10), strconv.Itoa(ln)
	hasLen = true
	switch kind {
	case "off-empty":
		return "", l, true
	case "off-alpha":
		return []string{"abc", "offset", "x" + o, o + "x"}[rng.IntN(4)], l, true
	case "off-hex":
		return fmt.Sprintf("0x%x", off), l, true
	case "off-exp":
		return "1e5", l, true
	case "off-float":
		return o + ".0", l, true
	case "off-minus1":
		return "-1", l, true
	case "off-minus-valid":
		return "-" + o, l, true
	case "off-2^64":
		return "18446744073709551616", l, true
	case "off-huge-digits":
		return "99999999999999999999999999", l, true
	case "off-fullwidth":
		return "６５５３６", l, true
	case "off-nul":
		return o + "\x00", l, true
	case "off-inner-space":
		return o[:1] + " " + o[1:], l, true
	case "off-nan":
		return "NaN", l, true
	case "off-minus-space":
		return "- 5", l, true
	case "off-plus":
		return "+" + o, l, true
	case "off-lead-space":
		return " " + o, l, true
	case "off-trail-space":
		return o + " ", l, true
	case "off-lead-zero":
		return "00" + o, l, true
	case "off-newline":
		return o + "\n", l, true
	case "len-empty":
		return o, "", true
	case "len-alpha":
		return o, []string{"abc", "length", l + "b", "b" + l}[rng.IntN(4)], true
	case "len-hex":
		return o, fmt.Sprintf("0x%x", ln), true
	case "len-float":
		return o, l + ".5", true
	case "len-2^63":
		return o, "9223372036854775808", true
	case "len-2^64-1":
		return o, "18446744073709551615", true
	case "len-fullwidth":
		return o, "１２８", true
	case "len-missing":
		return o, "", false
	case "len-inner-space":
		return o, l[:1] + " " + l[1:] + "0", true
	case "len-minus1":
		return o, "-1", true
	case "len-minus-valid":
		return o, "-" + l, true
	case "len-min-int64":
		return o, "-9223372036854775808", true
	case "len-minus-zero":
		return o, "-0", true
	case "len-plus":
		return o, "+" + l, true
	case "len-lead-zero":
		return o, "000" + l, true
	case "len-lead-space":
		return o, " " + l, true
	case "len-zero":
		return o, "0", true
	case "off-size-len-zero":
		return strconv.Itoa(size), "0", true
	case "off-past-size-len-zero":
		return strconv.Itoa(size + 1 + rng.IntN(100000)), "0", true
	case "off-2^64-1":
		return "18446744073709551615", l, true
	case "off-2^63":
		return "9223372036854775808", l, true
	case "wrap-small":
		k := 1 + rng.IntN(ln)
		return strconv.FormatUint(^uint64(0)-uint64(k)+1, 10), l, true // off = 2^64-k, end = ln-k
	case "wrap-to-slot-end":
		// off + len == slot end (mod 2^64) with off far outside
		big := uint64(1)<<63 + off
		return strconv.FormatUint(big, 10), strconv.FormatUint(uint64(1)<<63-1, 10), true
	case "len-max-int64":
		return o, "9223372036854775807", true
	case "off-2^63-len-max":
		return "9223372036854775809", "9223372036854775807", true
	case "off-eq-size":
		return strconv.Itoa(size), "1", true
	case "straddle-end-1":
		return strconv.Itoa(size - 1), "2", true
	case "straddle-end-len":
		return strconv.Itoa(size - ln + 1 + rng.IntN(ln-1)), l, true
	case "len-eq-size":
		return o, strconv.Itoa(size), true
	case "off-past-size":
		return strconv.Itoa(size + 1 + rng.IntN(1<<20)), l, true
	case "header-start":
		return "0", "24", true
	case "header-entries":
		return "24", "16", true
	case "header-from-data-size":
		return "8", "65528", true // starts at the data_size field, runs to the end of the header
	case "header-into-data":
		return strconv.Itoa(shmref.HeaderSize - 8), strconv.Itoa(ln + 8), true
	case "overlong-in-segment":
		return o, strconv.Itoa(ln + 1 + rng.IntN(size-int(off)-ln)), true
	case "canary-region":
		free := int(off) + ln
		return strconv.Itoa(free + rng.IntN(size-free-64)), "64", true
	}
	panic("unknown hostile kind " + kind)
}

// hostileChild runs one hostile case inside a child process.
func hostileChild(in []byte) []byte {
	var hi hostileIn
	if err := json.Unmarshal(in, &hi); err != nil {
		return []byte(`{"setup_error":"bad input"}`)
	}
	out := hostileOut{Expect: expectOf[hi.Kind]}
	fail := func(format string, a ...any) []byte {
		out.Setup = fmt.Sprintf(format, a...)
		b, _ := json.Marshal(out)
		return b
	}
	rng := rand.New(rand.NewPCG(hi.Seed, 0xC35))
	size := shmref.HeaderSize + 70000 + rng.IntN(200000)
	out.SegSize = size
	m, err := shmref.Create(hi.Name, size)
	if err != nil {
		return fail("create: %v", err)
	}
	defer shmref.Unlink(hi.Name)
	defer m.Close()
	m.FillCanary()
	seg, err := vgirpc.ShmAttach(hi.Name, size, false)
	if err != nil {
		return fail("attach: %v", err)
	}
	defer seg.Close()
	// a decoy slot first, so the target is not at the very start of the data area
	if rng.IntN(2) == 0 {
		vgirpc.VerifShmAllocate(seg, 1+rng.IntN(3000))
	}
	schema := makeSchema(rng, hi.Class)
	out.Schema = schema.String()
	rec := gen.Batch(rng, schema, gen.BatchOpt{Rows: 1 + rng.IntN(40), FixedRows: true, Slice: true})
	defer rec.Release()
	off, ln, ok, err := seg.AllocateAndWrite(rec)
	if err != nil || !ok {
		return fail("write: ok=%v err=%v", ok, err)
	}
	out.SlotOff, out.SlotLen = off, ln
	want := gen.CanonValues(rec)
	tableBefore := shmref.Key(m.Header().Entries)

	out.OffStr, out.LenStr, out.HasLen = hostileStrings(hi.Kind, off, ln, size, rng)
	keys, vals := []string{"k", vgirpc.MetaShmOffset}, []string{"v", out.OffStr}
	if out.HasLen {
		keys, vals = append(keys, vgirpc.MetaShmLength), append(vals, out.LenStr)
	}
	p := pointerBatch(schema, keys, vals)
	wire, err := viaIPC(p)
	p.Release()
	if err != nil {
		return fail("pointer via IPC: %v", err)
	}
	defer wire.Release()
	if !vgirpc.IsShmPointerBatch(wire) {
		return fail("IsShmPointerBatch=false for a zero-row batch with %s", vgirpc.MetaShmOffset)
	}
	// ---- the call under observation (a panic escapes to the child loop -> Panicked)
	tStart := time.Now()
	res, relOff, rel, rerr := vgirpc.ResolveShmBatch(wire, seg)
	out.Micros = time.Since(tStart).Microseconds()
	out.Release, out.RelOff = rel, relOff
	if rerr != nil {
		out.Err = clip(rerr.Error(), 300)
		if res != nil && res != wire {
			// documented: on error the batch is left unresolved / nil
		}
	} else {
		out.NilErr = true
		if res != nil {
			out.Equal = gen.CanonValues(res) == want
			if res != wire {
				res.Release()
			}
		}
	}
	out.TableOK = shmref.Key(m.Header().Entries) == tableBefore

	// Observation only (no verdict): the same numbers handed straight to ReadBatch.
	if o, e1 := strconv.ParseUint(out.OffStr, 10, 64); e1 == nil {
		if l, e2 := strconv.Atoi(out.LenStr); e2 == nil && out.HasLen {
			out.DirectRB = func() (s string) {
				defer func() {
					if rv := recover(); rv != nil {
						s = "panic"
					}
				}()
				b, e := seg.ReadBatch(o, l, wire.Schema())
				if e != nil {
					return "error"
				}
				b.Release()
				return "batch"
			}()
		}
	}
	b, _ := json.Marshal(out)
	return b
}

func kindGroup(kind string) string {
	switch {
	case strings.HasPrefix(kind, "header-"):
		return "inside-header"
	case strings.HasPrefix(kind, "wrap-"), kind == "off-2^64-1", kind == "off-2^63", kind == "len-max-int64", kind == "off-2^63-len-max":
		return "overflow"
	case strings.HasPrefix(kind, "straddle"), kind == "off-eq-size", kind == "len-eq-size", kind == "off-past-size":
		return "out-of-segment"
	case strings.Contains(kind, "zero") && !strings.Contains(kind, "lead-zero"):
		return "length-zero"
	case kind == "len-minus1", kind == "len-minus-valid", kind == "len-min-int64":
		return "negative-length"
	case kind == "off-minus1", kind == "off-minus-valid", kind == "off-minus-space":
		return "negative-offset"
	case expectOf[kind] == lenient:
		return "lenient-spelling"
	case kind == "canary-region":
		return "unallocated-region"
	}
	return "malformed"
}

func runHostile(r *mon.Run, n int, parallel int) {
	inputs := make([][]byte, n)
	ins := make([]hostileIn, n)
	rng := r.Rand(2)
	hClasses := []string{"flat", "dict-top", "dict-nested-only", "dict-mixed", "nested"}
	for i := 0; i < n; i++ {
		kind := hostileKinds[i%len(hostileKinds)]
		if kind == "header-start" && i >= len(hostileKinds) {
			// The header begins with "VGIS": read as a legacy IPC length prefix that is a
			// 1.4 GB metadata buffer which the Arrow reader allocates before failing; a
			// second allocation of that size in one process takes ~50 s here. One case
			// per run (round 0); later rounds use the cheap header kinds.
			kind = []string{"header-entries", "header-into-data", "header-from-data-size"}[(i/len(hostileKinds))%3]
		}
		ins[i] = hostileIn{Case: i, Seed: rng.Uint64(), Kind: kind, Class: hClasses[(i/len(hostileKinds))%len(hClasses)],
			Name: fmt.Sprintf("/%sh%d", namePrefix, i)}
		inputs[i], _ = json.Marshal(ins[i])
	}
	outs := make([]mon.Outcome, n)
	var wg sync.WaitGroup
	chunk := (n + parallel - 1) / parallel
	var firstErr atomic.Value
	for w := 0; w < parallel; w++ {
		lo, hi := w*chunk, min((w+1)*chunk, n)
		if lo >= hi {
			break
		}
		wg.Add(1)
		go func() {
			defer wg.Done()
			part, err := mon.RunIsolated("hostile", inputs[lo:hi], mon.ChildOpt{VMemKiB: 8 << 20, BatchSize: 4000, Timeout: 8 * time.Minute,
				Env: []string{fmt.Sprintf("C35_PARENT_PID=%d", os.Getpid())}})
			if err != nil {
				firstErr.Store(err)
				return
			}
			for i, o := range part {
				outs[lo+i] = o
			}
		}()
	}
	wg.Wait()
	if e := firstErr.Load(); e != nil {
		r.Fatal("RunIsolated: %v", e)
	}
	shmref.CleanupPrefix(namePrefix + "h")

	counts := map[string]int64{}
	micros := map[string]int64{}
	defer func() {
		type kv struct {
			k string
			v int64
		}
		var l []kv
		for k, v := range micros {
			l = append(l, kv{k, v})
		}
		sort.Slice(l, func(i, j int) bool { return l[i].v > l[j].v })
		for i := 0; i < len(l) && i < 6; i++ {
			fmt.Printf("hostile: resolve time by kind: %-24s %8.1f ms total\n", l[i].k, float64(l[i].v)/1000)
		}
	}()
	for i, o := range outs {
		in := ins[i]
		grp := kindGroup(in.Kind)
		witness := map[string]any{"input": in, "detail": clip(o.Detail, 5000)}
		switch {
		case o.TimedOut:
			r.Inconclusive(fmt.Sprintf("hostile case %d (%s) hit the child watchdog", i, in.Kind))
			continue
		case o.Crashed:
			r.Violation("hostile:"+grp+":process-crash", fmt.Sprintf("child process died inside ResolveShmBatch case %s (see detail: signal / fatal error)", in.Kind), witness)
			counts["crashed"]++
			continue
		case o.Panicked:
			r.Violation("hostile:"+grp+":panic", fmt.Sprintf("a panic escaped ResolveShmBatch for pointer kind %s", in.Kind), witness)
			counts["panicked"]++
			continue
		}
		var ho hostileOut
		if err := json.Unmarshal(o.Output, &ho); err != nil {
			r.Fatal("child output: %v (%q)", err, clip(string(o.Output), 200))
		}
		if ho.Setup != "" {
			r.Fatal("hostile case %d setup failed: %s", i, ho.Setup)
		}
		witness["observed"] = ho
		r.Class("hostile:" + grp)
		if strings.Contains(in.Class, "dict-top") || in.Class == "dict-mixed" {
			r.Class("hostile:top-level-dictionary-schema")
		}
		r.Case(fmt.Sprintf("hostile|%s|%s|%q|%q", in.Kind, in.Class, ho.OffStr, ho.LenStr))
		if i < 3 {
			r.Sample(map[string]any{"arm": "hostile", "kind": in.Kind, "offset_string": ho.OffStr, "length_string": ho.LenStr, "error": ho.Err})
		}
		if ho.DirectRB != "" {
			counts["direct_readbatch."+ho.DirectRB]++
		}
		micros[in.Kind] += ho.Micros
		if !ho.TableOK {
			r.Violation("hostile:"+grp+":table-changed", fmt.Sprintf("resolving a %s pointer changed the allocation table", in.Kind), witness)
		}
		switch {
		case !ho.NilErr:
			counts["outcome.error"]++
			if strings.Contains(ho.Err, "panic") {
				counts["outcome.error-from-recovered-panic"]++
			}
			if ho.Release {
				r.Violation("hostile:"+grp+":release-on-error", "ResolveShmBatch returned an error together with release=true", witness)
			}
		case ho.Expect == mustErr:
			r.Violation("hostile:"+grp+":nil-error", fmt.Sprintf("ResolveShmBatch accepted pointer kind %s (offset %q length %q) without an error", in.Kind, ho.OffStr, ho.LenStr), witness)
		case ho.Expect == lenient:
			counts["outcome.lenient-accepted"]++
			if !ho.Equal {
				r.Violation("hostile:"+grp+":wrong-batch", fmt.Sprintf("pointer kind %s resolved without error to a batch that differs from the slot's batch", in.Kind), witness)
			}
		default:
			counts["outcome.nocrash-accepted"]++
		}
	}
	for k, v := range counts {
		r.Count("hostile."+k, v)
	}
}

// ---------------------------------------------------------------------------

func main() {
	mon.ChildMain(map[string]mon.ChildFunc{"hostile": hostileChild})
	r := mon.Start("C35")
	defer r.Finish()
	defer shmref.CleanupPrefix(namePrefix)
	if os.Getenv("VGI_RPC_SHM_MIN_BATCH_BYTES") != "0" {
		r.Fatal("C35 needs VGI_RPC_SHM_MIN_BATCH_BYTES=0 (check.conf CHECK_ENV) so MaybeWriteToShm ships every non-empty batch")
	}
	r.SetRule("round trip: case i = (schema class i mod 7: flat/nested/dict-top/dict-nested-only/dict-mixed/zero-cols/random, rows, slicing, metadata) from (VERIF_SEED, i); written by one library handle, read by a second handle attached by name after the pointer travelled through an IPC stream; distinct = distinct (schema fingerprint, rows, sliced, metadata keys). hostile: case j = pointer kind j mod len(kinds) x schema class, run in child processes; distinct = distinct (kind, class, offset string, length string). trivial = batch did not fit the segment")
	r.Assume("equality oracle = gen.Canon* rendering (independent of arrow's own comparisons)")
	r.Assume("'malformed' is judged conservatively: spellings that common integer parsers accept (+N, leading zeros, surrounding blanks) may be refused or resolved to the exact batch; everything else in the statement's list must be an error")
	r.Assume("a pointer whose region lies inside the allocator header is expected to be refused (header bytes are not an IPC stream)")
	r.Assume("direct ReadBatch(offset,length) with the hostile numbers is recorded as an observation only: the statement speaks about pointers (ResolveShmBatch)")
	req := []string{"no-dict", "dict-top", "dict-nested", "dict-top+nested", "class:zero-cols", "class:nested", "sliced-arrays", "nested-columns",
		"rows=0", "rows>500", "with-metadata", "twin:schema-metadata", "twin:field-metadata", "twin:list-child-name", "twin:list-child-nullability", "metadata-collides-with-pointer-keys", "metadata-already-has-source-key", "shipped-via-maybe-write", "empty-batch-not-shipped", "write-refused-no-fit"}
	for _, g := range []string{"malformed", "negative-length", "negative-offset", "overflow", "out-of-segment", "length-zero", "inside-header", "lenient-spelling", "unallocated-region", "top-level-dictionary-schema"} {
		req = append(req, "hostile:"+g)
	}
	r.Require(req...)

	nRT := r.N(3000, 200000)
	nHost := len(hostileKinds) * r.N(40, 1800)
	workers := r.N(4, 16)

	var wg sync.WaitGroup
	var next atomic.Int64
	t0 := time.Now()
	for w := 0; w < workers; w++ {
		wg.Add(1)
		go func(w int) {
			defer wg.Done()
			var sp *segPair
			var live []uint64
			used := 0
			for {
				i := int(next.Add(1)) - 1
				if i >= nRT {
					break
				}
				if sp == nil || used >= 40 {
					if sp != nil {
						// full canary scan before dropping the segment
						if bad := sp.second.CanaryIntact(sp.second.Header().Entries); bad >= 0 {
							r.Violation("write:outside-slot:full-scan", fmt.Sprintf("byte %d outside every allocation lost its canary value", bad), map[string]any{"segment_size": sp.size, "last_case": i - 1})
						}
						sp.close()
					}
					sp = newSegPair(r, r.Rand(3, uint64(i)))
					live = nil
					used = 0
				}
				used++
				runRoundTrip(r, i, sp, &live)
			}
			if sp != nil {
				sp.close()
			}
		}(w)
	}
	wg.Wait()
	r.Set("wall_round_trip_arm_s", time.Since(t0).Seconds())
	t0 = time.Now()

	runHostile(r, nHost, r.N(4, 12))
	r.Set("wall_hostile_arm_s", time.Since(t0).Seconds())
	r.Set("hostile_kinds", len(hostileKinds))
	kinds := append([]string{}, hostileKinds...)
	sort.Strings(kinds)
	r.Set("hostile_kind_list", strings.Join(kinds, " "))
}
