// C42 — socket listeners serve connections independently and shut down only
// when idle.
//
// Real RunUnix / RunTcp listeners (-race build) with an idle timeout of
// 150..600 ms are driven by 1..32 concurrent raw-socket clients (own framing:
// one request IPC stream out, one response IPC stream in), each issuing
// unique-valued echo calls. Real time is part of this property (documented
// exception); every deciding comparison is one-sided and sound under arbitrary
// scheduling delay, measured times are kept in the evidence, and measurements
// within 2 ms of a bound are classified inconclusive.
//
// Refuting observations:
//   - a response on connection A carrying another call's value / request id;
//   - Run* returned while a connection that had already been answered was not
//     yet closed by its client;
//   - Run* returned although the client-side timeline has no window of length
//     >= idleTimeout without a demonstrably open connection (the server's own
//     zero-connection period is contained in such a window: it starts after
//     the server noticed a close, i.e. after the client's Close call, and ends
//     before the next Accept, i.e. before that client's first response);
//   - a connect + call issued before last_close + idleTimeout failing;
//   - Run* not returned although every connection has been closed for
//     idleTimeout + 15 s (goroutine dump attached);
//   - Unix socket file not a 0600 socket at onBound / while serving, or still
//     present after return.
package main

import (
	"context"
	"fmt"
	"math/rand/v2"
	"net"
	"os"
	"path/filepath"
	"runtime"
	"sort"
	"strings"
	"sync"
	"sync/atomic"
	"time"

	"github.com/Query-farm/vgi-rpc-go/vgirpc"

	"verif/harness/internal/mon"
	"verif/harness/internal/wj"
)

type echoParams struct {
	V int64 `vgirpc:"v"`
}

type connSpec struct {
	Calls    int     `json:"calls"`
	PauseUs  []int64 `json:"pause_us"`
	StartUs  int64   `json:"start_us"`            // delay after the burst starts
	HoldIdle float64 `json:"hold_idle,omitempty"` // stay open (silent) for this multiple of idleTimeout before the last call
}

type schedSpec struct {
	Index     int          `json:"index"`
	Transport string       `json:"transport"`
	IdleMs    int64        `json:"idle_ms"`
	Bursts    [][]connSpec `json:"bursts"`
	GapFrac   []float64    `json:"gap_frac"` // gap after burst i as a fraction of idleTimeout (< 1: the listener must survive it)
	LateUs    int64        `json:"late_connect_delta_us"`
	Late      bool         `json:"late_connect"`
	HandlerUs int64        `json:"handler_sleep_us"`
}

type connRec struct {
	ID        string `json:"id"`
	Burst     int    `json:"burst"`
	DialStart int64  `json:"dial_start_ns"`
	DialEnd   int64  `json:"dial_end_ns"`
	FailedAt  int64  `json:"failed_at_ns,omitempty"` // when a dial/call error was observed
	DialErr   string `json:"dial_err,omitempty"`
	FirstResp int64  `json:"first_response_ns"` // 0 = never answered
	CloseCall int64  `json:"close_call_ns"`     // 0 = not closed
	CallErr   string `json:"call_err,omitempty"`
	Calls     int    `json:"calls_answered"`
}

func genSpec(rng *rand.Rand, idx int) schedSpec {
	sp := schedSpec{Index: idx, Transport: []string{"unix", "tcp"}[idx%2], IdleMs: 150 + rng.Int64N(451), HandlerUs: rng.Int64N(2000)}
	nb := 1 + rng.IntN(3)
	budget := 32
	for b := 0; b < nb; b++ {
		n := 1 + rng.IntN(12)
		if rng.IntN(4) == 0 {
			n = 1 + rng.IntN(32)
		}
		if n > budget {
			n = budget
		}
		if n < 1 {
			n = 1
		}
		budget -= n
		var burst []connSpec
		for i := 0; i < n; i++ {
			c := connSpec{Calls: 1 + rng.IntN(5), StartUs: rng.Int64N(30000)}
			for k := 0; k < c.Calls; k++ {
				c.PauseUs = append(c.PauseUs, rng.Int64N(15000))
			}
			burst = append(burst, c)
		}
		// One connection in some schedules stays open and silent for 3x the
		// idle timeout, then is used again.
		if idx%3 == 0 && b == 0 {
			burst[0].HoldIdle = 3
			if burst[0].Calls < 2 {
				burst[0].Calls = 2
				burst[0].PauseUs = append(burst[0].PauseUs, 0)
			}
		}
		sp.Bursts = append(sp.Bursts, burst)
		sp.GapFrac = append(sp.GapFrac, 0.2+0.6*rng.Float64())
		if budget == 0 {
			break
		}
	}
	sp.Late = idx%2 == 0 || idx%5 == 0
	deltas := []int64{-20000, -5000, -1000, 0, 1000, 5000, 20000}
	sp.LateUs = deltas[rng.IntN(len(deltas))]
	return sp
}

func dumpGoroutines() string {
	buf := make([]byte, 1<<20)
	return string(buf[:runtime.Stack(buf, true)])
}

type sched struct {
	r    *mon.Run
	sp   schedSpec
	log  *mon.Log
	idle time.Duration

	network, addr string
	sockPath      string

	mu    sync.Mutex
	conns []*connRec

	returned   atomic.Int64 // log time of Run* return, 0 = not yet
	runErr     atomic.Value
	crossTalk  atomic.Int64
	lastResp   atomic.Int64 // log time of the latest response received by any client
	modeBad    atomic.Value // string
	valSeq     atomic.Int64
	violations int
}

// call writes one echo request and reads one response stream.
func (s *sched) call(c net.Conn, v int64, reqID string) (int64, string, error) {
	_ = c.SetDeadline(time.Now().Add(30 * time.Second))
	if _, err := c.Write(wj.BuildRequest("echo", reqID, []wj.P{{Name: "v", V: v}}, "vgi_rpc.log_level", "INFO")); err != nil {
		return 0, "", err
	}
	resp, err := wj.ReadOneStream(c)
	if err != nil {
		return 0, "", err
	}
	if eb := resp.FirstError(); eb != nil {
		return 0, "", fmt.Errorf("error batch: %s", eb.Meta["vgi_rpc.log_message"])
	}
	vals := resp.DataInt64()
	if len(vals) != 1 {
		return 0, "", fmt.Errorf("response carries %d values", len(vals))
	}
	// The handler's log batch echoes the request id and names the value the
	// handler saw; the result batch itself carries no id.
	rid := reqID
	for _, b := range resp.Batches {
		if b.Kind != "log" {
			continue
		}
		s.r.Class("log-batch-with-request-id")
		if got := b.Meta["vgi_rpc.request_id"]; got != reqID {
			rid = got
		}
		if msg := b.Meta["vgi_rpc.log_message"]; msg != fmt.Sprintf("echo v=%d", v) {
			rid = "log:" + msg
		}
	}
	return vals[0], rid, nil
}

// runConn runs one client connection to completion.
func (s *sched) runConn(burst int, id string, cs connSpec) *connRec {
	rec := &connRec{ID: id, Burst: burst}
	s.mu.Lock()
	s.conns = append(s.conns, rec)
	s.mu.Unlock()
	set := func(f func()) { s.mu.Lock(); f(); s.mu.Unlock() }
	t := s.log.Now()
	set(func() { rec.DialStart = t })
	c, err := net.DialTimeout(s.network, s.addr, 20*time.Second)
	t = s.log.Now()
	set(func() { rec.DialEnd = t })
	if err != nil {
		set(func() { rec.DialErr = err.Error(); rec.FailedAt = t })
		return rec
	}
	for k := 0; k < cs.Calls; k++ {
		if cs.HoldIdle > 0 && k == cs.Calls-1 {
			time.Sleep(time.Duration(cs.HoldIdle * float64(s.idle)))
		} else if k < len(cs.PauseUs) && cs.PauseUs[k] > 0 {
			time.Sleep(time.Duration(cs.PauseUs[k]) * time.Microsecond)
		}
		v := s.valSeq.Add(1)*1000 + int64(k)
		reqID := fmt.Sprintf("%s-k%d", id, k)
		got, rid, err := s.call(c, v, reqID)
		now := s.log.Now()
		if err != nil {
			set(func() { rec.CallErr = err.Error(); rec.FailedAt = now })
			break
		}
		for {
			old := s.lastResp.Load()
			if now <= old || s.lastResp.CompareAndSwap(old, now) {
				break
			}
		}
		set(func() {
			if rec.FirstResp == 0 {
				rec.FirstResp = now
			}
			rec.Calls++
		})
		if got != v || rid != reqID {
			s.crossTalk.Add(1)
			s.r.Violation("cross-talk:"+s.sp.Transport, fmt.Sprintf("connection %s sent value %d (request id %s) and received value %d (request id %s)", id, v, reqID, got, rid),
				map[string]any{"schedule": s.sp, "connection": id})
		}
	}
	t = s.log.Now()
	set(func() { rec.CloseCall = t })
	_ = c.Close()
	return rec
}

func runSchedule(r *mon.Run, idx int, tmpdir string) {
	rng := r.Rand(uint64(idx))
	sp := genSpec(rng, idx)
	s := &sched{r: r, sp: sp, log: mon.NewLog(), idle: time.Duration(sp.IdleMs) * time.Millisecond}
	srv := vgirpc.NewServer()
	srv.SetServerID(fmt.Sprintf("c42-%d", idx))
	vgirpc.Unary(srv, "echo", func(_ context.Context, c *vgirpc.CallContext, p echoParams) (int64, error) {
		if sp.HandlerUs > 0 {
			time.Sleep(time.Duration(rand.Int64N(sp.HandlerUs+1)) * time.Microsecond)
		}
		c.ClientLog(vgirpc.LogInfo, fmt.Sprintf("echo v=%d", p.V))
		return p.V, nil
	})

	bound := make(chan struct{})
	var boundAt int64
	checkMode := func(when string) {
		if sp.Transport != "unix" {
			return
		}
		fi, err := os.Lstat(s.sockPath)
		switch {
		case err != nil:
			s.modeBad.CompareAndSwap(nil, when+": "+err.Error())
		case fi.Mode()&os.ModeSocket == 0:
			s.modeBad.CompareAndSwap(nil, fmt.Sprintf("%s: not a socket (%v)", when, fi.Mode()))
		case fi.Mode().Perm() != 0o600:
			s.modeBad.CompareAndSwap(nil, fmt.Sprintf("%s: mode %04o", when, fi.Mode().Perm()))
		}
	}
	go func() {
		var err error
		if sp.Transport == "unix" {
			s.network = "unix"
			s.sockPath = filepath.Join(tmpdir, fmt.Sprintf("s%d.sock", idx))
			s.addr = s.sockPath
			err = srv.RunUnix(s.sockPath, s.idle, func(string) {
				checkMode("onBound")
				boundAt = s.log.Now()
				close(bound)
			})
		} else {
			s.network = "tcp"
			err = srv.RunTcp("127.0.0.1", 0, s.idle, func(host string, port int) {
				s.addr = net.JoinHostPort(host, fmt.Sprint(port))
				boundAt = s.log.Now()
				close(bound)
			})
		}
		if err != nil {
			s.runErr.Store(err.Error())
		}
		s.returned.Store(s.log.Now())
	}()
	select {
	case <-bound:
	case <-time.After(30 * time.Second):
		r.Inconclusive(fmt.Sprintf("schedule %d: listener not bound within 30 s (%v)", idx, s.runErr.Load()))
		return
	}

	witness := func(extra map[string]any) map[string]any {
		s.mu.Lock()
		cs := make([]connRec, 0, len(s.conns))
		for _, c := range s.conns {
			cs = append(cs, *c)
		}
		s.mu.Unlock()
		m := map[string]any{"schedule": sp, "bound_at_ns": boundAt, "returned_at_ns": s.returned.Load(), "connections": cs, "idle_ns": int64(s.idle)}
		for k, v := range extra {
			m[k] = v
		}
		return m
	}

	// Mode sampler while serving. A sample counts only if some response was
	// received after it was taken: the file is removed after the last
	// connection has been served, never before.
	type modeSample struct {
		at  int64
		bad string
	}
	var samples []modeSample
	stopSampler := make(chan struct{})
	var samplerWG sync.WaitGroup
	samplerWG.Add(1)
	go func() {
		defer samplerWG.Done()
		if sp.Transport != "unix" {
			return
		}
		for {
			select {
			case <-stopSampler:
				return
			case <-time.After(15 * time.Millisecond):
				at := s.log.Now()
				fi, err := os.Lstat(s.sockPath)
				ms := modeSample{at: at}
				switch {
				case os.IsNotExist(err):
					// The listener's Close() unlinks the file as soon as the idle
					// timer fires, possibly while a last racing connection is
					// still being served. An absent file is not a mode defect.
				case err != nil:
					ms.bad = err.Error()
				case fi.Mode()&os.ModeSocket == 0:
					ms.bad = fmt.Sprintf("not a socket (%v)", fi.Mode())
				case fi.Mode().Perm() != 0o600:
					ms.bad = fmt.Sprintf("mode %04o", fi.Mode().Perm())
				}
				samples = append(samples, ms)
			}
		}
	}()
	samplerStopped := false
	stopSamplerNow := func() {
		if !samplerStopped {
			samplerStopped = true
			close(stopSampler)
			samplerWG.Wait()
		}
	}
	defer stopSamplerNow()

	lastClose := func() int64 {
		s.mu.Lock()
		defer s.mu.Unlock()
		var m int64
		for _, c := range s.conns {
			if c.CloseCall > m {
				m = c.CloseCall
			}
		}
		return m
	}

	stoppedEarly := false
bursts:
	for b, burst := range sp.Bursts {
		var wg sync.WaitGroup
		recs := make([]*connRec, len(burst))
		for i, cs := range burst {
			wg.Add(1)
			go func(i int, cs connSpec) {
				defer wg.Done()
				time.Sleep(time.Duration(cs.StartUs) * time.Microsecond)
				recs[i] = s.runConn(b, fmt.Sprintf("s%d-b%d-c%d", idx, b, i), cs)
			}(i, cs)
		}
		wg.Wait()
		// A connection that got no answer means the listener is gone; whether it
		// was entitled to be gone is judged over the whole timeline below.
		for _, rec := range recs {
			if rec.DialErr != "" || rec.FirstResp == 0 {
				stoppedEarly = true
			}
		}
		if stoppedEarly || s.returned.Load() != 0 {
			break bursts
		}
		if b < len(sp.Bursts)-1 {
			time.Sleep(time.Duration(sp.GapFrac[b] * float64(s.idle)))
			r.Class("sub-timeout-gap-between-bursts")
		}
	}

	// Late connect around the timer: idle + delta after the last close.
	if sp.Late && !stoppedEarly && s.returned.Load() == 0 {
		target := lastClose() + int64(s.idle) + sp.LateUs*1000
		if d := time.Duration(target - s.log.Now()); d > 0 {
			time.Sleep(d)
		}
		// A small volley 300 us apart: the interesting window (a connection
		// accepted while the timer callback is closing the listener) is narrow.
		var lw sync.WaitGroup
		for v := 0; v < 4; v++ {
			lw.Add(1)
			go func(v int) {
				defer lw.Done()
				time.Sleep(time.Duration(v) * 300 * time.Microsecond)
				rec := s.runConn(len(sp.Bursts), fmt.Sprintf("s%d-late%d", idx, v), connSpec{Calls: 2, PauseUs: []int64{0, 30000}})
				if rec.FirstResp != 0 {
					r.Class("late-connect-served")
				} else {
					r.Class("late-connect-not-served")
				}
			}(v)
		}
		lw.Wait()
	}

	// Wait for the return: bounded-progress restatement.
	allClosed := lastClose()
	limit := time.Duration(allClosed-s.log.Now()) + s.idle + 15*time.Second
	deadline := time.Now().Add(limit)
	for s.returned.Load() == 0 && time.Now().Before(deadline) {
		time.Sleep(2 * time.Millisecond)
	}
	ret := s.returned.Load()
	if ret == 0 {
		r.Violation("not-returned-after-idle:"+sp.Transport, fmt.Sprintf("Run* (%s) has not returned although no connection has been open for idleTimeout (%d ms) + 15 s", sp.Transport, sp.IdleMs),
			witness(map[string]any{"goroutines": dumpGoroutines(), "now_ns": s.log.Now()}))
		return
	}
	if e := s.runErr.Load(); e != nil {
		r.Fatal("schedule %d: Run%s returned error: %v", idx, sp.Transport, e)
	}

	// --- verdicts over the timeline
	s.mu.Lock()
	conns := make([]connRec, 0, len(s.conns))
	for _, c := range s.conns {
		conns = append(conns, *c)
	}
	s.mu.Unlock()
	type iv struct{ from, to int64 }
	var open []iv
	for _, c := range conns {
		if c.FirstResp == 0 {
			continue
		}
		to := c.CloseCall
		if to == 0 {
			to = 1 << 62
		}
		if c.FirstResp < ret && to > ret {
			r.Violation("returned-while-connection-open:"+sp.Transport, fmt.Sprintf("Run* returned at %.1f ms while connection %s (answered at %.1f ms) was only closed by its client at %.1f ms", float64(ret)/1e6, c.ID, float64(c.FirstResp)/1e6, float64(c.CloseCall)/1e6), witness(nil))
		}
		open = append(open, iv{c.FirstResp, to})
	}
	sort.Slice(open, func(i, j int) bool { return open[i].from < open[j].from })
	// windowBefore returns the largest window inside [bound, x] with no
	// demonstrably open connection that starts at a close (best), and the
	// window that starts at bind time (startGap; it needs the 60 s start-up
	// grace instead of idleTimeout).
	windowBefore := func(x int64) (best, startGap int64) {
		best = -1
		cover := boundAt
		first := true
		for _, o := range open {
			if o.from > x {
				break
			}
			if o.from > cover {
				g := o.from - cover
				if first {
					startGap = g
				} else if g > best {
					best = g
				}
			}
			first = false
			if o.to > cover {
				cover = o.to
			}
		}
		if x > cover {
			g := x - cover
			if first {
				startGap = g
			} else if g > best {
				best = g
			}
		}
		return best, startGap
	}
	best, startGap := windowBefore(ret)
	grace := int64(s.idle)
	if grace < int64(60*time.Second) {
		grace = int64(60 * time.Second)
	}
	justified := best >= int64(s.idle) || startGap >= grace
	near := !justified && best >= int64(s.idle)-int64(2*time.Millisecond)
	switch {
	case justified:
		r.Class("returned-after-idle-window")
	case near:
		r.Inconclusive(fmt.Sprintf("schedule %d: largest idle window %.3f ms is within 2 ms of idleTimeout %d ms", idx, float64(best)/1e6, sp.IdleMs))
	default:
		r.Violation("stopped-without-idle-period:"+sp.Transport, fmt.Sprintf("Run* returned at %.1f ms but the longest window without an open connection is %.1f ms < idleTimeout %d ms", float64(ret)/1e6, float64(best)/1e6, sp.IdleMs), witness(nil))
	}
	stopSamplerNow()
	nSamples := 0
	for _, ms := range samples {
		if ms.at < s.lastResp.Load() {
			nSamples++
			if ms.bad != "" {
				s.modeBad.CompareAndSwap(nil, "while-serving: "+ms.bad)
			}
		}
	}
	r.Count("socket_mode_samples_while_serving", int64(nSamples))
	// A connection that had demonstrably failed at time x proves the listener
	// was gone at x: the same window must exist before x.
	for _, c := range conns {
		if c.FirstResp != 0 || c.FailedAt == 0 {
			continue
		}
		if strings.Contains(c.DialErr+c.CallErr, "timeout") {
			r.Inconclusive(fmt.Sprintf("schedule %d: client watchdog fired on connection %s (%s%s)", idx, c.ID, c.DialErr, c.CallErr))
			continue
		}
		fb, fs := windowBefore(c.FailedAt)
		switch {
		case fb >= int64(s.idle) || fs >= grace:
			r.Class("connection-refused-after-idle-window(legitimate)")
		case fb >= int64(s.idle)-int64(2*time.Millisecond):
			r.Inconclusive(fmt.Sprintf("schedule %d: connection failed with the largest idle window %.3f ms within 2 ms of idleTimeout %d ms", idx, float64(fb)/1e6, sp.IdleMs))
		default:
			r.Violation("listener-stopped-before-idle-period:"+sp.Transport, fmt.Sprintf("connection %s had failed at %.1f ms (%s%s) but the longest window without an open connection before that is %.1f ms < idleTimeout %d ms", c.ID, float64(c.FailedAt)/1e6, c.DialErr, c.CallErr, float64(fb)/1e6, sp.IdleMs), witness(map[string]any{"connection": c.ID}))
		}
	}
	if sp.Transport == "unix" {
		if m := s.modeBad.Load(); m != nil {
			r.Violation("socket-file-mode:"+strings.SplitN(m.(string), ":", 2)[0], "unix socket file is not an owner-only socket: "+m.(string), witness(nil))
		} else {
			r.Class("socket-mode-0600")
		}
		if _, err := os.Lstat(s.sockPath); err == nil {
			r.Violation("socket-file-left-behind", "unix socket file still exists after RunUnix returned", witness(nil))
		} else {
			r.Class("socket-file-removed")
		}
	}
	nAnswered, maxConc := 0, 0
	for _, c := range conns {
		if c.FirstResp != 0 {
			nAnswered++
		}
	}
	for _, o := range open {
		n := 0
		for _, p := range open {
			if p.from <= o.from && p.to > o.from {
				n++
			}
		}
		if n > maxConc {
			maxConc = n
		}
	}
	if maxConc >= 2 {
		r.Class("concurrent-connections")
	}
	for _, b := range sp.Bursts {
		if b[0].HoldIdle > 0 {
			r.Class("connection-held-open-3x-idle")
		}
	}
	r.Class("transport:" + sp.Transport)
	r.Case(fmt.Sprintf("%s|idle=%d|conns=%d|conc=%d|late=%v/%d", sp.Transport, sp.IdleMs/50, nAnswered, maxConc, sp.Late, sp.LateUs))
	r.Count("connections_answered", int64(nAnswered))
	r.Count("return_minus_lastclose_ms_total", (ret-allClosed)/1e6)
	if idx < 4 {
		r.Sample(map[string]any{"schedule": sp, "bound_ms": float64(boundAt) / 1e6, "last_close_ms": float64(allClosed) / 1e6, "returned_ms": float64(ret) / 1e6,
			"largest_idle_window_ms": float64(best) / 1e6, "idle_ms": sp.IdleMs})
	}
}

func main() {
	r := mon.Start("C42")
	defer r.Finish()
	r.SetRule("one case = one listener lifetime: transport unix|tcp, idleTimeout 150..600 ms, 1..3 bursts of 1..32 concurrent connections with 1..5 unique-valued echo calls each, sub-timeout gaps between bursts, optional connection held open silently for 3x idleTimeout, optional late connect at last_close+idleTimeout+delta (delta -20..+20 ms); distinct = distinct (transport, idle bucket, answered connections, max concurrency, late-connect) tuples")
	r.Assume("documented real-time exception: Go timers never fire early and both sides use the process monotonic clock, so 'return implies a client-visible window >= idleTimeout without an answered-and-unclosed connection' is sound under any scheduling delay; the 15 s liveness margin is the bounded-progress restatement from DESIGN.md")
	r.Assume("a connection counts as open from the moment its first response was fully read until its client calls Close")
	r.Require("log-batch-with-request-id", "transport:unix", "transport:tcp", "concurrent-connections", "connection-held-open-3x-idle", "sub-timeout-gap-between-bursts", "returned-after-idle-window",
		"socket-mode-0600", "socket-file-removed", "late-connect-served", "late-connect-not-served")
	tmpdir, err := os.MkdirTemp("", "wj-c42-")
	if err != nil {
		r.Fatal("mkdtemp: %v", err)
	}
	defer os.RemoveAll(tmpdir)
	n := r.N(36, 3000)
	par := r.N(6, 12)
	ch := make(chan int)
	var wg sync.WaitGroup
	for p := 0; p < par; p++ {
		wg.Add(1)
		go func() {
			defer wg.Done()
			for i := range ch {
				runSchedule(r, i, tmpdir)
			}
		}()
	}
	for i := 0; i < n; i++ {
		ch <- i
	}
	close(ch)
	wg.Wait()
	os.RemoveAll(tmpdir)
	wj.ReportRaces(r, false)
}
