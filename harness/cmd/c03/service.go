package main

// The service the C03 check registers on the servers under test: a unary
// method with many parameter kinds (pointer fields with default= tags, an
// enum, containers, embedded ArrowSerializable values), small unary methods, a
// producer (with and without header), an exchange and a dynamic stream. The
// handlers are deliberately boring: every outcome the check looks at is the
// *framework's* reaction to the bytes a client sent.

import (
	"context"
	"fmt"
	"reflect"

	"github.com/apache/arrow-go/v18/arrow"
	"github.com/apache/arrow-go/v18/arrow/array"
	"github.com/apache/arrow-go/v18/arrow/memory"

	"github.com/Query-farm/vgi-rpc-go/vgirpc"
)

// Inner is an ArrowSerializable value: a binary column of IPC bytes when it is
// a method parameter.
type Inner struct {
	A int64    `arrow:"a"`
	S string   `arrow:"s"`
	F *float64 `arrow:"f"`
}

func (Inner) ArrowSchema() *arrow.Schema {
	return arrow.NewSchema([]arrow.Field{
		{Name: "a", Type: arrow.PrimitiveTypes.Int64},
		{Name: "s", Type: arrow.BinaryTypes.String},
		{Name: "f", Type: arrow.PrimitiveTypes.Float64, Nullable: true},
	}, nil)
}

type UParams struct {
	Name  string           `vgirpc:"name"`
	N     int64            `vgirpc:"n,default=7"`
	Opt   *string          `vgirpc:"opt,default=dflt"`
	OptI  *int64           `vgirpc:"opt_i,default=5"`
	OptF  *float64         `vgirpc:"opt_f"`
	OptB  *bool            `vgirpc:"opt_b,default=true"`
	F     float64          `vgirpc:"f"`
	B     bool             `vgirpc:"b"`
	Blob  []byte           `vgirpc:"blob"`
	Color string           `vgirpc:"color,enum"`
	Tags  []string         `vgirpc:"tags"`
	KV    map[string]int64 `vgirpc:"kv"`
	In    Inner            `vgirpc:"inner"`
	InP   *Inner           `vgirpc:"inner_p"`
	I32   int32            `vgirpc:"i32,int32"`
	LS    string           `vgirpc:"ls,large_string"`
}

type SmallParams struct {
	X int64 `vgirpc:"x"`
}
type VoidParams struct {
	Msg string `vgirpc:"msg"`
}
type InnerParams struct {
	In Inner `vgirpc:"inner"`
}
type NoParams struct{}
type CountParams struct {
	N int64 `vgirpc:"n"`
}
type ScaleParams struct {
	Factor float64 `vgirpc:"factor"`
}
type ModeParams struct {
	Mode string `vgirpc:"mode"`
}

var (
	countSchema = arrow.NewSchema([]arrow.Field{{Name: "i", Type: arrow.PrimitiveTypes.Int64}}, nil)
	valSchema   = arrow.NewSchema([]arrow.Field{{Name: "v", Type: arrow.PrimitiveTypes.Float64}}, nil)
)

// clampN keeps a producer finite whatever n a (possibly corrupted) request
// carries: over HTTP without a batch limit the framework runs Produce until the
// state finishes, so an unbounded n would be the *service* hanging the call.
func clampN(n int64) int64 {
	if n < 0 {
		return 0
	}
	if n > 8 {
		return 8
	}
	return n
}

// CountState is a producer state: emits i = I, I+1, .. N-1 then finishes.
type CountState struct{ I, N int64 }

func (s *CountState) Produce(_ context.Context, out *vgirpc.OutputCollector, _ *vgirpc.CallContext) error {
	if s.I >= s.N || s.I < 0 || s.N > 8 {
		return out.Finish()
	}
	b := array.NewInt64Builder(memory.DefaultAllocator)
	defer b.Release()
	b.Append(s.I)
	s.I++
	arr := b.NewArray()
	defer arr.Release()
	return out.EmitArrays([]arrow.Array{arr}, 1)
}

// ScaleState is an exchange state: v -> v*Factor, row by row.
type ScaleState struct {
	Factor float64
	Turns  int64
}

func (s *ScaleState) Exchange(_ context.Context, in arrow.RecordBatch, out *vgirpc.OutputCollector, _ *vgirpc.CallContext) error {
	s.Turns++
	b := array.NewFloat64Builder(memory.DefaultAllocator)
	defer b.Release()
	if in.NumCols() > 0 {
		if col, ok := in.Column(0).(*array.Float64); ok {
			for i := 0; i < col.Len(); i++ {
				if col.IsNull(i) {
					b.AppendNull()
				} else {
					b.Append(col.Value(i) * s.Factor)
				}
			}
		}
	}
	arr := b.NewArray()
	defer arr.Release()
	return out.EmitArrays([]arrow.Array{arr}, int64(arr.Len()))
}

// BoomState panics in every callback the framework invokes on a stream state:
// the framework promises to keep user panics inside the RPC boundary, and the
// check needs to see that promise kept on every route (it is what the
// "remove a recover wrapper" sensitivity mutants break).
type BoomState struct{ Kind string }

func (s *BoomState) Produce(context.Context, *vgirpc.OutputCollector, *vgirpc.CallContext) error {
	panic("boom in Produce")
}

type BoomXState struct{ Kind string }

func (s *BoomXState) Exchange(context.Context, arrow.RecordBatch, *vgirpc.OutputCollector, *vgirpc.CallContext) error {
	panic("boom in Exchange")
}
func (s *BoomXState) OnCancel(context.Context, *vgirpc.CallContext) error { panic("boom in OnCancel") }

// SessionState is what u_open binds to a sticky session.
type SessionState struct{ Opened string }

func registerService(s *vgirpc.Server) {
	vgirpc.RegisterStateType(&CountState{})
	vgirpc.RegisterStateType(&ScaleState{})
	vgirpc.RegisterStateType(&BoomState{})
	vgirpc.RegisterStateType(&BoomXState{})
	vgirpc.Unary(s, "u_boom", func(_ context.Context, _ *vgirpc.CallContext, p SmallParams) (int64, error) {
		panic("boom in unary handler")
	})
	vgirpc.Producer(s, "p_initboom", countSchema, func(_ context.Context, _ *vgirpc.CallContext, p SmallParams) (*vgirpc.StreamResult, error) {
		panic("boom in stream init")
	})
	vgirpc.Producer(s, "p_boom", countSchema, func(_ context.Context, _ *vgirpc.CallContext, p SmallParams) (*vgirpc.StreamResult, error) {
		return &vgirpc.StreamResult{OutputSchema: countSchema, State: &BoomState{Kind: "p"}}, nil
	})
	vgirpc.Exchange(s, "x_boom", valSchema, valSchema, func(_ context.Context, _ *vgirpc.CallContext, p SmallParams) (*vgirpc.StreamResult, error) {
		return &vgirpc.StreamResult{OutputSchema: valSchema, InputSchema: valSchema, State: &BoomXState{Kind: "x"}}, nil
	})

	vgirpc.Unary(s, "u_echo", func(_ context.Context, _ *vgirpc.CallContext, p UParams) (string, error) {
		return fmt.Sprintf("echo:%s:%d", p.Name, p.N), nil
	})
	vgirpc.Unary(s, "u_small", func(_ context.Context, _ *vgirpc.CallContext, p SmallParams) (int64, error) {
		return p.X + 1, nil
	})
	vgirpc.UnaryVoid(s, "u_void", func(_ context.Context, c *vgirpc.CallContext, p VoidParams) error {
		c.ClientLog(vgirpc.LogInfo, "void called")
		return nil
	})
	vgirpc.Unary(s, "u_inner", func(_ context.Context, _ *vgirpc.CallContext, p InnerParams) (Inner, error) {
		p.In.A++
		return p.In, nil
	})
	vgirpc.Unary(s, "u_none", func(_ context.Context, _ *vgirpc.CallContext, _ NoParams) (string, error) {
		return "none", nil
	})
	vgirpc.Unary(s, "u_open", func(_ context.Context, c *vgirpc.CallContext, p VoidParams) (string, error) {
		if err := c.OpenSession(&SessionState{Opened: p.Msg}, 0); err != nil {
			return "", err
		}
		return "opened", nil
	})
	vgirpc.Producer(s, "p_count", countSchema, func(_ context.Context, _ *vgirpc.CallContext, p CountParams) (*vgirpc.StreamResult, error) {
		return &vgirpc.StreamResult{OutputSchema: countSchema, State: &CountState{N: clampN(p.N)}}, nil
	})
	vgirpc.ProducerWithHeader(s, "p_hdr", countSchema, Inner{}.ArrowSchema(), func(_ context.Context, _ *vgirpc.CallContext, p CountParams) (*vgirpc.StreamResult, error) {
		return &vgirpc.StreamResult{OutputSchema: countSchema, State: &CountState{N: clampN(p.N)}, Header: Inner{A: p.N, S: "hdr"}}, nil
	})
	vgirpc.Exchange(s, "x_scale", valSchema, valSchema, func(_ context.Context, _ *vgirpc.CallContext, p ScaleParams) (*vgirpc.StreamResult, error) {
		return &vgirpc.StreamResult{OutputSchema: valSchema, InputSchema: valSchema, State: &ScaleState{Factor: p.Factor}}, nil
	})
	vgirpc.DynamicStreamWithHeader(s, "d_stream", Inner{}.ArrowSchema(), func(_ context.Context, _ *vgirpc.CallContext, p ModeParams) (*vgirpc.StreamResult, error) {
		if p.Mode == "producer" {
			return &vgirpc.StreamResult{OutputSchema: countSchema, State: &CountState{N: 3}, Header: Inner{S: "dyn"}}, nil
		}
		return &vgirpc.StreamResult{OutputSchema: valSchema, InputSchema: valSchema, State: &ScaleState{Factor: 2}, Header: Inner{S: "dyn"}}, nil
	})
}

// methodKinds: what each registered method is (for routing valid traffic).
var methodKinds = map[string]string{
	"u_echo": "unary", "u_small": "unary", "u_void": "unary", "u_inner": "unary", "u_none": "unary", "u_open": "unary",
	"p_count": "producer", "p_hdr": "producer", "x_scale": "exchange", "d_stream": "dynamic",
	"u_boom": "unary", "p_initboom": "producer", "p_boom": "producer", "x_boom": "exchange",
}

var paramTypes = map[string]reflect.Type{
	"u_echo": reflect.TypeOf(UParams{}), "u_small": reflect.TypeOf(SmallParams{}), "u_void": reflect.TypeOf(VoidParams{}),
	"u_inner": reflect.TypeOf(InnerParams{}), "u_none": reflect.TypeOf(NoParams{}), "u_open": reflect.TypeOf(VoidParams{}),
	"p_count": reflect.TypeOf(CountParams{}), "p_hdr": reflect.TypeOf(CountParams{}), "x_scale": reflect.TypeOf(ScaleParams{}),
	"d_stream": reflect.TypeOf(ModeParams{}),
	"u_boom":  reflect.TypeOf(SmallParams{}), "p_initboom": reflect.TypeOf(SmallParams{}), "p_boom": reflect.TypeOf(SmallParams{}), "x_boom": reflect.TypeOf(SmallParams{}),
}

var methodNames = []string{"u_echo", "u_small", "u_void", "u_inner", "u_none", "u_open", "p_count", "p_hdr", "x_scale", "d_stream", "u_boom", "p_initboom", "p_boom", "x_boom"}

// paramSchema is the schema the server will demand for a method's parameters.
// Used only to GENERATE valid traffic (the generator has to know what "valid"
// is); never as an oracle.
func paramSchema(method string) *arrow.Schema {
	return paramSchemas[method]
}

// The schemas are derived once, before any hostile case runs: the generator of
// valid traffic (and of the canary) must not depend on library state that a
// hostile request might have damaged.
var paramSchemas = func() map[string]*arrow.Schema {
	m := map[string]*arrow.Schema{}
	for name, t := range paramTypes {
		s, err := vgirpc.SchemaForStruct(t)
		if err != nil {
			panic(err)
		}
		m[name] = s
	}
	return m
}()
