package main

// Arrow-level construction of request bodies: valid requests for every method
// of the test service and the "structurally valid but unexpected" shapes the
// property names. Everything here is built with arrow-go builders by the
// harness; nothing comes from the library's own client helpers.

import (
	"bytes"
	"fmt"
	"math/rand/v2"

	"github.com/apache/arrow-go/v18/arrow"
	"github.com/apache/arrow-go/v18/arrow/array"

	"github.com/Query-farm/vgi-rpc-go/vgirpc"

	"verif/harness/internal/gen"
	"verif/harness/internal/wb"
)

const extBase = "https://ext.test/"

// Shape is one hostile (or valid) request body with its provenance.
type Shape struct {
	Method string            `json:"method"` // the method the body was built for
	Family string            `json:"family"`
	Name   string            `json:"name"`
	Body   []byte            `json:"-"`
	Ext    map[string][]byte `json:"-"` // objects the in-memory external origin serves for this case
}

func innerSchema() *arrow.Schema { return Inner{}.ArrowSchema() }

var innerVariants = []string{"valid", "zero-rows", "nulls", "schema-differs", "missing-cols", "extra-cols", "nested", "no-batch", "garbage", "empty", "two-batches", "dict", "reordered"}

// innerIPC builds the payload of an embedded ArrowSerializable column.
func innerIPC(rng *rand.Rand, variant string) []byte {
	s := innerSchema()
	switch variant {
	case "valid":
		b := gen.Batch(rng, s, gen.BatchOpt{Rows: 1, FixedRows: true})
		defer b.Release()
		// column a/s must be non-null for a *valid* payload
		cols := []arrow.Array{oneInt64(rng.Int64N(1000)), oneString("in"), b.Column(2)}
		rec := array.NewRecordBatch(s, cols, 1)
		defer rec.Release()
		return gen.IPCBytes(s, rec)
	case "zero-rows":
		b := gen.Batch(rng, s, gen.BatchOpt{Rows: 0, FixedRows: true})
		defer b.Release()
		return gen.IPCBytes(s, b)
	case "nulls":
		cols := []arrow.Array{nullsOf(arrow.PrimitiveTypes.Int64, 1), nullsOf(arrow.BinaryTypes.String, 1), nullsOf(arrow.PrimitiveTypes.Float64, 1)}
		rec := array.NewRecordBatch(s, cols, 1)
		defer rec.Release()
		return gen.IPCBytes(s, rec)
	case "schema-differs":
		s2 := arrow.NewSchema([]arrow.Field{{Name: "a", Type: arrow.BinaryTypes.String}, {Name: "s", Type: arrow.PrimitiveTypes.Int64}, {Name: "f", Type: arrow.BinaryTypes.String, Nullable: true}}, nil)
		b := gen.Batch(rng, s2, gen.BatchOpt{Rows: 1, FixedRows: true})
		defer b.Release()
		cols := []arrow.Array{oneString("x"), oneInt64(3), oneString("y")}
		rec := array.NewRecordBatch(s2, cols, 1)
		defer rec.Release()
		return gen.IPCBytes(s2, rec)
	case "missing-cols":
		s2 := arrow.NewSchema([]arrow.Field{{Name: "a", Type: arrow.PrimitiveTypes.Int64}}, nil)
		rec := array.NewRecordBatch(s2, []arrow.Array{oneInt64(1)}, 1)
		defer rec.Release()
		return gen.IPCBytes(s2, rec)
	case "extra-cols":
		fs := append(append([]arrow.Field{}, s.Fields()...), arrow.Field{Name: "zz", Type: arrow.PrimitiveTypes.Int8, Nullable: true})
		s2 := arrow.NewSchema(fs, nil)
		b := gen.Batch(rng, s2, gen.BatchOpt{Rows: 1, FixedRows: true})
		defer b.Release()
		return gen.IPCBytes(s2, b)
	case "nested":
		st := arrow.StructOf(arrow.Field{Name: "q", Type: arrow.PrimitiveTypes.Int64, Nullable: true})
		s2 := arrow.NewSchema([]arrow.Field{{Name: "a", Type: st, Nullable: true}, {Name: "s", Type: arrow.ListOf(arrow.BinaryTypes.String), Nullable: true}, {Name: "f", Type: arrow.MapOf(arrow.BinaryTypes.String, arrow.PrimitiveTypes.Int64), Nullable: true}}, nil)
		b := gen.Batch(rng, s2, gen.BatchOpt{Rows: 1, FixedRows: true})
		defer b.Release()
		return gen.IPCBytes(s2, b)
	case "no-batch":
		return gen.IPCBytes(s)
	case "garbage":
		return wb.NoiseFramed(rng, 16+rng.IntN(60))
	case "empty":
		return []byte{}
	case "two-batches":
		a := gen.Batch(rng, s, gen.BatchOpt{Rows: 0, FixedRows: true})
		b := gen.Batch(rng, s, gen.BatchOpt{Rows: 2, FixedRows: true})
		defer a.Release()
		defer b.Release()
		return gen.IPCBytes(s, a, b)
	case "dict":
		dt := &arrow.DictionaryType{IndexType: arrow.PrimitiveTypes.Int8, ValueType: arrow.BinaryTypes.String}
		s2 := arrow.NewSchema([]arrow.Field{{Name: "a", Type: arrow.PrimitiveTypes.Int64}, {Name: "s", Type: dt}, {Name: "f", Type: arrow.PrimitiveTypes.Float64, Nullable: true}}, nil)
		b := gen.Batch(rng, s2, gen.BatchOpt{Rows: 1, FixedRows: true})
		defer b.Release()
		return gen.IPCBytes(s2, b)
	case "reordered":
		s2 := arrow.NewSchema([]arrow.Field{s.Field(2), s.Field(1), s.Field(0)}, nil)
		b := gen.Batch(rng, s2, gen.BatchOpt{Rows: 1, FixedRows: true})
		defer b.Release()
		return gen.IPCBytes(s2, b)
	}
	panic("unknown inner variant " + variant)
}

func oneInt64(v int64) arrow.Array {
	b := array.NewInt64Builder(gen.Mem)
	defer b.Release()
	b.Append(v)
	return b.NewArray()
}
func oneString(v string) arrow.Array {
	b := array.NewStringBuilder(gen.Mem)
	defer b.Release()
	b.Append(v)
	return b.NewArray()
}
func binaryOf(vals ...[]byte) arrow.Array {
	b := array.NewBinaryBuilder(gen.Mem, arrow.BinaryTypes.Binary)
	defer b.Release()
	for _, v := range vals {
		if v == nil {
			b.AppendNull()
		} else {
			b.Append(v)
		}
	}
	return b.NewArray()
}
func nullsOf(dt arrow.DataType, n int) arrow.Array {
	b := array.NewBuilder(gen.Mem, dt)
	defer b.Release()
	for i := 0; i < n; i++ {
		b.AppendNull()
	}
	return b.NewArray()
}

// validCols builds `rows` rows of valid parameter columns for a method.
func validCols(rng *rand.Rand, method string, rows int) ([]arrow.Field, []arrow.Array) {
	s := paramSchema(method)
	fields := append([]arrow.Field{}, s.Fields()...)
	cols := make([]arrow.Array, len(fields))
	for i, f := range fields {
		switch {
		case f.Type.ID() == arrow.BINARY && (f.Name == "inner" || f.Name == "inner_p"):
			vals := make([][]byte, rows)
			for j := range vals {
				vals[j] = innerIPC(rng, "valid")
			}
			cols[i] = binaryOf(vals...)
		case f.Name == "n" && method != "u_echo": // producer length: keep it small
			b := array.NewInt64Builder(gen.Mem)
			for j := 0; j < rows; j++ {
				b.Append(int64(rng.IntN(4)))
			}
			cols[i] = b.NewArray()
			b.Release()
		case f.Name == "mode":
			b := array.NewStringBuilder(gen.Mem)
			for j := 0; j < rows; j++ {
				b.Append([]string{"producer", "exchange"}[rng.IntN(2)])
			}
			cols[i] = b.NewArray()
			b.Release()
		default:
			cols[i] = gen.Array(rng, gen.Mem, f.Type, rows, false)
		}
	}
	return fields, cols
}

func stdMeta(method string) [][2]string {
	m := [][2]string{{vgirpc.MetaMethod, method}, {vgirpc.MetaRequestVersion, vgirpc.ProtocolVersion}}
	return append(m, curExtraMeta...)
}

// frame builds one IPC stream: schema, one batch with the given custom
// metadata, EOS.
func frame(fields []arrow.Field, cols []arrow.Array, rows int, meta [][2]string) []byte {
	schema := arrow.NewSchema(fields, nil)
	var ks, vs []string
	for _, kv := range meta {
		ks, vs = append(ks, kv[0]), append(vs, kv[1])
	}
	var rec arrow.RecordBatch
	if len(ks) > 0 {
		rec = array.NewRecordBatchWithMetadata(schema, cols, int64(rows), arrow.NewMetadata(ks, vs))
	} else {
		rec = array.NewRecordBatch(schema, cols, int64(rows))
	}
	defer rec.Release()
	return gen.IPCBytes(schema, rec)
}

func releaseAll(cols []arrow.Array) {
	for _, c := range cols {
		if c != nil {
			c.Release()
		}
	}
}

// validRequest frames a valid request for a method; name is put into the
// "name"/"msg" column when the method has one (used by the canary).
func validRequest(rng *rand.Rand, method string, extra ...[2]string) []byte {
	fields, cols := validCols(rng, method, 1)
	defer releaseAll(cols)
	return frame(fields, cols, 1, append(stdMeta(method), extra...))
}

func colIndex(fields []arrow.Field, name string) int {
	for i, f := range fields {
		if f.Name == name {
			return i
		}
	}
	return -1
}

func setCol(fields []arrow.Field, cols []arrow.Array, name string, f *arrow.Field, a arrow.Array) {
	i := colIndex(fields, name)
	if i < 0 {
		panic("no column " + name)
	}
	cols[i].Release()
	cols[i] = a
	if f != nil {
		fields[i] = *f
	}
}

var streamMethods = []string{"p_count", "p_hdr", "x_scale", "d_stream", "p_boom", "x_boom", "p_initboom"}
var unaryMethods = []string{"u_echo", "u_small", "u_void", "u_inner", "u_none", "u_open", "u_boom"}

func pick[T any](rng *rand.Rand, xs []T) T { return xs[rng.IntN(len(xs))] }

var pointerLocations = []string{"ok", "zero-rows", "wrong-schema", "garbage", "missing", "loop", "empty-url", "http-url", "other-host", "two-rows", "log-only"}

// extObjects fills the external origin for a pointer shape.
func extObject(rng *rand.Rand, method, variant string) (url string, objs map[string][]byte) {
	objs = map[string][]byte{}
	name := fmt.Sprintf("o%d", rng.IntN(1<<30))
	url = extBase + name
	switch variant {
	case "ok":
		objs[name] = validRequest(rng, method)
	case "zero-rows":
		fields, cols := validCols(rng, method, 0)
		objs[name] = frame(fields, cols, 0, nil)
		releaseAll(cols)
	case "two-rows":
		fields, cols := validCols(rng, method, 2)
		objs[name] = frame(fields, cols, 2, nil)
		releaseAll(cols)
	case "wrong-schema":
		s := gen.Schema(rng, gen.SchemaOpt{MaxCols: 4, MinCols: 1, Nested: true, Dict: true})
		b := gen.Batch(rng, s, gen.BatchOpt{Rows: 1, FixedRows: true})
		objs[name] = gen.IPCBytes(s, b)
		b.Release()
	case "garbage":
		objs[name] = wb.NoiseFramed(rng, 50)
	case "missing":
	case "loop":
		fields, cols := validCols(rng, method, 0)
		objs[name] = frame(fields, cols, 0, [][2]string{{vgirpc.MetaLocation, url}})
		releaseAll(cols)
	case "log-only":
		fields, cols := validCols(rng, method, 0)
		objs[name] = frame(fields, cols, 0, [][2]string{{vgirpc.MetaLogLevel, "INFO"}, {vgirpc.MetaLogMessage, "x"}})
		releaseAll(cols)
	case "empty-url":
		url = ""
	case "http-url":
		url = "http://ext.test/" + name
	case "other-host":
		url = "https://elsewhere.test/" + name
	}
	return
}

// families of Arrow-level shapes and their quota weights
var families = []struct {
	name string
	w    int
}{
	{"valid", 4}, {"rows", 6}, {"zero-rows-pointer", 14}, {"meta", 8}, {"null-default", 12}, {"dict-oob", 6},
	{"wrapped-request", 10}, {"embedded-serializable", 12}, {"schema-perturb", 10},
}

func pickFamily(rng *rand.Rand) string {
	tot := 0
	for _, f := range families {
		tot += f.w
	}
	k := rng.IntN(tot)
	for _, f := range families {
		if k < f.w {
			return f.name
		}
		k -= f.w
	}
	return "valid"
}

// genShape builds one Arrow-level shape.
func genShape(rng *rand.Rand, family string) Shape {
	method := pick(rng, methodNames)
	sh := Shape{Family: family}
	switch family {
	case "valid":
		sh.Method, sh.Name, sh.Body = method, "valid", validRequest(rng, method)

	case "rows":
		rows := pick(rng, []int{0, 2, 3, 0})
		for paramSchema(method).NumFields() == 0 {
			method = pick(rng, methodNames)
		}
		fields, cols := validCols(rng, method, rows)
		sh.Method, sh.Name, sh.Body = method, fmt.Sprintf("%d-rows", rows), frame(fields, cols, rows, stdMeta(method))
		releaseAll(cols)

	case "zero-rows-pointer":
		for paramSchema(method).NumFields() == 0 {
			method = pick(rng, methodNames)
		}
		rows := 0
		kind := pick(rng, []string{"location", "location", "location", "shm", "shm", "location+shm", "location+loglevel", "shm+loglevel", "location-1row", "shm-segment-advert"})
		meta := stdMeta(method)
		name := kind
		switch kind {
		case "location", "location+shm", "location+loglevel", "location-1row":
			v := pick(rng, pointerLocations)
			url, objs := extObject(rng, method, v)
			sh.Ext = objs
			meta = append(meta, [2]string{vgirpc.MetaLocation, url})
			if rng.IntN(4) == 0 {
				meta = append(meta, [2]string{vgirpc.MetaLocationSHA256, pick(rng, []string{"", "00", "zz", "e3b0c44298fc1c149afbf4c8996fb92427ae41e4649b934ca495991b7852b855"})})
			}
			name += ":" + v
			if kind == "location+shm" {
				meta = append(meta, [2]string{vgirpc.MetaShmOffset, "65536"}, [2]string{vgirpc.MetaShmLength, "128"})
			}
			if kind == "location+loglevel" {
				meta = append(meta, [2]string{vgirpc.MetaLogLevel, "INFO"})
			}
			if kind == "location-1row" {
				rows = 1
			}
		case "shm", "shm+loglevel", "shm-segment-advert":
			meta = append(meta, [2]string{vgirpc.MetaShmOffset, pick(rng, []string{"65536", "0", "-1", "x", "", "18446744073709551615"})})
			if rng.IntN(3) != 0 {
				meta = append(meta, [2]string{vgirpc.MetaShmLength, pick(rng, []string{"128", "0", "-5", "x", "9223372036854775807"})})
			}
			if kind == "shm+loglevel" {
				meta = append(meta, [2]string{vgirpc.MetaLogLevel, "DEBUG"})
			}
			if kind == "shm-segment-advert" {
				// a segment that does not exist (a real hostile segment is out of scope)
				meta = append(meta, [2]string{vgirpc.MetaShmSegmentName, pick(rng, []string{"/wb-c03-no-such-segment", "", "no-slash", "/a/b", "/" + string(make([]byte, 300))})},
					[2]string{vgirpc.MetaShmSegmentSize, pick(rng, []string{"1048576", "0", "-1", "x", "65536", "65537"})})
			}
		}
		fields, cols := validCols(rng, method, rows)
		sh.Method, sh.Name, sh.Body = method, name, frame(fields, cols, rows, meta)
		releaseAll(cols)

	case "meta":
		kind := pick(rng, []string{"missing-method", "missing-version", "wrong-version", "other-method", "unknown-method", "no-metadata", "cancel-key", "state-key", "pv-junk",
			"loglevel-junk", "long-request-id", "invalid-utf8-method", "invalid-utf8-value", "trace-keys", "describe-in-metadata", "empty-method", "dup-keys"})
		fields, cols := validCols(rng, method, 1)
		meta := stdMeta(method)
		switch kind {
		case "missing-method":
			meta = meta[1:]
		case "missing-version":
			meta = meta[:1]
		case "wrong-version":
			meta[1][1] = pick(rng, []string{"0", "2", "", "one", "1.0"})
		case "other-method":
			meta[0][1] = pick(rng, methodNames)
		case "unknown-method":
			meta[0][1] = pick(rng, []string{"nope", "U_ECHO", "u_echo ", "__transport_options__", "__upload_url__", "../u_echo", "u_echo/init"})
		case "no-metadata":
			meta = nil
		case "cancel-key":
			meta = append(meta, [2]string{vgirpc.MetaCancel, "true"})
		case "state-key":
			meta = append(meta, [2]string{vgirpc.MetaStreamState, "QUJD"}, [2]string{vgirpc.MetaCallState, "!!"})
		case "pv-junk":
			meta = append(meta, [2]string{vgirpc.MetaProtocolVersion, pick(rng, []string{"", "x", "1.2", "99999999999999999999.0.0", "1.2.3", "2.0.0", "01.2.0"})})
		case "loglevel-junk":
			meta = append(meta, [2]string{vgirpc.MetaLogLevel, pick(rng, []string{"", "LOUD", "EXCEPTION", "info"})})
		case "long-request-id":
			meta = append(meta, [2]string{vgirpc.MetaRequestID, string(bytes.Repeat([]byte("r"), 20000))})
		case "invalid-utf8-method":
			meta[0][1] = "u_\xffecho"
		case "invalid-utf8-value":
			meta = append(meta, [2]string{vgirpc.MetaRequestID, "\xff\xfe"}, [2]string{"k\xff", "v"})
		case "trace-keys":
			meta = append(meta, [2]string{vgirpc.MetaTraceparent, "00-zz-zz-zz"}, [2]string{vgirpc.MetaTracestate, "\x00"})
		case "describe-in-metadata":
			meta[0][1] = "__describe__"
		case "empty-method":
			meta[0][1] = ""
		case "dup-keys":
			meta = append(meta, [2]string{vgirpc.MetaMethod, "u_small"}, [2]string{vgirpc.MetaRequestVersion, "7"})
		}
		sh.Method, sh.Name, sh.Body = method, kind, frame(fields, cols, 1, meta)
		releaseAll(cols)

	case "null-default":
		method = pick(rng, []string{"u_echo", "u_echo", "u_echo", "u_small", "u_inner", "p_count", "x_scale", "d_stream", "u_void"})
		fields, cols := validCols(rng, method, 1)
		var which []string
		if method == "u_echo" {
			which = [][]string{{"opt"}, {"opt_i"}, {"opt_b"}, {"opt_f"}, {"n"}, {"inner_p"}, {"inner"}, {"color"}, {"tags"}, {"kv"}, {"blob"}, {"name"},
				{"opt", "opt_i", "opt_b", "opt_f", "inner_p"}, {"*"}}[rng.IntN(14)]
		} else {
			which = []string{"*"}
		}
		for i, f := range fields {
			hit := false
			for _, w := range which {
				if w == "*" || w == f.Name {
					hit = true
				}
			}
			if hit {
				cols[i].Release()
				cols[i] = nullsOf(f.Type, 1)
			}
		}
		sh.Method, sh.Name, sh.Body = method, "null:"+fmt.Sprint(which), frame(fields, cols, 1, stdMeta(method))
		releaseAll(cols)

	case "dict-oob":
		method = "u_echo"
		fields, cols := validCols(rng, method, 1)
		i := colIndex(fields, "color")
		dt := fields[i].Type.(*arrow.DictionaryType)
		kind := pick(rng, []string{"index-past-end", "index-negative", "empty-dictionary", "index-max", "null-dictionary-value"})
		ib := array.NewInt16Builder(gen.Mem)
		db := array.NewStringBuilder(gen.Mem)
		switch kind {
		case "index-past-end":
			ib.Append(int16(2 + rng.IntN(100)))
			db.AppendValues([]string{"red", "green"}, nil)
		case "index-negative":
			ib.Append(int16(-1 - rng.IntN(100)))
			db.AppendValues([]string{"red", "green"}, nil)
		case "empty-dictionary":
			ib.Append(0)
		case "index-max":
			ib.Append(32767)
			db.Append("red")
		case "null-dictionary-value":
			ib.Append(0)
			db.AppendNull()
		}
		idx, dict := ib.NewArray(), db.NewArray()
		ib.Release()
		db.Release()
		da := array.NewDictionaryArray(dt, idx, dict)
		idx.Release()
		dict.Release()
		cols[i].Release()
		cols[i] = da
		sh.Method, sh.Name, sh.Body = method, kind, frame(fields, cols, 1, stdMeta(method))
		releaseAll(cols)

	case "wrapped-request":
		kind := pick(rng, []string{"inner-valid", "inner-schema-differs", "inner-other-method", "inner-zero-rows", "inner-two-rows", "inner-garbage", "inner-empty", "outer-null",
			"inner-no-batch", "nested-twice", "outer-zero-rows", "inner-nulls", "large-binary-column", "utf8-column"})
		var inner []byte
		switch kind {
		case "inner-valid", "nested-twice", "outer-null", "outer-zero-rows", "large-binary-column", "utf8-column":
			inner = validRequest(rng, method)
		case "inner-schema-differs":
			s := gen.Schema(rng, gen.SchemaOpt{MaxCols: 4, MinCols: 1, Nested: true, Dict: true})
			b := gen.Batch(rng, s, gen.BatchOpt{Rows: 1, FixedRows: true})
			inner = gen.IPCBytes(s, b)
			b.Release()
		case "inner-other-method":
			other := pick(rng, methodNames)
			inner = validRequest(rng, other)
		case "inner-zero-rows":
			for paramSchema(method).NumFields() == 0 {
				method = pick(rng, methodNames)
			}
			f, c := validCols(rng, method, 0)
			inner = frame(f, c, 0, nil)
			releaseAll(c)
		case "inner-two-rows":
			f, c := validCols(rng, method, 2)
			inner = frame(f, c, 2, nil)
			releaseAll(c)
		case "inner-nulls":
			f, c := validCols(rng, method, 1)
			for i := range c {
				c[i].Release()
				c[i] = nullsOf(f[i].Type, 1)
			}
			inner = frame(f, c, 1, nil)
			releaseAll(c)
		case "inner-garbage":
			inner = wb.NoiseFramed(rng, 16+rng.IntN(80))
		case "inner-empty":
			inner = []byte{}
		case "inner-no-batch":
			inner = gen.IPCBytes(paramSchema(method))
		}
		if kind == "nested-twice" {
			inner = frame([]arrow.Field{{Name: "request", Type: arrow.BinaryTypes.Binary}}, []arrow.Array{binaryOf(inner)}, 1, nil)
		}
		ft := arrow.DataType(arrow.BinaryTypes.Binary)
		var col arrow.Array
		rows := 1
		switch kind {
		case "outer-null":
			col = binaryOf(nil)
		case "outer-zero-rows":
			col, rows = binaryOf(), 0
		case "large-binary-column":
			ft = arrow.BinaryTypes.LargeBinary
			b := array.NewBinaryBuilder(gen.Mem, arrow.BinaryTypes.LargeBinary)
			b.Append(inner)
			col = b.NewArray()
			b.Release()
		case "utf8-column":
			ft = arrow.BinaryTypes.String
			col = oneString(string(inner))
		default:
			col = binaryOf(inner)
		}
		sh.Method, sh.Name = method, kind
		sh.Body = frame([]arrow.Field{{Name: "request", Type: ft, Nullable: rng.IntN(2) == 0}}, []arrow.Array{col}, rows, stdMeta(method))
		col.Release()

	case "embedded-serializable":
		method = pick(rng, []string{"u_echo", "u_inner", "u_inner"})
		fields, cols := validCols(rng, method, 1)
		v := pick(rng, innerVariants[1:])
		target := "inner"
		if method == "u_echo" && rng.IntN(2) == 0 {
			target = "inner_p"
		}
		setCol(fields, cols, target, nil, binaryOf(innerIPC(rng, v)))
		sh.Method, sh.Name, sh.Body = method, target+":"+v, frame(fields, cols, 1, stdMeta(method))
		releaseAll(cols)

	case "schema-perturb":
		fields, cols := validCols(rng, method, 1)
		kind := pick(rng, []string{"drop-col", "extra-col", "reorder", "retype", "nullable-flip", "rename", "zero-cols", "dup-name", "all-utf8", "foreign-schema"})
		switch kind {
		case "drop-col":
			if len(fields) > 0 {
				i := rng.IntN(len(fields))
				cols[i].Release()
				fields, cols = append(fields[:i:i], fields[i+1:]...), append(cols[:i:i], cols[i+1:]...)
			}
		case "extra-col":
			f := arrow.Field{Name: "extra", Type: arrow.PrimitiveTypes.Int64, Nullable: true}
			fields, cols = append(fields, f), append(cols, oneInt64(1))
		case "reorder":
			rng.Shuffle(len(fields), func(i, j int) { fields[i], fields[j] = fields[j], fields[i]; cols[i], cols[j] = cols[j], cols[i] })
		case "retype":
			if len(fields) > 0 {
				i := rng.IntN(len(fields))
				nt := gen.DataType(rng, gen.SchemaOpt{Nested: true, Dict: true}, 2)
				cols[i].Release()
				cols[i] = gen.Array(rng, gen.Mem, nt, 1, true)
				fields[i].Type = nt
			}
		case "nullable-flip":
			for i := range fields {
				if rng.IntN(2) == 0 {
					fields[i].Nullable = !fields[i].Nullable
				}
			}
		case "rename":
			if len(fields) > 0 {
				i := rng.IntN(len(fields))
				fields[i].Name = pick(rng, []string{"", "request", "NAME", fields[i].Name + " "})
			}
		case "zero-cols":
			releaseAll(cols)
			fields, cols = nil, nil
		case "dup-name":
			if len(fields) > 0 {
				fields, cols = append(fields, fields[0]), append(cols, gen.Array(rng, gen.Mem, fields[0].Type, 1, false))
			}
		case "all-utf8":
			for i := range fields {
				cols[i].Release()
				fields[i].Type = arrow.BinaryTypes.String
				cols[i] = oneString("x")
			}
		case "foreign-schema":
			releaseAll(cols)
			s := gen.Schema(rng, gen.SchemaOpt{MaxCols: 8, Nested: true, Dict: true})
			fields = append([]arrow.Field{}, s.Fields()...)
			cols = make([]arrow.Array, len(fields))
			for i, f := range fields {
				cols[i] = gen.Array(rng, gen.Mem, f.Type, 1, f.Nullable)
			}
		}
		sh.Method, sh.Name, sh.Body = method, kind, frame(fields, cols, 1, stdMeta(method))
		releaseAll(cols)
	default:
		panic("unknown family " + family)
	}
	return sh
}

// ---------------------------------------------------------------------------
// input streams that follow a stream-method request on a pipe

var inputKinds = []string{"ticks", "vals", "none", "eos-only", "wrong-schema", "castable", "ptr-location", "ptr-shm", "cancel", "garbage", "nulls", "two-streams", "vals-then-garbage", "huge-rows", "dict-oob", "dict-col", "dict-bad-offsets", "utf8-bad-offsets"}

func inputStream(rng *rand.Rand, kind string) (body []byte, ext map[string][]byte) {
	empty := arrow.NewSchema(nil, nil)
	tick := func(meta ...[2]string) arrow.RecordBatch {
		var ks, vs []string
		for _, kv := range meta {
			ks, vs = append(ks, kv[0]), append(vs, kv[1])
		}
		if len(ks) == 0 {
			return array.NewRecordBatch(empty, nil, 0)
		}
		return array.NewRecordBatchWithMetadata(empty, nil, 0, arrow.NewMetadata(ks, vs))
	}
	vals := func(n int, nulls bool) arrow.RecordBatch {
		b := array.NewFloat64Builder(gen.Mem)
		for i := 0; i < n; i++ {
			if nulls && i%2 == 0 {
				b.AppendNull()
			} else {
				b.Append(float64(i) + 0.5)
			}
		}
		a := b.NewArray()
		b.Release()
		rec := array.NewRecordBatch(valSchema, []arrow.Array{a}, int64(n))
		a.Release()
		return rec
	}
	var recs []arrow.RecordBatch
	schema := empty
	switch kind {
	case "ticks":
		for i := 0; i < 1+rng.IntN(5); i++ {
			recs = append(recs, tick())
		}
	case "vals":
		schema = valSchema
		for i := 0; i < 1+rng.IntN(3); i++ {
			recs = append(recs, vals(1+rng.IntN(3), false))
		}
	case "nulls":
		schema = valSchema
		recs = append(recs, vals(4, true), vals(0, false))
	case "huge-rows":
		schema = valSchema
		recs = append(recs, vals(5000, false))
	case "none":
		return nil, nil
	case "eos-only":
	case "wrong-schema":
		schema = arrow.NewSchema([]arrow.Field{{Name: "v", Type: arrow.BinaryTypes.String}, {Name: "w", Type: arrow.PrimitiveTypes.Int8, Nullable: true}}, nil)
		b := gen.Batch(rng, schema, gen.BatchOpt{Rows: 2, FixedRows: true})
		recs = append(recs, b)
	case "castable":
		schema = arrow.NewSchema([]arrow.Field{{Name: "v", Type: arrow.PrimitiveTypes.Int64}}, nil)
		b := gen.Batch(rng, schema, gen.BatchOpt{Rows: 2, FixedRows: true})
		recs = append(recs, b)
	case "dict-oob":
		var b arrow.RecordBatch
		schema, b = dictOOBBatch(rng)
		recs = append(recs, b)
	case "dict-bad-offsets", "utf8-bad-offsets":
		var b arrow.RecordBatch
		schema, b = badOffsetsBatch(kind == "dict-bad-offsets")
		recs = append(recs, b)
	case "dict-col":
		schema = arrow.NewSchema([]arrow.Field{{Name: "v", Type: &arrow.DictionaryType{IndexType: arrow.PrimitiveTypes.Int8, ValueType: arrow.BinaryTypes.String}}}, nil)
		recs = append(recs, gen.Batch(rng, schema, gen.BatchOpt{Rows: 2, FixedRows: true}))
	case "ptr-location":
		schema = valSchema
		v := pick(rng, []string{"ok", "garbage", "missing", "wrong-schema", "zero-rows", "loop"})
		name := fmt.Sprintf("i%d", rng.IntN(1<<30))
		ext = map[string][]byte{}
		switch v {
		case "ok":
			x := vals(2, false)
			ext[name] = gen.IPCBytes(valSchema, x)
			x.Release()
		case "garbage":
			ext[name] = wb.NoiseFramed(rng, 40)
		case "wrong-schema":
			s := gen.Schema(rng, gen.SchemaOpt{MaxCols: 3, MinCols: 1})
			x := gen.Batch(rng, s, gen.BatchOpt{Rows: 1, FixedRows: true})
			ext[name] = gen.IPCBytes(s, x)
			x.Release()
		case "zero-rows":
			x := vals(0, false)
			ext[name] = gen.IPCBytes(valSchema, x)
			x.Release()
		case "loop":
			z := vals(0, false)
			zz := gen.WithMeta(z, []string{vgirpc.MetaLocation}, []string{extBase + name})
			ext[name] = gen.IPCBytes(valSchema, zz)
			z.Release()
			zz.Release()
		}
		z := vals(0, false)
		recs = append(recs, gen.WithMeta(z, []string{vgirpc.MetaLocation}, []string{extBase + name}))
		z.Release()
	case "ptr-shm":
		schema = valSchema
		z := vals(0, false)
		recs = append(recs, gen.WithMeta(z, []string{vgirpc.MetaShmOffset, vgirpc.MetaShmLength}, []string{"65536", "64"}))
		z.Release()
	case "cancel":
		recs = append(recs, tick([2]string{vgirpc.MetaCancel, "true"}))
		if rng.IntN(2) == 0 {
			recs = append(recs, tick())
		}
	case "garbage":
		return wb.Noise(rng, 8+rng.IntN(64)), nil
	case "two-streams":
		a, _ := inputStream(rng, "ticks")
		b, _ := inputStream(rng, "vals")
		return append(a, b...), nil
	case "vals-then-garbage":
		a, _ := inputStream(rng, "vals")
		return append(a[:len(a)-8], wb.Noise(rng, 30)...), nil
	}
	body = gen.IPCBytes(schema, recs...)
	for _, r := range recs {
		r.Release()
	}
	return body, ext
}
