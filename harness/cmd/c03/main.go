// C03 — no client-supplied bytes can crash the server or abort an HTTP exchange.
//
// Every case is one hostile client interaction, executed in a child process
// (ulimit -v 8 GiB, journal-before-execute) against long-lived servers that
// carry the test service of service.go:
//
//	rec     HttpServer.ServeHTTP in-process with an httptest.ResponseRecorder: a panic
//	        that escapes ServeHTTP reaches the harness's recover and is attributed
//	real    the same handler behind a real listener, raw TCP client: the refuting
//	        observation is "connection closed without a status line"
//	pipe    Server.Serve over a byte reader / io.Pipe: a panic escaping Serve, or an
//	        output that is not a sequence of complete IPC streams
//
// After every hostile case a liveness canary (a valid unary call on the same
// server object — over a fresh connection for the pipe) must be answered with
// the right value. The child process dying is itself a violation, attributed to
// exactly one case by the journal. Hostile bodies are classified by the
// harness's own IPC framing walker; the class is part of every signature.
package main

import (
	"bufio"
	"bytes"
	"compress/gzip"
	"context"
	"encoding/json"
	"errors"
	"fmt"
	"io"
	"log"
	"log/slog"
	"math/rand/v2"
	"net"
	"net/http"
	"net/http/httptest"
	"os"
	"runtime"
	"strconv"
	"strings"
	"sync"
	"time"

	"github.com/apache/arrow-go/v18/arrow"
	"github.com/apache/arrow-go/v18/arrow/array"
	"github.com/apache/arrow-go/v18/arrow/memory"
	"github.com/klauspost/compress/zstd"

	"github.com/Query-farm/vgi-rpc-go/vgirpc"

	"verif/harness/internal/gen"
	"verif/harness/internal/mon"
	"verif/harness/internal/wb"
)

const arrowCT = "application/vnd.apache.arrow.stream"

// ---------------------------------------------------------------------------
// case description (parent -> child)

type TokPlan struct {
	Kind       string `json:"kind"` // "stream" | "session"
	MintMethod string `json:"mint_method"`
	MintUser   string `json:"mint_user"`
	BodyShape  string `json:"body_shape"`
	MutSeed    uint64 `json:"mut_seed,omitempty"`
}

type Case struct {
	T      string            `json:"t"`   // rec | real | pipe | pipeio
	Cfg    string            `json:"cfg"` // plain | full | pv
	Verb   string            `json:"verb,omitempty"`
	Path   string            `json:"path,omitempty"`
	Hdr    [][2]string       `json:"hdr,omitempty"`
	Body   []byte            `json:"body"`
	CLen   *int64            `json:"clen,omitempty"` // rec: overrides Request.ContentLength
	Ext    map[string][]byte `json:"ext,omitempty"`
	Tok    *TokPlan          `json:"tok,omitempty"`
	Route  string            `json:"route"`
	Family string            `json:"family"`
	Shape  string            `json:"shape"`
	Method string            `json:"method,omitempty"`
	Derive *wb.Hostile       `json:"derive,omitempty"`
}

type Out struct {
	Panic   string `json:"panic,omitempty"`
	Status  int    `json:"status,omitempty"`
	RealErr string `json:"real_err,omitempty"`
	SrvLog  string `json:"srv_log,omitempty"`
	PipeOut string `json:"pipe_out,omitempty"`
	Unclean string `json:"unclean,omitempty"`
	Hang    bool   `json:"hang,omitempty"`
	Canary  string `json:"canary,omitempty"`
	Harness string `json:"harness,omitempty"`
	Sent    []byte `json:"sent,omitempty"`
	Resp    string `json:"resp,omitempty"`
	Micros  int64  `json:"us,omitempty"` // reported in the evidence only
	Boom    bool   `json:"boom,omitempty"` // the answer reports a panic of one of the service's handlers (contained by the framework)
}

// ---------------------------------------------------------------------------
// child-side environment

type memOrigin struct {
	mu   sync.Mutex
	objs map[string][]byte
	hits int
}

func (m *memOrigin) RoundTrip(req *http.Request) (*http.Response, error) {
	m.mu.Lock()
	defer m.mu.Unlock()
	m.hits++
	if req.URL.Host != "ext.test" {
		return nil, errors.New("memOrigin: no route to host " + req.URL.Host)
	}
	name := strings.TrimPrefix(req.URL.Path, "/")
	data, ok := m.objs[name]
	resp := &http.Response{StatusCode: 200, Status: "200 OK", Proto: "HTTP/1.1", ProtoMajor: 1, ProtoMinor: 1, Header: http.Header{}, Request: req}
	if !ok {
		resp.StatusCode, resp.Status = 404, "404 Not Found"
		data = []byte("nope")
	}
	resp.Body = io.NopCloser(bytes.NewReader(data))
	resp.ContentLength = int64(len(data))
	return resp, nil
}

type memStorage struct{ n int }

func (s *memStorage) Upload(data []byte, _ *arrow.Schema, _ string) (string, error) {
	s.n++
	return fmt.Sprintf("%supload%d", extBase, s.n), nil
}

type urlProvider struct{ n int }

func (p *urlProvider) GenerateUploadURL(_ *arrow.Schema) (vgirpc.UploadURL, error) {
	p.n++
	return vgirpc.UploadURL{UploadURL: fmt.Sprintf("%sup%d", extBase, p.n), DownloadURL: fmt.Sprintf("%sdown%d", extBase, p.n), ExpiresAt: time.Unix(1800000000, 0)}, nil
}

type nopHook struct{ starts, ends int }

func (h *nopHook) OnDispatchStart(ctx context.Context, _ vgirpc.DispatchInfo) (context.Context, vgirpc.HookToken) {
	h.starts++
	return ctx, nil
}
func (h *nopHook) OnDispatchEnd(context.Context, vgirpc.HookToken, vgirpc.DispatchInfo, *vgirpc.CallStatistics, error) {
	h.ends++
}

type httpEnv struct {
	h      *vgirpc.HttpServer
	prefix string
	pv     string
	ts     *httptest.Server
	tsLog  *lockedBuf
}

type lockedBuf struct {
	mu sync.Mutex
	b  bytes.Buffer
}

func (l *lockedBuf) Write(p []byte) (int, error) {
	l.mu.Lock()
	defer l.mu.Unlock()
	return l.b.Write(p)
}
func (l *lockedBuf) take() string {
	l.mu.Lock()
	defer l.mu.Unlock()
	s := l.b.String()
	l.b.Reset()
	return s
}

type environment struct {
	origin *memOrigin
	http   map[string]*httpEnv
	pipe   map[string]*vgirpc.Server
	pipePV map[string]string
}

var env *environment

func extConfig(o *memOrigin) *vgirpc.ExternalLocationConfig {
	return &vgirpc.ExternalLocationConfig{
		Storage:                   &memStorage{},
		ExternalizeThresholdBytes: 16 << 10,
		URLValidator:              vgirpc.HTTPSOnlyValidator,
		MaxRetries:                1,
		RetryDelay:                time.Millisecond,
		HTTPClient:                &http.Client{Transport: o},
		MaxFetchBytes:             1 << 20,
		MaxDecompressedBytes:      4 << 20,
	}
}

func authFunc(r *http.Request) (*vgirpc.AuthContext, error) {
	switch u := r.Header.Get("X-User"); u {
	case "":
		return vgirpc.Anonymous(), nil
	case "deny":
		return nil, &vgirpc.RpcError{Type: "ValueError", Message: "denied"}
	case "boom":
		return nil, errors.New("authenticator exploded")
	default:
		return &vgirpc.AuthContext{Domain: "hdr", Authenticated: true, Principal: u}, nil
	}
}

func getEnv() *environment {
	if env != nil {
		return env
	}
	slog.SetDefault(slog.New(slog.NewTextHandler(io.Discard, nil)))
	e := &environment{origin: &memOrigin{objs: map[string][]byte{}}, http: map[string]*httpEnv{}, pipe: map[string]*vgirpc.Server{}, pipePV: map[string]string{}}
	key := []byte("0123456789abcdef0123456789abcdef")
	mk := func(name string) (*vgirpc.Server, *vgirpc.HttpServer) {
		s := vgirpc.NewServer()
		s.SetServerID("srv-" + name)
		s.SetServiceName("wbsvc")
		registerService(s)
		h, err := vgirpc.NewHttpServerWithKey(s, key)
		if err != nil {
			panic(err)
		}
		return s, h
	}
	// plain: nothing configured
	_, h := mk("plain")
	e.http["plain"] = &httpEnv{h: h}
	// full: external locations, upload URLs, sticky sessions, introspection, auth, hook, batch limit
	s, h := mk("full")
	s.SetExternalLocation(extConfig(e.origin))
	s.SetDispatchHook(&nopHook{})
	h.SetAuthenticate(authFunc)
	h.SetUploadURLProvider(&urlProvider{})
	h.SetMaxUploadBytes(1 << 20)
	h.EnableSticky(time.Minute)
	h.SetStickyEchoHeaders(map[string]string{"x-route": "a"})
	if err := h.EnableTokenIntrospection(vgirpc.TokenIntrospectionConfig{
		Resolver: func(c string) (vgirpc.TokenIdentity, bool, error) {
			switch c {
			case "good":
				return vgirpc.TokenIdentity{Principal: "carol", TokenName: "t"}, true, nil
			case "down":
				return vgirpc.TokenIdentity{}, false, errors.New("store down")
			}
			return vgirpc.TokenIdentity{}, false, nil
		},
		Principals: []string{"proxy"}, RateLimitPerSecond: 1000000,
	}); err != nil {
		panic(err)
	}
	h.SetProducerBatchLimit(1)
	h.SetCorsOrigins("*")
	e.http["full"] = &httpEnv{h: h}
	// pv: prefix, protocol version gate, request cap, response cap
	s, h = mk("pv")
	s.SetProtocolVersion("1.2.0")
	h.SetPrefix("/vgi")
	h.SetMaxRequestBytes(256 << 10)
	h.SetMaxResponseBytes(64 << 10)
	h.SetProducerBatchLimit(2)
	e.http["pv"] = &httpEnv{h: h, prefix: "/vgi", pv: "1.2.7"}

	// pipe servers
	ps := vgirpc.NewServer()
	ps.SetServerID("pipe-plain")
	registerService(ps)
	e.pipe["plain"] = ps
	ps = vgirpc.NewServer()
	ps.SetServerID("pipe-full")
	registerService(ps)
	ps.SetExternalLocation(extConfig(e.origin))
	ps.SetDispatchHook(&nopHook{})
	e.pipe["full"] = ps
	ps = vgirpc.NewServer()
	ps.SetServerID("pipe-pv")
	registerService(ps)
	ps.SetProtocolVersion("1.2.0")
	e.pipe["pv"] = ps
	e.pipePV["pv"] = "1.2.7"
	env = e
	return e
}

func (he *httpEnv) real() *httptest.Server {
	if he.ts == nil {
		he.tsLog = &lockedBuf{}
		ts := httptest.NewUnstartedServer(he.h)
		ts.Config.ErrorLog = log.New(he.tsLog, "", 0)
		ts.Config.ReadHeaderTimeout = 5 * time.Second
		ts.Start()
		he.ts = ts
	}
	return he.ts
}

// ---------------------------------------------------------------------------
// child: executing one case

func stackText(rv any) string {
	buf := make([]byte, 32768)
	n := runtime.Stack(buf, false)
	return fmt.Sprintf("panic: %v\n%s", rv, buf[:n])
}

// serveRec drives ServeHTTP in-process; a panic that escapes is returned as text.
func serveRec(h http.Handler, verb, path string, hdr [][2]string, body []byte, clen *int64) (rec *httptest.ResponseRecorder, pan string, herr string) {
	req, err := http.NewRequest(verb, "http://wb.test"+path, bytes.NewReader(body))
	if err != nil {
		return nil, "", "request not constructible: " + err.Error()
	}
	req.RemoteAddr = "192.0.2.1:1234"
	req.RequestURI = path
	for _, kv := range hdr {
		req.Header.Add(kv[0], kv[1])
	}
	if clen != nil {
		req.ContentLength = *clen
	}
	rec = httptest.NewRecorder()
	func() {
		defer func() {
			if rv := recover(); rv != nil {
				pan = stackText(rv)
			}
		}()
		h.ServeHTTP(rec, req)
	}()
	return rec, pan, ""
}

// serveReal sends the request over a real TCP connection as raw bytes and
// returns the status code of the response (0 = no status line).
func serveReal(he *httpEnv, verb, path string, hdr [][2]string, body []byte) (status int, rerr string, srvLog string) {
	ts := he.real()
	he.tsLog.take()
	conn, err := net.DialTimeout("tcp", ts.Listener.Addr().String(), 5*time.Second)
	if err != nil {
		return 0, "harness: dial: " + err.Error(), ""
	}
	defer conn.Close()
	_ = conn.SetDeadline(time.Now().Add(60 * time.Second))
	var sb bytes.Buffer
	fmt.Fprintf(&sb, "%s %s HTTP/1.1\r\nHost: wb.test\r\nConnection: close\r\n", verb, path)
	hasCL := false
	for _, kv := range hdr {
		if strings.EqualFold(kv[0], "Content-Length") || strings.EqualFold(kv[0], "Transfer-Encoding") {
			hasCL = true
		}
		fmt.Fprintf(&sb, "%s: %s\r\n", kv[0], strings.NewReplacer("\r", "", "\n", "").Replace(kv[1]))
	}
	if !hasCL {
		fmt.Fprintf(&sb, "Content-Length: %d\r\n", len(body))
	}
	sb.WriteString("\r\n")
	sb.Write(body)
	if _, err := conn.Write(sb.Bytes()); err != nil {
		// the server may legitimately answer and close before reading everything
		_ = err
	}
	if tc, ok := conn.(*net.TCPConn); ok {
		_ = tc.CloseWrite()
	}
	br := bufio.NewReader(conn)
	line, err := br.ReadString('\n')
	if err != nil && line == "" {
		var ne net.Error
		if errors.As(err, &ne) && ne.Timeout() {
			return 0, "timeout waiting for a status line", he.tsLog.take()
		}
		time.Sleep(2 * time.Millisecond)
		return 0, "no status line: " + err.Error(), he.tsLog.take()
	}
	parts := strings.SplitN(strings.TrimSpace(line), " ", 3)
	if len(parts) < 2 || !strings.HasPrefix(parts[0], "HTTP/") {
		return 0, "malformed status line: " + strconv.Quote(line), he.tsLog.take()
	}
	code, _ := strconv.Atoi(parts[1])
	// the rest of the response must be readable to the end
	if _, err := io.Copy(io.Discard, br); err != nil {
		var ne net.Error
		if errors.As(err, &ne) && ne.Timeout() {
			return code, "timeout reading the response body", he.tsLog.take()
		}
	}
	return code, "", he.tsLog.take()
}

// servePipe runs Server.Serve on the client's bytes. sync: plain byte reader
// (EOF = client closed); io: two io.Pipes with a concurrent client writer.
func servePipe(s *vgirpc.Server, body []byte, viaIOPipe bool) (out []byte, pan string, hang bool) {
	if !viaIOPipe {
		var buf bytes.Buffer
		func() {
			defer func() {
				if rv := recover(); rv != nil {
					pan = stackText(rv)
				}
			}()
			s.Serve(bytes.NewReader(body), &buf)
		}()
		return buf.Bytes(), pan, false
	}
	cr, cw := io.Pipe() // client -> server
	sr, sw := io.Pipe() // server -> client
	done := make(chan string, 1)
	go func() {
		var p string
		func() {
			defer func() {
				if rv := recover(); rv != nil {
					p = stackText(rv)
				}
			}()
			s.Serve(cr, sw)
		}()
		_ = sw.Close()
		_ = cr.Close()
		done <- p
	}()
	go func() {
		// a client that writes in small pieces and then closes its end
		for off := 0; off < len(body); {
			n := min(len(body)-off, 1+off%97)
			if _, err := cw.Write(body[off : off+n]); err != nil {
				break
			}
			off += n
		}
		_ = cw.Close()
	}()
	outCh := make(chan []byte, 1)
	go func() {
		b, _ := io.ReadAll(sr)
		outCh <- b
	}()
	select {
	case p := <-done:
		return <-outCh, p, false
	case <-time.After(120 * time.Second):
		return nil, "", true
	}
}

// describeOutput checks that what the server wrote is a sequence of complete
// IPC streams and summarises it.
func describeOutput(out []byte) (summary, unclean string) {
	if len(out) == 0 {
		return "closed-silent", ""
	}
	rep := wb.Walk(out)
	if rep.Class != wb.WellFramed {
		return "", fmt.Sprintf("%s at offset %d of %d: %s", rep.Class, rep.FaultOffset, len(out), rep.Fault)
	}
	errs, data, streams := 0, 0, 0
	rest := out
	for len(rest) > 0 {
		_, recs, n, err := gen.ReadIPC(rest)
		if err != nil || n == 0 {
			return "", fmt.Sprintf("output stream %d not decodable: %v", streams, err)
		}
		streams++
		for _, r := range recs {
			if gen.MetaMap(r)[vgirpc.MetaLogLevel] == "EXCEPTION" {
				errs++
			} else if r.NumRows() > 0 {
				data++
			}
			r.Release()
		}
		rest = rest[n:]
	}
	switch {
	case errs > 0:
		return "answered-error", ""
	case data > 0:
		return "answered-data", ""
	}
	return "answered-empty", ""
}

// canary request: u_echo with a recognisable name and n
func canaryRequest(rng *rand.Rand, nonce string, n int64, pv string) []byte {
	fields, cols := validCols(rng, "u_echo", 1)
	defer releaseAll(cols)
	setCol(fields, cols, "name", nil, oneString(nonce))
	setCol(fields, cols, "n", nil, oneInt64(n))
	meta := stdMeta("u_echo")
	if pv != "" {
		meta = append(meta, [2]string{vgirpc.MetaProtocolVersion, pv})
	}
	return frame(fields, cols, 1, meta)
}

func resultString(body []byte) (string, error) {
	_, recs, _, err := gen.ReadIPC(body)
	if err != nil {
		return "", err
	}
	defer func() {
		for _, r := range recs {
			r.Release()
		}
	}()
	for _, r := range recs {
		if r.NumRows() == 1 && r.NumCols() == 1 && r.ColumnName(0) == "result" {
			if s, ok := r.Column(0).(*array.String); ok {
				return s.Value(0), nil
			}
		}
		if lvl := gen.MetaMap(r)[vgirpc.MetaLogLevel]; lvl == "EXCEPTION" {
			return "", fmt.Errorf("error response: %s", gen.MetaMap(r)[vgirpc.MetaLogMessage])
		}
	}
	return "", fmt.Errorf("no result batch among %d batches", len(recs))
}

var canarySeq int64

func httpCanary(he *httpEnv) string {
	canarySeq++
	rng := rand.New(rand.NewPCG(7, uint64(canarySeq)))
	nonce := fmt.Sprintf("canary-%d", canarySeq)
	body := canaryRequest(rng, nonce, canarySeq, he.pv)
	rec, pan, herr := serveRec(he.h, "POST", he.prefix+"/u_echo", [][2]string{{"Content-Type", arrowCT}}, body, nil)
	if herr != "" {
		return "harness: " + herr
	}
	if pan != "" {
		return "canary request panicked: " + firstLine(pan)
	}
	if rec.Code != 200 {
		return fmt.Sprintf("canary answered %d: %s", rec.Code, trunc(rec.Body.String(), 200))
	}
	got, err := resultString(rec.Body.Bytes())
	want := fmt.Sprintf("echo:%s:%d", nonce, canarySeq)
	if err != nil || got != want {
		return fmt.Sprintf("canary result %q err=%v, want %q", got, err, want)
	}
	return ""
}

func pipeCanary(s *vgirpc.Server, pv string) string {
	canarySeq++
	rng := rand.New(rand.NewPCG(8, uint64(canarySeq)))
	nonce := fmt.Sprintf("canary-%d", canarySeq)
	out, pan, _ := servePipe(s, canaryRequest(rng, nonce, canarySeq, pv), false)
	if pan != "" {
		return "canary connection panicked: " + firstLine(pan)
	}
	got, err := resultString(out)
	want := fmt.Sprintf("echo:%s:%d", nonce, canarySeq)
	if err != nil || got != want {
		return fmt.Sprintf("canary result %q err=%v, want %q", got, err, want)
	}
	return ""
}

// findTokens walks a response body (concatenated streams) for the two tokens.
func findTokens(body []byte) (state, call string) {
	rest := body
	for len(rest) > 0 {
		_, recs, n, err := gen.ReadIPC(rest)
		for _, r := range recs {
			m := gen.MetaMap(r)
			if v := m[vgirpc.MetaStreamState]; v != "" && state == "" {
				state = v
			}
			if v := m[vgirpc.MetaCallState]; v != "" && call == "" {
				call = v
			}
			r.Release()
		}
		if err != nil || n == 0 {
			break
		}
		rest = rest[n:]
	}
	return
}

func mintRequest(rng *rand.Rand, method, pv string) []byte {
	fields, cols := validCols(rng, method, 1)
	defer releaseAll(cols)
	switch method {
	case "p_count", "p_hdr":
		setCol(fields, cols, "n", nil, oneInt64(5))
	case "d_stream":
		setCol(fields, cols, "mode", nil, oneString([]string{"producer", "exchange"}[rng.IntN(2)]))
	case "x_scale":
		b := array.NewFloat64Builder(gen.Mem)
		b.Append(2)
		a := b.NewArray()
		b.Release()
		setCol(fields, cols, "factor", nil, a)
	}
	meta := stdMeta(method)
	if pv != "" {
		meta = append(meta, [2]string{vgirpc.MetaProtocolVersion, pv})
	}
	return frame(fields, cols, 1, meta)
}

func flipB64(tok string, rng *rand.Rand) string {
	if tok == "" {
		return "A"
	}
	b := []byte(tok)
	i := rng.IntN(len(b))
	const al = "ABCDEFGHIJKLMNOPQRSTUVWXYZabcdefghijklmnopqrstuvwxyz0123456789+/"
	for {
		c := al[rng.IntN(len(al))]
		if c != b[i] {
			b[i] = c
			break
		}
	}
	return string(b)
}

var contShapes = []string{"valid", "valid", "no-call-token", "no-state", "no-batch", "two-batches", "token-on-second", "wrong-schema", "castable", "zero-cols", "state-bitflip",
	"state-truncated", "state-garbage", "state-empty", "swap", "call-garbage", "call-bitflip", "cancel", "location-ok", "location-garbage", "nulls", "huge-meta", "shm-keys", "dict-col", "dict-oob", "dict-bad-offsets", "utf8-bad-offsets"}

// continuationBody builds an /exchange request body around minted tokens.
func continuationBody(rng *rand.Rand, shape, state, call string) (body []byte, ext map[string][]byte) {
	empty := arrow.NewSchema(nil, nil)
	mkVals := func(n int, nulls bool) arrow.RecordBatch {
		b := array.NewFloat64Builder(gen.Mem)
		for i := 0; i < n; i++ {
			if nulls && i%2 == 0 {
				b.AppendNull()
			} else {
				b.Append(float64(i) + 1)
			}
		}
		a := b.NewArray()
		b.Release()
		rec := array.NewRecordBatch(valSchema, []arrow.Array{a}, int64(n))
		a.Release()
		return rec
	}
	schema := valSchema
	in := mkVals(2, false)
	if rng.IntN(3) == 0 { // a producer-style tick
		schema = empty
		in = array.NewRecordBatch(empty, nil, 0)
	}
	ks := []string{vgirpc.MetaStreamState, vgirpc.MetaCallState}
	vs := []string{state, call}
	var extra []arrow.RecordBatch
	first := true
	switch shape {
	case "valid":
	case "no-call-token":
		ks, vs = ks[:1], vs[:1]
	case "no-state":
		ks, vs = ks[1:], vs[1:]
	case "no-batch":
		return gen.IPCBytes(schema), nil
	case "two-batches":
		extra = append(extra, mkValsOrTick(schema, mkVals))
	case "token-on-second":
		first = false
	case "wrong-schema":
		schema = arrow.NewSchema([]arrow.Field{{Name: "v", Type: arrow.BinaryTypes.String}, {Name: "w", Type: arrow.ListOf(arrow.PrimitiveTypes.Int8), Nullable: true}}, nil)
		in = gen.Batch(rng, schema, gen.BatchOpt{Rows: 2, FixedRows: true})
	case "castable":
		schema = arrow.NewSchema([]arrow.Field{{Name: "v", Type: arrow.PrimitiveTypes.Int64}}, nil)
		in = gen.Batch(rng, schema, gen.BatchOpt{Rows: 2, FixedRows: true})
	case "dict-col":
		schema = arrow.NewSchema([]arrow.Field{{Name: "v", Type: &arrow.DictionaryType{IndexType: arrow.PrimitiveTypes.Int8, ValueType: arrow.BinaryTypes.String}}}, nil)
		in = gen.Batch(rng, schema, gen.BatchOpt{Rows: 2, FixedRows: true})
	case "dict-oob":
		schema, in = dictOOBBatch(rng)
	case "dict-bad-offsets":
		schema, in = badOffsetsBatch(true)
	case "utf8-bad-offsets":
		schema, in = badOffsetsBatch(false)
	case "zero-cols":
		schema = empty
		in = array.NewRecordBatch(empty, nil, 3)
	case "state-bitflip":
		vs[0] = flipB64(state, rng)
	case "state-truncated":
		vs[0] = state[:rng.IntN(len(state)+1)]
	case "state-garbage":
		vs[0] = gen.B64(wb.Noise(rng, 10+rng.IntN(120)))
	case "state-empty":
		vs[0] = ""
	case "swap":
		vs[0], vs[1] = call, state
	case "call-garbage":
		vs[1] = gen.B64(wb.Noise(rng, 10+rng.IntN(120)))
	case "call-bitflip":
		vs[1] = flipB64(call, rng)
	case "cancel":
		ks, vs = append(ks, vgirpc.MetaCancel), append(vs, "true")
	case "location-ok", "location-garbage":
		name := fmt.Sprintf("c%d", rng.IntN(1<<30))
		ext = map[string][]byte{}
		if shape == "location-ok" {
			x := mkVals(2, false)
			wm := gen.WithMeta(x, ks, vs)
			ext[name] = gen.IPCBytes(valSchema, wm)
			x.Release()
			wm.Release()
		} else {
			ext[name] = wb.NoiseFramed(rng, 64)
		}
		schema = valSchema
		in = mkVals(0, false)
		ks, vs = append(ks, vgirpc.MetaLocation), append(vs, extBase+name)
	case "nulls":
		schema = valSchema
		in = mkVals(4, true)
	case "huge-meta":
		ks, vs = append(ks, "user.blob"), append(vs, strings.Repeat("x", 100000))
	case "shm-keys":
		schema = valSchema
		in = mkVals(0, false)
		ks, vs = append(ks, vgirpc.MetaShmOffset, vgirpc.MetaShmLength), append(vs, "65536", "10")
	}
	var recs []arrow.RecordBatch
	if first {
		recs = append(recs, gen.WithMeta(in, ks, vs))
		recs = append(recs, extra...)
	} else {
		recs = append(recs, in, gen.WithMeta(in, ks, vs))
	}
	return gen.IPCBytes(schema, recs...), ext
}

// dictOOBBatch is an exchange input whose only column "v" is dictionary-encoded
// with an index that points outside its dictionary. The declared input type is
// float64, so the server has to cast it.
func dictOOBBatch(rng *rand.Rand) (*arrow.Schema, arrow.RecordBatch) {
	dt := &arrow.DictionaryType{IndexType: arrow.PrimitiveTypes.Int8, ValueType: arrow.BinaryTypes.String}
	ib := array.NewInt8Builder(gen.Mem)
	ib.AppendValues([]int8{0, int8(2 + rng.IntN(100)), 1}, nil)
	db := array.NewStringBuilder(gen.Mem)
	db.AppendValues([]string{"1.5", "2.5"}, nil)
	idx, dict := ib.NewArray(), db.NewArray()
	ib.Release()
	db.Release()
	da := array.NewDictionaryArray(dt, idx, dict)
	idx.Release()
	dict.Release()
	schema := arrow.NewSchema([]arrow.Field{{Name: "v", Type: dt}}, nil)
	rec := array.NewRecordBatch(schema, []arrow.Array{da}, 3)
	da.Release()
	return schema, rec
}

// badOffsetsBatch is an exchange input whose utf8 values (directly, or as the
// dictionary of a dictionary column) have offsets that run backwards: arrow-go
// accepts the array (it only looks at the last offset when it loads a batch),
// reading value 0 indexes outside the data buffer.
func badOffsetsBatch(asDictionary bool) (*arrow.Schema, arrow.RecordBatch) {
	offsets := memory.NewBufferBytes(arrow.Int32Traits.CastToBytes([]int32{0, 40, 3}))
	data := memory.NewBufferBytes([]byte("1.52.5"))
	sd := array.NewData(arrow.BinaryTypes.String, 2, []*memory.Buffer{nil, offsets, data}, nil, 0, 0)
	strs := array.NewStringData(sd)
	sd.Release()
	if !asDictionary {
		schema := arrow.NewSchema([]arrow.Field{{Name: "v", Type: arrow.BinaryTypes.String}}, nil)
		rec := array.NewRecordBatch(schema, []arrow.Array{strs}, 2)
		strs.Release()
		return schema, rec
	}
	dt := &arrow.DictionaryType{IndexType: arrow.PrimitiveTypes.Int8, ValueType: arrow.BinaryTypes.String}
	ib := array.NewInt8Builder(gen.Mem)
	ib.AppendValues([]int8{0, 1}, nil)
	idx := ib.NewArray()
	ib.Release()
	da := array.NewDictionaryArray(dt, idx, strs)
	idx.Release()
	strs.Release()
	schema := arrow.NewSchema([]arrow.Field{{Name: "v", Type: dt}}, nil)
	rec := array.NewRecordBatch(schema, []arrow.Array{da}, 2)
	da.Release()
	return schema, rec
}

func mkValsOrTick(schema *arrow.Schema, mkVals func(int, bool) arrow.RecordBatch) arrow.RecordBatch {
	if schema.NumFields() == 0 {
		return array.NewRecordBatch(schema, nil, 0)
	}
	return mkVals(1, false)
}

func childCase(in []byte) []byte {
	var c Case
	out := Out{}
	if err := json.Unmarshal(in, &c); err != nil {
		out.Harness = "case not decodable: " + err.Error()
		b, _ := json.Marshal(out)
		return b
	}
	e := getEnv()
	t0 := time.Now()
	e.origin.mu.Lock()
	e.origin.objs = map[string][]byte{}
	for k, v := range c.Ext {
		e.origin.objs[k] = v
	}
	e.origin.mu.Unlock()

	switch c.T {
	case "pipe", "pipeio":
		s := e.pipe[c.Cfg]
		o, pan, hang := servePipe(s, c.Body, c.T == "pipeio")
		out.Panic, out.Hang = pan, hang
		if pan == "" && !hang {
			out.PipeOut, out.Unclean = describeOutput(o)
			out.Boom = bytes.Contains(o, []byte("boom in "))
		}
		if !hang {
			out.Canary = pipeCanary(s, e.pipePV[c.Cfg])
		}
	default:
		he := e.http[c.Cfg]
		hdr := c.Hdr
		body := c.Body
		if c.Tok != nil {
			rng := rand.New(rand.NewPCG(c.Tok.MutSeed, 99))
			mintHdr := [][2]string{{"Content-Type", arrowCT}}
			if c.Tok.MintUser != "" {
				mintHdr = append(mintHdr, [2]string{"X-User", c.Tok.MintUser})
			}
			switch c.Tok.Kind {
			case "stream":
				rec, pan, herr := serveRec(he.h, "POST", he.prefix+"/"+c.Tok.MintMethod+"/init", mintHdr, mintRequest(rng, c.Tok.MintMethod, he.pv), nil)
				if herr != "" || pan != "" || rec.Code != 200 {
					out.Harness = fmt.Sprintf("mint failed: %s %s code=%v", herr, firstLine(pan), rec != nil && rec.Code == 200)
					break
				}
				st, cl := findTokens(rec.Body.Bytes())
				if st == "" {
					// a producer that finished inside /init hands out no token: present garbage instead
					st = gen.B64(wb.Noise(rng, 80))
				}
				var ext map[string][]byte
				body, ext = continuationBody(rng, c.Tok.BodyShape, st, cl)
				e.origin.mu.Lock()
				for k, v := range ext {
					e.origin.objs[k] = v
				}
				e.origin.mu.Unlock()
			case "session":
				mh := append(mintHdr, [2]string{"VGI-Session-Accept", "true"})
				fields, cols := validCols(rng, "u_open", 1)
				rec, pan, herr := serveRec(he.h, "POST", he.prefix+"/u_open", mh, frame(fields, cols, 1, stdMeta("u_open")), nil)
				releaseAll(cols)
				tok := ""
				if herr == "" && pan == "" && rec != nil {
					tok = rec.Header().Get("VGI-Session")
				}
				if tok == "" {
					out.Harness = "session mint failed"
					break
				}
				switch c.Tok.BodyShape {
				case "flip":
					b := []byte(tok)
					b[rng.IntN(len(b))] ^= 1
					tok = string(b)
				case "truncate":
					tok = tok[:rng.IntN(len(tok))]
				case "pad":
					tok += "=="
				}
				hdr = append(append([][2]string{}, hdr...), [2]string{"VGI-Session", tok})
			}
			if c.Tok.MutSeed%3 == 0 && c.Tok.Kind == "stream" {
				body, _ = wb.MutateBytesN(rng, body, 2)
			}
			out.Sent = body
		}
		if out.Harness != "" {
			break
		}
		if c.T == "real" {
			out.Status, out.RealErr, out.SrvLog = serveReal(he, c.Verb, c.Path, hdr, body)
		} else {
			rec, pan, herr := serveRec(he.h, c.Verb, c.Path, hdr, body, c.CLen)
			out.Panic, out.Harness = pan, herr
			if rec != nil && pan == "" {
				out.Status = rec.Code
				out.Resp = fmt.Sprintf("%d %s %dB", rec.Code, rec.Header().Get("Content-Type"), rec.Body.Len())
				out.Boom = bytes.Contains(rec.Body.Bytes(), []byte("boom in "))
			}
		}
		out.Canary = httpCanary(he)
	}
	if len(out.Panic) > 12000 {
		out.Panic = out.Panic[:12000]
	}
	out.Micros = time.Since(t0).Microseconds()
	b, _ := json.Marshal(out)
	return b
}

func firstLine(s string) string {
	if i := strings.IndexByte(s, '\n'); i >= 0 {
		return s[:i]
	}
	return s
}

func trunc(s string, n int) string {
	if len(s) > n {
		return s[:n] + "…"
	}
	return s
}

// ---------------------------------------------------------------------------
// parent: case generation

var cfgs = []string{"plain", "full", "full", "pv"}

func prefixOf(cfg string) string {
	if cfg == "pv" {
		return "/vgi"
	}
	return ""
}

var curExtraMeta [][2]string // appended by stdMeta-based builders (protocol_version for the pv config)

func naturalRoute(method string) (kind, suffix string) {
	switch methodKinds[method] {
	case "unary":
		return "unary", ""
	default:
		return "init", "/init"
	}
}

var users = []string{"", "", "alice", "bob", "proxy", "deny", "boom"}

func baseHeaders(rng *rand.Rand, cfg string) [][2]string {
	h := [][2]string{{"Content-Type", arrowCT}}
	if cfg == "full" {
		if u := pick(rng, users); u != "" {
			h = append(h, [2]string{"X-User", u})
		}
	}
	return h
}

func fuzzHeaders(rng *rand.Rand, h [][2]string) ([][2]string, string) {
	kind := pick(rng, []string{"no-content-type", "wrong-content-type", "ct-params", "long-request-id", "blank-request-id", "accept-zstd", "accept-gzip", "accept-junk", "x-accept",
		"session-garbage", "session-accept", "cookie", "trace", "many", "dup-ct", "origin"})
	out := append([][2]string{}, h...)
	switch kind {
	case "no-content-type":
		out = out[1:]
	case "wrong-content-type":
		out[0][1] = pick(rng, []string{"application/json", "text/plain", "", "application/vnd.apache.arrow.stream2", "APPLICATION/VND.APACHE.ARROW.STREAM"})
	case "ct-params":
		out[0][1] = arrowCT + "; charset=utf-8"
	case "long-request-id":
		out = append(out, [2]string{"X-Request-ID", strings.Repeat("r", 300+rng.IntN(5000))})
	case "blank-request-id":
		out = append(out, [2]string{"X-Request-ID", "   "})
	case "accept-zstd":
		out = append(out, [2]string{"Accept-Encoding", "zstd"})
	case "accept-gzip":
		out = append(out, [2]string{"Accept-Encoding", "gzip;q=0.5, zstd;q=0, *;q=0.1"})
	case "accept-junk":
		out = append(out, [2]string{"Accept-Encoding", pick(rng, []string{";;;", "zstd;q=abc", ",,,", strings.Repeat("gzip,", 3000), "\x7f"})})
	case "x-accept":
		out = append(out, [2]string{"X-VGI-Accept-Encoding", pick(rng, []string{"zstd", "gzip", "br", "identity", "zstd, gzip;q=0"})})
	case "session-garbage":
		out = append(out, [2]string{"VGI-Session", pick(rng, []string{"AAAA", "!!", gen.B64(wb.Noise(rng, 80)), strings.Repeat("A", 9000), "-_-_"})})
	case "session-accept":
		out = append(out, [2]string{"VGI-Session-Accept", pick(rng, []string{"true", "TRUE", "1", "yes"})})
	case "cookie":
		out = append(out, [2]string{"Cookie", pick(rng, []string{"a=b; c=d", "=", ";;;", "vgi_auth=" + strings.Repeat("x", 5000)})})
	case "trace":
		out = append(out, [2]string{"Traceparent", "00-" + strings.Repeat("z", 200)}, [2]string{"Tracestate", "a=b"})
	case "many":
		for i := 0; i < 200; i++ {
			out = append(out, [2]string{fmt.Sprintf("X-H%d", i), "v"})
		}
	case "dup-ct":
		out = append(out, [2]string{"Content-Type", "text/plain"})
	case "origin":
		out = append(out, [2]string{"Origin", "https://evil.example"}, [2]string{"Access-Control-Request-Headers", strings.Repeat("x-a, ", 500)})
	}
	return out, kind
}

func zstdBytes(b []byte) []byte {
	enc, _ := zstd.NewWriter(nil)
	defer enc.Close()
	return enc.EncodeAll(b, nil)
}
func gzipBytes(b []byte) []byte {
	var buf bytes.Buffer
	w := gzip.NewWriter(&buf)
	_, _ = w.Write(b)
	_ = w.Close()
	return buf.Bytes()
}

var encodingLies = []string{"hdr-zstd-body-identity", "hdr-gzip-body-identity", "hdr-zstd-body-gzip", "hdr-gzip-body-zstd", "valid-zstd", "valid-gzip", "truncated-zstd", "truncated-gzip",
	"hdr-br", "hdr-list", "hdr-case-space", "double-zstd", "zstd-of-8MiB-zeros", "gzip-of-8MiB-zeros", "gzip-empty", "hdr-identity", "zstd-garbage-tail", "zstd-mutated"}

func applyEncoding(rng *rand.Rand, kind string, body []byte) (hdr [2]string, out []byte) {
	switch kind {
	case "hdr-zstd-body-identity":
		return [2]string{"Content-Encoding", "zstd"}, body
	case "hdr-gzip-body-identity":
		return [2]string{"Content-Encoding", "gzip"}, body
	case "hdr-zstd-body-gzip":
		return [2]string{"Content-Encoding", "zstd"}, gzipBytes(body)
	case "hdr-gzip-body-zstd":
		return [2]string{"Content-Encoding", "gzip"}, zstdBytes(body)
	case "valid-zstd":
		return [2]string{"Content-Encoding", "zstd"}, zstdBytes(body)
	case "valid-gzip":
		return [2]string{"Content-Encoding", "gzip"}, gzipBytes(body)
	case "truncated-zstd":
		z := zstdBytes(body)
		return [2]string{"Content-Encoding", "zstd"}, z[:rng.IntN(len(z))]
	case "truncated-gzip":
		z := gzipBytes(body)
		return [2]string{"Content-Encoding", "gzip"}, z[:rng.IntN(len(z))]
	case "hdr-br":
		return [2]string{"Content-Encoding", pick(rng, []string{"br", "deflate", "compress", "zstd2", "x-gzip"})}, body
	case "hdr-list":
		return [2]string{"Content-Encoding", "gzip, zstd"}, zstdBytes(gzipBytes(body))
	case "hdr-case-space":
		return [2]string{"Content-Encoding", pick(rng, []string{" ZSTD ", "GZip", "\tgzip"})}, zstdBytes(body)
	case "double-zstd":
		return [2]string{"Content-Encoding", "zstd"}, zstdBytes(zstdBytes(body))
	case "zstd-of-8MiB-zeros":
		return [2]string{"Content-Encoding", "zstd"}, zstdBytes(make([]byte, 8<<20))
	case "gzip-of-8MiB-zeros":
		return [2]string{"Content-Encoding", "gzip"}, gzipBytes(make([]byte, 8<<20))
	case "gzip-empty":
		return [2]string{"Content-Encoding", "gzip"}, gzipBytes(nil)
	case "hdr-identity":
		return [2]string{"Content-Encoding", "identity"}, zstdBytes(body)
	case "zstd-garbage-tail":
		return [2]string{"Content-Encoding", "zstd"}, append(zstdBytes(body), wb.Noise(rng, 20)...)
	case "zstd-mutated":
		z, _ := wb.MutateBytesN(rng, zstdBytes(body), 2)
		return [2]string{"Content-Encoding", "zstd"}, z
	}
	panic(kind)
}

// byteHostile derives a byte-level hostile body from a valid/shaped one.
func byteHostile(rng *rand.Rand, base []byte) ([]byte, wb.Hostile) {
	for {
		var out []byte
		var h wb.Hostile
		ok := true
		switch k := rng.IntN(100); {
		case k < 30:
			out, h = wb.MutateBytesN(rng, base, 3)
		case k < 42:
			out, h, ok = wb.MutateFraming(rng, base)
		case k < 62:
			out, h, ok = wb.MutateInsideMeta(rng, base)
		case k < 80:
			out, h, ok = wb.MutateInsideBody(rng, base)
		case k < 90:
			bs := wb.Boundaries(base)
			if len(bs) == 0 {
				ok = false
				break
			}
			p := bs[rng.IntN(len(bs))] + rng.IntN(3) - 1
			p = max(0, min(p, len(base)))
			out, h = base[:p:p], wb.Hostile{Kind: "truncate-at-boundary", Steps: []gen.Mutation{{Kind: "truncate", Pos: p}}}
		case k < 95:
			p := rng.IntN(len(base) + 1)
			out = append(append(append([]byte(nil), base[:p]...), base...), base[p:]...)
			h = wb.Hostile{Kind: "self-splice", Steps: []gen.Mutation{{Kind: "splice", Pos: p, Arg: len(base)}}}
		default:
			out, h = wb.Noise(rng, rng.IntN(300)), wb.Hostile{Kind: "noise"}
		}
		if ok {
			return out, h
		}
	}
}

// genCase builds case number i of a shard.
func genCase(rng *rand.Rand) Case {
	cfg := pick(rng, cfgs)
	curExtraMeta = nil
	if cfg == "pv" && rng.IntN(4) != 0 {
		curExtraMeta = [][2]string{{vgirpc.MetaProtocolVersion, pick(rng, []string{"1.2.7", "1.2.0", "1.2.7", "1.3.0", "2.0.0"})}}
	}
	defer func() { curExtraMeta = nil }()
	pfx := prefixOf(cfg)
	k := rng.IntN(1000)
	switch {
	case k < 330: // Arrow-level shape on its natural (or a mismatched) HTTP route
		sh := genShape(rng, pickFamily(rng))
		rk, suf := naturalRoute(sh.Method)
		path := pfx + "/" + sh.Method + suf
		if rng.IntN(8) == 0 {
			alt := pick(rng, []string{"/exchange", "/init", "", "/init/", "/exchange/x"})
			other := pick(rng, append(append([]string{}, methodNames...), "__describe__", "__upload_url__", "nope"))
			path, rk = pfx+"/"+other+alt, "mismatched"
		}
		return Case{T: "rec", Cfg: cfg, Verb: "POST", Path: path, Hdr: baseHeaders(rng, cfg), Body: sh.Body, Ext: sh.Ext, Route: rk, Family: sh.Family, Shape: sh.Name, Method: sh.Method}
	case k < 450: // byte-level damage on HTTP
		sh := genShape(rng, pick(rng, []string{"valid", "valid", "valid", "wrapped-request", "embedded-serializable", "null-default"}))
		rk, suf := naturalRoute(sh.Method)
		body, how := byteHostile(rng, sh.Body)
		return Case{T: "rec", Cfg: cfg, Verb: "POST", Path: pfx + "/" + sh.Method + suf, Hdr: baseHeaders(rng, cfg), Body: body, Ext: sh.Ext, Route: rk, Family: "bytes", Shape: how.Kind, Method: sh.Method, Derive: &how}
	case k < 580: // tokens replayed on other methods / principals, continuation body shapes
		if cfg == "pv" && rng.IntN(2) == 0 {
			cfg, pfx = "full", ""
		}
		mint := pick(rng, []string{"x_scale", "x_scale", "p_count", "p_hdr", "d_stream", "d_stream", "x_boom", "p_boom"})
		mintUser := ""
		presentUser := ""
		if cfg == "full" {
			mintUser = pick(rng, []string{"", "alice", "bob"})
			presentUser = pick(rng, []string{mintUser, mintUser, "", "alice", "bob", "proxy"})
		}
		target := mint
		if rng.IntN(2) == 0 {
			target = pick(rng, append(append([]string{}, methodNames...), "nope", "__describe__"))
		}
		hdr := [][2]string{{"Content-Type", arrowCT}}
		if presentUser != "" {
			hdr = append(hdr, [2]string{"X-User", presentUser})
		}
		shape := pick(rng, contShapes)
		fam := "continuation-shape"
		if target != mint || presentUser != mintUser {
			fam = "token-replay"
		}
		suffix := "/exchange"
		if rng.IntN(12) == 0 {
			suffix = pick(rng, []string{"/init", ""})
		}
		name := fmt.Sprintf("%s->%s:%s", methodKinds[mint], kindOr(target), shape)
		if presentUser != mintUser {
			name += ":other-principal"
		}
		return Case{T: "rec", Cfg: cfg, Verb: "POST", Path: pfx + "/" + target + suffix, Hdr: hdr, Route: "exchange", Family: fam, Shape: name, Method: target,
			Tok: &TokPlan{Kind: "stream", MintMethod: mint, MintUser: mintUser, BodyShape: shape, MutSeed: rng.Uint64()}}
	case k < 640: // content-encodings that lie about the body
		sh := genShape(rng, pick(rng, []string{"valid", "valid", "zero-rows-pointer", "null-default"}))
		rk, suf := naturalRoute(sh.Method)
		kind := pick(rng, encodingLies)
		eh, body := applyEncoding(rng, kind, sh.Body)
		hdr := append(baseHeaders(rng, cfg), eh)
		return Case{T: "rec", Cfg: cfg, Verb: "POST", Path: pfx + "/" + sh.Method + suf, Hdr: hdr, Body: body, Ext: sh.Ext, Route: rk, Family: "content-encoding", Shape: kind, Method: sh.Method}
	case k < 740: // control routes, pages, verbs, unknown paths, header fuzz
		return controlCase(rng, cfg, pfx)
	case k < 800: // the same kinds of traffic over a real listener
		c := genCaseHTTPForReal(rng, cfg, pfx)
		c.T = "real"
		return c
	default: // pipe
		return pipeCase(rng, cfg)
	}
}

func kindOr(m string) string {
	if k, ok := methodKinds[m]; ok {
		return k
	}
	return "unknown"
}

func genCaseHTTPForReal(rng *rand.Rand, cfg, pfx string) Case {
	switch rng.IntN(5) {
	case 0:
		return controlCase(rng, cfg, pfx)
	case 1:
		sh := genShape(rng, "valid")
		rk, suf := naturalRoute(sh.Method)
		body, how := byteHostile(rng, sh.Body)
		return Case{Cfg: cfg, Verb: "POST", Path: pfx + "/" + sh.Method + suf, Hdr: baseHeaders(rng, cfg), Body: body, Route: rk, Family: "bytes", Shape: how.Kind, Method: sh.Method, Derive: &how}
	case 2:
		if cfg == "pv" {
			cfg, pfx = "full", ""
		}
		mint := pick(rng, []string{"x_scale", "p_count", "d_stream"})
		target := pick(rng, methodNames)
		shape := pick(rng, contShapes)
		return Case{Cfg: cfg, Verb: "POST", Path: pfx + "/" + target + "/exchange", Hdr: [][2]string{{"Content-Type", arrowCT}}, Route: "exchange", Family: "token-replay",
			Shape: fmt.Sprintf("%s->%s:%s", methodKinds[mint], kindOr(target), shape), Method: target, Tok: &TokPlan{Kind: "stream", MintMethod: mint, BodyShape: shape, MutSeed: rng.Uint64()}}
	default:
		sh := genShape(rng, pickFamily(rng))
		rk, suf := naturalRoute(sh.Method)
		return Case{Cfg: cfg, Verb: "POST", Path: pfx + "/" + sh.Method + suf, Hdr: baseHeaders(rng, cfg), Body: sh.Body, Ext: sh.Ext, Route: rk, Family: sh.Family, Shape: sh.Name, Method: sh.Method}
	}
}

func controlCase(rng *rand.Rand, cfg, pfx string) Case {
	c := Case{T: "rec", Cfg: cfg, Verb: "POST", Hdr: baseHeaders(rng, cfg), Family: "route"}
	kind := pick(rng, []string{"describe", "describe", "describe-init", "upload-url", "upload-url", "introspect", "introspect", "session-delete", "session-delete", "health", "pages",
		"options", "unknown-path", "verb", "header-fuzz", "header-fuzz", "header-fuzz", "session-header", "content-length-lie", "transport-options", "oauth-wellknown"})
	c.Route, c.Shape = kind, kind
	switch kind {
	case "describe", "describe-init":
		c.Path = pfx + "/__describe__"
		if kind == "describe-init" {
			c.Path += pick(rng, []string{"/init", "/exchange"})
		}
		v := pick(rng, []string{"valid", "zero-rows-pointer", "meta", "rows", "bytes", "empty", "schema-perturb"})
		c.Shape += ":" + v
		switch v {
		case "valid":
			c.Body = frame(nil, nil, 0, stdMeta("__describe__"))
		case "bytes":
			c.Body, _ = byteHostile(rng, frame(nil, nil, 0, stdMeta("__describe__")))
		case "empty":
			c.Body = nil
		default:
			sh := genShape(rng, v)
			c.Body, c.Ext = sh.Body, sh.Ext
		}
	case "upload-url":
		c.Path = pfx + "/__upload_url__/init"
		v := pick(rng, []string{"valid", "count-huge", "count-negative", "count-null", "count-utf8", "count-zero-rows", "no-count", "wrong-method", "bytes", "two-rows", "location"})
		c.Shape += ":" + v
		f := []arrow.Field{{Name: "count", Type: arrow.PrimitiveTypes.Int64, Nullable: true}}
		meta := stdMeta("__upload_url__")
		rows := 1
		var col arrow.Array = oneInt64(2)
		switch v {
		case "count-huge":
			col = oneInt64(1 << 62)
		case "count-negative":
			col = oneInt64(-5)
		case "count-null":
			col = nullsOf(arrow.PrimitiveTypes.Int64, 1)
		case "count-utf8":
			f[0].Type, col = arrow.BinaryTypes.String, oneString("7")
		case "count-zero-rows":
			col, rows = nullsOf(arrow.PrimitiveTypes.Int64, 0), 0
			meta = append(meta, [2]string{vgirpc.MetaLocation, extBase + "x"})
		case "no-count":
			f[0].Name = "cnt"
		case "wrong-method":
			meta = stdMeta("u_echo")
		case "two-rows":
			b := array.NewInt64Builder(gen.Mem)
			b.AppendValues([]int64{1, 2}, nil)
			col, rows = b.NewArray(), 2
			b.Release()
		case "location":
			col, rows = nullsOf(arrow.PrimitiveTypes.Int64, 0), 0
			meta = append(meta, [2]string{vgirpc.MetaLocation, extBase + "missing"})
		}
		c.Body = frame(f, []arrow.Array{col}, rows, meta)
		col.Release()
		if v == "bytes" {
			c.Body, _ = byteHostile(rng, c.Body)
		}
	case "introspect":
		c.Path = pfx + "/__introspect_token__"
		c.Hdr = [][2]string{{"Content-Type", pick(rng, []string{"application/json", arrowCT, ""})}}
		if cfg == "full" {
			c.Hdr = append(c.Hdr, [2]string{"X-User", pick(rng, []string{"proxy", "proxy", "alice", "", "deny"})})
		}
		c.Body = []byte(pick(rng, []string{`{"token":"good"}`, `{"token":"down"}`, `{"token":"nope"}`, `{"token":""}`, `{"token":"a.b.c"}`, `{`, ``, `[]`, `{"token":123}`, `null`,
			`{"token":"` + strings.Repeat("x", 70000) + `"}`, "\xff\xfe", `{"token":"eyJhbGciOiJIUzI1NiJ9.eyJzdWIiOiIxIn0.c2ln"}`}))
	case "session-delete":
		c.Verb, c.Path, c.Body = "DELETE", pfx+"/__session__", nil
		if rng.IntN(2) == 0 && cfg == "full" {
			c.Tok = &TokPlan{Kind: "session", MintUser: pick(rng, []string{"", "alice"}), BodyShape: pick(rng, []string{"valid", "flip", "truncate", "pad"}), MutSeed: rng.Uint64()}
			c.Hdr = nil
			if u := pick(rng, []string{"", "alice", "bob", "deny", "boom"}); u != "" {
				c.Hdr = [][2]string{{"X-User", u}}
			}
			c.Shape += ":minted-" + c.Tok.BodyShape
		} else {
			c.Hdr = [][2]string{{"VGI-Session", pick(rng, []string{"", "AAAA", "!!!", gen.B64(wb.Noise(rng, 90)), strings.Repeat("B", 4000)})}}
		}
	case "session-header": // a minted session token presented on an RPC route, maybe by somebody else
		if cfg != "full" {
			cfg, pfx = "full", ""
			c.Cfg = cfg
		}
		m := pick(rng, methodNames)
		_, suf := naturalRoute(m)
		c.Path, c.Method = pfx+"/"+m+suf, m
		c.Body = validRequest(rng, m)
		c.Tok = &TokPlan{Kind: "session", MintUser: pick(rng, []string{"", "alice"}), BodyShape: pick(rng, []string{"valid", "valid", "flip", "truncate"}), MutSeed: rng.Uint64()}
		c.Hdr = [][2]string{{"Content-Type", arrowCT}}
		if u := pick(rng, []string{"", "alice", "bob"}); u != "" {
			c.Hdr = append(c.Hdr, [2]string{"X-User", u})
		}
		c.Shape += ":" + c.Tok.BodyShape
	case "health":
		c.Verb, c.Path, c.Body = pick(rng, []string{"GET", "GET", "HEAD", "POST"}), pick(rng, []string{"/health", pfx + "/health", "/health/", "/health/x"}), nil
	case "pages":
		c.Verb, c.Path, c.Body = "GET", pick(rng, []string{pfx + "/", pfx, pfx + "/describe", "/", "/describe", pfx + "/describe/", pfx + "/_oauth/callback", pfx + "/_oauth/token"}), nil
		if c.Path == "" {
			c.Path = "/"
		}
	case "oauth-wellknown":
		c.Verb, c.Path, c.Body = "GET", pick(rng, []string{"/.well-known/oauth-protected-resource", "/.well-known/oauth-protected-resource" + pfx, "/.well-known/"}), nil
	case "options":
		c.Verb, c.Path, c.Body = "OPTIONS", pick(rng, []string{"/", "/health", pfx + "/u_echo", pfx + "/x_scale/exchange", "/nope/nope/nope", "*"}), nil
		c.Hdr, _ = fuzzHeaders(rng, c.Hdr)
		if c.Path == "*" {
			c.Path = "/*"
		}
	case "unknown-path":
		c.Path = pick(rng, []string{"/nope", pfx + "/nope", pfx + "/nope/init", pfx + "/nope/exchange", pfx + "/u_echo/extra/segments", "//", pfx + "//init", pfx + "/%2e%2e/u_echo", pfx + "/u_echo%00",
			"/" + strings.Repeat("a", 5000), pfx + "/u_echo/", pfx + "/u%20echo", "/vgi", "/vgi/", pfx + "/__session__", pfx + "/__introspect_token__/init", pfx + "/{method}"})
		c.Body = validRequest(rng, "u_echo")
	case "verb":
		c.Verb = pick(rng, []string{"GET", "PUT", "PATCH", "DELETE", "HEAD", "TRACE", "CONNECT", "BREW"})
		m := pick(rng, methodNames)
		_, suf := naturalRoute(m)
		c.Path, c.Body = pfx+"/"+m+suf, validRequest(rng, m)
	case "header-fuzz":
		m := pick(rng, methodNames)
		_, suf := naturalRoute(m)
		c.Path, c.Body, c.Method = pfx+"/"+m+suf, validRequest(rng, m), m
		var hk string
		c.Hdr, hk = fuzzHeaders(rng, c.Hdr)
		c.Shape += ":" + hk
	case "content-length-lie":
		m := pick(rng, methodNames)
		_, suf := naturalRoute(m)
		c.Path, c.Body, c.Method = pfx+"/"+m+suf, validRequest(rng, m), m
		n := pick(rng, []int64{0, -1, 1, int64(len(c.Body)) - 1, int64(len(c.Body)) + 100, 1 << 40})
		c.CLen = &n
	case "transport-options":
		c.Path = pfx + "/__transport_options__"
		c.Body = frame(nil, nil, 0, stdMeta("__transport_options__"))
	}
	return c
}

func pipeCase(rng *rand.Rand, cfg string) Case {
	t := "pipe"
	if rng.IntN(8) == 0 {
		t = "pipeio"
	}
	if cfg == "pv" && rng.IntN(2) == 0 {
		curExtraMeta = [][2]string{{vgirpc.MetaProtocolVersion, "1.2.7"}}
	}
	c := Case{T: t, Cfg: cfg, Route: "pipe"}
	k := rng.IntN(100)
	switch {
	case k < 50: // Arrow-level shape, followed by an input stream when the method streams (or sometimes anyway)
		sh := genShape(rng, pickFamily(rng))
		c.Family, c.Shape, c.Method, c.Ext = sh.Family, sh.Name, sh.Method, sh.Ext
		c.Body = sh.Body
		if methodKinds[sh.Method] != "unary" || rng.IntN(6) == 0 {
			ik := pick(rng, inputKinds)
			in, ext := inputStream(rng, ik)
			c.Body = append(append([]byte{}, c.Body...), in...)
			c.Shape += "+input:" + ik
			c.Ext = mergeExt(c.Ext, ext)
		}
	case k < 65: // valid stream request + hostile input stream
		m := pick(rng, streamMethods)
		ik := pick(rng, inputKinds)
		in, ext := inputStream(rng, ik)
		c.Family, c.Shape, c.Method, c.Ext = "pipe-input", "input:"+ik, m, ext
		c.Body = append(mintRequest(rng, m, ""), in...)
	case k < 72: // control methods on the pipe
		m := pick(rng, []string{"__describe__", "__transport_options__", "nope", ""})
		c.Family, c.Shape, c.Method = "route", "pipe-control:"+m, m
		c.Body = frame(nil, nil, 0, stdMeta(m))
		if rng.IntN(2) == 0 {
			f, cols := validCols(rng, "u_small", 0)
			c.Body = frame(f, cols, 0, append(stdMeta(m), [2]string{vgirpc.MetaShmOffset, "1"}))
			releaseAll(cols)
			c.Shape += ":shm-pointer"
		}
	case k < 78: // several requests back to back, one of them hostile
		var body []byte
		n := 2 + rng.IntN(3)
		bad := rng.IntN(n)
		for i := 0; i < n; i++ {
			if i == bad {
				sh := genShape(rng, pick(rng, []string{"rows", "meta", "schema-perturb", "null-default", "zero-rows-pointer"}))
				body = append(body, sh.Body...)
				c.Ext = mergeExt(c.Ext, sh.Ext)
				c.Shape = "chain:" + sh.Family
			} else {
				body = append(body, validRequest(rng, pick(rng, unaryMethods))...)
			}
		}
		c.Family, c.Body = "pipe-chain", body
	default: // byte-level damage
		m := pick(rng, methodNames)
		base := validRequest(rng, m)
		if methodKinds[m] != "unary" {
			in, _ := inputStream(rng, pick(rng, []string{"ticks", "vals"}))
			base = append(base, in...)
		}
		body, how := byteHostile(rng, base)
		c.Family, c.Shape, c.Method, c.Body, c.Derive = "bytes", how.Kind, m, body, &how
	}
	return c
}

func mergeExt(a, b map[string][]byte) map[string][]byte {
	if len(b) == 0 {
		return a
	}
	if a == nil {
		a = map[string][]byte{}
	}
	for k, v := range b {
		a[k] = v
	}
	return a
}

// ---------------------------------------------------------------------------
// parent: evaluation

func dbg(envName string, def int) int {
	if v := os.Getenv(envName); v != "" {
		if n, err := strconv.Atoi(v); err == nil {
			return n
		}
	}
	return def
}

func main() {
	mon.ChildMain(map[string]mon.ChildFunc{"c03case": childCase})
	r := mon.Start("C03")
	defer r.Finish()
	if p := r.ReplayPath(); p != "" {
		os.Setenv("VERIF_NO_EVIDENCE", "1") // a one-case replay must not replace the evidence of the last real run
		replay(r, p)
		return
	}
	r.SetRule("one case = one hostile client interaction (HTTP in-process, HTTP over a real listener, pipe) against servers carrying the test service: Arrow-level shapes (families: rows, zero-row pointer batches with/without external config, metadata, nulls for defaulted pointer fields, dictionary indices out of range, wrapped request column, embedded ArrowSerializable payloads, schema perturbation), tokens replayed across methods/principals and continuation body shapes, lying content-encodings, every control route / verb / header fuzz, byte-level mutation of all of these; each followed by a liveness canary. distinct = distinct (transport, config, route, family, shape, body) signatures")
	r.Assume("the recorder arm observes escaping panics directly; the real-listener arm trusts net/http to turn a handler panic into a closed connection and a 'panic serving' log line")
	r.Assume("hostile shared-memory *segments* are out of scope (DESIGN C03 limits): shm keys are generated only with segment names that do not exist")
	r.Require("t-rec", "t-real", "t-pipe", "t-pipeio", "cfg-plain", "cfg-full", "cfg-pv",
		"family-zero-rows-pointer", "family-null-default", "family-dict-oob", "family-wrapped-request", "family-embedded-serializable", "family-schema-perturb", "family-meta", "family-rows",
		"family-token-replay", "family-continuation-shape", "family-content-encoding", "family-route", "family-bytes", "family-pipe-input", "family-pipe-chain",
		"route-unary", "route-init", "route-exchange", "route-describe", "route-upload-url", "route-introspect", "route-session-delete", "route-health", "route-pages", "route-options", "route-unknown-path",
		"frame-"+wb.WellFramed, "frame-"+wb.Truncated, "frame-"+wb.Overdeclared, "frame-"+wb.OverdeclaredHuge, "frame-"+wb.Garbage,
		"http-status-2xx", "http-status-4xx", "pipe-answered-error", "pipe-answered-data", "canary-ok",
		"handler-panic-contained-http", "handler-panic-contained-pipe")

	tStart := time.Now()
	shards := r.N(8, 16)
	total := dbg("VERIF_DEBUG_N", r.N(10000, 200000))
	per := total / shards
	type shardRes struct {
		cases []Case
		outs  []mon.Outcome
		err   error
	}
	res := make([]shardRes, shards)
	var wg sync.WaitGroup
	var genMu sync.Mutex // case generation uses a package-level variable (curExtraMeta)
	for s := 0; s < shards; s++ {
		genMu.Lock()
		rng := r.Rand(1, uint64(s))
		cases := make([]Case, per)
		inputs := make([][]byte, per)
		declared := make([]int64, per)
		for i := range cases {
			cases[i] = genCase(rng)
			b, err := json.Marshal(cases[i])
			if err != nil {
				r.Fatal("case not encodable: %v", err)
			}
			inputs[i] = b
			declared[i] = wb.Declared(cases[i].Body)
		}
		genMu.Unlock()
		if os.Getenv("VERIF_DEBUG_SLOW") != "" {
			nbig := 0
			for _, d := range declared {
				if d >= wb.BigAllocThreshold {
					nbig++
				}
			}
			fmt.Printf("TIMING shard %d generated %d cases (%d big) at +%.1fs\n", s, per, nbig, time.Since(tStart).Seconds())
		}
		res[s].cases = cases
		wg.Add(1)
		go func(s int) {
			defer wg.Done()
			res[s].outs, res[s].err = wb.RunPartitioned("c03case", inputs, declared, 1000, 25*time.Minute)
			if os.Getenv("VERIF_DEBUG_SLOW") != "" {
				fmt.Printf("TIMING shard %d done at +%.1fs\n", s, time.Since(tStart).Seconds())
			}
		}(s)
	}
	wg.Wait()

	r.Set("crashes_not_reproduced_in_a_fresh_child", wb.NotReproduced.Load())
	for s := range res {
		if res[s].err != nil {
			r.Fatal("isolated run: %v", res[s].err)
		}
		for i, o := range res[s].outs {
			evaluate(r, res[s].cases[i], o)
		}
	}
}

// replay re-runs the case stored in a witness file (written by Violation) in an
// isolated child and evaluates it like any other case.
func replay(r *mon.Run, path string) {
	data, err := os.ReadFile(path)
	if err != nil {
		r.Fatal("replay: %v", err)
	}
	var doc struct {
		Witness struct {
			Case Case `json:"case"`
		} `json:"witness"`
	}
	if err := json.Unmarshal(data, &doc); err != nil {
		r.Fatal("replay: %v", err)
	}
	in, _ := json.Marshal(doc.Witness.Case)
	outs, err := mon.RunIsolated("c03case", [][]byte{in}, mon.ChildOpt{VMemKiB: 8 << 20, Timeout: 3 * time.Minute})
	if err != nil {
		r.Fatal("replay: %v", err)
	}
	fmt.Printf("REPLAY outcome: crashed=%v timed_out=%v output=%s\n", outs[0].Crashed, outs[0].TimedOut, trunc(string(outs[0].Output), 3000))
	if outs[0].Crashed {
		fmt.Printf("REPLAY stderr:\n%s\n", trunc(outs[0].Detail, 4000))
	}
	evaluate(r, doc.Witness.Case, outs[0])
	r.Set("replayed", path)
}

func evaluate(r *mon.Run, c Case, o mon.Outcome) {
	body := c.Body
	var out Out
	if !o.Crashed && !o.TimedOut && !o.Panicked {
		if err := json.Unmarshal(o.Output, &out); err != nil {
			r.Fatal("child output not decodable: %v (%q)", err, trunc(string(o.Output), 200))
		}
		if out.Sent != nil {
			body = out.Sent
		}
	}
	rep := wb.Walk(body)
	tfam := c.T
	if tfam == "pipeio" {
		tfam = "pipe"
	}
	r.Class("t-" + c.T)
	r.Class("cfg-" + c.Cfg)
	r.Class("family-" + c.Family)
	r.Class("route-" + c.Route)
	if len(body) > 0 {
		r.Class("frame-" + rep.Class)
	}
	r.Count("cases."+c.T+"."+c.Family, 1)
	r.Count("child_micros."+c.T+"."+c.Family, out.Micros)
	if out.Micros > 300000 && os.Getenv("VERIF_DEBUG_SLOW") != "" {
		fmt.Printf("SLOW us=%d %s %s %s %s/%s cfg=%s class=%s declared=%d\n", out.Micros, c.T, c.Verb, c.Path, c.Family, c.Shape, c.Cfg, rep.Class, rep.Declared)
	}
	r.Case(mon.Hash(c.T, c.Cfg, c.Verb, c.Path, c.Family, c.Shape, gen.B64(body), gen.JSON(c.Hdr)))
	w := map[string]any{"case": c, "frame_class": rep.Class, "frame_fault": rep.Fault, "declared": rep.Declared}
	if out.Sent != nil {
		w["sent_b64"] = gen.B64(out.Sent)
	}
	sigTail := fmt.Sprintf("%s:%s", c.Family, rep.Class)
	where := fmt.Sprintf("%s %s %s %s [%s/%s, cfg %s]", c.T, c.Verb, c.Path, c.Method, c.Family, c.Shape, c.Cfg)
	switch {
	case o.TimedOut:
		r.Inconclusive("child watchdog fired in case " + where)
		return
	case o.Crashed:
		kind := wb.CrashKind(o.Detail)
		site := wb.AllocSite(o.Detail)
		w["stderr"] = o.Detail
		r.Count("child_died."+kind+"."+site, 1)
		if kind != "oom" {
			// rare and always worth a witness file of its own, whatever the cap on printed violations
			path := fmt.Sprintf("%s/replays/C03-crash-%s-seed%d-%s.json", r.RootDir(), kind, r.Seed(), mon.Hash(gen.B64(body)))
			if data, err := json.MarshalIndent(map[string]any{"property": "C03", "signature": fmt.Sprintf("%s:crash:%s:%s:%s", tfam, kind, sigTail, site), "witness": w}, "", " "); err == nil {
				_ = os.WriteFile(path, data, 0o644)
			}
		}
		if d := os.Getenv("VERIF_DEBUG_DUMP"); d != "" && strings.Contains(site, d) {
			fmt.Printf("DUMP %s\n%s\n%s\n", where, gen.JSON(c.Derive), o.Detail)
		}
		r.Violation(fmt.Sprintf("%s:crash:%s:%s:%s", tfam, kind, sigTail, site), fmt.Sprintf("server process died (%s at %s): %s", kind, site, where), w)
		return
	case o.Panicked:
		r.Fatal("harness code panicked in the child: %s", trunc(o.Detail, 1500))
	}
	if out.Harness != "" {
		r.Count("harness_skipped", 1)
		r.Set("last_harness_skip", out.Harness+" :: "+where)
		return
	}
	if out.Hang {
		path := fmt.Sprintf("%s/replays/C03-hang-seed%d-%s.json", r.RootDir(), r.Seed(), mon.Hash(gen.B64(body)))
		if data, err := json.MarshalIndent(map[string]any{"property": "C03", "signature": "pipe:hang", "witness": w}, "", " "); err == nil {
			_ = os.WriteFile(path, data, 0o644)
		}
		r.Inconclusive("Serve had not returned 120 s after the client closed its end (" + path + "): " + where)
		return
	}
	if out.Panic != "" {
		w["panic"] = out.Panic
		r.Count("escaped_panics."+tfam, 1)
		r.Violation(fmt.Sprintf("%s:panic:%s:%s", tfam, sigTail, wb.PanicSite(out.Panic)),
			fmt.Sprintf("panic escaped %s: %s :: %s", map[string]string{"rec": "HttpServer.ServeHTTP", "pipe": "Server.Serve"}[tfam], firstLine(out.Panic), where), w)
	}
	switch c.T {
	case "real":
		if out.RealErr != "" {
			if strings.HasPrefix(out.RealErr, "timeout") {
				path := fmt.Sprintf("%s/replays/C03-realtimeout-seed%d-%s.json", r.RootDir(), r.Seed(), mon.Hash(gen.B64(body)))
				if data, err := json.MarshalIndent(map[string]any{"property": "C03", "signature": "real:timeout", "witness": w}, "", " "); err == nil {
					_ = os.WriteFile(path, data, 0o644)
				}
				r.Inconclusive("real-listener client timed out (" + path + "): " + where)
			} else if strings.HasPrefix(out.RealErr, "harness:") {
				r.Count("harness_skipped", 1)
			} else {
				w["real_err"], w["server_log"] = out.RealErr, out.SrvLog
				site := "no-panic-logged"
				if i := strings.Index(out.SrvLog, "panic serving"); i >= 0 {
					site = wb.PanicSite("panic: " + afterColon(out.SrvLog[i:]))
				}
				r.Violation(fmt.Sprintf("real:no-response:%s:%s", sigTail, site), "the client got no HTTP status line ("+out.RealErr+"): "+where, w)
			}
		} else {
			statusClass(r, out.Status)
			if strings.Contains(out.SrvLog, "panic serving") {
				w["server_log"] = out.SrvLog
				r.Violation(fmt.Sprintf("real:panic-logged:%s", sigTail), "net/http logged a handler panic: "+where, w)
			}
		}
	case "rec":
		if out.Panic == "" {
			if out.Status < 100 || out.Status > 599 {
				r.Violation(fmt.Sprintf("rec:bad-status:%s", sigTail), fmt.Sprintf("response without a valid status code (%d): %s", out.Status, where), w)
			}
			statusClass(r, out.Status)
		}
	default:
		if out.Panic == "" {
			if out.Unclean != "" {
				w["unclean"] = out.Unclean
				r.Violation(fmt.Sprintf("pipe:unclean-output:%s", sigTail), "what the server wrote before closing is not a sequence of complete IPC streams ("+out.Unclean+"): "+where, w)
			} else {
				r.Class("pipe-" + out.PipeOut)
			}
		}
	}
	if out.Boom {
		if tfam == "pipe" {
			r.Class("handler-panic-contained-pipe")
		} else {
			r.Class("handler-panic-contained-http")
		}
	}
	if out.Canary != "" {
		w["canary"] = out.Canary
		r.Violation(fmt.Sprintf("%s:canary-failed:%s", tfam, sigTail), "after the hostile case the server no longer serves a valid call ("+out.Canary+"): "+where, w)
	} else {
		r.Class("canary-ok")
	}
}

func afterColon(s string) string {
	// "panic serving 127.0.0.1:1234: <message>\ngoroutine ..." -> "<message>\n..."
	if i := strings.Index(s, ": "); i >= 0 {
		return s[i+2:]
	}
	return s
}

func statusClass(r *mon.Run, code int) {
	switch {
	case code >= 200 && code < 300:
		r.Class("http-status-2xx")
	case code >= 300 && code < 400:
		r.Class("http-status-3xx")
	case code >= 400 && code < 500:
		r.Class("http-status-4xx")
	case code >= 500:
		r.Class("http-status-5xx")
	}
	r.Count("http.status."+strconv.Itoa(code), 1)
}
