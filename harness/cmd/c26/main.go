// C26 — token introspection never becomes an open credential oracle.
//
// The real HttpServer is driven in-process (ServeHTTP) by generated callers,
// bodies and credentials.  Observations, all independent of the handler's own
// bookkeeping:
//   - resolver invocation log (the resolver is harness code);
//   - a counting request Body (bytes handed out before the response was complete);
//   - the response (status, headers, body) from an httptest recorder;
//   - every slog record (and std log line) emitted while the request ran,
//     captured by a handler installed as slog default that accepts all levels.
//
// Direct predicates from the statement are evaluated per case; the rate clause
// uses bursts against a fresh server and the sound bound of DESIGN.md section 5.
package main

import (
	"bytes"
	"compress/gzip"
	"context"
	"encoding/base64"
	"encoding/hex"
	"encoding/json"
	"fmt"
	"io"
	"log/slog"
	"math/rand/v2"
	"net/http"
	"net/http/httptest"
	"net/url"
	"sort"
	"strings"
	"sync"
	"sync/atomic"
	"time"

	"github.com/Query-farm/vgi-rpc-go/vgirpc"
	"github.com/klauspost/compress/zstd"

	"verif/harness/internal/mon"
)

// ---------------------------------------------------------------------------
// log capture

type capHandler struct {
	mu    *sync.Mutex
	lines *[]string
	pre   string
}

func (h capHandler) Enabled(context.Context, slog.Level) bool { return true }
func (h capHandler) Handle(_ context.Context, rec slog.Record) error {
	var sb strings.Builder
	sb.WriteString(rec.Level.String())
	sb.WriteByte(' ')
	sb.WriteString(rec.Message)
	sb.WriteString(h.pre)
	rec.Attrs(func(a slog.Attr) bool {
		writeAttr(&sb, a)
		return true
	})
	h.mu.Lock()
	*h.lines = append(*h.lines, sb.String())
	h.mu.Unlock()
	return nil
}
func writeAttr(sb *strings.Builder, a slog.Attr) {
	v := a.Value.Resolve()
	if v.Kind() == slog.KindGroup {
		for _, g := range v.Group() {
			writeAttr(sb, g)
		}
		return
	}
	// both the plain and the %+v/%#v renderings: whatever a real handler could print
	fmt.Fprintf(sb, " %s=%v|%+v|%#v", a.Key, v.Any(), v.Any(), v.Any())
}
func (h capHandler) WithAttrs(as []slog.Attr) slog.Handler {
	var sb strings.Builder
	sb.WriteString(h.pre)
	for _, a := range as {
		writeAttr(&sb, a)
	}
	return capHandler{mu: h.mu, lines: h.lines, pre: sb.String()}
}
func (h capHandler) WithGroup(string) slog.Handler { return h }

var (
	logMu    sync.Mutex
	logLines []string
)

func logMark() int { logMu.Lock(); defer logMu.Unlock(); return len(logLines) }
func logSince(m int) []string {
	logMu.Lock()
	defer logMu.Unlock()
	return append([]string(nil), logLines[m:]...)
}
func logTrim() { logMu.Lock(); logLines = logLines[:0]; logMu.Unlock() }

// ---------------------------------------------------------------------------
// counting body

type countBody struct {
	r     io.Reader
	bytes atomic.Int64
	calls atomic.Int64
}

func (c *countBody) Read(p []byte) (int, error) {
	c.calls.Add(1)
	n, err := c.r.Read(p)
	c.bytes.Add(int64(n))
	return n, err
}
func (c *countBody) Close() error { return nil }

// ---------------------------------------------------------------------------
// resolver + authenticator (harness user code)

type resolverLog struct {
	mu    sync.Mutex
	calls []string
	// outcome per credential; default not found
	outcome map[string]string
}

func (l *resolverLog) resolve(cred string) (vgirpc.TokenIdentity, bool, error) {
	l.mu.Lock()
	l.calls = append(l.calls, cred)
	oc := l.outcome[cred]
	n := len(l.calls)
	l.mu.Unlock()
	switch oc {
	case "ok":
		return vgirpc.TokenIdentity{Principal: fmt.Sprintf("subject-%d@example", n), TokenName: "laptop", TTLSeconds: 60}, true, nil
	case "ok-default-ttl":
		return vgirpc.TokenIdentity{Principal: fmt.Sprintf("subject-%d@example", n)}, true, nil
	case "error":
		return vgirpc.TokenIdentity{}, false, fmt.Errorf("backing store exploded")
	case "unavailable":
		return vgirpc.TokenIdentity{}, false, &vgirpc.AuthUnavailableError{Detail: "credential store unreachable", RetryAfter: 7}
	}
	return vgirpc.TokenIdentity{}, false, nil
}
func (l *resolverLog) mark() int { l.mu.Lock(); defer l.mu.Unlock(); return len(l.calls) }
func (l *resolverLog) since(m int) []string {
	l.mu.Lock()
	defer l.mu.Unlock()
	return append([]string(nil), l.calls[m:]...)
}

func testAuthenticator(r *http.Request) (*vgirpc.AuthContext, error) {
	switch r.Header.Get("X-T-Mode") {
	case "anon":
		return vgirpc.Anonymous(), nil
	case "reject":
		return nil, vgirpc.NewAuthFailure(vgirpc.AuthReasonInvalidCredential, "bad credential")
	case "reject-valueerror":
		return nil, &vgirpc.RpcError{Type: "ValueError", Message: "no credential"}
	case "unavailable":
		return nil, vgirpc.NewAuthUnavailable("idp down")
	}
	return &vgirpc.AuthContext{Domain: "test", Authenticated: r.Header.Get("X-T-Authed") == "1", Principal: r.Header.Get("X-T-Principal")}, nil
}

// ---------------------------------------------------------------------------
// servers

type server struct {
	name     string
	h        *vgirpc.HttpServer
	prefix   string
	enabled  bool
	hasAuth  bool
	members  []string
	resolver *resolverLog
	rate     int
}

func newServer(name, prefix string, hasAuth bool, enable string, members []string, rate int) (*server, error) {
	s := &server{name: name, prefix: prefix, hasAuth: hasAuth, members: members, rate: rate,
		resolver: &resolverLog{outcome: map[string]string{}}}
	s.h = vgirpc.NewHttpServer(vgirpc.NewServer())
	if prefix != "" {
		s.h.SetPrefix(prefix)
	}
	if hasAuth {
		s.h.SetAuthenticate(testAuthenticator)
	}
	switch enable {
	case "valid":
		if err := s.h.EnableTokenIntrospection(vgirpc.TokenIntrospectionConfig{
			Resolver: s.resolver.resolve, Principals: append([]string{""}, members...), RateLimitPerSecond: rate}); err != nil {
			return nil, err
		}
		s.enabled = true
	case "invalid-no-principals":
		if err := s.h.EnableTokenIntrospection(vgirpc.TokenIntrospectionConfig{Resolver: s.resolver.resolve}); err == nil {
			return nil, fmt.Errorf("EnableTokenIntrospection accepted an empty allowlist")
		}
	case "invalid-empty-principal":
		if err := s.h.EnableTokenIntrospection(vgirpc.TokenIntrospectionConfig{Resolver: s.resolver.resolve, Principals: []string{"", ""}}); err == nil {
			return nil, fmt.Errorf("EnableTokenIntrospection accepted an allowlist of empty strings")
		}
	case "never":
	}
	return s, nil
}

// ---------------------------------------------------------------------------
// credentials and bodies

const b64url = "ABCDEFGHIJKLMNOPQRSTUVWXYZabcdefghijklmnopqrstuvwxyz0123456789-_"

func rstr(rng *rand.Rand, alphabet string, n int) string {
	b := make([]byte, n)
	for i := range b {
		b[i] = alphabet[rng.IntN(len(alphabet))]
	}
	return string(b)
}

// marker: 32 high-entropy url-safe chars, unique per case.
func marker(rng *rand.Rand) string { return "C26m" + rstr(rng, b64url, 32) }

type credSpec struct {
	class string
	cred  string // the credential a resolver would be handed ("" = none)
	// expectations
	mustNotResolve bool // JWS-shaped / oversized per the statement
	expect404      bool // unresolvable for sure -> fixed 404 (unless rate limited)
	outcome        string
	body           []byte
	chunked        bool
	clOverride     int64 // explicit Content-Length (0 = len(body))
}

func jsonBody(cred string) []byte {
	b, _ := json.Marshal(map[string]string{"token": cred})
	return b
}

var credClasses = []string{
	"opaque-ok", "opaque-ok-default-ttl", "opaque-notfound", "opaque-error", "opaque-unavailable",
	"opaque-with-dots-2seg", "opaque-4seg", "opaque-special-chars", "opaque-unicode", "opaque-invalid-utf8", "len-4096",
	"jws-3seg", "jws-realistic", "jws-empty-signature", "jws-single-char-segments", "jws-long", "jws-dash-underscore",
	"gray-detached-payload", "gray-padded-jws", "gray-leading-space-jws", "gray-trailing-newline-jws", "gray-empty-header-jws", "gray-multibyte-6000-bytes",
	"oversize-4097", "oversize-5000", "oversize-8000", "oversize-jws",
	"json-missing-key", "json-non-string", "json-null", "json-nested", "json-array", "json-duplicate-keys", "json-extra-keys",
	"json-key-case", "json-invalid", "json-truncated", "json-empty-token", "body-empty", "body-8192", "body-8193", "body-20000",
	"chunked-ok", "chunked-9000", "content-length-over-cap",
}

func makeCred(class string, rng *rand.Rand) credSpec {
	m := marker(rng)
	c := credSpec{class: class}
	seg := func(n int) string { return rstr(rng, b64url, n) }
	switch class {
	case "opaque-ok":
		c.cred, c.outcome = m, "ok"
	case "opaque-ok-default-ttl":
		c.cred, c.outcome = m, "ok-default-ttl"
	case "opaque-notfound":
		c.cred, c.expect404 = m, true
	case "opaque-error":
		c.cred, c.outcome = m, "error"
	case "opaque-unavailable":
		c.cred, c.outcome = m, "unavailable"
	case "opaque-with-dots-2seg":
		c.cred, c.expect404 = m+"."+seg(10), true
	case "opaque-4seg":
		c.cred, c.expect404 = m+"."+seg(5)+"."+seg(5)+"."+seg(5), true
	case "opaque-special-chars":
		c.cred, c.expect404 = m+"\"\\ <>&'\t%2F+/=", true
	case "opaque-unicode":
		c.cred, c.expect404 = m+"-ключ-鍵-🔑", true
	case "opaque-invalid-utf8":
		// raw invalid UTF-8 inside the JSON string (encoding/json hands the resolver U+FFFD instead)
		c.cred, c.expect404 = m, true
		c.body = []byte(`{"token":"` + m + "\xff\xfe\xc0" + `"}`)
	case "len-4096":
		c.cred, c.expect404 = m+rstr(rng, b64url+"~!*", 4096-len(m)), true
	case "jws-3seg":
		c.cred, c.mustNotResolve, c.expect404 = m+"."+seg(1+rng.IntN(40))+"."+seg(1+rng.IntN(40)), true, true
	case "jws-realistic":
		hdr := base64.RawURLEncoding.EncodeToString([]byte(`{"alg":"HS256","typ":"JWT"}`))
		pl := base64.RawURLEncoding.EncodeToString([]byte(`{"sub":"` + m + `","exp":1999999999}`))
		c.cred, c.mustNotResolve, c.expect404 = hdr+"."+pl+"."+seg(43), true, true
	case "jws-empty-signature":
		c.cred, c.mustNotResolve, c.expect404 = m+"."+seg(20)+".", true, true
	case "jws-single-char-segments":
		c.cred, c.mustNotResolve, c.expect404 = seg(1)+"."+seg(1)+"."+seg(1), true, true
	case "jws-long":
		c.cred, c.mustNotResolve, c.expect404 = m+"."+seg(2000)+"."+seg(1500), true, true
	case "jws-dash-underscore":
		c.cred, c.mustNotResolve, c.expect404 = "-_" + m + "._-" + seg(8) + ".-_-", true, true
	case "gray-detached-payload":
		c.cred = m + ".." + seg(20)
	case "gray-padded-jws":
		c.cred = m + "." + seg(10) + "." + seg(10) + "="
	case "gray-leading-space-jws":
		c.cred = " " + m + "." + seg(10) + "." + seg(10)
	case "gray-trailing-newline-jws":
		c.cred = m + "." + seg(10) + "." + seg(10) + "\n"
	case "gray-empty-header-jws":
		c.cred = "." + m + "." + seg(10)
	case "gray-multibyte-6000-bytes":
		c.cred = m + strings.Repeat("鍵", 1990) // 36 + 5970 bytes, 2026 characters
	case "oversize-4097":
		c.cred, c.mustNotResolve, c.expect404 = m+rstr(rng, b64url+"~!*", 4097-len(m)), true, true
	case "oversize-5000":
		c.cred, c.mustNotResolve, c.expect404 = m+rstr(rng, b64url+"~!*", 5000-len(m)), true, true
	case "oversize-8000":
		c.cred, c.mustNotResolve, c.expect404 = m+rstr(rng, b64url+"~!*", 8000-len(m)), true, true
	case "oversize-jws":
		c.cred, c.mustNotResolve, c.expect404 = m+"."+seg(3000)+"."+seg(2000), true, true
	case "json-missing-key":
		c.body = []byte(`{"tok":"` + m + `"}`)
	case "json-non-string":
		c.body = []byte(`{"token":12345678901234567890}`)
	case "json-null":
		c.body = []byte(`{"token":null}`)
	case "json-nested":
		c.body = []byte(`{"token":{"token":"` + m + `"}}`)
	case "json-array":
		c.body = []byte(`["` + m + `"]`)
	case "json-duplicate-keys":
		m2 := marker(rng)
		c.body = []byte(`{"token":"` + m + `","token":"` + m2 + `"}`)
		c.cred = m + "\x00" + m2 // both are checked for leaks (split below)
	case "json-extra-keys":
		c.cred, c.expect404 = m, true
		c.body = []byte(`{"claims":{"admin":true},"token":"` + m + `","x":[1,2,3]}`)
	case "json-key-case":
		c.cred = m
		c.body = []byte(`{"TOKEN":"` + m + `"}`)
	case "json-invalid":
		c.cred = m
		c.body = []byte(`{"token":"` + m + `"}}garbage`)
	case "json-truncated":
		c.cred = m
		c.body = []byte(`{"token":"` + m)
	case "json-empty-token":
		c.body = []byte(`{"token":""}`)
	case "body-empty":
		c.body = []byte{}
	case "body-8192":
		c.cred, c.expect404 = m, true
		b := jsonBody(m)
		c.body = append(b, bytes.Repeat([]byte(" "), 8192-len(b))...)
	case "body-8193":
		c.cred = m
		b := jsonBody(m)
		c.body = append(b, bytes.Repeat([]byte(" "), 8193-len(b))...)
	case "body-20000":
		c.cred = m
		b := jsonBody(m)
		c.body = append(b, bytes.Repeat([]byte(" "), 20000-len(b))...)
	case "chunked-ok":
		c.cred, c.expect404, c.chunked = m, true, true
	case "chunked-9000":
		c.cred, c.chunked = m, true
		b := jsonBody(m)
		c.body = append(b, bytes.Repeat([]byte(" "), 9000-len(b))...)
	case "content-length-over-cap":
		c.cred = m
		c.clOverride = 9000
	}
	if c.body == nil {
		c.body = jsonBody(c.cred)
	}
	return c
}

// independent shape predicates, from the statement / the documented rule
// ("three dot-separated base64url segments", third possibly empty; > 4096 characters).
func isB64url(s string) bool {
	for i := 0; i < len(s); i++ {
		if strings.IndexByte(b64url, s[i]) < 0 {
			return false
		}
	}
	return true
}
func jwsShaped(c string) bool {
	p := strings.Split(c, ".")
	return len(p) == 3 && p[0] != "" && p[1] != "" && isB64url(p[0]) && isB64url(p[1]) && isB64url(p[2])
}
func oversized(c string) bool { return len([]rune(c)) > 4096 }

func leakForms(cred string) []string {
	forms := map[string]bool{cred: true}
	if j, err := json.Marshal(cred); err == nil {
		forms[string(j[1:len(j)-1])] = true
	}
	q := fmt.Sprintf("%q", cred)
	forms[q[1:len(q)-1]] = true
	forms[url.QueryEscape(cred)] = true
	forms[base64.StdEncoding.EncodeToString([]byte(cred))] = true
	forms[base64.RawURLEncoding.EncodeToString([]byte(cred))] = true
	forms[hex.EncodeToString([]byte(cred))] = true
	out := make([]string, 0, len(forms))
	for f := range forms {
		out = append(out, f)
	}
	sort.Strings(out)
	return out
}

// ---------------------------------------------------------------------------
// callers

type caller struct {
	kind      string
	headers   map[string]string
	admitted  bool // authenticated member of the allowlist
	expect403 bool // unauthenticated or non-allowlisted, decided by the caller's AuthContext
}

var callerKinds = []string{
	"member", "member", "member", "member", "member-odd-name",
	"anonymous-context", "unauthenticated-with-member-name", "authenticated-non-member", "authenticated-empty-principal",
	"authenticated-member-name-case-changed", "authenticated-member-name-with-space", "authenticated-member-name-prefix",
	"authenticator-rejects", "authenticator-rejects-valueerror", "authenticator-unavailable",
}

func makeCaller(kind string, s *server, rng *rand.Rand) caller {
	c := caller{kind: kind, headers: map[string]string{}}
	member := s.members[rng.IntN(len(s.members))]
	switch kind {
	case "member":
		c.headers["X-T-Authed"], c.headers["X-T-Principal"] = "1", member
		c.admitted = true
	case "member-odd-name":
		c.headers["X-T-Authed"], c.headers["X-T-Principal"] = "1", s.members[len(s.members)-1]
		c.admitted = true
	case "anonymous-context":
		c.headers["X-T-Mode"] = "anon"
		c.expect403 = true
	case "unauthenticated-with-member-name":
		c.headers["X-T-Authed"], c.headers["X-T-Principal"] = "0", member
		c.expect403 = true
	case "authenticated-non-member":
		c.headers["X-T-Authed"], c.headers["X-T-Principal"] = "1", "mallory-"+rstr(rng, b64url, 6)
		c.expect403 = true
	case "authenticated-empty-principal":
		c.headers["X-T-Authed"], c.headers["X-T-Principal"] = "1", ""
		c.expect403 = true
	case "authenticated-member-name-case-changed":
		c.headers["X-T-Authed"], c.headers["X-T-Principal"] = "1", strings.ToUpper(member)
		c.expect403 = strings.ToUpper(member) != member
		c.admitted = !c.expect403
	case "authenticated-member-name-with-space":
		c.headers["X-T-Authed"], c.headers["X-T-Principal"] = "1", member+" "
		c.expect403 = true
	case "authenticated-member-name-prefix":
		c.headers["X-T-Authed"], c.headers["X-T-Principal"] = "1", member[:len(member)-1]
		c.expect403 = true
	case "authenticator-rejects":
		c.headers["X-T-Mode"] = "reject"
	case "authenticator-rejects-valueerror":
		c.headers["X-T-Mode"] = "reject-valueerror"
	case "authenticator-unavailable":
		c.headers["X-T-Mode"] = "unavailable"
	}
	if !s.hasAuth {
		// no authenticator configured: everybody is Anonymous()
		c.kind = "no-authenticator(" + kind + ")"
		c.admitted, c.expect403 = false, true
	}
	return c
}

// ---------------------------------------------------------------------------

type obs struct {
	Status     int      `json:"status"`
	Body       string   `json:"body"`
	Header     string   `json:"header"`
	BytesRead  int64    `json:"request_body_bytes_read"`
	ReadCalls  int64    `json:"request_body_read_calls"`
	Resolver   []string `json:"-"`
	ResolverN  int      `json:"resolver_invocations"`
	Logs       []string `json:"log_lines"`
	RetryAfter string   `json:"retry_after,omitempty"`
}

func do(s *server, c caller, cs credSpec, rng *rand.Rand) obs {
	cb := &countBody{r: bytes.NewReader(cs.body)}
	req := httptest.NewRequest(http.MethodPost, s.prefix+vgirpc.IntrospectEndpoint, nil)
	req.Body = cb
	req.ContentLength = int64(len(cs.body))
	if cs.chunked {
		req.ContentLength = -1
		req.TransferEncoding = []string{"chunked"}
	}
	if cs.clOverride != 0 {
		req.ContentLength = cs.clOverride
	}
	req.Header.Set("Content-Type", "application/json")
	req.RemoteAddr = fmt.Sprintf("198.51.100.%d:%d", rng.IntN(250), 1024+rng.IntN(60000))
	for k, v := range c.headers {
		req.Header.Set(k, v)
	}
	// domain audit: callers that negotiate response compression (the leak and
	// fixed-body predicates must hold for what such a caller decodes)
	switch rng.IntN(12) {
	case 0:
		req.Header.Set("Accept-Encoding", "gzip")
	case 1:
		req.Header.Set("Accept-Encoding", "zstd, gzip")
	case 2:
		req.Header.Set("X-VGI-Accept-Encoding", "zstd")
	}
	lm, rm := logMark(), s.resolver.mark()
	rec := httptest.NewRecorder()
	s.h.ServeHTTP(rec, req)
	var hb strings.Builder
	keys := make([]string, 0, len(rec.Header()))
	for k := range rec.Header() {
		keys = append(keys, k)
	}
	sort.Strings(keys)
	for _, k := range keys {
		fmt.Fprintf(&hb, "%s: %s\n", k, strings.Join(rec.Header()[k], ", "))
	}
	bodyText := rec.Body.String()
	enc := rec.Header().Get("Content-Encoding")
	if enc == "" {
		enc = rec.Header().Get("X-VGI-Content-Encoding")
	}
	switch enc {
	case "gzip":
		if zr, err := gzip.NewReader(bytes.NewReader(rec.Body.Bytes())); err == nil {
			if dec, err := io.ReadAll(zr); err == nil {
				bodyText = string(dec)
				encodedSeen.Add(1)
			}
		}
	case "zstd":
		if zr, err := zstd.NewReader(bytes.NewReader(rec.Body.Bytes())); err == nil {
			if dec, err := io.ReadAll(zr); err == nil {
				bodyText = string(dec)
				encodedSeen.Add(1)
			}
			zr.Close()
		}
	}
	o := obs{Status: rec.Code, Body: bodyText, Header: hb.String(), BytesRead: cb.bytes.Load(), ReadCalls: cb.calls.Load(),
		Resolver: s.resolver.since(rm), Logs: logSince(lm), RetryAfter: rec.Header().Get("Retry-After")}
	o.ResolverN = len(o.Resolver)
	return o
}

// coarse groups for violation signatures (the exact class goes into the text)
func credGroup(class string) string {
	switch {
	case strings.HasPrefix(class, "jws") || class == "oversize-jws":
		return "jws-shaped"
	case strings.HasPrefix(class, "oversize"):
		return "oversized"
	case strings.HasPrefix(class, "gray"):
		return "near-jws-shapes"
	case strings.HasPrefix(class, "json"), strings.HasPrefix(class, "body"), strings.HasPrefix(class, "chunked"), strings.HasPrefix(class, "content-length"):
		return "unusable-or-odd-body"
	}
	return "opaque"
}

func callerGroup(kind string) string {
	switch {
	case strings.HasPrefix(kind, "no-authenticator"):
		return "no-authenticator"
	case strings.Contains(kind, "anonymous") || strings.Contains(kind, "unauthenticated"):
		return "unauthenticated"
	case strings.HasPrefix(kind, "authenticator-"):
		return "authenticator-rejected"
	}
	return "authenticated-non-member"
}

var encodedSeen atomic.Int64

type fixedBodies struct {
	mu   sync.Mutex
	seen map[int]string
}

func (f *fixedBodies) check(status int, body string) (first string, same bool) {
	f.mu.Lock()
	defer f.mu.Unlock()
	if prev, ok := f.seen[status]; ok {
		return prev, prev == body
	}
	f.seen[status] = body
	return body, true
}

func trunc(s string, n int) string {
	if len(s) > n {
		return s[:n] + fmt.Sprintf("...(%d bytes)", len(s))
	}
	return s
}

func firstLine(s string) string {
	for _, l := range strings.Split(s, "\n") {
		if strings.Contains(l, "fatal error") || strings.HasPrefix(l, "panic:") {
			return strings.TrimSpace(l)
		}
	}
	if i := strings.IndexByte(s, '\n'); i > 0 {
		return s[:i]
	}
	return s
}

func main() {
	mon.ChildMain(map[string]mon.ChildFunc{"burst": burstChild, "seq": seqChild})
	slog.SetDefault(slog.New(capHandler{mu: &logMu, lines: &logLines}))
	r := mon.Start("C26")
	defer r.Finish()
	r.SetRule("functional arm: one case = one POST to the introspection route of a real HttpServer (in-process), generated from (server configuration, caller kind, credential/body class); signature = (server, caller kind, credential class, status); trivial = none. rate arm: one case = one burst trial against a fresh server")
	r.Assume("\"unauthenticated caller\" = the authenticator (or its absence) yields an AuthContext with Authenticated=false; a request the authenticator itself rejects (401/503 from the generic authentication step) is outside the 403 clause and is only checked for: no body bytes read, resolver not invoked, no leak")
	r.Assume("JWS-shaped = exactly three dot-separated segments of [A-Za-z0-9_-], first two non-empty, third possibly empty (the documented rule); detached-payload / padded / whitespace-wrapped variants are gray: only the leak and fixed-body clauses are checked for them")
	r.Assume("oversized = more than 4096 characters (runes); a 429 answer is legal for any allowlisted caller and must not invoke the resolver")
	r.Assume("\"the credential appears\" = the full credential occurs verbatim, or JSON/Go-quoted, URL-escaped, base64 or hex encoded, in any response header, the response body, or any slog/std-log record emitted while the request was served; the SHA-256 digest is allowed")
	r.Assume("idle-gap arm: idle time is injected with the verif hook VerifC26IntrospectIdle (the limiter's stored window start is moved back; the limiter only ever compares time.Now() with it), cross-checked by a few real-sleep trials; after an idle gap of >= 1 window the burst must stay within `rate` per caller (no boundary tolerance: the first request opens the window); across arbitrary gaps the bound rate*(floor(L/window)+2) per simulated interval L holds for any fixed-window limiter")
	r.Assume("rate clause: wall clock is used only to decide whether a burst trial is applicable (whole burst < 0.9 s on the monotonic clock, fresh server => one limiter window); slower trials are inconclusive and repeated")
	r.Require("403:unauthenticated", "403:non-member", "403:no-authenticator", "404:jws-not-resolved", "404:oversized-not-resolved",
		"404:resolver-not-found", "200:resolved", "503:resolver-unavailable", "disabled:never-enabled", "disabled:invalid-config",
		"401:authenticator-rejected:no-body-read", "rate:burst-in-one-window", "rate:some-429", "rate:idle-gap>=2-windows:burst-in-one-window", "rate:idle-gap-1-to-2-windows:burst-in-one-window", "rate:idle-gap:fractional", "rate:idle-gap:real-sleep", "log:digest-seen", "log:lines-captured")

	fixed := &fixedBodies{seen: map[int]string{}}
	var fixed404Disabled = &fixedBodies{seen: map[int]string{}}

	nWorlds := r.N(60, 2600)
	perWorld := 250
	for wi := 0; wi < nWorlds; wi++ {
		rng := r.Rand(1, uint64(wi))
		members := []string{"introspector@example", "proxy-" + rstr(rng, b64url, 8)}
		switch rng.IntN(3) {
		case 0:
			members = append(members, "odd name/with spaces & ünïcode")
		case 1:
			members = append(members, "x")
		default:
			members = append(members, "Introspector@Example.COM")
		}
		prefix := []string{"", "/vgi", "/a/b"}[rng.IntN(3)]
		specs := []struct {
			name    string
			hasAuth bool
			enable  string
		}{
			{"enabled+auth", true, "valid"}, {"enabled+auth", true, "valid"}, {"enabled+auth", true, "valid"},
			{"enabled+no-authenticator", false, "valid"},
			{"never-enabled", true, "never"}, {"never-enabled+no-authenticator", false, "never"},
			{"enable-refused:no-principals", true, "invalid-no-principals"}, {"enable-refused:empty-principal", true, "invalid-empty-principal"},
		}
		var servers []*server
		for _, sp := range specs {
			s, err := newServer(sp.name, prefix, sp.hasAuth, sp.enable, members, 1_000_000)
			if err != nil {
				r.Violation("setup:"+sp.name, err.Error(), map[string]any{"server": sp.name, "members": members})
				continue
			}
			servers = append(servers, s)
		}
		if len(servers) != len(specs) {
			continue
		}
		for ci := 0; ci < perWorld; ci++ {
			var s *server
			switch k := rng.IntN(20); {
			case k < 12:
				s = servers[rng.IntN(3)]
			case k < 14:
				s = servers[3]
			default:
				s = servers[4+rng.IntN(len(servers)-4)]
			}
			ck := callerKinds[rng.IntN(len(callerKinds))]
			cl := makeCaller(ck, s, rng)
			cs := makeCred(credClasses[(ci+wi)%len(credClasses)], rng)
			creds := strings.Split(cs.cred, "\x00")
			if cs.cred == "" {
				creds = nil
			}
			for _, c := range creds {
				if cs.outcome != "" {
					s.resolver.mu.Lock()
					s.resolver.outcome[c] = cs.outcome
					s.resolver.mu.Unlock()
				}
			}
			o := do(s, cl, cs, rng)
			r.Case(fmt.Sprintf("%s|%s|%s|%d", s.name, cl.kind, cs.class, o.Status))
			r.Count(fmt.Sprintf("status.%d", o.Status), 1)
			r.Count("log_lines_captured", int64(len(o.Logs)))
			if len(o.Logs) > 0 {
				r.Class("log:lines-captured")
			}
			wit := func() map[string]any {
				return map[string]any{"server": s.name, "prefix": s.prefix, "members": s.members, "caller": cl.kind, "caller_headers": cl.headers,
					"credential_class": cs.class, "credential": trunc(cs.cred, 300), "request_body_b64": base64.StdEncoding.EncodeToString([]byte(trunc(string(cs.body), 600))),
					"chunked": cs.chunked, "content_length_override": cs.clOverride, "observed": obs{Status: o.Status, Body: trunc(o.Body, 400), Header: o.Header,
						BytesRead: o.BytesRead, ReadCalls: o.ReadCalls, ResolverN: o.ResolverN, Logs: o.Logs, RetryAfter: o.RetryAfter}}
			}
			if ci == 0 && wi%7 == 0 {
				r.Sample(wit())
			}

			// (6) the credential never appears in a response or a log line
			for _, c := range creds {
				if len(c) < 16 {
					continue
				}
				for _, f := range leakForms(c) {
					if strings.Contains(o.Body, f) || strings.Contains(o.Header, f) {
						r.Violation("leak:response:"+credGroup(cs.class), "the credential ("+cs.class+") appears in the response", wit())
					}
					for _, l := range o.Logs {
						if strings.Contains(l, f) {
							r.Violation("leak:log:"+credGroup(cs.class), "the credential ("+cs.class+") appears in a log record: "+trunc(l, 200), wit())
						}
					}
				}
				dg := vgirpc.TokenDigest(c)
				for _, l := range o.Logs {
					if strings.Contains(l, dg) {
						r.Class("log:digest-seen")
					}
				}
			}
			// the resolver only ever sees what it may see
			for _, rc := range o.Resolver {
				if jwsShaped(rc) {
					r.Violation("resolver-got-jws-shaped", "a JWS-shaped credential ("+cs.class+") reached the resolver", wit())
				}
				if oversized(rc) {
					r.Violation("resolver-got-oversized", fmt.Sprintf("a credential of %d characters (%s) reached the resolver", len([]rune(rc)), cs.class), wit())
				}
			}

			switch {
			case !s.enabled:
				// (1) resolves nothing unless enabled
				if o.ResolverN != 0 {
					r.Violation("disabled:resolver-invoked:"+s.name, "resolver invoked although introspection was never (validly) enabled", wit())
				}
				if strings.HasPrefix(s.name, "never") {
					r.Class("disabled:never-enabled")
				} else {
					r.Class("disabled:invalid-config")
				}
				if o.Status == http.StatusOK {
					r.Violation("disabled:answered-200:"+s.name, "a disabled introspection route answered 200", wit())
				}
				if o.Status == http.StatusNotFound {
					if first, same := fixed404Disabled.check(404, o.Body); !same {
						r.Violation("disabled:404-body-varies", fmt.Sprintf("404 bodies of a disabled route differ: %q vs %q", trunc(first, 100), trunc(o.Body, 100)), wit())
					}
				}
			case cl.expect403:
				// (2) one fixed 403 before reading the subject
				if o.Status != http.StatusForbidden {
					r.Violation("not-403:"+callerGroup(cl.kind), fmt.Sprintf("caller %q got status %d, not 403", cl.kind, o.Status), wit())
				} else if first, same := fixed.check(403, o.Body); !same {
					r.Violation("403-body-varies", fmt.Sprintf("403 bodies differ: %q vs %q", trunc(first, 100), trunc(o.Body, 100)), wit())
				}
				if o.BytesRead != 0 {
					r.Violation("body-read-before-403:"+callerGroup(cl.kind), fmt.Sprintf("%d request-body bytes were read for a caller that is refused", o.BytesRead), wit())
				}
				if o.ResolverN != 0 {
					r.Violation("resolver-invoked-for-refused-caller:"+callerGroup(cl.kind), "resolver invoked for an unauthenticated / non-allowlisted caller", wit())
				}
				switch {
				case !s.hasAuth:
					r.Class("403:no-authenticator")
				case strings.Contains(cl.kind, "anonymous") || strings.Contains(cl.kind, "unauthenticated"):
					r.Class("403:unauthenticated")
				default:
					r.Class("403:non-member")
				}
			case !cl.admitted:
				// authenticator rejected / unavailable: generic 401/503 path
				if o.BytesRead != 0 {
					r.Violation("body-read-for-rejected-caller:"+cl.kind, fmt.Sprintf("%d request-body bytes were read for a caller the authenticator rejected", o.BytesRead), wit())
				}
				if o.ResolverN != 0 {
					r.Violation("resolver-invoked-for-rejected-caller:"+cl.kind, "resolver invoked for a caller the authenticator rejected", wit())
				}
				if o.Status == http.StatusOK {
					r.Violation("rejected-caller-answered-200:"+cl.kind, "a caller the authenticator rejected got 200", wit())
				}
				if o.Status == http.StatusUnauthorized {
					r.Class("401:authenticator-rejected:no-body-read")
				}
			default:
				// admitted caller
				if o.Status == http.StatusTooManyRequests {
					if o.ResolverN != 0 {
						r.Violation("resolver-invoked-on-429", "resolver invoked for a rate-limited request", wit())
					}
					break
				}
				if cs.mustNotResolve && o.ResolverN != 0 {
					r.Violation("resolver-invoked:"+credGroup(cs.class), "resolver invoked for a JWS-shaped or oversized credential ("+cs.class+")", wit())
				}
				if cs.expect404 && o.Status != http.StatusNotFound {
					r.Violation("unresolvable-not-404:"+credGroup(cs.class), fmt.Sprintf("unresolvable credential answered with %d", o.Status), wit())
				}
				if o.Status == http.StatusNotFound {
					if first, same := fixed.check(404, o.Body); !same {
						r.Violation("404-body-varies", fmt.Sprintf("404 bodies differ: %q vs %q", trunc(first, 100), trunc(o.Body, 100)), wit())
					}
					switch {
					case cs.mustNotResolve && strings.HasPrefix(cs.class, "jws"):
						r.Class("404:jws-not-resolved")
					case cs.mustNotResolve:
						r.Class("404:oversized-not-resolved")
					case o.ResolverN == 1:
						r.Class("404:resolver-not-found")
					default:
						r.Class("404:body-unusable")
					}
				}
				if o.Status == http.StatusOK {
					r.Class("200:resolved")
					if o.ResolverN != 1 {
						r.Violation("200-without-single-resolution", fmt.Sprintf("200 with %d resolver invocations", o.ResolverN), wit())
					}
				}
				if o.Status == http.StatusServiceUnavailable && cs.outcome == "unavailable" {
					r.Class("503:resolver-unavailable")
				}
			}
			logTrim()
		}
	}
	r.Set("responses_decoded_from_negotiated_compression", encodedSeen.Load())
	if encodedSeen.Load() > 0 {
		r.Class("response:negotiated-compression-decoded")
	}
	r.Set("fixed_bodies", map[string]any{"403": fixed.seen[403], "404": fixed.seen[404], "404_disabled": fixed404Disabled.seen[404]})

	rateArm(r)
	idleArm(r)
}

// ---------------------------------------------------------------------------
// idle-gap arm: sequences of (idle for g windows; burst) against ONE server.
// Idle time passes through the verif hook VerifC26IntrospectIdle (the limiter's
// stored window start is moved back: exactly "g windows elapsed without a
// request"), or, in a few trials, through a real sleep.  Every admission gets a
// simulated timestamp (monotonic real time + total idle injected so far).

type seqIn struct {
	Seed  int64 `json:"seed"`
	Trial int   `json:"trial"`
	Real  bool  `json:"real"`
}

type seqAdm struct {
	Caller int   `json:"c"`
	Call   int64 `json:"call"` // simulated ns
	Ret    int64 `json:"ret"`
	Step   int   `json:"step"`
}

type seqStep struct {
	GapWindows float64 `json:"gap_windows"`
	RealSpanMs float64 `json:"burst_real_ms"`
	Requests   int     `json:"requests"`
	Admitted   []int   `json:"admitted_per_caller"`
	Resolved   []int   `json:"resolved_per_caller"`
}

type seqOut struct {
	Rate, Eff, Callers, Workers int
	Real                        bool
	Steps                       []seqStep
	Adm                         []seqAdm
}

var gapChoices = []float64{0, 0.25, 0.5, 0.9, 1, 1.1, 1.5, 2, 3, 5, 7.25, 10, 33.3, 60, 100, 3600}

func seqChild(in []byte) []byte {
	slog.SetDefault(slog.New(slog.NewTextHandler(io.Discard, nil)))
	var si seqIn
	if err := json.Unmarshal(in, &si); err != nil {
		panic(err)
	}
	rng := rand.New(rand.NewPCG(uint64(si.Seed)*0x9e3779b97f4a7c15+0x26c, uint64(si.Trial)))
	window := time.Second
	rates := []int{2, 1, 5, 3, 0, 10}
	out := seqOut{Rate: rates[si.Trial%len(rates)], Real: si.Real}
	out.Eff = out.Rate
	if out.Eff == 0 {
		out.Eff = 20
	}
	out.Callers = 1 + rng.IntN(3)
	out.Workers = 1 + rng.IntN(8)
	members := make([]string, out.Callers)
	for i := range members {
		members[i] = fmt.Sprintf("proxy-%d-%s", i, rstr(rng, b64url, 5))
	}
	s, err := newServer("rate-idle", "", true, "valid", members, out.Rate)
	if err != nil {
		panic(err)
	}
	warm := httptest.NewRequest(http.MethodPost, vgirpc.IntrospectEndpoint, strings.NewReader(`{"token":"x"}`))
	warm.Header.Set("X-T-Authed", "1")
	warm.Header.Set("X-T-Principal", "nobody")
	s.h.ServeHTTP(httptest.NewRecorder(), warm)

	nSteps := 3 + rng.IntN(4)
	if si.Real {
		nSteps = 2
	}
	t0 := time.Now()
	var shift time.Duration
	for st := 0; st < nSteps; st++ {
		g := gapChoices[rng.IntN(len(gapChoices))]
		if st == 0 && rng.IntN(2) == 0 {
			g = 0 // burst right after construction
		}
		if st > 0 && rng.IntN(3) == 0 {
			g = float64(2 + rng.IntN(99)) // whole windows, the catch-up shape
		}
		if si.Real {
			g = 0
			if st == 1 {
				g = 3.3
			}
		}
		d := time.Duration(g * float64(window))
		if si.Real {
			time.Sleep(d)
		} else if d > 0 {
			if !vgirpc.VerifC26IntrospectIdle(s.h, d) {
				panic("VerifC26IntrospectIdle: introspection not enabled")
			}
			shift += d
		}
		type reqT struct {
			caller int
			cred   string
		}
		var reqs []reqT
		for c := 0; c < out.Callers; c++ {
			for i := 0; i < 3*out.Eff; i++ {
				reqs = append(reqs, reqT{c, marker(rng)})
			}
		}
		rng.Shuffle(len(reqs), func(i, j int) { reqs[i], reqs[j] = reqs[j], reqs[i] })
		prepared := make([]*http.Request, len(reqs))
		for i, q := range reqs {
			req := httptest.NewRequest(http.MethodPost, vgirpc.IntrospectEndpoint, bytes.NewReader(jsonBody(q.cred)))
			req.Header.Set("Content-Type", "application/json")
			req.Header.Set("X-T-Authed", "1")
			req.Header.Set("X-T-Principal", members[q.caller])
			req.RemoteAddr = fmt.Sprintf("198.51.100.%d:%d", rng.IntN(250), 1024+rng.IntN(60000))
			prepared[i] = req
		}
		statuses := make([]int, len(reqs))
		calls := make([]int64, len(reqs))
		rets := make([]int64, len(reqs))
		rm := s.resolver.mark()
		var wg sync.WaitGroup
		var next atomic.Int64
		start := time.Now()
		for w := 0; w < out.Workers; w++ {
			wg.Add(1)
			go func() {
				defer wg.Done()
				for {
					i := int(next.Add(1)) - 1
					if i >= len(prepared) {
						return
					}
					rec := httptest.NewRecorder()
					calls[i] = int64(time.Since(t0) + shift)
					s.h.ServeHTTP(rec, prepared[i])
					rets[i] = int64(time.Since(t0) + shift)
					statuses[i] = rec.Code
				}
			}()
		}
		wg.Wait()
		span := time.Since(start)
		step := seqStep{GapWindows: g, RealSpanMs: span.Seconds() * 1000, Requests: len(reqs), Admitted: make([]int, out.Callers), Resolved: make([]int, out.Callers)}
		credCaller := map[string]int{}
		for i, q := range reqs {
			credCaller[q.cred] = q.caller
			if statuses[i] != http.StatusTooManyRequests {
				step.Admitted[q.caller]++
				out.Adm = append(out.Adm, seqAdm{Caller: q.caller, Call: calls[i], Ret: rets[i], Step: st})
			}
		}
		for _, c := range s.resolver.since(rm) {
			if k, ok := credCaller[c]; ok {
				step.Resolved[k]++
			}
		}
		out.Steps = append(out.Steps, step)
	}
	b, _ := json.Marshal(out)
	return b
}

func idleArm(r *mon.Run) {
	nHook, nReal := r.N(16, 600), r.N(1, 3)
	var inputs [][]byte
	for t := 0; t < nHook+nReal; t++ {
		b, _ := json.Marshal(seqIn{Seed: r.Seed(), Trial: t, Real: t >= nHook})
		inputs = append(inputs, b)
	}
	outs, err := mon.RunIsolated("seq", inputs, mon.ChildOpt{Timeout: 10 * time.Minute})
	if err != nil {
		r.Fatal("idle-gap arm: %v", err)
	}
	window := int64(time.Second)
	skipped := 0
	for t, o := range outs {
		switch {
		case o.TimedOut:
			r.Inconclusive(fmt.Sprintf("idle-gap trial %d: child watchdog fired", t))
			continue
		case o.Crashed:
			r.Violation("rate:process-died-during-idle-gap-sequence", firstLine(o.Detail), map[string]any{"trial": t, "seed": r.Seed(), "stderr": o.Detail})
			continue
		case o.Panicked:
			r.Fatal("idle-gap trial %d: %s", t, firstLine(o.Detail))
		}
		var q seqOut
		if err := json.Unmarshal(o.Output, &q); err != nil {
			r.Fatal("idle-gap trial %d: bad child output: %v", t, err)
		}
		sig := fmt.Sprintf("idle|%d|c%d|w%d", q.Rate, q.Callers, q.Workers)
		for si, st := range q.Steps {
			sig += fmt.Sprintf("|%.2f:%v", st.GapWindows, st.Admitted)
			r.Count("idle.requests", int64(st.Requests))
			// Oracle A: after an idle gap of >= 1 window (or on the untouched fresh
			// server) the first request opens a new window; a burst shorter than
			// 0.9 window lies inside it: at most `rate` admissions per caller.
			anchored := st.GapWindows >= 1 || si == 0
			if !anchored {
				r.Class("rate:idle-gap:fractional")
				continue
			}
			if st.RealSpanMs >= 900 {
				skipped++
				continue
			}
			switch {
			case q.Real && si > 0:
				r.Class("rate:idle-gap:real-sleep")
			case st.GapWindows >= 2:
				r.Class("rate:idle-gap>=2-windows:burst-in-one-window")
			case st.GapWindows >= 1:
				r.Class("rate:idle-gap-1-to-2-windows:burst-in-one-window")
			}
			for k := 0; k < q.Callers; k++ {
				if st.Admitted[k] > q.Eff || st.Resolved[k] > q.Eff {
					how := "hook"
					if q.Real {
						how = "real-sleep"
					}
					r.Violation("rate:idle-gap:more-than-configured-admissions-in-one-real-window",
						fmt.Sprintf("after %.2f idle windows (%s) caller %d got %d non-429 answers (%d resolver invocations) in a %.0f ms burst; limit %d per window", st.GapWindows, how, k, st.Admitted[k], st.Resolved[k], st.RealSpanMs, q.Eff),
						map[string]any{"trial": t, "seed": r.Seed(), "step": si, "result": map[string]any{"rate": q.Rate, "effective_rate": q.Eff, "callers": q.Callers, "workers": q.Workers, "real_sleep": q.Real, "steps": q.Steps}})
				}
			}
		}
		r.Case(sig)
		// Oracle B (any gaps, any timing): a fixed-window limiter whose windows are at
		// least one window long admits, per caller, at most rate*(floor(L/window)+2)
		// requests in any simulated-time interval of length L.
		per := map[int][]seqAdm{}
		for _, a := range q.Adm {
			per[a.Caller] = append(per[a.Caller], a)
		}
		for c, as := range per {
			sort.Slice(as, func(i, j int) bool { return as[i].Call < as[j].Call })
			bad := false
			for i := 0; i < len(as) && !bad; i++ {
				maxRet := as[i].Ret
				for j := i; j < len(as); j++ {
					if as[j].Ret > maxRet {
						maxRet = as[j].Ret
					}
					L := maxRet - as[i].Call
					if n, bound := j-i+1, q.Eff*(int(L/window)+2); n > bound {
						r.Violation("rate:idle-gap:admissions-exceed-window-bound",
							fmt.Sprintf("caller %d: %d admissions inside %.3f simulated seconds; a limit of %d per window allows at most %d", c, n, float64(L)/1e9, q.Eff, bound),
							map[string]any{"trial": t, "seed": r.Seed(), "rate": q.Rate, "effective_rate": q.Eff, "steps": q.Steps})
						bad = true
						break
					}
				}
			}
		}
		if t%60 == 0 {
			r.Sample(map[string]any{"idle_gap_trial": t, "rate": q.Eff, "callers": q.Callers, "real_sleep": q.Real, "steps": q.Steps})
		}
	}
	r.Set("idle_gap_trials", map[string]int{"hook": nHook, "real_sleep": nReal, "anchored_bursts_slower_than_0.9_window(skipped)": skipped})
}

// ---------------------------------------------------------------------------
// rate arm

type burstIn struct {
	Seed  int64 `json:"seed"`
	Trial int   `json:"trial"`
}

type burstOut struct {
	Rate, Eff, Callers, Workers int
	Applicable                  bool
	InconclusiveAttempts        int
	BurstMs                     float64
	Requests, Limited           int
	Admitted, Resolved          []int
}

// burstChild runs one burst trial (up to 4 attempts) in a child process, so
// that a runtime fatal error under concurrent load is attributed to the trial.
func burstChild(in []byte) []byte {
	slog.SetDefault(slog.New(slog.NewTextHandler(io.Discard, nil)))
	var bi burstIn
	if err := json.Unmarshal(in, &bi); err != nil {
		panic(err)
	}
	t := bi.Trial
	rng := rand.New(rand.NewPCG(uint64(bi.Seed)*0x9e3779b97f4a7c15+0xc26, uint64(t)))
	window := time.Second
	rates := []int{1, 2, 3, 5, 10, 0, 50}
	out := burstOut{Rate: rates[t%len(rates)]}
	out.Eff = out.Rate
	if out.Eff == 0 {
		out.Eff = 20
	}
	out.Callers = 1 + rng.IntN(3)
	members := make([]string, out.Callers)
	for i := range members {
		members[i] = fmt.Sprintf("proxy-%d-%s", i, rstr(rng, b64url, 5))
	}
	out.Workers = 1 + rng.IntN(16)
	for attempt := 0; attempt < 4; attempt++ {
		s, err := newServer("rate", "", true, "valid", members, out.Rate)
		if err != nil {
			panic(err)
		}
		type reqT struct {
			caller int
			cred   string
		}
		var reqs []reqT
		for c := 0; c < out.Callers; c++ {
			for i := 0; i < 3*out.Eff; i++ {
				reqs = append(reqs, reqT{c, marker(rng)})
			}
		}
		rng.Shuffle(len(reqs), func(i, j int) { reqs[i], reqs[j] = reqs[j], reqs[i] })
		// warm everything that is lazily initialised, with a non-member (never reaches the limiter)
		warm := httptest.NewRequest(http.MethodPost, vgirpc.IntrospectEndpoint, strings.NewReader(`{"token":"x"}`))
		warm.Header.Set("X-T-Authed", "1")
		warm.Header.Set("X-T-Principal", "nobody")
		s.h.ServeHTTP(httptest.NewRecorder(), warm)

		statuses := make([]int, len(reqs))
		prepared := make([]*http.Request, len(reqs))
		for i, q := range reqs {
			req := httptest.NewRequest(http.MethodPost, vgirpc.IntrospectEndpoint, bytes.NewReader(jsonBody(q.cred)))
			req.Header.Set("Content-Type", "application/json")
			req.Header.Set("X-T-Authed", "1")
			req.Header.Set("X-T-Principal", members[q.caller])
			req.Header.Set("X-Forwarded-For", fmt.Sprintf("203.0.113.%d", rng.IntN(250)))
			req.RemoteAddr = fmt.Sprintf("198.51.100.%d:%d", rng.IntN(250), 1024+rng.IntN(60000))
			prepared[i] = req
		}
		var wg sync.WaitGroup
		var next atomic.Int64
		start := time.Now()
		for w := 0; w < out.Workers; w++ {
			wg.Add(1)
			go func() {
				defer wg.Done()
				for {
					i := int(next.Add(1)) - 1
					if i >= len(prepared) {
						return
					}
					rec := httptest.NewRecorder()
					s.h.ServeHTTP(rec, prepared[i])
					statuses[i] = rec.Code
				}
			}()
		}
		wg.Wait()
		span := time.Since(start)
		if span >= window*9/10 {
			out.InconclusiveAttempts++
			continue
		}
		out.Applicable = true
		out.BurstMs = span.Seconds() * 1000
		out.Requests = len(reqs)
		out.Admitted = make([]int, out.Callers)
		out.Resolved = make([]int, out.Callers)
		credCaller := map[string]int{}
		for i, q := range reqs {
			credCaller[q.cred] = q.caller
			if statuses[i] != http.StatusTooManyRequests {
				out.Admitted[q.caller]++
			} else {
				out.Limited++
			}
		}
		for _, c := range s.resolver.since(0) {
			if k, ok := credCaller[c]; ok {
				out.Resolved[k]++
			}
		}
		break
	}
	b, _ := json.Marshal(out)
	return b
}

func rateArm(r *mon.Run) {
	trials := r.N(12, 300)
	window := time.Second
	inputs := make([][]byte, trials)
	for t := range inputs {
		inputs[t], _ = json.Marshal(burstIn{Seed: r.Seed(), Trial: t})
	}
	outs, err := mon.RunIsolated("burst", inputs, mon.ChildOpt{Timeout: 10 * time.Minute})
	if err != nil {
		r.Fatal("rate arm: %v", err)
	}
	inconclusive, applicable := 0, 0
	for t, o := range outs {
		switch {
		case o.TimedOut:
			r.Inconclusive(fmt.Sprintf("rate trial %d: child watchdog fired", t))
			continue
		case o.Crashed:
			r.Violation("rate:process-died-during-concurrent-burst", "the process died while one fresh server handled a concurrent burst of introspections: "+firstLine(o.Detail),
				map[string]any{"trial": t, "seed": r.Seed(), "stderr": o.Detail})
			continue
		case o.Panicked:
			r.Violation("rate:panic-during-concurrent-burst", firstLine(o.Detail), map[string]any{"trial": t, "seed": r.Seed(), "panic": o.Detail})
			continue
		}
		var b burstOut
		if err := json.Unmarshal(o.Output, &b); err != nil {
			r.Fatal("rate trial %d: bad child output: %v", t, err)
		}
		inconclusive += b.InconclusiveAttempts
		if !b.Applicable {
			continue
		}
		applicable++
		r.Class("rate:burst-in-one-window")
		if b.Limited > 0 {
			r.Class("rate:some-429")
		}
		r.Case(fmt.Sprintf("rate|%d|callers%d|workers%d|%v", b.Rate, b.Callers, b.Workers, b.Admitted))
		r.Count("rate.requests", int64(b.Requests))
		r.Count("rate.429", int64(b.Limited))
		for k := 0; k < b.Callers; k++ {
			if b.Admitted[k] > b.Eff || b.Resolved[k] > b.Eff {
				r.Violation("rate:more-than-configured-admissions-in-one-window",
					fmt.Sprintf("caller %d got %d non-429 answers and %d resolver invocations in a %.0f ms burst against a fresh server limited to %d per second", k, b.Admitted[k], b.Resolved[k], b.BurstMs, b.Eff),
					map[string]any{"trial": t, "seed": r.Seed(), "result": b, "requests_per_caller": 3 * b.Eff})
			}
		}
		if t%40 == 0 {
			r.Sample(map[string]any{"rate_trial": t, "result": b})
		}
	}
	r.Set("rate_trials", map[string]int{"applicable": applicable, "inconclusive_attempts": inconclusive})
	if applicable < trials*3/4 {
		r.Inconclusive(fmt.Sprintf("only %d of %d burst trials completed inside one window", applicable, trials))
	}

	// sustained arm: admitted <= rate * (floor(elapsed/window) + 2)
	long := r.N(1, 6)
	for t := 0; t < long; t++ {
		rng := r.Rand(3, uint64(t))
		rate := []int{3, 10, 0, 1, 5, 2}[t%6]
		eff := rate
		if eff == 0 {
			eff = 20
		}
		s, err := newServer("rate-sustained", "", true, "valid", []string{"proxy-a"}, rate)
		if err != nil {
			r.Fatal("rate arm: %v", err)
		}
		total := 12 * eff
		gap := 2500 * time.Millisecond / time.Duration(total)
		admitted := 0
		start := time.Now()
		for i := 0; i < total; i++ {
			req := httptest.NewRequest(http.MethodPost, vgirpc.IntrospectEndpoint, bytes.NewReader(jsonBody(marker(rng))))
			req.Header.Set("X-T-Authed", "1")
			req.Header.Set("X-T-Principal", "proxy-a")
			rec := httptest.NewRecorder()
			s.h.ServeHTTP(rec, req)
			if rec.Code != http.StatusTooManyRequests {
				admitted++
			}
			time.Sleep(gap)
		}
		elapsed := time.Since(start)
		bound := eff * (int(elapsed/window) + 2)
		r.Case(fmt.Sprintf("rate-sustained|%d|%d", rate, admitted))
		r.Count("rate.sustained_requests", int64(total))
		if admitted > bound || s.resolver.mark() > bound {
			r.Violation("rate:sustained-admissions-exceed-window-bound",
				fmt.Sprintf("%d admissions (%d resolver invocations) in %.2f s with %d per second: bound %d", admitted, s.resolver.mark(), elapsed.Seconds(), eff, bound),
				map[string]any{"rate": rate, "elapsed_s": elapsed.Seconds(), "admitted": admitted, "bound": bound})
		}
		r.Set(fmt.Sprintf("rate_sustained_%d", t), map[string]any{"rate": eff, "elapsed_s": elapsed.Seconds(), "admitted": admitted, "bound": bound})
		logTrim()
	}
}
