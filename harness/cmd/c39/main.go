// C39 — access-log sampling and async emission lose nothing silently.
//
// AccessLogHook is driven through its public API (NewAccessLogHook,
// SetSampleRate, SetAsync, OnDispatchStart/OnDispatchEnd with crafted
// DispatchInfo, Close) from real goroutines (-race build); the io.Writer is the
// harness's: it parses every line, can be gated shut and slowed down.
//
// Sampling oracle: error records always written; the non-error records of one
// group (stream id, else request id) are all written or all absent; every
// written non-error record carries sample_rate == rate (rate < 1).
//
// Async oracle: with the writer gated shut every producer returns (a producer
// still parked in the emitter's channel send while nothing can drain the queue
// is a deterministic deadlock); after a sentinel record that is itself written
// (so no trailing run of drops exists) and Close(): enqueued == written +
// sum(dropped_records), no record written twice, per-producer order preserved,
// and at every prefix of the output the producer records known to be missing
// so far are covered by the dropped_records reported so far. With a queue that
// cannot overflow, every record whose OnDispatchEnd returned before
// Close()/SetAsync() was called is written.
package main

import (
	"bytes"
	"context"
	"encoding/json"
	"fmt"
	"math"
	"math/rand/v2"
	"runtime"
	"strings"
	"sync"
	"sync/atomic"
	"time"

	"github.com/Query-farm/vgi-rpc-go/vgirpc"

	"verif/harness/internal/mon"
	"verif/harness/internal/wj"
)

// ---------------------------------------------------------------------------
// The harness's writer

type sink struct {
	mu      sync.Mutex
	lines   []map[string]any
	bad     []string
	ids     map[string]int // method id -> times written
	gate    chan struct{}  // nil = open; otherwise writes block until closed
	delayUs int64
	writes  atomic.Int64
	inWrite atomic.Int32
}

func newSink(gated bool, delayUs int64) *sink {
	s := &sink{ids: map[string]int{}, delayUs: delayUs}
	if gated {
		s.gate = make(chan struct{})
	}
	return s
}

func (s *sink) open() {
	s.mu.Lock()
	g := s.gate
	s.gate = nil
	s.mu.Unlock()
	if g != nil {
		close(g)
	}
}

func (s *sink) Write(p []byte) (int, error) {
	s.inWrite.Add(1)
	defer s.inWrite.Add(-1)
	s.mu.Lock()
	g := s.gate
	s.mu.Unlock()
	if g != nil {
		<-g
	}
	if s.delayUs > 0 {
		time.Sleep(time.Duration(s.delayUs) * time.Microsecond)
	}
	s.mu.Lock()
	defer s.mu.Unlock()
	for _, ln := range bytes.Split(bytes.TrimSuffix(p, []byte("\n")), []byte("\n")) {
		var m map[string]any
		dec := json.NewDecoder(bytes.NewReader(ln))
		dec.UseNumber()
		if err := dec.Decode(&m); err != nil {
			s.bad = append(s.bad, string(ln))
			continue
		}
		s.lines = append(s.lines, m)
		if id, _ := m["method"].(string); id != "" {
			s.ids[id]++
		}
	}
	s.writes.Add(1)
	return len(p), nil
}

func (s *sink) written(id string) bool {
	s.mu.Lock()
	defer s.mu.Unlock()
	return s.ids[id] > 0
}

func (s *sink) snapshot() ([]map[string]any, []string) {
	s.mu.Lock()
	defer s.mu.Unlock()
	return append([]map[string]any(nil), s.lines...), append([]string(nil), s.bad...)
}

// ---------------------------------------------------------------------------
// Records

type rec struct {
	ID        string `json:"id"` // unique; travels as DispatchInfo.Method
	Stream    bool   `json:"stream"`
	StreamID  string `json:"stream_id,omitempty"`
	RequestID string `json:"request_id,omitempty"`
	Err       bool   `json:"err,omitempty"`
}

func (c rec) group() string {
	if c.Stream {
		return "s:" + c.StreamID
	}
	if c.RequestID != "" {
		return "r:" + c.RequestID
	}
	return "" // no shared key: a group of its own
}

func emit(h *vgirpc.AccessLogHook, c rec) {
	info := vgirpc.DispatchInfo{
		Method: c.ID, MethodType: vgirpc.DispatchMethodUnary, ServerID: "srv", Protocol: "proto",
		ProtocolHash: "00", RequestID: c.RequestID, Auth: vgirpc.Anonymous(),
	}
	if c.Stream {
		info.MethodType = vgirpc.DispatchMethodStream
		info.StreamID = c.StreamID
	}
	ctx, tok := h.OnDispatchStart(context.Background(), info)
	var err error
	if c.Err {
		err = &vgirpc.RpcError{Type: "ValueError", Message: "scripted"}
	}
	h.OnDispatchEnd(ctx, tok, info, &vgirpc.CallStatistics{}, err)
}

func dumpGoroutines() string {
	buf := make([]byte, 1<<20)
	return string(buf[:runtime.Stack(buf, true)])
}

// ---------------------------------------------------------------------------
// Sampling

var rates = []float64{0, 1e-9, 0.01, 0.5, 0.999, 1}

func fnv32a(s string) uint32 {
	h := uint32(2166136261)
	for i := 0; i < len(s); i++ {
		h ^= uint32(s[i])
		h *= 16777619
	}
	return h
}

// edgePool holds ids whose FNV-1a hash lies within 2^18 of a target (the
// sampler's keep/drop threshold, or the ends of the hash range). Found by
// plain search at start-up; no library call involved.
var (
	edgeMu   sync.Mutex
	edgePool = map[uint32][]string{}
)

func edgeIDs(target uint32) []string {
	edgeMu.Lock()
	defer edgeMu.Unlock()
	if p, ok := edgePool[target]; ok {
		return p
	}
	var out []string
	rng := rand.New(rand.NewPCG(uint64(target), 99))
	for i := 0; i < 300000 && len(out) < 64; i++ {
		id := fmt.Sprintf("e%x", rng.Uint64())
		h := fnv32a(id)
		d := h - target
		if target > h {
			d = target - h
		}
		if d <= 1<<18 {
			out = append(out, id)
		}
	}
	edgePool[target] = out
	return out
}

func edgeID(rng *rand.Rand, target uint32, prefix string) string {
	p := edgeIDs(target)
	if len(p) == 0 {
		return fmt.Sprintf("%s%016x", prefix, rng.Uint64())
	}
	return p[rng.IntN(len(p))]
}

type sampleCase struct {
	Rate      float64 `json:"rate"`
	Async     bool    `json:"async"`
	Producers int     `json:"producers"`
	Records   []rec   `json:"records"`
}

func runSampling(r *mon.Run, idx int) {
	rng := r.Rand(1, uint64(idx))
	sc := sampleCase{Rate: rates[idx%len(rates)], Async: idx%3 == 0, Producers: 1 + rng.IntN(8)}
	thr := uint32(sc.Rate * float64(math.MaxUint32))
	nGroups := 4 + rng.IntN(24)
	seq := 0
	newID := func(kind string) string {
		// A share of the ids sits right at the sampler's threshold or at the
		// extremes of the hash range.
		switch rng.IntN(6) {
		case 0:
			return edgeID(rng, thr, kind)
		case 1:
			return edgeID(rng, 0, kind)
		case 2:
			return edgeID(rng, math.MaxUint32, kind)
		}
		return fmt.Sprintf("%s%016x", kind, rng.Uint64())
	}
	for g := 0; g < nGroups; g++ {
		n := 1 + rng.IntN(5)
		switch rng.IntN(4) {
		case 0: // unary group: same request id repeated (retries)
			rid := newID("rq")
			for k := 0; k < n; k++ {
				sc.Records = append(sc.Records, rec{ID: fmt.Sprintf("m%d", seq), RequestID: rid, Err: rng.IntN(6) == 0})
				seq++
			}
		case 1, 2: // stream group: init carries a request id, turns carry other/no request ids
			sid := newID("st")
			for k := 0; k < n; k++ {
				c := rec{ID: fmt.Sprintf("m%d", seq), Stream: true, StreamID: sid, Err: rng.IntN(8) == 0}
				if k == 0 || rng.IntN(2) == 0 {
					c.RequestID = newID("rq")
				}
				sc.Records = append(sc.Records, c)
				seq++
			}
		default: // no shared key at all
			sc.Records = append(sc.Records, rec{ID: fmt.Sprintf("m%d", seq), Err: rng.IntN(6) == 0})
			seq++
		}
	}
	rng.Shuffle(len(sc.Records), func(i, j int) { sc.Records[i], sc.Records[j] = sc.Records[j], sc.Records[i] })

	sk := newSink(false, 0)
	h := vgirpc.NewAccessLogHook(sk, "v")
	if err := h.SetSampleRate(sc.Rate); err != nil {
		r.Fatal("SetSampleRate(%v): %v", sc.Rate, err)
	}
	if sc.Async {
		if err := h.SetAsync(len(sc.Records) + 8); err != nil {
			r.Fatal("SetAsync: %v", err)
		}
	}
	var wg sync.WaitGroup
	for p := 0; p < sc.Producers; p++ {
		wg.Add(1)
		go func(p int) {
			defer wg.Done()
			for i := p; i < len(sc.Records); i += sc.Producers {
				emit(h, sc.Records[i])
			}
		}(p)
	}
	wg.Wait()
	_ = h.Close()
	lines, bad := sk.snapshot()
	if len(bad) > 0 {
		r.Violation("written-line-unparsable", "a written access-log line is not one JSON object", map[string]any{"case": sc, "line": bad[0]})
	}
	byID := map[string]map[string]any{}
	for _, l := range lines {
		id, _ := l["method"].(string)
		if _, dup := byID[id]; dup {
			r.Violation("sampling:record-written-twice", "one record was written twice", map[string]any{"case": sc, "id": id})
		}
		byID[id] = l
	}
	groupKept := map[string]int{}
	groupDropped := map[string]int{}
	rateClass := fmt.Sprintf("rate=%g", sc.Rate)
	for _, c := range sc.Records {
		l, kept := byID[c.ID]
		if c.Err {
			r.Class("sampling-error-record")
			if !kept {
				r.Violation("sampling:error-record-dropped:"+rateClass, "an error record was not written", map[string]any{"case": sc, "record": c})
			} else if l["status"] != "error" {
				r.Fatal("record %s: status %v", c.ID, l["status"])
			}
			continue
		}
		if kept {
			sr, has := l["sample_rate"]
			ok := false
			if n, isNum := sr.(json.Number); has && isNum {
				f, _ := n.Float64()
				ok = f == sc.Rate
			}
			if sc.Rate >= 1 {
				ok = !has || ok
			}
			if !ok {
				r.Violation("sampling:kept-record-without-rate:"+rateClass, fmt.Sprintf("a kept non-error record carries sample_rate=%v, rate is %v", sr, sc.Rate), map[string]any{"case": sc, "record": c, "line": l})
			}
			if sc.Rate >= 1 {
				r.Class("sampling-rate-1-kept")
			} else {
				r.Class("sampling-kept-with-rate")
			}
		} else if sc.Rate >= 1 {
			r.Violation("sampling:dropped-at-rate-1", "a record was dropped although the rate is 1", map[string]any{"case": sc, "record": c})
		}
		if g := c.group(); g != "" {
			if kept {
				groupKept[g]++
			} else {
				groupDropped[g]++
			}
		}
	}
	for g, k := range groupKept {
		if d := groupDropped[g]; d > 0 {
			kind := "request-id"
			if strings.HasPrefix(g, "s:") {
				kind = "stream-id"
			}
			r.Violation("sampling:group-split:"+kind+":"+rateClass, fmt.Sprintf("group %s: %d non-error records kept, %d dropped", g, k, d), map[string]any{"case": sc, "group": g})
		}
	}
	multiKept, multiDropped := 0, 0
	for g, k := range groupKept {
		if k > 1 {
			multiKept++
		}
		_ = g
	}
	for g, d := range groupDropped {
		if d > 1 && groupKept[g] == 0 {
			multiDropped++
		}
	}
	if multiKept > 0 {
		r.Class("sampling-multi-record-group-kept")
	}
	if multiDropped > 0 {
		r.Class("sampling-multi-record-group-dropped")
	}
	if sc.Async {
		r.Class("sampling-through-async")
	}
	r.Case(fmt.Sprintf("sampling|%g|%v|kept=%d|of=%d", sc.Rate, sc.Async, len(lines), len(sc.Records)))
	r.Count("sampling.records", int64(len(sc.Records)))
	r.Count("sampling.written", int64(len(lines)))
	if idx < 2 {
		r.Sample(map[string]any{"sampling_case": sc, "written": len(lines)})
	}
}

// ---------------------------------------------------------------------------
// Async

type asyncCase struct {
	Mode      string `json:"mode"` // gated | slow | close | resize
	Queue     int    `json:"queue"`
	Producers int    `json:"producers"`
	PerProd   int    `json:"per_producer"`
	DelayUs   int64  `json:"writer_delay_us"`
	PauseUs   int64  `json:"producer_pause_us"`
	CloseAt   int    `json:"close_after_records"`
	Double    bool   `json:"double_close"`
}

var modes = []string{"gated", "slow", "close", "gated", "resize", "slow"}

func prodID(p, k int) string { return fmt.Sprintf("p%d-%d", p, k) }

// blockedFound is set once a parked enqueue has been reported; the remaining
// gated cases would each sit out the same watchdog.
var blockedFound atomic.Bool

func runAsync(r *mon.Run, idx int) {
	if blockedFound.Load() && modes[idx%len(modes)] == "gated" {
		return
	}
	rng := r.Rand(2, uint64(idx))
	ac := asyncCase{Mode: modes[idx%len(modes)], Producers: 1 + rng.IntN(16), PerProd: 1 + rng.IntN(24)}
	total := ac.Producers * ac.PerProd
	switch ac.Mode {
	case "gated":
		ac.Queue = 1 + rng.IntN(64)
	case "slow":
		ac.Queue = 1 + rng.IntN(16)
		ac.DelayUs = int64(rng.IntN(300))
		ac.PauseUs = int64(rng.IntN(100))
	case "close", "resize":
		ac.Queue = total + 64 // cannot overflow
		ac.CloseAt = rng.IntN(total + 1)
		ac.Double = rng.IntN(2) == 0
		ac.PauseUs = int64(rng.IntN(50))
		ac.DelayUs = int64(rng.IntN(50))
	}
	sk := newSink(ac.Mode == "gated", ac.DelayUs)
	h := vgirpc.NewAccessLogHook(sk, "")
	if err := h.SetAsync(ac.Queue); err != nil {
		r.Fatal("SetAsync(%d): %v", ac.Queue, err)
	}
	witness := func(extra map[string]any) map[string]any {
		lines, _ := sk.snapshot()
		var order []string
		for _, l := range lines {
			s := fmt.Sprint(l["method"])
			if d, ok := l["dropped_records"]; ok {
				s += fmt.Sprintf("(dropped_records=%v)", d)
			}
			order = append(order, s)
		}
		m := map[string]any{"case": ac, "written_in_order": order}
		for k, v := range extra {
			m[k] = v
		}
		return m
	}

	// returnedBeforeClose[id] is set when OnDispatchEnd returned strictly
	// before the closing call (Close / SetAsync) was issued.
	var closeIssued atomic.Bool
	var issued atomic.Int64
	type stamp struct {
		id     string
		before bool // returned before the closing call was issued
		after  bool // started after the closing call returned
	}
	var closeReturned atomic.Bool
	stamps := make([][]stamp, ac.Producers)
	var wg sync.WaitGroup
	closeCh := make(chan struct{}, 1)
	for p := 0; p < ac.Producers; p++ {
		wg.Add(1)
		go func(p int) {
			defer wg.Done()
			prng := rand.New(rand.NewPCG(uint64(idx), uint64(p)))
			for k := 0; k < ac.PerProd; k++ {
				if ac.PauseUs > 0 && prng.IntN(3) == 0 {
					time.Sleep(time.Duration(prng.Int64N(ac.PauseUs+1)) * time.Microsecond)
				}
				startedAfter := closeReturned.Load()
				emit(h, rec{ID: prodID(p, k), RequestID: prodID(p, k)})
				st := stamp{id: prodID(p, k), before: !closeIssued.Load(), after: startedAfter}
				stamps[p] = append(stamps[p], st)
				if n := issued.Add(1); (ac.Mode == "close" || ac.Mode == "resize") && int(n) == ac.CloseAt {
					select {
					case closeCh <- struct{}{}:
					default:
					}
				}
			}
		}(p)
	}
	producersDone := make(chan struct{})
	go func() { wg.Wait(); close(producersDone) }()

	closerDone := make(chan struct{})
	if ac.Mode == "close" || ac.Mode == "resize" {
		go func() {
			defer close(closerDone)
			if ac.CloseAt > 0 {
				select {
				case <-closeCh:
				case <-producersDone:
				}
			}
			closeIssued.Store(true)
			if ac.Mode == "close" {
				// Both calls must have returned before the output is judged:
				// the one that lost the swap returns at once while the other
				// is still draining the queue.
				var cw sync.WaitGroup
				if ac.Double {
					cw.Add(1)
					go func() { defer cw.Done(); _ = h.Close() }()
				}
				_ = h.Close()
				cw.Wait()
			} else {
				if err := h.SetAsync(ac.Queue); err != nil {
					r.Fatal("SetAsync: %v", err)
				}
			}
			closeReturned.Store(true)
		}()
	} else {
		close(closerDone)
	}

	// Enqueue never blocks: with the writer gated shut nothing can drain the
	// queue, so a producer that has not returned is parked for good.
	select {
	case <-producersDone:
	case <-time.After(30 * time.Second):
		dump := dumpGoroutines()
		parked := false
		for _, g := range strings.Split(dump, "\n\n") {
			if strings.Contains(g, "asyncEmitter).enqueue") && strings.Contains(strings.SplitN(g, "\n", 2)[0], "chan send") {
				parked = true
			}
		}
		if parked {
			blockedFound.Store(true)
		}
		if parked && ac.Mode == "gated" {
			r.Violation("async:enqueue-blocked:writer-gated", "a producer is parked in the emitter's channel send while the writer is gated shut (nothing can drain the queue)", witness(map[string]any{"goroutines": dump}))
		} else if parked {
			r.Violation("async:enqueue-blocked:"+ac.Mode, "a producer has been parked in the emitter's channel send for 30 s", witness(map[string]any{"goroutines": dump}))
		} else {
			r.Inconclusive(fmt.Sprintf("async case %d: producers did not finish within 30 s and are not parked in enqueue", idx))
		}
		sk.open()
		return
	}
	if ac.Mode == "gated" {
		r.Class("async-producers-returned-while-writer-gated")
		if int(sk.writes.Load()) != 0 {
			r.Fatal("gated writer completed a write")
		}
		sk.open()
	}
	select {
	case <-closerDone:
	case <-time.After(30 * time.Second):
		r.Inconclusive(fmt.Sprintf("async case %d: Close/SetAsync did not return within 30 s", idx))
		return
	}

	enqueued := total
	sentinels := 0
	if ac.Mode == "gated" || ac.Mode == "slow" {
		// Sentinels until the most recently enqueued record is itself written:
		// then no trailing run of drops exists.
		okSent := false
		for i := 0; i < 400 && !okSent; i++ {
			id := fmt.Sprintf("sentinel-%d", i)
			emit(h, rec{ID: id, RequestID: id})
			enqueued++
			sentinels++
			deadline := time.Now().Add(50 * time.Millisecond)
			for time.Now().Before(deadline) {
				if sk.written(id) {
					okSent = true
					break
				}
				time.Sleep(200 * time.Microsecond)
			}
		}
		if !okSent {
			r.Inconclusive(fmt.Sprintf("async case %d: no sentinel was written after %d attempts", idx, sentinels))
			_ = h.Close()
			return
		}
	}
	done := make(chan struct{})
	go func() { _ = h.Close(); _ = h.Close(); close(done) }()
	select {
	case <-done:
	case <-time.After(30 * time.Second):
		r.Inconclusive(fmt.Sprintf("async case %d: final Close did not return within 30 s", idx))
		return
	}

	lines, bad := sk.snapshot()
	if len(bad) > 0 {
		r.Violation("written-line-unparsable", "a written access-log line is not one JSON object", witness(map[string]any{"line": bad[0]}))
	}
	pos := map[string]int{}
	var droppedSum int64
	cum := make([]int64, len(lines))
	for j, l := range lines {
		id, _ := l["method"].(string)
		if _, dup := pos[id]; dup {
			r.Violation("async:record-written-twice", "one record was written twice", witness(map[string]any{"id": id}))
		}
		pos[id] = j
		if d, ok := l["dropped_records"]; ok {
			n, _ := d.(json.Number)
			v, err := n.Int64()
			if err != nil || v <= 0 {
				r.Violation("async:dropped_records-not-positive-integer", fmt.Sprintf("dropped_records=%v", d), witness(nil))
			}
			droppedSum += v
			r.Class("async-dropped_records-reported")
		}
		cum[j] = droppedSum
	}
	// Per-producer order among records that went through one emitter. Records
	// racing Close()/SetAsync() may bypass the queue (synchronous write, or the
	// new emitter) while the old queue is still draining; the statement does
	// not order those.
	for p := 0; p < ac.Producers; p++ {
		last := -1
		for k := 0; k < ac.PerProd; k++ {
			if (ac.Mode == "close" || ac.Mode == "resize") && !stamps[p][k].before {
				break
			}
			if j, ok := pos[prodID(p, k)]; ok {
				if j < last {
					r.Violation("async:producer-order-inverted", fmt.Sprintf("producer %d: record %d written before an earlier one", p, k), witness(nil))
				}
				last = j
			}
		}
	}
	switch ac.Mode {
	case "gated", "slow":
		written := int64(len(lines))
		if int64(enqueued) != written+droppedSum {
			dir := "lost"
			if written+droppedSum > int64(enqueued) {
				dir = "overcounted"
			}
			r.Violation("async:conservation:"+dir+":"+ac.Mode, fmt.Sprintf("enqueued=%d written=%d sum(dropped_records)=%d", enqueued, written, droppedSum), witness(nil))
		}
		// Prefix coverage: a producer record older than one of its written
		// records and never written was dropped before that written record was
		// accepted, so it must be covered by dropped_records reported up to there.
		missingAt := make([]int64, len(lines)+1)
		for p := 0; p < ac.Producers; p++ {
			var gap int64
			for k := 0; k < ac.PerProd; k++ {
				if j, ok := pos[prodID(p, k)]; ok {
					missingAt[j] += gap
					gap = 0
				} else {
					gap++
				}
			}
		}
		var need int64
		for j := range lines {
			need += missingAt[j]
			if need > cum[j] {
				r.Violation("async:drops-reported-late:"+ac.Mode, fmt.Sprintf("at written record #%d, %d producer records are known dropped but only %d are reported so far", j, need, cum[j]), witness(nil))
				break
			}
		}
		if droppedSum > 0 {
			r.Class("async-overflow-with-drops:" + ac.Mode)
		} else {
			r.Class("async-no-overflow:" + ac.Mode)
		}
		if sentinels > 1 {
			r.Class("async-sentinel-retried")
		}
	case "close", "resize":
		if droppedSum != 0 {
			r.Violation("async:drops-without-overflow:"+ac.Mode, "dropped_records reported although the queue could hold every record", witness(nil))
		}
		nBefore, nOverlap := 0, 0
		for p := range stamps {
			for _, st := range stamps[p] {
				_, w := pos[st.id]
				if st.before {
					nBefore++
					if !w {
						r.Violation("async:lost-before-close:"+ac.Mode, fmt.Sprintf("record %s: OnDispatchEnd returned before %s was called, the queue had room, and the record was never written", st.id, map[string]string{"close": "Close()", "resize": "SetAsync()"}[ac.Mode]), witness(map[string]any{"id": st.id}))
					}
				} else {
					nOverlap++
				}
				if ac.Mode == "resize" && st.after && !w {
					r.Violation("async:lost-after-resize", fmt.Sprintf("record %s was emitted after SetAsync() returned and never written", st.id), witness(map[string]any{"id": st.id}))
				}
			}
		}
		if nBefore > 0 {
			r.Class("async-records-before-" + ac.Mode)
		}
		if nOverlap > 0 {
			r.Class("async-records-racing-" + ac.Mode)
		}
		if ac.Double {
			r.Class("async-double-close")
		}
	}
	r.Case(fmt.Sprintf("async|%s|q=%d|p=%d|n=%d|w=%d|d=%d", ac.Mode, ac.Queue, ac.Producers, ac.PerProd, len(lines), droppedSum))
	r.Count("async.enqueued", int64(enqueued))
	r.Count("async.written", int64(len(lines)))
	r.Count("async.dropped_reported", droppedSum)
	if idx < 3 {
		r.Sample(map[string]any{"async_case": ac, "enqueued": enqueued, "written": len(lines), "dropped_reported": droppedSum})
	}
}

// ---------------------------------------------------------------------------
// Close / reconfigure overlap arm
//
// The writer is parked at the shut gate with a non-empty queue; dispatchers
// hammer the emitter (so several are queued on its mutex at any instant); then
// Close() or a second SetAsync() is issued while they are in flight. Both calls
// legitimately block until the gate opens (they drain the old queue). What must
// NOT happen is a dispatcher staying parked inside asyncEmitter.enqueue: the
// gate is under the harness's control, so a goroutine that sits in
// sync.(*Mutex).Lock under enqueue in two goroutine dumps taken one second
// apart, while nothing else makes progress and the gate is still shut, is
// waiting for the writer — "enqueueing never blocks" is refuted by that
// witness, never by a timer alone.

type overlapCase struct {
	Variant     string `json:"variant"` // close | swap
	Queue       int    `json:"queue"`
	Preload     int    `json:"preload"`
	Dispatchers int    `json:"dispatchers"`
	DelayUs     int64  `json:"closer_delay_us"`
}

var overlapBlocked atomic.Bool

// parkedInEnqueue returns the ids of goroutines that a dump shows blocked on a
// mutex with asyncEmitter.enqueue on their stack.
func parkedInEnqueue(dump string) map[string]bool {
	out := map[string]bool{}
	for _, g := range strings.Split(dump, "\n\n") {
		head, _, _ := strings.Cut(g, "\n")
		if !strings.HasPrefix(head, "goroutine ") || !strings.Contains(g, "asyncEmitter).enqueue") {
			continue
		}
		if strings.Contains(head, "sync.Mutex.Lock") || strings.Contains(head, "semacquire") {
			out[strings.Fields(head)[1]] = true
		}
	}
	return out
}

func runOverlap(r *mon.Run, idx int) {
	if overlapBlocked.Load() {
		return
	}
	rng := r.Rand(3, uint64(idx))
	oc := overlapCase{Variant: []string{"close", "swap", "swap"}[idx%3], Queue: 4 + rng.IntN(29), Dispatchers: 8 + rng.IntN(17), DelayUs: int64(50 + rng.IntN(450))}
	oc.Preload = 2 + rng.IntN(oc.Queue-1)
	sk := newSink(true, 0)
	h := vgirpc.NewAccessLogHook(sk, "")
	if err := h.SetAsync(oc.Queue); err != nil {
		r.Fatal("SetAsync: %v", err)
	}
	total := 0
	for i := 0; i < oc.Preload; i++ { // queue non-empty, writer parked at the gate
		emit(h, rec{ID: fmt.Sprintf("pre-%d", i), RequestID: fmt.Sprintf("pre-%d", i)})
		total++
	}
	var closeIssued, closeReturned atomic.Bool
	var progress, inflightAcross, enteredBefore atomic.Int64
	var emitted atomic.Int64
	var wg sync.WaitGroup
	for d := 0; d < oc.Dispatchers; d++ {
		wg.Add(1)
		go func(d int) {
			defer wg.Done()
			// After a swap the dispatchers go on for a few emits (new emitter,
			// must not block either); after Close() a new emit would take the
			// synchronous path and wait for the gated writer, so they stop.
			after, maxAfter := 0, 3
			if oc.Variant == "close" {
				maxAfter = 0
			}
			for k := 0; k < 4000; k++ {
				before := !closeIssued.Load()
				if !before {
					if after >= maxAfter {
						break
					}
					after++
				}
				emitted.Add(1)
				emit(h, rec{ID: fmt.Sprintf("d%d-%d", d, k), RequestID: fmt.Sprintf("d%d-%d", d, k)})
				progress.Add(1)
				if before && closeIssued.Load() {
					enteredBefore.Add(1) // entered OnDispatchEnd before the call was issued, returned after
				}
				if !before && !closeReturned.Load() {
					inflightAcross.Add(1) // ran while the call was in progress
				}
			}
		}(d)
	}
	dispatchersDone := make(chan struct{})
	go func() { wg.Wait(); close(dispatchersDone) }()
	closerDone := make(chan struct{})
	go func() {
		defer close(closerDone)
		time.Sleep(time.Duration(oc.DelayUs) * time.Microsecond)
		closeIssued.Store(true)
		if oc.Variant == "close" {
			_ = h.Close()
		} else if err := h.SetAsync(oc.Queue); err != nil {
			r.Fatal("SetAsync: %v", err)
		}
		closeReturned.Store(true)
	}()
	witness := func(extra map[string]any) map[string]any {
		m := map[string]any{"case": oc, "emits_completed": progress.Load(), "emits_started": emitted.Load()}
		for k, v := range extra {
			m[k] = v
		}
		return m
	}

	// Quiescence with the gate still shut: all dispatchers back, or no emit
	// completed for 1 s (this only decides when to LOOK; the verdict needs the
	// same goroutine parked in enqueue in two dumps one second apart).
	quiet := false
	last, lastChange := progress.Load(), time.Now()
	for !quiet {
		select {
		case <-dispatchersDone:
			quiet = true
		case <-time.After(50 * time.Millisecond):
			if p := progress.Load(); p != last {
				last, lastChange = p, time.Now()
			} else if closeIssued.Load() && time.Since(lastChange) > time.Second {
				quiet = true
			}
		}
	}
	stuck := false
	select {
	case <-dispatchersDone:
	default:
		stuck = true
	}
	if stuck {
		d1 := dumpGoroutines()
		time.Sleep(time.Second)
		d2 := dumpGoroutines()
		p1, p2 := parkedInEnqueue(d1), parkedInEnqueue(d2)
		n := 0
		for id := range p1 {
			if p2[id] {
				n++
			}
		}
		gateShut := sk.writes.Load() == 0
		switch {
		case n > 0 && gateShut && progress.Load() == last:
			overlapBlocked.Store(true)
			r.Violation("async:enqueue-blocked:"+map[string]string{"close": "close-overlap", "swap": "setasync-swap-overlap"}[oc.Variant],
				fmt.Sprintf("%d dispatcher(s) stay parked on the emitter mutex inside asyncEmitter.enqueue while %s is draining the queue and the writer is gated shut: the enqueue waits for the writer", n, map[string]string{"close": "Close()", "swap": "SetAsync()"}[oc.Variant]),
				witness(map[string]any{"goroutines": d2}))
		case strings.Contains(d2, "AccessLogHook).writeRecord") && oc.Variant == "close":
			// After Close() swapped the emitter out, late dispatchers emit
			// synchronously and wait for the (gated) writer's turn: that is
			// synchronous emission, not an enqueue.
			r.Class("overlap-late-dispatchers-on-sync-path")
		default:
			r.Inconclusive(fmt.Sprintf("overlap case %d: dispatchers have not returned but none is parked in enqueue", idx))
		}
	}
	sk.open()
	for _, ch := range []chan struct{}{dispatchersDone, closerDone} {
		select {
		case <-ch:
		case <-time.After(30 * time.Second):
			r.Inconclusive(fmt.Sprintf("overlap case %d: goroutines did not finish within 30 s after the gate was opened", idx))
			return
		}
	}
	_ = h.Close()
	total += int(emitted.Load())
	lines, bad := sk.snapshot()
	if len(bad) > 0 {
		r.Violation("written-line-unparsable", "a written access-log line is not one JSON object", witness(map[string]any{"line": bad[0]}))
	}
	seen := map[string]bool{}
	var droppedSum int64
	for _, l := range lines {
		id, _ := l["method"].(string)
		if seen[id] {
			r.Violation("async:record-written-twice", "one record was written twice", witness(map[string]any{"id": id}))
		}
		seen[id] = true
		if d, ok := l["dropped_records"].(json.Number); ok {
			v, _ := d.Int64()
			droppedSum += v
		}
	}
	for i := 0; i < oc.Preload; i++ {
		if !seen[fmt.Sprintf("pre-%d", i)] {
			r.Violation("async:lost-before-close:overlap-"+oc.Variant, fmt.Sprintf("preloaded record pre-%d was queued (room was left) before the call and never written", i), witness(nil))
		}
	}
	if int64(len(lines))+droppedSum > int64(total) {
		r.Violation("async:conservation:overcounted:overlap-"+oc.Variant, fmt.Sprintf("emitted=%d written=%d sum(dropped_records)=%d", total, len(lines), droppedSum), witness(nil))
	}
	if inflightAcross.Load()+enteredBefore.Load() > 0 {
		r.Class(map[string]string{"close": "close-overlap", "swap": "setasync-swap-overlap"}[oc.Variant])
	}
	if oc.Variant == "swap" && enteredBefore.Load() > 0 {
		r.Class("dispatcher-entered-before-swap")
	}
	if oc.Variant == "close" && enteredBefore.Load() > 0 {
		r.Class("dispatcher-entered-before-close")
	}
	r.Case(fmt.Sprintf("overlap|%s|q=%d|d=%d|w=%d|drop=%d", oc.Variant, oc.Queue, oc.Dispatchers, len(lines), droppedSum))
	r.Count("overlap.emits", int64(total))
	r.Count("overlap.emits_entered_before_call_returned_after", enteredBefore.Load())
	r.Count("overlap.emits_while_call_in_progress", inflightAcross.Load())
}

func main() {
	r := mon.Start("C39")
	defer r.Finish()
	r.SetRule("sampling cases: rate in {0,1e-9,0.01,0.5,0.999,1} x sync/async x 1..8 producers x 4..27 groups (unary retries, streams with mixed request ids, keyless) with ids searched at the FNV threshold/extremes; async cases: mode in {gated, slow, close, resize} x queue 1..64 x 1..16 producers x 1..24 records; overlap cases: Close()/SetAsync() issued while 8..24 dispatchers hammer an emitter whose writer is parked at the shut gate with a non-empty queue; distinct = distinct (mode, parameters, written, dropped) tuples")
	r.Assume("records are identified by DispatchInfo.Method; the writer parses what it is handed with encoding/json")
	r.Assume("'enqueued before close' is judged only for records whose OnDispatchEnd returned before Close()/SetAsync() was called; records racing the call may legitimately go either way")
	r.Require("sampling-error-record", "sampling-kept-with-rate", "sampling-rate-1-kept", "sampling-multi-record-group-kept", "sampling-multi-record-group-dropped", "sampling-through-async",
		"async-producers-returned-while-writer-gated", "async-overflow-with-drops:gated", "async-overflow-with-drops:slow", "async-dropped_records-reported",
		"async-records-before-close", "async-records-racing-close", "async-records-before-resize", "async-double-close",
		"close-overlap", "setasync-swap-overlap", "dispatcher-entered-before-swap")
	if err := vgirpc.NewAccessLogHook(&bytes.Buffer{}, "").SetSampleRate(math.NaN()); err == nil {
		r.Fatal("SetSampleRate(NaN) accepted")
	}

	nSampling := r.N(800, 40000)
	nAsync := r.N(1200, 60000)
	nOverlap := r.N(120, 6000)
	par := r.N(4, 12)
	type job struct {
		kind string
		idx  int
	}
	jobs := make(chan job)
	var wg sync.WaitGroup
	for p := 0; p < par; p++ {
		wg.Add(1)
		go func() {
			defer wg.Done()
			for j := range jobs {
				if j.kind == "o" {
					runOverlap(r, j.idx)
				} else if j.kind == "s" {
					runSampling(r, j.idx)
				} else {
					runAsync(r, j.idx)
				}
			}
		}()
	}
	for i := 0; i < nSampling || i < nAsync; i++ {
		if i < nSampling {
			jobs <- job{"s", i}
		}
		if i < nAsync {
			jobs <- job{"a", i}
		}
		if i < nOverlap {
			jobs <- job{"o", i}
		}
	}
	close(jobs)
	wg.Wait()
	wj.ReportRaces(r, false)
}
