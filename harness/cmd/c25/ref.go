package main

// Reference model of the proxy-proof token, written from the documented
// layout (docs/authentication.md "Proxy Proof" + the layout comments of
// proof.go), independent of the library's verifier:
//
//	token     = "v1" "." kid "." ts "." nonce "." b64url-nopad(mac)
//	mac       = HMAC-SHA256(secret[kid], "vgi.proxy.proof.v1" NUL kid NUL ts NUL nonce NUL origin)
//	kid       = [A-Za-z0-9_-]{1,64}      ts  = [0-9]{1,20}
//	nonce     = [A-Za-z0-9_-]{22}        mac = [A-Za-z0-9_-]{43}
//	window    = |now - ts| <= skew (seconds), two-sided
//
// No regexp, no strconv on the timestamp (math/big), own base64url decoder.

import (
	"crypto/hmac"
	"crypto/sha256"
	"math/big"
	"strings"
)

const b64urlAlphabet = "ABCDEFGHIJKLMNOPQRSTUVWXYZabcdefghijklmnopqrstuvwxyz0123456789-_"

func isB64urlChar(c byte) bool {
	return c >= 'A' && c <= 'Z' || c >= 'a' && c <= 'z' || c >= '0' && c <= '9' || c == '-' || c == '_'
}

func allB64url(s string) bool {
	for i := 0; i < len(s); i++ {
		if !isB64urlChar(s[i]) {
			return false
		}
	}
	return true
}

func allDigits(s string) bool {
	for i := 0; i < len(s); i++ {
		if s[i] < '0' || s[i] > '9' {
			return false
		}
	}
	return true
}

func b64urlEncode(raw []byte) string {
	var sb strings.Builder
	var acc uint32
	bits := 0
	for _, b := range raw {
		acc = acc<<8 | uint32(b)
		bits += 8
		for bits >= 6 {
			bits -= 6
			sb.WriteByte(b64urlAlphabet[(acc>>uint(bits))&63])
		}
	}
	if bits > 0 {
		sb.WriteByte(b64urlAlphabet[(acc<<uint(6-bits))&63])
	}
	return sb.String()
}

// b64urlDecodeLenient decodes unpadded base64url, ignoring the unused
// trailing bits; canonical reports whether those bits were zero.
func b64urlDecodeLenient(s string) (raw []byte, canonical bool, ok bool) {
	var acc uint32
	bits := 0
	for i := 0; i < len(s); i++ {
		v := strings.IndexByte(b64urlAlphabet, s[i])
		if v < 0 {
			return nil, false, false
		}
		acc = acc<<6 | uint32(v)
		bits += 6
		if bits >= 8 {
			bits -= 8
			raw = append(raw, byte(acc>>uint(bits)))
			acc &= (1 << uint(bits)) - 1
		}
	}
	return raw, acc == 0, true
}

func refMAC(secret []byte, kid, ts, nonce, origin string) []byte {
	m := hmac.New(sha256.New, secret)
	m.Write([]byte("vgi.proxy.proof.v1"))
	for _, f := range []string{kid, ts, nonce, origin} {
		m.Write([]byte{0})
		m.Write([]byte(f))
	}
	return m.Sum(nil)
}

func refMACRaw(key, msg []byte) []byte {
	m := hmac.New(sha256.New, key)
	m.Write(msg)
	return m.Sum(nil)
}

func refMint(secret []byte, kid, ts, nonce, origin string) string {
	return "v1." + kid + "." + ts + "." + nonce + "." + b64urlEncode(refMAC(secret, kid, ts, nonce, origin))
}

// verdict of the reference verifier for one header value.
type refVerdict int

const (
	mustRefuse refVerdict = iota // the statement forbids passing the gate
	mayPass                      // satisfies every condition of the statement
	grayPass                     // satisfies them under one reasonable reading only: either outcome tolerated
)

type refResult struct {
	verdict refVerdict
	why     string
	ts      *big.Int
}

// refVerify decides one token. nowSec/nowFrac: virtual clock as whole seconds
// plus a "has fractional part" flag.
func refVerify(token string, origin string, secrets map[string][]byte, skew int64, nowSec int64, nowFrac bool) refResult {
	parts := strings.Split(token, ".")
	if len(parts) != 5 {
		return refResult{verdict: mustRefuse, why: "field-count"}
	}
	version, kid, ts, nonce, mac := parts[0], parts[1], parts[2], parts[3], parts[4]
	if version != "v1" {
		return refResult{verdict: mustRefuse, why: "version"}
	}
	if len(kid) < 1 || len(kid) > 64 || !allB64url(kid) {
		return refResult{verdict: mustRefuse, why: "kid-charset"}
	}
	if len(ts) < 1 || len(ts) > 20 || !allDigits(ts) {
		return refResult{verdict: mustRefuse, why: "ts-charset"}
	}
	if len(nonce) != 22 || !allB64url(nonce) {
		return refResult{verdict: mustRefuse, why: "nonce-charset"}
	}
	if len(mac) != 43 || !allB64url(mac) {
		return refResult{verdict: mustRefuse, why: "mac-charset"}
	}
	secret, ok := secrets[kid]
	if !ok {
		return refResult{verdict: mustRefuse, why: "unknown-kid"}
	}
	tsv, _ := new(big.Int).SetString(ts, 10)
	// window: diff = now - ts (whole seconds); exact diff = diff + frac.
	diff := new(big.Int).Sub(big.NewInt(nowSec), tsv)
	sk := big.NewInt(skew)
	negSk := new(big.Int).Neg(sk)
	inFloor := diff.Cmp(sk) <= 0 && diff.Cmp(negSk) >= 0
	// exact reading: now = nowSec + f, 0<f<1 when nowFrac. diff+f <= skew <=> diff <= skew-1 (f>0) ; diff+f >= -skew <=> diff >= -skew
	inExact := inFloor
	if nowFrac {
		inExact = diff.Cmp(new(big.Int).Sub(sk, big.NewInt(1))) <= 0 && diff.Cmp(negSk) >= 0
	}
	if !inFloor && !inExact {
		return refResult{verdict: mustRefuse, why: "window", ts: tsv}
	}
	got, canonical, ok := b64urlDecodeLenient(mac)
	if !ok || len(got) != 32 || !hmac.Equal(got, refMAC(secret, kid, ts, nonce, origin)) {
		return refResult{verdict: mustRefuse, why: "mac", ts: tsv}
	}
	if !canonical {
		return refResult{verdict: grayPass, why: "mac-noncanonical-trailing-bits", ts: tsv}
	}
	if inFloor != inExact {
		return refResult{verdict: grayPass, why: "window-subsecond-edge", ts: tsv}
	}
	return refResult{verdict: mayPass, why: "valid", ts: tsv}
}

// outOfWindowEither reports whether ts is outside the acceptance window at the
// given instant under at least one of the two readings (whole seconds / exact).
func outOfWindowEither(ts int64, skew int64, nowSec int64, nowFrac bool) bool {
	diff := nowSec - ts
	if diff > skew || -diff > skew {
		return true
	}
	if nowFrac && diff > skew-1 {
		return true
	}
	return false
}
