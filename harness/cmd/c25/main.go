// C25 — proxy proofs verify only for their worker and can never be replayed.
//
// Oracle (independent of proof.go): ref.go re-implements the documented token
// layout (own HMAC, own base64url, math/big window) and decides for every
// presented request whether the statement allows it through the gate; a
// replay model keeps, per accepted proof, an obligation "must be refused
// again" that lives while the proof's timestamp has stayed acceptable and
// fewer than `capacity` distinct proofs were admitted since.  The real gate
// is vgirpc.ProofAuthenticate in require mode on a virtual clock
// (ProofConfig.Now); a second arm goes through HttpServer.ServeHTTP to compare
// the wire answer; a third arm (conc.go) checks concurrent presentations with
// porcupine against the sequential set model.
package main

import (
	"encoding/hex"
	"fmt"
	"math"
	"math/big"
	"math/rand/v2"
	"net/http"
	"net/http/httptest"
	"net/url"
	"runtime"
	"sort"
	"strings"
	"sync"
	"time"

	"github.com/Query-farm/vgi-rpc-go/vgirpc"

	"verif/harness/internal/mon"
)

const baseUnix = int64(1_900_000_000)

type vclock struct{ t time.Time }

func (c *vclock) Now() time.Time { return c.t }
func (c *vclock) sec() int64     { return c.t.Unix() }
func (c *vclock) frac() bool     { return c.t.Nanosecond() != 0 }

type stepLog struct {
	ClockUnixNano int64    `json:"clock_unix_nano"`
	Class         string   `json:"class"`
	Headers       []string `json:"proof_headers"`
	Ref           string   `json:"reference"`
	Passed        bool     `json:"passed_gate"`
	Answer        string   `json:"answer,omitempty"`
}

type viol struct {
	sig, what string
	witness   any
}

type oblig struct {
	ts         int64
	admIdx     int
	admittedAt time.Time
	peak       time.Duration // largest (clock - admittedAt) seen while the obligation was live
}

type world struct {
	idx      int
	origin   string
	kids     []string
	secrets  map[string][]byte
	skew     int64
	capacity int // configured
	effCap   int
	disable  bool
	innerMd  int // 0 nil, 1 ok, 2 error
	viaHTTP  bool
	clk      *vclock

	gate       vgirpc.AuthenticateFunc
	hs         *vgirpc.HttpServer
	innerCalls int

	admissions []string
	oblig      map[string]*oblig
	accepted   []string // tokens accepted at least once
	presented  []string
	seenNonce  map[string]bool
	steps      []stepLog
	viols      []viol

	classes  map[string]int64
	counters map[string]int64
	cases    []string
}

var errInner = &vgirpc.RpcError{Type: "ValueError", Message: "inner-authenticator-refusal-sentinel"}

// baseline refusal, established once from a request with no header.
type refusal struct {
	Reason, Detail, Err string
	// HTTP arm
	Status int
	Body   string
	Hdr    string
}

func randString(rng *rand.Rand, alphabet string, n int) string {
	b := make([]byte, n)
	for i := range b {
		b[i] = alphabet[rng.IntN(len(alphabet))]
	}
	return string(b)
}

func randBytes(rng *rand.Rand, n int) []byte {
	b := make([]byte, n)
	for i := range b {
		b[i] = byte(rng.UintN(256))
	}
	return b
}

const originAlphabet = "ABCDEFGHIJKLMNOPQRSTUVWXYZabcdefghijklmnopqrstuvwxyz0123456789._:/-"

func newWorld(idx int, rng *rand.Rand, viaHTTP bool) *world {
	w := &world{idx: idx, secrets: map[string][]byte{}, oblig: map[string]*oblig{}, seenNonce: map[string]bool{},
		classes: map[string]int64{}, counters: map[string]int64{}, viaHTTP: viaHTTP}
	switch rng.IntN(4) {
	case 0:
		w.origin = "worker-a"
	case 1:
		w.origin = "https://worker.example:8443/vgi"
	default:
		w.origin = randString(rng, originAlphabet, 1+rng.IntN(40))
	}
	nk := 1 + rng.IntN(3)
	for i := 0; i < nk; i++ {
		var kid string
		switch rng.IntN(4) {
		case 0:
			kid = randString(rng, b64urlAlphabet, 64)
		case 1:
			kid = fmt.Sprintf("prod-use%d", i)
		default:
			kid = randString(rng, b64urlAlphabet, 1+rng.IntN(20))
		}
		if _, dup := w.secrets[kid]; dup {
			continue
		}
		w.kids = append(w.kids, kid)
		w.secrets[kid] = randBytes(rng, 32)
	}
	switch rng.IntN(4) {
	case 0:
		w.skew = 30
	case 1:
		w.skew = int64(1 + rng.IntN(3))
	default:
		w.skew = int64(1 + rng.IntN(60))
	}
	if rng.IntN(3) == 0 {
		w.capacity = 0
	} else {
		w.capacity = 1 + rng.IntN(8)
	}
	w.effCap = w.capacity
	if w.effCap <= 0 {
		w.effCap = 100_000
	}
	w.disable = rng.IntN(12) == 0
	w.innerMd = rng.IntN(3)
	if viaHTTP {
		w.innerMd = 1
	}
	base := baseUnix
	switch rng.IntN(8) {
	case 0:
		base = 100_000 // 1970: every ordinary stamp of today is ~57 years ahead
	case 1:
		base = 10_000_000_000 // year 2286: stamps of today are ~257 years behind, ts=0 more than 292 years
	}
	w.clk = &vclock{t: time.Unix(base+int64(rng.IntN(1_000_000)), 0)}
	if rng.IntN(3) == 0 {
		w.clk.t = w.clk.t.Add(time.Duration(1+rng.IntN(999_999_999)) * time.Nanosecond)
	}
	return w
}

func (w *world) build() error {
	cfg := vgirpc.ProofConfig{
		Mode: vgirpc.ProofModeRequire, OriginID: w.origin, Secrets: map[string]vgirpc.ProofSecret{},
		SkewSeconds: int(w.skew), ReplayCapacity: w.capacity, DisableReplayCache: w.disable, Now: w.clk.Now,
	}
	for k, s := range w.secrets {
		cfg.Secrets[k] = vgirpc.ProofSecret{Secret: s, Label: "label-" + k}
	}
	var inner vgirpc.AuthenticateFunc
	switch w.innerMd {
	case 1:
		inner = func(*http.Request) (*vgirpc.AuthContext, error) {
			w.innerCalls++
			return &vgirpc.AuthContext{Domain: "inner", Authenticated: true, Principal: "alice"}, nil
		}
	case 2:
		inner = func(*http.Request) (*vgirpc.AuthContext, error) {
			w.innerCalls++
			return nil, errInner
		}
	}
	g, err := vgirpc.ProofAuthenticate(cfg, inner)
	if err != nil {
		return err
	}
	w.gate = g
	if w.viaHTTP {
		w.hs = vgirpc.NewHttpServer(vgirpc.NewServer())
		w.hs.SetAuthenticate(g)
		w.hs.SetProxyProofRequired(true)
	}
	return nil
}

// present sends one request. passed = the request got through the proof gate.
func (w *world) present(headers []string) (passed bool, ref refusal, innerCalled bool) {
	before := w.innerCalls
	if w.viaHTTP {
		req := httptest.NewRequest(http.MethodPost, "/no_such_method", strings.NewReader(""))
		req.Header.Set("Content-Type", "application/vnd.apache.arrow.stream")
		for _, h := range headers {
			req.Header.Add(vgirpc.ProofHeader, h)
		}
		rec := httptest.NewRecorder()
		w.hs.ServeHTTP(rec, req)
		innerCalled = w.innerCalls > before
		if innerCalled {
			return true, refusal{}, true
		}
		hdr := rec.Header().Clone()
		hdr.Del("X-Request-ID")
		keys := make([]string, 0, len(hdr))
		for k := range hdr {
			keys = append(keys, k)
		}
		sort.Strings(keys)
		var sb strings.Builder
		for _, k := range keys {
			fmt.Fprintf(&sb, "%s=%q;", k, hdr[k])
		}
		return false, refusal{Status: rec.Code, Body: rec.Body.String(), Hdr: sb.String(),
			Reason: rec.Header().Get(vgirpc.HeaderAuthReason)}, false
	}
	req := &http.Request{Method: http.MethodPost, URL: &url.URL{Path: "/x"}, Header: http.Header{}}
	for _, h := range headers {
		req.Header.Add(vgirpc.ProofHeader, h)
	}
	_, err := w.gate(req)
	innerCalled = w.innerCalls > before
	if err == nil {
		return true, refusal{}, innerCalled
	}
	if innerCalled && err == error(errInner) {
		return true, refusal{}, true
	}
	rf := refusal{Err: err.Error()}
	if af, ok := err.(*vgirpc.AuthFailure); ok {
		rf.Reason, rf.Detail = string(af.Reason), af.Detail
	} else {
		rf.Reason = fmt.Sprintf("(%T)", err)
	}
	return false, rf, innerCalled
}

func (w *world) setClock(t time.Time) {
	w.clk.t = t
	for tok, ob := range w.oblig {
		if outOfWindowEither(ob.ts, w.skew, w.clk.sec(), w.clk.frac()) {
			delete(w.oblig, tok)
		} else if e := t.Sub(ob.admittedAt); e > ob.peak {
			ob.peak = e
		}
	}
}

func (w *world) advance(d time.Duration) { w.setClock(w.clk.t.Add(d)) }

// distinctSince counts distinct proofs admitted after index idx, other than tok.
func (w *world) distinctSince(idx int, tok string) int {
	seen := map[string]bool{}
	for _, a := range w.admissions[idx+1:] {
		if a != tok {
			seen[a] = true
		}
	}
	return len(seen)
}

func (w *world) violation(sig, what string) {
	steps := append([]stepLog(nil), w.steps...)
	sec := map[string]string{}
	for k, s := range w.secrets {
		sec[k] = hex.EncodeToString(s)
	}
	w.viols = append(w.viols, viol{sig: sig, what: what, witness: map[string]any{
		"world": w.idx, "via_http": w.viaHTTP, "origin": w.origin, "secrets_hex": sec, "skew_seconds": w.skew,
		"replay_capacity": w.capacity, "disable_replay_cache": w.disable, "inner_mode": w.innerMd, "steps": steps,
	}})
}

var baseline, baselineHTTP refusal

// step presents one request and checks it against the reference.
func (w *world) step(class string, headers []string) (passed bool) {
	var res refResult
	if len(headers) != 1 {
		res = refResult{verdict: mustRefuse, why: "header-count"}
	} else {
		res = refVerify(headers[0], w.origin, w.secrets, w.skew, w.clk.sec(), w.clk.frac())
	}
	if strings.HasPrefix(class, "header-wrapped-in-whitespace") {
		// over the wire net/http strips optional whitespace, in-process it stays: either outcome tolerated
		res = refResult{verdict: grayPass, why: "optional-whitespace-around-value"}
	}
	passed, rf, innerCalled := w.present(headers)
	refName := map[refVerdict]string{mustRefuse: "must-refuse:", mayPass: "may-pass:", grayPass: "gray:"}[res.verdict] + res.why
	sl := stepLog{ClockUnixNano: w.clk.t.UnixNano(), Class: class, Headers: headers, Ref: refName, Passed: passed}
	if !passed {
		sl.Answer = rf.Reason + "|" + rf.Detail + rf.Body
	}
	w.steps = append(w.steps, sl)
	w.cases = append(w.cases, fmt.Sprintf("%s|%s|%v|skew%d|cap%d|http%v", class, refName, passed, w.skew, w.capacity, w.viaHTTP))
	outcome := "refuse"
	if passed {
		outcome = "accept"
	}
	w.classes[outcome+":"+class]++
	w.counters["presentations"]++
	if passed {
		w.counters["gate_passed"]++
	} else {
		w.counters["gate_refused"]++
	}
	if innerCalled {
		w.counters["inner_invocations"]++
	}

	if passed && res.verdict == mustRefuse {
		w.violation("gate-passed:"+res.why+":"+class,
			fmt.Sprintf("request of class %q passed the proof gate although the reference verifier refuses it (%s)", class, res.why))
	}
	if !passed {
		// uniform answer + inner not invoked
		b := baseline
		if w.viaHTTP {
			b = baselineHTTP
		}
		if rf != b {
			w.violation("refusal-not-uniform:"+res.why,
				fmt.Sprintf("refusal for class %q differs from the proxy_required answer given to a request without a proof: got %+v want %+v", class, rf, b))
		}
		if innerCalled {
			w.violation("inner-called-on-refusal:"+class, "inner authenticator was invoked for a request the gate refused")
		}
		if res.verdict == mayPass && len(headers) == 1 {
			parts := strings.Split(headers[0], ".")
			if _, adm := w.oblig[headers[0]]; !adm && !w.seenNonce[parts[3]] {
				// not demanded by the statement ("only if"), but worth seeing
				w.counters["refused_although_valid_and_nonce_never_seen"]++
			}
		}
		return false
	}
	// passed with a proof the reference accepts (or tolerates)
	if len(headers) == 1 && res.verdict != mustRefuse {
		tok := headers[0]
		if !w.disable {
			if ob, live := w.oblig[tok]; live {
				since := w.distinctSince(ob.admIdx, tok)
				if since < w.effCap {
					elapsed := w.clk.t.Sub(ob.admittedAt)
					when := "within-skew-of-admission"
					if int64(ob.peak/time.Second) >= w.skew { // compared in seconds: skew*time.Second can overflow
						when = "at-or-after-skew-since-admission"
					}
					if w.skew >= 1<<32 {
						when += ":skew>=2^32s"
					}
					w.violation("replay-accepted:timestamp-still-valid:"+when,
						fmt.Sprintf("proof accepted a second time %v after its first acceptance (the clock had been up to %v past it); its timestamp (%d) stayed inside the +-%ds window the whole time and only %d distinct proofs (capacity %d) were admitted in between",
							elapsed, ob.peak, ob.ts, w.skew, since, w.effCap))
				} else {
					w.classes["replay-accepted-after-capacity-eviction(legal)"]++
				}
			}
		}
		w.admissions = append(w.admissions, tok)
		w.accepted = append(w.accepted, tok)
		parts := strings.Split(tok, ".")
		w.seenNonce[parts[3]] = true
		if res.ts != nil && res.ts.IsInt64() && !w.disable {
			ts := res.ts.Int64()
			if !outOfWindowEither(ts, w.skew, w.clk.sec(), w.clk.frac()) {
				w.oblig[tok] = &oblig{ts: ts, admIdx: len(w.admissions) - 1, admittedAt: w.clk.t}
			} else {
				delete(w.oblig, tok)
			}
		}
	}
	return true
}

// ---------------------------------------------------------------------------
// token construction

type comp struct {
	kid, ts, nonce string
	secret         []byte
}

func (w *world) freshNonce(rng *rand.Rand) string {
	for {
		n := randString(rng, b64urlAlphabet, 22)
		if !w.seenNonce[n] {
			return n
		}
	}
}

func (w *world) comp(rng *rand.Rand, delta int64) comp {
	kid := w.kids[rng.IntN(len(w.kids))]
	return comp{kid: kid, ts: fmt.Sprint(w.clk.sec() + delta), nonce: w.freshNonce(rng), secret: w.secrets[kid]}
}

func (w *world) tok(c comp) string { return refMint(c.secret, c.kid, c.ts, c.nonce, w.origin) }

func (w *world) inWindowDelta(rng *rand.Rand) int64 {
	// delta = ts - now; the proof is plainly valid for -skew <= delta <= skew,
	// except that delta = -skew is the sub-second gray edge when the clock
	// has a fractional part (now - ts = skew + f).
	s := w.skew
	lo := -s
	if w.clk.frac() {
		lo = -(s - 1)
	}
	switch rng.IntN(6) {
	case 0:
		return 0
	case 1:
		return lo
	case 2:
		return s
	case 3:
		return -(s - 1)
	default:
		return lo + int64(rng.IntN(int(s-lo+1)))
	}
}

type mutation struct {
	name string
	gen  func(w *world, rng *rand.Rand) []string
}

func one(s string) []string { return []string{s} }

// farRng: a small deterministic generator derived from the (random) nonce of the proof under construction.
func farRng(c comp) *rand.Rand {
	var a, b uint64
	for i := 0; i < len(c.nonce); i++ {
		if i%2 == 0 {
			a = a*131 + uint64(c.nonce[i])
		} else {
			b = b*137 + uint64(c.nonce[i])
		}
	}
	return rand.New(rand.NewPCG(a, b))
}

var farFutureClasses = []string{"ts-millisecond-stamp", "ts-microsecond-stamp", "ts-nanosecond-stamp", "ts-292-years-ahead", "ts-power-of-ten",
	"ts-random-11-to-19-digits", "ts-maxint64-minus-k"}

func mutations() []mutation {
	valid := func(w *world, rng *rand.Rand) (comp, string) {
		c := w.comp(rng, w.inWindowDelta(rng))
		return c, w.tok(c)
	}
	rest := func(w *world, c comp, version string) string {
		return version + "." + c.kid + "." + c.ts + "." + c.nonce + "." + b64urlEncode(refMAC(c.secret, c.kid, c.ts, c.nonce, w.origin))
	}
	withKid := func(kid string) func(w *world, rng *rand.Rand) []string {
		return func(w *world, rng *rand.Rand) []string {
			c, _ := valid(w, rng)
			c.kid = kid
			return one(w.tok(c))
		}
	}
	withTs := func(f func(w *world, c comp) string, macOverNew bool) func(w *world, rng *rand.Rand) []string {
		return func(w *world, rng *rand.Rand) []string {
			c, _ := valid(w, rng)
			mac := b64urlEncode(refMAC(c.secret, c.kid, c.ts, c.nonce, w.origin))
			nts := f(w, c)
			if macOverNew {
				mac = b64urlEncode(refMAC(c.secret, c.kid, nts, c.nonce, w.origin))
			}
			return one("v1." + c.kid + "." + nts + "." + c.nonce + "." + mac)
		}
	}
	withDelta := func(f func(w *world) int64) func(w *world, rng *rand.Rand) []string {
		return func(w *world, rng *rand.Rand) []string { return one(w.tok(w.comp(rng, f(w)))) }
	}
	withNonce := func(f func(rng *rand.Rand) string) func(w *world, rng *rand.Rand) []string {
		return func(w *world, rng *rand.Rand) []string {
			c, _ := valid(w, rng)
			c.nonce = f(rng)
			return one(w.tok(c))
		}
	}
	withMac := func(f func(rng *rand.Rand, mac string) string) func(w *world, rng *rand.Rand) []string {
		return func(w *world, rng *rand.Rand) []string {
			c, t := valid(w, rng)
			i := strings.LastIndexByte(t, '.')
			_ = c
			return one(t[:i+1] + f(rng, t[i+1:]))
		}
	}
	otherChar := func(rng *rand.Rand, c byte) byte {
		for {
			n := b64urlAlphabet[rng.IntN(64)]
			if n != c {
				return n
			}
		}
	}
	return []mutation{
		{"version-v2", func(w *world, rng *rand.Rand) []string { c, _ := valid(w, rng); return one(rest(w, c, "v2")) }},
		{"version-upper", func(w *world, rng *rand.Rand) []string { c, _ := valid(w, rng); return one(rest(w, c, "V1")) }},
		{"version-empty", func(w *world, rng *rand.Rand) []string { c, _ := valid(w, rng); return one(rest(w, c, "")) }},
		{"version-v10", func(w *world, rng *rand.Rand) []string { c, _ := valid(w, rng); return one(rest(w, c, "v10")) }},
		{"kid-badchar", withKid("bad!kid")},
		{"kid-space", withKid("prod use1")},
		{"kid-slash", withKid("prod/use1")},
		{"kid-nonascii", withKid("pröd")},
		{"kid-dot", withKid("a.b")},
		{"kid-empty", withKid("")},
		{"kid-65", withKid(strings.Repeat("k", 65))},
		{"kid-unknown", withKid("not-a-configured-kid")},
		{"kid-case-changed", func(w *world, rng *rand.Rand) []string {
			c, _ := valid(w, rng)
			sw := strings.Map(func(r rune) rune {
				switch {
				case r >= 'a' && r <= 'z':
					return r - 32
				case r >= 'A' && r <= 'Z':
					return r + 32
				}
				return r
			}, c.kid)
			if _, ok := w.secrets[sw]; ok || sw == c.kid {
				sw = c.kid + "X"
				if _, ok := w.secrets[sw]; ok || len(sw) > 64 {
					sw = "zz-unknown"
				}
			}
			c.kid = sw
			return one(w.tok(c))
		}},
		{"ts-nondigit", withTs(func(w *world, c comp) string { return c.ts[:len(c.ts)-1] + "a" }, true)},
		{"ts-empty", withTs(func(w *world, c comp) string { return "" }, true)},
		{"ts-21-digits", withTs(func(w *world, c comp) string { return strings.Repeat("0", 21-len(c.ts)) + c.ts }, true)},
		{"ts-plus-sign", withTs(func(w *world, c comp) string { return "+" + c.ts }, true)},
		{"ts-minus-sign", withTs(func(w *world, c comp) string { return "-" + c.ts }, true)},
		{"ts-space", withTs(func(w *world, c comp) string { return " " + c.ts }, true)},
		{"ts-overflow-20-digits", withTs(func(w *world, c comp) string { return "99999999999999999999" }, true)},
		{"ts-int64-max", withTs(func(w *world, c comp) string { return "9223372036854775807" }, true)},
		// valid MAC, timestamps across the whole int64 magnitude range (a proxy stamping
		// milliseconds / nanoseconds, powers of ten, the neighbourhood of MaxInt64, and the
		// +-292-year point where time.Duration arithmetic saturates): all far outside the window
		{"ts-millisecond-stamp", withTs(func(w *world, c comp) string { return fmt.Sprint(w.clk.sec() * 1000) }, true)},
		{"ts-microsecond-stamp", withTs(func(w *world, c comp) string { return fmt.Sprint(w.clk.sec() * 1_000_000) }, true)},
		{"ts-nanosecond-stamp", withTs(func(w *world, c comp) string {
			return new(big.Int).Mul(big.NewInt(w.clk.sec()), big.NewInt(1_000_000_000)).String() // may exceed int64 for late clocks: then 20 digits
		}, true)},
		{"ts-292-years-ahead", withTs(func(w *world, c comp) string {
			return fmt.Sprint(w.clk.sec() + 9_223_372_036 + int64(farRng(c).IntN(5)) - 1) // MaxInt64 ns = 9 223 372 036.85 s
		}, true)},
		{"ts-292-years-behind", withTs(func(w *world, c comp) string {
			v := w.clk.sec() - 9_223_372_036 - int64(farRng(c).IntN(5)) + 1
			if v < 0 {
				v = 0
			}
			return fmt.Sprint(v)
		}, true)},
		{"ts-power-of-ten", withTs(func(w *world, c comp) string { return "1" + strings.Repeat("0", 10+farRng(c).IntN(9)) }, true)},
		{"ts-random-11-to-19-digits", withTs(func(w *world, c comp) string {
			r := farRng(c)
			n := 11 + r.IntN(9)
			d := []byte(randString(r, "0123456789", n))
			d[0] = "123456789"[r.IntN(9)]
			if n == 19 && d[0] == '9' {
				d[0] = '8' // stay below MaxInt64; the overflow case has its own class
			}
			return string(d)
		}, true)},
		{"ts-maxint64-minus-k", withTs(func(w *world, c comp) string {
			ks := []int64{1, 2, 1000, 1_900_000_000, 62_000_000_000, 100_000_000_000, 1_000_000_000_000, 1_000_000_000_000_000, 4_611_686_018_427_387_904}
			return fmt.Sprint(int64(math.MaxInt64) - ks[farRng(c).IntN(len(ks))])
		}, true)},
		{"ts-maxint64-plus-1", withTs(func(w *world, c comp) string { return "9223372036854775808" }, true)},
		{"ts-minint64-text", withTs(func(w *world, c comp) string { return "-9223372036854775808" }, true)},
		{"ts-leading-zeros-mac-over-padded(valid)", withTs(func(w *world, c comp) string { return strings.Repeat("0", 20-len(c.ts)) + c.ts }, true)},
		{"ts-leading-zeros-mac-over-unpadded", withTs(func(w *world, c comp) string { return "0" + c.ts }, false)},
		{"ts-changed-mac-kept", withTs(func(w *world, c comp) string {
			b := []byte(c.ts)
			if b[len(b)-1] == '9' {
				b[len(b)-1] = '8'
			} else {
				b[len(b)-1]++
			}
			return string(b)
		}, false)},
		{"ts-edge-in-plus-skew", withDelta(func(w *world) int64 { return w.skew })},
		{"ts-edge-in-minus-skew", withDelta(func(w *world) int64 {
			if w.clk.frac() {
				return -(w.skew - 1) // exact reading: now-ts = skew-1+f < skew
			}
			return -w.skew
		})},
		{"ts-edge-out-plus-skew+1", withDelta(func(w *world) int64 { return w.skew + 1 })},
		{"ts-edge-out-minus-skew-1", withDelta(func(w *world) int64 { return -(w.skew + 1) })},
		{"ts-edge-out-plus-skew+2", withDelta(func(w *world) int64 { return w.skew + 2 })},
		{"ts-far-future", withDelta(func(w *world) int64 { return 1_000_000 })},
		{"ts-far-past", withDelta(func(w *world) int64 { return -1_000_000 })},
		{"ts-zero", withTs(func(w *world, c comp) string { return "0" }, true)},
		{"nonce-21", withNonce(func(rng *rand.Rand) string { return randString(rng, b64urlAlphabet, 21) })},
		{"nonce-23", withNonce(func(rng *rand.Rand) string { return randString(rng, b64urlAlphabet, 23) })},
		{"nonce-empty", withNonce(func(rng *rand.Rand) string { return "" })},
		{"nonce-badchar", withNonce(func(rng *rand.Rand) string { return randString(rng, b64urlAlphabet, 21) + "+" })},
		{"nonce-padding-char", withNonce(func(rng *rand.Rand) string { return randString(rng, b64urlAlphabet, 21) + "=" })},
		{"nonce-nul", withNonce(func(rng *rand.Rand) string { return randString(rng, b64urlAlphabet, 21) + "\x00" })},
		{"mac-42", withMac(func(rng *rand.Rand, m string) string { return m[:42] })},
		{"mac-44", withMac(func(rng *rand.Rand, m string) string { return m + "A" })},
		{"mac-padded", withMac(func(rng *rand.Rand, m string) string { return m + "=" })},
		{"mac-std-alphabet-char", withMac(func(rng *rand.Rand, m string) string { return "+" + m[1:] })},
		{"mac-empty", withMac(func(rng *rand.Rand, m string) string { return "" })},
		{"mac-all-A", withMac(func(rng *rand.Rand, m string) string { return strings.Repeat("A", 43) })},
		{"mac-one-char-changed", withMac(func(rng *rand.Rand, m string) string {
			i := rng.IntN(42)
			b := []byte(m)
			b[i] = otherChar(rng, b[i])
			return string(b)
		})},
		{"mac-last-char-high-bits-changed", withMac(func(rng *rand.Rand, m string) string {
			// the last char carries 4 data bits (high) + 2 unused bits (low)
			v := strings.IndexByte(b64urlAlphabet, m[42])
			v ^= 4 << uint(rng.IntN(4)) // flip one of the four data bits
			return m[:42] + string(b64urlAlphabet[v&63])
		})},
		{"mac-noncanonical-trailing-bits(gray)", withMac(func(rng *rand.Rand, m string) string {
			v := strings.IndexByte(b64urlAlphabet, m[42])
			return m[:42] + string(b64urlAlphabet[v|(1+rng.IntN(3))])
		})},
		{"origin-other-suffix", func(w *world, rng *rand.Rand) []string {
			c, _ := valid(w, rng)
			return one(refMint(c.secret, c.kid, c.ts, c.nonce, w.origin+"x"))
		}},
		{"origin-sibling-worker", func(w *world, rng *rand.Rand) []string {
			c, _ := valid(w, rng)
			o := "worker-b"
			if w.origin == o {
				o = "worker-c"
			}
			return one(refMint(c.secret, c.kid, c.ts, c.nonce, o))
		}},
		{"origin-case-changed", func(w *world, rng *rand.Rand) []string {
			c, _ := valid(w, rng)
			o := strings.ToUpper(w.origin)
			if o == w.origin {
				o = strings.ToLower(w.origin)
			}
			if o == w.origin {
				o = w.origin + "-"
			}
			return one(refMint(c.secret, c.kid, c.ts, c.nonce, o))
		}},
		{"origin-empty", func(w *world, rng *rand.Rand) []string {
			c, _ := valid(w, rng)
			return one(refMint(c.secret, c.kid, c.ts, c.nonce, ""))
		}},
		{"secret-unrelated", func(w *world, rng *rand.Rand) []string {
			c, _ := valid(w, rng)
			return one(refMint(randBytes(rng, 32), c.kid, c.ts, c.nonce, w.origin))
		}},
		{"secret-of-another-kid", func(w *world, rng *rand.Rand) []string {
			c, _ := valid(w, rng)
			s := randBytes(rng, 32)
			for _, k := range w.kids {
				if k != c.kid {
					s = w.secrets[k]
				}
			}
			return one(refMint(s, c.kid, c.ts, c.nonce, w.origin))
		}},
		{"mac-over-unseparated-fields", func(w *world, rng *rand.Rand) []string {
			c, _ := valid(w, rng)
			h := refMACRaw(c.secret, []byte("vgi.proxy.proof.v1"+c.kid+c.ts+c.nonce+w.origin))
			return one("v1." + c.kid + "." + c.ts + "." + c.nonce + "." + b64urlEncode(h))
		}},
		{"mac-over-dot-joined-fields", func(w *world, rng *rand.Rand) []string {
			c, _ := valid(w, rng)
			h := refMACRaw(c.secret, []byte("v1."+c.kid+"."+c.ts+"."+c.nonce))
			return one("v1." + c.kid + "." + c.ts + "." + c.nonce + "." + b64urlEncode(h))
		}},
		{"fields-4", func(w *world, rng *rand.Rand) []string {
			_, t := valid(w, rng)
			return one(t[:strings.LastIndexByte(t, '.')])
		}},
		{"fields-6", func(w *world, rng *rand.Rand) []string { _, t := valid(w, rng); return one(t + ".x") }},
		{"trailing-dot", func(w *world, rng *rand.Rand) []string { _, t := valid(w, rng); return one(t + ".") }},
		{"leading-dot", func(w *world, rng *rand.Rand) []string { _, t := valid(w, rng); return one("." + t) }},
		{"garbage", func(w *world, rng *rand.Rand) []string { return one(randString(rng, b64urlAlphabet+".,= ", 1+rng.IntN(80))) }},
		{"oversize-600", func(w *world, rng *rand.Rand) []string {
			_, t := valid(w, rng)
			return one(t + strings.Repeat("x", 600))
		}},
		{"oversize-kid-500", withKid(strings.Repeat("k", 500))},
		{"header-wrapped-in-whitespace(counted-not-judged)", func(w *world, rng *rand.Rand) []string {
			_, t := valid(w, rng)
			return one([]string{" " + t, t + " ", "\t" + t, " " + t + " "}[rng.IntN(4)])
		}},
		{"no-header", func(w *world, rng *rand.Rand) []string { return nil }},
		{"empty-header", func(w *world, rng *rand.Rand) []string { return one("") }},
		{"two-headers-both-valid", func(w *world, rng *rand.Rand) []string {
			_, a := valid(w, rng)
			_, b := valid(w, rng)
			return []string{a, b}
		}},
		{"two-headers-same-valid", func(w *world, rng *rand.Rand) []string { _, a := valid(w, rng); return []string{a, a} }},
		{"two-headers-valid-then-junk", func(w *world, rng *rand.Rand) []string { _, a := valid(w, rng); return []string{a, "junk"} }},
		{"two-headers-junk-then-valid", func(w *world, rng *rand.Rand) []string { _, a := valid(w, rng); return []string{"junk", a} }},
		{"two-headers-valid-then-empty", func(w *world, rng *rand.Rand) []string { _, a := valid(w, rng); return []string{a, ""} }},
		{"two-headers-empty-then-valid", func(w *world, rng *rand.Rand) []string { _, a := valid(w, rng); return []string{"", a} }},
		{"comma-joined-two-valid", func(w *world, rng *rand.Rand) []string {
			_, a := valid(w, rng)
			_, b := valid(w, rng)
			return one(a + "," + b)
		}},
		{"comma-joined-space", func(w *world, rng *rand.Rand) []string {
			_, a := valid(w, rng)
			_, b := valid(w, rng)
			return one(a + ", " + b)
		}},
		{"trailing-comma", func(w *world, rng *rand.Rand) []string { _, a := valid(w, rng); return one(a + ",") }},
		{"leading-comma", func(w *world, rng *rand.Rand) []string { _, a := valid(w, rng); return one("," + a) }},
	}
}


// ---------------------------------------------------------------------------
// scenarios

var allMutations = mutations()

func (w *world) clockMove(rng *rand.Rand) {
	s := time.Duration(w.skew) * time.Second
	switch rng.IntN(16) {
	case 0:
		w.advance(time.Second)
	case 1:
		w.advance(time.Duration(1+rng.IntN(3)) * time.Second)
	case 2:
		w.advance(time.Duration(1+rng.IntN(999)) * time.Millisecond)
	case 3:
		w.advance(s / 2)
	case 4:
		w.advance(s)
	case 5:
		w.advance(s + s/2)
	case 6:
		w.advance(2*s + time.Second)
	case 7:
		w.classes["clock:step-back-small"]++
		w.advance(-time.Duration(1+rng.IntN(3)) * time.Second)
	case 8:
		w.classes["clock:step-back-skew"]++
		w.advance(-s)
	case 9:
		// drop the fractional part
		w.setClock(time.Unix(w.clk.sec(), 0))
	}
}

func (w *world) scenarioRandom(rng *rand.Rand, n int) {
	for i := 0; i < n; i++ {
		w.clockMove(rng)
		switch k := rng.IntN(20); {
		case k < 6:
			w.step("valid-fresh", one(w.tok(w.comp(rng, w.inWindowDelta(rng)))))
		case k < 11 && len(w.accepted) > 0:
			// replay an accepted proof, preferring one whose obligation is live
			tok := w.accepted[rng.IntN(len(w.accepted))]
			for t := range w.oblig {
				if rng.IntN(2) == 0 {
					tok = t
					break
				}
			}
			cls := "replay-of-accepted"
			if _, live := w.oblig[tok]; live {
				cls = "replay-of-accepted:obligation-live"
			}
			w.step(cls, one(tok))
		case k < 13 && len(w.presented) > 0:
			w.step("re-presentation-of-any-earlier-header", one(w.presented[rng.IntN(len(w.presented))]))
		case k < 14 && len(w.accepted) > 0:
			// same nonce as an accepted proof, new timestamp, valid MAC: a distinct proof
			old := strings.Split(w.accepted[rng.IntN(len(w.accepted))], ".")
			kid := old[1]
			c := comp{kid: kid, ts: fmt.Sprint(w.clk.sec() + w.inWindowDelta(rng)), nonce: old[3], secret: w.secrets[kid]}
			w.step("valid-with-nonce-of-accepted-proof-new-ts", one(w.tok(c)))
		default:
			m := allMutations[rng.IntN(len(allMutations))]
			w.step(m.name, m.gen(w, rng))
		}
		if last := w.steps[len(w.steps)-1]; len(last.Headers) == 1 {
			w.presented = append(w.presented, last.Headers[0])
		}
	}
}

// scenarioTTL: DESIGN.md section 6 item 16 — accept a proof stamped ahead of
// the worker's clock, let more than `skew` seconds pass while the timestamp
// stays inside the window, replay.
func (w *world) scenarioTTL(rng *rand.Rand) {
	s := w.skew
	d := 1 + int64(rng.IntN(int(s)))
	c := w.comp(rng, d)
	tok := w.tok(c)
	if !w.step("ttl-script:first-presentation(ts=now+d)", one(tok)) {
		return
	}
	t0 := w.clk.t
	a := s + int64(rng.IntN(int(d)+1)) // s <= a <= s+d
	mid := rng.IntN(3)
	if mid == 1 {
		w.advance(time.Duration(a/2) * time.Second)
		w.step("valid-fresh", one(w.tok(w.comp(rng, 0))))
	}
	w.setClock(t0.Add(time.Duration(a) * time.Second))
	if mid == 2 {
		w.step("valid-fresh", one(w.tok(w.comp(rng, 0))))
	}
	if _, live := w.oblig[tok]; live && !w.disable {
		w.classes["ttl-script:replay-presented:>=skew-after-admission:timestamp-still-valid"]++
	}
	w.step("ttl-script:replay", one(tok))
	// and once more a little later, still inside the window if possible
	w.advance(time.Second)
	w.step("ttl-script:replay-again", one(tok))
}

// scenarioCapacity: admit p, then k other proofs, replay p.
func (w *world) scenarioCapacity(rng *rand.Rand) {
	if w.capacity == 0 {
		return
	}
	p := w.tok(w.comp(rng, w.inWindowDelta(rng)))
	if !w.step("capacity-script:first", one(p)) {
		return
	}
	k := w.capacity - 1 + rng.IntN(3)
	for i := 0; i < k; i++ {
		w.step("valid-fresh", one(w.tok(w.comp(rng, w.inWindowDelta(rng)))))
		if rng.IntN(3) == 0 { // a replay in between must not count as an admission
			w.step("capacity-script:replay-in-between", one(p))
		}
	}
	if _, live := w.oblig[p]; live {
		if w.distinctSince(w.oblig[p].admIdx, p) < w.effCap {
			w.classes["capacity-script:replay-presented:below-capacity"]++
		} else {
			w.classes["capacity-script:replay-presented:at-or-above-capacity"]++
		}
	}
	w.step("capacity-script:replay", one(p))
}

func (w *world) scenarioSweep(rng *rand.Rand) {
	for _, m := range allMutations {
		if rng.IntN(4) == 0 {
			w.clockMove(rng)
		}
		w.step(m.name, m.gen(w, rng))
	}
}

func (w *world) scenarioStepBack(rng *rand.Rand) {
	p := w.tok(w.comp(rng, 0))
	if !w.step("valid-fresh", one(p)) {
		return
	}
	back := 1 + int64(rng.IntN(int(w.skew)))
	w.advance(-time.Duration(back) * time.Second)
	if _, live := w.oblig[p]; live {
		w.classes["step-back-script:replay-presented-after-clock-stepped-back"]++
	}
	w.step("step-back-script:replay", one(p))
	w.step("valid-fresh", one(w.tok(w.comp(rng, 0))))
	w.advance(time.Duration(back) * time.Second)
	w.step("step-back-script:replay-after-return", one(p))
}

// scenarioFarFuture: a validly MACed proof with a timestamp of another order of
// magnitude is presented, the clock moves past any nonce retention (2*skew+2 s),
// another proof is admitted (which makes the cache sweep), and the same string
// is presented again.  Both presentations must be refused, inner never called.
func (w *world) scenarioFarFuture(rng *rand.Rand) {
	name := farFutureClasses[rng.IntN(len(farFutureClasses))]
	var hdr []string
	for _, m := range allMutations {
		if m.name == name {
			hdr = m.gen(w, rng)
		}
	}
	w.step(name, hdr)
	for k := 0; k < 1+rng.IntN(2); k++ {
		w.advance(time.Duration(2*w.skew+2+int64(rng.IntN(5))) * time.Second)
		w.step("valid-fresh", one(w.tok(w.comp(rng, 0))))
		w.classes["far-future-script:replay-presented-after-retention-and-sweep"]++
		w.step("far-future-script:replay:"+name, hdr)
	}
}

// scenarioBigSkew (domain audit): ProofAuthenticate's own validation accepts any
// positive SkewSeconds, so the window/replay clauses are probed with skews of
// hours, years and up to the int64-seconds range.
func (w *world) scenarioBigSkew(rng *rand.Rand) {
	p := w.tok(w.comp(rng, 0))
	if !w.step("big-skew:first", one(p)) {
		return
	}
	w.classes["big-skew:replay-presented"]++
	w.step("big-skew:replay-immediately", one(p))
	w.advance(time.Duration(1+rng.IntN(30)) * time.Second)
	w.step("valid-fresh", one(w.tok(w.comp(rng, 0))))
	w.step("big-skew:replay-after-another-admission", one(p))
	w.step("ts-edge-out-plus-skew+1", one(w.tok(w.comp(rng, w.skew+1))))
	if w.clk.sec()-w.skew-1 >= 0 {
		w.step("ts-edge-out-minus-skew-1", one(w.tok(w.comp(rng, -(w.skew+1)))))
	}
}

var bigSkews = []int64{3600, 86400, 31_536_000, 2_000_000_000, 4_294_967_296, 4_611_686_017, 4_611_686_018, 4_611_686_019, 9_223_372_036, 9_223_372_037, 1 << 40, 1 << 53, 1 << 61}

func runWorld(r *mon.Run, arm uint64, idx int, viaHTTP bool) *world {
	rng := r.Rand(arm, uint64(idx))
	w := newWorld(idx, rng, viaHTTP)
	if idx%12 == 7 && !viaHTTP {
		w.skew = bigSkews[rng.IntN(len(bigSkews))]
		w.disable = false
	}
	if idx%24 == 11 {
		// clocks at and before 1970 (time.Time allows them; timestamps cannot be negative)
		w.clk.t = time.Unix(int64(rng.IntN(40))-20, 0)
	}
	if idx%24 == 13 {
		w.origin = randString(rng, originAlphabet, 255) // the validator's own upper bound
	}
	if err := w.build(); err != nil {
		w.viols = append(w.viols, viol{sig: "harness:build", what: err.Error()})
		return w
	}
	if idx%12 == 7 && !viaHTTP {
		w.classes["config:big-skew-accepted-by-validation"]++
		w.scenarioBigSkew(rng)
		return w
	}
	if idx%24 == 11 {
		w.classes["clock:at-or-before-1970"]++
	}
	if idx%24 == 13 {
		w.classes["config:origin-255-chars"]++
	}
	switch idx % 6 {
	case 1, 2:
		w.scenarioRandom(rng, 40)
	case 0:
		w.scenarioTTL(rng)
		w.scenarioFarFuture(rng)
		w.scenarioRandom(rng, 10)
	case 3:
		w.scenarioCapacity(rng)
		w.scenarioFarFuture(rng)
		w.scenarioRandom(rng, 10)
	case 4:
		w.scenarioSweep(rng)
	case 5:
		w.scenarioStepBack(rng)
		w.scenarioRandom(rng, 15)
	}
	return w
}

func runArm(r *mon.Run, arm uint64, worlds int, viaHTTP bool) {
	results := make([]*world, worlds)
	var wg sync.WaitGroup
	sem := make(chan struct{}, runtime.GOMAXPROCS(0))
	for i := 0; i < worlds; i++ {
		wg.Add(1)
		sem <- struct{}{}
		go func(i int) {
			defer wg.Done()
			defer func() { <-sem }()
			results[i] = runWorld(r, arm, i, viaHTTP)
		}(i)
	}
	wg.Wait()
	for i, w := range results {
		for _, c := range w.cases {
			r.Case(c)
		}
		for k, v := range w.classes {
			for j := int64(0); j < v; j++ {
				r.Class(k)
			}
		}
		for k, v := range w.counters {
			name := k
			if viaHTTP {
				name = "http." + k
			}
			r.Count(name, v)
		}
		for _, v := range w.viols {
			if v.sig == "harness:build" {
				r.Fatal("world %d: ProofAuthenticate refused a valid configuration: %s", i, v.what)
			}
			r.Violation(v.sig, v.what, v.witness)
		}
		if i%97 == 3 && len(w.steps) > 2 {
			r.Sample(map[string]any{"world": w.idx, "skew": w.skew, "capacity": w.capacity, "via_http": viaHTTP, "steps": w.steps[:3]})
		}
	}
}

func selfTestReference(r *mon.Run) {
	// The golden vector in proof_test.go was produced by the Python reference
	// implementation; the harness's own minting must reproduce it, and the
	// library's MintProof must agree with the harness on fresh inputs.
	secret := []byte(strings.Repeat("\x11", 32))
	const golden = "v1.conformance-proxy.1700000000.Q0ZPUk1BTkNFTk9OQ0UxMQ.XQ2QBf35oajjaP7HIas3OfyEvNhyXTTptbrxWFxWk3I"
	if got := refMint(secret, "conformance-proxy", "1700000000", "Q0ZPUk1BTkNFTk9OQ0UxMQ", "conformance-origin"); got != golden {
		r.Fatal("reference minting does not reproduce the cross-language golden vector: %s", got)
	}
	rng := r.Rand(99)
	for i := 0; i < 50; i++ {
		sec := randBytes(rng, 32)
		kid := randString(rng, b64urlAlphabet, 1+rng.IntN(64))
		org := randString(rng, originAlphabet, 1+rng.IntN(255))
		nonce := randString(rng, b64urlAlphabet, 22)
		now := baseUnix + int64(rng.IntN(1000))
		lib, err := vgirpc.MintProof(sec, kid, org, now, nonce)
		if err != nil {
			r.Fatal("MintProof: %v", err)
		}
		if mine := refMint(sec, kid, fmt.Sprint(now), nonce, org); mine != lib {
			r.Violation("mint-differs-from-documented-layout", "MintProof output differs from the documented token layout",
				map[string]any{"library": lib, "reference": mine, "kid": kid, "origin": org, "nonce": nonce, "now": now})
		}
	}
}

func establishBaseline(r *mon.Run) {
	rng := r.Rand(98)
	w := newWorld(-1, rng, false)
	w.innerMd = 1
	if err := w.build(); err != nil {
		r.Fatal("baseline world: %v", err)
	}
	_, rf, called := w.present(nil)
	if called || rf.Reason != string(vgirpc.AuthReasonProxyRequired) {
		r.Violation("no-proof-request-not-refused-with-proxy_required", fmt.Sprintf("request without proof: %+v inner called=%v", rf, called), rf)
	}
	baseline = rf
	wh := newWorld(-2, rng, true)
	if err := wh.build(); err != nil {
		r.Fatal("baseline http world: %v", err)
	}
	_, rfh, called := wh.present(nil)
	if called || rfh.Status != http.StatusUnauthorized || rfh.Reason != string(vgirpc.AuthReasonProxyRequired) {
		r.Violation("http:no-proof-request-not-refused-with-proxy_required", fmt.Sprintf("request without proof: %+v inner called=%v", rfh, called), rfh)
	}
	baselineHTTP = rfh
	r.Set("uniform_refusal", map[string]any{"authenticate_func": rf, "http": rfh})
}

func main() {
	mon.ChildMain(map[string]mon.ChildFunc{"conc": concChild})
	r := mon.Start("C25")
	defer r.Finish()
	r.SetRule("sequential arm: worlds (origin, 1-3 key ids, skew 1..60, replay capacity 1..8 or default, inner authenticator nil/ok/error) x scripted+random presentation histories on a virtual clock; one case = one presentation; signature = (generator class, reference verdict, outcome, skew, capacity, transport); trivial = none. concurrent arm: one case = one history of <=40 concurrent presentations checked with porcupine")
	r.Assume("\"for as long as its timestamp would still be accepted\" is read as the interval after acceptance during which the clock never left the proof's +-skew window; an obligation ends as soon as the virtual clock is set outside it (a clock stepping back into the window later does not revive it)")
	r.Assume("\"unless the cache has since admitted more distinct proofs than its capacity\": counting the proof itself, i.e. a replay is a violation only while fewer than `capacity` other distinct proofs were admitted in between (DESIGN.md section 5 C25)")
	r.Assume("a request that passes the gate is observed as: inner authenticator invoked, or (no inner authenticator) nil error; refusing a proof that satisfies all conditions is not a violation (the statement says \"only if\") and is only counted")
	r.Assume("tolerated either way (gray): a MAC whose unpadded base64url text has non-zero unused trailing bits but decodes to the right 32 bytes; a timestamp exactly `skew` whole seconds old while the clock has a sub-second part")
	r.Require(
		"accept:valid-fresh", "refuse:replay-of-accepted:obligation-live", "refuse:mac-one-char-changed", "refuse:origin-sibling-worker",
		"refuse:secret-of-another-kid", "refuse:kid-unknown", "accept:ts-edge-in-plus-skew", "accept:ts-edge-in-minus-skew",
		"refuse:ts-edge-out-plus-skew+1", "refuse:ts-edge-out-minus-skew-1", "refuse:no-header", "refuse:two-headers-both-valid",
		"refuse:comma-joined-two-valid", "accept:ts-leading-zeros-mac-over-padded(valid)",
		"refuse:ts-millisecond-stamp", "refuse:ts-nanosecond-stamp", "refuse:ts-292-years-ahead", "refuse:ts-292-years-behind", "refuse:ts-power-of-ten",
		"refuse:ts-random-11-to-19-digits", "refuse:ts-maxint64-minus-k", "refuse:ts-maxint64-plus-1",
		"far-future-script:replay-presented-after-retention-and-sweep",
		"config:big-skew-accepted-by-validation", "big-skew:replay-presented", "clock:at-or-before-1970", "config:origin-255-chars",
		"ttl-script:replay-presented:>=skew-after-admission:timestamp-still-valid",
		"capacity-script:replay-presented:below-capacity", "capacity-script:replay-presented:at-or-above-capacity",
		"step-back-script:replay-presented-after-clock-stepped-back",
		"concurrent:same-proof-presented-concurrently", "concurrent:porcupine-ok",
	)

	selfTestReference(r)
	establishBaseline(r)

	// ~42 presentations per world on average
	runArm(r, 1, r.N(480, 40000), false)
	runArm(r, 2, r.N(40, 2000), true)
	runConcurrent(r, r.N(200, 30000))
}
