package main

// Concurrent arm: 2..16 clients present a handful of proofs at the same time
// to one ProofAuthenticate gate (virtual clock frozen for the history).  The
// call/return history is checked with porcupine against the sequential
// specification "set of the last `capacity` admitted proofs":
//
//	present(p), p not acceptable per the reference verifier -> must be refused
//	present(p) refused                                     -> always legal ("only if")
//	present(p) accepted                                    -> legal iff p is not among the last `capacity` admissions
//
// Histories run in child processes so that a runtime fatal error (e.g.
// "concurrent map writes" when a lock is missing) is attributed to one
// history instead of killing the run.

import (
	"encoding/json"
	"fmt"
	"math/rand/v2"
	"net/http"
	"net/url"
	"os"
	"path/filepath"
	"sort"
	"strings"
	"sync"
	"time"

	"github.com/anishathalye/porcupine"

	"github.com/Query-farm/vgi-rpc-go/vgirpc"

	"verif/harness/internal/mon"
)

type concIn struct {
	Seed int64 `json:"seed"`
	Idx  int   `json:"idx"`
}

type concOp struct {
	Client int   `json:"client"`
	Proof  int   `json:"proof"`
	Call   int64 `json:"call"`
	Ret    int64 `json:"ret"`
	Passed bool  `json:"passed"`
}

type concOut struct {
	Skew       int      `json:"skew"`
	Capacity   int      `json:"capacity"` // configured; 0 = default
	EffCap     int      `json:"effective_capacity"`
	Origin     string   `json:"origin"`
	SecretHex  string   `json:"secret_hex"`
	NowUnix    int64    `json:"now_unix"`
	Tokens     []string `json:"tokens"`
	Acceptable []bool   `json:"acceptable"` // reference verdict per token
	Clients    int      `json:"clients"`
	Ops        []concOp `json:"ops"`
}

func concChild(in []byte) []byte {
	var ci concIn
	if err := json.Unmarshal(in, &ci); err != nil {
		panic(err)
	}
	rng := rand.New(rand.NewPCG(uint64(ci.Seed)*0x9e3779b97f4a7c15+0xc25, uint64(ci.Idx)))
	out := concOut{Skew: 1 + rng.IntN(60), Origin: "worker-" + randString(rng, b64urlAlphabet, 6)}
	if rng.IntN(2) == 0 {
		out.Capacity = 1 + rng.IntN(4)
	}
	out.EffCap = out.Capacity
	if out.EffCap == 0 {
		out.EffCap = 100_000
	}
	secret := randBytes(rng, 32)
	out.SecretHex = fmt.Sprintf("%x", secret)
	now := time.Unix(baseUnix+int64(rng.IntN(1_000_000)), 0)
	out.NowUnix = now.Unix()
	secrets := map[string][]byte{"k1": secret}
	nValid := 1 + rng.IntN(5)
	nInvalid := rng.IntN(3)
	for i := 0; i < nValid; i++ {
		d := int64(rng.IntN(2*out.Skew+1)) - int64(out.Skew)
		out.Tokens = append(out.Tokens, refMint(secret, "k1", fmt.Sprint(now.Unix()+d), randString(rng, b64urlAlphabet, 22), out.Origin))
	}
	for i := 0; i < nInvalid; i++ {
		var t string
		switch rng.IntN(3) {
		case 0: // other worker
			t = refMint(secret, "k1", fmt.Sprint(now.Unix()), randString(rng, b64urlAlphabet, 22), out.Origin+"-sibling")
		case 1: // outside the window
			t = refMint(secret, "k1", fmt.Sprint(now.Unix()+int64(out.Skew)+1), randString(rng, b64urlAlphabet, 22), out.Origin)
		default: // other secret
			t = refMint(randBytes(rng, 32), "k1", fmt.Sprint(now.Unix()), randString(rng, b64urlAlphabet, 22), out.Origin)
		}
		out.Tokens = append(out.Tokens, t)
	}
	for _, t := range out.Tokens {
		res := refVerify(t, out.Origin, secrets, int64(out.Skew), now.Unix(), false)
		out.Acceptable = append(out.Acceptable, res.verdict == mayPass)
	}
	gate, err := vgirpc.ProofAuthenticate(vgirpc.ProofConfig{
		Mode: vgirpc.ProofModeRequire, OriginID: out.Origin,
		Secrets:     map[string]vgirpc.ProofSecret{"k1": {Secret: secret, Label: "k1"}},
		SkewSeconds: out.Skew, ReplayCapacity: out.Capacity, Now: func() time.Time { return now },
	}, nil)
	if err != nil {
		panic(err)
	}
	out.Clients = 2 + rng.IntN(15)
	total := out.Clients + rng.IntN(41-out.Clients) // <= 40 ops, at least one per client
	plan := make([][]int, out.Clients)
	contested := rng.IntN(nValid)
	for i := 0; i < total; i++ {
		c := i % out.Clients
		p := rng.IntN(len(out.Tokens))
		if i < out.Clients && rng.IntN(3) != 0 {
			p = contested // first round: most clients race on the same proof
		}
		plan[c] = append(plan[c], p)
	}
	log := mon.NewLog()
	results := make([][]concOp, out.Clients)
	start := make(chan struct{})
	var wg sync.WaitGroup
	for c := 0; c < out.Clients; c++ {
		wg.Add(1)
		go func(c int) {
			defer wg.Done()
			reqs := make([]*http.Request, len(plan[c]))
			for i, p := range plan[c] {
				reqs[i] = &http.Request{Method: http.MethodPost, URL: &url.URL{Path: "/x"}, Header: http.Header{}}
				reqs[i].Header.Set(vgirpc.ProofHeader, out.Tokens[p])
			}
			<-start
			for i, p := range plan[c] {
				call := log.Now()
				_, err := gate(reqs[i])
				ret := log.Now()
				results[c] = append(results[c], concOp{Client: c, Proof: p, Call: call, Ret: ret, Passed: err == nil})
			}
		}(c)
	}
	close(start)
	wg.Wait()
	for _, rs := range results {
		out.Ops = append(out.Ops, rs...)
	}
	b, _ := json.Marshal(out)
	return b
}

type pin struct {
	id         int
	acceptable bool
}

func concModel(effCap int) porcupine.Model {
	return porcupine.Model{
		Init: func() interface{} { return "" },
		Step: func(state, input, output interface{}) (bool, interface{}) {
			st, in, passed := state.(string), input.(pin), output.(bool)
			if !in.acceptable {
				return !passed, st
			}
			if !passed {
				return true, st
			}
			ch := string(rune('a' + in.id))
			if strings.Contains(st, ch) {
				return false, st
			}
			ns := st + ch
			if len(ns) > effCap {
				ns = ns[len(ns)-effCap:]
			}
			return true, ns
		},
		Equal: func(a, b interface{}) bool { return a.(string) == b.(string) },
		DescribeOperation: func(input, output interface{}) string {
			return fmt.Sprintf("present(p%d acceptable=%v) -> passed=%v", input.(pin).id, input.(pin).acceptable, output.(bool))
		},
	}
}

func runConcurrent(r *mon.Run, histories int) {
	inputs := make([][]byte, histories)
	for i := range inputs {
		inputs[i], _ = json.Marshal(concIn{Seed: r.Seed(), Idx: i})
	}
	const batch = 100
	type part struct {
		base int
		outs []mon.Outcome
		err  error
	}
	nparts := (histories + batch - 1) / batch
	parts := make([]part, nparts)
	var wg sync.WaitGroup
	sem := make(chan struct{}, 8)
	for p := 0; p < nparts; p++ {
		wg.Add(1)
		sem <- struct{}{}
		go func(p int) {
			defer wg.Done()
			defer func() { <-sem }()
			lo, hi := p*batch, min((p+1)*batch, histories)
			outs, err := mon.RunIsolated("conc", inputs[lo:hi], mon.ChildOpt{Timeout: 90 * time.Second})
			parts[p] = part{base: lo, outs: outs, err: err}
		}(p)
	}
	wg.Wait()

	var ok, illegal, unknown int64
	for _, pt := range parts {
		if pt.err != nil {
			r.Fatal("concurrent arm: child batch at %d failed: %v", pt.base, pt.err)
		}
		for _, o := range pt.outs {
			idx := pt.base + o.Index
			switch {
			case o.TimedOut:
				r.Inconclusive(fmt.Sprintf("concurrent history %d: child watchdog fired", idx))
				continue
			case o.Crashed:
				r.Violation("concurrent:process-died-during-concurrent-presentations",
					"the process died while proofs were presented concurrently to one gate: "+firstLine(o.Detail),
					map[string]any{"history": idx, "seed": r.Seed(), "stderr": o.Detail})
				continue
			case o.Panicked:
				r.Violation("concurrent:panic-during-concurrent-presentations", firstLine(o.Detail),
					map[string]any{"history": idx, "seed": r.Seed(), "panic": o.Detail})
				continue
			}
			var h concOut
			if err := json.Unmarshal(o.Output, &h); err != nil {
				r.Fatal("concurrent history %d: bad child output: %v", idx, err)
			}
			ops := make([]porcupine.Operation, len(h.Ops))
			for i, op := range h.Ops {
				ops[i] = porcupine.Operation{ClientId: op.Client, Input: pin{id: op.Proof, acceptable: h.Acceptable[op.Proof]},
					Call: op.Call, Output: op.Passed, Return: op.Ret}
			}
			res, _ := porcupine.CheckOperationsVerbose(concModel(h.EffCap), ops, 20*time.Second)
			r.Case("conc|" + interleaving(h.Ops))
			accepts := map[int]int{}
			overlap := false
			for i, a := range h.Ops {
				if a.Passed {
					accepts[a.Proof]++
				}
				for _, b := range h.Ops[i+1:] {
					if a.Proof == b.Proof && h.Acceptable[a.Proof] && a.Call <= b.Ret && b.Call <= a.Ret {
						overlap = true
					}
				}
			}
			if overlap {
				r.Class("concurrent:same-proof-presented-concurrently")
			}
			if h.Capacity != 0 {
				r.Class("concurrent:small-capacity")
			}
			r.Count("concurrent.operations", int64(len(h.Ops)))
			switch res {
			case porcupine.Ok:
				ok++
				r.Class("concurrent:porcupine-ok")
			case porcupine.Unknown:
				unknown++
				r.Inconclusive(fmt.Sprintf("concurrent history %d: porcupine timed out", idx))
			case porcupine.Illegal:
				illegal++
				sig := "concurrent:history-not-linearizable"
				what := "no sequential order of the concurrent presentations explains the observed gate decisions"
				for p, n := range accepts {
					if !h.Acceptable[p] {
						sig, what = "concurrent:unacceptable-proof-passed", fmt.Sprintf("proof p%d is refused by the reference verifier but passed the gate", p)
					} else if n > 1 && h.Capacity == 0 {
						sig, what = "concurrent:same-proof-accepted-more-than-once", fmt.Sprintf("proof p%d passed the gate %d times in one history (clock frozen, default capacity)", p, n)
					}
				}
				r.Violation(sig, what, map[string]any{"history": idx, "seed": r.Seed(), "config": h})
			}
			if idx%1500 == 7 {
				r.Sample(map[string]any{"concurrent_history": idx, "clients": h.Clients, "ops": len(h.Ops), "capacity": h.Capacity, "porcupine": string(res)})
			}
		}
	}
	r.Set("porcupine", map[string]int64{"ok": ok, "illegal": illegal, "unknown": unknown})
	scanRaceLogs(r)
}

func firstLine(s string) string {
	for _, l := range strings.Split(s, "\n") {
		if strings.Contains(l, "fatal error") || strings.HasPrefix(l, "panic:") {
			return strings.TrimSpace(l)
		}
	}
	if i := strings.IndexByte(s, '\n'); i > 0 {
		return s[:i]
	}
	return s
}

// interleaving is the order of call/return events with proof ids and outcomes.
func interleaving(ops []concOp) string {
	type ev struct {
		t   int64
		tag string
	}
	var evs []ev
	for _, o := range ops {
		evs = append(evs, ev{o.Call, fmt.Sprintf("c%d", o.Proof)}, ev{o.Ret, fmt.Sprintf("r%d%v", o.Proof, o.Passed)})
	}
	sort.SliceStable(evs, func(i, j int) bool { return evs[i].t < evs[j].t })
	var sb strings.Builder
	for _, e := range evs {
		sb.WriteString(e.tag)
		sb.WriteByte(';')
	}
	return mon.Hash(sb.String())
}

// scanRaceLogs counts Go race-detector reports written by this process and
// its children (GORACE log_path is set by the check driver).
func scanRaceLogs(r *mon.Run) {
	prefix := os.Getenv("VERIF_RACE_LOG")
	if prefix == "" {
		r.Set("race_reports", "not collected (VERIF_RACE_LOG unset)")
		return
	}
	files, _ := filepath.Glob(prefix + ".*")
	total, inLib := 0, 0
	var sample string
	for _, f := range files {
		data, err := os.ReadFile(f)
		if err != nil {
			continue
		}
		for _, rep := range strings.Split(string(data), "==================") {
			if !strings.Contains(rep, "DATA RACE") {
				continue
			}
			total++
			if strings.Contains(rep, "/vgirpc/proof.go") {
				inLib++
				if sample == "" {
					sample = rep
				}
			}
		}
	}
	r.Set("race_reports", map[string]int{"total": total, "in_vgirpc_proof_go": inLib})
	if inLib > 0 {
		r.Violation("concurrent:data-race-in-proof.go", "the Go race detector reported a data race inside vgirpc/proof.go during concurrent presentations",
			map[string]any{"reports": inLib, "first_report": sample})
	} else if total > 0 {
		r.Inconclusive(fmt.Sprintf("%d race report(s) outside vgirpc/proof.go (harness code?) — see %s.*", total, prefix))
	}
}
