// C22 — every RPC and control route is behind the authenticator.
//
// Event-log monitor. Every user-provided callback that does work for a request
// (handlers, stream states, UploadURLProvider, TokenResolver, rehydrate,
// dispatch hook, external storage upload/fetch, session Close) logs to wf.Log
// under actor "svc". For each configuration the check
//
//  1. HARVESTS well-formed requests in accept mode through the library's own
//     HttpClient (so continuation/session tokens are real) and records that each
//     of them causes svc work when authenticated;
//  2. switches the authenticator to every rejection mode and REPLAYS the
//     harvested requests plus an enumeration of routes x methods;
//  3. demands: a request to a non-exempt route causes zero svc events, is not
//     answered 2xx, and a clean POST to an RPC/control route is answered with the
//     status the rejection mode calls for (401 / 503 / 500).
//
// The exempt set is written here from the property statement, not read from the
// server's route table.
package main

import (
	"context"
	"errors"
	"fmt"
	"io"
	"log/slog"
	"math/rand/v2"
	"net/http"
	"sort"
	"strings"
	"time"

	"github.com/Query-farm/vgi-rpc-go/vgirpc"

	"verif/harness/internal/mon"
	"verif/harness/internal/wf"
)

type config struct {
	Prefix     string `json:"prefix"`
	Upload     bool   `json:"upload_provider"`
	Introspect bool   `json:"introspection"`
	Sticky     bool   `json:"sticky"`
	Pkce       bool   `json:"pkce"`
	OAuth      bool   `json:"oauth_metadata"`
	ProofGate  bool   `json:"proof_gate"`
	Hook       bool   `json:"dispatch_hook"`
	External   bool   `json:"external_storage"`
	Rehydrate  bool   `json:"rehydrate"`
	Custom     bool   `json:"custom_routes"`
}

// ---- rejection modes ----------------------------------------------------------

type mode struct {
	Name   string
	Status int
	Make   func(c config) vgirpc.AuthenticateFunc
	// (ctx, err) rejections: the authenticator hands back WHO it identified
	// together with the error ("identified, but revoked"). Twin is the index of
	// the mode returning (nil, same err); Via says how the pair reaches the
	// server; Extra headers are added so the library wrapper gets that far.
	WithCtx bool
	Via     string
	Twin    int
	Extra   http.Header
}

// curIdent is the identity a (ctx, err) rejection returns alongside its
// error: the principal the replayed request's tokens were sealed for.
var curIdent *vgirpc.AuthContext

type wrapErr struct{ inner error }

func (w *wrapErr) Error() string { return "wrapped: " + w.inner.Error() }
func (w *wrapErr) Unwrap() error { return w.inner }

func logged(name string, f vgirpc.AuthenticateFunc) vgirpc.AuthenticateFunc {
	return func(r *http.Request) (*vgirpc.AuthContext, error) {
		wf.Log.Add("auth", "call", name, nil)
		return f(r)
	}
}

func failing(err error) func(config) vgirpc.AuthenticateFunc {
	return func(config) vgirpc.AuthenticateFunc {
		return func(*http.Request) (*vgirpc.AuthContext, error) { return nil, err }
	}
}

func modes() []mode {
	ms := []mode{
		{Name: "rpc-value", Status: 401, Make: failing(&vgirpc.RpcError{Type: "ValueError", Message: "no"})},
		{Name: "rpc-permission", Status: 401, Make: failing(&vgirpc.RpcError{Type: "PermissionError", Message: "no"})},
		{Name: "authfailure-wrapped-fmt", Status: 401, Make: failing(fmt.Errorf("ctx: %w", vgirpc.NewAuthFailure(vgirpc.AuthReasonExpiredCredential, "old")))},
		{Name: "authfailure-wrapped-custom", Status: 401, Make: failing(&wrapErr{&wrapErr{vgirpc.NewAuthFailure(vgirpc.AuthReasonInvalidCredential, "")}})},
		{Name: "unavailable", Status: 503, Make: failing(vgirpc.NewAuthUnavailable("idp down"))},
		{Name: "unavailable-wrapped", Status: 503, Make: failing(fmt.Errorf("ctx: %w", &vgirpc.AuthUnavailableError{Detail: "x", RetryAfter: 9}))},
		{Name: "unavailable-joined", Status: 503, Make: failing(errors.Join(errors.New("a"), vgirpc.NewAuthUnavailable("b")))},
		{Name: "plain-error", Status: 500, Make: failing(errors.New("db exploded"))},
		{Name: "rpc-runtime", Status: 500, Make: failing(&vgirpc.RpcError{Type: "RuntimeError", Message: "x"})},
		{Name: "rpc-value-wrapped", Status: 500, Make: failing(fmt.Errorf("ctx: %w", &vgirpc.RpcError{Type: "ValueError", Message: "x"}))},
		{Name: "bearer-static", Status: 401, Make: func(config) vgirpc.AuthenticateFunc {
			return vgirpc.BearerAuthenticateStatic(map[string]*vgirpc.AuthContext{"s3cret": {Domain: "bearer", Authenticated: true, Principal: "proxy"}})
		}},
		{Name: "xfcc", Status: 401, Make: func(config) vgirpc.AuthenticateFunc {
			f, _ := vgirpc.MtlsAuthenticateXfcc(vgirpc.MtlsAuthenticateXfccConfig{})
			return f
		}},
		{Name: "chain-bearer-xfcc", Status: 401, Make: func(config) vgirpc.AuthenticateFunc {
			f, _ := vgirpc.MtlsAuthenticateXfcc(vgirpc.MtlsAuthenticateXfccConfig{})
			return vgirpc.ChainAuthenticate(vgirpc.BearerAuthenticateStatic(map[string]*vgirpc.AuthContext{"s3cret": {Authenticated: true, Principal: "proxy"}}), f)
		}},
		{Name: "proof-gate-require", Status: 401, Make: func(config) vgirpc.AuthenticateFunc {
			f, err := vgirpc.ProofAuthenticate(vgirpc.ProofConfig{Mode: vgirpc.ProofModeRequire, OriginID: "worker-1", SkewSeconds: 30,
				Secrets: map[string]vgirpc.ProofSecret{"k1": {Secret: []byte("0123456789abcdef0123456789abcdef"), Label: "p"}}},
				func(*http.Request) (*vgirpc.AuthContext, error) {
					return &vgirpc.AuthContext{Authenticated: true, Principal: "proxy"}, nil // inner would accept
				})
			if err != nil {
				panic(err)
			}
			return f
		}},
	}
	type kind struct {
		name   string
		status int
		err    error
	}
	kinds := []kind{
		{"rpc-value", 401, &vgirpc.RpcError{Type: "ValueError", Message: "no"}},
		{"rpc-permission", 401, &vgirpc.RpcError{Type: "PermissionError", Message: "no"}},
		{"authfailure-wrapped-fmt", 401, fmt.Errorf("ctx: %w", vgirpc.NewAuthFailure(vgirpc.AuthReasonExpiredCredential, "old"))},
		{"unavailable", 503, vgirpc.NewAuthUnavailable("idp down")},
		{"unavailable-wrapped", 503, fmt.Errorf("ctx: %w", &vgirpc.AuthUnavailableError{Detail: "x", RetryAfter: 9})},
		{"plain-error", 500, errors.New("db exploded")},
		{"rpc-runtime", 500, &vgirpc.RpcError{Type: "RuntimeError", Message: "x"}},
	}
	for _, reason := range []vgirpc.AuthReason{vgirpc.AuthReasonMissingCredential, vgirpc.AuthReasonInvalidCredential, vgirpc.AuthReasonExpiredCredential,
		vgirpc.AuthReasonInsufficientScope, vgirpc.AuthReasonProxyRequired, vgirpc.AuthReasonUnauthorized, ""} {
		name := string(reason)
		if name == "" {
			name = "empty"
		}
		ms = append(ms, mode{Name: "authfailure-" + name, Status: 401, Make: failing(vgirpc.NewAuthFailure(reason, "d"))})
		kinds = append(kinds, kind{"authfailure-" + name, 401, vgirpc.NewAuthFailure(reason, "d")})
	}
	// (ctx, err) rejections for every kind, three ways:
	//   direct            the AuthenticateFunc itself returns (ident, err)
	//   bearer-validate   BearerAuthenticate(validate) with validate returning (ident, err)
	//   cookie            CookieAuthenticate(BearerAuthenticate(validate), "_vgi_auth")
	twinOf := func(name string) int {
		for i, m := range ms {
			if m.Name == name {
				return i
			}
		}
		panic("no nil-ctx twin for " + name)
	}
	for _, k := range kinds {
		k := k
		validate := func(string) (*vgirpc.AuthContext, error) { return curIdent, k.err }
		tw := twinOf(k.name)
		ms = append(ms,
			mode{Name: k.name + "+ctx", Status: k.status, WithCtx: true, Via: "direct", Twin: tw,
				Make: func(config) vgirpc.AuthenticateFunc {
					return func(*http.Request) (*vgirpc.AuthContext, error) { return curIdent, k.err }
				}},
			mode{Name: k.name + "+ctx-via-bearer", Status: k.status, WithCtx: true, Via: "bearer-validate", Twin: tw,
				Extra: http.Header{"Authorization": {"Bearer live-but-revoked"}},
				Make:  func(config) vgirpc.AuthenticateFunc { return vgirpc.BearerAuthenticate(validate) }},
			mode{Name: k.name + "+ctx-via-cookie", Status: k.status, WithCtx: true, Via: "cookie", Twin: tw,
				Extra: http.Header{"Cookie": {"_vgi_auth=live-but-revoked"}},
				Make: func(config) vgirpc.AuthenticateFunc {
					return vgirpc.CookieAuthenticate(vgirpc.BearerAuthenticate(validate), "_vgi_auth")
				}})
	}
	return ms
}

// ---- server under test ---------------------------------------------------------

type sut struct {
	cfg     config
	h       *vgirpc.HttpServer
	current vgirpc.AuthenticateFunc
}

func build(c config) *sut {
	s := wf.NewService()
	if c.Hook {
		s.SetDispatchHook(wf.Hook{})
	}
	if c.External {
		s.SetExternalLocation(&vgirpc.ExternalLocationConfig{
			Storage: wf.Storage{}, HTTPClient: &http.Client{Transport: wf.FetchTransport{}},
			URLValidator: func(string) error { return nil }, MaxRetries: 1, RetryDelay: time.Microsecond,
		})
	}
	h := vgirpc.NewHttpServer(s)
	u := &sut{cfg: c, h: h}
	// Route-table rebuilding setters first; EnableSticky/Handle register on the live mux.
	h.SetPrefix(c.Prefix)
	if c.Upload {
		h.SetUploadURLProvider(&wf.Provider{})
	}
	h.SetProducerBatchLimit(1)
	h.SetAuthenticate(func(r *http.Request) (*vgirpc.AuthContext, error) { return u.current(r) })
	if c.OAuth || c.Pkce {
		if err := h.SetOAuthResourceMetadata(&vgirpc.OAuthResourceMetadata{
			Resource: "https://api.example.com" + c.Prefix, AuthorizationServers: []string{"http://127.0.0.1:9"}, ClientID: "cid",
		}); err != nil {
			panic(err)
		}
	}
	if c.Pkce {
		if err := h.SetOAuthPkce(vgirpc.OAuthPkceConfig{}); err != nil {
			panic(err)
		}
	}
	if c.Introspect {
		if err := h.EnableTokenIntrospection(vgirpc.TokenIntrospectionConfig{Resolver: wf.Resolver, Principals: []string{"proxy"}, RateLimitPerSecond: 1 << 30}); err != nil {
			panic(err)
		}
	}
	if c.ProofGate {
		h.SetProxyProofRequired(true)
	}
	if c.Sticky {
		h.EnableSticky(0)
	}
	if c.Rehydrate {
		h.SetRehydrateFunc(wf.Rehydrate)
	}
	if c.Custom {
		h.Handle("POST "+c.Prefix+"/_custom", func(w http.ResponseWriter, _ *http.Request) {
			wf.Log.Add("operator", "custom", "", nil)
			w.WriteHeader(200)
		})
		h.Handle("GET /ops/status", func(w http.ResponseWriter, _ *http.Request) {
			wf.Log.Add("operator", "custom", "", nil)
			w.WriteHeader(200)
		})
	}
	return u
}

func (u *sut) close() {
	if d := u.h.DrainHandle(); d != nil {
		d.Shutdown()
	}
}

// ---- exempt set, from the statement ----------------------------------------------

func exemptWhy(c config, method, target string) string {
	p := target
	if i := strings.IndexByte(p, '?'); i >= 0 {
		p = p[:i]
	}
	P := c.Prefix
	get := method == "GET" || method == "HEAD"
	switch {
	case method == "OPTIONS":
		return "preflight"
	case get && (p == "/health" || p == P+"/health"):
		return "health"
	case get && p == "/.well-known/oauth-protected-resource"+P:
		return "oauth-metadata"
	case strings.HasPrefix(p, P+"/_oauth/"):
		return "login"
	case get && (p == P || (P == "" && p == "/") || p == P+"/describe"):
		return "pages"
	case c.Custom && ((method == "POST" && p == P+"/_custom") || (get && p == "/ops/status")):
		return "custom"
	case method == "DELETE" && p == P+"/__session__":
		return "session-delete"
	}
	return ""
}

// cleanRPC reports whether (method, target) is a plain POST to
// {prefix}/{name}[/init|/exchange] with a single-segment, unescaped name — the
// requests for which the exact rejection status is demanded.
func cleanRPC(c config, method, target string) (name, tail string, ok bool) {
	if method != "POST" || strings.ContainsAny(target, "?%") || !strings.HasPrefix(target, c.Prefix+"/") {
		return
	}
	rest := target[len(c.Prefix)+1:]
	segs := strings.Split(rest, "/")
	for _, s := range segs {
		if s == "" || s == "." || s == ".." {
			return
		}
	}
	switch {
	case len(segs) == 1:
		return segs[0], "", true
	case len(segs) == 2 && (segs[1] == "init" || segs[1] == "exchange"):
		return segs[0], "/" + segs[1], true
	}
	return
}

// routeShape is the seed-independent shape of a route for status signatures:
// registered method names become {method}, generated/unregistered ones
// {unknown}; reserved names stay.
func routeShape(c config, method, target string) string {
	t := template(c, method, target)
	segs := strings.Split(t, "/")
	for i, s := range segs {
		switch s {
		case "echo", "whoami", "count", "sum", "boom", "opensess", "closesess":
			segs[i] = "{method}"
		case "nope":
			segs[i] = "{unknown}"
		default:
			if len(s) > 1 && s[0] == 'm' && strings.Trim(s[1:], "0123456789") == "" {
				segs[i] = "{unknown}"
			}
		}
	}
	return strings.Join(segs, "/")
}

func template(c config, method, target string) string {
	t := target
	if i := strings.IndexByte(t, '?'); i >= 0 {
		t = t[:i] // the query never takes part in routing
	}
	if c.Prefix != "" && strings.HasPrefix(t, c.Prefix) {
		t = "{prefix}" + t[len(c.Prefix):]
	} else if c.Prefix != "" {
		t = "{outside}" + t
	} else {
		t = "{prefix}" + t
	}
	return method + " " + t
}

// ---- harvest ------------------------------------------------------------------------

type harvested struct {
	Label string
	Ex    *wf.Exchange
	Work  bool // caused svc events (or, for describe, a 2xx with method data) in accept mode
}

func uploadBody() []byte {
	b := wf.I64Batch("count", 2)
	defer b.Release()
	return wf.RequestBody(vgirpc.UploadURLMethod, b, nil)
}

func pointerBody(method string) []byte {
	pb, md := vgirpc.MakeExternalLocationBatch(wf.I64Schema("x"), "https://store.example/obj")
	defer pb.Release()
	extra := map[string]string{}
	for i, k := range md.Keys() {
		extra[k] = md.Values()[i]
	}
	return wf.RequestBody(method, pb, extra)
}

func (u *sut) harvest(r *mon.Run, ident *vgirpc.AuthContext, tag string) []harvested {
	c := u.cfg
	u.current = logged("accept", func(*http.Request) (*vgirpc.AuthContext, error) { return ident, nil })
	rt := &wf.Recorder{H: u.h}
	cl, err := vgirpc.NewHttpClient("http://wf.test", vgirpc.WithClientHTTPClient(&http.Client{Transport: rt}), vgirpc.WithClientPrefix(c.Prefix))
	if err != nil {
		r.Fatal("client: %v", err)
	}
	ctx := context.Background()
	var out []harvested
	take := func(label string) {
		for _, ex := range rt.Captured {
			out = append(out, harvested{Label: tag + ":" + label, Ex: ex, Work: len(ex.SvcKinds) > 0})
		}
		rt.Captured = nil
	}
	x := wf.I64Batch("x", 7)
	defer x.Release()
	if b, err := cl.CallUnary(ctx, "echo", x, nil); err != nil {
		r.Fatal("harvest echo: %v", err)
	} else {
		b.Release()
	}
	take("unary")
	if b, err := cl.CallUnary(ctx, "whoami", x, nil); err == nil {
		b.Release()
	}
	take("unary")

	n := wf.I64Batch("n", 3)
	defer n.Release()
	ps, err := cl.OpenProducer(ctx, "count", n, vgirpc.ClientStreamSchema{Output: wf.CountOut})
	if err != nil {
		r.Fatal("harvest producer: %v", err)
	}
	take("stream-init")
	for i := 0; i < 2; i++ {
		if b, ok, err := ps.Next(ctx); err != nil {
			r.Fatal("harvest producer next: %v", err)
		} else if ok && b != nil {
			b.Release()
		}
	}
	take("producer-continuation")
	_ = ps.Cancel(ctx)
	take("stream-cancel")
	ps.Close()

	ini := wf.I64Batch("initial", 1)
	defer ini.Release()
	es, err := cl.OpenExchange(ctx, "sum", ini, vgirpc.ClientStreamSchema{Input: wf.SumIn, Output: wf.SumOut})
	if err != nil {
		r.Fatal("harvest exchange: %v", err)
	}
	take("stream-init")
	v := wf.I64Batch("value", 5)
	defer v.Release()
	for i := 0; i < 2; i++ {
		if b, err := es.Exchange(ctx, v); err != nil {
			r.Fatal("harvest exchange turn: %v", err)
		} else {
			b.Release()
		}
	}
	take("exchange-continuation")
	_ = es.Cancel(ctx)
	take("stream-cancel")
	es.Close()

	// __describe__: no user callback, but a 2xx body with the method table.
	dh, db := bodyFor("__describe__")
	ex := wf.Do(u.h, "POST", c.Prefix+"/__describe__", dh, db)
	out = append(out, harvested{Label: tag + ":describe", Ex: ex, Work: ex.Status/100 == 2 && strings.Contains(string(ex.RBody), "whoami")})

	if c.Upload {
		ex := wf.Do(u.h, "POST", c.Prefix+"/__upload_url__/init", wf.ArrowHeader(), uploadBody())
		out = append(out, harvested{Label: tag + ":upload-url", Ex: ex, Work: len(ex.SvcKinds) > 0})
	}
	if c.Introspect && ident.Authenticated {
		ex := wf.Do(u.h, "POST", c.Prefix+vgirpc.IntrospectEndpoint, http.Header{"Content-Type": {"application/json"}}, []byte(`{"token":"opaque-good"}`))
		out = append(out, harvested{Label: tag + ":introspect", Ex: ex, Work: len(ex.SvcKinds) > 0})
	}
	if c.External {
		ex := wf.Do(u.h, "POST", c.Prefix+"/echo", wf.ArrowHeader(), pointerBody("echo"))
		out = append(out, harvested{Label: tag + ":external-pointer", Ex: ex, Work: len(ex.SvcKinds) > 0})
	}
	if c.Sticky {
		hd := wf.ArrowHeader()
		hd.Set("VGI-Session-Accept", "true")
		b := wf.I64Batch("x", 1)
		body := wf.RequestBody("opensess", b, nil)
		b.Release()
		ex := wf.Do(u.h, "POST", c.Prefix+"/opensess", hd, body)
		out = append(out, harvested{Label: tag + ":session-open", Ex: ex, Work: len(ex.SvcKinds) > 0})
		if tok := ex.RHeader.Get("VGI-Session"); tok != "" {
			hd2 := wf.ArrowHeader()
			hd2.Set("VGI-Session", tok)
			b := wf.I64Batch("x", 1)
			body := wf.RequestBody("echo", b, nil)
			b.Release()
			ex2 := wf.Do(u.h, "POST", c.Prefix+"/echo", hd2, body)
			out = append(out, harvested{Label: tag + ":session-resume", Ex: ex2, Work: len(ex2.SvcKinds) > 0})
			b = wf.I64Batch("x", 1)
			body = wf.RequestBody("closesess", b, nil)
			b.Release()
			// Harvest the close request WITHOUT running it (it would end the
			// session): the echo-resume above already proves the token is live.
			out = append(out, harvested{Label: tag + ":session-close", Ex: &wf.Exchange{Method: "POST", Path: c.Prefix + "/closesess", Header: hd2, Body: body}, Work: true})
		} else {
			r.Fatal("sticky enabled but opensess returned no VGI-Session (status %d, %s)", ex.Status, ex.RBody)
		}
	}
	cl.Close()
	return out
}

// ---- route enumeration ----------------------------------------------------------------

type probe struct {
	Method, Target string
	Header         http.Header
	Body           []byte
}

func bodyFor(name string) (http.Header, []byte) {
	switch name {
	case "count":
		b := wf.I64Batch("n", 2)
		defer b.Release()
		return wf.ArrowHeader(), wf.RequestBody("count", b, nil)
	case "sum":
		b := wf.I64Batch("initial", 2)
		defer b.Release()
		return wf.ArrowHeader(), wf.RequestBody("sum", b, nil)
	case "__upload_url__":
		return wf.ArrowHeader(), uploadBody()
	case "__introspect_token__":
		return http.Header{"Content-Type": {"application/json"}}, []byte(`{"token":"opaque-good"}`)
	}
	b := wf.I64Batch("x", 3)
	defer b.Release()
	return wf.ArrowHeader(), wf.RequestBody(name, b, nil)
}

func enumerate(c config, rng *rand.Rand) []probe {
	P := c.Prefix
	names := []string{"echo", "whoami", "count", "sum", "boom", "opensess", "nope", "__describe__", "__upload_url__",
		"__introspect_token__", "__session__", "health", "describe", "_oauth", "_custom", "init", "exchange"}
	for i := 0; i < 3; i++ {
		names = append(names, "m"+fmt.Sprint(rng.IntN(1000)))
	}
	type pt struct{ target, name string }
	var pts []pt
	for _, n := range names {
		for _, tail := range []string{"", "/init", "/exchange", "/", "/init/", "/other", "/init/x"} {
			pts = append(pts, pt{P + "/" + n + tail, n})
		}
	}
	for _, t := range []string{"/", P, P + "/", "/health", "/health/x", P + "/health", "/.well-known/oauth-protected-resource" + P,
		"/.well-known/oauth-protected-resource" + P + "/x", P + "/_oauth/callback", P + "/_oauth/logout", P + "/_oauth/token",
		"/ops/status", P + "/ECHO", P + "/__UPLOAD_URL__/init", P + "/__upload_url__/INIT", P + "/ec%68o", P + "/__upload_url__%2Finit",
		P + "//echo", P + "/./echo", P + "/x/../echo", P + "/x/../__upload_url__/init", P + "/echo?x=1", P + "/__upload_url__/init?count=5",
		P + "/%C3%A9", P + "/a%20b", P + "/echo%00", P + "/%2e%2e/echo", P + "/echo%2Finit", P + "/count%2fexchange", P + "/echo;x=1", P + "/é/init",
		P + "/__introspect_token__?token=opaque-good", P + "/count/exchange?x", "/vgi/echo", "/a/b/echo", "/a/echo"} {
		if t == "" {
			continue
		}
		n := "echo"
		switch {
		case strings.Contains(strings.ToLower(t), "upload_url"):
			n = "__upload_url__"
		case strings.Contains(t, "introspect"):
			n = "__introspect_token__"
		case strings.Contains(t, "count"):
			n = "count"
		}
		pts = append(pts, pt{t, n})
	}
	if P != "" { // the same names OUTSIDE the prefix
		for _, n := range []string{"echo", "count", "__upload_url__", "__introspect_token__", "__describe__"} {
			for _, tail := range []string{"", "/init", "/exchange"} {
				pts = append(pts, pt{"/" + n + tail, n})
			}
		}
	}
	var out []probe
	for _, p := range pts {
		for _, m := range []string{"GET", "POST", "OPTIONS", "DELETE", "HEAD", "PUT", "PATCH"} {
			pr := probe{Method: m, Target: p.target, Header: http.Header{}}
			if m == "POST" || m == "PUT" || m == "PATCH" || m == "DELETE" {
				pr.Header, pr.Body = bodyFor(p.name)
			}
			switch rng.IntN(6) {
			case 0:
				pr.Header.Set("Authorization", "Bearer wrong")
			case 1:
				pr.Header.Set("Cookie", "_vgi_auth=zzz")
			case 2:
				pr.Header.Set("VGI-Session-Accept", "true")
			case 3:
				pr.Header.Set("Accept", "text/html")
			}
			out = append(out, pr)
		}
	}
	return out
}

// ---- the check ---------------------------------------------------------------------------

func sortedUnique(k []string) string {
	m := map[string]bool{}
	for _, s := range k {
		if i := strings.IndexByte(s, ':'); i >= 0 {
			s = s[:i]
		}
		m[s] = true
	}
	var l []string
	for s := range m {
		l = append(l, s)
	}
	sort.Strings(l)
	return strings.Join(l, "+")
}

func (u *sut) judge(r *mon.Run, md mode, label string, ex *wf.Exchange) {
	c := u.cfg
	why := exemptWhy(c, ex.Method, ex.Path)
	tpl := template(c, ex.Method, ex.Path)
	witness := map[string]any{"config": c, "rejection_mode": md.Name, "request": ex, "label": label, "response_body": string(trunc(ex.RBody, 400))}
	r.Count("requests", 1)
	r.Count("auth_invocations", int64(ex.AuthCalls))
	if why != "" {
		r.Case("")
		r.Count("exempt."+why, 1)
		if ex.Status/100 == 2 || ex.Status/100 == 3 {
			r.Class("exempt-reachable:" + why)
		}
		return
	}
	r.Case(tpl + "|" + md.Name)
	r.Count("nonexempt", 1)
	if len(ex.SvcKinds) > 0 {
		r.Violation("unauth-work:"+tpl+":"+sortedUnique(ex.SvcKinds),
			fmt.Sprintf("authenticator rejects (%s) yet %s caused user work %v (status %d)", md.Name, tpl, ex.SvcKinds, ex.Status), witness)
		return
	}
	if ex.Status/100 == 2 {
		r.Violation("unauth-2xx:"+tpl,
			fmt.Sprintf("authenticator rejects (%s) yet %s answered %d", md.Name, tpl, ex.Status), witness)
		return
	}
	if name, tail, ok := cleanRPC(c, ex.Method, ex.Path); ok {
		want := []int{md.Status}
		// Routes that answer "not here" before they have anything to protect.
		if name == "__upload_url__" && tail == "/init" && !c.Upload {
			want = append(want, 404)
		}
		if name == "__introspect_token__" && tail == "" && !c.Introspect {
			want = append(want, 404)
		}
		okStatus := false
		for _, w := range want {
			if ex.Status == w {
				okStatus = true
			}
		}
		r.Class(fmt.Sprintf("reject:%d", md.Status))
		if !okStatus {
			r.Violation(fmt.Sprintf("status:%s:want%d:got%d", routeShape(c, ex.Method, ex.Path), md.Status, ex.Status),
				fmt.Sprintf("rejection mode %s calls for %v on %s, got %d", md.Name, want, tpl, ex.Status), witness)
		}
		if ex.AuthCalls > 0 {
			r.Class("authenticator-consulted")
		}
	}
}

func trunc(b []byte, n int) []byte {
	if len(b) > n {
		return b[:n]
	}
	return b
}

func genConfig(i int, rng *rand.Rand) config {
	prefixes := []string{"", "/vgi", "/a/b"}
	c := config{Prefix: prefixes[i%3]}
	switch {
	case i < 3: // everything on
		c = config{Prefix: c.Prefix, Upload: true, Introspect: true, Sticky: true, Pkce: i == 1, OAuth: true, ProofGate: true, Hook: true, External: true, Rehydrate: true, Custom: true}
	case i < 6: // everything off
	default:
		b := func() bool { return rng.IntN(2) == 0 }
		c.Upload, c.Introspect, c.Sticky, c.OAuth, c.ProofGate, c.Hook, c.External, c.Rehydrate, c.Custom = b(), b(), b(), b(), b(), b(), b(), b(), b()
		c.Pkce = rng.IntN(4) == 0
	}
	return c
}

func main() {
	slog.SetDefault(slog.New(slog.NewTextHandler(io.Discard, nil)))
	r := mon.Start("C22")
	defer r.Finish()
	r.SetRule("configurations = prefix x feature subsets (first six: all-on / all-off per prefix, then random); per configuration: requests harvested in accept mode through the library's HttpClient (anonymous and authenticated identity) + route enumeration (names x tails x 7 methods, case/encoding/dot-segment/outside-prefix variants) replayed under every rejection mode — each error kind both as (nil, err) and as (ctx, err) with ctx = the identity the request's tokens were sealed for, returned directly, through BearerAuthenticate(validate) and through CookieAuthenticate; a (ctx, err) answer must equal the (nil, err) answer byte for byte; distinct = (method, route template, rejection mode)")
	r.Require("harvest-work:unary", "harvest-work:stream-init", "harvest-work:producer-continuation", "harvest-work:exchange-continuation",
		"harvest-work:stream-cancel", "harvest-work:describe", "harvest-work:upload-url", "harvest-work:introspect", "harvest-work:external-pointer",
		"harvest-work:session-open", "harvest-work:session-resume",
		"reject:401", "reject:503", "reject:500", "authenticator-consulted",
		"exempt-reachable:preflight", "exempt-reachable:health", "exempt-reachable:pages", "exempt-reachable:oauth-metadata",
		"exempt-reachable:custom", "exempt-reachable:session-delete", "exempt-reachable:login",
		"feature:pkce", "feature:hook", "feature:rehydrate", "prefix:", "prefix:/vgi", "prefix:/a/b",
		// rejections of the shape (non-nil ctx, err): without them the run says nothing about
		// a gate that trusts the returned context
		"ctx-reject:401", "ctx-reject:503", "ctx-reject:500", "ctx-reject:body-compared",
		"ctx-reject:via-direct", "ctx-reject:via-bearer-validate", "ctx-reject:via-cookie",
		"ctx-reject:ident-anonymous", "ctx-reject:ident-authenticated",
		"ctx-reject:prefix:", "ctx-reject:prefix:/vgi", "ctx-reject:prefix:/a/b",
		"ctx-reject-route:unary", "ctx-reject-route:describe", "ctx-reject-route:stream-init", "ctx-reject-route:producer-continuation",
		"ctx-reject-route:exchange-continuation", "ctx-reject-route:stream-cancel", "ctx-reject-route:upload-url", "ctx-reject-route:introspect",
		"ctx-reject-route:external-pointer", "ctx-reject-route:session-resume", "ctx-reject-route:session-open")
	r.Assume("svc events come from instrumented user callbacks only (handlers, states, UploadURLProvider, TokenResolver, RehydrateFunc, DispatchHook, ExternalStorage, external fetch transport, session Close); work the library does internally without calling user code is visible only through the status/body checks")
	r.Assume("requests are delivered in-process through HttpServer.ServeHTTP with net/http/httptest; PKCE login routes are exercised with an unreachable loopback authorization server")

	nCfg := r.N(40, 1000)
	ms := modes()
	for ci := 0; ci < nCfg; ci++ {
		rng := r.Rand(uint64(ci))
		c := genConfig(ci, rng)
		u := build(c)
		r.Class("prefix:" + c.Prefix)
		if c.Pkce {
			r.Class("feature:pkce")
		}
		if c.Hook {
			r.Class("feature:hook")
		}
		if c.Rehydrate {
			r.Class("feature:rehydrate")
		}
		var hv []harvested
		hv = append(hv, u.harvest(r, vgirpc.Anonymous(), "anon")...)
		hv = append(hv, u.harvest(r, &vgirpc.AuthContext{Domain: "t", Authenticated: true, Principal: "proxy"}, "proxy")...)
		for _, h := range hv {
			lab := h.Label[strings.IndexByte(h.Label, ':')+1:]
			if h.Work {
				r.Class("harvest-work:" + lab)
			} else if lab != "stream-cancel" && lab != "unary" {
				// every harvested request kind must do observable work when authenticated,
				// otherwise replaying it proves nothing
				r.Fatal("harvested %s request caused no svc work in accept mode (status %d): %s", h.Label, h.Ex.Status, trunc(h.Ex.RBody, 200))
			}
		}
		probes := enumerate(c, rng)
		if ci == 0 {
			r.Set("harvested_requests_per_config", len(hv))
			r.Set("enumerated_probes_per_config", len(probes))
			r.Set("rejection_modes", len(ms))
			r.Sample(map[string]any{"config": c, "harvested": func() []string {
				var l []string
				for _, h := range hv {
					l = append(l, fmt.Sprintf("%s %s %s -> %d %v", h.Label, h.Ex.Method, h.Ex.Path, h.Ex.Status, h.Ex.SvcKinds))
				}
				return l
			}()})
		}
		anon := vgirpc.Anonymous()
		proxy := &vgirpc.AuthContext{Domain: "t", Authenticated: true, Principal: "proxy"}
		identFor := func(label string) *vgirpc.AuthContext {
			if strings.HasPrefix(label, "anon:") {
				return anon
			}
			return proxy
		}
		for mi, md := range ms {
			auth := logged(md.Name, md.Make(c))
			var twinAuth vgirpc.AuthenticateFunc
			if md.WithCtx {
				twinAuth = logged(ms[md.Twin].Name, ms[md.Twin].Make(c))
			}
			// run sends one request under this mode; for a (ctx, err) mode it
			// first sends the same request under the (nil, err) twin and demands
			// the same answer byte for byte.
			run := func(label string, ex0 *wf.Exchange) {
				hdr := ex0.Header
				if len(md.Extra) > 0 {
					hdr = hdr.Clone()
					if hdr == nil {
						hdr = http.Header{}
					}
					for k, v := range md.Extra {
						hdr[k] = v
					}
				}
				var ref *wf.Exchange
				if md.WithCtx {
					curIdent = identFor(label)
					u.current = twinAuth
					ref = wf.Do(u.h, ex0.Method, ex0.Path, hdr, ex0.Body)
				}
				u.current = auth
				ex := wf.Do(u.h, ex0.Method, ex0.Path, hdr, ex0.Body)
				u.judge(r, md, label, ex)
				if !md.WithCtx || exemptWhy(c, ex.Method, ex.Path) != "" {
					return
				}
				r.Class("ctx-reject:body-compared")
				r.Class(fmt.Sprintf("ctx-reject:%d", md.Status))
				r.Class("ctx-reject:via-" + md.Via)
				r.Class("ctx-reject:prefix:" + c.Prefix)
				if curIdent == anon {
					r.Class("ctx-reject:ident-anonymous")
				} else {
					r.Class("ctx-reject:ident-authenticated")
				}
				if i := strings.IndexByte(label, ':'); i >= 0 {
					r.Class("ctx-reject-route:" + label[i+1:])
				}
				if len(ex.SvcKinds) == 0 && (ex.Status != ref.Status || string(ex.RBody) != string(ref.RBody)) {
					r.Violation(fmt.Sprintf("rejection-answer-depends-on-returned-ctx:%s:%d", routeShape(c, ex.Method, ex.Path), md.Status),
						fmt.Sprintf("%s: authenticator returned (ctx, err) [%s]; answer %d/%d bytes, the same error with a nil ctx gives %d/%d bytes — extra output after the rejection",
							template(c, ex.Method, ex.Path), md.Name, ex.Status, len(ex.RBody), ref.Status, len(ref.RBody)),
						map[string]any{"config": c, "rejection_mode": md.Name, "twin_mode": ms[md.Twin].Name, "request": ex, "label": label,
							"response_body": string(trunc(ex.RBody, 600)), "twin_response_body": string(trunc(ref.RBody, 600))})
				}
			}
			for _, h := range hv {
				run(h.Label, h.Ex)
			}
			// Full enumeration under a rotating subset of modes per configuration
			// (every mode meets every probe across configurations); the first
			// three configurations take every (nil, err) and every direct
			// (ctx, err) mode.
			if (ci < 3 && (!md.WithCtx || md.Via == "direct")) || mi%12 == ci%12 {
				for _, p := range probes {
					run("probe", &wf.Exchange{Method: p.Method, Path: p.Target, Header: p.Header, Body: p.Body})
				}
			}
		}
		// Exempt session teardown with a live anonymous session token, last.
		if c.Sticky {
			for _, h := range hv {
				if strings.HasSuffix(h.Label, ":session-resume") {
					hd := http.Header{"VGI-Session": {h.Ex.Header.Get("VGI-Session")}}
					ex := wf.Do(u.h, "DELETE", c.Prefix+"/__session__", hd, nil)
					u.judge(r, ms[0], "session-delete", ex)
					r.Count("session_delete.status."+fmt.Sprint(ex.Status), 1)
				}
			}
		}
		u.close()
		wf.Log.Reset()
	}
}
