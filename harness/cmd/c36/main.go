// C36 — shared-memory pipe sessions match plain pipe sessions and leak no slots.
//
// Differential oracle: the same generated call history is run twice over
// Server.Serve on an in-memory pipe pair — once with the client advertising a
// segment it owns (harness-made segment, harness allocator, documented layouts
// only; parameters / exchange inputs shipped as pointer batches, results and
// stream outputs received as pointer batches and resolved by the harness) and
// once without any shared memory. After resolving pointers the observations
// (schemas, batch kinds, canonical values, metadata, stream ends) must be
// equal call by call. After every call the client has released every pointer it
// received, and the allocation table (read through the client's own mapping =
// a second mapping from the server's point of view) must be empty.
//
// Negative arm: on a connection that never advertised a segment a pointer
// batch (as a unary request, as a stream-method request, as an exchange input)
// must be answered with an error, and the next call must be served exactly as
// in a fresh plain session.
package main

import (
	"encoding/json"
	"fmt"
	"math/rand/v2"
	"os"
	"runtime"
	"strings"
	"sync"
	"sync/atomic"

	"verif/harness/internal/mon"
	"verif/harness/internal/shmref"
)

var namePrefix = fmt.Sprintf("verif_wI_c36_%d_", os.Getpid())
var nameCtr atomic.Uint64

func newName() string { return fmt.Sprintf("/%s%d", namePrefix, nameCtr.Add(1)) }

const threshold = 256 // VGI_RPC_SHM_MIN_BATCH_BYTES set through check.conf

// reporter is the part of mon.Run the arms use; the child-process arm
// substitutes a collector whose content is replayed into the parent's Run.
type reporter interface {
	Violation(signature, what string, witness any) bool
	Class(name string)
	Case(sig string)
	Sample(v any)
	Fatal(format string, a ...any)
	Rand(stream ...uint64) *rand.Rand
}

type collected struct {
	Violations []struct {
		Sig, What string
		Witness   json.RawMessage
	}
	Classes []string
	Cases   []string
	Fatal   string
}

type collector struct {
	run *mon.Run // only for Rand (same derivation as the parent)
	c   collected
}

func (k *collector) Violation(sig, what string, w any) bool {
	data, _ := json.Marshal(w)
	k.c.Violations = append(k.c.Violations, struct {
		Sig, What string
		Witness   json.RawMessage
	}{sig, what, data})
	return false
}
func (k *collector) Class(n string)  { k.c.Classes = append(k.c.Classes, n) }
func (k *collector) Case(sig string) { k.c.Cases = append(k.c.Cases, sig) }
func (k *collector) Sample(any)      {}
func (k *collector) Fatal(f string, a ...any) {
	k.c.Fatal = fmt.Sprintf(f, a...)
	panic("harness fatal: " + k.c.Fatal)
}
func (k *collector) Rand(stream ...uint64) *rand.Rand { return k.run.Rand(stream...) }

// diffChild runs differential histories [from,to) in a child process whose
// environment carries a different VGI_RPC_SHM_MIN_BATCH_BYTES (read once).
func diffChild(in []byte) []byte {
	var rng struct{ From, To int }
	_ = json.Unmarshal(in, &rng)
	k := &collector{run: mon.Start("C36")}
	tot := &totals{}
	func() {
		defer func() {
			if rv := recover(); rv != nil && k.c.Fatal == "" {
				panic(rv)
			}
		}()
		for i := rng.From; i < rng.To; i++ {
			runDifferential(k, i, tot)
		}
	}()
	shmref.CleanupPrefix(namePrefix)
	out, _ := json.Marshal(k.c)
	return out
}

// runOtherThreshold replays children's findings into the parent's run.
func runOtherThreshold(r *mon.Run, thr string, from, to, parallel int) {
	var inputs [][]byte
	step := (to - from + parallel - 1) / parallel
	for a := from; a < to; a += step {
		b, _ := json.Marshal(struct{ From, To int }{a, min(a+step, to)})
		inputs = append(inputs, b)
	}
	var wg sync.WaitGroup
	outs := make([]mon.Outcome, len(inputs))
	for i := range inputs {
		wg.Add(1)
		go func(i int) {
			defer wg.Done()
			o, err := mon.RunIsolated("diff", inputs[i:i+1], mon.ChildOpt{Env: []string{"VGI_RPC_SHM_MIN_BATCH_BYTES=" + thr}})
			if err != nil {
				r.Fatal("child arm: %v", err)
			}
			outs[i] = o[0]
		}(i)
	}
	wg.Wait()
	for _, o := range outs {
		switch {
		case o.TimedOut:
			r.Inconclusive("child arm (threshold " + thr + ") hit the watchdog")
			continue
		case o.Crashed || o.Panicked:
			r.Violation("child-arm:threshold-"+thr+":process-died", "the session process died (fatal error / escaped panic) while serving shm histories", o.Detail)
			continue
		}
		var c collected
		if err := json.Unmarshal(o.Output, &c); err != nil {
			r.Fatal("child output: %v", err)
		}
		if c.Fatal != "" {
			r.Fatal("child: %s", c.Fatal)
		}
		for _, v := range c.Violations {
			r.Violation(v.Sig, "[threshold "+thr+"] "+v.What, v.Witness)
		}
		for _, cl := range c.Classes {
			r.Class("threshold-" + thr + ":" + cl)
		}
		for _, cs := range c.Cases {
			r.Case("thr" + thr + "|" + cs)
		}
	}
}

type history struct {
	Index int        `json:"history_index"`
	Fit   string     `json:"segment_fit"`
	Adv   string     `json:"advertise_policy"`
	Hold  int        `json:"hold_pointers"` // >0: the client keeps up to this many result pointers unreleased and releases them in random order
	Calls []callSpec `json:"calls"`
}

type sessionResult struct {
	Obs         []obsCall `json:"observations"`
	Leaks       []string  `json:"leaks,omitempty"`
	Deadlock    bool      `json:"deadlock"`
	ServerEnd   string    `json:"server_end"`
	ServerPanic string    `json:"server_panic,omitempty"`
	Notes       []string  `json:"notes,omitempty"`
	stats       shmStats
}

// runSession runs the calls of h over one connection.
func runSession(r reporter, h history, withShm bool) sessionResult {
	var res sessionResult
	d := newDuplex()
	srv := newServer()
	done := make(chan struct{})
	var serverPanic string
	go func() {
		defer close(done)
		defer pipeEnd{d, 1}.Close()
		defer func() {
			// A panic that escapes Serve would kill a real worker process: the
			// session does not continue. Keep the harness alive and report it.
			if rv := recover(); rv != nil {
				buf := make([]byte, 4096)
				serverPanic = fmt.Sprintf("%v\n%s", rv, buf[:runtime.Stack(buf, false)])
			}
		}()
		srv.Serve(pipeEnd{d, 0}, pipeEnd{d, 1})
	}()
	c := &client{d: d, w: pipeEnd{d, 0}, r: pipeEnd{d, 1}, st: &res.stats}
	if withShm && h.Hold > 0 {
		c.hold = h.Hold
		c.heldVals = map[string]string{}
		c.rng = rand.New(rand.NewPCG(uint64(h.Index)+1, 0x36))
	}
	var segs []*cliSeg
	defer func() {
		for _, s := range segs {
			s.close()
		}
	}()
	for i, cs := range h.Calls {
		if !withShm {
			cs.Advertise, cs.ReqPtr, cs.InPtr, cs.NewSeg = false, false, false, 0
		}
		if cs.NewSeg > 0 {
			s, err := newCliSeg(newName(), cs.NewSeg, &res.stats)
			if err != nil {
				r.Fatal("creating client segment: %v", err)
			}
			segs = append(segs, s)
			c.seg = s
		}
		ob := c.do(cs)
		res.Obs = append(res.Obs, ob)
		// slot accounting: the client released every pointer it received during the call
		for _, s := range segs {
			s.sweep()
			for _, e := range s.m.Header().Entries {
				if c.isHeld(s, e.Off) {
					continue // delivered, deliberately not yet released by the client
				}
				purpose := "slot allocated by the server and never delivered as a pointer"
				if sl, mine := s.mine[e.Off]; mine {
					purpose = sl.purpose
				}
				res.Leaks = append(res.Leaks, fmt.Sprintf("after call %d (%s, fail=%d): slot %d+%d still allocated: %s", i, cs.Method, cs.P.Fail, e.Off, e.Len, purpose))
				// free it so later calls are judged on their own
				s.free(e.Off)
			}
			if probs := s.m.Header().Problems(s.size); len(probs) > 0 {
				res.Leaks = append(res.Leaks, "header invariant: "+probs[0])
			}
		}
		d.mu.Lock()
		dead := d.dead
		d.mu.Unlock()
		if dead {
			res.Deadlock = true
			break
		}
	}
	// Release everything the client still holds, in random order, then account once more.
	if c.hold > 0 {
		for len(c.held) > 0 {
			c.releaseHeld(c.rng.IntN(len(c.held)), &res)
		}
		for _, s := range segs {
			s.sweep()
			for _, e := range s.m.Header().Entries {
				res.Leaks = append(res.Leaks, fmt.Sprintf("after the client released every held pointer: slot %d+%d still allocated: never delivered as a pointer", e.Off, e.Len))
				s.free(e.Off)
			}
		}
		res.Notes = append(res.Notes, c.holdNotes...)
		for i := range res.Obs {
			for j := range res.Obs[i].Streams {
				for k := range res.Obs[i].Streams[j].Batches {
					if v, ok := c.heldVals[res.Obs[i].Streams[j].Batches[k].Values]; ok {
						res.Obs[i].Streams[j].Batches[k].Values = v
					}
				}
			}
		}
	}
	c.w.Close()
	<-done
	res.ServerPanic = serverPanic
	d.mu.Lock()
	if d.dead {
		res.Deadlock = true
	}
	if rest := len(d.buf[1]); rest > 0 {
		res.ServerEnd = fmt.Sprintf("%d unread bytes from the server at the end", rest)
	}
	d.mu.Unlock()
	return res
}

// ---------------------------------------------------------------------------
// history generation

func sizeKnob(rng *rand.Rand, large bool) int64 {
	if large {
		return int64(threshold + 50 + rng.IntN(3000))
	}
	return int64(rng.IntN(40))
}

func genHistory(rng *rand.Rand, idx int) history {
	h := history{Index: idx}
	h.Fit = []string{"all", "some", "none"}[idx%3]
	h.Adv = []string{"every", "first-only", "random"}[(idx/3)%3]
	if (idx/9)%3 == 1 {
		// A client is free to keep the pointers it received for a while and to
		// release them in any order (e.g. it hands the mapped bytes to a
		// consumer): the results it then reads must still be the results of
		// those calls, and the table must be empty once all are released.
		h.Hold = 1 + idx%4
	}
	segSize := func() int {
		switch h.Fit {
		case "all":
			return shmref.HeaderSize + (256 << 10)
		case "some":
			return shmref.HeaderSize + 1200 + rng.IntN(4000)
		}
		return shmref.HeaderSize + 1 + rng.IntN(200)
	}
	n := 3 + rng.IntN(6)
	switchAt := -1
	if rng.IntN(3) == 0 {
		switchAt = 1 + rng.IntN(n-1)
	}
	attached := false
	for i := 0; i < n; i++ {
		cs := callSpec{}
		if i == 0 || i == switchAt {
			cs.NewSeg = segSize()
			attached = false
		}
		switch h.Adv {
		case "every":
			cs.Advertise = true
		case "first-only":
			cs.Advertise = i == 0 || i == switchAt
		default:
			cs.Advertise = i == 0 || i == switchAt || rng.IntN(2) == 0
		}
		cs.Method = []string{"blob", "blob", "void", "produce", "produce_dict", "produce_nested", "exchange", "exchange"}[rng.IntN(8)]
		p := P{Seed: int64(1 + rng.IntN(1000)), Logs: int64(rng.IntN(3))}
		p.N = sizeKnob(rng, rng.IntN(2) == 0)
		if rng.IntN(2) == 0 {
			p.Pad = content(p.Seed, 99, sizeKnob(rng, true))
		} else {
			p.Pad = content(p.Seed, 99, sizeKnob(rng, false))
		}
		switch rng.IntN(8) {
		case 0:
			p.Fail = 100
		case 1:
			p.Fail = 101
		case 2:
			p.Fail = int64(1 + rng.IntN(3))
		}
		switch cs.Method {
		case "produce", "produce_dict", "produce_nested":
			p.Count = int64(rng.IntN(4))
			p.Rows = int64(rng.IntN(12))
			if rng.IntN(4) == 0 {
				cs.Turns = 1 + rng.IntN(3) // client stops early
			}
			if p.N > 400 {
				p.N = 300 + p.N%300
			}
			if cs.Method == "produce_nested" && rng.IntN(2) == 0 {
				p.Rows = int64(40 + rng.IntN(40)) // only top-level buffers count toward the shm threshold
				p.N %= 60
			}
		case "exchange":
			cs.Turns = 1 + rng.IntN(4)
			cs.InRows = rng.IntN(10)
			cs.InLen = int(sizeKnob(rng, rng.IntN(2) == 0)) % 700
			p.N = int64(1 + rng.IntN(3)) // blow factor
		}
		if cs.Advertise || attached {
			cs.ReqPtr = rng.IntN(2) == 0
			if !cs.Advertise && cs.Method == "exchange" {
				// segment advertised on an earlier request only: the init request
				// references it by offset, which engages shm for the inputs too
				cs.ReqPtr = rng.IntN(4) != 0
			}
		}
		if cs.Method == "exchange" {
			// inputs travel as pointers only when this init request engaged shm
			// (advertised, or was itself a pointer request — decided again at run
			// time, because a request that does not fit goes inline)
			cs.InPtr = (cs.Advertise || cs.ReqPtr) && rng.IntN(3) != 0
		}
		cs.P = p
		if cs.Advertise {
			attached = true
		}
		h.Calls = append(h.Calls, cs)
	}
	return h
}

// firstDiff names the first differing aspect of two observations.
func firstDiff(a, b obsCall) (string, string) {
	if len(a.Notes) > 0 || len(b.Notes) > 0 {
		if strings.Join(a.Notes, ";") != strings.Join(b.Notes, ";") {
			return "client-protocol-notes", fmt.Sprintf("shm notes %q | plain notes %q", a.Notes, b.Notes)
		}
	}
	if len(a.Streams) != len(b.Streams) {
		return "stream-count", fmt.Sprintf("shm %d streams, plain %d", len(a.Streams), len(b.Streams))
	}
	for i := range a.Streams {
		sa, sb := a.Streams[i], b.Streams[i]
		if sa.Schema != sb.Schema {
			return "schema", fmt.Sprintf("stream %d: shm %s | plain %s", i, sa.Schema, sb.Schema)
		}
		if len(sa.Batches) != len(sb.Batches) {
			return "batch-count", fmt.Sprintf("stream %d: shm %d batches, plain %d", i, len(sa.Batches), len(sb.Batches))
		}
		for j := range sa.Batches {
			ba, bb := sa.Batches[j], sb.Batches[j]
			switch {
			case ba.Kind != bb.Kind:
				return "batch-kind", fmt.Sprintf("stream %d batch %d: shm %s, plain %s", i, j, ba.Kind, bb.Kind)
			case ba.Values != bb.Values:
				return "values", fmt.Sprintf("stream %d batch %d: shm %.300s | plain %.300s", i, j, ba.Values, bb.Values)
			case ba.Meta != bb.Meta:
				return "metadata", fmt.Sprintf("stream %d batch %d: shm {%s} | plain {%s}", i, j, ba.Meta, bb.Meta)
			}
		}
		if sa.End != sb.End {
			return "stream-end", fmt.Sprintf("stream %d: shm %q, plain %q", i, sa.End, sb.End)
		}
	}
	return "", ""
}

func leakClass(l string) string {
	switch {
	case strings.Contains(l, "header invariant"):
		return "header-invariant"
	case strings.Contains(l, "written after its slot"):
		return "write-outside-live-slot"
	case strings.Contains(l, "request params"):
		return "request-params-slot"
	case strings.Contains(l, "exchange input"):
		if strings.Contains(l, "fail=100") || strings.Contains(l, "fail=101") {
			return "exchange-input-slot:init-error"
		}
		if strings.Contains(l, "fail=0)") {
			return "exchange-input-slot"
		}
		return "exchange-input-slot:stream-error"
	case strings.Contains(l, "never delivered"):
		return "server-output-slot"
	}
	return "other"
}

func methodKind(m string) string {
	switch m {
	case "blob", "void":
		return "unary"
	case "exchange":
		return "exchange"
	}
	return "producer"
}

// ---------------------------------------------------------------------------

type totals struct {
	mu sync.Mutex
	st shmStats
}

func (t *totals) add(s shmStats) {
	t.mu.Lock()
	t.st.reqViaShm += s.reqViaShm
	t.st.reqInline += s.reqInline
	t.st.inViaShm += s.inViaShm
	t.st.putNoFit += s.putNoFit
	t.mu.Unlock()
}

func runDifferential(r reporter, idx int, tot *totals) {
	rng := r.Rand(1, uint64(idx))
	h := genHistory(rng, idx)
	shm := runSession(r, h, true)
	plain := runSession(r, h, false)
	tot.add(shm.stats)

	witness := func() map[string]any {
		return map[string]any{"history": h, "with_segment": shm, "without_segment": plain}
	}
	if plain.Deadlock || plain.ServerPanic != "" || len(plain.Obs) != len(h.Calls) {
		// the plain session itself broke: not this property's business (frame sync is C02) — skip, but say so
		r.Class("plain-session-broken")
		r.Case("")
		return
	}
	if shm.ServerPanic != "" && plain.ServerPanic == "" {
		r.Violation("diff:server-panic-with-segment", "a panic escaped Serve in the session with a segment (the plain session completed): "+strings.SplitN(shm.ServerPanic, "\n", 2)[0], witness())
		return
	}
	if shm.Deadlock {
		r.Violation("diff:deadlock-with-segment", "the session with a segment deadlocked (client and server both waiting) while the plain session completed", witness())
		return
	}
	viaShm := map[string]bool{}
	for i := range h.Calls {
		a, b := shm.Obs[i], plain.Obs[i]
		if what, detail := firstDiff(a, b); what != "" {
			r.Violation(fmt.Sprintf("diff:%s:%s", methodKind(h.Calls[i].Method), what),
				fmt.Sprintf("call %d (%s) observed differently with a segment: %s", i, h.Calls[i].Method, detail), witness())
			break
		}
		for _, st := range a.Streams {
			for _, bt := range st.Batches {
				if bt.ViaShm {
					viaShm[methodKind(h.Calls[i].Method)] = true
					if h.Calls[i].Method == "produce_dict" {
						viaShm["top-level-dictionary-output"] = true
					}
					if h.Calls[i].Method == "produce_nested" {
						viaShm["nested-dictionary-output"] = true
					}
				} else if bt.Kind == "data" && h.Calls[i].Advertise {
					r.Class("advertised-but-inline:" + h.Fit)
				}
			}
		}
	}
	if shm.ServerEnd != plain.ServerEnd {
		r.Violation("diff:trailing-bytes", fmt.Sprintf("end of session: with segment %q, plain %q", shm.ServerEnd, plain.ServerEnd), witness())
	}
	seen := map[string]bool{}
	for _, l := range shm.Leaks {
		cl := leakClass(l)
		if seen[cl] {
			continue
		}
		seen[cl] = true
		r.Violation("leak:"+cl, "after the client released every pointer it received the allocation table is not empty: "+l, witness())
	}
	if len(shm.Notes) > 0 {
		r.Violation("held-pointer:unresolvable-or-unfreeable", "a pointer the client received and kept could no longer be resolved / freed when it released it: "+shm.Notes[0], witness())
	}
	if h.Hold > 0 {
		r.Class("client-holds-pointers")
		held := false
		for _, o := range shm.Obs {
			for _, st := range o.Streams {
				for _, bt := range st.Batches {
					if bt.ViaShm && bt.Kind == "data" {
						held = true
					}
				}
			}
		}
		if held {
			r.Class("held-pointers-resolved-late")
		}
	}
	// observation classes
	for k := range viaShm {
		r.Class("via-shm:" + k)
	}
	if shm.stats.reqViaShm > 0 {
		r.Class("request-via-pointer")
	}
	if shm.stats.inViaShm > 0 {
		r.Class("exchange-input-via-pointer")
	}
	if shm.stats.putNoFit > 0 {
		r.Class("client-put-did-not-fit")
	}
	r.Class("fit:" + h.Fit)
	r.Class("advertise:" + h.Adv)
	for i, cs := range h.Calls {
		if cs.NewSeg > 0 && i > 0 {
			r.Class("segment-changed-mid-connection")
		}
		if cs.P.Fail == 100 || cs.P.Fail == 101 {
			if cs.Method == "exchange" && cs.InPtr {
				r.Class("init-error-with-pointer-input")
			}
		}
		if cs.P.Fail >= 1 && cs.P.Fail <= 99 && isStreamMethod(cs.Method) {
			r.Class("error-mid-stream")
		}
		if !cs.Advertise && cs.ReqPtr {
			r.Class("pointer-request-on-cached-segment")
		}
		if !cs.Advertise && i < len(shm.Obs) && shm.Obs[i].ReqViaShm {
			pol := map[string]string{"first-only": "once", "random": "some", "every": "every"}[h.Adv]
			r.Class("advertise:" + pol + ":" + methodKind(cs.Method) + "-pointer-request")
			if shm.Obs[i].InViaShm > 0 {
				r.Class("advertise:" + pol + ":stream-pointer-input")
			}
		}
	}
	var shape []string
	for _, cs := range h.Calls {
		shape = append(shape, fmt.Sprintf("%s/%v%v%v/f%d/n%d", cs.Method, cs.Advertise, cs.ReqPtr, cs.InPtr, cs.P.Fail, cs.P.N/100))
	}
	r.Case("diff|" + h.Fit + "|" + h.Adv + "|" + strings.Join(shape, ","))
	if idx < 3 {
		r.Sample(map[string]any{"arm": "differential", "history": h, "requests_via_pointer": shm.stats.reqViaShm, "inputs_via_pointer": shm.stats.inViaShm})
	}
}

// ---------------------------------------------------------------------------
// negative arm: pointer batches on a connection that never advertised a segment

func hasKind(o obsCall, kind string) bool {
	for _, st := range o.Streams {
		for _, b := range st.Batches {
			if b.Kind == kind {
				return true
			}
		}
	}
	return false
}

// runBogusAdvert (domain audit): a request that carries a stale, malformed or
// mis-sized segment advertisement but ships everything inline. The statement
// compares an advertising session with a plain one; a segment the server cannot
// attach must degrade to the plain behaviour (shmConnState.ensure documents
// "failures are silently degraded into no shm"), and the session continues.
func runBogusAdvert(r reporter, idx int) {
	rng := r.Rand(4, uint64(idx))
	kind := bogusKinds[idx%len(bogusKinds)]
	name := newName()
	size := shmref.HeaderSize + 4096 + rng.IntN(100000)
	m, err := shmref.Create(name, size)
	if err != nil {
		r.Fatal("probe segment: %v", err)
	}
	defer func() { m.Close(); shmref.Unlink(name) }()
	mk := func(method string) callSpec {
		cs := callSpec{Method: method, P: P{Seed: int64(1 + rng.IntN(500)), N: sizeKnob(rng, rng.IntN(2) == 0), Logs: int64(rng.IntN(2))}}
		switch method {
		case "produce":
			cs.P.Count, cs.P.Rows = int64(1+rng.IntN(3)), int64(1+rng.IntN(8))
			cs.P.N %= 300
		case "exchange":
			cs.Turns, cs.InRows, cs.InLen = 1+rng.IntN(3), 1+rng.IntN(6), rng.IntN(300)
			cs.P.N = 1
		}
		return cs
	}
	methods := []string{"blob", "void", "produce", "exchange"}
	calls := []callSpec{mk(methods[rng.IntN(4)]), mk(methods[rng.IntN(4)]), mk(methods[rng.IntN(4)])}
	if kind == "name-without-slash" {
		// a VALID spelling (documented leading-slash fallback): the server attaches and may answer
		// through the segment; this probe's client has no mapping, so keep the call unary and large
		calls[1] = mk("blob")
		calls[1].P.N = 2000
	}
	ref := history{Index: idx, Fit: "n/a", Adv: "bogus", Calls: append([]callSpec{}, calls...)}
	calls[1].BogusAdv, calls[1].BogusName, calls[1].BogusSize = kind, name, size
	h := history{Index: idx, Fit: "n/a", Adv: "bogus", Calls: calls}
	got := runSession(r, h, false)
	want := runSession(r, ref, false)
	witness := map[string]any{"bogus_advert": kind, "history": h, "observed": got, "plain_session": want}
	r.Class("bogus-advert:" + kind)
	r.Case(fmt.Sprintf("bogus|%s|%s|%s|%s", kind, calls[0].Method, calls[1].Method, calls[2].Method))
	if want.Deadlock || want.ServerPanic != "" || len(want.Obs) != 3 {
		r.Class("plain-session-broken")
		return
	}
	switch {
	case got.ServerPanic != "":
		r.Violation("bogus-advert:"+kind+":server-panic", "a panic escaped Serve after a request advertising an unusable segment: "+strings.SplitN(got.ServerPanic, "\n", 2)[0], witness)
		return
	case got.Deadlock || len(got.Obs) != 3:
		r.Violation("bogus-advert:"+kind+":session-stuck", "the session did not continue after a request advertising an unusable segment", witness)
		return
	}
	for i := range calls {
		// a usable advertisement (name-without-slash) may legitimately ship results through
		// the segment the client cannot resolve here (it has none) — compare only when inline
		if what, detail := firstDiff(got.Obs[i], want.Obs[i]); what != "" {
			if kind == "name-without-slash" && strings.Contains(got.Obs[i].render(), "pointer-unresolvable") {
				r.Class("bogus-advert:name-without-slash-attached")
				continue
			}
			r.Violation("bogus-advert:"+kind+":"+what, fmt.Sprintf("call %d observed differently from the plain session after an unusable advertisement (%s)", i, detail), witness)
			return
		}
	}
	if hdr := m.Header(); len(hdr.Entries) != 0 && kind != "name-without-slash" {
		r.Violation("bogus-advert:"+kind+":table-touched", "the server allocated in a segment whose advertisement it should have refused", witness)
	}
}

func runUnadvertised(r reporter, idx int) {
	rng := r.Rand(2, uint64(idx))
	scen := []string{"unary-request", "stream-request", "exchange-input"}[idx%3]
	mk := func(method string) callSpec {
		cs := callSpec{Method: method, P: P{Seed: int64(1 + rng.IntN(500)), N: sizeKnob(rng, rng.IntN(2) == 0), Logs: int64(rng.IntN(2))}}
		switch method {
		case "produce":
			cs.P.Count, cs.P.Rows = int64(1+rng.IntN(3)), int64(1+rng.IntN(8))
			cs.P.N %= 300
		case "exchange":
			cs.Turns, cs.InRows, cs.InLen = 1+rng.IntN(3), 1+rng.IntN(6), rng.IntN(300)
			cs.P.N = 1
		}
		return cs
	}
	methods := []string{"blob", "void", "produce", "exchange"}
	before := mk(methods[rng.IntN(len(methods))])
	after := mk(methods[rng.IntN(len(methods))])
	var bad callSpec
	switch scen {
	case "unary-request":
		bad = mk([]string{"blob", "void"}[rng.IntN(2)])
		bad.RawPtr = "request"
	case "stream-request":
		bad = mk([]string{"produce", "exchange"}[rng.IntN(2)])
		bad.RawPtr = "request"
	default:
		bad = mk("exchange")
		bad.RawPtr = "input"
	}
	h := history{Index: idx, Fit: "n/a", Adv: "never", Calls: []callSpec{before, bad, after}}
	ref := history{Index: idx, Fit: "n/a", Adv: "never", Calls: []callSpec{before, after}}
	got := runSession(r, h, false) // withShm=false keeps RawPtr: the client has no segment at all
	want := runSession(r, ref, false)
	witness := map[string]any{"scenario": scen, "history": h, "observed": got, "reference_session_without_the_pointer_call": want}
	r.Class("unadvertised:" + scen)
	r.Case(fmt.Sprintf("unadv|%s|%s|%s|%s", scen, before.Method, bad.Method, after.Method))
	if want.Deadlock || len(want.Obs) != 2 {
		r.Class("plain-session-broken")
		return
	}
	if got.ServerPanic != "" {
		r.Violation("unadvertised:"+scen+":server-panic", "a panic escaped Serve after a pointer batch on a never-advertised connection: "+strings.SplitN(got.ServerPanic, "\n", 2)[0], witness)
		return
	}
	if len(got.Obs) < 2 {
		r.Violation("unadvertised:"+scen+":session-ended", "the session ended before the pointer call was answered", witness)
		return
	}
	if what, detail := firstDiff(got.Obs[0], want.Obs[0]); what != "" {
		r.Fatal("negative arm: first call differs between two plain sessions (%s: %s)", what, detail)
	}
	ans := got.Obs[1]
	switch {
	case !hasKind(ans, "error"):
		r.Violation("unadvertised:"+scen+":no-error-answer",
			fmt.Sprintf("a pointer batch (%s) on a connection that never advertised a segment was not answered with an error: %s", scen, strings.ReplaceAll(ans.render(), "\n", " | ")), witness)
		return
	case scen != "exchange-input" && hasKind(ans, "data"):
		r.Violation("unadvertised:"+scen+":data-besides-error", "the refused pointer request was also answered with data", witness)
		return
	}
	// the session continues: the next call is served exactly as in a fresh plain session
	switch {
	case got.Deadlock:
		r.Violation("unadvertised:"+scen+":session-stuck", "after the error answer the session deadlocked (client waits for the next answer, server waits for input)", witness)
	case len(got.Obs) < 3:
		r.Violation("unadvertised:"+scen+":session-ended", "after the error answer the next call was not served (connection ended)", witness)
	default:
		if what, detail := firstDiff(got.Obs[2], want.Obs[1]); what != "" {
			r.Violation("unadvertised:"+scen+":next-call-not-served", fmt.Sprintf("the call after the refused pointer was not answered as in a fresh session (%s: %s)", what, detail), witness)
		} else if got.ServerEnd != "" {
			r.Violation("unadvertised:"+scen+":stray-answer", "the server sent extra bytes nobody asked for: "+got.ServerEnd, witness)
		}
	}
	if idx < 3 {
		r.Sample(map[string]any{"arm": "unadvertised", "scenario": scen, "answer": ans})
	}
}

func main() {
	mon.ChildMain(map[string]mon.ChildFunc{"diff": diffChild})
	r := mon.Start("C36")
	defer r.Finish()
	defer shmref.CleanupPrefix(namePrefix)
	if os.Getenv("VGI_RPC_SHM_MIN_BATCH_BYTES") != fmt.Sprint(threshold) {
		r.Fatal("C36 needs VGI_RPC_SHM_MIN_BATCH_BYTES=%d (check.conf CHECK_ENV)", threshold)
	}
	r.SetRule("differential: history i = 3..8 calls (blob/void unary, three producers incl. top-level and nested dictionary outputs, exchange) with small/large params, results, inputs around the 256-byte shm threshold, scripted init errors / panics / mid-stream errors, early client stop; segment fit class i mod 3 (all/some/none), advertise policy per request (every request / first request of the connection only / random subset always including the first use; a later call on an advertise-once connection references the cached segment with a pointer init request and then sends pointer inputs), optional segment switch; run with and without the segment and compared call by call; slot table checked after every call. negative: scenario j mod 3 (pointer as unary request / stream request / exchange input on a never-advertised connection). distinct = distinct (fit, policy, per-call method+flags+failure+size class)")
	r.Assume("the reference client is written from the protocol (request stream, then for stream methods one input stream sent in lockstep, EOS also after an error); pointer layouts as documented in shm.go")
	r.Assume("client and server are joined by unbounded in-memory pipes (an OS pipe whose buffer never fills); a state with both sides blocked reading and both pipes empty is reported as a deadlock — no wall-clock is involved")
	r.Assume("lockstep: the client touches its segment only while the server is blocked reading (all slot writes of a step happen before the step's bytes are sent)")
	r.Assume("a session whose PLAIN run already breaks is skipped (frame synchronisation of plain sessions is property C02)")
	r.Require("via-shm:unary", "via-shm:producer", "via-shm:exchange", "via-shm:top-level-dictionary-output", "via-shm:nested-dictionary-output",
		"request-via-pointer", "exchange-input-via-pointer", "client-put-did-not-fit", "fit:all", "fit:some", "fit:none",
		"advertise:every", "advertise:first-only", "advertise:random", "segment-changed-mid-connection", "error-mid-stream",
		"init-error-with-pointer-input", "pointer-request-on-cached-segment", "advertised-but-inline:none", "advertised-but-inline:some",
		"unadvertised:unary-request", "unadvertised:stream-request", "unadvertised:exchange-input",
		"bogus-advert:missing-name", "bogus-advert:size-too-big", "bogus-advert:size-too-small", "bogus-advert:size-huge", "bogus-advert:name-without-slash",
		"advertise:once:unary-pointer-request", "advertise:once:producer-pointer-request", "advertise:once:exchange-pointer-request",
		"advertise:once:stream-pointer-input", "advertise:some:stream-pointer-input", "advertise:some:exchange-pointer-request",
		"threshold-0:via-shm:unary", "threshold-0:via-shm:producer", "threshold-0:via-shm:exchange",
		"client-holds-pointers", "held-pointers-resolved-late")

	nDiff := r.N(300, 10000)
	nNeg := r.N(60, 1500)
	nBogus := len(bogusKinds) * r.N(4, 60)
	workers := r.N(4, 12)
	tot := &totals{}
	var wg sync.WaitGroup
	var next atomic.Int64
	for w := 0; w < workers; w++ {
		wg.Add(1)
		go func() {
			defer wg.Done()
			for {
				i := int(next.Add(1)) - 1
				switch {
				case i < nDiff:
					runDifferential(r, i, tot)
				case i < nDiff+nNeg:
					runUnadvertised(r, i-nDiff)
				case i < nDiff+nNeg+nBogus:
					runBogusAdvert(r, i-nDiff-nNeg)
				default:
					return
				}
			}
		}()
	}
	wg.Wait()
	// Same histories' successors with every non-empty batch eligible for shm (threshold 0),
	// in child processes because the library reads the variable once.
	runOtherThreshold(r, "0", nDiff, nDiff+r.N(90, 2000), r.N(3, 12))
	r.Count("client.requests_via_pointer", tot.st.reqViaShm)
	r.Count("client.requests_inline", tot.st.reqInline)
	r.Count("client.exchange_inputs_via_pointer", tot.st.inViaShm)
	r.Count("client.put_did_not_fit", tot.st.putNoFit)
	if n, head := shmref.RaceReports(); n > 0 {
		r.Violation("race-detector-report", fmt.Sprintf("%d data race report(s) from the Go race detector during the run", n), head)
	} else {
		r.Set("race_reports", 0)
	}
}
