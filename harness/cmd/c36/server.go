package main

import (
	"context"
	"fmt"
	"strings"

	"github.com/Query-farm/vgi-rpc-go/vgirpc"
	"github.com/apache/arrow-go/v18/arrow"
	"github.com/apache/arrow-go/v18/arrow/array"
	"github.com/apache/arrow-go/v18/arrow/memory"
)

// P is the parameter struct shared by every method of the test service.
// Handlers are pure functions of (params, inputs), so the same history gives
// the same results with and without a shared-memory segment.
type P struct {
	N     int64  `vgirpc:"n"`     // payload size knob (chars per string / blow factor)
	Seed  int64  `vgirpc:"seed"`  // content seed
	Pad   string `vgirpc:"pad"`   // makes the request batch large
	Logs  int64  `vgirpc:"logs"`  // client log lines per invocation
	Fail  int64  `vgirpc:"fail"`  // 0 none, 100 init error (streams) / error (unary), 101 panic, k in 1..99: error at turn k
	Count int64  `vgirpc:"count"` // producer turns before Finish
	Rows  int64  `vgirpc:"rows"`  // rows per produced batch
}

var paramSchema = arrow.NewSchema([]arrow.Field{
	{Name: "n", Type: arrow.PrimitiveTypes.Int64}, {Name: "seed", Type: arrow.PrimitiveTypes.Int64},
	{Name: "pad", Type: arrow.BinaryTypes.String}, {Name: "logs", Type: arrow.PrimitiveTypes.Int64},
	{Name: "fail", Type: arrow.PrimitiveTypes.Int64}, {Name: "count", Type: arrow.PrimitiveTypes.Int64},
	{Name: "rows", Type: arrow.PrimitiveTypes.Int64},
}, nil)

var (
	produceSchema = arrow.NewSchema([]arrow.Field{
		{Name: "idx", Type: arrow.PrimitiveTypes.Int64}, {Name: "payload", Type: arrow.BinaryTypes.String, Nullable: true},
	}, nil)
	produceDictSchema = arrow.NewSchema([]arrow.Field{
		{Name: "idx", Type: arrow.PrimitiveTypes.Int64},
		{Name: "tag", Type: &arrow.DictionaryType{IndexType: arrow.PrimitiveTypes.Int16, ValueType: arrow.BinaryTypes.String}, Nullable: true},
		{Name: "payload", Type: arrow.BinaryTypes.String, Nullable: true},
	}, nil)
	produceNestedDictSchema = arrow.NewSchema([]arrow.Field{
		{Name: "idx", Type: arrow.PrimitiveTypes.Int64},
		{Name: "st", Type: arrow.StructOf(
			arrow.Field{Name: "state", Type: &arrow.DictionaryType{IndexType: arrow.PrimitiveTypes.Int8, ValueType: arrow.BinaryTypes.String}, Nullable: true},
			arrow.Field{Name: "payload", Type: arrow.BinaryTypes.String, Nullable: true}), Nullable: true},
	}, nil)
	exchangeIn = arrow.NewSchema([]arrow.Field{
		{Name: "x", Type: arrow.PrimitiveTypes.Int64}, {Name: "s", Type: arrow.BinaryTypes.String},
	}, nil)
	exchangeOut = arrow.NewSchema([]arrow.Field{
		{Name: "y", Type: arrow.PrimitiveTypes.Int64}, {Name: "s", Type: arrow.BinaryTypes.String}, {Name: "sum", Type: arrow.PrimitiveTypes.Int64},
	}, nil)
)

var mem = memory.NewGoAllocator()

func content(seed int64, i int64, n int64) string {
	if n <= 0 {
		return ""
	}
	var sb strings.Builder
	x := uint64(seed)*0x9E3779B97F4A7C15 + uint64(i)*0xBF58476D1CE4E5B9 + 1
	for int64(sb.Len()) < n {
		x ^= x << 13
		x ^= x >> 7
		x ^= x << 17
		sb.WriteByte("abcdefghijklmnopqrstuvwxyz012345"[x&31])
	}
	return sb.String()
}

func logLines(log func(string), n int64, where string) {
	for i := int64(0); i < n; i++ {
		log(fmt.Sprintf("%s log %d", where, i))
	}
}

type producerState struct {
	p    P
	turn int64
	kind string // "", "dict", "nested"
}

func (s *producerState) Produce(ctx context.Context, out *vgirpc.OutputCollector, cc *vgirpc.CallContext) error {
	s.turn++
	logLines(func(m string) { out.ClientLog(vgirpc.LogInfo, m) }, s.p.Logs, fmt.Sprintf("produce turn %d", s.turn))
	if s.p.Fail >= 1 && s.p.Fail <= 99 && s.turn == s.p.Fail {
		return &vgirpc.RpcError{Type: "ValueError", Message: fmt.Sprintf("scripted failure at turn %d", s.turn)}
	}
	if s.turn > s.p.Count {
		return out.Finish()
	}
	rows := int(s.p.Rows)
	ib := array.NewInt64Builder(mem)
	defer ib.Release()
	for i := 0; i < rows; i++ {
		ib.Append(s.turn*1000 + int64(i))
	}
	idx := ib.NewArray()
	defer idx.Release()
	payload := func(b *array.StringBuilder) {
		for i := 0; i < rows; i++ {
			if i%5 == 4 {
				b.AppendNull()
			} else {
				b.Append(content(s.p.Seed, s.turn*1000+int64(i), s.p.N))
			}
		}
	}
	tags := []string{"red", "green", "blue"}
	switch s.kind {
	case "dict":
		db := array.NewDictionaryBuilder(mem, produceDictSchema.Field(1).Type.(*arrow.DictionaryType)).(*array.BinaryDictionaryBuilder)
		defer db.Release()
		for i := 0; i < rows; i++ {
			if i%4 == 3 {
				db.AppendNull()
			} else {
				_ = db.AppendString(tags[(int(s.turn)+i)%3])
			}
		}
		tag := db.NewArray()
		defer tag.Release()
		sb := array.NewStringBuilder(mem)
		defer sb.Release()
		payload(sb)
		pl := sb.NewArray()
		defer pl.Release()
		return out.Emit(array.NewRecordBatch(produceDictSchema, []arrow.Array{idx, tag, pl}, int64(rows)))
	case "nested":
		stb := array.NewStructBuilder(mem, produceNestedDictSchema.Field(1).Type.(*arrow.StructType))
		defer stb.Release()
		db := stb.FieldBuilder(0).(*array.BinaryDictionaryBuilder)
		pb := stb.FieldBuilder(1).(*array.StringBuilder)
		for i := 0; i < rows; i++ {
			stb.Append(true)
			_ = db.AppendString(tags[(int(s.turn)+i)%3])
			pb.Append(content(s.p.Seed, s.turn*1000+int64(i), s.p.N))
		}
		st := stb.NewArray()
		defer st.Release()
		return out.Emit(array.NewRecordBatch(produceNestedDictSchema, []arrow.Array{idx, st}, int64(rows)))
	}
	sb := array.NewStringBuilder(mem)
	defer sb.Release()
	payload(sb)
	pl := sb.NewArray()
	defer pl.Release()
	return out.Emit(array.NewRecordBatch(produceSchema, []arrow.Array{idx, pl}, int64(rows)))
}

type exchangeState struct {
	p    P
	turn int64
	sum  int64
}

func (s *exchangeState) Exchange(ctx context.Context, in arrow.RecordBatch, out *vgirpc.OutputCollector, cc *vgirpc.CallContext) error {
	s.turn++
	logLines(func(m string) { out.ClientLog(vgirpc.LogInfo, m) }, s.p.Logs, fmt.Sprintf("exchange turn %d", s.turn))
	if s.p.Fail >= 1 && s.p.Fail <= 99 && s.turn == s.p.Fail {
		return &vgirpc.RpcError{Type: "ValueError", Message: fmt.Sprintf("scripted failure at turn %d", s.turn)}
	}
	xs := in.Column(0).(*array.Int64)
	ss := in.Column(1).(*array.String)
	yb, sb, tb := array.NewInt64Builder(mem), array.NewStringBuilder(mem), array.NewInt64Builder(mem)
	defer yb.Release()
	defer sb.Release()
	defer tb.Release()
	blow := int(s.p.N)
	if blow < 1 {
		blow = 1
	}
	for i := 0; i < int(in.NumRows()); i++ {
		s.sum += xs.Value(i)
		yb.Append(xs.Value(i) * s.p.Seed)
		sb.Append(strings.Repeat(strings.ToUpper(ss.Value(i)), blow))
		tb.Append(s.sum)
	}
	y, sa, t := yb.NewArray(), sb.NewArray(), tb.NewArray()
	defer y.Release()
	defer sa.Release()
	defer t.Release()
	return out.Emit(array.NewRecordBatch(exchangeOut, []arrow.Array{y, sa, t}, in.NumRows()))
}

func scripted(p P) error {
	switch p.Fail {
	case 100:
		return &vgirpc.RpcError{Type: "ValueError", Message: "scripted failure"}
	case 101:
		panic("scripted panic")
	}
	return nil
}

func newServer() *vgirpc.Server {
	s := vgirpc.NewServer()
	s.SetServerID("srv-c36")
	vgirpc.Unary(s, "blob", func(ctx context.Context, cc *vgirpc.CallContext, p P) (string, error) {
		logLines(func(m string) { cc.ClientLog(vgirpc.LogInfo, m) }, p.Logs, "blob")
		if err := scripted(p); err != nil {
			return "", err
		}
		return fmt.Sprintf("%d:%s", len(p.Pad), content(p.Seed, 0, p.N)), nil
	})
	vgirpc.UnaryVoid(s, "void", func(ctx context.Context, cc *vgirpc.CallContext, p P) error {
		logLines(func(m string) { cc.ClientLog(vgirpc.LogInfo, m) }, p.Logs, "void")
		return scripted(p)
	})
	prod := func(kind string) func(context.Context, *vgirpc.CallContext, P) (*vgirpc.StreamResult, error) {
		schema := map[string]*arrow.Schema{"": produceSchema, "dict": produceDictSchema, "nested": produceNestedDictSchema}[kind]
		return func(ctx context.Context, cc *vgirpc.CallContext, p P) (*vgirpc.StreamResult, error) {
			logLines(func(m string) { cc.ClientLog(vgirpc.LogInfo, m) }, p.Logs, "produce init")
			if err := scripted(p); err != nil {
				return nil, err
			}
			return &vgirpc.StreamResult{OutputSchema: schema, State: &producerState{p: p, kind: kind}}, nil
		}
	}
	vgirpc.Producer(s, "produce", produceSchema, prod(""))
	vgirpc.Producer(s, "produce_dict", produceDictSchema, prod("dict"))
	vgirpc.Producer(s, "produce_nested", produceNestedDictSchema, prod("nested"))
	vgirpc.Exchange(s, "exchange", exchangeOut, exchangeIn, func(ctx context.Context, cc *vgirpc.CallContext, p P) (*vgirpc.StreamResult, error) {
		logLines(func(m string) { cc.ClientLog(vgirpc.LogInfo, m) }, p.Logs, "exchange init")
		if err := scripted(p); err != nil {
			return nil, err
		}
		return &vgirpc.StreamResult{OutputSchema: exchangeOut, InputSchema: exchangeIn, State: &exchangeState{p: p}}, nil
	})
	return s
}
